/-
C14 — integer and packed little-endian byte delivery are equivalent: the frame buffer gets identical
per-channel samples (whatever its previous contents) and the MD5 / sample-count context advances
identically. Everything is proved for every byte width `k ≥ 1` (hence for the 1..=4 the encoder
accepts), every channel count `≥ 1`, every capacity and every fill length.
-/
import FlacVerif.Lemmas.Source
namespace FlacVerif
open SourceLemmas

/-- A `k`-byte sample survives the trip through its little-endian bytes (sign extension included). -/
theorem C14_le_roundtrip (k : Nat) (hk : 1 ≤ k ∧ k ≤ 4) (v : Int) (hv : fitsBytes k v) :
    leToInt (Rfc.toLeBytes k v) = v :=
  le_roundtrip k hk.1 v hv

/-- `le_bytes_to_i32s` inverts `i32s_to_le_bytes` on samples of the stated width. -/
theorem C14_le_roundtrip_list (k : Nat) (hk : 1 ≤ k ∧ k ≤ 4) (xs : List Int) (hx : ∀ x ∈ xs, fitsBytes k x) :
    leBytesToI32s k (i32sToLeBytes k xs) = xs :=
  leBytesToI32s_roundtrip k hk.1 xs hx

/-- **Frame buffer.** Filling from the packed bytes of `xs` is the same as filling from `xs`:
same acceptance / rejection, same resulting buffer. -/
theorem C14_fill (fb : FrameBuf) (k : Nat) (hk : 1 ≤ k ∧ k ≤ 4) (xs : List Int) (hx : ∀ x ∈ xs, fitsBytes k x) :
    fb.fillLeBytes (i32sToLeBytes k xs) k = fb.fillInterleaved xs := by
  have hkp : 0 < k := hk.1
  have hmod : (i32sToLeBytes k xs).length % k = 0 := by rw [i32sToLeBytes_length]; exact Nat.mul_mod_right _ _
  have hdiv : (i32sToLeBytes k xs).length / k = xs.length := by
    rw [i32sToLeBytes_length]; exact Nat.mul_div_cancel_left _ hkp
  simp only [FrameBuf.fillLeBytes, FrameBuf.fillInterleaved, hk, and_self, not_true_eq_false, hmod, ne_eq,
    not_true_eq_false, or_self, ↓reduceIte, hdiv, leBytesToI32s_roundtrip k hk.1 xs hx]

/-- An accepted fill keeps the shape and records the number of inter-channel samples. -/
theorem C14_fill_accepts (fb : FrameBuf) (hlen : fb.samples.length = fb.size * fb.channels)
    (xs : List Int) (h1 : xs.length ≤ fb.size * fb.channels) (h2 : xs.length % fb.channels = 0) :
    ∃ fb', fb.fillInterleaved xs = .ok fb' ∧ fb'.filled = xs.length / fb.channels ∧
      fb'.samples.length = fb.samples.length ∧ fb'.size = fb.size ∧ fb'.channels = fb.channels := by
  have hno : ¬ (xs.length > fb.samples.length ∨ xs.length % fb.channels ≠ 0) := by omega
  refine ⟨{ fb with samples := deinterleave xs fb.channels fb.size fb.samples, filled := xs.length / fb.channels },
    by rw [FrameBuf.fillInterleaved, if_neg hno], rfl, ?_, rfl, rfl⟩
  exact deinterleave_length _ _ _ _

/-- **What the encoder reads.** After an accepted fill, channel `c` is exactly the `c`-th phase of
the interleaved input — no trace of the previous contents `fb.samples`. -/
theorem C14_channel_slice (fb : FrameBuf) (hch : 1 ≤ fb.channels) (hlen : fb.samples.length = fb.size * fb.channels)
    (xs : List Int) (fb' : FrameBuf) (h : fb.fillInterleaved xs = .ok fb') (c : Nat) (hc : c < fb.channels) :
    fb'.channelSlice c = (List.range (xs.length / fb.channels)).map (fun t => xs.getD (fb.channels * t + c) 0) := by
  obtain ⟨hle, _, rfl⟩ := fillInterleaved_ok fb fb' xs h
  simp only [FrameBuf.channelSlice]
  by_cases h1 : fb.channels = 1
  · have hc0 : c = 0 := by omega
    subst hc0
    simp only [h1, Nat.zero_mul, List.drop_zero, Nat.div_one, Nat.one_mul, Nat.add_zero]
    rw [deinterleave_mono_take _ _ _ hle, range_map_getD]
  · exact deinterleave_slice xs fb.samples fb.channels fb.size hch h1 hlen hle c hc

/-- **Stale-content independence** (a full block followed by a shorter one, or any other history):
two buffers with the same channel count (and any stale contents, even different capacities) give the
same channels after the same accepted fill. -/
theorem C14_stale_independent (fb1 fb2 : FrameBuf) (hchs : fb1.channels = fb2.channels)
    (hch : 1 ≤ fb1.channels) (hl1 : fb1.samples.length = fb1.size * fb1.channels)
    (hl2 : fb2.samples.length = fb2.size * fb2.channels) (xs : List Int) (fb1' fb2' : FrameBuf)
    (h1 : fb1.fillInterleaved xs = .ok fb1') (h2 : fb2.fillInterleaved xs = .ok fb2') (c : Nat) (hc : c < fb1.channels) :
    fb1'.channelSlice c = fb2'.channelSlice c := by
  rw [C14_channel_slice fb1 hch hl1 xs fb1' h1 c hc,
    C14_channel_slice fb2 (hchs ▸ hch) hl2 xs fb2' h2 c (hchs ▸ hc), hchs]

/-- Byte and integer delivery read back the same channels (combination of `C14_fill` and
`C14_channel_slice`), from any previous buffer contents. -/
theorem C14_bytes_channel_slice (fb : FrameBuf) (hch : 1 ≤ fb.channels) (hlen : fb.samples.length = fb.size * fb.channels)
    (k : Nat) (hk : 1 ≤ k ∧ k ≤ 4) (xs : List Int) (hx : ∀ x ∈ xs, fitsBytes k x) (fb' : FrameBuf)
    (h : fb.fillLeBytes (i32sToLeBytes k xs) k = .ok fb') (c : Nat) (hc : c < fb.channels) :
    fb'.channelSlice c = (List.range (xs.length / fb.channels)).map (fun t => xs.getD (fb.channels * t + c) 0) := by
  rw [C14_fill fb k hk xs hx] at h
  exact C14_channel_slice fb hch hlen xs fb' h c hc

/-- **Context (MD5 input, sample count, frame count).** Delivering the packed bytes of a block
advances the context exactly as delivering the integers does. The multi-thread path converts the
integers with `i32sToLeBytes` and then calls `fillLeBytes`, so this is also its statement.
No divisibility assumption is needed. -/
theorem C14_context (bps ch : Nat) (hb : 0 < (bps + 7) / 8) (c : Ctx) (xs : List Int) :
    c.fillLeBytes ch ((bps + 7) / 8) (i32sToLeBytes ((bps + 7) / 8) xs) = c.fillInterleaved bps ch xs := by
  generalize hkk : (bps + 7) / 8 = k at *
  have hmd : md5Input bps xs = i32sToLeBytes k xs := by simp [md5Input, i32sToLeBytes, hkk]
  cases xs with
  | nil => simp [Ctx.fillLeBytes, Ctx.fillInterleaved, i32sToLeBytes]
  | cons x xs =>
    have hlen := i32sToLeBytes_length k (x :: xs)
    have hne : (i32sToLeBytes k (x :: xs)).isEmpty = false := by
      cases hbs : i32sToLeBytes k (x :: xs) with
      | nil =>
        rw [hbs, List.length_nil] at hlen
        have := Nat.mul_pos hb (List.length_pos_iff.mpr (List.cons_ne_nil x xs))
        omega
      | cons _ _ => rfl
    simp only [Ctx.fillLeBytes, Ctx.fillInterleaved, hne, List.isEmpty_cons, Bool.false_eq_true, ↓reduceIte, hmd, hlen]
    congr 2
    rw [Nat.div_div_eq_div_mul, Nat.mul_comm ch k, Nat.mul_div_mul_left _ _ hb]

/-! ### Non-vacuity -/

/-- `with_size(3, 32)` satisfies the shape invariant assumed above. -/
example : ∃ fb, FrameBuf.withSize 3 32 = some fb ∧ fb.samples.length = fb.size * fb.channels ∧ 1 ≤ fb.channels := by
  decide

/-- The short block consists of 24-bit extremes and fits 3 bytes. -/
example : ∀ x ∈ exShort, fitsBytes 3 x := by decide

/-- Full block of distinct values, then a shorter block (2 samples per channel) of 24-bit extremes
delivered as packed bytes: the channels read back are exactly the new samples. -/
example :
    ((exBuf.fillInterleaved exFull).bind fun fb1 => (fb1.fillLeBytes (i32sToLeBytes 3 exShort) 3).map fun fb2 =>
      (fb1.samples, [fb2.channelSlice 0, fb2.channelSlice 1, fb2.channelSlice 2], fb2.filled))
    = .ok ([1, 4, 7, 10, 2, 5, 8, 11, 3, 6, 9, 12],
           [[-8388608, -8388608], [8388607, 8388607], [-1, -1]], 2) := by
  decide

/-- The shorter block read back from the stale buffer equals the one read back from a fresh buffer. -/
example :
    ((exBuf.fillInterleaved exFull).bind fun fb1 => (fb1.fillLeBytes (i32sToLeBytes 3 exShort) 3).map fun fb2 =>
      [fb2.channelSlice 0, fb2.channelSlice 1, fb2.channelSlice 2])
    = (exBuf.fillInterleaved exShort).map fun fb2 => [fb2.channelSlice 0, fb2.channelSlice 1, fb2.channelSlice 2] := by
  decide

/-- The same through the integer path, and the two final buffers coincide. -/
example :
    ((exBuf.fillInterleaved exFull).bind fun fb1 => fb1.fillLeBytes (i32sToLeBytes 3 exShort) 3)
    = ((exBuf.fillInterleaved exFull).bind fun fb1 => fb1.fillInterleaved exShort) := by
  decide

/-- Both fills reject an over-long block and a block that is not a whole number of inter-channel samples. -/
example : exBuf.fillInterleaved (List.replicate 15 0) = .error .invalidBuffer ∧
    exBuf.fillLeBytes (i32sToLeBytes 3 (List.replicate 15 0)) 3 = .error .invalidBuffer ∧
    exBuf.fillInterleaved [1, 2] = .error .invalidBuffer ∧
    exBuf.fillLeBytes (i32sToLeBytes 3 [1, 2]) 3 = .error .invalidBuffer := by
  decide

end FlacVerif
