/-
C18, parse-back — for every public component constructor mirrored in `Model/Verify.lean`: accepted
arguments give a component whose serialisation (`write`) the repository's OWN parser (the mirror
`Model/RepoParser.lean` of `parser.rs`) reads back as exactly that component, leaving exactly the
trailing input `k`.

Composition of C18 (accepted ⇒ well formed) with C15 (well formed + the parser's limits ⇒ read back).
What had to be added:
* the predicted sub-frames are only well formed in the weak sense `SubFrame.WF'` (`FixedLpc::new` /
  `Lpc::new` accept "warm-up = whole block", see `C18_fixed_not_WF`), while `C15_subframe` asks for
  `SubFrame.WF`; the strict clause is not needed (`Repo.subframe_read'`, `Lemmas/ExtrasParse.lean`), so
  the corner is read back too;
* the parser's limits (`Repo.SubOk`, `Repo.HdrOk`) follow from acceptance: `verify_bps!` gives
  `bps ≤ 25`, `QuantizedParameters::verify` gives order `≤ 24`, `verify_block_size!` gives `n ≤ 32767`,
  the codes `BlockSizeSpec::from_size` / `SampleRateSpec::from_freq` produce are ones the parser reads;
* the only hypothesis left is the Rust TYPE of an argument the model keeps unbounded: quotients are
  `u32`s (`hq`), a frame number is a `u32` (`hnum`).

All constructors have the property.  The two that used not to (`StreamInfo::new`: the initial block
sizes 65535 / 0 were rejected by `stream_info`, and the unset frame sizes came back as `(0, 0)`;
`MetadataBlockData::new_unknown` with tag 0: type 0 is always parsed as STREAMINFO) have been repaired
in the code: `stream_info` keeps the initial block / frame sizes, `new_unknown` rejects tag 0
(`C18_streaminfo_parse`, `C18_streaminfo_set_block_sizes_parse`, `C18_unknown_tag0_rejected`).
Property theorems and examples only.
-/
import FlacVerif.Lemmas.ExtrasParse
import FlacVerif.Theorems.C18
import FlacVerif.Theorems.C15
namespace FlacVerif
open FlacVerif.VerifyL

/-! ### residual -/

/-- `Residual::new` then `write` then `parser::residual(block_size, warmup_length)`. -/
theorem C18_residual_parse (o n w : Nat) (ps qs rs : List Nat) (r : Residual)
    (h : Residual.new o n w ps qs rs = some r) (hq : ∀ q ∈ qs, q < 2 ^ 32) (k : Bits) :
    Repo.parseResidual n w (r.bits ++ k) = .ok (r, k) := by
  obtain ⟨rfl, hv, hwf, _⟩ := C18_residual_sound o n w ps qs rs r h
  have hn := ((C18_residual_verify_iff _).mp hv).2
  exact C15_residual _ n w k hwf rfl rfl hq (by simp only at hn ⊢; omega)

/-! ### sub-frames -/

theorem C18_constant_parse (n : Nat) (dc : Int) (bps : Nat) (s : SubFrame)
    (h : Constant.new n dc bps = some s) (k : Bits) :
    Repo.parseSubframe n bps (s.bits ++ k) = .ok (s, k) := by
  obtain ⟨rfl, _, _, hb, _⟩ := (constant_new_some n dc bps s).mp h
  have hb' := (verifyBps_iff bps).mp hb
  exact C15_subframe _ k (C18_constant_sound n dc bps _ h).2.1 (show bps ≤ 25 by omega)

theorem C18_verbatim_parse (xs : List Int) (bps : Nat) (s : SubFrame)
    (h : Verbatim.new xs bps = some s) (k : Bits) :
    Repo.parseSubframe xs.length bps (s.bits ++ k) = .ok (s, k) := by
  obtain ⟨rfl, _, _, hb, _⟩ := (verbatim_new_some xs bps s).mp h
  have hb' := (verifyBps_iff bps).mp hb
  exact C15_subframe _ k (C18_verbatim_sound xs bps _ h).2.1 (show bps ≤ 25 by omega)

/-- `FixedLpc::new` — including the corner "warm-up = whole block" that is `WF'` but not `WF`. -/
theorem C18_fixed_parse (warm : List Int) (res : Residual) (bps : Nat) (s : SubFrame)
    (h : FixedLpc.new warm res bps = some s) (hq : ∀ q ∈ res.quotients, q < 2 ^ 32) (k : Bits) :
    Repo.parseSubframe res.blockSize bps (s.bits ++ k) = .ok (s, k) := by
  obtain ⟨rfl, hwf, _, _, _, hv, _⟩ := C18_fixed_sound warm res bps s h
  obtain ⟨_, hb, _⟩ := (fixed_new_some warm res bps _).mp h
  have hb' := (verifyBps_iff bps).mp hb
  have hn := ((C18_residual_verify_iff _).mp hv).2
  exact Repo.subframe_read' _ hwf ⟨by omega, hq, by omega⟩ k

/-- `Lpc::new` (with parameters from `QuantizedParameters::new`, i.e. any `q` that verifies). -/
theorem C18_lpc_parse (warm : List Int) (q : QParams) (res : Residual) (bps : Nat) (s : SubFrame)
    (h : Lpc.new warm q res bps = some s) (hq : ∀ x ∈ res.quotients, x < 2 ^ 32) (k : Bits) :
    Repo.parseSubframe res.blockSize bps (s.bits ++ k) = .ok (s, k) := by
  obtain ⟨rfl, hwf, _, _, _, _, hv, _⟩ := C18_lpc_sound warm q res bps s h
  obtain ⟨_, hb, _, h24, hwc, _⟩ := (lpc_new_some warm q res bps _).mp h
  have hb' := (verifyBps_iff bps).mp hb
  have hn := ((C18_residual_verify_iff _).mp hv).2
  exact Repo.subframe_read' _ hwf ⟨by omega, by omega, hq, by omega⟩ k

/-- The whole chain through the public API: `Residual::new`, `QuantizedParameters::new`, `Lpc::new`. -/
theorem C18_lpc_parse_chain (o n w : Nat) (ps qs rs : List Nat) (res : Residual)
    (coefs : List Int) (order : Nat) (shift : Int) (precision : Nat) (q : QParams)
    (warm : List Int) (bps : Nat) (s : SubFrame)
    (hr : Residual.new o n w ps qs rs = some res) (hqp : QParams.new coefs order shift precision = some q)
    (h : Lpc.new warm q res bps = some s) (hq : ∀ x ∈ qs, x < 2 ^ 32) (k : Bits) :
    s = .lpc warm coefs shift precision ⟨o, n, w, ps, qs, rs⟩ bps ∧
    Repo.parseSubframe n bps (s.bits ++ k) = .ok (s, k) := by
  obtain ⟨rfl, _⟩ := C18_residual_sound o n w ps qs rs res hr
  obtain ⟨rfl, _⟩ := C18_qparams_sound coefs order shift precision q hqp
  exact ⟨(C18_lpc_sound warm _ _ bps s h).1, C18_lpc_parse warm _ _ bps s h hq k⟩

/-! ### frame header -/

/-- `FrameHeader::new` builds a header the parser can produce: block-size and sample-rate codes in
range, `Independent(1..=8)` or a stereo mode, a 3-bit sample-size tag, and only the offset of the
blocking mode in use set. -/
theorem C18_header_HdrOk (n : Nat) (asg : ChannelAssignment) (bps rate : Nat) (v : Bool) (num : Nat)
    (h : FrameHeader) (hh : FrameHeader.new n asg bps rate v num = some h) (hnum : v = false → num < 2 ^ 32) :
    Repo.HdrOk h :=
  Repo.hdrOk_of_new n asg bps rate v num h hh hnum

/-- `FrameHeader::new` then `write` (with the FLAC CRC-8) then `parser::frame_header(check_crc)`:
the header serialises and is read back, whether or not the CRC is checked. `k` = whole bytes. -/
theorem C18_header_parse (n : Nat) (asg : ChannelAssignment) (bps rate : Nat) (v : Bool) (num : Nat)
    (h : FrameHeader) (hh : FrameHeader.new n asg bps rate v num = some h) (hnum : v = false → num < 2 ^ 32)
    (k : Bits) (hk : k.length % 8 = 0) :
    ∃ hbits, h.bits rfcCrc8 = some hbits ∧
      ∀ checkCrc, Repo.frameHeader checkCrc (hbits ++ k) = .ok (h, k) := by
  obtain ⟨hbits, hb, _⟩ := (C18_header_sound n asg bps rate v num h hh).2.2.2.2.2.2.2.2.2.2.2.2.2.2 hnum
  exact ⟨hbits, hb, fun cc => C15_header h cc hbits k hb (C18_header_HdrOk n asg bps rate v num h hh hnum) hk⟩

/-! ### metadata -/

/-- `MetadataBlockData::new_unknown` (accepted: the tag is in `1..=126`) with fewer than `2^24` bytes,
wrapped in a metadata block header: read back. -/
theorem C18_unknown_parse (tag : Nat) (data : List Nat) (m : UnknownBlock) (h : UnknownBlock.new tag data = some m)
    (hl : data.length < 2 ^ 24) (hb : ∀ b ∈ data, b < 256) (isLast : Bool) (k : Bits) :
    Repo.metadataBlock (Stream.blockHeader isLast m.tag m.data.length ++ bytesToBits m.data ++ k) =
      .ok ((isLast, .unknown m), k) := by
  unfold UnknownBlock.new at h
  split at h
  · next ht =>
    cases h
    exact Repo.metadataBlock_unknown_read _ ⟨ht, hl, hb⟩ isLast k
  · cases h

/-- `MetadataBlockData::new_unknown(0, data)` is rejected: type 0 is STREAMINFO's (a block of type 0 is
always parsed as STREAMINFO, so it could not be read back as an unknown block). -/
theorem C18_unknown_tag0_rejected (data : List Nat) : UnknownBlock.new 0 data = none := by
  unfold UnknownBlock.new
  rw [if_neg (by omega)]

/-- `StreamInfo::new(rate, ch, bps)`, with block sizes `(mb, xb)` that are either the initial ones or set
by `set_block_sizes`, is a STREAMINFO that `stream_info` reads back identically. -/
private theorem infoOk_of_new (rate ch bps : Nat) (s : StreamInfo) (h : StreamInfo.new rate ch bps = some s)
    (mb xb : Nat) (hb : (1 ≤ mb ∧ mb ≤ xb ∧ xb ≤ 32767) ∨ (mb = 65535 ∧ xb = 0)) :
    Repo.InfoOk { s with minBlock := mb, maxBlock := xb } := by
  unfold StreamInfo.new at h
  split at h
  · next hc =>
    cases h
    obtain ⟨hr, hc1, hc2, _, hv, h4⟩ := hc
    have hv' := (verifyBps_iff bps).mp hv
    refine { blocks := ?_, frames := Or.inr ⟨rfl, rfl⟩, rate := hr, channels := ⟨hc1, hc2⟩, bps := ?_,
             total := by simp [StreamInfo.empty], md5len := by simp [StreamInfo.empty], md5 := ?_ }
    · rcases hb with hb | ⟨h1, h2⟩
      · exact Or.inl hb
      · exact Or.inr ⟨rfl, h1, h2⟩
    · show bps = 8 ∨ bps = 12 ∨ bps = 16 ∨ bps = 20 ∨ bps = 24
      omega
    · intro b hb
      simp only [StreamInfo.empty, List.mem_replicate] at hb
      omega
  · cases h

/-- `StreamInfo::new` then `write` then `parser::stream_info`: the IDENTICAL record comes back, including
the initial ("unset") block sizes `(65535, 0)` and frame sizes `(u32::MAX, 0)`. `k` = whole bytes (the
parser skips to the next byte boundary before the MD5). -/
theorem C18_streaminfo_parse (rate ch bps : Nat) (s : StreamInfo) (h : StreamInfo.new rate ch bps = some s)
    (k : Bits) (hk : k.length % 8 = 0) :
    Repo.streamInfo (s.bits ++ k) = .ok (s, k) := by
  have hs := (C18_streaminfo_sound rate ch bps s h).1
  have hok := infoOk_of_new rate ch bps s h 65535 0 (Or.inr ⟨rfl, rfl⟩)
  have he : ({ s with minBlock := 65535, maxBlock := 0 } : StreamInfo) = s := by rw [hs]; rfl
  rw [he] at hok
  exact C15_streaminfo s k hok hk

/-- The same after `set_block_sizes(mn, mx)` (accepted: `1 ≤ mn ≤ mx ≤ 32767`; the encoder calls
`set_block_sizes(bs, bs)`): the frame sizes are still the initial ones and are read back as such. -/
theorem C18_streaminfo_set_block_sizes_parse (rate ch bps : Nat) (s : StreamInfo)
    (h : StreamInfo.new rate ch bps = some s) (mn mx : Nat) (h1 : 1 ≤ mn) (h2 : mn ≤ mx) (h3 : mx ≤ 32767)
    (k : Bits) (hk : k.length % 8 = 0) :
    Repo.streamInfo (({ s with minBlock := mn, maxBlock := mx } : StreamInfo).bits ++ k) =
      .ok ({ s with minBlock := mn, maxBlock := mx }, k) :=
  C15_streaminfo _ k (infoOk_of_new rate ch bps s h mn mx (Or.inl ⟨h1, h2, h3⟩)) hk

/-- `Stream::new(rate, ch, bps)` untouched, or with `set_block_sizes(bs, bs)` as the encoder leaves the
stream of an EMPTY input: `write` then `parser::stream` gives the stream back. -/
theorem C18_stream_new_parse (rate ch bps : Nat) (s : StreamInfo) (h : StreamInfo.new rate ch bps = some s)
    (mb xb : Nat) (hb : (1 ≤ mb ∧ mb ≤ xb ∧ xb ≤ 32767) ∨ (mb = 65535 ∧ xb = 0)) :
    let st : Stream := { info := { s with minBlock := mb, maxBlock := xb }, metadata := [], frames := [] }
    ∃ sb, st.bits rfcCrc8 rfcCrc16 = some sb ∧
      Repo.parseStream (packBytes sb) = .ok (Repo.PStream.ofStream st) := by
  intro st
  refine ⟨_, rfl, (C15_stream st _ rfl ?_).1⟩
  exact { info := infoOk_of_new rate ch bps s h mb xb hb
          metas := by intro m hm; cases hm
          frames := by intro f hf; cases hf }

/-! ### non-vacuity -/

set_option maxRecDepth 100000 in
/-- The chain of constructors accepts, and the parser reads the sub-frame back. -/
example :
    let s : SubFrame := .lpc [-8] [-5] 3 4 ⟨0, 3, 1, [1], [0, 2, 0], [0, 1, 0]⟩ 9
    Residual.new 0 3 1 [1] [0, 2, 0] [0, 1, 0] = some ⟨0, 3, 1, [1], [0, 2, 0], [0, 1, 0]⟩ ∧
    QParams.new [-5] 1 3 4 = some ⟨[-5], 3, 4⟩ ∧
    Lpc.new [-8] ⟨[-5], 3, 4⟩ ⟨0, 3, 1, [1], [0, 2, 0], [0, 1, 0]⟩ 9 = some s ∧
    Repo.parseSubframe 3 9 (s.bits ++ [true]) = .ok (s, [true]) := by decide

set_option maxRecDepth 100000 in
/-- The corner "warm-up = whole block" (accepted by `FixedLpc::new`, not `SubFrame.WF`): read back. -/
example :
    let res : Residual := ⟨0, 4, 4, [0], [0, 0, 0, 0], [0, 0, 0, 0]⟩
    let s : SubFrame := .fixed [1, -2, 3, -4] res 16
    FixedLpc.new [1, -2, 3, -4] res 16 = some s ∧ ¬ s.WF ∧
    Repo.parseSubframe 4 16 (s.bits ++ [false, true]) = .ok (s, [false, true]) := by decide

set_option maxRecDepth 100000 in
/-- A header with an uncommon rate (12345 Hz → 16-bit immediate) and block size (1000 → 16-bit
immediate), variable blocking, start sample `2^35`. -/
example : ∃ h, FrameHeader.new 1000 .midSide 24 12345 true (2 ^ 35) = some h ∧ Repo.HdrOk h ∧
    h.blockSizeSpec = .extraTwoBytes 999 ∧ h.sampleRateSpec = .hz 12345 :=
  ⟨_, rfl, by decide, rfl, rfl⟩

/-! ### the two former counterexamples, now read back -/

set_option maxRecDepth 100000 in
/-- `StreamInfo::new(44100, 2, 16)`: what `write` emits (block sizes 65535 / 0, frame sizes 0 / 0) is read
back as the identical record; the same after `set_block_sizes(4096, 4096)`. -/
example :
    StreamInfo.new 44100 2 16 = some (StreamInfo.empty 44100 2 16) ∧
    Repo.streamInfo ((StreamInfo.empty 44100 2 16).bits) = .ok (StreamInfo.empty 44100 2 16, []) ∧
    (let s := { StreamInfo.empty 44100 2 16 with minBlock := 4096, maxBlock := 4096 }
     Repo.streamInfo s.bits = .ok (s, []) ∧ s.minFrame = 2 ^ 32 - 1 ∧ s.maxFrame = 0) := by decide

set_option maxRecDepth 100000 in
/-- The initial block sizes are only kept while `total_samples = 0`: with a sample count they are
rejected as before (`set_block_sizes` → `verify_block_size!`). -/
example : Repo.streamInfo ({ StreamInfo.empty 44100 2 16 with total := 1 } : StreamInfo).bits = .error false := by
  decide

set_option maxRecDepth 100000 in
/-- Tag 0 is rejected by `new_unknown`; tags 1 and 126 are accepted and read back. -/
example :
    UnknownBlock.new 0 [1, 2] = none ∧ UnknownBlock.new 1 [1, 2] = some ⟨1, [1, 2]⟩ ∧
    Repo.metadataBlock (Stream.blockHeader true 1 2 ++ bytesToBits [1, 2]) = .ok ((true, .unknown ⟨1, [1, 2]⟩), []) ∧
    Repo.metadataBlock (Stream.blockHeader false 126 0 ++ bytesToBits []) = .ok ((false, .unknown ⟨126, []⟩), []) := by
  decide

end FlacVerif
