/-
C01 / C02, end to end — what the functional encoder (`Model/Encode.lean`) emits is accepted by the
independent strict RFC 9639 decoder (`Model/Rfc.lean`) and decodes to exactly the input, for every
configuration, every input block and EVERY oracle log (the float-derived quantised LPC parameters and
entropy estimates) whose quantised parameter sets satisfy the invariants of the integer tail of
`quantize_parameters` (`OEvent.Ok`).  There is NO hypothesis on the LPC residual any more: `compute_error`
reports whether every error value is a FLAC residual, and `estimated_qlpc` drops the candidate otherwise
(`C01_computeError`: with flag `true` the stored values are the exact residual).  `C01_flag_needed` is the
negative control: on its witness the flag is `false`, and encoding the stored (wrapped) values regardless
— what the code did before the fix — yields a sub-frame the strict decoder rejects.

Property theorems and non-vacuity examples only; the proofs live in `FlacVerif/Lemmas/Strict*.lean`.
-/
import FlacVerif.Lemmas.StrictStream
namespace FlacVerif
open Strict

/-! ### residual level -/

/-- **C01/C02, residual.** `Residual::write` of a well-formed residual that satisfies the extra conditions
of RFC 9639 (`Strict.Residual.Strict`: `(block size >> partition order)` is LARGER than the predictor order,
section 9.2.7 — `Residual.WF` allows equality —; and, section 9.2.7.3, for every coded position
`warmup ≤ t < blockSize` the folded value `q·2^p + rem` is below `2^32` and the decoded value is not
`-2^31`) is accepted by the strict reader, which consumes exactly these bits and returns the partition
order, the Rice parameters and the decoded signal after the warm-up. -/
theorem C01_residual_strict (r : Residual) (n w : Nat) (hwf : r.WF) (hn : r.blockSize = n) (hw : r.warmup = w)
    (hs : Strict.Residual.Strict r) (k : Bits) :
    Rfc.readResidual n w (r.bits ++ k) = .ok (⟨r.order, r.params, r.signal.drop w⟩, k) :=
  readResidual_bits r n w hwf hn hw hs k

/-- **C01/C02, residual, encoder side.** For prediction errors strictly inside `(-2^31, 2^31)` and any
choice `(o, ps)` of the search space whose partition length `n >> o` is larger than the predictor order
`w`, the component `encode_residual_with_prc_parameter` builds is well-formed, accepted, and decodes to
exactly the errors after the warm-up. -/
theorem C01_residual_ofErrors (errors : List Int) (w o : Nat) (ps : List Nat) (n : Nat)
    (hn : errors.length = n) (hpos : 0 < n) (ho : o ≤ 15) (hps : ps.length = 2 ^ o) (hdvd : 2 ^ o ∣ n)
    (hw : w < n >>> o) (hp : ∀ p ∈ ps, p ≤ 14)
    (herr : ∀ e ∈ errors, -(2 ^ 31 : Int) < e ∧ e < (2 ^ 31 : Int)) (k : Bits) :
    (Residual.ofErrors errors w o ps).WF ∧
    Rfc.readResidual n w ((Residual.ofErrors errors w o ps).bits ++ k) = .ok (⟨o, ps, errors.drop w⟩, k) :=
  readResidual_ofErrors errors w o ps n hn hpos ho hps hdvd hw hp herr k

/-- The search only considers partition orders with `n >> order ≥ max(MIN_PARTITION_SIZE, warm-up)`,
`MIN_PARTITION_SIZE = 64` (and fails on `i32::MIN`). -/
theorem C01_search_partition (errors : List Int) (warm maxP : Nat) (prc : PrcParameter)
    (hfit : ∀ e ∈ errors, fitsI32 e = true) (hn : max 64 warm ≤ errors.length) (hlen : errors.length < 2 ^ 16)
    (hmax : maxP ≤ 14) (h : search errors warm maxP = some prc) :
    (∀ e ∈ errors, -(2 ^ 31 : Int) < e ∧ e < (2 ^ 31 : Int)) ∧ prc.order ≤ 15 ∧
    prc.ps.length = 2 ^ prc.order ∧ 2 ^ prc.order ∣ errors.length ∧
    max 64 warm ≤ errors.length >>> prc.order ∧ ∀ p ∈ prc.ps, p ≤ 14 :=
  search_space' errors warm maxP prc hfit hn hlen hmax h

/-- … in particular after a successful parameter search with a predictor order below 64 (the encoder's
fixed orders are at most 4, its LPC orders at most 24): every partition then holds at least 64 values, more
than the predictor order. For `warm ≥ 64` the search can return `n >> order = warm` (e.g. `n = warm = 64`,
partition order 0), which the strict reader rejects; the encoder never calls it that way. -/
theorem C01_residual_search (errors : List Int) (warm maxP : Nat) (prc : PrcParameter)
    (hfit : ∀ e ∈ errors, fitsI32 e = true) (hn : max 64 warm ≤ errors.length) (hlen : errors.length < 2 ^ 16)
    (hmax : maxP ≤ 14) (hw64 : warm < 64) (h : search errors warm maxP = some prc) (k : Bits) :
    (Residual.ofErrors errors warm prc.order prc.ps).WF ∧
    Rfc.readResidual errors.length warm ((Residual.ofErrors errors warm prc.order prc.ps).bits ++ k) =
      .ok (⟨prc.order, prc.ps, errors.drop warm⟩, k) :=
  residual_of_search errors warm maxP prc hfit hn hlen hmax hw64 h k

/-! ### predictors -/

/-- The encoder's wrapping `i32` differences never wrap for samples of at most 25 bits and order at
most 4, stay strictly inside `(-2^31, 2^31)`, and from position `k` on are the RFC's fixed-predictor
residual. No oracle hypothesis. -/
theorem C01_diffs_fixed (bps : Nat) (hb : 1 ≤ bps ∧ bps ≤ 25) (xs : List Int)
    (hx : ∀ x ∈ xs, SubFrame.inRange bps x = true) (k : Nat) (hk : k ≤ 4) (hl : k ≤ xs.length) :
    (diffs k xs).length = xs.length ∧
    (∀ e ∈ diffs k xs, -(2 ^ 31 : Int) < e ∧ e < (2 ^ 31 : Int)) ∧
    (diffs k xs).drop k = fixedResidual k xs :=
  diffs_fixed bps hb xs hx k hk hl

/-- `compute_error`, for ANY coefficients, shift and signal: whenever it returns the flag `true` (the
`i32` path panics on overflow — which `C07_computeError32_total` excludes —, the `i64` path reports values
outside `-(2^31-1) ..= 2^31-1` with the flag `false`), all entries are `i32`s and the entries after the
warm-up are the EXACT LPC residual. No oracle hypothesis. -/
theorem C01_computeError (coefs : List Int) (shift : Nat) (xs errors : List Int)
    (h : computeError coefs shift xs = some (errors, true)) :
    errors.length = xs.length ∧ (∀ e ∈ errors, fitsI32 e = true) ∧
    errors.drop coefs.length = lpcResidual coefs shift xs :=
  computeError_spec coefs shift xs errors h

/-- The flag of the `i64` path, spelled out: it is `true` iff every value of the exact LPC residual lies in
`-(2^31-1) ..= 2^31-1`. -/
theorem C01_fitsResidual64 (coefs : List Int) (shift : Nat) (xs : List Int) :
    fitsResidual64 coefs shift xs = true ↔ ∀ e ∈ lpcResidual coefs shift xs, e.natAbs ≤ 2 ^ 31 - 1 :=
  fitsResidual64_iff_residual coefs shift xs

/-! ### sub-frame level -/

/-- **C01/C02, sub-frame (strongest form).** For every sub-frame configuration with `maxP ≤ 14`,
every block of `1 ≤ n < 2^16` samples of width `1 ≤ bps ≤ 25`, and EVERY oracle log whose quantised
LPC parameter sets satisfy the invariants of the integer tail of `quantize_parameters` (`OEvent.Ok`)
— no hypothesis on the residual —: if `encode_subframe` returns a sub-frame `s` (which it does whenever
the log has the right shape, `C07_subframe_total`), then the strict RFC 9639 reader accepts `s.bits`
followed by anything, consumes exactly `s.bits`, and reconstructs exactly the input; moreover `s` is
well-formed. -/
theorem C01_subframe_strict' (cfg : SubCfg) (xs : List Int) (bps : Nat) (log log' : List OEvent) (s : SubFrame)
    (hn : 1 ≤ xs.length) (hlen : xs.length < 2 ^ 16) (hb : 1 ≤ bps ∧ bps ≤ 25)
    (hx : ∀ x ∈ xs, SubFrame.inRange bps x = true) (hmax : cfg.maxP ≤ 14)
    (hlog : ∀ e ∈ log, e.Ok)
    (h : encodeSubframe cfg xs bps log = some (s, log')) (k : Bits) :
    ∃ rep, Rfc.readSubframe xs.length bps (s.bits ++ k) = .ok (rep, k) ∧ rep.samples = xs ∧
      rep.bitLen = s.bits.length ∧ s.WF :=
  subframe_strict cfg xs bps log log' s hn hlen hb hx hmax hlog h k

/-- **C01/C02, sub-frame**, with the hypotheses as they hold in the encoder (`bps ≥ 4`,
`fixedMaxOrder ≤ 4`; neither is needed by the proof). -/
theorem C01_subframe_strict (cfg : SubCfg) (xs : List Int) (bps : Nat) (log log' : List OEvent) (s : SubFrame)
    (hn : 1 ≤ xs.length) (hlen : xs.length < 2 ^ 16) (hb : 4 ≤ bps ∧ bps ≤ 25)
    (hx : ∀ x ∈ xs, SubFrame.inRange bps x = true)
    (hcfg : cfg.fixedMaxOrder ≤ 4 ∧ cfg.maxP ≤ 14)
    (hlog : ∀ e ∈ log, e.Ok)
    (h : encodeSubframe cfg xs bps log = some (s, log')) (k : Bits) :
    ∃ rep, Rfc.readSubframe xs.length bps (s.bits ++ k) = .ok (rep, k) ∧ rep.samples = xs ∧
      rep.bitLen = s.bits.length ∧ s.WF :=
  subframe_strict cfg xs bps log log' s hn hlen ⟨by omega, hb.2⟩ hx hcfg.2 hlog h k

/-- Without LPC (or whenever the log holds no `qlpc` event) no oracle hypothesis is left at all (`OEvent.Ok`
is trivial for `est` events). -/
theorem C01_subframe_strict_nolpc (cfg : SubCfg) (xs : List Int) (bps : Nat) (log log' : List OEvent) (s : SubFrame)
    (hn : 1 ≤ xs.length) (hlen : xs.length < 2 ^ 16) (hb : 1 ≤ bps ∧ bps ≤ 25)
    (hx : ∀ x ∈ xs, SubFrame.inRange bps x = true) (hmax : cfg.maxP ≤ 14)
    (hlog : ∀ e ∈ log, ∃ o b, e = .est o b)
    (h : encodeSubframe cfg xs bps log = some (s, log')) (k : Bits) :
    ∃ rep, Rfc.readSubframe xs.length bps (s.bits ++ k) = .ok (rep, k) ∧ rep.samples = xs ∧
      rep.bitLen = s.bits.length ∧ s.WF := by
  refine subframe_strict cfg xs bps log log' s hn hlen hb hx hmax ?_ h k
  intro e he
  obtain ⟨o, b, rfl⟩ := hlog e he
  trivial

/-! ### frame level

`Rfc.readFrame` is used exactly as written in `Model/Rfc.lean` (its `for … in [0:nch]` loop included):
`Strict.readFrame_eq` (by `rfl`) cuts it into pieces and `Strict.frameLoop_eq` identifies the loop with
the structurally recursive `Strict.readSubframes`. -/

/-- **C01/C02, frame.** For every sub-frame and stereo configuration (`maxP ≤ 14`), every block of
1 to 8 channels of equal length `1 ≤ n < 2^16` with samples of width `1 ≤ bps ≤ 24` (a side channel is
one bit wider), every sample rate, every frame number below `2^31` and EVERY oracle log satisfying
`OEvent.Ok`: if `encode_frame` returns a frame `f`, then `Frame::write` succeeds, and the
strict RFC 9639 frame reader — given any STREAMINFO with the same rate, channel count and sample
width, the expected frame number, and the frame's bytes followed by arbitrary further bytes — accepts
(sync code, code tables, canonical UTF-8 number, CRC-8, every sub-frame, zero padding, CRC-16, sample
ranges), consumes exactly the frame, and returns exactly the input channels. -/
theorem C01_frame_strict (cfg : SubCfg) (st : StereoCfg) (chans : List (List Int)) (bps rate number n : Nat)
    (log log' : List OEvent) (f : Frame)
    (hch : 1 ≤ chans.length ∧ chans.length ≤ 8) (hlen : ∀ c ∈ chans, c.length = n) (hn : 1 ≤ n ∧ n < 2 ^ 16)
    (hb : 1 ≤ bps ∧ bps ≤ 24) (hx : ∀ c ∈ chans, ∀ x ∈ c, SubFrame.inRange bps x = true)
    (hnum : number < 2 ^ 31) (hmax : cfg.maxP ≤ 14)
    (hlog : ∀ e ∈ log, e.Ok)
    (h : encodeFrame cfg st chans bps rate number log = some (f, log'))
    (info : Rfc.Info) (hinfo : info.rate = rate ∧ info.channels = chans.length ∧ info.bps = bps) (more : List Nat) :
    ∃ fb rep, f.bits rfcCrc8 rfcCrc16 = some fb ∧
      Rfc.readFrame info number (packBytes fb ++ more) (fb ++ bytesToBits more) = .ok (rep, more, bytesToBits more) ∧
      rep.channels = chans ∧ rep.blockSize = n ∧ rep.number = number ∧ rep.byteLen * 8 = fb.length := by
  obtain ⟨fb, rep, h1, h2, h3, h4, h5, h6, _⟩ :=
    frame_strict cfg st chans bps rate number n log log' f hch hlen hn hb hx hnum hmax hlog h info hinfo more
  exact ⟨fb, rep, h1, h2, h3, h4, h5, h6⟩

/-- Without LPC (no `qlpc` event in the log) no oracle hypothesis is left at all. -/
theorem C01_frame_strict_nolpc (cfg : SubCfg) (st : StereoCfg) (chans : List (List Int)) (bps rate number n : Nat)
    (log log' : List OEvent) (f : Frame)
    (hch : 1 ≤ chans.length ∧ chans.length ≤ 8) (hlen : ∀ c ∈ chans, c.length = n) (hn : 1 ≤ n ∧ n < 2 ^ 16)
    (hb : 1 ≤ bps ∧ bps ≤ 24) (hx : ∀ c ∈ chans, ∀ x ∈ c, SubFrame.inRange bps x = true)
    (hnum : number < 2 ^ 31) (hmax : cfg.maxP ≤ 14)
    (hlog : ∀ e ∈ log, ∃ o b, e = .est o b)
    (h : encodeFrame cfg st chans bps rate number log = some (f, log'))
    (info : Rfc.Info) (hinfo : info.rate = rate ∧ info.channels = chans.length ∧ info.bps = bps) (more : List Nat) :
    ∃ fb rep, f.bits rfcCrc8 rfcCrc16 = some fb ∧
      Rfc.readFrame info number (packBytes fb ++ more) (fb ++ bytesToBits more) = .ok (rep, more, bytesToBits more) ∧
      rep.channels = chans ∧ rep.blockSize = n ∧ rep.number = number ∧ rep.byteLen * 8 = fb.length :=
  C01_frame_strict cfg st chans bps rate number n log log' f hch hlen hn hb hx hnum hmax
    (fun e he => by obtain ⟨o, b, rfl⟩ := hlog e he; trivial) h info hinfo more

/-- The strict decoder of the coded frame number inverts the encoder below `2^31` (canonical form
enforced), whatever follows. -/
theorem C02_utf8_strict (v : Nat) (hv : v < 2 ^ 31) (bs rest : List Nat) (he : encodeUtf8like v = some bs) :
    decodeUtf8like (bs ++ rest) = some (v, bs.length) :=
  decodeUtf8like_encode v hv bs rest he

/-! ### stream level

`encodeStream` (`Model/EncodeStream.lean`) is the functional view of `encode_with_fixed_block_size`.
`Rfc.analyze` runs its metadata and frame loops with `while`, which Lean compiles to the opaque
`Loop.forIn` (nothing can be proved about it); `Rfc.analyzeRec` (`Model/RfcRec.lean`) is the same text
with the two loops replaced by the structurally recursive `skipMetadata` / `readFrames` over the same
fuel. `analyzeRec` and `analyze` were compared on 3315 byte strings (five emitted streams, every
truncation, three single-byte corruptions of every byte, trailing garbage): identical results and
identical error strings. -/

/-- **C01/C02, stream.** For every configuration (`maxP ≤ 14`), block size `16 ≤ bs < 2^16`, 1 to 8
channels of equal length `total < 2^36` (with at most `2^31` blocks), sample width `4 ≤ bps ≤ 24`,
rate `1 ≤ rate < 2^20`, every MD5 function producing 16 bytes, and EVERY oracle log satisfying
`OEvent.Ok`: if `encode_with_fixed_block_size` returns a stream, then `Stream::write`
succeeds and the strict RFC 9639 stream analyser accepts its bytes — marker, STREAMINFO (block-size and
frame-size bounds, rate, width), every frame in sequence, the fixed-block-size discipline, the frame-size
bounds, the total sample count and the MD5 signature — and returns exactly the input audio, with
STREAMINFO stating the true format, sample count and signature. -/
theorem C01_stream_strict (md5 : List Nat → List Nat) (cfg : SubCfg) (st : StereoCfg) (bs : Nat)
    (chans : List (List Int)) (bps rate : Nat) (log log' : List OEvent) (s : Stream) (total : Nat)
    (hmd5 : ∀ x, (md5 x).length = 16 ∧ ∀ b ∈ md5 x, b < 256)
    (hch : 1 ≤ chans.length ∧ chans.length ≤ 8) (hlen : ∀ c ∈ chans, c.length = total) (htot : total < 2 ^ 36)
    (hbs : 16 ≤ bs ∧ bs < 2 ^ 16) (hb : 4 ≤ bps ∧ bps ≤ 24) (hrate : 1 ≤ rate ∧ rate < 2 ^ 20)
    (hx : ∀ c ∈ chans, ∀ x ∈ c, SubFrame.inRange bps x = true) (hmax : cfg.maxP ≤ 14)
    (hnb : (total + bs - 1) / bs ≤ 2 ^ 31)
    (hlog : ∀ e ∈ log, e.Ok)
    (h : encodeStream md5 cfg st bs chans bps rate log = some (s, log')) :
    ∃ sb rep, s.bits rfcCrc8 rfcCrc16 = some sb ∧ Rfc.analyzeRec md5 (packBytes sb) = .ok rep ∧
      rep.audio = chans ∧ rep.info.rate = rate ∧ rep.info.channels = chans.length ∧ rep.info.bps = bps ∧
      rep.info.total = total ∧ rep.info.md5 = md5 (md5Input bps (Rfc.interleave chans)) ∧
      rep.info.minBlock = bs ∧ rep.info.maxBlock = bs ∧ rep.metadataBlocks = 0 ∧
      rep.frames.length = (total + bs - 1) / bs :=
  stream_strict md5 cfg st bs chans bps rate log log' s total hmd5 hch hlen htot hbs hb hrate hx hmax hnb hlog h

/-- Without LPC (no `qlpc` event in the log) no oracle hypothesis is left at all. -/
theorem C01_stream_strict_nolpc (md5 : List Nat → List Nat) (cfg : SubCfg) (st : StereoCfg) (bs : Nat)
    (chans : List (List Int)) (bps rate : Nat) (log log' : List OEvent) (s : Stream) (total : Nat)
    (hmd5 : ∀ x, (md5 x).length = 16 ∧ ∀ b ∈ md5 x, b < 256)
    (hch : 1 ≤ chans.length ∧ chans.length ≤ 8) (hlen : ∀ c ∈ chans, c.length = total) (htot : total < 2 ^ 36)
    (hbs : 16 ≤ bs ∧ bs < 2 ^ 16) (hb : 4 ≤ bps ∧ bps ≤ 24) (hrate : 1 ≤ rate ∧ rate < 2 ^ 20)
    (hx : ∀ c ∈ chans, ∀ x ∈ c, SubFrame.inRange bps x = true) (hmax : cfg.maxP ≤ 14)
    (hnb : (total + bs - 1) / bs ≤ 2 ^ 31)
    (hlog : ∀ e ∈ log, ∃ o b, e = .est o b)
    (h : encodeStream md5 cfg st bs chans bps rate log = some (s, log')) :
    ∃ sb rep, s.bits rfcCrc8 rfcCrc16 = some sb ∧ Rfc.analyzeRec md5 (packBytes sb) = .ok rep ∧
      rep.audio = chans ∧ rep.info.rate = rate ∧ rep.info.channels = chans.length ∧ rep.info.bps = bps ∧
      rep.info.total = total ∧ rep.info.md5 = md5 (md5Input bps (Rfc.interleave chans)) ∧
      rep.info.minBlock = bs ∧ rep.info.maxBlock = bs ∧ rep.metadataBlocks = 0 ∧
      rep.frames.length = (total + bs - 1) / bs :=
  stream_strict md5 cfg st bs chans bps rate log log' s total hmd5 hch hlen htot hbs hb hrate hx hmax hnb
    (fun e he => by obtain ⟨o, b, rfl⟩ := hlog e he; trivial) h

/-! ### non-vacuity (sub-frame level) -/

namespace C01StrictEx

/-- A residual of block size 8 in two partitions of 4 with predictor order 4: `Residual.WF` holds
(`4 ≤ 8 >> 1`), RFC 9639 section 9.2.7 forbids it (`8 >> 1` is not larger than 4). -/
def eqPart : Residual := Residual.ofErrors [0, 0, 0, 0, 1, -1, 2, -2] 4 1 [0, 2]

set_option maxRecDepth 100000 in
/-- **Negative control for the partition rule**: a residual whose first partition is exactly as long as the
predictor order is REJECTED by the strict reader, as a residual and inside a well-formed fixed sub-frame —
while the repository's own (lenient) decoder reconstructs the samples —; with predictor order 3 the same
partitioning is accepted. -/
example : eqPart.WF ∧ (SubFrame.fixed [5, 6, 7, 8] eqPart 16).WF ∧
    (match Rfc.readResidual 8 4 eqPart.bits with | .error e => e | .ok _ => "ok")
      = "residual: first partition not longer than the predictor order" ∧
    (match Rfc.readSubframe 8 16 (SubFrame.fixed [5, 6, 7, 8] eqPart 16).bits with | .error e => e | .ok _ => "ok")
      = "residual: first partition not longer than the predictor order" ∧
    Repo.decodeSubframe false (SubFrame.fixed [5, 6, 7, 8] eqPart 16) = .ok [5, 6, 7, 8, 10, 13, 19, 28] ∧
    (Rfc.readResidual 8 3 (Residual.ofErrors [0, 0, 0, 1, 1, -1, 2, -2] 3 1 [0, 2]).bits).toOption.map (·.1.values)
      = some [1, 1, -1, 2, -2] := by
  decide +kernel

/-- A constant and a verbatim block (too short for prediction), evaluated by the kernel. -/
example : ((encodeSubframe ⟨true, true, false, 4, true, 14⟩ [5, 5, 5, 5] 16 []).map fun r =>
    (Rfc.readSubframe 4 16 r.1.bits).toOption.map (·.1.samples)) = some (some [5, 5, 5, 5]) := by decide

example : ((encodeSubframe ⟨true, true, false, 4, true, 14⟩ [1, -2, 3, 4] 16 []).map fun r =>
    (Rfc.readSubframe 4 16 r.1.bits).toOption.map (·.1.samples)) = some (some [1, -2, 3, 4]) := by decide

/-- 64 samples of a quadratic. -/
def smooth64 : List Int := (List.range 64).map fun (t : Nat) => ((t : Int) * (t : Int)) / 7 - 300

set_option maxRecDepth 100000 in
/-- The fixed-predictor path with entropy estimates from the log (`ApproxEnt`): order 2 is chosen,
and the strict decoder returns the input. -/
example : ((encodeSubframe ⟨true, true, false, 4, false, 14⟩ smooth64 16
      [.est 0 900, .est 1 700, .est 2 300, .est 3 400, .est 4 500]).map fun r =>
    ((match r.1 with | .fixed w _ _ => w.length | _ => 99),
     (Rfc.readSubframe 64 16 r.1.bits).toOption.map (·.1.samples))) = some (2, some smooth64) := by decide

set_option maxRecDepth 100000 in
/-- The LPC path: the oracle supplies a quantised parameter set, an LPC sub-frame is emitted and the
strict decoder returns the input. -/
example : ((encodeSubframe ⟨true, false, true, 4, true, 14⟩ smooth64 16 [.qlpc [2, -1] 0 3]).map fun r =>
    ((match r.1 with | .lpc _ _ _ _ _ _ => true | _ => false),
     (Rfc.readSubframe 64 16 r.1.bits).toOption.map (·.1.samples))) = some (true, some smooth64) := by decide

set_option maxRecDepth 100000 in
/-- … and the oracle hypothesis of `C01_subframe_strict` holds for that log, so the theorem applies to it. -/
example : ∃ s log' rep, encodeSubframe ⟨true, false, true, 4, true, 14⟩ smooth64 16 [.qlpc [2, -1] 0 3] = some (s, log') ∧
    Rfc.readSubframe 64 16 (s.bits ++ [true, false]) = .ok (rep, [true, false]) ∧ rep.samples = smooth64 := by
  cases h : encodeSubframe ⟨true, false, true, 4, true, 14⟩ smooth64 16 [.qlpc [2, -1] 0 3] with
  | none => exact absurd h (by decide)
  | some p =>
    obtain ⟨s, log'⟩ := p
    obtain ⟨rep, h1, h2, _⟩ := C01_subframe_strict _ smooth64 16 [.qlpc [2, -1] 0 3] log' s (by decide) (by decide)
      (by decide) (by decide) (by decide) (by decide) h [true, false]
    exact ⟨s, log', rep, rfl, h1, h2⟩

/-- 64 samples alternating between `2^18` and `2^19` (24-bit audio). -/
def wrapBlock : List Int := (List.range 64).map fun (t : Nat) => (2 ^ 18 : Int) * ((t : Int) % 2 + 1)

set_option maxRecDepth 100000 in
/-- **The flag of `compute_error` is needed (negative control; formerly `C01_LpcFits_needed`).** For the
parameter set `coefs = [-16384, 1]`, `shift = 0`, `precision = 15` (which satisfies `OEvent.Ok`) and
`wrapBlock`, `compute_error` takes the `i64` path, the exact residual is `2^33, 2^32, …`, its wrap to 32
bits is all zeros.
* Fixed code: the flag is `false`, the LPC candidate is dropped, `encode_subframe` emits the verbatim
  sub-frame, and the strict decoder returns the input.
* Code before the fix (no flag: the stored, wrapped values are encoded regardless): a 167-bit LPC sub-frame
  (far below the verbatim size, so it was the one emitted), which the strict decoder REJECTS (the exact
  prediction leaves the sample width). A decoder that wraps at 32 bits would reconstruct the input.
The real `quantize_parameters` never produces such a set for such a signal; the functional model with an
arbitrary oracle does. -/
theorem C01_flag_needed :
    (∀ x ∈ wrapBlock, SubFrame.inRange 24 x = true) ∧ OEvent.Ok (.qlpc [-16384, 1] 0 15) ∧
    Strict.lpcWide [-16384, 1] wrapBlock ∧ (lpcResidual [-16384, 1] 0 wrapBlock).take 2 = [2 ^ 33, 2 ^ 32] ∧
    -- the fixed code
    (computeError [-16384, 1] 0 wrapBlock).map (fun r => (r.1.take 4, r.2)) = some ([0, 0, 0, 0], false) ∧
    ((encodeSubframe ⟨true, false, true, 4, true, 14⟩ wrapBlock 24 [.qlpc [-16384, 1] 0 15]).map fun r =>
      ((match r.1 with | .verbatim _ _ => true | _ => false), r.2,
       (Rfc.readSubframe 64 24 r.1.bits).toOption.map (·.1.samples))) = some (true, [], some wrapBlock) ∧
    -- the code before the fix: the stored buffer is encoded whatever the flag says
    (((computeError [-16384, 1] 0 wrapBlock).bind fun r => encodeResidual 14 r.1 2).map fun res =>
      let s := SubFrame.lpc (wrapBlock.take 2) [-16384, 1] 0 15 res 24
      (s.count, decide (s.bits.length < verbatimBits 64 24),
       (Rfc.readSubframe 64 24 s.bits).toOption.isNone)) = some (some 167, true, true) := by
  decide

-- #eval match Rfc.readSubframe 64 24 ((((computeError [-16384, 1] 0 wrapBlock).bind fun r =>
--     encodeResidual 14 r.1 2).map fun res => (SubFrame.lpc (wrapBlock.take 2) [-16384, 1] 0 15 res 24).bits).getD [])
--   with | .ok _ => "ok" | .error e => e
--   "subframe: reconstructed sample outside the sample width"


/-! ### non-vacuity (frame level)

`packBytes` is defined by well-founded recursion, so the kernel cannot evaluate the conclusion directly;
instead all hypotheses of `C01_frame_strict` are discharged on concrete data and the theorem is applied. -/

set_option maxRecDepth 100000 in
/-- Two channels of three samples (verbatim sub-frames, all stereo modes enabled). -/
example : ∃ f log' fb rep,
    encodeFrame ⟨true, true, false, 4, true, 14⟩ ⟨true, true, true⟩ [[1, -2, 3], [4, 5, 6]] 16 44100 5 [] = some (f, log') ∧
    f.bits rfcCrc8 rfcCrc16 = some fb ∧
    Rfc.readFrame ⟨16, 4096, 0, 0, 44100, 2, 16, 0, []⟩ 5 (packBytes fb ++ [9]) (fb ++ bytesToBits [9]) =
      .ok (rep, [9], bytesToBits [9]) ∧ rep.channels = [[1, -2, 3], [4, 5, 6]] := by
  cases h : encodeFrame ⟨true, true, false, 4, true, 14⟩ ⟨true, true, true⟩ [[1, -2, 3], [4, 5, 6]] 16 44100 5 [] with
  | none => exact absurd h (by decide)
  | some p =>
    obtain ⟨f, log'⟩ := p
    obtain ⟨fb, rep, h1, h2, h3, _⟩ := C01_frame_strict_nolpc _ _ _ 16 44100 5 3 [] log' f (by decide) (by decide)
      (by decide) (by decide) (by decide) (by decide) (by decide) (by intro e he; cases he) h
      ⟨16, 4096, 0, 0, 44100, 2, 16, 0, []⟩ (by decide) [9]
    exact ⟨f, log', fb, rep, rfl, h1, h2, h3⟩

/-- Two correlated 64-sample channels. -/
def stereoL : List Int := (List.range 64).map fun (t : Nat) => ((t : Int) * 7919 % 2001) - 1000 + (t : Int) / 9
def stereoR : List Int := (List.range 64).map fun (t : Nat) => ((t : Int) * 7919 % 2001) - 1000

set_option maxRecDepth 100000 in
/-- … through the fixed predictors and the stereo selection (the hypotheses of `C01_frame_strict` hold,
`encode_frame` returns). -/
example : ∃ f log' fb rep,
    encodeFrame ⟨true, true, false, 4, true, 14⟩ ⟨true, true, true⟩ [stereoL, stereoR] 16 44100 70000 [] = some (f, log') ∧
    f.bits rfcCrc8 rfcCrc16 = some fb ∧
    Rfc.readFrame ⟨16, 4096, 0, 0, 44100, 2, 16, 0, []⟩ 70000 (packBytes fb ++ []) (fb ++ bytesToBits []) =
      .ok (rep, [], bytesToBits []) ∧ rep.channels = [stereoL, stereoR] := by
  cases h : encodeFrame ⟨true, true, false, 4, true, 14⟩ ⟨true, true, true⟩ [stereoL, stereoR] 16 44100 70000 [] with
  | none => exact absurd h (by decide)
  | some p =>
    obtain ⟨f, log'⟩ := p
    obtain ⟨fb, rep, h1, h2, h3, _⟩ := C01_frame_strict_nolpc _ _ _ 16 44100 70000 64 [] log' f (by decide) (by decide)
      (by decide) (by decide) (by decide) (by decide) (by decide) (by intro e he; cases he) h
      ⟨16, 4096, 0, 0, 44100, 2, 16, 0, []⟩ (by decide) []
    exact ⟨f, log', fb, rep, rfl, h1, h2, h3⟩

-- Evaluated (`rep.assignment`, `rep.byteLen`); `rtFrame` runs `encodeFrame`, `Frame.bits`, `Rfc.readFrame` and
-- compares the decoded channels with the input:
--   [stereoL, stereoR], all modes            → decoded = input, assignment 8 (left/side), 104 bytes
--   [stereoR, stereoL], all modes            → decoded = input, assignment 8, 103 bytes
--   [stereoR, stereoL], mid/side only        → decoded = input, assignment 10 (mid/side), 103 bytes
--   [stereoR, stereoL], right/side only      → decoded = input, assignment 9 (right/side), 103 bytes
--   [[1,-2,3],[4,5,6],[7,7,7]] 12 bit, 12345 Hz, frame 70000 → decoded = input, assignment 2, 28 bytes


/-! ### non-vacuity (stream level) -/

/-- A stand-in digest (any function producing 16 bytes will do; nothing is proved about MD5). -/
def toyMd5 (x : List Nat) : List Nat := List.replicate 16 (x.length % 256)

def streamL : List Int := (List.range 40).map fun (t : Nat) => ((t : Int) * (t : Int)) / 7 - 30
def streamR : List Int := (List.range 40).map fun (t : Nat) => ((t : Int) * 37 % 11) - 5

set_option maxRecDepth 100000 in
/-- Two channels of 40 samples in blocks of 16 (three frames, the last one short): the hypotheses of
`C01_stream_strict` hold and the encoder returns. -/
example : ∃ s log' sb rep,
    encodeStream toyMd5 ⟨true, true, false, 4, true, 14⟩ ⟨true, true, true⟩ 16 [streamL, streamR] 16 44100 [] = some (s, log') ∧
    s.bits rfcCrc8 rfcCrc16 = some sb ∧ Rfc.analyzeRec toyMd5 (packBytes sb) = .ok rep ∧
    rep.audio = [streamL, streamR] ∧ rep.info.total = 40 ∧ rep.frames.length = 3 := by
  cases h : encodeStream toyMd5 ⟨true, true, false, 4, true, 14⟩ ⟨true, true, true⟩ 16 [streamL, streamR] 16 44100 [] with
  | none => exact absurd h (by decide)
  | some p =>
    obtain ⟨s, log'⟩ := p
    obtain ⟨sb, rep, h1, h2, h3, _, _, _, h7, _, _, _, _, h12⟩ := C01_stream_strict_nolpc toyMd5 _ _ 16
      [streamL, streamR] 16 44100 [] log' s 40
      (fun x => ⟨by simp [toyMd5], fun b hb => by
        rw [toyMd5] at hb
        rw [List.eq_of_mem_replicate hb]
        exact Nat.mod_lt _ (by decide)⟩)
      (by decide) (by decide) (by decide) (by decide) (by decide) (by decide) (by decide) (by decide) (by decide)
      (by intro e he; cases he) h
    exact ⟨s, log', sb, rep, rfl, h1, h2, h3, h7, h12⟩

-- Evaluated with the real digest (`Md5.md5`, `Model/Md5.lean`): `Rfc.analyze` and `Rfc.analyzeRec` both accept
-- the emitted bytes of [streamL, streamR] (bs = 16, 235 bytes, 3 frames, total 40, audio = input), of a mono
-- 12-bit stream with two extra metadata blocks, of the empty input, and of a 3-channel 20-bit stream with one
-- short frame; on all 3315 truncations / corruptions of these streams both return the same result.

end C01StrictEx

end FlacVerif
