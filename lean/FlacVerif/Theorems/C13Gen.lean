/-
C13 (also C01 / C09 / C10), generated: the Rice parameter search of `Model/Rice.lean` (`Table.fromErrors / accFast / accSlow /
merge / minimizer`, `finestOrder`, `evalPartitions`, `mergePartitions`, `searchFolded`, `search`) against the functions
GENERATED from the current text of src/rice.rs and src/arrayutils.rs by `tools/translate.py`, part `rice`
(`tools/translate_rice.py` -> `Gen/Rice.lean`).  `search` is the very function the generated decision logic of part
`coding` calls (CD_CALLEES: `rice::find_partitioned_rice_parameter` = `FlacVerif.search`), so the chain
coding.rs -> rice.rs is closed by `C13G_find_partitioned_rice_parameter`.

Every theorem is for BOTH profiles (`dbg = true` dev, `dbg = false` release) unless a hypothesis says otherwise, and for
all argument values in the stated domains.  Main theorems:

  C13G_merge                      PrcBitTable::merge = Table.merge                       (16 lanes)
  C13G_minimizer                  PrcBitTable::minimizer = Table.minimizer               (16 lanes, max_p <= 14)
  C13G_finest                     finest_partition_order = finestOrder                   (dev: every argument; release:
                                  wherever size / min_part_size != 0, cf. C13G_finest_release_wraps)
  C13G_find_max                   arrayutils::find_max::<64> = foldl max 0
  C13G_from_errors                PrcBitTable::from_errors = Table.fromErrors            (both accumulation paths, chunks(16),
                                  repeat!; dev: offset < 2^31 and fewer than 2^28 errors, release: no hypothesis)
  C13G_eval_partitions            eval_partitions = evalPartitions (+ the untouched tail of `ps`, + its assert)
  C13G_merge_partitions           merge_partitions = in-place pairwise merge (+ its assert)
  C13G_unaligned                  arrayutils::unaligned_map_and_update (fakesimd build) = element-wise update `zipUpd`
  C13G_encode_signbit_simd_nonneg / _negative   the vector sign fold agrees with the scalar one on non-negative lanes and
                                  PANICS on any negative lane (fakesimd `cast` = checked NumCast; dead code in that build)
  C13G_find                       PrcParameterFinder::find, for EVERY previous buffer content, = search
  C13G_find_partitioned_rice_parameter   the same through `reuse!(PRC_FINDER, ..)`       (TOP)
  C13G_scratch_independent        two different stale scratch contents give the same result (C10 for this kernel)
Hypotheses of the top theorems: `signal.length < 2^21`, `max_p <= 14`, and for the release profile only: the block is not
shorter than `max 64 warmup` and no sample is `i32::MIN` (there the release build wraps where the model, which follows the
dev profile, reports a panic).  An `example` shows them satisfiable on a non-trivial signal.
  C13G_quotients_and_remainders / C13G_encode_residual_partition / C13G_encode_residual_with_prc_parameter
                                  coding.rs: the callee of part `coding` (CD_CALLEES) = Residual.ofErrors, for every
                                  prc_p with order <= 15, 2^order parameters < 32, 2^order | n, warm-up <= partition
                                  length, no i32::MIN error; C13G_encode_residual_chain: every result of `search` on
                                  fewer than 2^16 errors satisfies these (chain coding -> rice closed on both callees)
  C13G_D1_order_le_14 + examples  the exact boundary of D1 (2^21 samples / 32768 tables)
Disagreements model / source, each excluded by a hypothesis and stated as a lemma with a witness:
  C13G_merge_partitions_assert    (D1) order 15: `assert!(tables.len() < 32768)` fails on 32768 tables, the model has no assert
  C13G_from_errors_dev_overflow   (D2) dev: `len * 16` overflows u32 in lane 15 from 2^28 errors on, the model wraps
  C13G_encode_signbit_release_min (D3) release: encode_signbit(i32::MIN) wraps to u32::MAX, the model reports the dev panic
  C13G_finest_release_wraps       (D4) release: size < min_part_size wraps `32 - 32 - 1`, the model reports the dev panic

Mutation evidence: notes/rice_mutations.md.
-/
import FlacVerif.Gen.Rice
import FlacVerif.Model.Rice
import FlacVerif.Lemmas.RiceSearchLoop

namespace FlacVerif.C13Gen
open FlacVerif FlacVerif.Gen.Rice
open FlacVerif.Gen.Decode (req setAt sliceR loopM rangeL enumerate wrapS castU arithS addU subU mulU shAmt shlU shrU divU)

/-! ### lanes -/

theorem allSome_map_some {α : Type} (l : List α) : allSome (l.map some) = some l := by
  induction l with
  | nil => rfl
  | cons x xs ih => simp [allSome, ih]

theorem allSome_map_of {α β : Type} (l : List α) (g : α → Option β) (h : α → β) (hg : ∀ x ∈ l, g x = some (h x)) :
    allSome (l.map g) = some (l.map h) := by
  have : l.map g = (l.map h).map some := by
    rw [List.map_map]; apply List.map_congr_left; intro x hx; simp [hg x hx]
  rw [this, allSome_map_some]

theorem lanes2_map {α β γ ι : Type} (g : α → β → γ) (f1 : ι → α) (f2 : ι → β) (r : List ι) :
    lanes2 g (r.map f1) (r.map f2) = r.map (fun p => g (f1 p) (f2 p)) := by
  unfold lanes2
  induction r with
  | nil => rfl
  | cons x xs ih => simp [ih]

theorem lanesM2_map {α β γ ι : Type} (g : α → β → Option γ) (h : ι → γ) (f1 : ι → α) (f2 : ι → β) (r : List ι)
    (hg : ∀ p ∈ r, g (f1 p) (f2 p) = some (h p)) :
    lanesM2 g (r.map f1) (r.map f2) = some (r.map h) := by
  unfold lanesM2
  have := lanes2_map g f1 f2 r
  unfold lanes2 at this
  rw [this]
  exact allSome_map_of r _ h hg

theorem lanes3_map {α β γ δ ι : Type} (g : α → β → γ → δ) (f1 : ι → α) (f2 : ι → β) (f3 : ι → γ) (r : List ι) :
    lanes3 g (r.map f1) (r.map f2) (r.map f3) = r.map (fun p => g (f1 p) (f2 p) (f3 p)) := by
  unfold lanes3
  induction r with
  | nil => rfl
  | cons x xs ih => simp [ih]

theorem splat_eq {α : Type} (n : Nat) (v : α) : splat n v = (List.range n).map (fun _ => v) := by
  unfold splat
  apply List.ext_getElem <;> simp

theorem INDEX_eq : INDEX = (List.range 16).map (fun p => p) := by decide
theorem INDEX1_eq : INDEX1 = (List.range 16).map (fun p => p + 1) := by decide
theorem ZEROS_eq : ZEROS = (List.range 16).map (fun _ => 0) := by decide
theorem MAXES_eq : MAXES = (List.range 16).map (fun _ => 4294967295) := by decide
theorem MAXV_eq : MAX_P_TO_BITS_VEC = (List.range 16).map (fun _ => 268435455) := by decide

/-- a 16-lane vector is the list of its lanes -/
theorem lanes16 (t : List Nat) (h : t.length = 16) : t = (List.range 16).map (fun p => t.getD p 0) := by
  apply List.ext_getElem
  · simp [h]
  · intro i h1 h2
    simp [List.getD_eq_getElem?_getD, List.getElem?_eq_getElem h1]

/-! ### `merge` -/

theorem C13G_merge (a b : PrcBitTable) (off : Nat) (ha : a.p_to_bits.length = 16) (hb : b.p_to_bits.length = 16) :
    (PrcBitTable.merge a b off).p_to_bits = Table.merge a.p_to_bits b.p_to_bits off := by
  unfold PrcBitTable.merge Table.merge
  conv => lhs; rw [lanes16 _ ha, lanes16 _ hb, splat_eq, MAXV_eq]
  simp only [lanes2_map]
  apply List.map_congr_left
  intro p hp
  simp only [waddU, wsubU, u32, maxPToBits, Nat.mod_mod]

/-! ### `minimizer` -/

theorem lanesM2_shl (dbg : Bool) (r : List Nat) (f : Nat → Nat) (k : Nat) (hk : k < 32) :
    lanesM2 (shlL dbg 32) (r.map f) (r.map fun _ => k) = some (r.map fun p => shlU 32 (f p) k) := by
  apply lanesM2_map
  intro p _
  simp [shlL, shAmt, hk]

theorem lanesM2_shr_index (dbg : Bool) (e : Nat) :
    lanesM2 (shrL dbg 32) ((List.range 16).map fun _ => e) ((List.range 16).map fun p => p)
      = some ((List.range 16).map fun p => shrU e p) := by
  apply lanesM2_map
  intro p hp
  have : p < 32 := by have := List.mem_range.mp hp; omega
  simp [shrL, shAmt, this]

theorem reduceMin_eq (l : List Nat) (B : Nat) (hne : l ≠ []) (hB : ∀ x ∈ l, x ≤ B) :
    reduceMin l = some (l.foldl min B) := by
  cases l with
  | nil => exact absurd rfl hne
  | cons x xs =>
    have : min B x = x := Nat.min_eq_right (hB x (by simp))
    simp [reduceMin, this]

theorem reduceMax_eq (l : List Nat) (hne : l ≠ []) : reduceMax l = some (l.foldl max 0) := by
  cases l with
  | nil => exact absurd rfl hne
  | cons x xs => simp [reduceMax]

theorem C13G_minimizer (dbg : Bool) (t : PrcBitTable) (maxP : Nat) (ht : t.p_to_bits.length = 16) (hm : maxP ≤ 14) :
    PrcBitTable.minimizer dbg t maxP = some (Table.minimizer t.p_to_bits maxP) := by
  unfold PrcBitTable.minimizer Table.minimizer
  have hmp : maxP % 4294967296 = maxP := Nat.mod_eq_of_lt (by omega)
  have hda : dbgAssert dbg (decide (maxP ≤ FlacVerif.Gen.Const.rice_MAX_RICE_PARAMETER)) = some () := by
    simp [dbgAssert, FlacVerif.Gen.Const.rice_MAX_RICE_PARAMETER, hm]
  rw [hda]
  simp only [Option.bind_some]
  conv => lhs; rw [lanes16 _ ht, INDEX_eq, MAXES_eq, splat_eq, splat_eq]
  simp only [lanes2_map, lanes3_map]
  rw [lanesM2_shl dbg _ _ 4 (by omega)]
  simp only [Option.bind_some, lanes2_map]
  rw [reduceMin_eq _ (u32 - 1) (by simp) ?_]
  · simp only [Option.bind_some, hmp]
    have hpk : (List.range 16).map (fun p => Nat.lor (shlU 32 (if decide (p ≤ maxP) = true then t.p_to_bits.getD p 0 else 4294967295) 4) p)
        = (List.range 16).map (fun p => (((if p ≤ maxP then t.p_to_bits.getD p 0 else u32 - 1) <<< 4) % u32) ||| p) := by
      apply List.map_congr_left
      intro p _
      simp only [shlU, Nat.shiftLeft_eq, u32, decide_eq_true_eq]
      rfl
    rw [hpk]
    generalize (List.range 16).map (fun p => (((if p ≤ maxP then t.p_to_bits.getD p 0 else u32 - 1) <<< 4) % u32) ||| p) = pk
    simp only [shrU, Nat.shiftRight_eq_div_pow]
    congr 2
    exact Nat.and_two_pow_sub_one_eq_mod _ 4
  · intro x hx
    simp only [List.mem_map, List.mem_range] at hx
    obtain ⟨p, hp, rfl⟩ := hx
    have h1 : shlU 32 (if decide (p ≤ maxP % 4294967296) = true then t.p_to_bits.getD p 0 else 4294967295) 4 < 2 ^ 32 := by
      unfold shlU; exact Nat.mod_lt _ (by decide)
    have h2 : p < 2 ^ 32 := by omega
    have := Nat.or_lt_two_pow h1 h2
    unfold u32
    have h3 : ∀ a b : Nat, Nat.lor a b = a ||| b := fun _ _ => rfl
    rw [h3]
    omega

/-! ### `finest_partition_order` -/

theorem tz_zero : (List.range 64).find? (fun i => (0 : Nat).testBit i) = none := by
  rw [List.find?_eq_none]; intro x _; simp

/-- dev profile: equal for every argument; release: equal wherever the model does not report the underflow panic
(`size / min_part_size = 0`, see `C13G_finest_release_wraps`). -/
theorem C13G_finest (dbg : Bool) (size minPart : Nat) (h : dbg = true ∨ (size / minPart) % u32 ≠ 0) :
    finest_partition_order dbg size minPart = finestOrder size minPart := by
  unfold finest_partition_order finestOrder
  by_cases h0 : minPart = 0
  · subst h0; simp [req]
  · have h1 : decide (minPart ≥ 1) = true := by simp; omega
    simp only [h0, h1, req, ↓reduceIte, Option.bind_some, divU]
    have htz : tzU 64 size = (if size = 0 then 64 else ((List.range 64).find? (fun i => size.testBit i)).getD 64) := by
      unfold tzU
      by_cases hs : size = 0
      · subst hs; rw [tz_zero]; rfl
      · simp [hs]
    rw [htz]
    have hu : (4294967296 : Nat) = u32 := rfl
    rw [hu]
    have hlt : (size / minPart) % u32 < 2 ^ 32 := Nat.mod_lt _ (by decide)
    generalize (size / minPart) % u32 = ms at h hlt ⊢
    by_cases hz : ms = 0
    · subst hz
      cases h with
      | inl hd => subst hd; simp [lzU, subU]
      | inr hn => exact absurd rfl hn
    · simp only [hz, ↓reduceIte]
      · have hlog : Nat.log2 ms < 32 := (Nat.log2_lt hz).mpr hlt
        have e1 : subU dbg 32 32 (lzU 32 ms) = some (Nat.log2 ms + 1) := by
          unfold subU lzU; simp only [hz, ↓reduceIte]
          have : 32 - 1 - Nat.log2 ms ≤ 32 := by omega
          simp only [this, ↓reduceIte]; congr 1; omega
        have e2 : subU dbg 32 (Nat.log2 ms + 1) 1 = some (Nat.log2 ms) := by
          unfold subU; simp
        simp only [e1, e2, Option.bind_some, FlacVerif.Gen.Const.rice_MAX_PARTITION_ORDER]

/-- release profile, `size < min_part_size`: the Rust code wraps (`32 - 32 - 1`) and goes on where the dev profile (and the
model) panic. -/
theorem C13G_finest_release_wraps : finest_partition_order false 32 64 = some 5 ∧ finestOrder 32 64 = none := by
  constructor <;> decide

/-! ### `find_max` -/

theorem forO_max (l : List Nat) (acc : Nat) :
    FlacVerif.Gen.Source.forO l acc (fun x acc => some (max x acc)) = some (l.foldl max acc) := by
  induction l generalizing acc with
  | nil => rfl
  | cons x xs ih =>
    simp only [FlacVerif.Gen.Source.forO, List.foldl_cons]
    rw [ih, Nat.max_comm]

theorem foldl_max_replicate (n a : Nat) : (List.replicate n 0).foldl max a = a := by
  induction n with
  | zero => rfl
  | succ n ih => simp [List.replicate_succ, ih]

theorem C13G_find_max (dbg : Bool) (es : List Nat) : find_max dbg 64 es = some (es.foldl max 0) := by
  unfold find_max FlacVerif.Gen.Source.simd_map_and_reduce FlacVerif.Gen.Source.slice_as_simd
  have h : reduceMax (List.replicate 64 0) = some 0 := by
    rw [reduceMax_eq _ (by simp), foldl_max_replicate]
  simp only [FlacVerif.Gen.Source.bindO, forO_max, FlacVerif.Gen.Source.forO, h, Option.bind_some, Nat.max_zero]

/-! ### loops -/

theorem loopM_nil {α σ : Type} (s : σ) (f : α → σ → Option σ) : loopM [] s f = some s := by
  unfold loopM; rfl

theorem loopM_cons {α σ : Type} (x : α) (xs : List α) (s : σ) (f : α → σ → Option σ) :
    loopM (x :: xs) s f = (f x s).bind fun s' => loopM xs s' f := by
  rw [loopM]

theorem loopM_congr {α σ : Type} (l : List α) (s : σ) (f g : α → σ → Option σ) (h : ∀ x ∈ l, ∀ s, f x s = g x s) :
    loopM l s f = loopM l s g := by
  induction l generalizing s with
  | nil => rw [loopM_nil, loopM_nil]
  | cons x xs ih =>
    rw [loopM_cons, loopM_cons, h x (by simp)]
    congr 1; funext s'
    exact ih s' (fun y hy => h y (by simp [hy]))

/-- a loop whose state is a vector of lanes, each lane updated independently -/
theorem loopM_lanes {α : Type} (r : List Nat) (es : List α) (f : Nat → Nat) (body : α → List Nat → Option (List Nat))
    (step : α → Nat → Nat → Nat)
    (hb : ∀ e ∈ es, ∀ g : Nat → Nat, body e (r.map g) = some (r.map fun p => step e (g p) p)) :
    loopM es (r.map f) body = some (r.map fun p => es.foldl (fun a e => step e a p) (f p)) := by
  induction es generalizing f with
  | nil => rw [loopM_nil]; rfl
  | cons e es ih =>
    rw [loopM_cons, hb e (by simp) f]
    simp only [Option.bind_some, List.foldl_cons]
    exact ih (fun p => step e (f p) p) (fun e' he' g => hb e' (by simp [he']) g)

/-- `for n in 0..len { body(chunk[n]) }` is a loop over the elements -/
theorem loopM_index_aux {α σ : Type} (body : α → σ → Option σ) (chunk pre : List α) (s : σ) :
    loopM (List.range' pre.length chunk.length) s (fun n s => ((pre ++ chunk)[n]?).bind fun e => body e s)
      = loopM chunk s body := by
  induction chunk generalizing pre s with
  | nil => simp [loopM_nil]
  | cons x xs ih =>
    simp only [List.length_cons, List.range'_succ, loopM_cons]
    have hx : (pre ++ x :: xs)[pre.length]? = some x := by simp
    rw [hx]
    simp only [Option.bind_some]
    congr 1; funext s'
    have := ih (pre ++ [x]) s'
    simp only [List.length_append, List.length_cons, List.length_nil, List.append_assoc, List.cons_append, List.nil_append] at this
    exact this

theorem loopM_index {α σ : Type} (body : α → σ → Option σ) (chunk : List α) (s : σ) :
    loopM (rangeL 0 chunk.length) s (fun n s => (chunk[n]?).bind fun e => body e s) = loopM chunk s body := by
  have := loopM_index_aux body chunk [] s
  simpa [rangeL] using this

theorem repeatWhileM_stop {σ : Type} (c : Nat → Bool) (f : Nat → σ → Option σ) (l1 l2 : List Nat) (s : σ)
    (h1 : ∀ t ∈ l1, c t = true) (h2 : ∀ t ∈ l2.head?, c t = false) :
    repeatWhileM c f (l1 ++ l2) s = loopM l1 s f := by
  induction l1 generalizing s with
  | nil =>
    rw [loopM_nil]
    cases l2 with
    | nil => rfl
    | cons t ts => simp [repeatWhileM, h2 t (by simp)]
  | cons x xs ih =>
    simp only [List.cons_append, repeatWhileM, h1 x (by simp), ↓reduceIte, loopM_cons]
    congr 1; funext s'
    exact ih s' (fun t ht => h1 t (by simp [ht]))

theorem repeatWhileM_index {α σ : Type} (body : α → σ → Option σ) (chunk : List α) (n : Nat) (s : σ) (hn : chunk.length ≤ n) :
    repeatWhileM (fun k => decide (k < chunk.length)) (fun k s => (chunk[k]?).bind fun e => body e s) (rangeL 0 n) s
      = loopM chunk s body := by
  have hsplit : rangeL 0 n = List.range' 0 chunk.length ++ List.range' chunk.length (n - chunk.length) := by
    unfold rangeL
    have : n - 0 = chunk.length + (n - chunk.length) := by omega
    rw [this]
    have := List.range'_append_1 (s := 0) (m := chunk.length) (n := n - chunk.length)
    simp only [Nat.zero_add] at this
    exact this.symm
  rw [hsplit, repeatWhileM_stop]
  · have := loopM_index body chunk s
    simpa [rangeL] using this
  · intro t ht
    have := (List.mem_range'_1.mp ht).2
    simp; omega
  · intro t ht
    cases hk : n - chunk.length with
    | zero => simp [hk] at ht
    | succ k =>
      simp [hk, List.range'_succ] at ht
      subst ht; simp

/-! ### `from_errors` -/

abbrev r16 : List Nat := List.range 16

theorem lanesM2_mul (dbg : Bool) (n : Nat) (h : dbg = true → n * 16 < 2 ^ 32) :
    lanesM2 (mulU dbg 32) (r16.map fun _ => n) (r16.map fun p => p + 1) = some (r16.map fun p => (n * (p + 1)) % 2 ^ 32) := by
  apply lanesM2_map
  intro p hp
  have hp' : p < 16 := List.mem_range.mp hp
  unfold mulU
  by_cases hlt : n * (p + 1) < 2 ^ 32
  · simp [hlt, Nat.mod_eq_of_lt hlt]
  · cases dbg with
    | true =>
      have := h rfl
      have : n * (p + 1) ≤ n * 16 := Nat.mul_le_mul_left n (by omega)
      omega
    | false => simp [hlt]

/-- one step of both accumulation loops: `splat(e) >> INDEX` -/
theorem shr_step (dbg : Bool) (e : Nat) :
    lanesM2 (shrL dbg 32) (splat 16 e) INDEX = some (r16.map fun p => e >>> p) := by
  rw [splat_eq, INDEX_eq, lanesM2_shr_index]
  simp only [shrU, Nat.shiftRight_eq_div_pow]

theorem slow_loop (dbg : Bool) (es : List Nat) (f : Nat → Nat) :
    loopM es (r16.map f) (fun e p_to_bits =>
        (lanesM2 (shrL dbg 32) (splat 16 e) INDEX).bind fun v3' =>
        some (lanes2 min (lanes2 (waddU 32) p_to_bits (lanes2 min v3' MAX_P_TO_BITS_VEC)) MAX_P_TO_BITS_VEC))
      = some (r16.map fun p => es.foldl (fun a e => min ((a + min (e >>> p) maxPToBits) % u32) maxPToBits) (f p)) := by
  apply loopM_lanes r16 es f _ (fun e a p => min ((a + min (e >>> p) maxPToBits) % u32) maxPToBits)
  intro e _ g
  rw [shr_step, MAXV_eq]
  simp only [Option.bind_some, lanes2_map, waddU, u32, maxPToBits]

theorem chunk_loop (dbg : Bool) (chunk : List Nat) (g : Nat → Nat) :
    loopM chunk (r16.map g) (fun e p_to_bits =>
        (lanesM2 (shrL dbg 32) (splat 16 e) INDEX).bind fun v5' =>
        some (lanes2 (waddU 32) p_to_bits v5'))
      = some (r16.map fun p => chunk.foldl (fun a e => (a + (e >>> p)) % u32) (g p)) := by
  apply loopM_lanes r16 chunk g _ (fun e a p => (a + (e >>> p)) % u32)
  intro e _ g
  rw [shr_step]
  simp only [Option.bind_some, lanes2_map, waddU, u32]

def chunkStep (p : Nat) (a : Nat) (chunk : List Nat) : Nat :=
  min (chunk.foldl (fun a e => (a + (e >>> p)) % u32) a) maxPToBits

theorem chunk_body (dbg : Bool) (chunk : List Nat) (g : Nat → Nat) (hc : chunk.length ≤ 16) :
    ((if (decide (chunk.length = PRC_BIT_TABLE_FROM_ERRORS_UNROLL_N)) then
          (loopM (rangeL 0 PRC_BIT_TABLE_FROM_ERRORS_UNROLL_N) (r16.map g) fun n p_to_bits =>
              (chunk[n]?).bind fun v4' =>
              (lanesM2 (shrL dbg 32) (splat 16 v4') INDEX).bind fun v5' =>
              some (lanes2 (waddU 32) p_to_bits v5')).bind fun p_to_bits =>
          some p_to_bits
        else
          (repeatWhileM (fun n => (decide (n < chunk.length))) (fun n p_to_bits =>
              (chunk[n]?).bind fun v6' =>
              (lanesM2 (shrL dbg 32) (splat 16 v6') INDEX).bind fun v7' =>
              some (lanes2 (waddU 32) p_to_bits v7')) (rangeL 0 PRC_BIT_TABLE_FROM_ERRORS_UNROLL_N) (r16.map g)).bind fun p_to_bits =>
          some p_to_bits).bind fun p_to_bits =>
      some (lanes2 min p_to_bits MAX_P_TO_BITS_VEC))
    = some (r16.map fun p => chunkStep p (g p) chunk) := by
  have hN : PRC_BIT_TABLE_FROM_ERRORS_UNROLL_N = 16 := rfl
  rw [hN]
  by_cases h16 : chunk.length = 16
  · simp only [h16, decide_true, ↓reduceIte]
    have := loopM_index (fun e p_to_bits =>
        (lanesM2 (shrL dbg 32) (splat 16 e) INDEX).bind fun v5' =>
        some (lanes2 (waddU 32) p_to_bits v5')) chunk (r16.map g)
    rw [h16] at this
    rw [this, chunk_loop, MAXV_eq]
    simp only [Option.bind_some, lanes2_map, chunkStep, maxPToBits]
  · simp only [h16, decide_false, Bool.false_eq_true, ↓reduceIte]
    have := repeatWhileM_index (fun e p_to_bits =>
        (lanesM2 (shrL dbg 32) (splat 16 e) INDEX).bind fun v5' =>
        some (lanes2 (waddU 32) p_to_bits v5')) chunk 16 (r16.map g) hc
    rw [this, chunk_loop, MAXV_eq]
    simp only [Option.bind_some, lanes2_map, chunkStep, maxPToBits]

theorem chunksAux_len {α : Type} (n fuel : Nat) (rest : List α) : ∀ c ∈ chunksAux n fuel rest, c.length ≤ n := by
  induction fuel generalizing rest with
  | zero => intro c hc; simp [chunksAux] at hc
  | succ fuel ih =>
    intro c hc
    unfold chunksAux at hc
    split at hc
    · simp at hc
    · simp only [List.mem_cons] at hc
      cases hc with
      | inl h => subst h; simp [List.length_take]; omega
      | inr h => exact ih _ c h

theorem go_eq_chunks (p : Nat) (fuel : Nat) (rest : List Nat) (acc : Nat) (h : rest.length ≤ fuel) :
    Table.accFast.go p acc rest (fuel + 1) = (chunksAux 16 fuel rest).foldl (chunkStep p) acc := by
  induction fuel generalizing rest acc with
  | zero =>
    have : rest = [] := List.eq_nil_of_length_eq_zero (by omega)
    subst this
    simp [Table.accFast.go, chunksAux]
  | succ fuel ih =>
    unfold Table.accFast.go chunksAux
    by_cases he : rest.isEmpty = true
    · simp [he]
    · simp only [he, Bool.false_eq_true, ↓reduceIte, List.foldl_cons]
      have hne : rest ≠ [] := by intro h0; subst h0; simp at he
      have hl : (rest.drop 16).length ≤ fuel := by
        have : 0 < rest.length := List.length_pos_iff.mpr hne
        rw [List.length_drop]; omega
      rw [ih (rest.drop 16) _ hl]
      rfl

theorem C13G_from_errors (dbg : Bool) (es : List Nat) (offset : Nat)
    (ho : dbg = true → offset < 2 ^ 31) (hl : dbg = true → es.length < 2 ^ 28) :
    PrcBitTable.from_errors dbg es offset = some ⟨Table.fromErrors es offset⟩ := by
  unfold PrcBitTable.from_errors
  have hda : dbgAssert dbg (decide (offset < shlU 64 1 31)) = some () := by
    cases dbg with
    | false => simp [dbgAssert]
    | true =>
      have : shlU 64 1 31 = 2 ^ 31 := by decide
      simp [dbgAssert, this, ho rfl]
  have hmul := lanesM2_mul dbg (es.length % 4294967296) (by
    intro hd
    have := hl hd
    have h2 : es.length % 4294967296 = es.length := Nat.mod_eq_of_lt (by omega)
    omega)
  have h27 : shlU 32 1 27 = 2 ^ 27 := by decide
  rw [hda, splat_eq, INDEX1_eq, hmul, C13G_find_max, splat_eq, ZEROS_eq, h27]
  simp only [Option.bind_some, lanes2_map, ge_iff_le]
  unfold Table.fromErrors
  by_cases hbig : 2 ^ 27 ≤ es.foldl max 0
  · simp only [hbig, decide_true, ge_iff_le, ↓reduceIte]
    rw [slow_loop, MAXV_eq]
    simp only [Option.bind_some, lanes2_map]
    congr 2
    apply List.map_congr_left
    intro p hp
    have hp' : p < 16 := List.mem_range.mp hp
    simp only [Table.accSlow, RiceSearch.getD_map_range _ _ _ _ hp', waddU, u32, maxPToBits, Nat.add_mod_mod, ge_iff_le, hbig, ↓reduceIte]
  · simp only [hbig, decide_false, Bool.false_eq_true, ge_iff_le, ↓reduceIte]
    have hreq : req (decide (PRC_BIT_TABLE_FROM_ERRORS_UNROLL_N ≠ 0)) = some () := by decide
    have hN : chunks es PRC_BIT_TABLE_FROM_ERRORS_UNROLL_N = chunksAux 16 es.length es := rfl
    rw [hreq, hN]
    simp only [Option.bind_some]
    rw [loopM_lanes r16 (chunksAux 16 es.length es) (fun _ => 0) _ (fun chunk a p => chunkStep p a chunk)
      (fun chunk hc g => chunk_body dbg chunk g (chunksAux_len 16 es.length es chunk hc)), MAXV_eq]
    simp only [Option.bind_some, lanes2_map]
    congr 2
    apply List.map_congr_left
    intro p hp
    have hp' : p < 16 := List.mem_range.mp hp
    simp only [Table.accFast, RiceSearch.getD_map_range _ _ _ _ hp', waddU, u32, maxPToBits, Nat.add_mod_mod]
    rw [go_eq_chunks p es.length es 0 (Nat.le_refl _)]

/-! ### `eval_partitions` -/

open FlacVerif.Gen.Decode (enumFrom)

theorem enumFrom_cons {α : Type} (i : Nat) (x : α) (xs : List α) : enumFrom i (x :: xs) = (i, x) :: enumFrom (i + 1) xs := by
  rw [enumFrom]

theorem minimizer_bits_lt (t : Table) (maxP : Nat) : (Table.minimizer t maxP).2 < 2 ^ 28 := by
  unfold Table.minimizer
  simp only
  have := RiceSearch.foldl_min_le ((List.range 16).map fun p => (((if p ≤ maxP then t.getD p 0 else u32 - 1) <<< 4) % u32) ||| p) (u32 - 1)
  rw [Nat.shiftRight_eq_div_pow]
  unfold u32 at *
  omega

theorem setAt_append {α : Type} (pre : List α) (r : α) (rest : List α) (v : α) :
    setAt (pre ++ r :: rest) pre.length v = some (pre ++ v :: rest) := by
  unfold setAt
  simp

theorem eval_loop (dbg : Bool) (maxP : Nat) (hm : maxP ≤ 14) (tables : List PrcBitTable)
    (hlen : ∀ t ∈ tables, t.p_to_bits.length = 16) (pre rest : List Nat) (sum : Nat)
    (hr : tables.length ≤ rest.length) (hsum : sum + tables.length * 2 ^ 28 < 2 ^ 64) :
    (loopM (List.zip (enumFrom pre.length rest) tables) (sum, pre ++ rest) fun ((v1', dest), t) (sum_bits, ps) =>
      (PrcBitTable.minimizer dbg t maxP).bind fun v2' =>
      let (p, bits) := v2'
      (addU dbg 64 sum_bits bits).bind fun v3' =>
      let sum_bits : Nat := v3'
      (setAt ps v1' p).bind fun ps =>
      let dest := p
      some (sum_bits, ps))
    = some (sum + (tables.map fun t => (Table.minimizer t.p_to_bits maxP).2).sum,
            pre ++ (tables.map fun t => (Table.minimizer t.p_to_bits maxP).1) ++ rest.drop tables.length) := by
  induction tables generalizing pre rest sum with
  | nil => simp [loopM_nil]
  | cons t ts ih =>
    cases rest with
    | nil => simp at hr
    | cons r rest =>
      rw [enumFrom_cons, List.zip_cons_cons, loopM_cons]
      simp only [C13G_minimizer dbg t maxP (hlen t (by simp)) hm, Option.bind_some]
      have hb := minimizer_bits_lt t.p_to_bits maxP
      simp only [List.length_cons] at hsum hr
      have hadd : addU dbg 64 sum (Table.minimizer t.p_to_bits maxP).2 = some (sum + (Table.minimizer t.p_to_bits maxP).2) := by
        unfold addU
        have : sum + (Table.minimizer t.p_to_bits maxP).2 < 2 ^ 64 := by omega
        simp [this]
      simp only [hadd, Option.bind_some, setAt_append]
      have := ih (fun t' ht' => hlen t' (by simp [ht'])) (pre ++ [(Table.minimizer t.p_to_bits maxP).1]) rest
        (sum + (Table.minimizer t.p_to_bits maxP).2) (by omega) (by omega)
      simp only [List.length_append, List.length_cons, List.length_nil, List.append_assoc, List.cons_append, List.nil_append] at this
      rw [this]
      simp [Nat.add_assoc]

theorem C13G_eval_partitions (dbg : Bool) (tables : List PrcBitTable) (ps : List Nat) (maxP : Nat) (hm : maxP ≤ 14)
    (hlen : ∀ t ∈ tables, t.p_to_bits.length = 16) (hn : tables.length ≤ 2 ^ 16) :
    eval_partitions dbg tables ps maxP =
      if tables.length ≤ ps.length then
        some ((evalPartitions (tables.map (·.p_to_bits)) maxP).1,
              (evalPartitions (tables.map (·.p_to_bits)) maxP).2 ++ ps.drop tables.length)
      else none := by
  unfold eval_partitions
  by_cases h : tables.length ≤ ps.length
  · have hreq : req (decide (ps.length ≥ tables.length)) = some () := by simp [req, h]
    have := eval_loop dbg maxP hm tables hlen [] ps 0 h (by omega)
    simp only [List.length_nil, List.nil_append, Nat.zero_add] at this
    rw [hreq]
    simp only [Option.bind_some, enumerate, this, h, ↓reduceIte, RiceSearch.evalPartitions_eq, List.map_map]
    rfl
  · have hreq : req (decide (ps.length ≥ tables.length)) = none := by simp [req]; omega
    rw [hreq]
    simp [h]

/-! ### `merge_partitions` -/

def mk (orig : List PrcBitTable) (k : Nat) : PrcBitTable :=
  PrcBitTable.merge (orig.getD (2 * k) default) (orig.getD (2 * k + 1) default) 4

theorem merge_loop (dbg : Bool) (orig : List PrcBitTable) (m : Nat) (hm : 2 * m ≤ orig.length) (hl : orig.length < 2 ^ 32)
    (n j : Nat) (hj : j + n = m) :
    (loopM (List.range' j n) ((List.range j).map (mk orig) ++ orig.drop j) fun part_id tables =>
      (mulU dbg 64 part_id 2).bind fun v2' =>
      (tables[v2']?).bind fun v3' =>
      (mulU dbg 64 part_id 2).bind fun v4' =>
      (addU dbg 64 v4' 1).bind fun v5' =>
      (tables[v5']?).bind fun v6' =>
      (setAt tables part_id (PrcBitTable.merge v3' v6' 4)).bind fun v7' =>
      let tables : List PrcBitTable := v7'
      some tables)
    = some ((List.range m).map (mk orig) ++ orig.drop m) := by
  induction n generalizing j with
  | zero =>
    have : j = m := by omega
    subst this
    simp [loopM_nil]
  | succ n ih =>
    rw [List.range'_succ, loopM_cons]
    have hjm : j < m := by omega
    have hmul : mulU dbg 64 j 2 = some (j * 2) := by
      unfold mulU
      have : j * 2 < 2 ^ 64 := by omega
      simp [this]
    have hadd : addU dbg 64 (j * 2) 1 = some (j * 2 + 1) := by
      unfold addU
      have : j * 2 + 1 < 2 ^ 64 := by omega
      simp [this]
    have hlen : ((List.range j).map (mk orig)).length = j := by simp
    have hg0 : ((List.range j).map (mk orig) ++ orig.drop j)[j * 2]? = some (orig.getD (2 * j) default) := by
      rw [List.getElem?_append_right (by rw [hlen]; omega), hlen, List.getElem?_drop]
      have : j + (j * 2 - j) = 2 * j := by omega
      rw [this, List.getD_eq_getElem?_getD, List.getElem?_eq_getElem (by omega)]
      rfl
    have hg1 : ((List.range j).map (mk orig) ++ orig.drop j)[j * 2 + 1]? = some (orig.getD (2 * j + 1) default) := by
      rw [List.getElem?_append_right (by rw [hlen]; omega), hlen, List.getElem?_drop]
      have : j + (j * 2 + 1 - j) = 2 * j + 1 := by omega
      rw [this, List.getD_eq_getElem?_getD, List.getElem?_eq_getElem (by omega)]
      rfl
    have hdrop : orig.drop j = orig.getD j default :: orig.drop (j + 1) := by
      rw [List.getD_eq_getElem?_getD, List.getElem?_eq_getElem (by omega)]
      simp
    have hset : setAt ((List.range j).map (mk orig) ++ orig.drop j) j (mk orig j)
        = some ((List.range (j + 1)).map (mk orig) ++ orig.drop (j + 1)) := by
      rw [hdrop]
      have := setAt_append ((List.range j).map (mk orig)) (orig.getD j default) (orig.drop (j + 1)) (mk orig j)
      rw [hlen] at this
      rw [this, List.range_succ, List.map_append]
      simp
    simp only [hmul, hadd, hg0, hg1, Option.bind_some]
    have hmk : PrcBitTable.merge (orig.getD (2 * j) default) (orig.getD (2 * j + 1) default) 4 = mk orig j := rfl
    rw [hmk, hset]
    simp only [Option.bind_some]
    exact ih (j + 1) (by omega)

theorem C13G_merge_partitions (dbg : Bool) (tables : List PrcBitTable) :
    merge_partitions dbg tables =
      if tables.length < 32768 then
        some (tables.length / 2, (List.range (tables.length / 2)).map (mk tables) ++ tables.drop (tables.length / 2))
      else none := by
  unfold merge_partitions
  by_cases h : tables.length < 32768
  · have hreq : req (decide (tables.length < FlacVerif.Gen.Const.rice_MAX_PARTITIONS)) = some () := by
      simp [req, FlacVerif.Gen.Const.rice_MAX_PARTITIONS, h]
    rw [hreq]
    have := merge_loop dbg tables (tables.length / 2) (by omega) (by omega) (tables.length / 2) 0 (by omega)
    simp only [List.range_zero, List.map_nil, List.nil_append, List.drop_zero] at this
    have h2 : (2 : Nat) ≠ 0 := by decide
    simp only [Option.bind_some, divU, h2, rangeL, Nat.sub_zero, h, ↓reduceIte] at this ⊢
    rw [this]
    simp
  · have hreq : req (decide (tables.length < FlacVerif.Gen.Const.rice_MAX_PARTITIONS)) = none := by
      unfold req; simp only [FlacVerif.Gen.Const.rice_MAX_PARTITIONS]; simp [h]
    rw [hreq]
    simp [h]

/-! ### `unaligned_map_and_update` (fakesimd build: `slice_as_simd_mut` returns `(data, [], [])`) -/

/-- `dest[i] = f(dest[i], src[i])` for every `i < dest.len()`, in order; `none` = a call panics or `src` is too short -/
def zipUpd {T U : Type} (sf : T → U → Option T) : List T → List U → Option (List T)
  | [], _ => some []
  | _ :: _, [] => none
  | d :: ds, x :: xs => (sf d x).bind fun y => (zipUpd sf ds xs).map (y :: ·)

theorem scalar_loop {T U : Type} (dbg : Bool) (sf : T → U → Option T) (rest : List T) (pre : List T) (spre srest : List U)
    (hk : spre.length = pre.length) (h64 : (spre ++ srest).length < 2 ^ 64) :
    (loopM (enumFrom pre.length rest) (pre ++ rest, pre.length) fun (v1', p) (head, t) =>
      ((spre ++ srest)[t]?).bind fun v2' =>
      (sf p v2').bind fun v3' =>
      (setAt head v1' v3').bind fun head =>
      let p := v3'
      (addU dbg 64 t 1).bind fun v4' =>
      let t : Nat := v4'
      some (head, t))
    = (zipUpd sf rest srest).map fun ys => (pre ++ ys, pre.length + rest.length) := by
  induction rest generalizing pre spre srest with
  | nil => simp [FlacVerif.Gen.Decode.enumFrom, loopM_nil, zipUpd]
  | cons d ds ih =>
    rw [enumFrom_cons, loopM_cons]
    cases srest with
    | nil =>
      have : (spre ++ ([] : List U))[pre.length]? = none := by simp [hk]
      simp only [this, zipUpd, Option.bind_none, Option.map_none]
    | cons x xs =>
      have hx : (spre ++ x :: xs)[pre.length]? = some x := by rw [← hk]; simp
      simp only [hx, Option.bind_some, zipUpd]
      cases hs : sf d x with
      | none => simp
      | some y =>
        have hadd : addU dbg 64 pre.length 1 = some (pre.length + 1) := by
          unfold addU
          have : pre.length + 1 < 2 ^ 64 := by simp at h64; omega
          simp [this]
        simp only [Option.bind_some, setAt_append, hadd]
        have := ih (pre ++ [y]) (spre ++ [x]) xs (by simp [hk]) (by simpa using h64)
        simp only [List.length_append, List.length_cons, List.length_nil, List.append_assoc, List.cons_append, List.nil_append] at this
        rw [this]
        cases zipUpd sf ds xs with
        | none => rfl
        | some ys => simp [Nat.add_assoc, Nat.add_comm 1]

theorem C13G_unaligned {T U : Type} (dbg : Bool) (N : Nat) (src : List U) (dest : List T) (sf : T → U → Option T)
    (vf : List T → List U → Option (List T)) (h64 : src.length < 2 ^ 64) :
    unaligned_map_and_update dbg N src dest sf vf = zipUpd sf dest src := by
  unfold unaligned_map_and_update slice_as_simd_mut
  have := scalar_loop dbg sf dest [] [] src rfl (by simpa using h64)
  simp only [List.length_nil, List.nil_append, Nat.zero_add] at this
  simp only [enumerate, this]
  cases zipUpd sf dest src with
  | none => rfl
  | some ys => simp [FlacVerif.Gen.Decode.enumFrom, loopM_nil, simdJoin]

/-! ### `find` -/

theorem finestOrder_some (n M o : Nat) (hn : n < 2 ^ 32) (h : finestOrder n M = some o) : o ≤ 15 ∧ M * 2 ^ o ≤ n := by
  unfold finestOrder at h
  by_cases hM : M = 0
  · simp [hM] at h
  · have hlt : n / M < u32 := Nat.lt_of_le_of_lt (Nat.div_le_self _ _) (by unfold u32; omega)
    rw [Nat.mod_eq_of_lt hlt] at h
    by_cases hz : n / M = 0
    · simp [hM, hz] at h
    · simp only [hM, hz, ↓reduceIte, Option.some.injEq] at h
      subst h
      refine ⟨Nat.min_le_left _ _, ?_⟩
      have h1 : 2 ^ (min 15 (min (Nat.log2 (n / M)) (if n = 0 then 64 else ((List.range 64).find? (fun i => n.testBit i)).getD 64)))
          ≤ 2 ^ Nat.log2 (n / M) :=
        Nat.pow_le_pow_right (by decide) (Nat.le_trans (Nat.min_le_right _ _) (Nat.min_le_left _ _))
      have h2 : 2 ^ Nat.log2 (n / M) ≤ n / M := Nat.log2_self_le hz
      have h3 := (Nat.le_div_iff_mul_le (Nat.pos_of_ne_zero hM)).mp (Nat.le_trans h1 h2)
      rw [Nat.mul_comm]; exact h3

theorem encode_any (dbg : Bool) (v : Int) (h : dbg = true ∨ encodeSignbit v ≠ none) :
    FlacVerif.Gen.Decode.encode_signbit dbg v = encodeSignbit v := by
  unfold encodeSignbit FlacVerif.Gen.Decode.encode_signbit subU shlU u32 at *
  simp only [Nat.pow_one, decide_eq_true_eq] at *
  rw [Nat.mul_comm]
  by_cases hle : (if v < 0 then 1 else 0) ≤ 2 * v.natAbs % 2 ^ 32
  · simp [hle]
  · cases h with
    | inl hd => subst hd; simp [hle]
    | inr hn => simp [hle] at hn

/-- the scalar closure of `find` applied to every sample -/
theorem encode_all (dbg : Bool) (signal : List Int) (d : List Nat) (hd : d.length = signal.length)
    (h : dbg = true ∨ ∀ v ∈ signal, encodeSignbit v ≠ none) :
    zipUpd (fun (p : Nat) (x : Int) => (FlacVerif.Gen.Decode.encode_signbit dbg x).bind fun v3' =>
        let p : Nat := v3'
        some p) d signal = signal.mapM encodeSignbit := by
  induction signal generalizing d with
  | nil =>
    have : d = [] := List.eq_nil_of_length_eq_zero hd
    subst this; simp [zipUpd]
  | cons x xs ih =>
    cases d with
    | nil => simp at hd
    | cons y ys =>
      have hx : FlacVerif.Gen.Decode.encode_signbit dbg x = encodeSignbit x :=
        encode_any dbg x (h.imp id (fun hh => hh x (by simp)))
      have := ih ys (by simpa using hd) (h.imp id (fun hh v hv => hh v (by simp [hv])))
      simp only [zipUpd, hx, this, List.mapM_cons]
      cases encodeSignbit x with
      | none => rfl
      | some e =>
        cases List.mapM encodeSignbit xs with
        | none => rfl
        | some es => rfl

/-- body of the table-building loop of `find` (generated text) -/
def tblBody (dbg : Bool) (warmup_length part_size : Nat) : Nat → PrcParameterFinder → Option PrcParameterFinder :=
  fun p self =>
      (mulU dbg 64 p part_size).bind fun v7' =>
      let start : Nat := (max v7' warmup_length)
      (addU dbg 64 p 1).bind fun v8' =>
      (mulU dbg 64 v8' part_size).bind fun v9' =>
      let end_ : Nat := v9'
      (sliceR self.errors start end_).bind fun v10' =>
      (PrcBitTable.from_errors dbg v10' 4).bind fun v11' =>
      let table : PrcBitTable := v11'
      let self : PrcParameterFinder := { self with tables := self.tables ++ [table] }
      some self

/-- table of partition `k` as the model builds it -/
def tblAt (es : List Nat) (warm psize k : Nat) : PrcBitTable :=
  ⟨Table.fromErrors ((es.take ((k + 1) * psize)).drop (max (k * psize) warm)) 4⟩

theorem tables_loop (dbg : Bool) (es : List Nat) (warm o : Nat) (hn : es.length < 2 ^ 28)
    (ho : max 64 warm * 2 ^ o ≤ es.length) (cnt j : Nat) (hj : j + cnt = 2 ^ o) (self : PrcParameterFinder)
    (hself : self.errors = es) :
    loopM (List.range' j cnt) self (tblBody dbg warm (es.length / 2 ^ o))
      = some { self with tables := self.tables ++ (List.range' j cnt).map (tblAt es warm (es.length / 2 ^ o)) } := by
  induction cnt generalizing j self with
  | zero => simp [loopM_nil]
  | succ cnt ih =>
    rw [List.range'_succ, loopM_cons]
    have hpos : 0 < 2 ^ o := Nat.two_pow_pos o
    have h2o : 2 ^ o ≤ es.length := Nat.le_trans (Nat.le_mul_of_pos_left _ (by omega : 0 < max 64 warm)) ho
    have hps : 2 ^ o * (es.length / 2 ^ o) ≤ es.length := Nat.mul_div_le _ _
    have hM : max 64 warm ≤ es.length / 2 ^ o := (Nat.le_div_iff_mul_le hpos).mpr ho
    have hj1 : (j + 1) * (es.length / 2 ^ o) ≤ 2 ^ o * (es.length / 2 ^ o) := Nat.mul_le_mul_right _ (by omega)
    have hj0 : j * (es.length / 2 ^ o) ≤ (j + 1) * (es.length / 2 ^ o) := Nat.mul_le_mul_right _ (by omega)
    have hj2 : es.length / 2 ^ o ≤ (j + 1) * (es.length / 2 ^ o) := Nat.le_mul_of_pos_left _ (by omega)
    generalize hpsz : es.length / 2 ^ o = psz at *
    have e1 : mulU dbg 64 j psz = some (j * psz) := by
      unfold mulU; have : j * psz < 2 ^ 64 := by omega
      simp [this]
    have e2 : addU dbg 64 j 1 = some (j + 1) := by
      unfold addU; have : j + 1 < 2 ^ 64 := by omega
      simp [this]
    have e3 : mulU dbg 64 (j + 1) psz = some ((j + 1) * psz) := by
      unfold mulU; have : (j + 1) * psz < 2 ^ 64 := by omega
      simp [this]
    have e4 : sliceR es (max (j * psz) warm) ((j + 1) * psz)
        = some ((es.take ((j + 1) * psz)).drop (max (j * psz) warm)) := by
      unfold sliceR
      have : max (j * psz) warm ≤ (j + 1) * psz ∧ (j + 1) * psz ≤ es.length := by omega
      simp [this]
    have e5 : PrcBitTable.from_errors dbg ((es.take ((j + 1) * psz)).drop (max (j * psz) warm)) 4
        = some (tblAt es warm psz j) := by
      rw [C13G_from_errors dbg _ 4 (fun _ => by omega) (fun _ => by
        rw [List.length_drop, List.length_take]; omega)]
      rfl
    have hstep : tblBody dbg warm psz j self = some { self with tables := self.tables ++ [tblAt es warm psz j] } := by
      unfold tblBody
      simp only [e1, e2, e3, hself, e4, e5, Option.bind_some]
    rw [hstep]
    simp only [Option.bind_some]
    rw [ih (j + 1) (by omega) { self with tables := self.tables ++ [tblAt es warm psz j] } hself]
    simp

abbrev WSt := Nat × PrcParameterFinder × Nat × Nat × Nat

def whCond : WSt → Bool := fun (nparts, self, partition_order, min_bits, min_order) => (decide (nparts > 1))

/-- body of the merge loop of `find` (generated text) -/
def whBody (dbg : Bool) (max_p : Nat) : WSt → Option WSt :=
  fun (nparts, self, partition_order, min_bits, min_order) =>
      (sliceR self.tables 0 nparts).bind fun v14' =>
      (merge_partitions dbg v14').bind fun (v16', v15') =>
      let self : PrcParameterFinder := { self with tables := (sliceSet self.tables 0 nparts v15') }
      let nparts : Nat := v16'
      (subU dbg 64 partition_order 1).bind fun v17' =>
      let partition_order : Nat := v17'
      let self : PrcParameterFinder := { self with ps := vecResize self.ps nparts 0 }
      (sliceR self.tables 0 nparts).bind fun v18' =>
      (eval_partitions dbg v18' self.ps max_p).bind fun (v20', v19') =>
      let self : PrcParameterFinder := { self with ps := v19' }
      let next_bits : Nat := v20'
      (if (decide (next_bits < min_bits)) then
          let min_bits : Nat := next_bits
          let self : PrcParameterFinder := { self with min_ps := [] }
          let self : PrcParameterFinder := { self with min_ps := self.min_ps ++ self.ps }
          let min_order : Nat := partition_order
          some (min_bits, self, min_order)
        else
          some (min_bits, self, min_order)).bind fun (min_bits, self, min_order) =>
      some (nparts, self, partition_order, min_bits, min_order)

theorem minimizer_fst_lt (t : Table) (maxP : Nat) : (Table.minimizer t maxP).1 < 16 := by
  unfold Table.minimizer; exact Nat.mod_lt _ (by decide)

theorem evalPartitions_props (ml : List Table) (maxP : Nat) :
    (evalPartitions ml maxP).2.length = ml.length ∧ ∀ p ∈ (evalPartitions ml maxP).2, p < 256 := by
  rw [RiceSearch.evalPartitions_eq]
  refine ⟨by simp, ?_⟩
  intro p hp
  simp only [List.mem_map] at hp
  obtain ⟨t, _, rfl⟩ := hp
  have := minimizer_fst_lt t maxP
  omega

theorem getD_map_default {α β : Type} (f : α → β) (l : List α) (i : Nat) (d : α) (e : β) (hi : i < l.length) :
    (l.map f).getD i e = f (l.getD i d) := by
  simp [List.getD_eq_getElem?_getD, List.getElem?_eq_getElem hi]

/-- one merge step on the live tables -/
theorem merge_live (live : List PrcBitTable) (m : Nat) (hlen : live.length = 2 * m)
    (h16 : ∀ t ∈ live, t.p_to_bits.length = 16) :
    ((List.range m).map (mk live)).map (·.p_to_bits) = mergePartitions (live.map (·.p_to_bits)) ∧
    ∀ t ∈ (List.range m).map (mk live), t.p_to_bits.length = 16 := by
  have hm : (live.map (·.p_to_bits)).length / 2 = m := by simp [hlen]
  have hel : ∀ k, k < m → (mk live k).p_to_bits
      = Table.merge ((live.map (·.p_to_bits)).getD (2 * k) []) ((live.map (·.p_to_bits)).getD (2 * k + 1) []) 4 := by
    intro k hk
    unfold mk
    have ha : live.getD (2 * k) default ∈ live := by
      rw [List.getD_eq_getElem?_getD, List.getElem?_eq_getElem (by omega)]; simp
    have hb : live.getD (2 * k + 1) default ∈ live := by
      rw [List.getD_eq_getElem?_getD, List.getElem?_eq_getElem (by omega)]; simp
    rw [C13G_merge _ _ 4 (h16 _ ha) (h16 _ hb),
      getD_map_default _ live (2 * k) default [] (by omega), getD_map_default _ live (2 * k + 1) default [] (by omega)]
  constructor
  · unfold mergePartitions
    rw [hm, List.map_map]
    apply List.map_congr_left
    intro k hk
    exact hel k (List.mem_range.mp hk)
  · intro t ht
    simp only [List.mem_map, List.mem_range] at ht
    obtain ⟨k, hk, rfl⟩ := ht
    rw [hel k hk]
    simp [Table.merge]

structure Inv (self : PrcParameterFinder) (ml : List Table) (order : Nat) (best : FlacVerif.PrcParameter) : Prop where
  ord : order ≤ 14
  len : ml.length = 2 ^ order
  le : 2 ^ order ≤ self.tables.length
  tl : (self.tables.take (2 ^ order)).map (·.p_to_bits) = ml
  l16 : ∀ t ∈ self.tables.take (2 ^ order), t.p_to_bits.length = 16
  mp : self.min_ps = best.ps
  bl : best.ps.length = 2 ^ best.order
  bp : ∀ p ∈ best.ps, p < 256
  bo : best.order ≤ 14

def nextBest (maxP : Nat) (ml : List Table) (order : Nat) (best : FlacVerif.PrcParameter) : FlacVerif.PrcParameter :=
  if (evalPartitions (mergePartitions ml) maxP).1 < best.codeBits then
    ⟨order, (evalPartitions (mergePartitions ml) maxP).2, (evalPartitions (mergePartitions ml) maxP).1⟩ else best

theorem whBody_step (dbg : Bool) (maxP : Nat) (hm : maxP ≤ 14) (order : Nat) (self : PrcParameterFinder) (ml : List Table)
    (best : FlacVerif.PrcParameter) (inv : Inv self ml (order + 1) best) :
    ∃ self2, whBody dbg maxP (2 ^ (order + 1), self, order + 1, best.codeBits, best.order)
        = some (2 ^ order, self2, order, (nextBest maxP ml order best).codeBits, (nextBest maxP ml order best).order) ∧
      Inv self2 (mergePartitions ml) order (nextBest maxP ml order best) := by
  obtain ⟨hord, hlen, hle, htl, h16, hmp, hbl, hbp, hbo⟩ := inv
  have hnp : 2 ^ (order + 1) = 2 * 2 ^ order := by rw [Nat.pow_succ, Nat.mul_comm]
  have hpow : 2 ^ order ≤ 2 ^ 13 := Nat.pow_le_pow_right (by decide) (by omega)
  generalize hlive : self.tables.take (2 ^ (order + 1)) = live at htl h16
  have hll : live.length = 2 * 2 ^ order := by rw [← hlive, List.length_take]; omega
  have e1 : sliceR self.tables 0 (2 ^ (order + 1)) = some live := by
    unfold sliceR; simp [hle, hlive]
  have e2 : merge_partitions dbg live
      = some (2 ^ order, (List.range (2 ^ order)).map (mk live) ++ live.drop (2 ^ order)) := by
    rw [C13G_merge_partitions]
    have h1 : live.length < 32768 := by omega
    have h2 : live.length / 2 = 2 ^ order := by omega
    simp [h1, h2]
  have e3 : subU dbg 64 (order + 1) 1 = some order := by unfold subU; simp
  obtain ⟨hml, hl16⟩ := merge_live live (2 ^ order) hll h16
  rw [htl] at hml
  have hnewlen : ((List.range (2 ^ order)).map (mk live)).length = 2 ^ order := by simp
  have e4 : sliceR (sliceSet self.tables 0 (2 ^ (order + 1)) ((List.range (2 ^ order)).map (mk live) ++ live.drop (2 ^ order)))
      0 (2 ^ order) = some ((List.range (2 ^ order)).map (mk live)) := by
    unfold sliceR sliceSet
    have : 2 ^ order ≤ (List.take 0 self.tables ++ ((List.range (2 ^ order)).map (mk live) ++ live.drop (2 ^ order)) ++
        List.drop (2 ^ (order + 1)) self.tables).length := by simp
    have hlen2 : 2 ^ order ≤ (List.map (mk live) (List.range (2 ^ order)) ++
                (List.drop (2 ^ order) live ++ List.drop (2 ^ (order + 1)) self.tables)).length := by simp
    simp only [Nat.zero_le, this, hlen2, and_self, true_and, ↓reduceIte, List.take_zero, List.nil_append, List.drop_zero, List.append_assoc]
    congr 1
    have := List.take_left' (l₁ := (List.range (2 ^ order)).map (mk live))
      (l₂ := live.drop (2 ^ order) ++ List.drop (2 ^ (order + 1)) self.tables) hnewlen
    exact this
  have hE := evalPartitions_props (mergePartitions ml) maxP
  have hmlen : (mergePartitions ml).length = 2 ^ order := by
    unfold mergePartitions; simp [hlen, hnp]
  have e5 : eval_partitions dbg ((List.range (2 ^ order)).map (mk live)) (vecResize self.ps (2 ^ order) 0) maxP
      = some ((evalPartitions (mergePartitions ml) maxP).1, (evalPartitions (mergePartitions ml) maxP).2) := by
    rw [C13G_eval_partitions dbg _ _ maxP hm hl16 (by rw [hnewlen]; omega)]
    have hps : (vecResize self.ps (2 ^ order) 0).length = 2 ^ order := by
      unfold vecResize; simp [List.length_take]; omega
    rw [hnewlen, hps, hml]
    have : List.drop (2 ^ order) (vecResize self.ps (2 ^ order) 0) = [] := by
      apply List.drop_eq_nil_of_le; omega
    simp [this]
  unfold whBody
  simp only [e1, e2, e3, e4, e5, Option.bind_some]
  unfold nextBest
  by_cases hlt : (evalPartitions (mergePartitions ml) maxP).1 < best.codeBits
  · simp only [hlt, decide_true, ↓reduceIte, Option.bind_some, List.nil_append]
    refine ⟨_, rfl, ?_⟩
    refine ⟨by omega, hmlen, ?_, ?_, ?_, rfl, ?_, hE.2, (by show order ≤ 14; omega)⟩
    · simp [sliceSet]
    · simp only [sliceSet, List.take_zero, List.nil_append, List.append_assoc]
      rw [List.take_left' hnewlen]; exact hml
    · simp only [sliceSet, List.take_zero, List.nil_append, List.append_assoc]
      rw [List.take_left' hnewlen]; exact hl16
    · rw [hE.1, hmlen]
  · simp only [hlt, decide_false, Bool.false_eq_true, ↓reduceIte, Option.bind_some]
    refine ⟨_, rfl, ?_⟩
    refine ⟨by omega, hmlen, ?_, ?_, ?_, hmp, hbl, hbp, hbo⟩
    · simp [sliceSet]
    · simp only [sliceSet, List.take_zero, List.nil_append, List.append_assoc]
      rw [List.take_left' hnewlen]; exact hml
    · simp only [sliceSet, List.take_zero, List.nil_append, List.append_assoc]
      rw [List.take_left' hnewlen]; exact hl16

theorem while_loop (dbg : Bool) (maxP : Nat) (hm : maxP ≤ 14) (order : Nat) :
    ∀ (fuelG fuelM : Nat) (self : PrcParameterFinder) (ml : List Table) (best : FlacVerif.PrcParameter),
      order < fuelG → order < fuelM → Inv self ml order best →
      ∃ st' : WSt, whileM fuelG whCond (whBody dbg maxP) (2 ^ order, self, order, best.codeBits, best.order) = some st' ∧
        st'.2.1.min_ps = (searchFolded.loop maxP ml order best fuelM).ps ∧
        st'.2.2.2.1 = (searchFolded.loop maxP ml order best fuelM).codeBits ∧
        st'.2.2.2.2 = (searchFolded.loop maxP ml order best fuelM).order ∧
        (searchFolded.loop maxP ml order best fuelM).ps.length = 2 ^ (searchFolded.loop maxP ml order best fuelM).order ∧
        (∀ p ∈ (searchFolded.loop maxP ml order best fuelM).ps, p < 256) ∧
        (searchFolded.loop maxP ml order best fuelM).order ≤ 14 := by
  induction order with
  | zero =>
    intro fuelG fuelM self ml best hG hM inv
    cases fuelG with
    | zero => omega
    | succ fG =>
      cases fuelM with
      | zero => omega
      | succ fM =>
        have hc : whCond (2 ^ 0, self, 0, best.codeBits, best.order) = false := by simp [whCond]
        obtain ⟨_, hlen, _, _, _, hmp, hbl, hbp, hbo⟩ := inv
        have hl : ml.length ≤ 1 := by rw [hlen]; simp
        refine ⟨_, by rw [whileM, hc]; rfl, ?_⟩
        unfold searchFolded.loop
        simp only [hl, ↓reduceIte]
        refine ⟨hmp, ?_, ?_, hbl, hbp, hbo⟩ <;> first | rfl | trivial
  | succ order ih =>
    intro fuelG fuelM self ml best hG hM inv
    cases fuelG with
    | zero => omega
    | succ fG =>
      cases fuelM with
      | zero => omega
      | succ fM =>
        have h2 : 2 ^ (order + 1) > 1 := by
          have : 0 < 2 ^ order := Nat.two_pow_pos order
          rw [Nat.pow_succ]; omega
        have hc : whCond (2 ^ (order + 1), self, order + 1, best.codeBits, best.order) = true := by
          simp [whCond, h2]
        obtain ⟨self2, hstep, inv2⟩ := whBody_step dbg maxP hm order self ml best inv
        obtain ⟨st', hw, hrest⟩ := ih fG fM self2 (mergePartitions ml) (nextBest maxP ml order best) (by omega) (by omega) inv2
        refine ⟨st', ?_, ?_⟩
        · rw [whileM, hc]
          simp only [↓reduceIte, hstep, Option.bind_some]
          exact hw
        · have hl : ¬ ml.length ≤ 1 := by
            obtain ⟨_, hlen, _⟩ := inv
            rw [hlen]; omega
          have hunf : searchFolded.loop maxP ml (order + 1) best (fM + 1)
              = searchFolded.loop maxP (mergePartitions ml) order (nextBest maxP ml order best) fM := by
            rw [searchFolded.loop]
            simp only [hl, ↓reduceIte, Nat.add_sub_cancel]
            rfl
          rw [hunf]
          exact hrest

/-- the generated `find` cut into stages (each `rfl`-equal to the generated text), so that every proof step works on a small term -/
def findD (dbg : Bool) : WSt → Option (FlacVerif.Gen.Rice.PrcParameter × PrcParameterFinder) :=
  fun (nparts, self, partition_order, min_bits, min_order) =>
  (shAmt dbg 64 min_order).bind fun v21' =>
  let self : PrcParameterFinder := { self with min_ps := self.min_ps.take (shlU 64 1 v21') }
  some ((PrcParameter.new min_order (self.min_ps.map (fun x => (x % 256))) min_bits), self)

def findC (dbg : Bool) (max_p partition_order nparts : Nat) (self : PrcParameterFinder) : Option (FlacVerif.Gen.Rice.PrcParameter × PrcParameterFinder) :=
  (eval_partitions dbg self.tables self.min_ps max_p).bind fun (v13', v12') =>
  let self : PrcParameterFinder := { self with min_ps := v12' }
  let min_bits : Nat := v13'
  let min_order : Nat := partition_order
  (whileM whileFuel whCond (whBody dbg max_p) (nparts, self, partition_order, min_bits, min_order)).bind (findD dbg)

def findB (dbg : Bool) (signal : List Int) (warmup_length max_p partition_order nparts : Nat) (self : PrcParameterFinder) (v5' : List Nat) :
    Option (FlacVerif.Gen.Rice.PrcParameter × PrcParameterFinder) :=
  let self : PrcParameterFinder := { self with errors := v5' }
  (divU signal.length nparts).bind fun v6' =>
  let part_size : Nat := v6'
  (loopM (rangeL 0 nparts) self (tblBody dbg warmup_length part_size)).bind fun self =>
  findC dbg max_p partition_order nparts self

def findA (dbg : Bool) (self : PrcParameterFinder) (signal : List Int) (warmup_length max_p partition_order : Nat) :
    Option (FlacVerif.Gen.Rice.PrcParameter × PrcParameterFinder) :=
  (shAmtS dbg 64 (wrapS 32 (partition_order : Int))).bind fun v2' =>
  let nparts : Nat := (shlU 64 1 v2')
  let self : PrcParameterFinder := { self with tables := [] }
  let self : PrcParameterFinder := { self with min_ps := vecResize self.min_ps nparts 0 }
  let self : PrcParameterFinder := { self with errors := [] }
  let self : PrcParameterFinder := { self with errors := vecResize self.errors signal.length 0 }
  (unaligned_map_and_update dbg 64 signal self.errors ((fun p x =>
       (FlacVerif.Gen.Decode.encode_signbit dbg x).bind fun v3' =>
       let p : Nat := v3'
       some p)) ((fun pv v =>
       (encode_signbit_simd dbg 64 v).bind fun v4' =>
       let pv : List Nat := v4'
       some pv))).bind (findB dbg signal warmup_length max_p partition_order nparts self)

theorem find_eq (dbg : Bool) (self : PrcParameterFinder) (signal : List Int) (warmup_length max_p : Nat) :
    PrcParameterFinder.find dbg self signal warmup_length max_p =
  (finest_partition_order dbg signal.length (max FlacVerif.Gen.Const.rice_MIN_PARTITION_SIZE warmup_length)).bind
    (findA dbg self signal warmup_length max_p) := rfl

def toModel (r : FlacVerif.Gen.Rice.PrcParameter) : FlacVerif.PrcParameter := ⟨r.order, r.ps, r.code_bits⟩

theorem mapM_length {α β : Type} (f : α → Option β) (l : List α) (ys : List β) (h : l.mapM f = some ys) : ys.length = l.length := by
  induction l generalizing ys with
  | nil => simp at h; subst h; rfl
  | cons x xs ih =>
    rw [List.mapM_cons] at h
    cases hx : f x with
    | none => simp [hx] at h
    | some y =>
      cases hxs : xs.mapM f with
      | none => simp [hx, hxs] at h
      | some zs =>
        simp [hx, hxs] at h
        subst h
        simp [ih zs hxs]

theorem fromErrors_length (es : List Nat) (off : Nat) : (Table.fromErrors es off).length = 16 := by
  simp [Table.fromErrors]

theorem findC_spec (dbg : Bool) (maxP : Nat) (hm : maxP ≤ 14) (o : Nat) (ho14 : o ≤ 14) (self : PrcParameterFinder)
    (htl : self.tables.length = 2 ^ o) (h16 : ∀ t ∈ self.tables, t.p_to_bits.length = 16)
    (hmp : self.min_ps.length = 2 ^ o) :
    (findC dbg maxP o (2 ^ o) self).map (fun r => toModel r.1) =
      some (searchFolded.loop maxP (self.tables.map (·.p_to_bits)) o
        ⟨o, (evalPartitions (self.tables.map (·.p_to_bits)) maxP).2, (evalPartitions (self.tables.map (·.p_to_bits)) maxP).1⟩ 16) := by
  unfold findC
  have hFl : 15 < whileFuel := by unfold whileFuel; omega
  generalize whileFuel = F at hFl ⊢
  have hpw : 2 ^ o ≤ 2 ^ 14 := Nat.pow_le_pow_right (by decide) ho14
  rw [C13G_eval_partitions dbg self.tables _ maxP hm h16 (by omega)]
  have hle : self.tables.length ≤ self.min_ps.length := by omega
  have hdrop : List.drop self.tables.length self.min_ps = [] := by
    apply List.drop_eq_nil_of_le; omega
  simp only [hle, ↓reduceIte, Option.bind_some, hdrop, List.append_nil]
  generalize hE : evalPartitions (self.tables.map (·.p_to_bits)) maxP = E
  have hEp := evalPartitions_props (self.tables.map (·.p_to_bits)) maxP
  rw [hE] at hEp
  obtain ⟨E1, E2⟩ := E
  simp only [List.length_map] at hEp ⊢
  have inv : Inv { self with min_ps := E2 } (self.tables.map (·.p_to_bits)) o ⟨o, E2, E1⟩ := by
    refine ⟨ho14, by simp [htl], by simp [htl], ?_, ?_, rfl, by rw [hEp.1, htl], hEp.2, ho14⟩
    · rw [← htl]; simp
    · rw [← htl]; simpa using h16
  obtain ⟨st', hw, h1, h2, h3, h4, h5, h6⟩ := while_loop dbg maxP hm o F 16 _ _ _ (by omega) (by omega) inv
  obtain ⟨np', self', ord', mb', mo'⟩ := st'
  simp only at h1 h2 h3 hw
  simp only [hw, Option.bind_some]
  generalize searchFolded.loop maxP (self.tables.map (·.p_to_bits)) o ⟨o, E2, E1⟩ 16 = r at *
  unfold findD
  have hsa : shAmt dbg 64 mo' = some mo' := by
    unfold shAmt; have : mo' < 64 := by omega
    simp [this]
  have hshl2 : shlU 64 1 mo' = 2 ^ mo' := by
    unfold shlU
    have : 2 ^ mo' < 2 ^ 64 := Nat.pow_lt_pow_right (by decide) (by omega)
    rw [Nat.one_mul, Nat.mod_eq_of_lt this]
  have htake : List.take (2 ^ mo') self'.min_ps = self'.min_ps := by
    apply List.take_of_length_le; rw [h1, h4, h3]; exact Nat.le_refl _
  have hmod : self'.min_ps.map (fun x => x % 256) = self'.min_ps := by
    rw [h1]
    conv => rhs; rw [← List.map_id r.ps]
    apply List.map_congr_left
    intro p hp
    exact Nat.mod_eq_of_lt (h5 p hp)
  simp only [hsa, Option.bind_some, hshl2, Option.map_some, toModel, PrcParameter.new]
  rw [htake, hmod, h1, h2, h3]

theorem findB_spec (dbg : Bool) (signal : List Int) (warm maxP : Nat) (hm : maxP ≤ 14) (o : Nat) (ho14 : o ≤ 14)
    (self : PrcParameterFinder) (es : List Nat) (hl : es.length = signal.length) (hn : signal.length < 2 ^ 21)
    (hoM : max 64 warm * 2 ^ o ≤ signal.length) (hfo : finestOrder signal.length (max 64 warm) = some o)
    (ht : self.tables = []) (hmp : self.min_ps.length = 2 ^ o) :
    (findB dbg signal warm maxP o (2 ^ o) self es).map (fun r => toModel r.1) = searchFolded es warm maxP := by
  unfold findB
  have hpos : 0 < 2 ^ o := Nat.two_pow_pos o
  have hdiv : divU signal.length (2 ^ o) = some (es.length / 2 ^ o) := by
    unfold divU; rw [hl]
    have : 2 ^ o ≠ 0 := by omega
    simp [this]
  simp only [Option.bind_some, hdiv]
  have hrl : rangeL 0 (2 ^ o) = List.range' 0 (2 ^ o) := rfl
  rw [hrl, tables_loop dbg es warm o (by omega) (by omega) (2 ^ o) 0 (by omega) _ rfl]
  simp only [Option.bind_some, ht, List.nil_append]
  generalize htb : (List.range' 0 (2 ^ o)).map (tblAt es warm (es.length / 2 ^ o)) = tbs
  have htl : tbs.length = 2 ^ o := by rw [← htb]; simp
  have h16 : ∀ t ∈ tbs, t.p_to_bits.length = 16 := by
    intro t ht
    rw [← htb] at ht
    simp only [List.mem_map] at ht
    obtain ⟨k, _, rfl⟩ := ht
    exact fromErrors_length _ _
  have hml : tbs.map (·.p_to_bits) = (List.range (2 ^ o)).map fun k =>
      Table.fromErrors ((es.take ((k + 1) * (es.length / 2 ^ o))).drop (max (k * (es.length / 2 ^ o)) warm)) 4 := by
    rw [← htb, List.map_map, List.range_eq_range']
    rfl
  rw [findC_spec dbg maxP hm o ho14 { errors := es, tables := tbs, ps := self.ps, min_ps := self.min_ps } htl h16 hmp]
  unfold searchFolded
  rw [← hl] at hfo
  simp only [hfo, Option.bind_eq_bind, Option.bind_some]
  rw [← hml]

theorem C13G_find (dbg : Bool) (prev : PrcParameterFinder) (signal : List Int) (warm maxP : Nat)
    (hn : signal.length < 2 ^ 21) (hm : maxP ≤ 14)
    (hrel : dbg = true ∨ (max 64 warm ≤ signal.length ∧ ∀ v ∈ signal, encodeSignbit v ≠ none)) :
    (PrcParameterFinder.find dbg prev signal warm maxP).map (fun r => toModel r.1) = search signal warm maxP := by
  rw [find_eq]
  have hMin : FlacVerif.Gen.Const.rice_MIN_PARTITION_SIZE = 64 := rfl
  rw [hMin]
  have hM0 : 0 < max 64 warm := by omega
  have hfin : finest_partition_order dbg signal.length (max 64 warm) = finestOrder signal.length (max 64 warm) := by
    apply C13G_finest
    cases hrel with
    | inl h => exact Or.inl h
    | inr h =>
      right
      have h1 : 1 ≤ signal.length / max 64 warm := (Nat.le_div_iff_mul_le hM0).mpr (by omega)
      have h2 : signal.length / max 64 warm < u32 := Nat.lt_of_le_of_lt (Nat.div_le_self _ _) (by unfold u32; omega)
      rw [Nat.mod_eq_of_lt h2]; omega
  rw [hfin]
  unfold search
  cases hfo : finestOrder signal.length (max 64 warm) with
  | none =>
    simp only [Option.bind_none, Option.map_none]
    cases hes : signal.mapM encodeSignbit with
    | none => rfl
    | some es =>
      have hl := mapM_length _ _ _ hes
      simp only [Option.bind_eq_bind, Option.bind_some]
      unfold searchFolded
      simp only [hl, hfo]
      rfl
  | some o =>
    obtain ⟨ho15, hoM⟩ := finestOrder_some _ _ _ (by omega) hfo
    have hpow : 2 ^ o < 2 ^ 15 := by
      have h64 : 64 * 2 ^ o ≤ max 64 warm * 2 ^ o := Nat.mul_le_mul_right _ (by omega)
      omega
    have ho14 : o ≤ 14 := by
      have := (Nat.pow_lt_pow_iff_right (by decide : 1 < 2)).mp hpow
      omega
    have hsh : shAmtS dbg 64 (wrapS 32 (o : Int)) = some o := by
      have hw : wrapS 32 (o : Int) = (o : Int) := by
        unfold wrapS
        have h32 : (2 : Int) ^ 32 = 4294967296 := by decide
        have h31 : (2 : Int) ^ (32 - 1) = 2147483648 := by decide
        rw [h32, h31]
        have : ((o : Int) % 4294967296) = (o : Int) := by omega
        rw [this]
        have : (o : Int) < 2147483648 := by omega
        simp [this]
      rw [hw]
      unfold shAmtS
      have : (0 : Int) ≤ (o : Int) ∧ (o : Int) < ((64 : Nat) : Int) := by omega
      rw [if_pos this]
      simp
    have hshl : shlU 64 1 o = 2 ^ o := by
      unfold shlU
      rw [Nat.one_mul, Nat.mod_eq_of_lt (by omega)]
    rw [Option.bind_some]
    unfold findA
    rw [hsh, Option.bind_some]
    simp only [hshl]
    rw [C13G_unaligned _ _ _ _ _ _ (by omega),
      encode_all dbg signal _ (by simp [vecResize]) (hrel.imp id (fun h => h.2))]
    cases hes : signal.mapM encodeSignbit with
    | none => rfl
    | some es =>
      have hl : es.length = signal.length := mapM_length _ _ _ hes
      rw [Option.bind_some, findB_spec dbg signal warm maxP hm o ho14 _ es hl hn hoM hfo rfl (by
        show (vecResize prev.min_ps (2 ^ o) 0).length = 2 ^ o
        unfold vecResize; simp [List.length_take]; omega)]
      rfl

/-- TOP: the generated `find_partitioned_rice_parameter` returns what the model's `search` returns, for EVERY content the
previous call left in the thread-local finder (`prev`), in both profiles. -/
theorem C13G_find_partitioned_rice_parameter (dbg : Bool) (prev : PrcParameterFinder) (signal : List Int) (warm maxP : Nat)
    (hn : signal.length < 2 ^ 21) (hm : maxP ≤ 14)
    (hrel : dbg = true ∨ (max 64 warm ≤ signal.length ∧ ∀ v ∈ signal, encodeSignbit v ≠ none)) :
    (find_partitioned_rice_parameter dbg prev signal warm maxP).map (fun r => toModel r.1) = search signal warm maxP := by
  unfold find_partitioned_rice_parameter
  rw [← C13G_find dbg prev signal warm maxP hn hm hrel]
  simp only
  cases PrcParameterFinder.find dbg prev signal warm maxP with
  | none => rfl
  | some r => obtain ⟨a, b⟩ := r; rfl

/-- history independence (C10) of the generated function: two calls with different stale scratch contents agree -/
theorem C13G_scratch_independent (dbg : Bool) (prev prev' : PrcParameterFinder) (signal : List Int) (warm maxP : Nat)
    (hn : signal.length < 2 ^ 21) (hm : maxP ≤ 14)
    (hrel : dbg = true ∨ (max 64 warm ≤ signal.length ∧ ∀ v ∈ signal, encodeSignbit v ≠ none)) :
    (find_partitioned_rice_parameter dbg prev signal warm maxP).map (fun r => toModel r.1)
      = (find_partitioned_rice_parameter dbg prev' signal warm maxP).map (fun r => toModel r.1) := by
  rw [C13G_find_partitioned_rice_parameter dbg prev signal warm maxP hn hm hrel,
    C13G_find_partitioned_rice_parameter dbg prev' signal warm maxP hn hm hrel]

/-- the hypotheses are satisfiable on a non-trivial value (128 samples of both signs, warm-up 2, either profile) -/
example : ∃ signal : List Int, signal.length = 128 ∧ signal.length < 2 ^ 21 ∧
    (max 64 2 ≤ signal.length ∧ ∀ v ∈ signal, encodeSignbit v ≠ none) := by
  refine ⟨List.replicate 64 (-3) ++ List.replicate 64 5, by simp, by simp, by simp, ?_⟩
  intro v hv
  simp only [List.mem_append, List.mem_replicate] at hv
  rcases hv with ⟨_, rfl⟩ | ⟨_, rfl⟩ <;> decide

/-! ### disagreements between the hand model and the source (each excluded above by a hypothesis) -/

/-- (D1) `merge_partitions` asserts `tables.len() < MAX_PARTITIONS = 32768`; at partition order 15 `find` passes all 32768
tables, so the Rust code panics (both profiles) where `mergePartitions` / `search` of the model go on.  Order 15 needs
`64 * 2^15 = 2^21` samples: excluded by `signal.length < 2^21` (the encoder's blocks have at most 65535 samples). -/
theorem C13G_merge_partitions_assert (dbg : Bool) (tables : List PrcBitTable) (h : tables.length = 32768) :
    merge_partitions dbg tables = none ∧ (mergePartitions (tables.map (·.p_to_bits))).length = 16384 := by
  rw [C13G_merge_partitions]
  simp [h, mergePartitions]
example : finestOrder (2 ^ 21) 64 = some 15 := by decide

/-- (D2) dev profile: `splat(len as u32) * INDEX1` overflows `u32` in lane 15 once a partition has `2^28` errors; the model
wraps (release semantics).  Excluded by the length bound. -/
theorem C13G_from_errors_dev_overflow :
    lanesM2 (mulU true 32) (splat 16 (2 ^ 28)) INDEX1 = none ∧
    (lanesM2 (mulU false 32) (splat 16 (2 ^ 28)) INDEX1).isSome = true := by
  constructor <;> decide

/-- (D3) release profile, `i32::MIN`: the Rust code wraps to `u32::MAX` where the model (dev semantics) reports the panic -/
theorem C13G_encode_signbit_release_min :
    FlacVerif.Gen.Decode.encode_signbit false (-2147483648) = some 4294967295 ∧ encodeSignbit (-2147483648) = none := by
  constructor <;> decide

/-! ### `encode_signbit_simd` (never executed in the fakesimd build: `slice_as_simd_mut` returns an empty body) -/

theorem allSome_none {α : Type} (l : List (Option α)) (h : none ∈ l) : allSome l = none := by
  induction l with
  | nil => simp at h
  | cons x xs ih =>
    cases x with
    | none => rfl
    | some y =>
      have : none ∈ xs := by simpa using h
      simp [allSome, ih this]

/-- with fakesimd, `cast` is `NumCast` (checked): one negative lane makes `encode_signbit_simd` panic in BOTH profiles
(`v.cast() >> 31`), whereas the scalar `encode_signbit` is defined there.  `std::simd`'s `cast` is `as`. -/
theorem C13G_encode_signbit_simd_negative (dbg : Bool) (N : Nat) (v : List Int) (h : ∃ x ∈ v, x < 0) :
    encode_signbit_simd dbg N v = none := by
  unfold encode_signbit_simd
  have h4 : lanesM1 (castNum 32) v = none := by
    unfold lanesM1
    apply allSome_none
    obtain ⟨x, hx, hneg⟩ := h
    simp only [List.mem_map]
    refine ⟨x, hx, ?_⟩
    unfold castNum
    have : ¬ (0 ≤ x ∧ x < (2 ^ 32 : Int)) := by omega
    rw [if_neg this]
  cases lanesM1 (absS dbg 32) v with
  | none => rfl
  | some a =>
    simp only [Option.bind_some]
    cases lanesM1 (castNum 32) a with
    | none => rfl
    | some b =>
      simp only [Option.bind_some]
      cases lanesM2 (shlL dbg 32) b (splat N 1) with
      | none => rfl
      | some c => simp [h4]

/-- on non-negative lanes the vector function is the scalar `encode_signbit` applied lane by lane (both profiles) -/
theorem C13G_encode_signbit_simd_nonneg (dbg : Bool) (v : List Int) (h : ∀ x ∈ v, 0 ≤ x ∧ x < 2147483648) :
    encode_signbit_simd dbg v.length v = allSome (v.map (FlacVerif.Gen.Decode.encode_signbit dbg)) ∧
    encode_signbit_simd dbg v.length v = some (v.map fun x => 2 * x.toNat) := by
  have hsplat : ∀ c : Nat, splat v.length c = v.map (fun _ => c) := by
    intro c; unfold splat; rw [List.map_const']
  have h1 : lanesM1 (absS dbg 32) v = some (v.map fun x => x) := by
    unfold lanesM1
    apply allSome_map_of
    intro x hx
    obtain ⟨h0, h31⟩ := h x hx
    unfold absS arithS
    have e : ((x.natAbs : Nat) : Int) = x := by omega
    rw [e]
    have h31' : (2 : Int) ^ (32 - 1) = 2147483648 := by decide
    rw [h31']
    have : -2147483648 ≤ x ∧ x < 2147483648 := by omega
    rw [if_pos this]
  have h2 : lanesM1 (castNum 32) (v.map fun x => x) = some (v.map fun x => x.toNat) := by
    unfold lanesM1
    rw [List.map_map]
    apply allSome_map_of
    intro x hx
    obtain ⟨h0, h31⟩ := h x hx
    unfold castNum
    have h32 : (2 : Int) ^ 32 = 4294967296 := by decide
    simp only [Function.comp, h32]
    have : 0 ≤ x ∧ x < 4294967296 := by omega
    rw [if_pos this]
  have h3 : lanesM2 (shlL dbg 32) (v.map fun x => x.toNat) (v.map fun _ => 1) = some (v.map fun x => shlU 32 x.toNat 1) := by
    apply lanesM2_map
    intro p _
    simp [shlL, shAmt]
  have h5 : lanesM2 (shrL dbg 32) (v.map fun x => x.toNat) (v.map fun _ => 31) = some (v.map fun x => shrU x.toNat 31) := by
    apply lanesM2_map
    intro p _
    simp [shrL, shAmt]
  have hlane : ∀ x ∈ v, wsubU 32 (shlU 32 x.toNat 1) (shrU x.toNat 31) = 2 * x.toNat := by
    intro x hx
    obtain ⟨h0, h31⟩ := h x hx
    have hn : x.toNat < 2147483648 := by omega
    unfold wsubU shlU shrU
    have : x.toNat / 2 ^ 31 = 0 := Nat.div_eq_of_lt (by omega)
    rw [this]
    omega
  have hgen : encode_signbit_simd dbg v.length v = some (v.map fun x => 2 * x.toNat) := by
    unfold encode_signbit_simd
    have h2' := h2
    simp only [List.map_id'] at h1 h2'
    rw [h1]
    simp only [Option.bind_some, List.map_id', h2', hsplat, h3, h5, lanes2_map]
    congr 1
    exact List.map_congr_left hlane
  refine ⟨?_, hgen⟩
  rw [hgen]
  symm
  apply allSome_map_of
  intro x hx
  obtain ⟨h0, h31⟩ := h x hx
  unfold FlacVerif.Gen.Decode.encode_signbit subU shlU
  have hneg : ¬ x < 0 := by omega
  have e : x.natAbs = x.toNat := by omega
  simp only [hneg, decide_false, Bool.false_eq_true, ↓reduceIte, Nat.zero_le, Nat.sub_zero, Option.bind_some, e]
  congr 1
  omega


/-! ### D1, the exact boundary (corpus-style witnesses; the hypothesis `signal.length < 2^21` of `C13G_find` stays) -/

/-- below `2^21` samples the finest order is at most 14, so `merge_partitions` never sees more than 16384 tables -/
theorem C13G_D1_order_le_14 (n warm o : Nat) (hn : n < 2 ^ 21) (h : finestOrder n (max 64 warm) = some o) : o ≤ 14 := by
  obtain ⟨_, hoM⟩ := finestOrder_some _ _ _ (by omega) h
  have h64 : 64 * 2 ^ o ≤ max 64 warm * 2 ^ o := Nat.mul_le_mul_right _ (by omega)
  have hpow : 2 ^ o < 2 ^ 15 := by omega
  have := (Nat.pow_lt_pow_iff_right (by decide : 1 < 2)).mp hpow
  omega

/-- at exactly `2^21 = 64 * 2^15` samples (warm-up <= 64) the finest order is 15 ... -/
example : finestOrder 2097152 (max 64 0) = some 15 ∧ finestOrder 2097152 (max 64 64) = some 15 := by
  constructor <;> decide
/-- ... one partition step below (`2^21 - 2^15` samples: the largest shorter block divisible by 2^15) it is still 14 ... -/
example : finestOrder (2097152 - 32768) 64 = some 14 := by decide
/-- ... and `merge_partitions` accepts 32767 tables (and the 16384 of order 14) but panics on the 32768 of order 15, in both
profiles, although 32768 partitions (order 15) are legal FLAC and `finest_partition_order` allows them. -/
example (dbg : Bool) (t : PrcBitTable) :
    (merge_partitions dbg (List.replicate 16384 t)).isSome = true ∧
    (merge_partitions dbg (List.replicate 32767 t)).isSome = true ∧
    merge_partitions dbg (List.replicate 32768 t) = none := by
  refine ⟨?_, ?_, ?_⟩
  · rw [C13G_merge_partitions, List.length_replicate, if_pos (by decide)]; rfl
  · rw [C13G_merge_partitions, List.length_replicate, if_pos (by decide)]; rfl
  · rw [C13G_merge_partitions, List.length_replicate, if_neg (by decide)]

/-! ### `encode_residual_with_prc_parameter` (coding.rs): the callee of part `coding` read as `Residual.ofErrors` -/

/-- folded error at position `i` as the model reads it -/
def foldedAt (errors : List Int) (i : Nat) : Nat := (encodeSignbit (errors.getD i 0)).getD 0

theorem C13G_quotients_and_remainders (dbg : Bool) (err : Int) (p : Nat) (hp : p < 32) (he : encodeSignbit err ≠ none) :
    quotients_and_remainders dbg err p
      = some ((encodeSignbit err).getD 0 >>> p, (encodeSignbit err).getD 0 % 2 ^ p) := by
  unfold quotients_and_remainders
  have h1 : shAmt dbg 32 p = some p := by unfold shAmt; simp [hp]
  have hpow : 2 ^ p < 2 ^ 32 := Nat.pow_lt_pow_right (by decide) hp
  have hpos : 0 < 2 ^ p := Nat.two_pow_pos p
  have h2 : subU dbg 32 (shlU 32 1 p) 1 = some (2 ^ p - 1) := by
    unfold subU shlU
    rw [Nat.one_mul, Nat.mod_eq_of_lt hpow]
    have : 1 ≤ 2 ^ p := hpos
    simp [this]
  rw [h1, Option.bind_some, h2, Option.bind_some, encode_any dbg err (Or.inr he)]
  cases hes : encodeSignbit err with
  | none => exact absurd hes he
  | some e =>
    simp only [Option.bind_some, h1, Option.getD_some, shrU, Nat.shiftRight_eq_div_pow]
    rw [Nat.and_two_pow_sub_one_eq_mod]

theorem setAt_vec (n : Nat) (g : Nat → Nat) (t v : Nat) (ht : t < n) :
    setAt ((List.range n).map g) t v = some ((List.range n).map fun i => if i = t then v else g i) := by
  unfold setAt
  simp only [List.length_map, List.length_range, ht, ↓reduceIte, Option.some.injEq]
  apply List.ext_getElem
  · simp
  · intro i h1 h2
    simp only [List.getElem_set, List.getElem_map, List.getElem_range]
    by_cases h : t = i
    · subst h; simp
    · have : ¬ i = t := fun h' => h h'.symm
      simp [h, this]

/-- the loop of `encode_residual_partition` over `m` errors from position `t` -/
theorem partition_loop (dbg : Bool) (errors : List Int) (p : Nat) (hp : p < 32) (hn : errors.length < 2 ^ 64)
    (m : Nat) : ∀ (t : Nat) (gq gr : Nat → Nat), t + m ≤ errors.length →
      (∀ i, t ≤ i → i < t + m → encodeSignbit (errors.getD i 0) ≠ none) →
    (loopM ((errors.drop t).take m) ((List.range errors.length).map gq, (List.range errors.length).map gr, t)
      fun err (quotients, remainders, t) =>
      (quotients_and_remainders dbg err p).bind fun v2' =>
      let (v3', v4') := v2'
      (setAt quotients t v3').bind fun v5' =>
      let quotients : List Nat := v5'
      (setAt remainders t v4').bind fun v6' =>
      let remainders : List Nat := v6'
      (addU dbg 64 t 1).bind fun v7' =>
      let t : Nat := v7'
      some (quotients, remainders, t))
    = some ((List.range errors.length).map (fun i => if t ≤ i ∧ i < t + m then foldedAt errors i >>> p else gq i),
            (List.range errors.length).map (fun i => if t ≤ i ∧ i < t + m then foldedAt errors i % 2 ^ p else gr i), t + m) := by
  induction m with
  | zero =>
    intro t gq gr _ _
    simp only [List.take_zero, loopM_nil, Nat.add_zero]
    have e : ∀ (f g : Nat → Nat), (fun i => if t ≤ i ∧ i < t then f i else g i) = g := by
      intro f g; funext i
      have : ¬ (t ≤ i ∧ i < t) := by omega
      simp [this]
    rw [e, e]
  | succ m ih =>
    intro t gq gr hle henc
    have htn : t < errors.length := by omega
    have hd : errors.drop t = errors.getD t 0 :: errors.drop (t + 1) := by
      rw [List.getD_eq_getElem?_getD, List.getElem?_eq_getElem htn]
      simp
    rw [hd, List.take_succ_cons, loopM_cons]
    rw [C13G_quotients_and_remainders dbg _ p hp (henc t (Nat.le_refl _) (by omega))]
    have hadd : addU dbg 64 t 1 = some (t + 1) := by
      unfold addU
      have : t + 1 < 2 ^ 64 := by omega
      simp [this]
    simp only [Option.bind_some, setAt_vec _ _ _ _ htn, hadd]
    rw [ih (t + 1) _ _ (by omega) (fun i h1 h2 => henc i (by omega) (by omega))]
    have hf : (encodeSignbit (errors.getD t 0)).getD 0 = foldedAt errors t := rfl
    rw [hf]
    have e : ∀ (f : Nat → Nat) (g : Nat → Nat),
        (fun i => if t + 1 ≤ i ∧ i < t + 1 + m then f i else if i = t then f t else g i)
          = (fun i => if t ≤ i ∧ i < t + (m + 1) then f i else g i) := by
      intro f g; funext i
      by_cases h1 : i = t
      · subst h1
        have a1 : ¬ (i + 1 ≤ i ∧ i < i + 1 + m) := by omega
        have a2 : i ≤ i ∧ i < i + (m + 1) := by omega
        simp [a1, a2]
      · by_cases h2 : t + 1 ≤ i ∧ i < t + 1 + m
        · have a2 : t ≤ i ∧ i < t + (m + 1) := by omega
          simp [h2, a2]
        · have a2 : ¬ (t ≤ i ∧ i < t + (m + 1)) := by omega
          simp [h1, h2, a2]
    rw [e (fun i => foldedAt errors i >>> p) gq, e (fun i => foldedAt errors i % 2 ^ p) gr]
    have : t + 1 + m = t + (m + 1) := by omega
    rw [this]

theorem C13G_encode_residual_partition (dbg : Bool) (errors : List Int) (a b p : Nat) (gq gr : Nat → Nat)
    (hp : p < 32) (hn : errors.length < 2 ^ 64) (hab : a ≤ b) (hb : b ≤ errors.length)
    (henc : ∀ i, a ≤ i → i < b → encodeSignbit (errors.getD i 0) ≠ none) :
    encode_residual_partition dbg a b p errors ((List.range errors.length).map gq) ((List.range errors.length).map gr)
      = some ((List.range errors.length).map (fun i => if a ≤ i ∧ i < b then foldedAt errors i >>> p else gq i),
              (List.range errors.length).map (fun i => if a ≤ i ∧ i < b then foldedAt errors i % 2 ^ p else gr i)) := by
  unfold encode_residual_partition
  have hs : sliceR errors a b = some ((errors.drop a).take (b - a)) := by
    unfold sliceR
    simp [hab, hb, List.drop_take]
  have hab' : a + (b - a) = b := by omega
  simp only [hs, Option.bind_some]
  rw [partition_loop dbg errors p hp hn (b - a) a gq gr (by omega) (fun i h1 h2 => henc i h1 (by omega))]
  simp only [Option.bind_some, hab']

/-- quotient / remainder of position `i` as `Residual.ofErrors` computes them -/
def qAt (errors : List Int) (ps : List Nat) (plen i : Nat) : Nat := foldedAt errors i >>> ps.getD (i / plen) 0
def rAt (errors : List Int) (ps : List Nat) (plen i : Nat) : Nat := foldedAt errors i % 2 ^ ps.getD (i / plen) 0

theorem residual_loop (dbg : Bool) (errors : List Int) (ps : List Nat) (warm plen : Nat)
    (hn : errors.length < 2 ^ 64) (hw : warm ≤ plen) (hps : ∀ p ∈ ps, p < 32)
    (henc : ∀ e ∈ errors, encodeSignbit e ≠ none) (hlen : ps.length * plen = errors.length)
    (m : Nat) : ∀ (k : Nat), k + m = ps.length →
    (loopM (ps.drop k) (k * plen, (List.range errors.length).map (fun i => if warm ≤ i ∧ i < k * plen then qAt errors ps plen i else 0),
        (List.range errors.length).map (fun i => if warm ≤ i ∧ i < k * plen then rAt errors ps plen i else 0))
      fun rice_p (offset, quotients, remainders) =>
      let start : Nat := (max offset warm)
      (addU dbg 64 offset plen).bind fun v4' =>
      let offset : Nat := v4'
      let end_ : Nat := offset
      (encode_residual_partition dbg start end_ rice_p errors quotients remainders).bind fun (v5', v6') =>
      let quotients : List Nat := v5'
      let remainders : List Nat := v6'
      some (offset, quotients, remainders))
    = some (ps.length * plen,
        (List.range errors.length).map (fun i => if warm ≤ i ∧ i < ps.length * plen then qAt errors ps plen i else 0),
        (List.range errors.length).map (fun i => if warm ≤ i ∧ i < ps.length * plen then rAt errors ps plen i else 0)) := by
  induction m with
  | zero =>
    intro k hk
    have : k = ps.length := by omega
    subst this
    simp [loopM_nil]
  | succ m ih =>
    intro k hk
    have hkl : k < ps.length := by omega
    have hd : ps.drop k = ps.getD k 0 :: ps.drop (k + 1) := by
      rw [List.getD_eq_getElem?_getD, List.getElem?_eq_getElem hkl]
      simp
    have hmem : ps.getD k 0 ∈ ps := by
      rw [List.getD_eq_getElem?_getD, List.getElem?_eq_getElem hkl]; simp
    have hk1 : (k + 1) * plen = k * plen + plen := Nat.succ_mul k plen
    have hkle : (k + 1) * plen ≤ ps.length * plen := Nat.mul_le_mul_right _ (by omega)
    rw [hd, loopM_cons]
    have hadd : addU dbg 64 (k * plen) plen = some ((k + 1) * plen) := by
      unfold addU
      have : k * plen + plen < 2 ^ 64 := by omega
      simp [this, hk1]
    simp only [hadd, Option.bind_some]
    rw [C13G_encode_residual_partition dbg errors _ _ _ _ _ (hps _ hmem) hn (by omega) (by omega)
      (fun i _ h2 => henc _ (by
        rw [List.getD_eq_getElem?_getD, List.getElem?_eq_getElem (by omega)]; simp))]
    simp only [Option.bind_some]
    have e : ∀ (F : Nat → Nat → Nat) (G : Nat → Nat), (∀ i, G i = F i (ps.getD (i / plen) 0)) →
        (fun i => if max (k * plen) warm ≤ i ∧ i < (k + 1) * plen then F i (ps.getD k 0)
          else if warm ≤ i ∧ i < k * plen then G i else 0)
        = (fun i => if warm ≤ i ∧ i < (k + 1) * plen then G i else 0) := by
      intro F G hG; funext i
      by_cases h1 : max (k * plen) warm ≤ i ∧ i < (k + 1) * plen
      · have hdiv : i / plen = k := Nat.div_eq_of_lt_le (by omega) (by omega)
        have a2 : warm ≤ i ∧ i < (k + 1) * plen := by omega
        rw [if_pos h1, if_pos a2, hG i, hdiv]
      · by_cases h2 : warm ≤ i ∧ i < k * plen
        · have a2 : warm ≤ i ∧ i < (k + 1) * plen := by omega
          rw [if_neg h1, if_pos h2, if_pos a2]
        · have a2 : ¬ (warm ≤ i ∧ i < (k + 1) * plen) := by omega
          rw [if_neg h1, if_neg h2, if_neg a2]
    rw [e (fun i p => foldedAt errors i >>> p) (qAt errors ps plen) (fun i => rfl),
      e (fun i p => foldedAt errors i % 2 ^ p) (rAt errors ps plen) (fun i => rfl)]
    exact ih (k + 1) (by omega)

/-- The callee-table reading of part `coding` (CD_CALLEES: `encode_residual_with_prc_parameter(_config, errors, warmup, prc_p)`
= `Residual.ofErrors errors warmup prc_p.order prc_p.ps`), for every argument the encoder can produce, in both profiles.
The hypotheses are facts about a `prc_p` returned by the search on the same errors (`C13G_encode_residual_chain`). -/
theorem C13G_encode_residual_with_prc_parameter (dbg : Bool) (cfg : FlacVerif.Gen.Prc) (errors : List Int) (warm : Nat)
    (prc : FlacVerif.Gen.Rice.PrcParameter)
    (hn : errors.length < 2 ^ 64) (ho : prc.order ≤ 15) (hl : prc.ps.length = 2 ^ prc.order)
    (hdiv : 2 ^ prc.order * (errors.length >>> prc.order) = errors.length) (hw : warm ≤ errors.length >>> prc.order)
    (hps : ∀ p ∈ prc.ps, p < 32) (henc : ∀ e ∈ errors, encodeSignbit e ≠ none) :
    encode_residual_with_prc_parameter dbg cfg errors warm prc
      = some (FlacVerif.Residual.ofErrors errors warm prc.order prc.ps) := by
  unfold encode_residual_with_prc_parameter
  have hsa : shAmt dbg 64 prc.order = some prc.order := by
    unfold shAmt; have : prc.order < 64 := by omega
    simp [this]
  have hpw : 2 ^ prc.order < 2 ^ 64 := Nat.pow_lt_pow_right (by decide) (by omega)
  have hshl : shlU 64 1 prc.order = 2 ^ prc.order := by
    unfold shlU; rw [Nat.one_mul, Nat.mod_eq_of_lt hpw]
  have hshr : shrU errors.length prc.order = errors.length >>> prc.order := by
    unfold shrU; rw [Nat.shiftRight_eq_div_pow]
  simp only [hsa, Option.bind_some, hshl, hshr]
  generalize hplen : errors.length >>> prc.order = plen at *
  have hda : dbgAssert dbg (decide (plen ≥ warm)) = some () := by simp [dbgAssert, hw]
  have hsl : sliceR prc.ps 0 (2 ^ prc.order) = some prc.ps := by
    unfold sliceR
    have : 0 ≤ 2 ^ prc.order ∧ 2 ^ prc.order ≤ prc.ps.length := by omega
    rw [if_pos this, List.drop_zero, List.take_of_length_le (by omega)]
  rw [hda, Option.bind_some, hsl, Option.bind_some]
  have hrep : List.replicate errors.length 0 = (List.range errors.length).map (fun i => if warm ≤ i ∧ i < 0 then qAt errors prc.ps plen i else 0) := by
    apply List.ext_getElem <;> simp
  have hrep2 : List.replicate errors.length 0 = (List.range errors.length).map (fun i => if warm ≤ i ∧ i < 0 then rAt errors prc.ps plen i else 0) := by
    apply List.ext_getElem <;> simp
  have hlen : prc.ps.length * plen = errors.length := by rw [hl]; exact hdiv
  have hloop := residual_loop dbg errors prc.ps warm plen hn hw hps henc hlen prc.ps.length 0 (by omega)
  rw [List.drop_zero, Nat.zero_mul, ← hrep, ← hrep2] at hloop
  rw [hloop]
  simp only [Option.bind_some]
  have hmod : prc.order % 256 = prc.order := Nat.mod_eq_of_lt (by omega)
  have hda2 : dbgAssert dbg (decide (prc.order % 256 < 64) && decide (prc.ps.length = (1 <<< (prc.order % 256)) % 18446744073709551616)) = some () := by
    rw [hmod, Nat.shiftLeft_eq, Nat.one_mul]
    have h64 : (18446744073709551616 : Nat) = 2 ^ 64 := by decide
    rw [h64, Nat.mod_eq_of_lt hpw]
    have : prc.order < 64 := by omega
    simp [dbgAssert, this, hl]
  rw [hda2, Option.bind_some, hmod]
  unfold FlacVerif.Residual.ofErrors
  simp only [hplen]
  congr 2
  · rw [← hl]; simp
  · rw [List.map_map]
    apply List.map_congr_left
    intro i hi
    have hi' : i < errors.length := List.mem_range.mp hi
    by_cases hwi : i < warm
    · have : ¬ (warm ≤ i ∧ i < prc.ps.length * plen) := by omega
      simp [hwi, this]
    · have : warm ≤ i ∧ i < prc.ps.length * plen := by omega
      simp [hwi, this, qAt, foldedAt]
  · rw [List.map_map]
    apply List.map_congr_left
    intro i hi
    have hi' : i < errors.length := List.mem_range.mp hi
    by_cases hwi : i < warm
    · have : ¬ (warm ≤ i ∧ i < prc.ps.length * plen) := by omega
      simp [hwi, this]
    · have : warm ≤ i ∧ i < prc.ps.length * plen := by omega
      simp [hwi, this, rAt, foldedAt]

theorem mapM_some_all {α β : Type} (f : α → Option β) (l : List α) (ys : List β) (h : l.mapM f = some ys) :
    ∀ x ∈ l, f x ≠ none := by
  induction l generalizing ys with
  | nil => intro x hx; simp at hx
  | cons a as ih =>
    rw [List.mapM_cons] at h
    cases ha : f a with
    | none => simp [ha] at h
    | some y =>
      cases has : as.mapM f with
      | none => simp [ha, has] at h
      | some zs =>
        intro x hx
        simp only [List.mem_cons] at hx
        rcases hx with rfl | hx
        · simp [ha]
        · exact ih zs has x hx

/-- CHAIN coding -> rice: whatever the search returns on a block of fewer than 2^16 errors satisfies the hypotheses of
`C13G_encode_residual_with_prc_parameter`, so the generated `encode_residual_with_prc_parameter` applied to it is the hand
model's `Residual.ofErrors` - exactly the term `Gen.Coding.encode_residual` contains. -/
theorem C13G_encode_residual_chain (dbg : Bool) (cfg : FlacVerif.Gen.Prc) (errors : List Int) (warm maxP : Nat)
    (r : FlacVerif.PrcParameter) (prc : FlacVerif.Gen.Rice.PrcParameter) (hn : errors.length < 2 ^ 16)
    (hs : search errors warm maxP = some r) (hr : toModel prc = r) :
    encode_residual_with_prc_parameter dbg cfg errors warm prc
      = some (FlacVerif.Residual.ofErrors errors warm r.order r.ps) := by
  unfold search at hs
  cases hes : errors.mapM encodeSignbit with
  | none => simp [hes] at hs
  | some es =>
    simp only [hes, Option.bind_eq_bind, Option.bind_some] at hs
    have hl : es.length = errors.length := mapM_length _ _ _ hes
    have henc := mapM_some_all _ _ _ hes
    have hM : max 64 warm ≤ es.length := by
      cases hfo : finestOrder es.length (max 64 warm) with
      | none => unfold searchFolded at hs; simp [hfo] at hs
      | some o =>
        obtain ⟨_, h2⟩ := finestOrder_some _ _ _ (by omega) hfo
        have : 0 < 2 ^ o := Nat.two_pow_pos o
        exact Nat.le_trans (Nat.le_mul_of_pos_right _ this) h2
    obtain ⟨ofin, r', hr', hspec, ⟨o', ho', hcand⟩, _⟩ := RiceSearch.searchFolded_spec es warm maxP hM (by omega)
    rw [hr'] at hs
    have hrr : r' = r := Option.some.inj hs
    subst hrr
    have hok : orderOk es.length warm o' = true := (hspec o').mpr ho'
    obtain ⟨h15, hmod, hmul⟩ := (RiceSearch.orderOk_iff _ _ _).mp hok
    have hord : prc.order = o' := by rw [← hr] at hcand; simpa [toModel, RiceSearch.candAt] using congrArg FlacVerif.PrcParameter.order hcand
    have hps : prc.ps = RiceSearch.psAt es warm maxP o' := by
      rw [← hr] at hcand; simpa [toModel, RiceSearch.candAt] using congrArg FlacVerif.PrcParameter.ps hcand
    have hpos : 0 < 2 ^ o' := Nat.two_pow_pos o'
    have hpl : prc.ps.length = 2 ^ o' := by
      rw [hps]; unfold RiceSearch.psAt
      rw [(evalPartitions_props _ _).1, RiceSearch.tablesAt_length]
    have hp16 : ∀ p ∈ prc.ps, p < 32 := by
      intro p hp
      rw [hps] at hp
      unfold RiceSearch.psAt at hp
      rw [RiceSearch.evalPartitions_eq] at hp
      simp only [List.mem_map] at hp
      obtain ⟨t, _, rfl⟩ := hp
      have := minimizer_fst_lt t maxP
      omega
    have hro : r'.order = prc.order := by rw [← hr]; rfl
    have hrp : r'.ps = prc.ps := by rw [← hr]; rfl
    rw [hro, hrp]
    rw [hl] at hmod hmul
    apply C13G_encode_residual_with_prc_parameter dbg cfg errors warm prc (by omega) (by omega) (by rw [hord]; exact hpl)
    · rw [hord, Nat.shiftRight_eq_div_pow]
      exact Nat.mul_div_cancel' (Nat.dvd_of_mod_eq_zero hmod)
    · rw [hord, Nat.shiftRight_eq_div_pow]
      apply (Nat.le_div_iff_mul_le hpos).mpr
      have : warm * 2 ^ o' ≤ max 64 warm * 2 ^ o' := Nat.mul_le_mul_right _ (by omega)
      omega
    · exact hp16
    · exact henc

end FlacVerif.C13Gen
