/-
C15 / C16 (decoder half), generated: the hand-written mirror of the crate's own decoder (`Model/RepoParser.lean`:
`decodeSignbitD`, `residualSignal`, `decodeLpc`, `decodeSubframe`, `decorrelate`, `interleave`, `decodeFrameMode`,
`decodeAll`) against the functions GENERATED from the current source text by `tools/translate.py`, part `decode`
(`tools/translate_decode.py` -> `Gen/Decode.lean`: `rice::decode_signbit` / `encode_signbit`, the trait `Decode` with its
default method, every `impl Decode for X`, `decode_lpc`).

The relation that is proved.  `toOpt : DResult α → Option α` forgets the panic SITE label (`ok v ↦ some v`,
`panic _ ↦ none`).  Every theorem has the form  `Gen f dbg args = toOpt (hand f dbg args)`  for BOTH profiles
(`dbg = true`: dev, overflow checks; `dbg = false`: release, wrapping) and for ALL argument values in the domains of the
Rust types (explicit hypotheses, no sampling): the two sides return the same value, and one panics iff the other does.
The hand model returns the decoded block; the Rust `copy_signal` fills a caller-supplied buffer, so the `copy_signal`
theorems say what happens to a buffer that is long enough (prefix = the hand model's block, rest untouched) and the
`decode` theorems (buffer = `vec![0; signal_len()]`, the only way `Frame::decode` uses the sub-frames) are plain equalities.

Hypotheses (all are facts about Rust values, except the one excluded point):
* `decode_signbit`: `v < 2^32` (`u32`).  `encode_signbit`: none.  `Residual`, `Constant`, `Verbatim`: none at all
  (quotients, remainders, Rice parameters, partition order, lengths are arbitrary naturals).
* `FixedLpc`, `Lpc` (release profile only): `block_size + order <= 2^64`, so that the wrapped `t - 1 - tau` of an
  under-run history is out of bounds (true of every `Vec`); `Lpc`: the shift is an `i8`.
* `Frame`: `(block_size + 1) * channels <= 2^64` (a buffer of `block_size * channels` samples exists), and the
  block-size function of part `headers` is used in its dev-profile reading in both profiles (`hdrVal`: `none` where
  `block_size_exact` fails; the hand model's `headerBlockSize` does the same, so no hypothesis is needed for it).

DISAGREEMENT between the hand model and the Rust source (stated as `C15G_lpc_decode_discrepancy`, excluded from
`C15G_lpc_decode` / `SubDom` by exactly this condition): dev profile, LPC sub-frame, shift outside `0..64` (for the `i8`
the type holds: a negative shift), warm-up as long as the block, residual decodes.  Rust: the loop
`for t in warm_up.len()..residual.signal_len()` is empty, `pred >> shift` is never evaluated, `decode()` returns the
warm-up.  Hand model (`Repo.decodeLpc`): checks the shift amount before the loop and reports a panic.  The hand model
over-approximates the panic set there; the point is unreachable from the parser + `QuantizedParameters::new` (which
rejects negative shifts), reachable through `from_parts` / deserialisation only.  Neither side was changed.

Observations (no disagreement): `Frame::signal_len` multiplies `block_size * subframe_count` (dev: overflow panic),
which the hand model does not mirror — excluded by the `Frame` hypothesis above; `Residual::copy_signal` shifts by the
Rice parameter `u8` (dev: panic for a parameter >= 32, release: masked) exactly as the hand model says.

Mutation experiments (copy of the snapshot cec7cdb, translator re-run, `lake build FlacVerif.Theorems.C15Gen`;
"breaks in X" = first failing theorem):
  decode_signbit `(v >> 1) + 1` -> `+ 2`                          breaks in C15G_decode_signbit
  decode_signbit `v % 2 == 1` -> `== 0`                           breaks in C15G_decode_signbit
  Residual `rice_params()[t / part_len]` -> `[t % part_len]`      breaks in C15G_residual_copy_signal
  Residual `assert!(part_len > 0)` dropped                        breaks in C15G_residual_copy_signal
  Residual `assert!(part_len > 0)` -> `debug_assert!(..)`         breaks in C15G_residual_copy_signal (`req (!dbg || ..)`)
  Residual `block_size() >> partition_order()` -> `<<`            breaks in C15G_residual_copy_signal
  decode_lpc `dest[t - 1 - tau]` -> `dest[t - tau]`               breaks in decode_lpc_eq
  decode_lpc `pred >> shift` -> `pred << shift`                   breaks in decode_lpc_eq
  decode_lpc `residual.copy_signal(dest)` moved after the warm-up loop (data dependency)   breaks in decode_lpc_eq
  decode_lpc `for t in warm_up.len()..` -> `for t in 0..`         breaks in decode_lpc_eq
  decode_lpc `dest[t] += e` -> `dest[t] = dest[t].wrapping_add(e)` breaks in decode_lpc_eq (dev profile no longer panics)
  decode_lpc `let mut pred: i64 = 0i64` -> `i32 / 0i32`           translator fails closed (`+` on i32 / i64)
  decode_lpc `.enumerate()` -> `.enumerate().skip(1)`             translator fails closed (unknown iterator adaptor)
  LeftSide `channels[0][t] - channels[1][t]` operands swapped     breaks in C15G_frame_decode
  MidSide `(s & 0x01)` -> `(s & 0x03)`                            breaks in C15G_frame_decode
  MidSide the two stores `(m + s) >> 1` / `(m - s) >> 1` exchanged breaks in C15G_frame_decode
  MidSide `let s = channels[1][t]` -> `channels[0][t]`            breaks in C15G_frame_decode
  arms `LeftSide` / `RightSide` exchanged                         breaks in C15G_frame_decode
  interleave `dest[t * channel_count + ch]` -> `[ch * channel_count + t]`  breaks in C15G_frame_decode
  Frame `assert!(dest.len() >= signal_len())` -> `>`              breaks in C15G_frame_decode
  Frame::signal_len `*` -> `+`                                    breaks in C15G_frame_decode
  Constant `dest[0..n].fill(..)` -> `dest[1..n]`                  breaks in C15G_constant_copy_signal
  Verbatim `dest[0..n]` -> `dest[0..n - 1]`                       breaks in C15G_verbatim_copy_signal
  FixedLpc shift `0usize` -> `1usize`                             breaks in C15G_fixed_decode
  FixedLpc `[0..order]` -> `[1..order]`                           breaks in C15G_fixed_decode
  FIXED_LPC_COEFS `[3, -3, 1, 0]` -> `[3, -3, 2, 0]`              breaks in fixed_rows (table of part `tables`)
  Lpc `shift() as usize` -> `shift() as u8 as usize`              breaks in C15G_lpc_decode
  encode_signbit `<< 1` -> `<< 2`                                 breaks in C15G_encode_signbit
  BlockSizeSpec::block_size `x as usize + 1` -> `+ 2` (datatype.rs, part `headers`)  breaks in C02Hdr (imported here)
  an early `return`, a `while` loop, a closure, `#[cfg(..)]` on a statement, a changed accessor body: translator fails closed
Harmless rewrites: a local `let q = self.quotients()[t];` PASSES; renaming `part_len` -> `plen` PASSES;
`let lsb = s & 0x01;` before its use PASSES; `for sf in self.subframes().iter()` PASSES (same generated text);
the warm-up loop rewritten as `for t in 0..warm_up.len() { dest[t] = warm_up[t]; }` is translated, but the proof of
`decode_lpc_eq` is tied to the loop shape and BREAKS (an equivalent form needs its own loop lemma).
-/
import FlacVerif.Gen.Decode
import FlacVerif.Model.RepoParser
import FlacVerif.Theorems.C02Hdr
import FlacVerif.Theorems.C08Gen
namespace FlacVerif.C15Gen
open FlacVerif FlacVerif.Gen.Decode

def toOpt {α : Type} : Repo.DResult α → Option α
  | .ok v => some v
  | .panic _ => none

@[simp] theorem toOpt_ok {α : Type} (v : α) : toOpt (Repo.DResult.ok v) = some v := rfl
@[simp] theorem toOpt_panic {α : Type} (s : String) : toOpt (Repo.DResult.panic s : Repo.DResult α) = none := rfl

theorem toOpt_bind {α β : Type} (x : Repo.DResult α) (f : α → Repo.DResult β) :
    toOpt (x >>= f) = (toOpt x).bind fun v => toOpt (f v) := by
  cases x <;> rfl

@[simp] theorem bind_some_id {α : Type} (x : Option α) : (x.bind fun v => some v) = x := by cases x <;> rfl

theorem wrapS_eq_asSigned (w : Nat) (v : Int) : wrapS w v = Repo.asSigned w v := rfl

theorem arithS32_eq (dbg : Bool) (site : String) (v : Int) : toOpt (Repo.i32op dbg site v) = arithS dbg 32 v := by
  unfold Repo.i32op arithS Repo.inI32
  by_cases h : -(2 ^ 31 : Int) ≤ v ∧ v < (2 ^ 31 : Int)
  · have h' : (-(2 ^ (32 - 1) : Int) ≤ v ∧ v < (2 ^ (32 - 1) : Int)) := h
    rw [if_pos h']
    have : (decide (-(2 ^ 31 : Int) ≤ v) && decide (v < (2 ^ 31 : Int))) = true := by
      simp only [Bool.and_eq_true, decide_eq_true_eq]; exact h
    rw [this]; rfl
  · have h' : ¬ (-(2 ^ (32 - 1) : Int) ≤ v ∧ v < (2 ^ (32 - 1) : Int)) := h
    rw [if_neg h']
    have : (decide (-(2 ^ 31 : Int) ≤ v) && decide (v < (2 ^ 31 : Int))) = false := by
      simp only [Bool.and_eq_false_iff, decide_eq_false_iff_not]; omega
    rw [this]
    cases dbg <;> rfl

theorem obind_some {α β : Type} (a : α) (f : α → Option β) : (some a).bind f = f a := by
  cases h : f a <;> simp [h]

theorem C15G_decode_signbit (dbg : Bool) (v : Nat) (hv : v < 2 ^ 32) :
    toOpt (Repo.decodeSignbitD dbg v) = decode_signbit dbg v := by
  have hadd : addU dbg 32 (shrU v 1) 1 = some (v / 2 + 1) := by
    unfold addU shrU
    have : v / 2 ^ 1 + 1 < 2 ^ 32 := by omega
    rw [if_pos this, Nat.pow_one]
  by_cases h : v % 2 = 1
  · have hn : decide (v % 2 = 1) = true := by simp [h]
    unfold decode_signbit Repo.decodeSignbitD
    rw [if_pos h]
    simp only [hn, hadd, obind_some, bind_some_id, wrapS_eq_asSigned]
    generalize ((v / 2 + 1 : Nat) : Int) = z
    rw [if_pos True.intro]
    exact arithS32_eq dbg _ _
  · have hn : decide (v % 2 = 1) = false := by simp [h]
    unfold decode_signbit Repo.decodeSignbitD
    rw [if_neg h]
    simp only [hn, wrapS_eq_asSigned, shrU, Nat.pow_one]
    generalize ((v / 2 : Nat) : Int) = z
    rfl

theorem C15G_encode_signbit (v : Int) : encodeSignbit v = encode_signbit true v := by
  unfold encodeSignbit encode_signbit subU shlU u32
  simp only [bind_some_id, Nat.pow_one, decide_eq_true_eq]
  rw [Nat.mul_comm]
  rfl

/-! ### loops -/

theorem loopM_nil {α σ : Type} (s : σ) (f : α → σ → Option σ) : loopM [] s f = some s := by
  unfold loopM; rfl

theorem loopM_cons {α σ : Type} (x : α) (xs : List α) (s : σ) (f : α → σ → Option σ) :
    loopM (x :: xs) s f = (f x s).bind fun s' => loopM xs s' f := by
  rw [loopM]

/-- `mapM` in `Option`, without the monad classes. -/
def mapO {α β : Type} (g : α → Option β) : List α → Option (List β)
  | [] => some []
  | x :: xs => (g x).bind fun y => (mapO g xs).bind fun ys => some (y :: ys)

theorem mapO_length {α β : Type} (g : α → Option β) : ∀ (l : List α) (ys : List β), mapO g l = some ys → ys.length = l.length := by
  intro l
  induction l with
  | nil => intro ys h; simp [mapO] at h; subst h; rfl
  | cons x xs ih =>
    intro ys h
    simp only [mapO] at h
    cases hx : g x with
    | none => simp [hx] at h
    | some y =>
      cases hm : mapO g xs with
      | none => simp [hx, hm] at h
      | some zs =>
        simp [hx, hm] at h
        subst h
        simp [ih zs hm]

theorem setAt_eq {α : Type} (d : List α) (t : Nat) (x : α) (h : t < d.length) :
    setAt d t x = some (d.take t ++ x :: d.drop (t + 1)) := by
  unfold setAt
  rw [if_pos h, List.set_eq_take_append_cons_drop, if_pos h]

theorem setAt_none {α : Type} (d : List α) (t : Nat) (x : α) (h : ¬ t < d.length) : setAt d t x = none := by
  unfold setAt
  rw [if_neg h]

/-- A loop that stores `g t` at index `t`, for `t = a, .., a + n - 1`. -/
theorem loopM_fill {α : Type} (g : Nat → Option α) : ∀ (n a : Nat) (d : List α), a + n ≤ d.length →
    loopM (List.range' a n) d (fun t d => (g t).bind fun x => setAt d t x) =
      (mapO g (List.range' a n)).bind fun xs => some (d.take a ++ xs ++ d.drop (a + n)) := by
  intro n
  induction n with
  | zero =>
    intro a d _
    simp [loopM_nil, mapO]
  | succ n ih =>
    intro a d h
    rw [List.range'_succ, loopM_cons]
    simp only [mapO]
    cases hg : g a with
    | none => simp
    | some y =>
      simp only [obind_some]
      rw [setAt_eq d a y (by omega), obind_some, ih (a + 1) _ (by simp; omega)]
      cases hm : mapO g (List.range' (a + 1) n) with
      | none => simp
      | some ys =>
        simp only [obind_some]
        congr 1
        have hl : (List.take a d).length = a := by simp; omega
        have h1 : (List.take a d ++ y :: List.drop (a + 1) d).take (a + 1) = List.take a d ++ [y] := by
          have := @List.take_length_add_append _ (List.take a d) (y :: List.drop (a + 1) d) 1
          rw [hl] at this
          rw [this]; simp
        have h2 : (List.take a d ++ y :: List.drop (a + 1) d).drop (a + 1 + n) = List.drop (a + (n + 1)) d := by
          have := @List.drop_length_add_append _ (List.take a d) (y :: List.drop (a + 1) d) (1 + n)
          rw [hl] at this
          rw [show a + 1 + n = a + (1 + n) by omega, this]
          simp [Nat.add_comm 1 n]
          congr 1; omega
        rw [h1, h2]
        simp

/-! ### `Residual::copy_signal` -/

/-- One sample of `Residual::copy_signal`, as the generated loop body computes it. -/
def resElem (dbg : Bool) (params quot rem : List Nat) (pl t : Nat) : Option Int :=
  (quot[t]?).bind fun q => (divU t pl).bind fun d => (params[d]?).bind fun p => (shAmt dbg 32 p).bind fun k =>
  (rem[t]?).bind fun rm => (addU dbg 32 (shlU 32 q k) rm).bind fun v => decode_signbit dbg v

theorem addU_lt (dbg : Bool) (w a b v : Nat) (h : addU dbg w a b = some v) : v < 2 ^ w := by
  unfold addU at h
  split at h
  · injection h with h; omega
  · split at h
    · cases h
    · injection h with h
      subst h
      exact Nat.mod_lt _ (Nat.pow_pos (by decide))

theorem toOpt_idx {α : Type} (site : String) (xs : List α) (i : Nat) : toOpt (Repo.idx site xs i) = xs[i]? := by
  unfold Repo.idx
  cases xs[i]? <;> rfl

theorem resElem_def (dbg : Bool) (params quot rem : List Nat) (pl t : Nat) :
    resElem dbg params quot rem pl t =
      (quot[t]?).bind fun q => (divU t pl).bind fun d => (params[d]?).bind fun p => (shAmt dbg 32 p).bind fun k =>
      (rem[t]?).bind fun rm => (addU dbg 32 (shlU 32 q k) rm).bind fun v => decode_signbit dbg v := rfl

theorem toOpt_shAmt (dbg : Bool) (w p : Nat) (s : String) :
    toOpt (if p < w then Repo.DResult.ok p else if dbg = true then .panic s else .ok (p % w)) = shAmt dbg w p := by
  unfold shAmt
  split
  · rfl
  · cases dbg <;> rfl

theorem toOpt_addU (dbg : Bool) (w a b : Nat) (s : String) :
    toOpt (if a + b < 2 ^ w then Repo.DResult.ok (a + b) else if dbg = true then .panic s else .ok ((a + b) % 2 ^ w)) =
      addU dbg w a b := by
  unfold addU
  split
  · rfl
  · cases dbg <;> rfl

theorem obind_none {α β : Type} (f : α → Option β) : (none : Option α).bind f = none := by
  rfl

theorem residualSignalLoop_eq (dbg : Bool) (params quot rem : List Nat) (pl : Nat) (hpl : 0 < pl) :
    ∀ (n t : Nat), toOpt (Repo.residualSignalLoop dbg params pl (quot.drop t) (rem.drop t) n t) =
      mapO (resElem dbg params quot rem pl) (List.range' t n) := by
  intro n
  induction n with
  | zero => intro t; simp only [Repo.residualSignalLoop]; rfl
  | succ n ih =>
    intro t
    rw [List.range'_succ]
    simp only [Repo.residualSignalLoop, mapO, toOpt_bind, toOpt_idx, List.tail_drop, ih (t + 1), Repo.DResult.pure_eq,
      toOpt_ok, toOpt_addU]
    simp only [toOpt_shAmt]
    rw [resElem_def]
    have hdiv : divU t pl = some (t / pl) := by unfold divU; rw [if_neg (by omega)]
    rw [hdiv]
    simp only [obind_some]
    by_cases hq : t < quot.length
    · rw [List.drop_eq_getElem_cons hq, List.getElem?_eq_getElem hq]
      simp only [toOpt_ok, obind_some]
      cases hp : params[t / pl]? with
      | none => rfl
      | some p =>
        simp only [obind_some]
        by_cases hr : t < rem.length
        · rw [List.drop_eq_getElem_cons hr, List.getElem?_eq_getElem hr]
          simp only [toOpt_ok, obind_some, shlU]
          cases hk : shAmt dbg 32 p with
          | none => rfl
          | some k =>
            simp only [obind_some]
            cases hv : addU dbg 32 (quot[t] * 2 ^ k % 2 ^ 32) rem[t] with
            | none => rfl
            | some v =>
              simp only [obind_some]
              rw [C15G_decode_signbit dbg v (addU_lt _ _ _ _ _ hv)]
        · rw [List.drop_eq_nil_of_le (as := rem) (by omega), List.getElem?_eq_none (l := rem) (by omega)]
          simp only [toOpt_panic, obind_none]
          cases shAmt dbg 32 p <;> rfl
    · rw [List.drop_eq_nil_of_le (as := quot) (by omega), List.getElem?_eq_none (l := quot) (by omega)]
      rfl

theorem req_true (c : Bool) (h : c = true) : req c = some () := by
  unfold req; rw [if_pos h]

theorem req_false (c : Bool) (h : c = false) : req c = none := by
  unfold req; rw [if_neg (by simp [h])]

theorem rangeL_zero (n : Nat) : rangeL 0 n = List.range' 0 n := by
  unfold rangeL; rw [Nat.sub_zero]

theorem obind_assoc {α β γ : Type} (x : Option α) (f : α → Option β) (g : β → Option γ) :
    (x.bind f).bind g = x.bind fun a => (f a).bind g := by
  cases x <;> rfl

theorem residual_loop (dbg : Bool) (r : Residual) (dest : List Int) (hd : r.blockSize ≤ dest.length) (pl : Nat) (hpl : 0 < pl) :
    ((loopM (rangeL 0 r.blockSize) dest fun t dest =>
      (r.quotients[t]?).bind fun v2 => (divU t pl).bind fun v3 => (r.params[v3]?).bind fun v4 =>
      (shAmt dbg 32 v4).bind fun v5 => (r.remainders[t]?).bind fun v6 => (addU dbg 32 (shlU 32 v2 v5) v6).bind fun v7 =>
      (decode_signbit dbg v7).bind fun v8 => (setAt dest t v8).bind fun dest => some dest).bind fun dest => some dest) =
    (toOpt (Repo.residualSignalLoop dbg r.params pl r.quotients r.remainders r.blockSize 0)).map
      (· ++ dest.drop r.blockSize) := by
  have hbody : (fun (t : Nat) (dest : List Int) =>
      (r.quotients[t]?).bind fun v2 => (divU t pl).bind fun v3 => (r.params[v3]?).bind fun v4 =>
      (shAmt dbg 32 v4).bind fun v5 => (r.remainders[t]?).bind fun v6 => (addU dbg 32 (shlU 32 v2 v5) v6).bind fun v7 =>
      (decode_signbit dbg v7).bind fun v8 => (setAt dest t v8).bind fun dest => some dest) =
      fun t d => (resElem dbg r.params r.quotients r.remainders pl t).bind fun x => setAt d t x := by
    funext t d
    simp only [resElem_def, obind_assoc, bind_some_id]
  rw [hbody, rangeL_zero, loopM_fill _ _ _ _ (by omega), bind_some_id]
  have := residualSignalLoop_eq dbg r.params r.quotients r.remainders pl hpl r.blockSize 0
  rw [List.drop_zero, List.drop_zero] at this
  rw [this]
  cases mapO (resElem dbg r.params r.quotients r.remainders pl) (List.range' 0 r.blockSize) with
  | none => rfl
  | some xs => simp

/-- `Residual::copy_signal(dest)` for a buffer that is long enough: the first `block_size` entries become the hand
model's residual signal, the rest of the buffer is untouched; the panic outcomes coincide (in both profiles). -/
theorem C15G_residual_copy_signal (dbg : Bool) (r : Residual) (dest : List Int) (hd : r.blockSize ≤ dest.length) :
    Residual.copy_signal dbg r dest = (toOpt (Repo.residualSignal dbg r)).map (· ++ dest.drop r.blockSize) := by
  unfold Residual.copy_signal Repo.residualSignal Residual.signal_len
  rw [req_true _ (by simp; exact hd), obind_some]
  unfold shAmt shrU
  by_cases ho : r.order < 64
  · rw [if_pos ho, if_pos ho, obind_some]
    simp only [Repo.DResult.ok_bind]
    by_cases hz : r.blockSize / 2 ^ r.order = 0
    · rw [if_pos hz, req_false _ (by simp [hz])]; rfl
    · rw [if_neg hz, req_true _ (decide_eq_true (Nat.pos_of_ne_zero hz)), obind_some]
      exact residual_loop dbg r dest hd _ (Nat.pos_of_ne_zero hz)
  · rw [if_neg ho, if_neg ho]
    cases dbg with
    | true => rfl
    | false =>
      simp only [Bool.false_eq_true, if_false, obind_some, Repo.DResult.ok_bind]
      by_cases hz : r.blockSize / 2 ^ (r.order % 64) = 0
      · rw [if_pos hz, req_false _ (by simp [hz])]; rfl
      · rw [if_neg hz, req_true _ (decide_eq_true (Nat.pos_of_ne_zero hz)), obind_some]
        exact residual_loop false r dest hd _ (Nat.pos_of_ne_zero hz)

/-- `dest` shorter than the block: the `assert!` fails. -/
theorem C15G_residual_copy_signal_short (dbg : Bool) (r : Residual) (dest : List Int) (hd : dest.length < r.blockSize) :
    Residual.copy_signal dbg r dest = none := by
  unfold Residual.copy_signal Residual.signal_len
  rw [req_false _ (by simp; omega)]; rfl

/-- `Residual::decode()`. -/
theorem C15G_residual_decode (dbg : Bool) (r : Residual) :
    Residual.decode dbg r = toOpt (Repo.residualSignal dbg r) := by
  unfold Residual.decode Residual.signal_len
  simp only [bind_some_id]
  rw [C15G_residual_copy_signal dbg r _ (by simp)]
  cases toOpt (Repo.residualSignal dbg r) <;> simp

/-! ### `Constant`, `Verbatim` -/

theorem C15G_constant_copy_signal (dbg : Bool) (n : Nat) (dc : Int) (bps : Nat) (dest : List Int) :
    Constant.copy_signal dbg n dc bps dest =
      if n ≤ dest.length then some (List.replicate n dc ++ dest.drop n) else none := by
  unfold Constant.copy_signal Constant.signal_len sliceFill
  by_cases h : n ≤ dest.length
  · rw [req_true _ (decide_eq_true h), obind_some, if_pos ⟨Nat.zero_le _, h⟩, obind_some, if_pos h]
    simp
  · rw [req_false _ (decide_eq_false h), if_neg h]; rfl

theorem C15G_constant_decode (dbg : Bool) (n : Nat) (dc : Int) (bps : Nat) :
    Constant.decode dbg n dc bps = toOpt (Repo.decodeSubframe dbg (.constant n dc bps)) := by
  unfold Constant.decode Constant.signal_len Repo.decodeSubframe
  simp only [bind_some_id]
  rw [C15G_constant_copy_signal, if_pos (by simp)]
  simp

theorem C15G_verbatim_copy_signal (dbg : Bool) (xs : List Int) (bps : Nat) (dest : List Int) :
    Verbatim.copy_signal dbg xs bps dest =
      if xs.length ≤ dest.length then some (xs ++ dest.drop xs.length) else none := by
  unfold Verbatim.copy_signal Verbatim.signal_len sliceCopy
  by_cases h : xs.length ≤ dest.length
  · rw [req_true _ (decide_eq_true h), obind_some, if_pos ⟨Nat.zero_le _, h, by simp⟩, obind_some, if_pos h]
    simp
  · rw [req_false _ (decide_eq_false h), if_neg h]; rfl

theorem C15G_verbatim_decode (dbg : Bool) (xs : List Int) (bps : Nat) :
    Verbatim.decode dbg xs bps = toOpt (Repo.decodeSubframe dbg (.verbatim xs bps)) := by
  unfold Verbatim.decode Verbatim.signal_len Repo.decodeSubframe
  simp only [bind_some_id]
  rw [C15G_verbatim_copy_signal, if_pos (by simp)]
  simp

/-! ### `decode_lpc` -/

theorem enumFrom_nil {α : Type} (i : Nat) : enumFrom i ([] : List α) = [] := by
  unfold enumFrom; rfl

theorem enumFrom_cons {α : Type} (i : Nat) (x : α) (xs : List α) : enumFrom i (x :: xs) = (i, x) :: enumFrom (i + 1) xs := by
  rw [enumFrom]

/-- The warm-up loop of `decode_lpc`: `dest[t] = *x` for `(t, x)` in `warm_up.iter().enumerate()` (offset `a`). -/
theorem loopM_warm {α : Type} : ∀ (xs : List α) (a : Nat) (d : List α), a ≤ d.length →
    loopM (enumFrom a xs) d (fun (p : Nat × α) d => setAt d p.1 p.2) =
      if a + xs.length ≤ d.length then some (d.take a ++ xs ++ d.drop (a + xs.length)) else none := by
  intro xs
  induction xs with
  | nil =>
    intro a d h
    rw [enumFrom_nil, loopM_nil]
    simp [h]
  | cons x xs ih =>
    intro a d h
    rw [enumFrom_cons, loopM_cons]
    by_cases ha : a < d.length
    · rw [setAt_eq d a x ha, obind_some, ih (a + 1) _ (by simp; omega)]
      have hl : (List.take a d).length = a := by simp; omega
      have hlen : (List.take a d ++ x :: List.drop (a + 1) d).length = d.length := by simp; omega
      rw [hlen]
      by_cases hb : a + (x :: xs).length ≤ d.length
      · have hb' : a + 1 + xs.length ≤ d.length := by simp at hb; omega
        rw [if_pos hb, if_pos hb']
        congr 1
        have h1 : (List.take a d ++ x :: List.drop (a + 1) d).take (a + 1) = List.take a d ++ [x] := by
          have := @List.take_length_add_append _ (List.take a d) (x :: List.drop (a + 1) d) 1
          rw [hl] at this
          rw [this]; simp
        have h2 : (List.take a d ++ x :: List.drop (a + 1) d).drop (a + 1 + xs.length) =
            List.drop (a + (x :: xs).length) d := by
          have := @List.drop_length_add_append _ (List.take a d) (x :: List.drop (a + 1) d) (1 + xs.length)
          rw [hl] at this
          rw [show a + 1 + xs.length = a + (1 + xs.length) by omega, this]
          simp [Nat.add_comm 1 xs.length]
          congr 1; omega
        rw [h1, h2]
        simp
      · have hb' : ¬ a + 1 + xs.length ≤ d.length := by simp at hb; omega
        rw [if_neg hb, if_neg hb']
    · rw [setAt_none d a x ha, if_neg (by simp; omega)]; rfl

theorem arithS64 (dbg : Bool) (v : Int) :
    arithS dbg 64 v = if -(2 ^ 63 : Int) ≤ v ∧ v < (2 ^ 63 : Int) then some v else if dbg = true then none else some (wrapS 64 v) :=
  rfl

theorem wrapS64_id (v : Int) (h : -(2 ^ 63 : Int) ≤ v ∧ v < (2 ^ 63 : Int)) : wrapS 64 v = v := by
  unfold wrapS; simp only []; split <;> omega

theorem wrapS64_add (a b : Int) : wrapS 64 (a + wrapS 64 b) = wrapS 64 (a + b) := by
  unfold wrapS; simp only []; split <;> split <;> split <;> omega

theorem arithS64_release (v : Int) : arithS false 64 v = some (wrapS 64 v) := by
  rw [arithS64]
  split
  · rename_i h; rw [wrapS64_id v h]
  · rfl

/-- One multiply-accumulate step of the prediction: the generated two steps against the hand model's test. -/
theorem mac_eq {β : Type} (dbg : Bool) (acc prod : Int) (k : Int → Option β) :
    ((arithS dbg 64 prod).bind fun v4 => (arithS dbg 64 (acc + v4)).bind k) =
      if ((decide (-(2 ^ 63 : Int) ≤ prod) && decide (prod < (2 ^ 63 : Int))) &&
          (decide (-(2 ^ 63 : Int) ≤ acc + prod) && decide (acc + prod < (2 ^ 63 : Int)))) = true
      then k (acc + prod) else if dbg = true then none else k (Repo.asSigned 64 (acc + prod)) := by
  cases dbg with
  | false =>
    rw [arithS64_release, obind_some, arithS64_release, obind_some, wrapS64_add]
    split
    · rename_i h
      simp only [Bool.and_eq_true, decide_eq_true_eq] at h
      rw [wrapS64_id _ h.2]
    · rfl
  | true =>
    have hc : (((decide (-(2 ^ 63 : Int) ≤ prod) && decide (prod < (2 ^ 63 : Int))) &&
          (decide (-(2 ^ 63 : Int) ≤ acc + prod) && decide (acc + prod < (2 ^ 63 : Int)))) = true) ↔
        ((-(2 ^ 63 : Int) ≤ prod ∧ prod < (2 ^ 63 : Int)) ∧ (-(2 ^ 63 : Int) ≤ acc + prod ∧ acc + prod < (2 ^ 63 : Int))) := by
      simp only [Bool.and_eq_true, decide_eq_true_eq]
    rw [arithS64]
    by_cases h1 : -(2 ^ 63 : Int) ≤ prod ∧ prod < (2 ^ 63 : Int)
    · rw [if_pos h1, obind_some, arithS64]
      by_cases h2 : -(2 ^ 63 : Int) ≤ acc + prod ∧ acc + prod < (2 ^ 63 : Int)
      · rw [if_pos h2, obind_some, if_pos (hc.2 ⟨h1, h2⟩)]
      · rw [if_neg h2, if_neg (fun h => h2 (hc.1 h).2)]
        rfl
    · rw [if_neg h1, if_neg (fun h => h1 (hc.1 h).1)]
      rfl

theorem mac_eq' {β : Type} (dbg : Bool) (acc prod : Int) (k : Int → Option β) :
    (((arithS dbg 64 prod).bind fun v4 => arithS dbg 64 (acc + v4)).bind k) =
      if ((decide (-(2 ^ 63 : Int) ≤ prod) && decide (prod < (2 ^ 63 : Int))) &&
          (decide (-(2 ^ 63 : Int) ≤ acc + prod) && decide (acc + prod < (2 ^ 63 : Int)))) = true
      then k (acc + prod) else if dbg = true then none else k (Repo.asSigned 64 (acc + prod)) := by
  rw [obind_assoc, mac_eq]

/-- One iteration of the prediction loop of `decode_lpc` (generated body), at time `t` on the buffer `d`. -/
def predStep (dbg : Bool) (d : List Int) (t : Nat) (p : Nat × Int) (pred : Int) : Option Int :=
  (subU dbg 64 t 1).bind fun v1 => (subU dbg 64 v1 p.1).bind fun v2 =>
  (d[v2]?).bind fun v3 => (arithS dbg 64 (p.2 * v3)).bind fun v4 => arithS dbg 64 (pred + v4)

theorem predStep_def (dbg : Bool) (d : List Int) (t j : Nat) (w pred : Int) :
    predStep dbg d t (j, w) pred = (subU dbg 64 t 1).bind fun v1 => (subU dbg 64 v1 j).bind fun v2 =>
      (d[v2]?).bind fun v3 => (arithS dbg 64 (w * v3)).bind fun v4 => arithS dbg 64 (pred + v4) := rfl

/-- The prediction loop of `decode_lpc` at time `t = |hist|`, `dest = hist.reverse ++ rest`: the generated loop over
`coefs.iter().enumerate()` (from index `j`) against `Repo.predict` on the history from position `j`. -/
theorem predict_eq (dbg : Bool) (hist rest : List Int) :
    ∀ (cs : List Int) (j : Nat) (acc : Int), (dbg = true ∨ hist.length + rest.length + j + cs.length ≤ 2 ^ 64) →
    loopM (enumFrom j cs) acc (predStep dbg (hist.reverse ++ rest) hist.length) =
      toOpt (Repo.predict dbg cs (hist.drop j) acc) := by
  intro cs
  induction cs with
  | nil =>
    intro j acc _
    rw [enumFrom_nil, loopM_nil]
    simp only [Repo.predict]; rfl
  | cons w ws ih =>
    intro j acc hb
    rw [enumFrom_cons, loopM_cons, predStep_def]
    by_cases hj : j < hist.length
    · have h1 : subU dbg 64 hist.length 1 = some (hist.length - 1) := by
        unfold subU; rw [if_pos (by omega)]
      have h2 : subU dbg 64 (hist.length - 1) j = some (hist.length - 1 - j) := by
        unfold subU; rw [if_pos (by omega)]
      have h3 : (hist.reverse ++ rest)[hist.length - 1 - j]? = some hist[j] := by
        rw [List.getElem?_append_left (by simp; omega), List.getElem?_reverse (by omega),
          show hist.length - 1 - (hist.length - 1 - j) = j by omega, List.getElem?_eq_getElem hj]
      rw [h1, obind_some, h2, obind_some, h3, obind_some, List.drop_eq_getElem_cons hj]
      simp only [Repo.predict]
      generalize w * hist[j] = prod
      rw [mac_eq' dbg acc prod]
      have hb' : dbg = true ∨ hist.length + rest.length + (j + 1) + ws.length ≤ 2 ^ 64 := by
        cases hb with
        | inl h => exact Or.inl h
        | inr h => right; simp at h; omega
      split
      · rw [ih (j + 1) _ hb']
      · cases dbg with
        | true => rfl
        | false => simp only [Bool.false_eq_true, if_false]; rw [ih (j + 1) _ hb']
    · rw [List.drop_eq_nil_of_le (by omega)]
      simp only [Repo.predict, toOpt_panic]
      cases dbg with
      | true =>
        unfold subU
        by_cases h0 : 1 ≤ hist.length
        · rw [if_pos h0, obind_some, if_neg (by omega)]; rfl
        · rw [if_neg h0]; rfl
      | false =>
        have hb2 : hist.length + rest.length + j + (ws.length + 1) ≤ 2 ^ 64 := by
          cases hb with
          | inl h => cases h
          | inr h => simpa using h
        unfold subU
        simp only [Bool.false_eq_true, if_false]
        by_cases h0 : 1 ≤ hist.length
        · rw [if_pos h0, obind_some, if_neg (by omega), obind_some]
          rw [List.getElem?_eq_none (by simp; omega)]
          rfl
        · rw [if_neg h0, obind_some]
          have hz : hist.length = 0 := by omega
          rw [hz]
          rw [if_pos (by omega), obind_some, List.getElem?_eq_none (by simp; omega)]
          rfl

/-- One iteration of the main loop of `decode_lpc` (generated body). -/
def lpcBody (dbg : Bool) (coefs : List Int) (shift : Nat) (t : Nat) (d : List Int) : Option (List Int) :=
  (loopM (enumerate coefs) (0 : Int) (predStep dbg d t)).bind fun pred =>
  (d[t]?).bind fun v5 => (shAmt dbg 64 shift).bind fun v6 =>
  (arithS dbg 32 (v5 + (wrapS 32 (shrS pred v6)))).bind fun v7 => setAt d t v7

theorem lpcBody_def (dbg : Bool) (coefs : List Int) (shift : Nat) (t : Nat) (d : List Int) :
    lpcBody dbg coefs shift t d = (loopM (enumFrom 0 coefs) (0 : Int) (predStep dbg d t)).bind fun pred =>
      (d[t]?).bind fun v5 => (shAmt dbg 64 shift).bind fun v6 =>
      (arithS dbg 32 (v5 + (wrapS 32 (shrS pred v6)))).bind fun v7 => setAt d t v7 := rfl

theorem set_mid (hist es : List Int) (e x : Int) :
    setAt (hist.reverse ++ e :: es) hist.length x = some ((x :: hist).reverse ++ es) := by
  rw [setAt_eq _ _ _ (by simp)]
  congr 1
  rw [List.take_left' (by simp), show hist.length + 1 = (hist.reverse ++ [e]).length by simp,
    show hist.reverse ++ e :: es = (hist.reverse ++ [e]) ++ es by simp, List.drop_left' rfl]
  simp

/-- The main loop of `decode_lpc` against `Repo.lpcLoop`, for a shift amount that passes the check. -/
theorem lpcLoop_eq (dbg : Bool) (coefs : List Int) (shift k : Nat) (hk : shAmt dbg 64 shift = some k) :
    ∀ (es hist : List Int), (dbg = true ∨ hist.length + es.length + coefs.length ≤ 2 ^ 64) →
    loopM (List.range' hist.length es.length) (hist.reverse ++ es) (lpcBody dbg coefs shift) =
      toOpt (Repo.lpcLoop dbg coefs k es hist) := by
  intro es
  induction es with
  | nil =>
    intro hist _
    simp only [List.length_nil, List.range'_zero, loopM_nil, Repo.lpcLoop, List.append_nil]; rfl
  | cons e es ih =>
    intro hist hb
    rw [List.length_cons, List.range'_succ, loopM_cons, lpcBody_def,
      predict_eq dbg hist (e :: es) coefs 0 0 (by
        cases hb with
        | inl h => exact Or.inl h
        | inr h => right; simp at h ⊢; omega)]
    simp only [Repo.lpcLoop, toOpt_bind, List.drop_zero]
    cases hp : toOpt (Repo.predict dbg coefs hist 0) with
    | none => rfl
    | some pred =>
      rw [obind_some, obind_some, List.getElem?_append_right (by simp)]
      simp only [List.length_reverse, Nat.sub_self, List.getElem?_cons_zero, obind_some, hk]
      rw [← arithS32_eq dbg "decode_lpc: dest[t] += (pred >> shift) as i32"]
      have : wrapS 32 (shrS pred k) = Repo.asSigned 32 (pred / (2 ^ k : Int)) := rfl
      rw [this]
      cases hx : toOpt (Repo.i32op dbg "decode_lpc: dest[t] += (pred >> shift) as i32" (e + Repo.asSigned 32 (pred / 2 ^ k))) with
      | none => rfl
      | some x =>
        rw [obind_some, obind_some, set_mid, obind_some]
        have := ih (x :: hist) (by
          cases hb with
          | inl h => exact Or.inl h
          | inr h => right; simp at h ⊢; omega)
        rw [List.length_cons] at this
        exact this

/-- A shift amount that fails the dev-profile check stops the main loop at its first iteration. -/
theorem lpcLoop_noshift (dbg : Bool) (coefs : List Int) (shift : Nat) (hk : shAmt dbg 64 shift = none)
    (e : Int) (es hist : List Int) :
    loopM (List.range' hist.length (e :: es).length) (hist.reverse ++ e :: es) (lpcBody dbg coefs shift) = none := by
  rw [List.length_cons, List.range'_succ, loopM_cons, lpcBody_def]
  cases loopM (enumFrom 0 coefs) (0 : Int) (predStep dbg (hist.reverse ++ e :: es) hist.length) with
  | none => rfl
  | some pred =>
    rw [obind_some, List.getElem?_append_right (by simp)]
    simp only [List.length_reverse, Nat.sub_self, List.getElem?_cons_zero, obind_some, hk]
    rfl

theorem residualSignalLoop_length (dbg : Bool) (params quot rem : List Nat) (pl : Nat) (hpl : 0 < pl) (n : Nat) (e : List Int)
    (h : toOpt (Repo.residualSignalLoop dbg params pl quot rem n 0) = some e) : e.length = n := by
  have := residualSignalLoop_eq dbg params quot rem pl hpl n 0
  rw [List.drop_zero, List.drop_zero, h] at this
  rw [mapO_length _ _ _ this.symm]
  simp

/-- The residual signal has `block_size` entries. -/
theorem residualSignal_length (dbg : Bool) (r : Residual) (e : List Int)
    (h : toOpt (Repo.residualSignal dbg r) = some e) : e.length = r.blockSize := by
  unfold Repo.residualSignal at h
  by_cases ho : r.order < 64
  · rw [if_pos ho] at h
    simp only [Repo.DResult.ok_bind] at h
    by_cases hz : r.blockSize / 2 ^ r.order = 0
    · rw [if_pos hz] at h; cases h
    · rw [if_neg hz] at h
      exact residualSignalLoop_length dbg _ _ _ _ (Nat.pos_of_ne_zero hz) _ _ h
  · rw [if_neg ho] at h
    cases dbg with
    | true => cases h
    | false =>
      simp only [Bool.false_eq_true, if_false, Repo.DResult.ok_bind] at h
      by_cases hz : r.blockSize / 2 ^ (r.order % 64) = 0
      · rw [if_pos hz] at h; cases h
      · rw [if_neg hz] at h
        exact residualSignalLoop_length false _ _ _ _ (Nat.pos_of_ne_zero hz) _ _ h

theorem decode_lpc_eq (dbg : Bool) (warm coefs : List Int) (shift : Nat) (r : Residual) (dest : List Int)
    (hlen : dest.length = r.blockSize) (hsz : dbg = true ∨ r.blockSize + coefs.length ≤ 2 ^ 64) :
    decode_lpc dbg warm coefs shift r dest =
      (toOpt (Repo.residualSignal dbg r)).bind fun e =>
        if warm.length > e.length then none else
        match shAmt dbg 64 shift with
        | some k => toOpt (Repo.lpcLoop dbg coefs k (e.drop warm.length) warm.reverse)
        | none => if warm.length = e.length then some warm else none := by
  unfold decode_lpc Residual.signal_len enumerate
  rw [C15G_residual_copy_signal dbg r dest (by omega), List.drop_eq_nil_of_le (by omega)]
  cases he : toOpt (Repo.residualSignal dbg r) with
  | none => rfl
  | some e =>
    have hel := residualSignal_length dbg r e he
    simp only [Option.map_some, List.append_nil, obind_some, bind_some_id]
    change ((loopM (enumFrom 0 warm) e fun p d => setAt d p.1 p.2).bind fun dest =>
      loopM (rangeL warm.length r.blockSize) dest (lpcBody dbg coefs shift)) = _
    rw [loopM_warm warm 0 e (Nat.zero_le _)]
    by_cases hw : warm.length ≤ e.length
    · rw [if_pos (by omega), obind_some, if_neg (by omega)]
      simp only [List.take_zero, List.nil_append, Nat.zero_add]
      have hes : (e.drop warm.length).length = r.blockSize - warm.length := by simp; omega
      have hrev : warm = warm.reverse.reverse := by simp
      have hwl : warm.length = warm.reverse.length := by simp
      unfold rangeL
      rw [← hes]
      generalize e.drop warm.length = es at *
      cases hk : shAmt dbg 64 shift with
      | some k =>
        simp only []
        have := lpcLoop_eq dbg coefs shift k hk es warm.reverse (by
          cases hsz with
          | inl h => exact Or.inl h
          | inr h => right; simp; omega)
        rw [List.reverse_reverse, List.length_reverse] at this
        exact this
      | none =>
        simp only []
        cases es with
        | nil =>
          simp only [List.length_nil, List.range'_zero, loopM_nil, List.append_nil]
          rw [if_pos (by simp at hes; omega)]
        | cons x xs =>
          have := lpcLoop_noshift dbg coefs shift hk x xs warm.reverse
          rw [List.reverse_reverse, List.length_reverse] at this
          rw [this, if_neg (by simp at hes; omega)]
    · rw [if_neg (by omega), if_pos (by omega)]; rfl

/-! ### `FixedLpc`, `Lpc` -/

theorem decodeLpc_toOpt (dbg : Bool) (warm coefs : List Int) (shift : Int) (r : Residual) :
    toOpt (Repo.decodeLpc dbg warm coefs shift r) =
      (toOpt (Repo.residualSignal dbg r)).bind fun e =>
        if warm.length > e.length then none else
        (toOpt (if 0 ≤ shift ∧ shift < 64 then Repo.DResult.ok shift.toNat
                else if dbg = true then .panic "decode_lpc: pred >> shift (shift amount)"
                else .ok ((shift % 64).toNat))).bind fun sh =>
        toOpt (Repo.lpcLoop dbg coefs sh (e.drop warm.length) warm.reverse) := by
  unfold Repo.decodeLpc
  rw [toOpt_bind]
  cases toOpt (Repo.residualSignal dbg r) with
  | none => rfl
  | some e =>
    simp only [obind_some]
    split
    · rfl
    · rw [toOpt_bind]

/-- The rows of `FIXED_LPC_COEFS` cut to the order are the hand model's `fixedCoefs`. -/
theorem fixed_rows (order : Nat) :
    ((FlacVerif.Gen.Tables.fixedLpcCoefs[order]?).bind fun row => sliceR row 0 order) = Repo.fixedCoefs[order]? := by
  match order with
  | 0 | 1 | 2 | 3 | 4 => decide
  | n + 5 =>
    rw [List.getElem?_eq_none (by simp [FlacVerif.Gen.Tables.fixedLpcCoefs]),
      List.getElem?_eq_none (by simp [Repo.fixedCoefs])]
    rfl

theorem fixed_rows_length (order : Nat) (cs : List Int) (h : Repo.fixedCoefs[order]? = some cs) : cs.length ≤ 4 := by
  match order with
  | 0 | 1 | 2 | 3 | 4 => simp [Repo.fixedCoefs] at h; subst h; decide
  | n + 5 => rw [List.getElem?_eq_none (by simp [Repo.fixedCoefs])] at h; cases h

/-- **`FixedLpc::decode()`** = the hand model's `decodeSubframe` on a fixed-predictor sub-frame, panic outcomes included,
in both profiles.  `hsz` (release profile only): the block is shorter than `usize::MAX - 4`, which every `Vec` is. -/
theorem C15G_fixed_decode (dbg : Bool) (warm : List Int) (res : Residual) (bps : Nat)
    (hsz : dbg = true ∨ res.blockSize + 4 ≤ 2 ^ 64) :
    FixedLpc.decode dbg warm res bps = toOpt (Repo.decodeSubframe dbg (.fixed warm res bps)) := by
  unfold FixedLpc.decode FixedLpc.copy_signal FixedLpc.signal_len Residual.signal_len Repo.decodeSubframe
  simp only [bind_some_id]
  rw [toOpt_bind, toOpt_idx, ← fixed_rows, obind_assoc]
  cases h1 : FlacVerif.Gen.Tables.fixedLpcCoefs[warm.length]? with
  | none => rfl
  | some row =>
    simp only [obind_some]
    cases h2 : sliceR row 0 warm.length with
    | none => rfl
    | some cs =>
      simp only [obind_some]
      have hcs : Repo.fixedCoefs[warm.length]? = some cs := by rw [← fixed_rows, h1, obind_some, h2]
      have hl := fixed_rows_length _ _ hcs
      rw [decode_lpc_eq dbg warm cs 0 res _ (by simp) (by
        cases hsz with
        | inl h => exact Or.inl h
        | inr h => right; omega), decodeLpc_toOpt]
      have hk : shAmt dbg 64 0 = some 0 := by unfold shAmt; rw [if_pos (by decide)]
      rw [hk, if_pos (by decide)]
      rfl

/-- `shift as usize` (sign extension of the `i8`) followed by the shift-amount check of `pred >> shift`, against the
hand model's test on the signed value. -/
theorem toOpt_shift (dbg : Bool) (shift : Int) (hs : -128 ≤ shift ∧ shift < 128) (s : String) :
    toOpt (if 0 ≤ shift ∧ shift < 64 then Repo.DResult.ok shift.toNat
           else if dbg = true then .panic s else .ok ((shift % 64).toNat)) = shAmt dbg 64 (castU 64 shift) := by
  unfold shAmt castU
  by_cases h : 0 ≤ shift ∧ shift < 64
  · have h2 : (shift % (2 ^ 64 : Int)).toNat < 64 := by omega
    rw [if_pos h, if_pos h2]
    simp only [toOpt_ok]
    congr 1
    omega
  · have h2 : ¬ (shift % (2 ^ 64 : Int)).toNat < 64 := by omega
    rw [if_neg h, if_neg h2]
    cases dbg with
    | true => rfl
    | false =>
      simp only [Bool.false_eq_true, if_false, toOpt_ok]
      congr 1
      omega

/-- **`Lpc::decode()`** = the hand model's `decodeSubframe` on an LPC sub-frame, panic outcomes included, in both profiles,
for every `i8` shift — EXCEPT at the point excluded by `hx` (see `C15G_lpc_decode_discrepancy`): dev profile, a shift
outside `0..64` (for an `i8`: negative), a warm-up that fills the whole block (no sample is predicted) and a residual
that decodes.  `hsz` (release profile only): `block_size + order <= usize::MAX + 1`. -/
theorem C15G_lpc_decode (dbg : Bool) (warm coefs : List Int) (shift : Int) (precision : Nat) (res : Residual) (bps : Nat)
    (hs : -128 ≤ shift ∧ shift < 128) (hsz : dbg = true ∨ res.blockSize + coefs.length ≤ 2 ^ 64)
    (hx : ¬ (dbg = true ∧ (shift < 0 ∨ 64 ≤ shift) ∧ warm.length = res.blockSize ∧
             (toOpt (Repo.residualSignal dbg res)).isSome = true)) :
    Lpc.decode dbg warm coefs shift precision res bps =
      toOpt (Repo.decodeSubframe dbg (.lpc warm coefs shift precision res bps)) := by
  unfold Lpc.decode Lpc.copy_signal Lpc.signal_len Residual.signal_len Repo.decodeSubframe
  simp only [bind_some_id]
  rw [decode_lpc_eq dbg warm coefs _ res _ (by simp) hsz, decodeLpc_toOpt, toOpt_shift dbg shift hs]
  cases he : toOpt (Repo.residualSignal dbg res) with
  | none => rfl
  | some e =>
    simp only [obind_some]
    have hel := residualSignal_length dbg res e he
    split
    · rfl
    · cases hk : shAmt dbg 64 (castU 64 shift) with
      | some k => rfl
      | none =>
        simp only [obind_none]
        rw [if_neg]
        intro hw
        apply hx
        unfold shAmt castU at hk
        have hd : dbg = true := by
          cases dbg with
          | true => rfl
          | false => simp only [Bool.false_eq_true, if_false] at hk; split at hk <;> cases hk
        refine ⟨hd, ?_, by omega, by rw [he]; rfl⟩
        split at hk
        · cases hk
        · omega

/-- **The one point where the hand model and the Rust source disagree** (dev profile): a shift outside `0..64`
(an `i8`: negative, which `QuantizedParameters::verify` rejects but `from_parts` / the parser's `i8` allow), a warm-up as
long as the block and a residual that decodes.  The Rust loop `for t in warm_up.len()..residual.signal_len()` is empty, so
`pred >> shift` is never evaluated and `decode()` returns the warm-up; the hand model checks the shift amount before the
loop and reports a panic. -/
theorem C15G_lpc_decode_discrepancy (warm coefs : List Int) (shift : Int) (precision : Nat) (res : Residual) (bps : Nat)
    (hs : -128 ≤ shift ∧ shift < 128) (hout : shift < 0 ∨ 64 ≤ shift) (hw : warm.length = res.blockSize)
    (e : List Int) (he : toOpt (Repo.residualSignal true res) = some e) :
    Lpc.decode true warm coefs shift precision res bps = some warm ∧
    toOpt (Repo.decodeSubframe true (.lpc warm coefs shift precision res bps)) = none := by
  have hel := residualSignal_length true res e he
  have hk : shAmt true 64 (castU 64 shift) = none := by
    unfold shAmt castU
    rw [if_neg (by omega)]; rfl
  constructor
  · unfold Lpc.decode Lpc.copy_signal Lpc.signal_len Residual.signal_len
    simp only [bind_some_id]
    rw [decode_lpc_eq true warm coefs _ res _ (by simp) (Or.inl rfl), he, obind_some, if_neg (by omega), hk]
    simp only []
    rw [if_pos (by omega)]
  · unfold Repo.decodeSubframe
    rw [decodeLpc_toOpt, he, obind_some, if_neg (by omega), toOpt_shift true shift hs, hk]
    rfl

/-! ### `SubFrame` -/

/-- Hypotheses of the sub-frame theorem: domains of the Rust types, and the excluded point of `C15G_lpc_decode`. -/
def SubDom (dbg : Bool) : SubFrame → Prop
  | .constant _ _ _ => True
  | .verbatim _ _ => True
  | .fixed _ res _ => dbg = true ∨ res.blockSize + 4 ≤ 2 ^ 64
  | .lpc warm coefs shift _ res _ =>
      (-128 ≤ shift ∧ shift < 128) ∧ (dbg = true ∨ res.blockSize + coefs.length ≤ 2 ^ 64) ∧
      ¬ (dbg = true ∧ (shift < 0 ∨ 64 ≤ shift) ∧ warm.length = res.blockSize ∧
         (toOpt (Repo.residualSignal dbg res)).isSome = true)

/-- **`SubFrame::decode()`** (dispatch + the default method of the trait) = the hand model's `decodeSubframe`. -/
theorem C15G_subframe_decode (dbg : Bool) (s : SubFrame) (h : SubDom dbg s) :
    SubFrame.decode dbg s = toOpt (Repo.decodeSubframe dbg s) := by
  cases s with
  | constant n dc bps =>
    rw [← C15G_constant_decode]
    simp only [SubFrame.decode, SubFrame.signal_len, SubFrame.copy_signal, Constant.decode, bind_some_id]
  | verbatim xs bps =>
    rw [← C15G_verbatim_decode]
    simp only [SubFrame.decode, SubFrame.signal_len, SubFrame.copy_signal, Verbatim.decode, bind_some_id]
  | fixed warm res bps =>
    rw [← C15G_fixed_decode dbg warm res bps h]
    simp only [SubFrame.decode, SubFrame.signal_len, SubFrame.copy_signal, FixedLpc.decode, bind_some_id]
  | lpc warm coefs shift precision res bps =>
    rw [← C15G_lpc_decode dbg warm coefs shift precision res bps h.1 h.2.1 h.2.2]
    simp only [SubFrame.decode, SubFrame.signal_len, SubFrame.copy_signal, Lpc.decode, bind_some_id]

/-! ### `Frame` -/

theorem toOpt_mapM_loop {α β : Type} (f : α → Repo.DResult β) : ∀ (l : List α) (acc : List β),
    toOpt (List.mapM.loop f l acc) = (mapO (fun x => toOpt (f x)) l).bind fun ys => some (acc.reverse ++ ys) := by
  intro l
  induction l with
  | nil => intro acc; simp [List.mapM.loop, mapO]
  | cons x xs ih =>
    intro acc
    simp only [List.mapM.loop, mapO, toOpt_bind, ih]
    cases toOpt (f x) with
    | none => rfl
    | some y =>
      simp only [obind_some]
      cases mapO (fun x => toOpt (f x)) xs with
      | none => rfl
      | some ys => simp

theorem toOpt_mapM {α β : Type} (f : α → Repo.DResult β) (l : List α) :
    toOpt (l.mapM f) = mapO (fun x => toOpt (f x)) l := by
  unfold List.mapM
  rw [toOpt_mapM_loop]
  simp

/-- `for sf in subframes { channels.push(sf.decode()) }` -/
theorem loopM_push {α β : Type} (g : α → Option β) : ∀ (xs : List α) (acc : List β),
    loopM xs acc (fun x c => (g x).bind fun v => some (c ++ [v])) = (mapO g xs).bind fun ys => some (acc ++ ys) := by
  intro xs
  induction xs with
  | nil => intro acc; simp [loopM_nil, mapO]
  | cons x xs ih =>
    intro acc
    rw [loopM_cons]
    simp only [mapO]
    cases g x with
    | none => rfl
    | some y =>
      simp only [obind_some]
      rw [ih]
      cases mapO g xs with
      | none => rfl
      | some ys => simp

theorem mapO_congr {α β : Type} (g g' : α → Option β) : ∀ (l : List α), (∀ x ∈ l, g x = g' x) → mapO g l = mapO g' l := by
  intro l
  induction l with
  | nil => intro _; rfl
  | cons x xs ih =>
    intro h
    simp only [mapO]
    rw [h x (by simp), ih (fun y hy => h y (by simp [hy]))]

/-- `FrameHeader::block_size()` (generated, through part `headers`) against the hand model's `headerBlockSize`:
the same value when the hand model returns one, `none` when it panics; it never reports a parse error. -/
theorem block_size_eq (dbg : Bool) (g : Gen.Writer.FrameHeader) :
    match Repo.headerBlockSize (C08Gen.hdrOfGen g) with
    | .ok n => FrameHeader.block_size dbg g = some n
    | .error _ => False
    | .panic _ => FrameHeader.block_size dbg g = none := by
  unfold FrameHeader.block_size hdrVal expect
  simp only [bind_some_id]
  have h := C02Hdr.C02H_headerBlockSize (C08Gen.hdrOfGen g)
  have hb : C02Hdr.bsToGen (C08Gen.hdrOfGen g).blockSizeSpec = g.block_size_spec := by
    simp [C08Gen.hdrOfGen, C02Hdr.bsToGen_ofGen]
  rw [hb] at h
  cases hex : Gen.Headers.BlockSizeSpec.block_size_exact g.block_size_spec with
  | true =>
    have h1 := h.1 hex
    rw [if_pos rfl, obind_some]
    cases hv : Gen.Headers.BlockSizeSpec.block_size g.block_size_spec with
    | some n => rw [hv] at h1; simp only [] at h1; rw [h1]
    | none =>
      rw [hv] at h1; simp only [] at h1
      cases hh : Repo.headerBlockSize (C08Gen.hdrOfGen g) with
      | ok n => rw [hh] at h1; cases h1
      | error b => rw [hh] at h1; cases h1
      | panic s => rfl
  | false =>
    have h2 := h.2 hex
    rw [if_neg (by simp)]
    cases hh : Repo.headerBlockSize (C08Gen.hdrOfGen g) with
    | ok n => rw [hh] at h2; cases h2
    | error b => rw [hh] at h2; cases h2
    | panic s => rfl

/-! #### stereo decorrelation -/

theorem andS_one (s : Int) : andS 32 s 1 = s % 2 := by
  unfold andS castU
  have h1 : ((1 : Int) % (2 ^ 32 : Int)).toNat = 1 := by decide
  rw [h1, Nat.and_one_is_mod]
  unfold wrapS
  simp only []
  split <;> omega

theorem shlS_one (x : Int) : shlS 32 x 1 = Repo.asSigned 32 (2 * x) := by
  unfold shlS
  rw [show (2 ^ 1 : Int) = 2 by decide, Int.mul_comm]
  rfl

theorem shrS_one (x : Int) : shrS x 1 = x / 2 := by
  unfold shrS
  rw [show (2 ^ 1 : Int) = 2 by decide]

theorem getElem?_mid {α : Type} (p c : List α) : (p ++ c)[p.length]? = c[0]? := by
  rw [List.getElem?_append_right (Nat.le_refl _), Nat.sub_self]

theorem setAt_mid {α : Type} (p : List α) (x : α) (t : List α) (v : α) :
    setAt (p ++ x :: t) p.length v = some (p ++ v :: t) := by
  rw [setAt_eq _ _ _ (by simp)]
  congr 1
  rw [List.take_left' rfl, show p.length + 1 = (p ++ [x]).length by simp,
    show p ++ x :: t = (p ++ [x]) ++ t by simp, List.drop_left' rfl]

/-- generated body of the `LeftSide` loop -/
def leftBody (dbg : Bool) (t : Nat) (channels : List (List Int)) : Option (List (List Int)) :=
  (channels[0]?).bind fun v5 => (v5[t]?).bind fun v6 => (channels[1]?).bind fun v7 => (v7[t]?).bind fun v8 =>
  (arithS dbg 32 (v6 - v8)).bind fun v9 => (channels[1]?).bind fun v10 => (setAt v10 t v9).bind fun v11 =>
  setAt channels 1 v11

/-- generated body of the `RightSide` loop -/
def rightBody (dbg : Bool) (t : Nat) (channels : List (List Int)) : Option (List (List Int)) :=
  (channels[0]?).bind fun v13 => (v13[t]?).bind fun v14 => (channels[1]?).bind fun v15 => (v15[t]?).bind fun v16 =>
  (arithS dbg 32 (v14 + v16)).bind fun v17 => (channels[0]?).bind fun v18 => (setAt v18 t v17).bind fun v19 =>
  setAt channels 0 v19

/-- generated body of the `MidSide` loop -/
def midBody (dbg : Bool) (t : Nat) (channels : List (List Int)) : Option (List (List Int)) :=
  (channels[1]?).bind fun v21 => (v21[t]?).bind fun s => (channels[0]?).bind fun v22 => (v22[t]?).bind fun v23 =>
  (arithS dbg 32 ((shlS 32 v23 1) + (andS 32 s (1 : Int)))).bind fun m =>
  (arithS dbg 32 (m + s)).bind fun v24 => (channels[0]?).bind fun v25 => (setAt v25 t (shrS v24 1)).bind fun v26 =>
  (setAt channels 0 v26).bind fun channels =>
  (arithS dbg 32 (m - s)).bind fun v27 => (channels[1]?).bind fun v28 => (setAt v28 t (shrS v27 1)).bind fun v29 =>
  setAt channels 1 v29

theorem leftBody_def (dbg : Bool) (t : Nat) (channels : List (List Int)) : leftBody dbg t channels =
  (channels[0]?).bind fun v5 => (v5[t]?).bind fun v6 => (channels[1]?).bind fun v7 => (v7[t]?).bind fun v8 =>
  (arithS dbg 32 (v6 - v8)).bind fun v9 => (channels[1]?).bind fun v10 => (setAt v10 t v9).bind fun v11 =>
  setAt channels 1 v11 := rfl

theorem rightBody_def (dbg : Bool) (t : Nat) (channels : List (List Int)) : rightBody dbg t channels =
  (channels[0]?).bind fun v13 => (v13[t]?).bind fun v14 => (channels[1]?).bind fun v15 => (v15[t]?).bind fun v16 =>
  (arithS dbg 32 (v14 + v16)).bind fun v17 => (channels[0]?).bind fun v18 => (setAt v18 t v17).bind fun v19 =>
  setAt channels 0 v19 := rfl

theorem midBody_def (dbg : Bool) (t : Nat) (channels : List (List Int)) : midBody dbg t channels =
  (channels[1]?).bind fun v21 => (v21[t]?).bind fun s => (channels[0]?).bind fun v22 => (v22[t]?).bind fun v23 =>
  (arithS dbg 32 ((shlS 32 v23 1) + (andS 32 s (1 : Int)))).bind fun m =>
  (arithS dbg 32 (m + s)).bind fun v24 => (channels[0]?).bind fun v25 => (setAt v25 t (shrS v24 1)).bind fun v26 =>
  (setAt channels 0 v26).bind fun channels =>
  (arithS dbg 32 (m - s)).bind fun v27 => (channels[1]?).bind fun v28 => (setAt v28 t (shrS v27 1)).bind fun v29 =>
  setAt channels 1 v29 := rfl

theorem setAt_zero {α : Type} (a b : α) (l : List α) : setAt (a :: l) 0 b = some (b :: l) := by
  unfold setAt; rw [if_pos (by simp)]; rfl

theorem setAt_one {α : Type} (a a' b : α) (l : List α) : setAt (a :: a' :: l) 1 b = some (a :: b :: l) := by
  unfold setAt; rw [if_pos (by simp)]; rfl

theorem loop_left (dbg : Bool) (rest : List (List Int)) : ∀ (n : Nat) (p0 p1 c0 c1 : List Int), p0.length = p1.length →
    loopM (List.range' p0.length n) ((p0 ++ c0) :: (p1 ++ c1) :: rest) (leftBody dbg) =
      (toOpt (Repo.decorrelate dbg .leftSide n c0 c1)).bind fun r => some ((p0 ++ r.1) :: (p1 ++ r.2) :: rest) := by
  intro n
  induction n with
  | zero => intro p0 p1 c0 c1 _; simp only [List.range'_zero, loopM_nil, Repo.decorrelate, toOpt_ok, obind_some]
  | succ n ih =>
    intro p0 p1 c0 c1 hl
    rw [List.range'_succ, loopM_cons, leftBody_def]
    simp only [List.getElem?_cons_zero, List.getElem?_cons_succ, obind_some]
    rw [getElem?_mid, hl, getElem?_mid]
    cases c0 with
    | nil => simp only [Repo.decorrelate]; rfl
    | cons x0 t0 =>
      cases c1 with
      | nil => simp only [Repo.decorrelate]; rfl
      | cons x1 t1 =>
        simp only [List.getElem?_cons_zero, obind_some, Repo.decorrelate, toOpt_bind, Repo.DResult.pure_eq, toOpt_ok]
        rw [← arithS32_eq dbg "Frame::copy_signal: channels[0][t] - channels[1][t]"]
        cases toOpt (Repo.i32op dbg "Frame::copy_signal: channels[0][t] - channels[1][t]" (x0 - x1)) with
        | none => rfl
        | some d =>
          simp only [obind_some]
          rw [setAt_mid, obind_some, setAt_one, obind_some]
          have := ih (p0 ++ [x0]) (p1 ++ [d]) t0 t1 (by simp [hl])
          simp only [List.length_append, List.length_cons, List.length_nil, List.append_assoc, List.cons_append,
            List.nil_append, Nat.zero_add] at this
          rw [← hl, this]
          cases toOpt (Repo.decorrelate dbg ChannelAssignment.leftSide n t0 t1) with
          | none => rfl
          | some r => rfl

theorem loop_right (dbg : Bool) (rest : List (List Int)) : ∀ (n : Nat) (p0 p1 c0 c1 : List Int), p0.length = p1.length →
    loopM (List.range' p0.length n) ((p0 ++ c0) :: (p1 ++ c1) :: rest) (rightBody dbg) =
      (toOpt (Repo.decorrelate dbg .rightSide n c0 c1)).bind fun r => some ((p0 ++ r.1) :: (p1 ++ r.2) :: rest) := by
  intro n
  induction n with
  | zero => intro p0 p1 c0 c1 _; simp only [List.range'_zero, loopM_nil, Repo.decorrelate, toOpt_ok, obind_some]
  | succ n ih =>
    intro p0 p1 c0 c1 hl
    rw [List.range'_succ, loopM_cons, rightBody_def]
    simp only [List.getElem?_cons_zero, List.getElem?_cons_succ, obind_some]
    rw [getElem?_mid, hl, getElem?_mid]
    cases c0 with
    | nil => simp only [Repo.decorrelate]; rfl
    | cons x0 t0 =>
      cases c1 with
      | nil => simp only [Repo.decorrelate]; rfl
      | cons x1 t1 =>
        simp only [List.getElem?_cons_zero, obind_some, Repo.decorrelate, toOpt_bind, Repo.DResult.pure_eq, toOpt_ok]
        rw [← arithS32_eq dbg "Frame::copy_signal: channels[0][t] += channels[1][t]"]
        cases toOpt (Repo.i32op dbg "Frame::copy_signal: channels[0][t] += channels[1][t]" (x0 + x1)) with
        | none => rfl
        | some d =>
          simp only [obind_some]
          rw [← hl, setAt_mid, obind_some, setAt_zero, obind_some]
          have := ih (p0 ++ [d]) (p1 ++ [x1]) t0 t1 (by simp [hl])
          simp only [List.length_append, List.length_cons, List.length_nil, List.append_assoc, List.cons_append,
            List.nil_append, Nat.zero_add] at this
          rw [this]
          cases toOpt (Repo.decorrelate dbg ChannelAssignment.rightSide n t0 t1) with
          | none => rfl
          | some r => rfl

theorem loop_mid (dbg : Bool) (rest : List (List Int)) : ∀ (n : Nat) (p0 p1 c0 c1 : List Int), p0.length = p1.length →
    loopM (List.range' p0.length n) ((p0 ++ c0) :: (p1 ++ c1) :: rest) (midBody dbg) =
      (toOpt (Repo.decorrelate dbg .midSide n c0 c1)).bind fun r => some ((p0 ++ r.1) :: (p1 ++ r.2) :: rest) := by
  intro n
  induction n with
  | zero => intro p0 p1 c0 c1 _; simp only [List.range'_zero, loopM_nil, Repo.decorrelate, toOpt_ok, obind_some]
  | succ n ih =>
    intro p0 p1 c0 c1 hl
    rw [List.range'_succ, loopM_cons, midBody_def]
    simp only [List.getElem?_cons_zero, List.getElem?_cons_succ, obind_some]
    rw [hl, getElem?_mid, ← hl, getElem?_mid]
    cases c1 with
    | nil => cases c0 <;> (simp only [Repo.decorrelate]; rfl)
    | cons x1 t1 =>
      cases c0 with
      | nil => simp only [Repo.decorrelate]; rfl
      | cons x0 t0 =>
        simp only [List.getElem?_cons_zero, obind_some, Repo.decorrelate, toOpt_bind, Repo.DResult.pure_eq, toOpt_ok,
          shlS_one, andS_one, shrS_one]
        rw [← arithS32_eq dbg "Frame::copy_signal: (mid << 1) + (s & 1)"]
        cases toOpt (Repo.i32op dbg "Frame::copy_signal: (mid << 1) + (s & 1)" (Repo.asSigned 32 (2 * x0) + x1 % 2)) with
        | none => rfl
        | some m =>
          simp only [obind_some]
          rw [← arithS32_eq dbg "Frame::copy_signal: m + s", ← arithS32_eq dbg "Frame::copy_signal: m - s"]
          cases toOpt (Repo.i32op dbg "Frame::copy_signal: m + s" (m + x1)) with
          | none => rfl
          | some a0 =>
            simp only [obind_some]
            rw [setAt_mid, obind_some, setAt_zero, obind_some]
            cases toOpt (Repo.i32op dbg "Frame::copy_signal: m - s" (m - x1)) with
            | none => rfl
            | some a1 =>
              simp only [obind_some, List.getElem?_cons_succ, List.getElem?_cons_zero]
              rw [hl, setAt_mid, obind_some, setAt_one, obind_some]
              have := ih (p0 ++ [a0 / 2]) (p1 ++ [a1 / 2]) t0 t1 (by simp [hl])
              simp only [List.length_append, List.length_cons, List.length_nil, List.append_assoc, List.cons_append,
                List.nil_append, Nat.zero_add] at this
              rw [← hl, this]
              cases toOpt (Repo.decorrelate dbg ChannelAssignment.midSide n t0 t1) with
              | none => rfl
              | some r => rfl

/-! #### interleaving -/

/-- generated body of the inner interleaving loop (`dest[t * channel_count + ch] = *x`) -/
def ilvInner (dbg : Bool) (cc ch : Nat) (p : Nat × Int) (dest : List Int) : Option (List Int) :=
  (mulU dbg 64 p.1 cc).bind fun v30 => (addU dbg 64 v30 ch).bind fun v31 => setAt dest v31 p.2

theorem ilvInner_def (dbg : Bool) (cc ch t : Nat) (x : Int) (dest : List Int) : ilvInner dbg cc ch (t, x) dest =
    (mulU dbg 64 t cc).bind fun v30 => (addU dbg 64 v30 ch).bind fun v31 => setAt dest v31 x := rfl

theorem ilv_index (dbg : Bool) (cc k j : Nat) (x : Int) (d : List Int) (h : j * cc + k < 2 ^ 64) :
    ilvInner dbg cc k (j, x) d = setAt d (j * cc + k) x := by
  rw [ilvInner_def]
  unfold mulU addU
  rw [if_pos (by omega), obind_some, if_pos h, obind_some]

/-- Writing one channel `sig` into column `k` of the row-major buffer, rows `j ..` (`P` = the rows before `j`). -/
theorem colWrite (dbg : Bool) (cc k : Nat) : ∀ (n j : Nat) (sig P : List Int) (A B : List (List Int)),
    P.length = j * cc → cc = A.length + 1 + B.length → k = A.length → (j + n + 1) * cc ≤ 2 ^ 64 →
    loopM (enumFrom j sig) (P ++ Repo.interleaveLoop n (A ++ [] :: B)) (ilvInner dbg cc k) =
      if sig.length ≤ n then some (P ++ Repo.interleaveLoop n (A ++ sig :: B)) else none := by
  intro n
  induction n with
  | zero =>
    intro j sig P A B hP hcc hk hb
    simp only [Repo.interleaveLoop, List.append_nil]
    cases sig with
    | nil => rw [enumFrom_nil, loopM_nil]; rfl
    | cons x xs =>
      have h1 : (j + 1) * cc = j * cc + cc := Nat.succ_mul j cc
      have hb' : (j + 1) * cc ≤ 2 ^ 64 := by simpa using hb
      rw [enumFrom_cons, loopM_cons, ilv_index dbg cc k j x P (by omega), setAt_none _ _ _ (by omega)]
      rw [if_neg (by simp)]
      rfl
  | succ n ih =>
    intro j sig P A B hP hcc hk hb
    cases sig with
    | nil =>
      rw [enumFrom_nil, loopM_nil, if_pos (by simp)]
    | cons x xs =>
      have h1 : (j + 1) * cc = j * cc + cc := Nat.succ_mul j cc
      have h2 : (j + 1) * cc ≤ (j + (n + 1) + 1) * cc := Nat.mul_le_mul_right _ (by omega)
      rw [enumFrom_cons, loopM_cons, ilv_index dbg cc k j x _ (by omega)]
      simp only [Repo.interleaveLoop, List.map_append, List.map_cons, List.tail_nil, List.headD_nil, List.headD_cons,
        List.tail_cons]
      have hlen : (P ++ List.map (fun c => c.headD 0) A).length = j * cc + k := by simp [hP, hk]
      have hsplit : P ++ (List.map (fun c => c.headD 0) A ++ 0 :: List.map (fun c => c.headD 0) B ++
            Repo.interleaveLoop n (List.map List.tail A ++ [] :: List.map List.tail B)) =
          (P ++ List.map (fun c => c.headD 0) A) ++ 0 :: (List.map (fun c => c.headD 0) B ++
            Repo.interleaveLoop n (List.map List.tail A ++ [] :: List.map List.tail B)) := by simp
      rw [hsplit, ← hlen, setAt_mid, obind_some]
      have := ih (j + 1) xs (P ++ List.map (fun c => c.headD 0) A ++ x :: List.map (fun c => c.headD 0) B)
        (List.map List.tail A) (List.map List.tail B) (by simp [hP]; omega) (by simp; omega) (by simp; omega)
        (by rw [show j + 1 + n + 1 = j + (n + 1) + 1 by omega]; exact hb)
      simp only [List.append_assoc, List.cons_append] at this ⊢
      rw [this]
      by_cases hx : xs.length ≤ n
      · rw [if_pos hx, if_pos (by simp; omega)]
      · rw [if_neg hx, if_neg (by simp; omega)]

theorem ilv_outer (dbg : Bool) (bs cc : Nat) (hb : (bs + 1) * cc ≤ 2 ^ 64) : ∀ (rest A : List (List Int)),
    cc = A.length + rest.length →
    loopM (enumFrom A.length rest) (Repo.interleaveLoop bs (A ++ rest.map fun _ => []))
        (fun (p : Nat × List Int) d => loopM (enumFrom 0 p.2) d (ilvInner dbg cc p.1)) =
      if rest.all (fun c => decide (c.length ≤ bs)) = true then some (Repo.interleaveLoop bs (A ++ rest)) else none := by
  intro rest
  induction rest with
  | nil => intro A _; rw [enumFrom_nil, loopM_nil]; rfl
  | cons sig rest ih =>
    intro A hcc
    rw [enumFrom_cons, loopM_cons]
    simp only [List.map_cons]
    have := colWrite dbg cc A.length bs 0 sig [] A (rest.map fun _ => []) (by simp) (by simp at hcc ⊢; omega) rfl
      (by rw [Nat.zero_add]; exact hb)
    simp only [List.nil_append] at this
    rw [this]
    by_cases hs : sig.length ≤ bs
    · rw [if_pos hs, obind_some]
      have h2 := ih (A ++ [sig]) (by simp at hcc ⊢; omega)
      simp only [List.length_append, List.length_cons, List.length_nil, List.append_assoc, List.cons_append,
        List.nil_append, Nat.zero_add] at h2
      rw [h2]
      simp only [List.all_cons, hs, decide_true, Bool.true_and]
    · rw [if_neg hs, if_neg (by simp only [List.all_cons, hs, decide_false, Bool.false_and]; simp)]
      rfl

theorem interleaveLoop_zeros (cc : Nat) : ∀ (n : Nat) (l : List (List Int)), l.length = cc →
    Repo.interleaveLoop n (l.map fun _ => []) = List.replicate (n * cc) 0 := by
  intro n
  induction n with
  | zero => intro l _; simp [Repo.interleaveLoop]
  | succ n ih =>
    intro l hl
    simp only [Repo.interleaveLoop, List.map_map]
    have h1 : (List.map ((fun c => c.headD 0) ∘ fun (_ : List Int) => ([] : List Int)) l) = List.replicate cc 0 := by
      rw [← hl]
      clear hl ih
      induction l with
      | nil => rfl
      | cons a l ih => rw [List.map_cons, ih]; rfl
    have h2 : (List.map (List.tail ∘ fun (_ : List Int) => ([] : List Int)) l) = l.map fun _ => [] := by
      apply List.map_congr_left
      intro a _
      rfl
    rw [h1, h2, ih l hl, Nat.succ_mul, Nat.add_comm (n * cc) cc, List.replicate_append_replicate]

/-- The two interleaving loops on a zeroed buffer of `block_size * channels` entries against the hand model's `interleave`. -/
theorem ilv_eq (dbg : Bool) (bs : Nat) (chans : List (List Int)) (hb : (bs + 1) * chans.length ≤ 2 ^ 64) :
    loopM (enumFrom 0 chans) (List.replicate (bs * chans.length) 0)
        (fun (p : Nat × List Int) d => loopM (enumFrom 0 p.2) d (ilvInner dbg chans.length p.1)) =
      toOpt (Repo.interleave bs chans) := by
  have := ilv_outer dbg bs chans.length hb chans [] (by simp)
  simp only [List.nil_append, List.length_nil] at this
  rw [interleaveLoop_zeros chans.length bs chans rfl] at this
  rw [this]
  unfold Repo.interleave
  by_cases h : chans.all (fun c => decide (c.length ≤ bs)) = true
  · rw [if_pos h, if_neg]
    · rfl
    · simp only [List.all_eq_true, decide_eq_true_eq] at h
      simp only [List.any_eq_true, decide_eq_true_eq, not_exists, not_and]
      intro c hc; have := h c hc; omega
  · rw [if_neg h, if_pos]
    · rfl
    · simp only [List.all_eq_true, decide_eq_true_eq] at h
      simp only [List.any_eq_true, decide_eq_true_eq]
      have h' : ∃ c, c ∈ chans ∧ ¬ c.length ≤ bs := by
        apply Classical.byContradiction
        intro hn
        apply h
        intro c hc
        apply Classical.byContradiction
        intro hc2
        exact hn ⟨c, hc, hc2⟩
      obtain ⟨c, hc, hc2⟩ := h'
      exact ⟨c, hc, by omega⟩

/-- Hypotheses of the frame theorem: `SubDom` for every sub-frame, and `(block_size + 1) * channels <= 2^64`. -/
def FrameDom (dbg : Bool) (g : Gen.Writer.Frame) : Prop :=
  (∀ s ∈ g.subframes, SubDom dbg s) ∧
  (∀ bs, FrameHeader.block_size dbg g.header = some bs → (bs + 1) * g.subframes.length ≤ 2 ^ 64)

theorem stereo_gen (dbg : Bool) (a : ChannelAssignment) (body : Nat → List (List Int) → Option (List (List Int)))
    (H : ∀ (rest : List (List Int)) (n : Nat) (p0 p1 c0 c1 : List Int), p0.length = p1.length →
      loopM (List.range' p0.length n) ((p0 ++ c0) :: (p1 ++ c1) :: rest) body =
        (toOpt (Repo.decorrelate dbg a n c0 c1)).bind fun r => some ((p0 ++ r.1) :: (p1 ++ r.2) :: rest))
    (Hs : ∀ t chans, chans.length < 2 → body t chans = none) (bs : Nat) (chans : List (List Int)) :
    loopM (rangeL 0 bs) chans body =
      match chans with
      | c0 :: c1 :: rest => (toOpt (Repo.decorrelate dbg a bs c0 c1)).bind fun r => some (r.1 :: r.2 :: rest)
      | _ => if bs = 0 then some chans else none := by
  rw [rangeL_zero]
  match chans with
  | c0 :: c1 :: rest =>
    have := H rest bs [] [] c0 c1 rfl
    simp only [List.nil_append, List.length_nil] at this
    exact this
  | [c] =>
    simp only []
    cases bs with
    | zero => rfl
    | succ n => rw [List.range'_succ, loopM_cons, Hs 0 [c] (by simp), if_neg (by omega)]; rfl
  | [] =>
    simp only []
    cases bs with
    | zero => rfl
    | succ n => rw [List.range'_succ, loopM_cons, Hs 0 [] (by simp), if_neg (by omega)]; rfl

theorem leftBody_short (dbg : Bool) (t : Nat) (chans : List (List Int)) (h : chans.length < 2) : leftBody dbg t chans = none := by
  rw [leftBody_def]
  match chans with
  | [] => rfl
  | [c] => simp only [List.getElem?_cons_zero, obind_some]; cases c[t]? <;> rfl
  | _ :: _ :: _ => simp at h; omega

theorem rightBody_short (dbg : Bool) (t : Nat) (chans : List (List Int)) (h : chans.length < 2) : rightBody dbg t chans = none := by
  rw [rightBody_def]
  match chans with
  | [] => rfl
  | [c] => simp only [List.getElem?_cons_zero, obind_some]; cases c[t]? <;> rfl
  | _ :: _ :: _ => simp at h; omega

theorem midBody_short (dbg : Bool) (t : Nat) (chans : List (List Int)) (h : chans.length < 2) : midBody dbg t chans = none := by
  rw [midBody_def]
  match chans with
  | [] => rfl
  | [c] => rfl
  | _ :: _ :: _ => simp at h; omega

theorem stereo_length (dbg : Bool) (a : ChannelAssignment) (bs : Nat) (chans out : List (List Int))
    (h : (match chans with
      | c0 :: c1 :: rest => (toOpt (Repo.decorrelate dbg a bs c0 c1)).bind fun r => some (r.1 :: r.2 :: rest)
      | _ => if bs = 0 then some chans else none) = some out) : out.length = chans.length := by
  match chans with
  | c0 :: c1 :: rest =>
    simp only [] at h
    cases hd : toOpt (Repo.decorrelate dbg a bs c0 c1) with
    | none => rw [hd] at h; cases h
    | some r => rw [hd, obind_some] at h; injection h with h; subst h; simp
  | [c] =>
    simp only [] at h
    split at h
    · injection h with h; subst h; rfl
    · cases h
  | [] =>
    simp only [] at h
    split at h
    · injection h with h; subst h; rfl
    · cases h

theorem final_stage (dbg : Bool) (bs n : Nat) (out : Option (List (List Int)))
    (hlen : ∀ o, out = some o → o.length = n) (hb : (bs + 1) * n ≤ 2 ^ 64) :
    (out.bind fun channels =>
      loopM (enumFrom 0 channels) (List.replicate (bs * n) 0) fun x dest =>
        loopM (enumFrom 0 x.snd) dest fun x_1 dest =>
          (mulU dbg 64 x_1.fst channels.length).bind fun v30 =>
            (addU dbg 64 v30 x.fst).bind fun v31 => setAt dest v31 x_1.snd) =
    out.bind fun c => toOpt (Repo.interleave bs c) := by
  cases out with
  | none => rfl
  | some o =>
    have hl := hlen o rfl
    subst hl
    rw [obind_some, obind_some]
    exact ilv_eq dbg bs o hb

/-- **`Frame::decode()`** (block size from the header, every sub-frame, stereo un-mixing, interleaving; the default method
of the trait) = the hand model's `decodeFrameMode` on the hand-model image of the frame, panic outcomes included, in both
profiles. -/
theorem C15G_frame_decode (dbg : Bool) (g : Gen.Writer.Frame) (h : FrameDom dbg g) :
    Frame.decode dbg g = toOpt (Repo.decodeFrameMode dbg (C08Gen.frameOfGen g)) := by
  unfold Frame.decode Frame.signal_len Frame.block_size Frame.subframe_count Repo.decodeFrameMode
  simp only [bind_some_id, toOpt_bind, C08Gen.frameOfGen, toOpt_mapM]
  have hbq := block_size_eq dbg g.header
  cases hh : Repo.headerBlockSize (C08Gen.hdrOfGen g.header) with
  | error b => rw [hh] at hbq; exact hbq.elim
  | panic s => rw [hh] at hbq; simp only [] at hbq ⊢; rw [hbq]; rfl
  | ok bs =>
    rw [hh] at hbq
    simp only [] at hbq ⊢
    have hbs := hbq
    rw [hbs]
    have hb := h.2 bs hbs
    have hmul : bs * g.subframes.length < 2 ^ 64 := by
      have : (bs + 1) * g.subframes.length = bs * g.subframes.length + g.subframes.length := by
        rw [Nat.add_mul, Nat.one_mul]
      have hpos : 0 < g.subframes.length ∨ g.subframes.length = 0 := by omega
      cases hpos with
      | inl hp => omega
      | inr hz => rw [hz, Nat.mul_zero]; decide
    have hm : mulU dbg 64 bs g.subframes.length = some (bs * g.subframes.length) := by
      unfold mulU; rw [if_pos hmul]
    simp only [obind_some, hm]
    unfold Frame.copy_signal Frame.signal_len Frame.block_size Frame.subframe_count enumerate
    simp only [bind_some_id, hbs, obind_some, hm]
    rw [req_true _ (by simp), obind_some]
    have hpush := loopM_push (SubFrame.decode dbg) g.subframes []
    simp only [List.nil_append, bind_some_id] at hpush
    rw [hpush, mapO_congr _ _ g.subframes (fun s hs => C15G_subframe_decode dbg s (h.1 s hs))]
    cases hch : mapO (fun x => toOpt (Repo.decodeSubframe dbg x)) g.subframes with
    | none => rfl
    | some chans =>
      have hlen := mapO_length _ _ _ hch
      simp only [obind_some, toOpt_ok]
      cases hca : g.header.channel_assignment with
      | Independent n =>
        simp only [C08Gen.hdrOfGen, C02Hdr.caOfGen, hca, toOpt_ok]
        exact final_stage dbg bs g.subframes.length (some chans) (fun o ho => by injection ho with ho; subst ho; exact hlen) hb
      | LeftSide =>
        simp only [C08Gen.hdrOfGen, C02Hdr.caOfGen, hca]
        change ((loopM (rangeL 0 bs) chans (leftBody dbg)).bind _) = _
        rw [stereo_gen dbg .leftSide (leftBody dbg) (loop_left dbg) (leftBody_short dbg) bs chans,
          final_stage dbg bs g.subframes.length _ (fun o ho => by rw [stereo_length dbg _ bs chans o ho]; exact hlen) hb]
        congr 1
        clear hch hlen
        cases chans with
        | nil => simp only []; split <;> rfl
        | cons c0 t =>
          cases t with
          | nil => simp only []; split <;> rfl
          | cons c1 rest => simp only [toOpt_bind, Repo.DResult.pure_eq, toOpt_ok]
      | RightSide =>
        simp only [C08Gen.hdrOfGen, C02Hdr.caOfGen, hca]
        change ((loopM (rangeL 0 bs) chans (rightBody dbg)).bind _) = _
        rw [stereo_gen dbg .rightSide (rightBody dbg) (loop_right dbg) (rightBody_short dbg) bs chans,
          final_stage dbg bs g.subframes.length _ (fun o ho => by rw [stereo_length dbg _ bs chans o ho]; exact hlen) hb]
        congr 1
        clear hch hlen
        cases chans with
        | nil => simp only []; split <;> rfl
        | cons c0 t =>
          cases t with
          | nil => simp only []; split <;> rfl
          | cons c1 rest => simp only [toOpt_bind, Repo.DResult.pure_eq, toOpt_ok]
      | MidSide =>
        simp only [C08Gen.hdrOfGen, C02Hdr.caOfGen, hca]
        change ((loopM (rangeL 0 bs) chans (midBody dbg)).bind _) = _
        rw [stereo_gen dbg .midSide (midBody dbg) (loop_mid dbg) (midBody_short dbg) bs chans,
          final_stage dbg bs g.subframes.length _ (fun o ho => by rw [stereo_length dbg _ bs chans o ho]; exact hlen) hb]
        congr 1
        clear hch hlen
        cases chans with
        | nil => simp only []; split <;> rfl
        | cons c0 t =>
          cases t with
          | nil => simp only []; split <;> rfl
          | cons c1 rest => simp only [toOpt_bind, Repo.DResult.pure_eq, toOpt_ok]


/-- The decoder panics on a frame iff the hand model reports a panic site. -/
theorem C15G_frame_panic_iff (dbg : Bool) (g : Gen.Writer.Frame) (h : FrameDom dbg g) :
    Frame.decode dbg g = none ↔ (Repo.decodeFrameMode dbg (C08Gen.frameOfGen g)).isPanic = true := by
  rw [C15G_frame_decode dbg g h]
  cases Repo.decodeFrameMode dbg (C08Gen.frameOfGen g) <;> simp [Repo.DResult.isPanic]

/-- Frame after frame (`Repo.decodeAll`, what the harness compares with the original audio). -/
theorem C15G_decodeAll (dbg : Bool) : ∀ (gs : List Gen.Writer.Frame), (∀ g ∈ gs, FrameDom dbg g) →
    toOpt (Repo.decodeAll dbg (gs.map C08Gen.frameOfGen)) = (mapO (Frame.decode dbg) gs).bind fun xs => some xs.flatten := by
  intro gs
  induction gs with
  | nil => intro _; rfl
  | cons g gs ih =>
    intro h
    simp only [List.map_cons, Repo.decodeAll, toOpt_bind, mapO, Repo.DResult.pure_eq, toOpt_ok]
    rw [← C15G_frame_decode dbg g (h g (by simp)), ih (fun x hx => h x (by simp [hx]))]
    cases Frame.decode dbg g with
    | none => rfl
    | some a =>
      simp only [obind_some]
      cases mapO (Frame.decode dbg) gs with
      | none => rfl
      | some xs => simp

/-! ### examples (concrete values, evaluated by the kernel) -/

example : decode_signbit true 7 = some (-4) ∧ decode_signbit false 4294967295 = some (-2147483648) ∧
    decode_signbit true 4294967295 = none := by decide
example : toOpt (Repo.decodeSignbitD true 4294967295) = decode_signbit true 4294967295 :=
  C15G_decode_signbit true _ (by decide)
example : encode_signbit true (-3) = some 5 ∧ encode_signbit true (-2147483648) = none ∧
    encodeSignbit (-2147483648) = encode_signbit true (-2147483648) := ⟨by decide, by decide, C15G_encode_signbit _⟩

def exRes : Residual := ⟨1, 4, 1, [1, 0], [0, 1, 0, 2], [0, 1, 0, 0]⟩
example : Residual.decode true exRes = some [0, -2, 0, 1] := by decide
example : Residual.copy_signal true exRes [9, 9, 9, 9, 7, 7] = some [0, -2, 0, 1, 7, 7] := by decide
example : Residual.copy_signal true exRes [9, 9, 9, 9, 7, 7] =
    (toOpt (Repo.residualSignal true exRes)).map (· ++ [7, 7]) := C15G_residual_copy_signal true exRes _ (by decide)
/-- a Rice parameter of 40 (a `u8` the type allows): dev profile panics on `<< 40`, release shifts by `40 % 32` -/
example : Residual.decode true ⟨0, 2, 0, [40], [1, 0], [0, 1]⟩ = none ∧
    Residual.decode false ⟨0, 2, 0, [40], [1, 0], [0, 1]⟩ = some [128, -1] := by decide

example : Constant.decode true 3 (-5) 16 = some [-5, -5, -5] := by decide
example : Verbatim.decode false [1, -2, 3] 16 = some [1, -2, 3] := by decide
example : FixedLpc.decode true [10] exRes 16 = some [10, 8, 8, 9] := by decide
example : FixedLpc.decode true [10] exRes 16 = toOpt (Repo.decodeSubframe true (.fixed [10] exRes 16)) :=
  C15G_fixed_decode true [10] exRes 16 (Or.inl rfl)
example : Lpc.decode true [10] [3] 1 4 exRes 16 = some [10, 13, 19, 29] := by decide
example : Lpc.decode false [10] [3] 1 4 exRes 16 = toOpt (Repo.decodeSubframe false (.lpc [10] [3] 1 4 exRes 16)) :=
  C15G_lpc_decode false [10] [3] 1 4 exRes 16 (by decide) (Or.inr (by decide)) (by decide)
/-- the excluded point: shift `-1`, warm-up = whole block: Rust returns the warm-up, the hand model reports a panic -/
example : Lpc.decode true [5, 6, 7, 8] [1, 1, 1, 1] (-1) 4 exRes 16 = some [5, 6, 7, 8] ∧
    toOpt (Repo.decodeSubframe true (.lpc [5, 6, 7, 8] [1, 1, 1, 1] (-1) 4 exRes 16)) = none :=
  C15G_lpc_decode_discrepancy [5, 6, 7, 8] [1, 1, 1, 1] (-1) 4 exRes 16 (by decide) (Or.inl (by decide)) rfl
    [0, -2, 0, 1] (by decide)

def exFrame (ca : Gen.Headers.ChannelAssignment) : Gen.Writer.Frame :=
  ⟨⟨false, .ExtraByte 3, ca, .B16, .R44_1kHz, 0, 0⟩, [.verbatim [100, 101, 103, 106] 16, .fixed [10] exRes 17], none⟩
example : Frame.decode true (exFrame .LeftSide) = some [100, 90, 101, 93, 103, 95, 106, 97] := by decide
example : Frame.decode true (exFrame .MidSide) = some [105, 95, 105, 97, 107, 99, 111, 102] := by decide
example : SubFrame.decode true (.fixed [10] exRes 17) = toOpt (Repo.decodeSubframe true (.fixed [10] exRes 17)) :=
  C15G_subframe_decode true _ (Or.inl rfl)
theorem exFrameDom (dbg : Bool) (ca : Gen.Headers.ChannelAssignment) : FrameDom dbg (exFrame ca) := by
  constructor
  · intro s hs
    simp only [exFrame, List.mem_cons, List.not_mem_nil, or_false] at hs
    rcases hs with rfl | rfl
    · trivial
    · exact Or.inr (by decide)
  · intro bs hbs
    have : FrameHeader.block_size dbg (exFrame ca).header = some 4 := by cases dbg <;> rfl
    rw [this] at hbs
    injection hbs with hbs
    subst hbs
    show (4 + 1) * 2 ≤ 2 ^ 64
    decide
example : Frame.decode false (exFrame .RightSide) = toOpt (Repo.decodeFrameMode false (C08Gen.frameOfGen (exFrame .RightSide))) :=
  C15G_frame_decode false _ (exFrameDom false _)
example : toOpt (Repo.decodeAll true ([exFrame .LeftSide, exFrame (.Independent 2)].map C08Gen.frameOfGen)) =
    some [100, 90, 101, 93, 103, 95, 106, 97, 100, 10, 101, 8, 103, 8, 106, 9] := by
  rw [C15G_decodeAll true _ (fun g hg => by
    simp only [List.mem_cons, List.not_mem_nil, or_false] at hg
    rcases hg with rfl | rfl <;> exact exFrameDom true _)]
  decide
/-- a frame whose second channel is longer than the block: the interleaving index runs out of the buffer -/
def exFrameLong : Gen.Writer.Frame :=
  ⟨⟨false, .ExtraByte 1, .Independent 2, .B16, .R44_1kHz, 0, 0⟩, [.verbatim [1, 2] 16, .verbatim [3, 4, 5] 16], none⟩
example : Frame.decode false exFrameLong = none ∧
    (Repo.decodeFrameMode false (C08Gen.frameOfGen exFrameLong)).isPanic = true := by
  have h : FrameDom false exFrameLong := by
    constructor
    · intro s hs
      simp only [exFrameLong, List.mem_cons, List.not_mem_nil, or_false] at hs
      rcases hs with rfl | rfl <;> trivial
    · intro bs hbs
      have : FrameHeader.block_size false exFrameLong.header = some 2 := rfl
      rw [this] at hbs
      injection hbs with hbs
      subst hbs
      decide
  have h1 : Frame.decode false exFrameLong = none := by decide
  exact ⟨h1, (C15G_frame_panic_iff false _ h).1 h1⟩
example : Constant.decode true 3 (-5) 16 = toOpt (Repo.decodeSubframe true (.constant 3 (-5) 16)) :=
  C15G_constant_decode true 3 (-5) 16
example : Verbatim.decode false [1, -2, 3] 16 = toOpt (Repo.decodeSubframe false (.verbatim [1, -2, 3] 16)) :=
  C15G_verbatim_decode false [1, -2, 3] 16

end FlacVerif.C15Gen
