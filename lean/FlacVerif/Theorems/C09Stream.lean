/-
C09 at frame and stream level, in BITS WRITTEN — "no frame is larger than its verbatim encoding".

`C09_subframe` / `C09_frame` (Theorems/C09.lean) bound the sizes the sub-frames REPORT (`count_bits`).
Here: every sub-frame `encode_frame` returns is well-formed for EVERY oracle log satisfying `OEvent.Ok`
(no hypothesis on the LPC residual), so by C08 the
reported sizes are the written sizes, `Frame::write` / `Stream::write` succeed, and

* every emitted frame is at most as long as the frame with the same header fields and only verbatim
  sub-frames (`verbatimFrame`), whose length is `verbatimFrameBits` of the frame's own header;
* the emitted stream is at most `42` bytes (marker, STREAMINFO block) plus the sum of those frame bounds,
  with the EXACT header size of every frame (`frameHeaderBits`: 40 bits + UTF-8-like frame number +
  block-size and sample-rate immediates), hence also with the coarse header bound of 128 bits.

`frameHeaderBits`, `verbatimFrameBits`, `verbatimFrame` are defined in `Lemmas/ExtrasC09.lean`:
  frameHeaderBits n rate number = 40 + 8·utf8likeBytesize number + |block-size immediate| + |rate immediate|
  verbatimFrameBits hdr nch n bps = (hdr + nch·(8 + n·bps) + 7) / 8 · 8 + 16
Property theorems and non-vacuity examples only.
-/
import FlacVerif.Lemmas.ExtrasC09
namespace FlacVerif

/-- Every sub-frame `encode_subframe` returns is well-formed — for every oracle log satisfying
`OEvent.Ok` (`C01_subframe_strict'` proves this together with losslessness). -/
theorem C09_subframe_wf (cfg : SubCfg) (xs : List Int) (bps : Nat) (log log' : List OEvent) (s : SubFrame)
    (hn : 1 ≤ xs.length) (hlen : xs.length < 2 ^ 16) (hb : 1 ≤ bps ∧ bps ≤ 25)
    (hx : ∀ x ∈ xs, SubFrame.inRange bps x = true) (hmax : cfg.maxP ≤ 14)
    (hlog : ∀ e ∈ log, e.Ok)
    (h : encodeSubframe cfg xs bps log = some (s, log')) :
    s.WF ∧ ∃ c, s.count = some c ∧ c = s.bits.length ∧ c ≤ verbatimBits xs.length bps := by
  have hwf := Extras.subframe_wf cfg xs bps log log' s hn hlen hb hx hmax hlog h
  obtain ⟨c, hc, hle⟩ := C09.C09_subframe cfg xs bps log log' s hn h
  have := C08_subframe s hwf
  rw [hc] at this
  exact ⟨hwf, c, hc, by simpa using this, hle⟩

/-- **C09, frame, bits written.** For every configuration (`maxP ≤ 14`), 1 to 8 channels of
`1 ≤ n < 2^16` samples of width `1 ≤ bps ≤ 24`, every rate, every frame number below `2^36` and EVERY
oracle log satisfying `OEvent.Ok`: if `encode_frame` returns `f`, then `Frame::write` succeeds, writes
exactly `count_bits` bits, a whole number of bytes, the header takes `frameHeaderBits n rate number`
bits, and the frame is at most as long as the header followed by one verbatim sub-frame per channel
(padded, plus CRC-16). -/
theorem C09_frame_bits (cfg : SubCfg) (st : StereoCfg) (chans : List (List Int)) (bps rate number n : Nat)
    (log log' : List OEvent) (f : Frame)
    (hch : 1 ≤ chans.length ∧ chans.length ≤ 8) (hlen : ∀ c ∈ chans, c.length = n) (hn : 1 ≤ n ∧ n < 2 ^ 16)
    (hb : 1 ≤ bps ∧ bps ≤ 24) (hx : ∀ c ∈ chans, ∀ x ∈ c, SubFrame.inRange bps x = true)
    (hnum : number < 2 ^ 36) (hmax : cfg.maxP ≤ 14) (hlog : ∀ e ∈ log, e.Ok)
    (h : encodeFrame cfg st chans bps rate number log = some (f, log')) :
    ∃ fb, f.bits rfcCrc8 rfcCrc16 = some fb ∧ f.count = some fb.length ∧ 8 ∣ fb.length ∧
      f.header.count = frameHeaderBits n rate number ∧
      fb.length ≤ verbatimFrameBits (frameHeaderBits n rate number) chans.length n bps :=
  Extras.frame_size cfg st chans bps rate number n log log' f hch hlen hn hb hx hnum hmax hlog h

/-- **C09, frame, against the all-verbatim frame.** Under the same hypotheses: the frame with the same
header fields (block size, rate and sample-size codes, frame number; independent channels) and one
verbatim sub-frame per input channel is serialisable, and the emitted frame has at most as many bytes. -/
theorem C09_frame_vs_verbatim (cfg : SubCfg) (st : StereoCfg) (chans : List (List Int)) (bps rate number n : Nat)
    (log log' : List OEvent) (f : Frame)
    (hch : 1 ≤ chans.length ∧ chans.length ≤ 8) (hlen : ∀ c ∈ chans, c.length = n) (hn : 1 ≤ n ∧ n < 2 ^ 16)
    (hb : 1 ≤ bps ∧ bps ≤ 24) (hx : ∀ c ∈ chans, ∀ x ∈ c, SubFrame.inRange bps x = true)
    (hnum : number < 2 ^ 36) (hmax : cfg.maxP ≤ 14) (hlog : ∀ e ∈ log, e.Ok)
    (h : encodeFrame cfg st chans bps rate number log = some (f, log')) :
    ∃ fb vb, f.bits rfcCrc8 rfcCrc16 = some fb ∧
      (verbatimFrame f chans bps).bits rfcCrc8 rfcCrc16 = some vb ∧
      8 ∣ fb.length ∧ 8 ∣ vb.length ∧ fb.length / 8 ≤ vb.length / 8 := by
  obtain ⟨fb, hfb, _, h8, hhc, hle⟩ :=
    Extras.frame_size cfg st chans bps rate number n log log' f hch hlen hn hb hx hnum hmax hlog h
  obtain ⟨_, asg, _, hhdr⟩ :=
    Extras.encodeFrame_wf cfg st chans bps rate number n log log' f hch hlen hn hb hx hmax hlog h
  have hnumber := (Extras.headerFor_spec asg n bps rate number f.header hhdr).2.1
  obtain ⟨vb, hvb, hvl⟩ := Extras.verbatimFrame_size f chans bps n (by omega) hlen hn.1 ⟨hb.1, by omega⟩ hx
    (by rw [hnumber]; exact hnum)
  rw [hhc] at hvl
  refine ⟨fb, vb, hfb, hvb, h8, ?_, ?_⟩
  · rw [hvl]; unfold verbatimFrameBits; omega
  · rw [hvl]; exact Nat.div_le_div_right hle

/-- **C09, stream, bits written (exact headers).** For every configuration (`maxP ≤ 14`), block size
`1 ≤ bs < 2^16`, 1 to 8 channels of equal length `total < 2^36`, sample width `1 ≤ bps ≤ 24`, every rate,
every MD5 function producing 16 bytes and EVERY oracle log satisfying `OEvent.Ok`: if
`encode_with_fixed_block_size` returns a stream, `Stream::write` succeeds, writes exactly `count_bits`
bits, and at most 42 bytes plus, for block `i` of `n_i` samples, the frame made of its own header
(frame number `i`) and verbatim sub-frames. -/
theorem C09_stream (md5 : List Nat → List Nat) (cfg : SubCfg) (st : StereoCfg) (bs : Nat)
    (chans : List (List Int)) (bps rate : Nat) (log log' : List OEvent) (s : Stream) (total : Nat)
    (hmd5 : ∀ x, (md5 x).length = 16)
    (hch : 1 ≤ chans.length ∧ chans.length ≤ 8) (hlen : ∀ c ∈ chans, c.length = total) (htot : total < 2 ^ 36)
    (hbs : 1 ≤ bs ∧ bs < 2 ^ 16) (hb : 1 ≤ bps ∧ bps ≤ 24)
    (hx : ∀ c ∈ chans, ∀ x ∈ c, SubFrame.inRange bps x = true) (hmax : cfg.maxP ≤ 14)
    (hlog : ∀ e ∈ log, e.Ok)
    (h : encodeStream md5 cfg st bs chans bps rate log = some (s, log')) :
    ∃ sb, s.bits rfcCrc8 rfcCrc16 = some sb ∧ s.count = some sb.length ∧
      sb.length ≤ 8 * 42 + (((blocksOf bs chans).zipIdx).map fun (b, i) =>
        8 * ((frameHeaderBits (b.headD []).length rate i + chans.length * (8 + (b.headD []).length * bps) + 7) / 8 + 2)).sum := by
  obtain ⟨sb, h1, h2, h3, _⟩ :=
    Extras.stream_size md5 cfg st bs chans bps rate log log' s total hmd5 hch hlen htot hbs hb hx hmax hlog h
  refine ⟨sb, h1, h2, ?_⟩
  rw [Extras.framesBound_eq] at h3
  simp only [Extras.verbatimFrameBits_eq] at h3
  exact h3

/-- **C09, stream, coarse form**: every header is at most `headerBitsMax = 40 + 8·7 + 16 + 16 = 128`
bits (sync/codes/CRC-8, a 7-byte number, a 16-bit block-size and a 16-bit sample-rate immediate). -/
theorem C09_stream_coarse (md5 : List Nat → List Nat) (cfg : SubCfg) (st : StereoCfg) (bs : Nat)
    (chans : List (List Int)) (bps rate : Nat) (log log' : List OEvent) (s : Stream) (total : Nat)
    (hmd5 : ∀ x, (md5 x).length = 16)
    (hch : 1 ≤ chans.length ∧ chans.length ≤ 8) (hlen : ∀ c ∈ chans, c.length = total) (htot : total < 2 ^ 36)
    (hbs : 1 ≤ bs ∧ bs < 2 ^ 16) (hb : 1 ≤ bps ∧ bps ≤ 24)
    (hx : ∀ c ∈ chans, ∀ x ∈ c, SubFrame.inRange bps x = true) (hmax : cfg.maxP ≤ 14)
    (hlog : ∀ e ∈ log, e.Ok)
    (h : encodeStream md5 cfg st bs chans bps rate log = some (s, log')) :
    ∃ sb, s.bits rfcCrc8 rfcCrc16 = some sb ∧
      sb.length ≤ 8 * 42 + ((blocksOf bs chans).map fun b =>
        8 * ((128 + chans.length * (8 + (b.headD []).length * bps) + 7) / 8 + 2)).foldl (· + ·) 0 := by
  obtain ⟨sb, h1, _, h3, h4⟩ :=
    Extras.stream_size md5 cfg st bs chans bps rate log log' s total hmd5 hch hlen htot hbs hb hx hmax hlog h
  refine ⟨sb, h1, ?_⟩
  have := Extras.framesBound_le chans.length bps rate 128 (blocksOf bs chans) 0 (by omega) (Nat.le_refl _)
  simp only [Extras.verbatimFrameBits_eq] at this
  rw [Count.foldl_add]
  omega

/-- The header size used above is the header's `count_bits`, and never exceeds 128 bits. -/
theorem C09_header_bits (asg : ChannelAssignment) (n bps rate number : Nat) (hdr : FrameHeader)
    (h : headerFor asg n bps rate number = some hdr) (hnum : number < 2 ^ 36) :
    hdr.count = frameHeaderBits n rate number ∧ frameHeaderBits n rate number ≤ 128 :=
  ⟨(Extras.headerFor_spec asg n bps rate number hdr h).1, Extras.frameHeaderBits_le n rate number hnum⟩

/-! ### non-vacuity -/

namespace C09StreamEx

def toyMd5 (x : List Nat) : List Nat := List.replicate 16 (x.length % 256)
def streamL : List Int := (List.range 40).map fun (t : Nat) => ((t : Int) * (t : Int)) / 7 - 30
def streamR : List Int := (List.range 40).map fun (t : Nat) => ((t : Int) * 37 % 11) - 5

set_option maxRecDepth 100000 in
/-- Two channels of 40 samples in blocks of 16 (three frames, the last one short): the hypotheses of
`C09_stream` hold, the encoder returns, and the conclusion follows. Every header takes 56 bits
(40 + 1-byte number + 8-bit block-size immediate); the bound evaluates to `336 + 600 + 600 + 344 = 1880`
bits, and the emitted stream has exactly 1880 bits (`#eval`: frames of 600, 600, 344 bits — these short
noisy blocks are stored verbatim), so the bound is attained. -/
example : ∃ s log' sb,
    encodeStream toyMd5 ⟨true, true, false, 4, true, 14⟩ ⟨true, true, true⟩ 16 [streamL, streamR] 16 44100 [] = some (s, log') ∧
    s.bits rfcCrc8 rfcCrc16 = some sb ∧ s.count = some sb.length ∧
    sb.length ≤ 8 * 42 + (((blocksOf 16 [streamL, streamR]).zipIdx).map fun (b, i) =>
        8 * ((frameHeaderBits (b.headD []).length 44100 i + 2 * (8 + (b.headD []).length * 16) + 7) / 8 + 2)).sum := by
  cases h : encodeStream toyMd5 ⟨true, true, false, 4, true, 14⟩ ⟨true, true, true⟩ 16 [streamL, streamR] 16 44100 [] with
  | none => exact absurd h (by decide)
  | some p =>
    obtain ⟨s, log'⟩ := p
    obtain ⟨sb, h1, h2, h3⟩ := C09_stream toyMd5 _ _ 16 [streamL, streamR] 16 44100 [] log' s 40
      (fun x => by simp [toyMd5]) (by decide) (by decide) (by decide) (by decide) (by decide) (by decide) (by decide)
      (by intro e he; cases he) h
    exact ⟨s, log', sb, rfl, h1, h2, h3⟩

end C09StreamEx

end FlacVerif
