/-
C08Gen4 — the scratch-sink PARAMETERS of Gen/Writer.lean (`ByteSink_as_slice`, `MemSink_len`; WR_EXTERNAL of part `writer`)
discharged with the GENERATED sinks of part `sink` (Gen/Sink.lean).

  byte_export_pack               a `ByteSink` satisfying its invariant stores `packBytes` of the bits written (with `packBytes_pad`)
  C11G_readout_as_slice          `clear(); <any valid op list through the generated MemSink<u8> methods>; as_slice()` =
                                 `scratchBytes ops` = `packBytes (idealRun 0 ops)`, both profiles, from any stale sink
  C11G_readout_len_byte, C11G_readout_len_word    `..; len()` = `idealLen ops` for the generated `MemSink<u8>` / `MemSink<u64>`
  C08G4_header_write_closed      `FrameHeader.write` of Gen/Writer with `encode_to_utf8like` := generated (Gen/Utf8.lean) and
                                 `as_slice` := generated (Gen/Sink.lean) = the hand model's header operations
Remaining parameters of `FrameHeader.write`: the CRC-8 `checksum` only.  Not closed here: `MemSink_write_to_byte_slice`
(`wordExport`) of `Frame.write` - `C11G_write_to_byte_slice` gives the generated side, the equality of the words' bytes with
`packBytes` of the ideal bits padded to whole words is still missing - so `Frame.write` / `Stream.write` keep `wordExport`
(and both `checksum`s, and the stale buffer, which `C08G_frame_ops` shows irrelevant) as parameters.
`Small ops` = every op valid and fewer than 2^64 - 64 bits in all; `hsmall` of the header corollary asks this of the
operations the scratch sink receives (satisfiable: example at the end).
-/
import FlacVerif.Theorems.C08Gen3
import FlacVerif.Theorems.C11Gen
import FlacVerif.Lemmas.StrictBytes
set_option linter.unusedSimpArgs false
set_option linter.unusedVariables false
namespace FlacVerif.C08Gen4
open FlacVerif.Gen.Sink FlacVerif.C11Gen FlacVerif.C08Gen FlacVerif.C08Gen3 FlacVerif.C11

/-- zero padding up to the byte boundary does not change the packed bytes -/
theorem packBytes_pad : ∀ (n : Nat) (b : Bits) (k : Nat), b.length = n → k < 8 → (b.length + k) % 8 = 0 →
    packBytes (b ++ List.replicate k false) = packBytes b := by
  intro n
  induction n using Nat.strongRecOn with
  | _ n ih =>
    intro b k hn hk h8
    cases b with
    | nil =>
      have : k = 0 := by simp at h8; omega
      subst this; simp
    | cons b0 rest =>
      by_cases hlen : 8 ≤ (b0 :: rest).length
      · rw [List.cons_append, packBytes, packBytes]
        have ht : (b0 :: (rest ++ List.replicate k false)).take 8 = (b0 :: rest).take 8 := by
          rw [← List.cons_append, List.take_append_of_le_length hlen]
        have hd : (b0 :: (rest ++ List.replicate k false)).drop 8 = (b0 :: rest).drop 8 ++ List.replicate k false := by
          rw [← List.cons_append, List.drop_append_of_le_length hlen]
        simp only [ht, hd]
        congr 1
        exact ih ((b0 :: rest).drop 8).length (by simp at hn ⊢; omega) _ k rfl hk (by simp at h8 hlen ⊢; omega)
      · have hl : (b0 :: rest).length + k = 8 := by simp at h8 hlen ⊢; omega
        rw [List.cons_append, packBytes, packBytes]
        have ht : (b0 :: (rest ++ List.replicate k false)).take 8 = (b0 :: rest) ++ List.replicate k false := by
          rw [← List.cons_append]; exact List.take_of_length_le (by simp at hl ⊢; omega)
        have hd : (b0 :: (rest ++ List.replicate k false)).drop 8 = [] := by
          rw [← List.cons_append]; exact List.drop_eq_nil_of_le (by simp at hl ⊢; omega)
        have ht2 : (b0 :: rest).take 8 = b0 :: rest := List.take_of_length_le (by omega)
        have hd2 : (b0 :: rest).drop 8 = [] := List.drop_eq_nil_of_le (by omega)
        have hk8 : 8 - (b0 :: rest).length = k := by omega
        simp only [ht, hd, ht2, hd2, List.length_append, List.length_replicate, hl, Nat.sub_self, List.replicate_zero,
          List.append_nil, hk8]

theorem bytesToBits_len (bs : List Nat) : (bytesToBits bs).length = 8 * bs.length := C11Gen.bytesToBits_len bs

theorem getElem?_bytesToBits (bs : List Nat) (i : Nat) (hi : i < 8 * bs.length) :
    (bytesToBits bs)[i]? = some ((bs.getD (i / 8) 0).testBit (7 - i % 8)) := by
  induction bs generalizing i with
  | nil => simp at hi
  | cons b bs ih =>
    rw [OpsL.bytesToBits_cons]
    by_cases h8 : i < 8
    · rw [List.getElem?_append_left (by simpa using h8)]
      have hd : i / 8 = 0 := by omega
      have hm : i % 8 = i := by omega
      rw [List.getElem?_eq_getElem (by simpa using h8), getElem_natToBits]
      simp [hd, hm]
    · rw [List.getElem?_append_right (by simp; omega)]
      simp only [natToBits_length]
      rw [ih (i - 8) (by simp at hi; omega)]
      have hd : i / 8 = (i - 8) / 8 + 1 := by omega
      have hm : (i - 8) % 8 = i % 8 := by omega
      simp [hd, hm]

/-- the storage of a `ByteSink` satisfying its invariant is the packed form of the bits written -/
theorem byte_export_pack (s : ByteSink) (hi : s.Inv) : s.exportBytes = packBytes s.abs := by
  have hsz := hi.size
  have hlt : ∀ b ∈ s.exportBytes, b < 256 := by
    intro b hb
    simp only [ByteSink.exportBytes, List.mem_map] at hb
    obtain ⟨x, _, rfl⟩ := hb
    exact x.isLt
  have hpad : bytesToBits s.exportBytes = s.abs ++ List.replicate (8 * s.storage.length - s.len) false := by
    apply List.ext_getElem?
    intro i
    by_cases hi8 : i < 8 * s.storage.length
    · rw [getElem?_bytesToBits _ i (by simpa [ByteSink.exportBytes] using hi8)]
      have hbit : s.bitAt i = (s.exportBytes.getD (i / 8) 0).testBit (7 - i % 8) := by
        have hq : i / 8 < s.storage.length := by omega
        simp only [ByteSink.bitAt, ByteSink.exportBytes, List.getD_eq_getElem?_getD, List.getElem?_map,
          List.getElem?_eq_getElem hq, Option.map_some, Option.getD_some, BitVec.getMsbD, BitVec.getLsbD]
        have : i % 8 < 8 := Nat.mod_lt _ (by decide)
        simp [this]
      rw [← hbit]
      by_cases hl : i < s.len
      · rw [List.getElem?_append_left (by simpa [ByteSink.abs] using hl)]
        simp [ByteSink.abs, hl]
      · rw [List.getElem?_append_right (by simp [ByteSink.abs]; omega)]
        rw [hi.tail i (by omega)]
        simp only [ByteSink.abs, List.length_map, List.length_range]
        rw [List.getElem?_eq_getElem (by simp; omega)]
        simp
    · rw [List.getElem?_eq_none (by rw [bytesToBits_len]; simp [ByteSink.exportBytes]; omega),
        List.getElem?_eq_none (by simp [ByteSink.abs]; omega)]
  have h := Strict.packBytes_bytesToBits s.exportBytes hlt
  rw [hpad] at h
  rw [← h]
  have hal : s.abs.length = s.len := by simp [ByteSink.abs]
  exact packBytes_pad _ _ _ rfl (by omega) (by rw [hal]; omega)

/-! ### read-outs of the GENERATED scratch sinks -/

/-- `scratch.clear(); <ops on scratch>; scratch.as_slice()` on the generated `MemSink<u8>` (a panic would give `[]`) -/
def genAsSlice (dbg : Bool) (g : MemSink 8) (ops : List Op) : List Nat :=
  match ops.foldlM (genStepByte dbg) (MemSink.clear g) with
  | some g' => (MemSink.as_slice g').map BitVec.toNat
  | none => []

/-- `.. ; sink.len()` on the generated `MemSink<u64>` -/
def genLenWord (dbg : Bool) (g : MemSink 64) (ops : List Op) : Nat :=
  match ops.foldlM (genStepWord dbg) (MemSink.clear g) with
  | some g' => MemSink.len g'
  | none => 0

def genLenByte (dbg : Bool) (g : MemSink 8) (ops : List Op) : Nat :=
  match ops.foldlM (genStepByte dbg) (MemSink.clear g) with
  | some g' => MemSink.len g'
  | none => 0

/-- the op lists a scratch sink receives: valid, and far from 2^64 bits -/
def Small (ops : List Op) : Prop := (∀ op ∈ ops, op.Valid) ∧ (ops.map grow).sum + 64 < 2 ^ 64

theorem C11G_readout_as_slice (dbg : Bool) (g : MemSink 8) (ops : List Op) (h : Small ops) :
    genAsSlice dbg g ops = scratchBytes ops := by
  obtain ⟨s', hs', hinv, habs, _⟩ := C11_byte_run ops h.1
  have hrun := C11G_byte_run dbg (MemSink.new 8) ops ByteSink.inv_empty h.1 (by simpa [MemSink.new] using h.2)
  have hc : MemSink.clear g = MemSink.new 8 := rfl
  have he : toByte (MemSink.new 8) = ByteSink.empty := rfl
  simp only [genAsSlice, hc, hrun, he, hs', Option.map_some, scratchBytes, ← habs, ← byte_export_pack s' hinv]
  rfl

theorem C11G_readout_len_byte (dbg : Bool) (g : MemSink 8) (ops : List Op) (h : Small ops) :
    genLenByte dbg g ops = idealLen ops := by
  obtain ⟨s', hs', hinv, habs, hlen⟩ := C11_byte_run ops h.1
  have hrun := C11G_byte_run dbg (MemSink.new 8) ops ByteSink.inv_empty h.1 (by simpa [MemSink.new] using h.2)
  have hc : MemSink.clear g = MemSink.new 8 := rfl
  have he : toByte (MemSink.new 8) = ByteSink.empty := rfl
  simp only [genLenByte, hc, hrun, he, hs', Option.map_some, idealLen, ← hlen]
  rfl

theorem C11G_readout_len_word (dbg : Bool) (g : MemSink 64) (ops : List Op) (h : Small ops) :
    genLenWord dbg g ops = idealLen ops := by
  obtain ⟨s', hs', hinv, habs, hlen⟩ := C11_word_run ops h.1
  have hrun := C11G_word_run dbg (MemSink.new 64) ops WordSink.inv_empty h.1 (by simpa [MemSink.new] using h.2)
  have hc : MemSink.clear g = MemSink.new 64 := rfl
  have he : toWord (MemSink.new 64) = WordSink.empty := rfl
  simp only [genLenWord, hc, hrun, he, hs', Option.map_some, idealLen, ← hlen]
  rfl

/-! ### `FrameHeader::write` with the utf8 encoder AND the scratch sink instantiated by generated code -/

open FlacVerif.Gen.Writer in
/-- the statements of the generated `FrameHeader.write` that fill the scratch sink (the first argument of its `bindW`) -/
def headerFill (u : Nat → Option (List Nat)) (self : Gen.Writer.FrameHeader) : W :=
  (let header_word := (65528 + (if self.variable_block_size then 1 else 0))
   emit [Op.writeLsbs 16 header_word 16] <|
   emit [Op.writeLsbs 8 ((((FlacVerif.Gen.Headers.BlockSizeSpec.tag self.block_size_spec) <<< 4) % 256) ||| (FlacVerif.Gen.Headers.SampleRateSpec.tag self.sample_rate_spec)) 8] <|
   seqW (hdrOps (FlacVerif.Gen.Headers.ChannelAssignment.write self.channel_assignment)) <|
   emit [Op.writeLsbs 8 (((FlacVerif.Gen.Headers.SampleSizeSpec.into_tag self.sample_size_spec) <<< 1) % 256) 4] <|
   seqW (if self.variable_block_size then
      (bindO (u self.start_sample_number) fun v =>
       emit [Op.writeBytesAligned v] <|
       some [])
    else
      (bindO (u self.frame_number) fun v =>
       emit [Op.writeBytesAligned v] <|
       some [])) <|
   seqW (hdrOps (FlacVerif.Gen.Headers.BlockSizeSpec.write_extra_bits self.block_size_spec)) <|
   hdrOps (FlacVerif.Gen.Headers.SampleRateSpec.write_extra_bits self.sample_rate_spec))

open FlacVerif.Gen.Writer in
theorem header_write_unfold (u : Nat → Option (List Nat)) (ex : Nat → Bool) (A : List Op → List Nat) (ck : List Nat → Nat)
    (g : Gen.Writer.FrameHeader) :
    Gen.Writer.FrameHeader.write u ex A ck g = bindW (headerFill u g) fun header_buffer =>
      emit [Op.writeBytesAligned (A header_buffer)] <| emit [Op.write 8 (ck (A header_buffer))] <| some [] := rfl

/-- `C08G_header_ops` with BOTH the UTF-8-like encoder and the scratch sink's `as_slice()` read-out instantiated by generated
functions (`Gen/Utf8.lean`, `Gen/Sink.lean`), in both profiles, from any stale scratch sink `g0`; the remaining parameter is
the CRC-8 `checksum`.  `hsmall`: the operations the scratch sink receives are within the sinks' contract. -/
theorem C08G4_header_write_closed (dbg : Bool) (p8 : CrcParams) (g : Gen.Writer.FrameHeader) (g0 : MemSink 8)
    (hc : ChanOk g.channel_assignment) (hsmall : ∀ hb, headerFill encodeUtf8like g = some hb → Small hb) :
    Gen.Writer.FrameHeader.write (utf8Param dbg) (utf8Exact dbg) (genAsSlice dbg g0) (crc p8) g = (hdrOfGen g).ops p8 := by
  rw [← C08G_header_ops p8 g (utf8Exact dbg) hc, (C08G3_param dbg).1, header_write_unfold, header_write_unfold]
  cases hf : headerFill encodeUtf8like g with
  | none => rfl
  | some hb => simp only [Gen.Writer.bindW, C11G_readout_as_slice dbg g0 hb (hsmall hb hf)]

instance (ops : List Op) : Decidable (Small ops) := by unfold Small; infer_instance

/-- `hsmall` is satisfiable: the scratch operations of the example header of C08Gen -/
example : ∃ hb, headerFill encodeUtf8like exHeader = some hb ∧ Small hb := ⟨_, rfl, by decide⟩
end FlacVerif.C08Gen4
