/-
C08Gen4 — the scratch-sink PARAMETERS of Gen/Writer.lean (`ByteSink_as_slice`, `MemSink_len`; WR_EXTERNAL of part `writer`)
discharged with the GENERATED sinks of part `sink` (Gen/Sink.lean).

  byte_export_pack               a `ByteSink` satisfying its invariant stores `packBytes` of the bits written (with `packBytes_pad`)
  C11G_readout_as_slice          `clear(); <any valid op list through the generated MemSink<u8> methods>; as_slice()` =
                                 `scratchBytes ops` = `packBytes (idealRun 0 ops)`, both profiles, from any stale sink
  C11G_readout_len_byte, C11G_readout_len_word    `..; len()` = `idealLen ops` for the generated `MemSink<u8>` / `MemSink<u64>`
  C08G4_header_write_closed      `FrameHeader.write` of Gen/Writer with `encode_to_utf8like` := generated (Gen/Utf8.lean) and
                                 `as_slice` := generated (Gen/Sink.lean) = the hand model's header operations
  word_export_pack               word-level analogue: the big-endian bytes of the u64 storage words = `packBytes` of the bits written,
                                 zero-padded to whole words (the shape of `wordExport`)
  C11G_readout_word_export       `clear(); <ops>; write_to_byte_slice(dest)` on the generated `MemSink<u64>` = `wordExport ops dest`
  C08G4_frame_write_closed       `Frame.write` of Gen/Writer with utf8, `as_slice`, `len`, `write_to_byte_slice` all generated =
                                 the hand model's `Frame.ops`
  C08G4_stream_write_closed      the same for `Stream.write` (every frame `FrameOk`)
Remaining parameters: the CRC-8 / CRC-16 `checksum`s only (and the stale buffer / stale sinks, universally quantified).
`Small ops` = every op valid and fewer than 2^64 - 64 bits in all; `hsmall` of the header corollary asks this of the
operations the scratch sink receives (satisfiable: example at the end).
-/
import FlacVerif.Theorems.C08Gen3
import FlacVerif.Theorems.C11Gen
import FlacVerif.Lemmas.StrictBytes
set_option linter.unusedSimpArgs false
set_option linter.unusedVariables false
namespace FlacVerif.C08Gen4
open FlacVerif.Gen.Sink FlacVerif.C11Gen FlacVerif.C08Gen FlacVerif.C08Gen3 FlacVerif.C11

/-- zero padding up to the byte boundary does not change the packed bytes -/
theorem packBytes_pad : ∀ (n : Nat) (b : Bits) (k : Nat), b.length = n → k < 8 → (b.length + k) % 8 = 0 →
    packBytes (b ++ List.replicate k false) = packBytes b := by
  intro n
  induction n using Nat.strongRecOn with
  | _ n ih =>
    intro b k hn hk h8
    cases b with
    | nil =>
      have : k = 0 := by simp at h8; omega
      subst this; simp
    | cons b0 rest =>
      by_cases hlen : 8 ≤ (b0 :: rest).length
      · rw [List.cons_append, packBytes, packBytes]
        have ht : (b0 :: (rest ++ List.replicate k false)).take 8 = (b0 :: rest).take 8 := by
          rw [← List.cons_append, List.take_append_of_le_length hlen]
        have hd : (b0 :: (rest ++ List.replicate k false)).drop 8 = (b0 :: rest).drop 8 ++ List.replicate k false := by
          rw [← List.cons_append, List.drop_append_of_le_length hlen]
        simp only [ht, hd]
        congr 1
        exact ih ((b0 :: rest).drop 8).length (by simp at hn ⊢; omega) _ k rfl hk (by simp at h8 hlen ⊢; omega)
      · have hl : (b0 :: rest).length + k = 8 := by simp at h8 hlen ⊢; omega
        rw [List.cons_append, packBytes, packBytes]
        have ht : (b0 :: (rest ++ List.replicate k false)).take 8 = (b0 :: rest) ++ List.replicate k false := by
          rw [← List.cons_append]; exact List.take_of_length_le (by simp at hl ⊢; omega)
        have hd : (b0 :: (rest ++ List.replicate k false)).drop 8 = [] := by
          rw [← List.cons_append]; exact List.drop_eq_nil_of_le (by simp at hl ⊢; omega)
        have ht2 : (b0 :: rest).take 8 = b0 :: rest := List.take_of_length_le (by omega)
        have hd2 : (b0 :: rest).drop 8 = [] := List.drop_eq_nil_of_le (by omega)
        have hk8 : 8 - (b0 :: rest).length = k := by omega
        simp only [ht, hd, ht2, hd2, List.length_append, List.length_replicate, hl, Nat.sub_self, List.replicate_zero,
          List.append_nil, hk8]

theorem bytesToBits_len (bs : List Nat) : (bytesToBits bs).length = 8 * bs.length := C11Gen.bytesToBits_len bs

theorem getElem?_bytesToBits (bs : List Nat) (i : Nat) (hi : i < 8 * bs.length) :
    (bytesToBits bs)[i]? = some ((bs.getD (i / 8) 0).testBit (7 - i % 8)) := by
  induction bs generalizing i with
  | nil => simp at hi
  | cons b bs ih =>
    rw [OpsL.bytesToBits_cons]
    by_cases h8 : i < 8
    · rw [List.getElem?_append_left (by simpa using h8)]
      have hd : i / 8 = 0 := by omega
      have hm : i % 8 = i := by omega
      rw [List.getElem?_eq_getElem (by simpa using h8), getElem_natToBits]
      simp [hd, hm]
    · rw [List.getElem?_append_right (by simp; omega)]
      simp only [natToBits_length]
      rw [ih (i - 8) (by simp at hi; omega)]
      have hd : i / 8 = (i - 8) / 8 + 1 := by omega
      have hm : (i - 8) % 8 = i % 8 := by omega
      simp [hd, hm]

/-- the storage of a `ByteSink` satisfying its invariant is the packed form of the bits written -/
theorem byte_export_pack (s : ByteSink) (hi : s.Inv) : s.exportBytes = packBytes s.abs := by
  have hsz := hi.size
  have hlt : ∀ b ∈ s.exportBytes, b < 256 := by
    intro b hb
    simp only [ByteSink.exportBytes, List.mem_map] at hb
    obtain ⟨x, _, rfl⟩ := hb
    exact x.isLt
  have hpad : bytesToBits s.exportBytes = s.abs ++ List.replicate (8 * s.storage.length - s.len) false := by
    apply List.ext_getElem?
    intro i
    by_cases hi8 : i < 8 * s.storage.length
    · rw [getElem?_bytesToBits _ i (by simpa [ByteSink.exportBytes] using hi8)]
      have hbit : s.bitAt i = (s.exportBytes.getD (i / 8) 0).testBit (7 - i % 8) := by
        have hq : i / 8 < s.storage.length := by omega
        simp only [ByteSink.bitAt, ByteSink.exportBytes, List.getD_eq_getElem?_getD, List.getElem?_map,
          List.getElem?_eq_getElem hq, Option.map_some, Option.getD_some, BitVec.getMsbD, BitVec.getLsbD]
        have : i % 8 < 8 := Nat.mod_lt _ (by decide)
        simp [this]
      rw [← hbit]
      by_cases hl : i < s.len
      · rw [List.getElem?_append_left (by simpa [ByteSink.abs] using hl)]
        simp [ByteSink.abs, hl]
      · rw [List.getElem?_append_right (by simp [ByteSink.abs]; omega)]
        rw [hi.tail i (by omega)]
        simp only [ByteSink.abs, List.length_map, List.length_range]
        rw [List.getElem?_eq_getElem (by simp; omega)]
        simp
    · rw [List.getElem?_eq_none (by rw [bytesToBits_len]; simp [ByteSink.exportBytes]; omega),
        List.getElem?_eq_none (by simp [ByteSink.abs]; omega)]
  have h := Strict.packBytes_bytesToBits s.exportBytes hlt
  rw [hpad] at h
  rw [← h]
  have hal : s.abs.length = s.len := by simp [ByteSink.abs]
  exact packBytes_pad _ _ _ rfl (by omega) (by rw [hal]; omega)

/-! ### read-outs of the GENERATED scratch sinks -/

/-- `scratch.clear(); <ops on scratch>; scratch.as_slice()` on the generated `MemSink<u8>` (a panic would give `[]`) -/
def genAsSlice (dbg : Bool) (g : MemSink 8) (ops : List Op) : List Nat :=
  match ops.foldlM (genStepByte dbg) (MemSink.clear g) with
  | some g' => (MemSink.as_slice g').map BitVec.toNat
  | none => []

/-- `.. ; sink.len()` on the generated `MemSink<u64>` -/
def genLenWord (dbg : Bool) (g : MemSink 64) (ops : List Op) : Nat :=
  match ops.foldlM (genStepWord dbg) (MemSink.clear g) with
  | some g' => MemSink.len g'
  | none => 0

def genLenByte (dbg : Bool) (g : MemSink 8) (ops : List Op) : Nat :=
  match ops.foldlM (genStepByte dbg) (MemSink.clear g) with
  | some g' => MemSink.len g'
  | none => 0

/-- the op lists a scratch sink receives: valid, and far from 2^64 bits -/
def Small (ops : List Op) : Prop := (∀ op ∈ ops, op.Valid) ∧ (ops.map grow).sum + 64 < 2 ^ 64

theorem C11G_readout_as_slice (dbg : Bool) (g : MemSink 8) (ops : List Op) (h : Small ops) :
    genAsSlice dbg g ops = scratchBytes ops := by
  obtain ⟨s', hs', hinv, habs, _⟩ := C11_byte_run ops h.1
  have hrun := C11G_byte_run dbg (MemSink.new 8) ops ByteSink.inv_empty h.1 (by simpa [MemSink.new] using h.2)
  have hc : MemSink.clear g = MemSink.new 8 := rfl
  have he : toByte (MemSink.new 8) = ByteSink.empty := rfl
  simp only [genAsSlice, hc, hrun, he, hs', Option.map_some, scratchBytes, ← habs, ← byte_export_pack s' hinv]
  rfl

theorem C11G_readout_len_byte (dbg : Bool) (g : MemSink 8) (ops : List Op) (h : Small ops) :
    genLenByte dbg g ops = idealLen ops := by
  obtain ⟨s', hs', hinv, habs, hlen⟩ := C11_byte_run ops h.1
  have hrun := C11G_byte_run dbg (MemSink.new 8) ops ByteSink.inv_empty h.1 (by simpa [MemSink.new] using h.2)
  have hc : MemSink.clear g = MemSink.new 8 := rfl
  have he : toByte (MemSink.new 8) = ByteSink.empty := rfl
  simp only [genLenByte, hc, hrun, he, hs', Option.map_some, idealLen, ← hlen]
  rfl

theorem C11G_readout_len_word (dbg : Bool) (g : MemSink 64) (ops : List Op) (h : Small ops) :
    genLenWord dbg g ops = idealLen ops := by
  obtain ⟨s', hs', hinv, habs, hlen⟩ := C11_word_run ops h.1
  have hrun := C11G_word_run dbg (MemSink.new 64) ops WordSink.inv_empty h.1 (by simpa [MemSink.new] using h.2)
  have hc : MemSink.clear g = MemSink.new 64 := rfl
  have he : toWord (MemSink.new 64) = WordSink.empty := rfl
  simp only [genLenWord, hc, hrun, he, hs', Option.map_some, idealLen, ← hlen]
  rfl

/-! ### `FrameHeader::write` with the utf8 encoder AND the scratch sink instantiated by generated code -/

open FlacVerif.Gen.Writer in
/-- the statements of the generated `FrameHeader.write` that fill the scratch sink (the first argument of its `bindW`) -/
def headerFill (u : Nat → Option (List Nat)) (self : Gen.Writer.FrameHeader) : W :=
  (let header_word := (65528 + (if self.variable_block_size then 1 else 0))
   emit [Op.writeLsbs 16 header_word 16] <|
   emit [Op.writeLsbs 8 ((((FlacVerif.Gen.Headers.BlockSizeSpec.tag self.block_size_spec) <<< 4) % 256) ||| (FlacVerif.Gen.Headers.SampleRateSpec.tag self.sample_rate_spec)) 8] <|
   seqW (hdrOps (FlacVerif.Gen.Headers.ChannelAssignment.write self.channel_assignment)) <|
   emit [Op.writeLsbs 8 (((FlacVerif.Gen.Headers.SampleSizeSpec.into_tag self.sample_size_spec) <<< 1) % 256) 4] <|
   seqW (if self.variable_block_size then
      (bindO (u self.start_sample_number) fun v =>
       emit [Op.writeBytesAligned v] <|
       some [])
    else
      (bindO (u self.frame_number) fun v =>
       emit [Op.writeBytesAligned v] <|
       some [])) <|
   seqW (hdrOps (FlacVerif.Gen.Headers.BlockSizeSpec.write_extra_bits self.block_size_spec)) <|
   hdrOps (FlacVerif.Gen.Headers.SampleRateSpec.write_extra_bits self.sample_rate_spec))

open FlacVerif.Gen.Writer in
theorem header_write_unfold (u : Nat → Option (List Nat)) (ex : Nat → Bool) (A : List Op → List Nat) (ck : List Nat → Nat)
    (g : Gen.Writer.FrameHeader) :
    Gen.Writer.FrameHeader.write u ex A ck g = bindW (headerFill u g) fun header_buffer =>
      emit [Op.writeBytesAligned (A header_buffer)] <| emit [Op.write 8 (ck (A header_buffer))] <| some [] := rfl

/-- `C08G_header_ops` with BOTH the UTF-8-like encoder and the scratch sink's `as_slice()` read-out instantiated by generated
functions (`Gen/Utf8.lean`, `Gen/Sink.lean`), in both profiles, from any stale scratch sink `g0`; the remaining parameter is
the CRC-8 `checksum`.  `hsmall`: the operations the scratch sink receives are within the sinks' contract. -/
theorem C08G4_header_write_closed (dbg : Bool) (p8 : CrcParams) (g : Gen.Writer.FrameHeader) (g0 : MemSink 8)
    (hc : ChanOk g.channel_assignment) (hsmall : ∀ hb, headerFill encodeUtf8like g = some hb → Small hb) :
    Gen.Writer.FrameHeader.write (utf8Param dbg) (utf8Exact dbg) (genAsSlice dbg g0) (crc p8) g = (hdrOfGen g).ops p8 := by
  rw [← C08G_header_ops p8 g (utf8Exact dbg) hc, (C08G3_param dbg).1, header_write_unfold, header_write_unfold]
  cases hf : headerFill encodeUtf8like g with
  | none => rfl
  | some hb => simp only [Gen.Writer.bindW, C11G_readout_as_slice dbg g0 hb (hsmall hb hf)]

instance (ops : List Op) : Decidable (Small ops) := by unfold Small; infer_instance

/-- `hsmall` is satisfiable: the scratch operations of the example header of C08Gen -/
example : ∃ hb, headerFill encodeUtf8like exHeader = some hb ∧ Small hb := ⟨_, rfl, by decide⟩

/-! ### the word-level export -/

theorem getElem?_flatMap8 {α β : Type} (f : α → List β) (hf : ∀ a, (f a).length = 8) (xs : List α) (j : Nat) :
    (xs.flatMap f)[j]? = (xs[j / 8]?).bind fun a => (f a)[j % 8]? := by
  induction xs generalizing j with
  | nil => simp
  | cons x xs ih =>
    simp only [List.flatMap_cons]
    by_cases h : j < 8
    · have hd : j / 8 = 0 := by omega
      have hm : j % 8 = j := by omega
      rw [List.getElem?_append_left (by rw [hf]; exact h)]
      simp [hd, hm]
    · rw [List.getElem?_append_right (by rw [hf]; omega), hf, ih]
      have hd : j / 8 = (j - 8) / 8 + 1 := by omega
      have hm : (j - 8) % 8 = j % 8 := by omega
      simp [hd, hm]

/-- the big-endian bytes of the storage words of a `WordSink` -/
def wordBytes (s : WordSink) : List Nat := (s.storage.flatMap beBytes).map BitVec.toNat

theorem wordBytes_len (s : WordSink) : (wordBytes s).length = 8 * s.storage.length := by
  simp only [wordBytes, List.length_map]
  induction s.storage with
  | nil => rfl
  | cons x xs ih => simp [List.flatMap_cons, beBytes_length, ih]; omega

theorem wordBytes_bit (s : WordSink) (i : Nat) (hi : i < 64 * s.storage.length) :
    ((wordBytes s).getD (i / 8) 0).testBit (7 - i % 8) = s.bitAt i := by
  have hq : i / 8 / 8 < s.storage.length := by omega
  have hq' : i / 64 < s.storage.length := by omega
  have hk : i / 8 % 8 < 8 := Nat.mod_lt _ (by decide)
  have e64 : i / 8 / 8 = i / 64 := by omega
  simp only [wordBytes, List.getD_eq_getElem?_getD, List.getElem?_map,
    getElem?_flatMap8 beBytes (fun a => beBytes_length a) s.storage (i / 8), List.getElem?_eq_getElem hq,
    Option.bind_some, WordSink.bitAt, List.getElem?_eq_getElem hq', Option.getD_some]
  simp only [beBytes, List.getElem?_map, List.getElem?_range hk, Option.map_some, Option.getD_some,
    BitVec.toNat_setWidth, BitVec.toNat_ushiftRight, BitVec.getMsbD, BitVec.getLsbD, e64]
  have hm : i % 64 < 64 := Nat.mod_lt _ (by decide)
  simp only [hm, decide_true, Bool.true_and, Nat.testBit_mod_two_pow, Nat.testBit_shiftRight]
  have h7 : 7 - i % 8 < 8 := by omega
  simp only [h7, decide_true, Bool.true_and]
  congr 1; omega

theorem wordBytes_bits (s : WordSink) (hi : s.Inv) :
    bytesToBits (wordBytes s) = s.abs ++ List.replicate (64 * s.storage.length - s.len) false := by
  have hsz := hi.size
  apply List.ext_getElem?
  intro i
  by_cases hi64 : i < 64 * s.storage.length
  · rw [getElem?_bytesToBits _ i (by rw [wordBytes_len]; omega), wordBytes_bit s i hi64]
    by_cases hl : i < s.len
    · rw [List.getElem?_append_left (by simpa [WordSink.abs] using hl)]
      simp [WordSink.abs, hl]
    · rw [List.getElem?_append_right (by simp [WordSink.abs]; omega), hi.tail i (by omega)]
      simp only [WordSink.abs, List.length_map, List.length_range]
      rw [List.getElem?_eq_getElem (by simp; omega)]
      simp
  · rw [List.getElem?_eq_none (by rw [bytesToBits_len, wordBytes_len]; omega),
      List.getElem?_eq_none (by simp [WordSink.abs]; omega)]

theorem packBytes_zeros (q : Nat) : packBytes (List.replicate (8 * q) false) = List.replicate q 0 := by
  have : bytesToBits (List.replicate q 0) = List.replicate (8 * q) false := by
    induction q with
    | zero => rfl
    | succ q ih =>
      rw [List.replicate_succ, OpsL.bytesToBits_cons, ih, natToBits_zero, List.replicate_append_replicate]
      congr 1; omega
  have h := Strict.packBytes_bytesToBits (List.replicate q 0) (by intro b hb; simp at hb; omega)
  rw [this] at h; exact h

/-- word-level analogue of `byte_export_pack`: the big-endian bytes of the storage words are `packBytes` of the bits
written, zero-padded to whole words (the shape `wordExport` has) -/
theorem word_export_pack (s : WordSink) (hi : s.Inv) :
    wordBytes s = packBytes s.abs ++ List.replicate ((8 - (packBytes s.abs).length % 8) % 8) 0 := by
  have hsz := hi.size
  have hal : s.abs.length = s.len := by simp [WordSink.abs]
  have hlt : ∀ b ∈ wordBytes s, b < 256 := by
    intro b hb
    simp only [wordBytes, List.mem_map] at hb
    obtain ⟨x, _, rfl⟩ := hb
    exact x.isLt
  have h := Strict.packBytes_bytesToBits (wordBytes s) hlt
  rw [wordBytes_bits s hi] at h
  -- split the padding: up to the byte boundary, then whole zero bytes
  let k := (8 - s.len % 8) % 8
  let q := (64 * s.storage.length - s.len - k) / 8
  have hkq : 64 * s.storage.length - s.len = k + 8 * q := by simp only [k, q]; omega
  rw [hkq, ← List.replicate_append_replicate, ← List.append_assoc] at h
  have hlen8 : (s.abs ++ List.replicate k false).length = 8 * ((s.len + k) / 8) := by
    simp only [List.length_append, hal, List.length_replicate, k]; omega
  rw [Strict.packBytes_append _ _ _ hlen8, packBytes_zeros,
    packBytes_pad _ _ k rfl (by simp only [k]; omega) (by rw [hal]; simp only [k]; omega)] at h
  have hpl : (packBytes s.abs).length = (s.len + k) / 8 := by
    rw [← packBytes_pad _ s.abs k rfl (by simp only [k]; omega) (by rw [hal]; simp only [k]; omega)]
    exact Repo.packBytes_length _ _ hlen8
  rw [← h, hpl]
  congr 2
  simp only [k, q]; omega

/-- `sink.clear(); <ops>; sink.write_to_byte_slice(&mut dest)` on the generated `MemSink<u64>` (a panic would give `[]`) -/
def genWordExport (dbg : Bool) (g : MemSink 64) (ops : List Op) (old : List Nat) : List Nat :=
  match ops.foldlM (genStepWord dbg) (MemSink.clear g) with
  | some g' =>
    match MemSink.write_to_byte_slice dbg g' (old.map (BitVec.ofNat 8)) with
    | some d => d.map BitVec.toNat
    | none => []
  | none => []

theorem C11G_readout_word_export (dbg : Bool) (g : MemSink 64) (ops : List Op) (old : List Nat) (h : Small ops)
    (hold : ∀ b ∈ old, b < 256) (hlen : idealLen ops / 8 ≤ old.length) :
    genWordExport dbg g ops old = wordExport ops old := by
  obtain ⟨s', hs', hinv, habs, hl⟩ := C11_word_run ops h.1
  have hrun := C11G_word_run dbg (MemSink.new 64) ops WordSink.inv_empty h.1 (by simpa [MemSink.new] using h.2)
  have hc : MemSink.clear g = MemSink.new 64 := rfl
  have he : toWord (MemSink.new 64) = WordSink.empty := rfl
  have hsz := hinv.size
  have hgrow : s'.len ≤ (ops.map grow).sum := by
    have : ∀ (ops : List Op) (len : Nat), (idealRun len ops).length ≤ (ops.map grow).sum := by
      intro ops
      induction ops with
      | nil => intro len; simp [idealRun]
      | cons op ops ih =>
        intro len
        simp only [idealRun, List.length_append, List.map_cons, List.sum_cons]
        have := ideal_length_le len op
        have := ih (len + (op.ideal len).length)
        omega
    rw [hl]; exact this ops 0
  have hb := h.2
  have hmap : (old.map (BitVec.ofNat 8)).map BitVec.toNat = old := by
    rw [List.map_map]
    conv => rhs; rw [← List.map_id old]
    apply List.map_congr_left
    intro b hbm
    simp [Nat.mod_eq_of_lt (hold b hbm)]
  have hw := C11G_write_to_byte_slice dbg (by decide) (ofWord s') (old.map (BitVec.ofNat 8))
    (by simp only [ofWord]; omega)
  have hcond : (ofWord s').storage = [] ∨ ((ofWord s').storage.length - 1) * (64 / 8) ≤ (old.map (BitVec.ofNat 8)).length := by
    right
    simp only [ofWord, List.length_map, idealLen, ← hl] at hlen ⊢
    omega
  simp only [genWordExport, hc, hrun, he, hs', Option.map_some, hw, hcond, if_true, List.map_append, List.map_take,
    List.map_drop, hmap, List.length_map]
  have hwb := word_export_pack s' hinv
  simp only [wordExport, ← habs, ← hwb]
  have : (wordBytes s').length = s'.storage.length * (64 / 8) := by rw [wordBytes_len]; omega
  rw [this]
  simp only [List.length_map, ofWord] at hcond
  simp only [wordBytes, ofWord, hcond, if_true, List.map_append, List.map_take, List.map_drop, hmap]

/-! ### `Frame::write` / `Stream::write` with every scratch-sink parameter generated -/

open FlacVerif.Gen.Writer in
/-- the operations the frame's `MemSink<u64>` scratch sink receives (first argument of the `bindW` of the generated `Frame.write`) -/
def frameFill (p8 : CrcParams) (self : Gen.Writer.Frame) : W :=
  seqW (FrameHeader.write encodeUtf8like (fun _ => true) scratchBytes (crc p8) self.header) <|
  seqW (forW self.subframes (fun sub => SubFrame.write sub)) <|
  emit [Op.alignToByte] <|
  some []

theorem vecResize_len (v : List Nat) (n x : Nat) : (Gen.Writer.vecResize v n x).length = n := by
  simp only [Gen.Writer.vecResize, List.length_append, List.length_take, List.length_replicate]; omega

theorem vecResize_lt (v : List Nat) (n : Nat) (h : ∀ b ∈ v, b < 256) : ∀ b ∈ Gen.Writer.vecResize v n 0, b < 256 := by
  intro b hb
  simp only [Gen.Writer.vecResize, List.mem_append, List.mem_replicate] at hb
  rcases hb with hb | ⟨_, rfl⟩
  · exact h b (List.mem_of_mem_take hb)
  · decide

/-- `C08G_frame_ops` with the UTF-8-like encoder, the header scratch sink (`as_slice`) and the frame scratch sink (`len`,
`write_to_byte_slice`) all instantiated by GENERATED functions, both profiles, from any stale sinks / buffer; only the two
CRC `checksum`s remain parameters -/
theorem C08G4_frame_write_closed (dbg : Bool) (p8 p16 : CrcParams) (g : Gen.Writer.Frame) (stale : List Nat)
    (g8 : MemSink 8) (g64 : MemSink 64)
    (hp : g.precomputed_bitstream = none) (hc : ChanOk g.header.channel_assignment) (hs : ∀ s ∈ g.subframes, s.WF)
    (hstale : ∀ b ∈ stale, b < 256)
    (hsmallH : ∀ hb, headerFill encodeUtf8like g.header = some hb → Small hb)
    (hsmallF : ∀ fs, frameFill p8 g = some fs → Small fs) :
    Gen.Writer.Frame.write stale (utf8Param dbg) (utf8Exact dbg) (genAsSlice dbg g8) (crc p8) (genLenWord dbg g64)
      (genWordExport dbg g64) (crc p16) g = Frame.ops p8 p16 (frameOfGen g) := by
  rw [← C08G_frame_ops p8 p16 g stale (fun _ => true) hp hc hs]
  have hh : Gen.Writer.FrameHeader.write (utf8Param dbg) (utf8Exact dbg) (genAsSlice dbg g8) (crc p8) g.header
      = Gen.Writer.FrameHeader.write encodeUtf8like (fun _ => true) scratchBytes (crc p8) g.header := by
    rw [C08G4_header_write_closed dbg p8 g.header g8 hc hsmallH, C08G_header_ops p8 g.header _ hc]
  simp only [Gen.Writer.Frame.write, hp, hh]
  have hf : frameFill p8 g = (Gen.Writer.seqW (Gen.Writer.FrameHeader.write encodeUtf8like (fun _ => true) scratchBytes (crc p8) g.header) <|
      Gen.Writer.seqW (Gen.Writer.forW g.subframes (fun sub => Gen.Writer.SubFrame.write sub)) <|
      Gen.Writer.emit [Op.alignToByte] <| some []) := rfl
  rw [← hf]
  cases hfill : frameFill p8 g with
  | none => rfl
  | some fs =>
    have hsm := hsmallF fs hfill
    have hl := C11G_readout_len_word dbg g64 fs hsm
    simp only [Gen.Writer.bindW, hl]
    rw [C11G_readout_word_export dbg g64 fs _ hsm (vecResize_lt stale _ hstale)
      (by rw [vecResize_len, Nat.shiftRight_eq_div_pow]; exact Nat.le_refl _)]

theorem forW_congr {α : Type} (xs : List α) (f f' : α → Gen.Writer.W) (h : ∀ x ∈ xs, f x = f' x) :
    Gen.Writer.forW xs f = Gen.Writer.forW xs f' := by
  induction xs with
  | nil => rfl
  | cons x xs ih =>
    simp only [Gen.Writer.forW, h x (by simp), ih (fun y hy => h y (by simp [hy]))]

/-- `C08G_stream_ops` with every scratch-sink parameter and the UTF-8-like encoder generated; only the CRC `checksum`s remain -/
theorem C08G4_stream_write_closed (dbg : Bool) (p8 p16 : CrcParams) (s : Stream) (gfs : List Gen.Writer.Frame) (stale : List Nat)
    (g8 : MemSink 8) (g64 : MemSink 64)
    (hf : gfs.map frameOfGen = s.frames) (hg : ∀ g ∈ gfs, FrameOk g)
    (ht : s.info.total < 2 ^ 64) (htag : ∀ m ∈ s.metadata, m.tag < 128)
    (hstale : ∀ b ∈ stale, b < 256)
    (hsmallH : ∀ g ∈ gfs, ∀ hb, headerFill encodeUtf8like g.header = some hb → Small hb)
    (hsmallF : ∀ g ∈ gfs, ∀ fs, frameFill p8 g = some fs → Small fs) :
    Gen.Writer.Stream.write stale (utf8Param dbg) (utf8Exact dbg) (genAsSlice dbg g8) (crc p8) (genLenWord dbg g64)
      (genWordExport dbg g64) (crc p16) (streamToGen s gfs) = s.ops p8 p16 := by
  rw [← C08G_stream_ops p8 p16 s gfs stale (fun _ => true) hf hg ht htag]
  unfold Gen.Writer.Stream.write
  have hfr : (streamToGen s gfs).frames = gfs := rfl
  rw [hfr]
  rw [forW_congr gfs _ (fun frame => Gen.Writer.Frame.write stale encodeUtf8like (fun _ => true) scratchBytes (crc p8) idealLen
    wordExport (crc p16) frame)]
  intro g hgm
  obtain ⟨hp, hc, hs⟩ := hg g hgm
  rw [C08G4_frame_write_closed dbg p8 p16 g stale g8 g64 hp hc hs hstale (hsmallH g hgm) (hsmallF g hgm),
    C08G_frame_ops p8 p16 g stale _ hp hc hs]
end FlacVerif.C08Gen4
