/-
C02 (header code tables) — the HAND-WRITTEN model of the frame-header codes (`Model/Codes.lean`, and the
table parts of the parser mirror `Model/RepoParser.lean`) agrees with the Rust source.

`Gen/Headers.lean` is regenerated on every run by `tools/translate.py` (part `headers`): it PARSES
`impl BlockSizeSpec / SampleSizeSpec / SampleRateSpec / ChannelAssignment` of
`src/component/datatype.rs` (and `impl BitRepr for ChannelAssignment` of `bitrepr.rs`) and mirrors every
`match` arm by arm, in source order, over `Nat`.  All other theorems of the project (C02, C15, C18,
C01Strict, ...) are about the hand-written definitions; the theorems below are the bridge: for EVERY input
of the Rust parameter type (no sampling; the domain bound is an explicit hypothesis, named `_hdom` where
the proof does not even need it) the hand-written function and the generated one coincide.

Machine arithmetic.  The generated functions compute on `Nat`; next to each function that contains `+`,
`-`, `*`, `<<`, a helper call or `unreachable!()` the translator emits `<fn>_exact`, the (mechanically
derived) condition under which no step overflows / underflows / panics, i.e. under which the `Nat` value
is the Rust value.  The theorems state what `_exact` is on the domain (e.g. `from_size_exact size` is
`size ≠ 0`, which is the hand model's `none` = "arithmetic overflow panic").

Two enum types are related by explicit constructor maps (`bsToGen`, `caToGen` bijections; `srOfGen` sends
the eleven fixed-rate variants to `.fixed (their generated tag)`), so no table is restated here.

NEGATIVE CONTROLS.  Executed on a mutated copy of the crate (`FV_REPO=<copy> python3 tools/translate.py`,
then `lake build FlacVerif.Theorems.C02Hdr`); "fails in T" = the build fails in theorem T:
* `576 | 1152 | 2304 | 4608` without `4608`                 fails in C02H_blockSize_fromSize (hand: `pow2Mul576 3`,
                                                            generated: falls through to `ExtraTwoBytes 4607`);
                                                            also the proof of C02H_blockSize_range_exact
* `Self::ExtraByte(_) => 6` -> `7` (fn tag)                 fails in C02H_blockSize_tag
* `x if x <= 256` -> `x if x <= 257`                        fails in C02H_blockSize_fromSize
* `x if x <= 256` -> `x if x < 256`                         PASSES: an equivalent mutant (256 is taken by the earlier
                                                            256-family arm, so the guard never sees it); the proof
                                                            does not depend on the spelling of the guard
* `ch > 8` -> `ch > 9` (bitrepr.rs, ChannelAssignment)      fails in C02H_channel_write_err (and the proof of
                                                            C02H_channel_write)
* `44_100 => ..` -> `44_000 => ..` (from_freq)              fails in C02H_sampleRate_fromFreq
* `(freq / 1000).try_into()` -> `(freq / 100).try_into()`   fails in C02H_sampleRate_fromFreq
* tags of `Hz` / `DaHz` exchanged (SampleRateSpec::tag)     fails in C02H_sampleRate_tag
* discriminant `B32 = 7` -> `B32 = 8`                       fails in C02H_sampleSizeTag, C02H_sampleSize_fromTag
* `ExtraTwoBytes(v) => dest.write_lsbs(v, 16)` -> `8`       fails in C02H_blockSize_extraBits
* `ExtraByte(x) => Some(x as usize + 1)` -> `+ 2`           fails in C02H_blockSize_blockSize, C02H_headerBlockSize
* RightSide `if ch == 0` -> `if ch == 1`                    fails in C02H_channel_bpsOffset
* reordering two DISJOINT literal arms (`8 =>` / `12 =>` of from_bits; `192 =>` / the 576-family of
  from_size) changes the generated text but not its meaning: PASSES
* exchanging the two catch-all arms of from_size (`x => ..` before `x if x <= 256 => ..`), a range
  pattern, a `#[cfg]` on an arm, a `let`, an unknown method: the translator stops with
  "translator cannot read datatype.rs: fn ...: <reason>" (part status `headers`), nothing is generated.
-/
import FlacVerif.Gen.Headers
import FlacVerif.Model.Codes
import FlacVerif.Model.RepoParser
namespace FlacVerif.C02Hdr
open FlacVerif

/-! ### glue: constructor maps, interpretation of a list of `write_lsbs(v, n)` calls -/

/-- Bits written by a generated writer function: `write_lsbs(v, n)` appends the `n` low bits of `v`,
most significant first. -/
def writesBits : Gen.Headers.Writes → Option Bits
  | none => none
  | some ws => some (ws.flatMap fun p => natToBits p.2 p.1)

def bsToGen : BlockSizeSpec → Gen.Headers.BlockSizeSpec
  | .reserved => .Reserved | .s192 => .S192 | .pow2Mul576 x => .Pow2Mul576 x | .extraByte x => .ExtraByte x
  | .extraTwoBytes x => .ExtraTwoBytes x | .pow2Mul256 x => .Pow2Mul256 x

def bsOfGen : Gen.Headers.BlockSizeSpec → BlockSizeSpec
  | .Reserved => .reserved | .S192 => .s192 | .Pow2Mul576 x => .pow2Mul576 x | .ExtraByte x => .extraByte x
  | .ExtraTwoBytes x => .extraTwoBytes x | .Pow2Mul256 x => .pow2Mul256 x

theorem bsOfGen_toGen (s : BlockSizeSpec) : bsOfGen (bsToGen s) = s := by cases s <;> rfl
theorem bsToGen_ofGen (g : Gen.Headers.BlockSizeSpec) : bsToGen (bsOfGen g) = g := by cases g <;> rfl

def caToGen : ChannelAssignment → Gen.Headers.ChannelAssignment
  | .independent n => .Independent n | .leftSide => .LeftSide | .rightSide => .RightSide | .midSide => .MidSide

def caOfGen : Gen.Headers.ChannelAssignment → ChannelAssignment
  | .Independent n => .independent n | .LeftSide => .leftSide | .RightSide => .rightSide | .MidSide => .midSide

theorem caOfGen_toGen (c : ChannelAssignment) : caOfGen (caToGen c) = c := by cases c <;> rfl
theorem caToGen_ofGen (g : Gen.Headers.ChannelAssignment) : caToGen (caOfGen g) = g := by cases g <;> rfl

/-- The hand model keeps one constructor `fixed t` for the eleven fixed rates; `t` is the tag the Rust
`SampleRateSpec::tag` assigns to the variant (read from the generated function, not restated). -/
def srOfGen : Gen.Headers.SampleRateSpec → SampleRateSpec
  | .Unspecified => .unspecified
  | .KHz v => .kHz v
  | .Hz v => .hz v
  | .DaHz v => .daHz v
  | g => .fixed (Gen.Headers.SampleRateSpec.tag g)

/-! ### BlockSizeSpec -/

/-- `BlockSizeSpec::from_size`, all `size : u16`. The hand model's `none` is exactly the failure of the
mechanically derived exactness condition (`x - 1` with `x = 0`). -/
theorem C02H_blockSize_fromSize (size : Nat) (_hdom : size < 65536) :
    BlockSizeSpec.fromSize size =
      if Gen.Headers.BlockSizeSpec.from_size_exact size = true
      then some (bsOfGen (Gen.Headers.BlockSizeSpec.from_size size)) else none := by
  unfold BlockSizeSpec.fromSize Gen.Headers.BlockSizeSpec.from_size Gen.Headers.BlockSizeSpec.from_size_exact
  by_cases h192 : size = 192
  · subst h192; decide
  · simp only [h192, ↓reduceIte]
    by_cases h576 : size = 576 ∨ size = 1152 ∨ size = 2304 ∨ size = 4608
    · rcases h576 with h | h | h | h <;> subst h <;> decide
    · simp only [h576, ↓reduceIte]
      by_cases h256 : size = 256 ∨ size = 512 ∨ size = 1024 ∨ size = 2048 ∨ size = 4096 ∨ size = 8192 ∨
          size = 16384 ∨ size = 32768
      · rcases h256 with h | h | h | h | h | h | h | h <;> subst h <;> decide
      · simp only [h256, ↓reduceIte]
        by_cases h0 : size = 0
        · subst h0; decide
        · -- the two catch-all arms; written so that it does not depend on how the guard is spelled
          -- (`x <= 256` and `x < 256` are equivalent here: 256 was taken by the 256-family arm)
          have hex : decide (1 ≤ size) = true := by simp; omega
          simp only [h0, ↓reduceIte, hex, ite_self]
          split <;> (try split) <;> simp [bsOfGen] <;> omega

/-- On `u16` the derived panic condition of `from_size` is `size = 0` and nothing else. -/
theorem C02H_blockSize_fromSize_exact (size : Nat) (_hdom : size < 65536) :
    Gen.Headers.BlockSizeSpec.from_size_exact size = true ↔ size ≠ 0 := by
  have := C02H_blockSize_fromSize size _hdom
  unfold BlockSizeSpec.fromSize at this
  constructor
  · intro he h0; subst h0; revert he; decide
  · intro h0
    cases he : Gen.Headers.BlockSizeSpec.from_size_exact size with
    | true => rfl
    | false =>
      rw [he] at this
      simp only [Bool.false_eq_true, ↓reduceIte] at this
      repeat' split at this
      all_goals first | exact absurd this (by simp) | omega

/-- `BlockSizeSpec::tag`, every value. -/
theorem C02H_blockSize_tag (s : BlockSizeSpec) : s.tag = Gen.Headers.BlockSizeSpec.tag (bsToGen s) := by
  cases s <;> rfl

/-- `BlockSizeSpec::write_extra_bits`: the extra field and its width. -/
theorem C02H_blockSize_extraBits (s : BlockSizeSpec) :
    some s.extraBits = writesBits (Gen.Headers.BlockSizeSpec.write_extra_bits (bsToGen s)) := by
  cases s <;> simp [BlockSizeSpec.extraBits, bsToGen, Gen.Headers.BlockSizeSpec.write_extra_bits, writesBits]

/-- `BlockSizeSpec::count_extra_bits` is the length of what `write_extra_bits` writes. -/
theorem C02H_blockSize_extraCount (s : BlockSizeSpec) :
    s.extraBits.length = Gen.Headers.BlockSizeSpec.count_extra_bits (bsToGen s) := by
  cases s <;> simp [BlockSizeSpec.extraBits, bsToGen, Gen.Headers.BlockSizeSpec.count_extra_bits]

/-- `BlockSizeSpec::block_size`, every value. -/
theorem C02H_blockSize_blockSize (s : BlockSizeSpec) :
    s.blockSize = Gen.Headers.BlockSizeSpec.block_size (bsToGen s) := by
  cases s <;> simp [BlockSizeSpec.blockSize, bsToGen, Gen.Headers.BlockSizeSpec.block_size, Nat.one_shiftLeft]

/-- On every spec `from_size` can produce, `tag` (u8 `2 + x`, `8 + x`) and `block_size`
(usize `576 * (1 << x)`, `x + 1`) are exact. -/
theorem C02H_blockSize_range_exact (size : Nat) (_hdom : size < 65536) :
    Gen.Headers.BlockSizeSpec.tag_exact (Gen.Headers.BlockSizeSpec.from_size size) = true ∧
    Gen.Headers.BlockSizeSpec.block_size_exact (Gen.Headers.BlockSizeSpec.from_size size) = true := by
  unfold Gen.Headers.BlockSizeSpec.from_size
  by_cases h192 : size = 192
  · subst h192; decide
  · simp only [h192, ↓reduceIte]
    by_cases h576 : size = 576 ∨ size = 1152 ∨ size = 2304 ∨ size = 4608
    · rcases h576 with h | h | h | h <;> subst h <;> decide
    · simp only [h576, ↓reduceIte]
      by_cases h256 : size = 256 ∨ size = 512 ∨ size = 1024 ∨ size = 2048 ∨ size = 4096 ∨ size = 8192 ∨
          size = 16384 ∨ size = 32768
      · rcases h256 with h | h | h | h | h | h | h | h <;> subst h <;> decide
      · simp only [h256, ↓reduceIte]
        split <;> simp only [Gen.Headers.BlockSizeSpec.tag_exact, Gen.Headers.BlockSizeSpec.block_size_exact,
          decide_eq_true_eq, true_and] <;> omega

/-- Everything the header writer uses of a block size, in one statement: 4-bit code, extra field, and the
size the parser reads back, for all `size : u16`. -/
theorem C02H_blockSize_code (size : Nat) (hdom : size < 65536) (h0 : size ≠ 0) :
    (BlockSizeSpec.fromSize size).map (fun s => (s.tag, some s.extraBits, s.blockSize)) =
      some (Gen.Headers.BlockSizeSpec.tag (Gen.Headers.BlockSizeSpec.from_size size),
            writesBits (Gen.Headers.BlockSizeSpec.write_extra_bits (Gen.Headers.BlockSizeSpec.from_size size)),
            Gen.Headers.BlockSizeSpec.block_size (Gen.Headers.BlockSizeSpec.from_size size)) := by
  rw [C02H_blockSize_fromSize size hdom, (C02H_blockSize_fromSize_exact size hdom).2 h0]
  simp only [↓reduceIte, Option.map_some, C02H_blockSize_tag, C02H_blockSize_extraBits, C02H_blockSize_blockSize,
    bsToGen_ofGen]

/-- `FrameHeader::block_size()` of the parser mirror (debug-checked usize arithmetic, 64 bits) against the
generated `block_size` / `block_size_exact`. -/
theorem C02H_headerBlockSize (h : FrameHeader) :
    (Gen.Headers.BlockSizeSpec.block_size_exact (bsToGen h.blockSizeSpec) = true →
      match Gen.Headers.BlockSizeSpec.block_size (bsToGen h.blockSizeSpec) with
      | some n => Repo.headerBlockSize h = .ok n
      | none => (Repo.headerBlockSize h).isPanic = true) ∧
    (Gen.Headers.BlockSizeSpec.block_size_exact (bsToGen h.blockSizeSpec) = false →
      (Repo.headerBlockSize h).isPanic = true) := by
  unfold Repo.headerBlockSize
  cases hs : h.blockSizeSpec with
  | reserved => simp [bsToGen, Gen.Headers.BlockSizeSpec.block_size, Gen.Headers.BlockSizeSpec.block_size_exact, Repo.PResult.isPanic]
  | s192 => simp [bsToGen, Gen.Headers.BlockSizeSpec.block_size, Gen.Headers.BlockSizeSpec.block_size_exact]
  | extraByte x =>
    simp only [bsToGen, Gen.Headers.BlockSizeSpec.block_size, Gen.Headers.BlockSizeSpec.block_size_exact, Repo.uadd,
      decide_eq_true_eq, decide_eq_false_iff_not]
    constructor
    · intro hx; simp [show x + 1 < 2 ^ 64 from hx]
    · intro hx; simp [show ¬ x + 1 < 2 ^ 64 from hx, Repo.PResult.isPanic]
  | extraTwoBytes x =>
    simp only [bsToGen, Gen.Headers.BlockSizeSpec.block_size, Gen.Headers.BlockSizeSpec.block_size_exact, Repo.uadd,
      decide_eq_true_eq, decide_eq_false_iff_not]
    constructor
    · intro hx; simp [show x + 1 < 2 ^ 64 from hx]
    · intro hx; simp [show ¬ x + 1 < 2 ^ 64 from hx, Repo.PResult.isPanic]
  | pow2Mul576 x =>
    simp only [bsToGen, Gen.Headers.BlockSizeSpec.block_size, Gen.Headers.BlockSizeSpec.block_size_exact, Repo.ushl,
      Repo.umul, Nat.one_shiftLeft, Bool.and_eq_true, decide_eq_true_eq, Nat.one_mul]
    by_cases hx : x < 64
    · have hp : 2 ^ x < 2 ^ 64 := Nat.pow_lt_pow_right (by decide) hx
      have hm : 2 ^ x % 2 ^ 64 = 2 ^ x := Nat.mod_eq_of_lt hp
      by_cases hm2 : 576 * 2 ^ x < 2 ^ 64
      · simp [hx, hm, hm2, hp]
      · simp [hx, hm, hm2, hp, Repo.PResult.isPanic]
    · simp [hx, Repo.PResult.isPanic]
  | pow2Mul256 x =>
    simp only [bsToGen, Gen.Headers.BlockSizeSpec.block_size, Gen.Headers.BlockSizeSpec.block_size_exact, Repo.ushl,
      Repo.umul, Nat.one_shiftLeft, Bool.and_eq_true, decide_eq_true_eq, Nat.one_mul]
    by_cases hx : x < 64
    · have hp : 2 ^ x < 2 ^ 64 := Nat.pow_lt_pow_right (by decide) hx
      have hm : 2 ^ x % 2 ^ 64 = 2 ^ x := Nat.mod_eq_of_lt hp
      by_cases hm2 : 256 * 2 ^ x < 2 ^ 64
      · simp [hx, hm, hm2, hp]
      · simp [hx, hm, hm2, hp, Repo.PResult.isPanic]
    · simp [hx, Repo.PResult.isPanic]

/-! ### SampleSizeSpec -/

/-- `SampleSizeSpec::from_bits(bits).unwrap_or(Unspecified).into_tag()` (coding.rs builds the header so),
all `bits : u8`; `into_tag` is `self as u8`, i.e. the explicit discriminants of the enum. -/
theorem C02H_sampleSizeTag (bits : Nat) (_hdom : bits < 256) :
    sampleSizeTag bits =
      Gen.Headers.SampleSizeSpec.into_tag
        ((Gen.Headers.SampleSizeSpec.from_bits bits).getD Gen.Headers.SampleSizeSpec.Unspecified) := by
  unfold sampleSizeTag Gen.Headers.SampleSizeSpec.from_bits
  -- case analysis on the HAND model's conditions only, so that a reordering of the (disjoint) source arms
  -- does not disturb the proof
  by_cases h8 : bits = 8; · subst h8; rfl
  by_cases h12 : bits = 12; · subst h12; rfl
  by_cases h16 : bits = 16; · subst h16; rfl
  by_cases h20 : bits = 20; · subst h20; rfl
  by_cases h24 : bits = 24; · subst h24; rfl
  by_cases h32 : bits = 32; · subst h32; rfl
  simp only [h8, h12, h16, h20, h24, h32, ↓reduceIte]
  rfl

/-- `SampleSizeSpec::from_tag` then `into_bits` (parser mirror `sampleSizeBits`), all `tag : u8`. -/
theorem C02H_sampleSizeBits (tag : Nat) (_hdom : tag < 256) :
    Repo.sampleSizeBits tag =
      (Gen.Headers.SampleSizeSpec.from_tag tag).bind Gen.Headers.SampleSizeSpec.into_bits := by
  unfold Repo.sampleSizeBits Gen.Headers.SampleSizeSpec.from_tag
  rcases tag with _ | _ | _ | _ | _ | _ | _ | _ | t
  all_goals rfl

/-- `SampleSizeSpec::from_tag` accepts exactly the 3-bit values and `into_tag` gives the tag back (the parser
mirror keeps the tag itself in the header: `if ssTag > 7 then reject`). -/
theorem C02H_sampleSize_fromTag (tag : Nat) (_hdom : tag < 256) :
    (Gen.Headers.SampleSizeSpec.from_tag tag).map Gen.Headers.SampleSizeSpec.into_tag =
      if tag > 7 then none else some tag := by
  unfold Gen.Headers.SampleSizeSpec.from_tag
  rcases tag with _ | _ | _ | _ | _ | _ | _ | _ | t
  all_goals rfl

/-- `into_bits` inverts `from_bits`, all `bits : u8`. -/
theorem C02H_sampleSize_bits_roundtrip (bits : Nat) (_hdom : bits < 256) (s : Gen.Headers.SampleSizeSpec)
    (h : Gen.Headers.SampleSizeSpec.from_bits bits = some s) : Gen.Headers.SampleSizeSpec.into_bits s = some bits := by
  unfold Gen.Headers.SampleSizeSpec.from_bits at h
  repeat' split at h
  all_goals first | (cases h; subst_vars; rfl) | (exact absurd h (by simp))

/-! ### SampleRateSpec -/

/-- `SampleRateSpec::from_freq`, all `freq : u32` (the match on the eleven fixed rates, then the three
`or_else` fallbacks kHz / daHz / Hz with their `try_into` range checks). `none` exactly when Rust
returns `None`. -/
theorem C02H_sampleRate_fromFreq (freq : Nat) (_hdom : freq < 2 ^ 32) :
    SampleRateSpec.fromFreq freq = (Gen.Headers.SampleRateSpec.from_freq freq).map srOfGen := by
  unfold SampleRateSpec.fromFreq Gen.Headers.SampleRateSpec.from_freq
  by_cases h1 : freq = 88200; · subst h1; decide
  by_cases h2 : freq = 176400; · subst h2; decide
  by_cases h3 : freq = 192000; · subst h3; decide
  by_cases h4 : freq = 8000; · subst h4; decide
  by_cases h5 : freq = 16000; · subst h5; decide
  by_cases h6 : freq = 22050; · subst h6; decide
  by_cases h7 : freq = 24000; · subst h7; decide
  by_cases h8 : freq = 32000; · subst h8; decide
  by_cases h9 : freq = 44100; · subst h9; decide
  by_cases h10 : freq = 48000; · subst h10; decide
  by_cases h11 : freq = 96000; · subst h11; decide
  have e (n : Nat) (h : ¬ freq = n) : (freq == n) = false := by simp [h]
  have hl : sampleRateTable.lookup freq = none := by
    simp only [sampleRateTable, List.lookup, e _ h1, e _ h2, e _ h3, e _ h4, e _ h5, e _ h6, e _ h7, e _ h8, e _ h9,
      e _ h10, e _ h11]
  have e0 : ∀ a : Nat, (0 = a) = (a = 0) := fun a => propext eq_comm
  simp only [hl, h1, h2, h3, h4, h5, h6, h7, h8, h9, h10, h11, ↓reduceIte, Gen.Headers.orElse, e0]
  by_cases hk : freq % 1000 = 0
  · by_cases hk2 : freq / 1000 < 256
    · simp [hk, hk2, Gen.Headers.boolThen, Gen.Headers.flatten, Gen.Headers.tryInto, srOfGen]
    · by_cases hd2 : freq / 10 < 65536
      · have hd : freq % 10 = 0 := by omega
        simp [hk, hk2, hd, hd2, Gen.Headers.boolThen, Gen.Headers.flatten, Gen.Headers.tryInto, srOfGen]
      · have hh : ¬ freq < 65536 := by omega
        simp [hk, hk2, hd2, hh, Gen.Headers.boolThen, Gen.Headers.flatten, Gen.Headers.tryInto]
  · by_cases hd : freq % 10 = 0
    · by_cases hd2 : freq / 10 < 65536
      · simp [hk, hd, hd2, Gen.Headers.boolThen, Gen.Headers.flatten, Gen.Headers.tryInto, srOfGen]
      · have hh : ¬ freq < 65536 := by omega
        simp [hk, hd, hd2, hh, Gen.Headers.boolThen, Gen.Headers.flatten, Gen.Headers.tryInto]
    · by_cases hh : freq < 65536
      · simp [hk, hd, hh, Gen.Headers.boolThen, Gen.Headers.flatten, Gen.Headers.tryInto, srOfGen]
      · simp [hk, hd, hh, Gen.Headers.boolThen, Gen.Headers.flatten, Gen.Headers.tryInto]

/-- `SampleRateSpec::tag`, every value. -/
theorem C02H_sampleRate_tag (g : Gen.Headers.SampleRateSpec) :
    (srOfGen g).tag = Gen.Headers.SampleRateSpec.tag g := by
  cases g <;> rfl

/-- The tags of the eleven fixed-rate variants are 1..11 (never the escape codes 12..14, never 0 or 15). -/
theorem C02H_sampleRate_fixed_tags (g : Gen.Headers.SampleRateSpec) (t : Nat) (h : srOfGen g = .fixed t) :
    1 ≤ t ∧ t ≤ 11 := by
  cases g <;> simp [srOfGen, Gen.Headers.SampleRateSpec.tag] at h <;> omega

/-- `SampleRateSpec::write_extra_bits`. -/
theorem C02H_sampleRate_extraBits (g : Gen.Headers.SampleRateSpec) :
    some (srOfGen g).extraBits = writesBits (Gen.Headers.SampleRateSpec.write_extra_bits g) := by
  cases g <;> simp [SampleRateSpec.extraBits, srOfGen, Gen.Headers.SampleRateSpec.write_extra_bits, writesBits]

/-- `SampleRateSpec::count_extra_bits`. -/
theorem C02H_sampleRate_extraCount (g : Gen.Headers.SampleRateSpec) :
    (srOfGen g).extraBits.length = Gen.Headers.SampleRateSpec.count_extra_bits g := by
  cases g <;> simp [SampleRateSpec.extraBits, srOfGen, Gen.Headers.SampleRateSpec.count_extra_bits]

/-- Everything the header writer uses of a sample rate: 4-bit code and extra field, all `freq : u32`. -/
theorem C02H_sampleRate_code (freq : Nat) (hdom : freq < 2 ^ 32) :
    (SampleRateSpec.fromFreq freq).map (fun s => (s.tag, some s.extraBits)) =
      (Gen.Headers.SampleRateSpec.from_freq freq).map (fun g =>
        (Gen.Headers.SampleRateSpec.tag g, writesBits (Gen.Headers.SampleRateSpec.write_extra_bits g))) := by
  rw [C02H_sampleRate_fromFreq freq hdom]
  cases Gen.Headers.SampleRateSpec.from_freq freq with
  | none => rfl
  | some g => simp [C02H_sampleRate_tag, C02H_sampleRate_extraBits]

/-- `SampleRateSpec::from_tag_and_data`: the `unreachable!()` arm is unreachable, all `tag : u8`. -/
theorem C02H_sampleRate_fromTag_exact (tag : Nat) (_hdom : tag < 256) (v : Option Nat) :
    Gen.Headers.SampleRateSpec.from_tag_and_data_exact tag v = true := by
  unfold Gen.Headers.SampleRateSpec.from_tag_and_data_exact
  by_cases h : tag > 14
  · simp [h]
  · have : tag ≤ 14 := by omega
    rcases tag with _ | _ | _ | _ | _ | _ | _ | _ | _ | _ | _ | _ | _ | _ | _ | t
    all_goals first | rfl | (exfalso; omega)

/-- Parser mirror `sampleRateCode` (parser.rs `sample_rate_code`: read the extra field for tags 12/13/14,
then `from_tag_and_data`), tags without data. -/
theorem C02H_sampleRateCode_nodata (tag : Nat) (_hdom : tag < 256) (ht : tag ≠ 12 ∧ tag ≠ 13 ∧ tag ≠ 14) (i : Bits) :
    Repo.sampleRateCode tag i =
      match (Gen.Headers.SampleRateSpec.from_tag_and_data tag none).map srOfGen with
      | some s => .ok (s, i)
      | none => .error false := by
  obtain ⟨h12, h13, h14⟩ := ht
  unfold Repo.sampleRateCode Gen.Headers.SampleRateSpec.from_tag_and_data
  by_cases hgt : tag > 14
  · simp [hgt]
  · simp only [hgt, ↓reduceIte, h12, h13, h14]
    have : tag ≤ 11 := by omega
    rcases tag with _ | _ | _ | _ | _ | _ | _ | _ | _ | _ | _ | _ | t
    all_goals first | rfl | omega

/-- Parser mirror `sampleRateCode`, tags with data (`x` = the big-endian value of the 1 or 2 bytes read;
`value? as u8` / `as u16` truncate). -/
theorem C02H_sampleRateCode_data (tag : Nat) (ht : tag = 12 ∨ tag = 13 ∨ tag = 14) (i : Bits) :
    Repo.sampleRateCode tag i =
      (Repo.beUint (if tag = 12 then 1 else 2) i >>= fun (x, i') =>
        match (Gen.Headers.SampleRateSpec.from_tag_and_data tag (some x)).map srOfGen with
        | some s => Repo.PResult.ok (s, i')
        | none => .error false) := by
  unfold Repo.sampleRateCode Gen.Headers.SampleRateSpec.from_tag_and_data
  rcases ht with h | h | h <;> subst h <;> simp <;>
    cases Repo.beUint _ i <;> simp [srOfGen]

/-! ### ChannelAssignment -/

/-- `ChannelAssignment::channels`, every value. -/
theorem C02H_channel_channels (c : ChannelAssignment) :
    c.channels = Gen.Headers.ChannelAssignment.channels (caToGen c) := by
  cases c <;> rfl

/-- `ChannelAssignment::bits_per_sample_offset`, every value and channel index. -/
theorem C02H_channel_bpsOffset (c : ChannelAssignment) (ch : Nat) :
    c.bpsOffset ch = Gen.Headers.ChannelAssignment.bits_per_sample_offset (caToGen c) ch := by
  cases c <;> rfl

/-- `impl BitRepr for ChannelAssignment`: `count_bits` is 4. -/
theorem C02H_channel_countBits (c : ChannelAssignment) :
    Gen.Headers.ChannelAssignment.count_bits (caToGen c) = 4 := rfl

/-- `impl BitRepr for ChannelAssignment::write` for the assignments of a valid stream (1..=8 independent
channels, or one of the three stereo modes): exactly the 4 bits `tag`, no panic, no error. -/
theorem C02H_channel_write (c : ChannelAssignment)
    (hc : match c with | .independent n => 1 ≤ n ∧ n ≤ 8 | _ => True) :
    writesBits (Gen.Headers.ChannelAssignment.write (caToGen c)) = some (natToBits 4 c.tag) ∧
    Gen.Headers.ChannelAssignment.write_exact (caToGen c) = true := by
  cases c with
  | independent n =>
    have h8 : ¬ n > 8 := by omega
    simp [caToGen, Gen.Headers.ChannelAssignment.write, Gen.Headers.ChannelAssignment.write_exact,
      Gen.Headers.seqW, writesBits, ChannelAssignment.tag, h8, hc.1]
  | leftSide => decide
  | rightSide => decide
  | midSide => decide

/-- `write` returns `Err` (RangeError) for more than 8 independent channels. -/
theorem C02H_channel_write_err (n : Nat) (h : 8 < n) :
    Gen.Headers.ChannelAssignment.write (.Independent n) = none := by
  simp [Gen.Headers.ChannelAssignment.write, Gen.Headers.seqW, h]

/-- DISCREPANCY (reported, not fixed): the hand model `FrameHeader.bodyBits` rejects on `assignment.tag > 15`,
the Rust writer on `ch > 8`. For `independent n` with `9 ≤ n ≤ 16` the hand model writes the (reserved)
code `n - 1` where Rust returns `Err(RangeError)`; for `n = 0` Rust computes `0u8 - 1` (panic in a checked
build, code 15 otherwise) where the hand model writes code 0. Both are outside `1 ≤ n ≤ 8`, which every
caller establishes (`C02_channel_code`, `FrameHeaderOk`), so no theorem is affected. -/
theorem C02H_channel_write_discrepancy (n : Nat) (h : 9 ≤ n ∧ n ≤ 16) :
    Gen.Headers.ChannelAssignment.write (caToGen (.independent n)) = none ∧
    ¬ (ChannelAssignment.independent n).tag > 15 := by
  refine ⟨C02H_channel_write_err n (by omega), ?_⟩
  simp only [ChannelAssignment.tag]; omega

/-- `ChannelAssignment::from_tag` (parser mirror `channelFromTag`), all `tag : u8`; `tag + 1` never
overflows. -/
theorem C02H_channel_fromTag (tag : Nat) (_hdom : tag < 256) :
    Repo.channelFromTag tag = .ok ((Gen.Headers.ChannelAssignment.from_tag tag).map caOfGen) ∧
    Gen.Headers.ChannelAssignment.from_tag_exact tag = true := by
  unfold Repo.channelFromTag Gen.Headers.ChannelAssignment.from_tag Gen.Headers.ChannelAssignment.from_tag_exact Repo.uadd
  by_cases h8 : tag < 8
  · have : tag + 1 < 2 ^ 8 := by omega
    simp [h8, this, caOfGen]
  · simp only [h8, ↓reduceIte]
    repeat' split
    all_goals simp [caOfGen]

end FlacVerif.C02Hdr
