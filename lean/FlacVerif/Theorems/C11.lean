/-
C11 — Bit sinks behave as an ideal MSB-first bit string.

Property theorems only; helper lemmas live in `FlacVerif/Lemmas/{WordSink*,ByteSink*}.lean`.
The models `WordSink` / `ByteSink` mirror `src/bitsink.rs` statement by statement
(`FlacVerif/Model/Sink.lean`); `none` is a panic of the Rust code (dev profile).
-/
import FlacVerif.Lemmas.WordSinkStep
import FlacVerif.Lemmas.ByteSinkStep
namespace FlacVerif.C11
open FlacVerif

/-- `MemSink<u64>`: every valid operation, from every state satisfying the representation
invariant (hence from every bit offset 0..63), does not panic, re-establishes the invariant
(unwritten tail bits zero, exactly ⌈len/64⌉ words) and appends exactly the ideal bits. -/
theorem C11_word_refines (s : WordSink) (op : Op) (hi : s.Inv) (hv : op.Valid) :
    ∃ s', s.step op = some s' ∧ s'.Inv ∧ s'.abs = s.abs ++ op.ideal s.len ∧ s'.len = s'.abs.length := by
  obtain ⟨s', h, r⟩ := WordSink.step_refines s hi op hv
  exact ⟨s', h, r.inv, r.abs, by simp [WordSink.abs]⟩

/-- `MemSink<u8>` (`ByteSink`): same statement. -/
theorem C11_byte_refines (s : ByteSink) (op : Op) (hi : s.Inv) (hv : op.Valid) :
    ∃ s', s.step op = some s' ∧ s'.Inv ∧ s'.abs = s.abs ++ op.ideal s.len ∧ s'.len = s'.abs.length := by
  obtain ⟨s', h, r⟩ := ByteSink.step_refines s hi op hv
  exact ⟨s', h, r.inv, r.abs, by simp [ByteSink.abs]⟩

/-- Any finite sequence of valid operations on a fresh `MemSink<u64>`: the sink holds exactly the
ideal bit string, of exactly that length. No bound on the number or size of operations. -/
theorem C11_word_run (ops : List Op) (hv : ∀ op ∈ ops, op.Valid) :
    ∃ s', WordSink.empty.run ops = some s' ∧ s'.Inv ∧ s'.abs = idealRun 0 ops ∧ s'.len = (idealRun 0 ops).length := by
  obtain ⟨s', h, r⟩ := WordSink.run_refines WordSink.empty WordSink.inv_empty ops hv
  refine ⟨s', h, r.inv, ?_, ?_⟩
  · have := r.abs; simpa [WordSink.abs, WordSink.empty] using this
  · have := r.len; simpa [WordSink.empty] using this

theorem C11_byte_run (ops : List Op) (hv : ∀ op ∈ ops, op.Valid) :
    ∃ s', ByteSink.empty.run ops = some s' ∧ s'.Inv ∧ s'.abs = idealRun 0 ops ∧ s'.len = (idealRun 0 ops).length := by
  obtain ⟨s', h, r⟩ := ByteSink.run_refines ByteSink.empty ByteSink.inv_empty ops hv
  refine ⟨s', h, r.inv, ?_, ?_⟩
  · have := r.abs; simpa [ByteSink.abs, ByteSink.empty] using this
  · have := r.len; simpa [ByteSink.empty] using this

/-- Both sinks agree with each other on every op sequence (same bits, same length). -/
theorem C11_sinks_agree (ops : List Op) (hv : ∀ op ∈ ops, op.Valid) :
    ∃ b w, ByteSink.empty.run ops = some b ∧ WordSink.empty.run ops = some w ∧ b.abs = w.abs ∧ b.len = w.len := by
  obtain ⟨b, hb, _, hb2, hb3⟩ := C11_byte_run ops hv
  obtain ⟨w, hw, _, hw2, hw3⟩ := C11_word_run ops hv
  exact ⟨b, w, hb, hw, by rw [hb2, hw2], by rw [hb3, hw3]⟩

/-! ### provided trait methods: a user sink implementing only the required operations -/

theorem idealRun_append (len : Nat) (a b : List Op) :
    idealRun len (a ++ b) = idealRun len a ++ idealRun (len + (idealRun len a).length) b := by
  induction a generalizing len with
  | nil => simp [idealRun]
  | cons op a ih =>
    simp only [List.cons_append, idealRun, ih, List.append_assoc, List.length_append]
    congr 3; omega

theorem natToBits_zero (w : Nat) : natToBits w 0 = List.replicate w false := by
  induction w with
  | zero => rfl
  | succ w ih => simp [natToBits, ih, List.replicate_succ]

theorem idealRun_writes (len : Nat) (bs : List Nat) :
    idealRun len (bs.map fun b => Op.write 8 b) = bytesToBits bs := by
  induction bs generalizing len with
  | nil => rfl
  | cons b bs ih => simp [idealRun, Op.ideal, ih, bytesToBits]

theorem idealRun_zero_words (len k : Nat) :
    idealRun len (List.replicate k (Op.write 64 0)) = List.replicate (64 * k) false := by
  induction k generalizing len with
  | zero => rfl
  | succ k ih =>
    rw [List.replicate_succ, idealRun]
    show natToBits 64 0 ++ idealRun _ (List.replicate k (Op.write 64 0)) = _
    rw [ih, natToBits_zero, List.replicate_append_replicate]; congr 1; omega

/-- The expansion of each provided method into required ones (bitsink.rs:115-122, 208-217,
261-270) writes the same bits: a sink that implements only `align_to_byte`, `write_lsbs`,
`write_msbs` and `write` receives exactly the ideal bit string. -/
theorem C11_defaults_op (len : Nat) (op : Op) (hv : op.Valid) :
    idealRun len op.expand = op.ideal len := by
  cases op with
  | alignToByte => simp [Op.expand, idealRun]
  | writeLsbs w v n => simp [Op.expand, idealRun]
  | writeMsbs w v n => simp [Op.expand, idealRun]
  | write w v => simp [Op.expand, idealRun]
  | writeZeros n =>
    simp only [Op.expand, Op.ideal]
    rw [idealRun_append, idealRun_zero_words]
    show _ ++ ((natToBits 64 0).take _ ++ []) = _
    rw [natToBits_zero, List.take_replicate, List.append_nil, List.replicate_append_replicate]
    congr 1
    by_cases h : n > 64
    · simp only [h, ↓reduceIte]; omega
    · simp only [h, ↓reduceIte]; omega
  | writeBytesAligned bs =>
    simp only [Op.expand, idealRun, Op.ideal, idealRun_writes]
  | writeTwoc v n =>
    obtain ⟨h1, hn, _⟩ := hv
    simp only [Op.expand, idealRun, Op.ideal, List.append_nil, twoc]
    apply List.ext_getElem
    · simp [List.length_take]; omega
    · intro j hj1 hj2
      have hj : j < n := by simpa using hj2
      rw [List.getElem_take, getElem_natToBits, getElem_natToBits]
      simp only [BitVec.toNat_shiftLeft, BitVec.toNat_ofInt]
      have e : (2 : Int) ^ 64 = ((2 ^ 64 : Nat) : Int) := by simp
      rw [Nat.testBit_mod_two_pow, Nat.shiftLeft_eq, Nat.testBit_mul_two_pow]
      have a1 : 64 - 1 - j < 64 := by omega
      have a2 : 64 - n ≤ 64 - 1 - j := by omega
      have a3 : 64 - 1 - j - (64 - n) = n - 1 - j := by omega
      simp only [a1, a2, a3, decide_true, Bool.true_and]
      exact WordSink.testBit_emod_two_pow v n (n - 1 - j) (by omega) hn

theorem expand_valid_length (len : Nat) (op : Op) (hv : op.Valid) :
    (idealRun len op.expand).length = (op.ideal len).length := by rw [C11_defaults_op len op hv]

/-- Sequence form of `C11_defaults_op`. -/
theorem C11_defaults (len : Nat) (ops : List Op) (hv : ∀ op ∈ ops, op.Valid) :
    idealRun len (ops.flatMap Op.expand) = idealRun len ops := by
  induction ops generalizing len with
  | nil => rfl
  | cons op ops ih =>
    simp only [List.flatMap_cons, idealRun_append, idealRun]
    rw [C11_defaults_op len op (hv op (by simp)), ih _ (fun o ho => hv o (by simp [ho]))]

/-! ### non-vacuity: concrete reachable states and operations meeting the hypotheses -/

/-- The zero-width write after a partial word (finding F6) is a valid operation and is covered. -/
example : (Op.writeMsbs 16 0xFFFF 0).Valid ∧ (Op.writeLsbs 8 1 1).Valid ∧ (Op.writeTwoc (-7) 4).Valid := by
  decide

/-- F6 regression on the model: one bit, a zero-width write of an all-ones operand, eight zeros. -/
example : (WordSink.empty.run [.writeLsbs 8 1 1, .writeMsbs 16 0xFFFF 0, .writeZeros 8]).map (·.abs)
    = some [true, false, false, false, false, false, false, false, false] := by decide

example : (ByteSink.empty.run [.writeLsbs 8 0xFF 3, .writeBytesAligned [0xB7, 0x7D]]).map (·.exportBytes)
    = some [0xE0, 0xB7, 0x7D] := by decide

end FlacVerif.C11
