/-
C04 — STREAMINFO block-size and frame-size bounds are valid and exact.
-/
import FlacVerif.Model.Encoder
namespace FlacVerif.C04
open FlacVerif

def lens (frames : List (Nat × Nat)) : List Nat := frames.map fun f => f.2 / 8

/-- Invariant of the `add_frame` fold: the frame-size bounds are the min / max over the frames
added so far (starting from the initial `u32::MAX` / `0`). -/
theorem fold_bounds (s0 : StreamInfo) (frames : List (Nat × Nat))
    (hb : ∀ f ∈ frames, f.2 / 8 < 2 ^ 32) :
    let s1 := frames.foldl (fun s f => s.addFrameCast f.1 f.2) s0
    s1.minFrame = (lens frames).foldl min s0.minFrame ∧ s1.maxFrame = (lens frames).foldl max s0.maxFrame := by
  induction frames generalizing s0 with
  | nil => simp [lens]
  | cons f fs ih =>
    have hf : f.2 / 8 % 2 ^ 32 = f.2 / 8 := Nat.mod_eq_of_lt (hb f (by simp))
    have := ih (s0.addFrameCast f.1 f.2) (fun g hg => hb g (by simp [hg]))
    simp only [List.foldl_cons, lens, List.map_cons] at this ⊢
    simp only [StreamInfo.addFrameCast, hf] at this ⊢
    refine ⟨?_, ?_⟩
    · rw [this.1, Nat.min_comm]
    · rw [this.2, Nat.max_comm]

theorem foldl_min_le (l : List Nat) (a : Nat) : l.foldl min a ≤ a := by
  induction l generalizing a with
  | nil => simp
  | cons x l ih => exact Nat.le_trans (ih _) (Nat.min_le_left _ _)

theorem foldl_min_le_mem (l : List Nat) (a x : Nat) (hx : x ∈ l) : l.foldl min a ≤ x := by
  induction l generalizing a with
  | nil => cases hx
  | cons y l ih =>
    simp only [List.foldl_cons]
    rcases List.mem_cons.mp hx with h | h
    · subst h; exact Nat.le_trans (foldl_min_le l _) (Nat.min_le_right _ _)
    · exact ih _ h

theorem le_foldl_max (l : List Nat) (a : Nat) : a ≤ l.foldl max a := by
  induction l generalizing a with
  | nil => simp
  | cons x l ih => exact Nat.le_trans (Nat.le_max_left _ _) (ih _)

theorem mem_le_foldl_max (l : List Nat) (a x : Nat) (hx : x ∈ l) : x ≤ l.foldl max a := by
  induction l generalizing a with
  | nil => cases hx
  | cons y l ih =>
    simp only [List.foldl_cons]
    rcases List.mem_cons.mp hx with h | h
    · subst h; exact Nat.le_trans (Nat.le_max_right _ _) (le_foldl_max l _)
    · exact ih _ h

theorem foldl_min_mem (l : List Nat) (a : Nat) : l.foldl min a = a ∨ l.foldl min a ∈ l := by
  induction l generalizing a with
  | nil => simp
  | cons x l ih =>
    simp only [List.foldl_cons]
    rcases ih (min a x) with h | h
    · rw [h]
      rcases Nat.le_total a x with h1 | h1
      · left; exact Nat.min_eq_left h1
      · right; rw [Nat.min_eq_right h1]; simp
    · right; simp [h]

theorem foldl_max_mem (l : List Nat) (a : Nat) : l.foldl max a = a ∨ l.foldl max a ∈ l := by
  induction l generalizing a with
  | nil => simp
  | cons x l ih =>
    simp only [List.foldl_cons]
    rcases ih (max a x) with h | h
    · rw [h]
      rcases Nat.le_total a x with h1 | h1
      · right; rw [Nat.max_eq_right h1]; simp
      · left; exact Nat.max_eq_left h1
    · right; simp [h]

/-- **C04.** For every stream with at least one frame assembled by the encoder (either path):
the block-size fields equal the requested block size (hence ≥ 16 for every verified configuration,
and not above any non-final frame, which holds exactly `bs` samples); the frame-size fields are
attained by some frame and bound every frame — i.e. they are the minimum and maximum byte length —
whatever the input length is. No bound on the number of frames. -/
theorem C04_bounds (rate channels bps bs total : Nat) (md5 : List Nat) (frames : List (Nat × Nat))
    (hne : frames ≠ []) (hb : ∀ f ∈ frames, f.2 / 8 < 2 ^ 32) :
    let si := assembleInfo rate channels bps bs frames total md5
    si.maxBlock = bs ∧ si.minBlock = bs ∧
    (∀ x ∈ lens frames, si.minFrame ≤ x ∧ x ≤ si.maxFrame) ∧
    si.minFrame ∈ lens frames ∧ si.maxFrame ∈ lens frames := by
  have hfold := fold_bounds ({ StreamInfo.empty rate channels bps with minBlock := bs, maxBlock := bs }) frames hb
  obtain ⟨h1, h2⟩ := hfold
  have e1 : (assembleInfo rate channels bps bs frames total md5).minFrame =
      (lens frames).foldl min (2 ^ 32 - 1) := by simpa [assembleInfo, StreamInfo.empty] using h1
  have e2 : (assembleInfo rate channels bps bs frames total md5).maxFrame =
      (lens frames).foldl max 0 := by simpa [assembleInfo, StreamInfo.empty] using h2
  obtain ⟨f, fs, rfl⟩ := List.exists_cons_of_ne_nil hne
  have hf := hb f (by simp)
  refine ⟨by simp [assembleInfo], by simp [assembleInfo], ?_, ?_, ?_⟩
  · intro x hx
    rw [e1, e2]
    exact ⟨foldl_min_le_mem _ _ _ hx, mem_le_foldl_max _ _ _ hx⟩
  · rw [e1]
    rcases foldl_min_mem (lens (f :: fs)) (2 ^ 32 - 1) with h | h
    · -- the minimum stays at the initial 2^32-1 only if a frame has exactly that size
      have hle := foldl_min_le_mem (lens (f :: fs)) (2 ^ 32 - 1) (f.2 / 8) (by simp [lens])
      have : f.2 / 8 = 2 ^ 32 - 1 := by omega
      rw [h]; simp [lens, this]
    · exact h
  · rw [e2]
    rcases foldl_max_mem (lens (f :: fs)) 0 with h | h
    · have hle := mem_le_foldl_max (lens (f :: fs)) 0 (f.2 / 8) (by simp [lens])
      have : f.2 / 8 = 0 := by omega
      rw [h]; simp [lens, this]
    · exact h

/-- With no frame (empty input) the writer emits the "unknown" notation 0/0 (fix of F9), which a
strict decoder accepts. -/
theorem C04_empty (rate channels bps bs total : Nat) (md5 : List Nat) :
    let si := assembleInfo rate channels bps bs [] total md5
    si.minFrame > si.maxFrame ∧ si.minBlock = bs ∧ si.maxBlock = bs := by
  simp [assembleInfo, StreamInfo.empty]

/-- Non-vacuity and regression for finding F1 (1 channel, bs = 64, 69 samples: frames of 64 and 5
samples): the minimum block size stays 64 (it was 5 before the repair). -/
example : (assembleInfo 44100 1 16 64 [(64, 8 * 120), (5, 8 * 20)] 69 (List.replicate 16 0)).minBlock = 64 ∧
    (assembleInfo 44100 1 16 64 [(64, 8 * 120), (5, 8 * 20)] 69 (List.replicate 16 0)).minFrame = 20 ∧
    (assembleInfo 44100 1 16 64 [(64, 8 * 120), (5, 8 * 20)] 69 (List.replicate 16 0)).maxFrame = 120 := by decide

end FlacVerif.C04
