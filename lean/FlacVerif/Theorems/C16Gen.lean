/-
C16Gen — the hand-written mirror of the repository's nom parser (`Model/RepoParser.lean`, parser half) equals the code
GENERATED from the current text of `src/component/parser.rs` (`Gen/Parser.lean`, translator part `parser`).

Outcome map `cls`: the mirror's `PResult (α × Bits)` and the generated `PM (List Bool × α)` are compared through
  .ok (v, rest) ↦ some (.ok (rest, v)),  .error true ↦ Incomplete,  .error false ↦ Error,  .panic _ ↦ none (panic),
i.e. "same Ok value and rest / same error class / same panic-or-not" (the panic-site label is dropped).
The mirror describes the DEV profile (every checked arithmetic step is a panic site), so the theorems are stated for
`dbg = true`; `C16G_release_*` cover the release profile on the inputs where the dev profile does not panic.

Bit level - theorems for EVERY argument value, without hypotheses (`dbg = true`):
  C16G_takeBits, C16G_tagBits           the nom bit primitives (reading of the translator = primitives of the mirror)
  C16G_u_to_i                           `u_to_i` (with `uToI_ne_error`: it has no error outcome)
  C16G_unary_code                       `unary_code` = nom `many0_count(bit_tag(0,1))` then `bit_tag(1,1)` (lemma `many0_unary`)
  C16G_raw_samples_run, C16G_raw_samples  the loop of `raw_samples` (lemma `raw_loop`), and with its `debug_assert!`
  C16G_subframe_header                  `subframe_header`
  C16G_residual_run, C16G_residual      `residual`: both loops (`inner_loop`, `outer_loop`; `residual_run_eq` names the two loop
                                        bodies of the generated term, by `rfl`) and the reading of `Residual::from_parts`
                                        (`from_parts_eq`: the assertion, `max * block_size`, the two sums)
  C16G_constant_run, C16G_constant      `constant` (closure / with the assertion of the builder)
  C16G_verbatim_run, C16G_verbatim      `verbatim`
  C16G_fixed_lpc_run, C16G_fixed_lpc    `fixed_lpc` (warm-up, `heapless::Vec<i32, 4>::try_from`, residual)
  C16G_quantized_parameters             `quantized_parameters` (`qp_both`; uses `quantizedNew_eq`: the mirror's `quantizedNew` IS the
                                        hand model's `QParams.new`, and `C18G_qparams_new` for the generated constructor)
  C16G_lpc_run, C16G_lpc                `lpc` (warm-up, `heapless::Vec<i32, 24>`, parameters, residual, `Lpc::from_parts` assertion)
  C16G_subframe                         `subframe` = the five assertions, then `alt((constant, fixed_lpc, lpc, verbatim))` (`altP_cls`)
Byte level - relation `relB` (same class; for Ok the same remaining suffix of the input and the same value through the
enum / header maps of C02Hdr / C08Gen); hypothesis `IsBytes bs` (every element < 256) where a byte VALUE is used:
  C16G_block_size_code, C16G_sample_rate_code   (no hypothesis)
  C16G_utf8_code                        `utf8_code` (head classes, tail loop `utf8_tail`)
  C16G_frame_header                     `frame_header(check_crc)`: `bits(..)` with re-alignment, `SampleSizeSpec::from_tag`,
                                        `ChannelAssignment::from_tag`, the UTF-8-like number, block-size / sample-rate codes, CRC-8
                                        over exactly the consumed bytes (`crc_tail`; the CRC is the hand model's `crcBits rfcCrc8`),
                                        `from_specs` + `set_frame_offset` = the hand model's header (`C08Gen.hdrOfGen`)
  C16G_frame                            `frame(stream_info, check_crc)` (hypotheses `IsBytes bs`, `info.channels < 2^64`): header with
                                        CRC-8 always on, channel / bits-per-sample checks, `FrameHeader::block_size` (`C15Gen.block_size_eq`),
                                        `bits(many_m_n(..))` with the channel counter (`many_subframes`), re-alignment (`align_suffix`, with
                                        `suf_subframes`: every bit-level parser of the mirror returns a suffix of its input - `suf_*`),
                                        CRC-16 over exactly the frame's bytes (`crc_tail`), `Frame::from_parts`
Corollaries (properties of the mirror transported to the code generated from the current source text, dev profile):
  C16G_total_residual, C16G_total_subframe, C16G_total_frame_header, C16G_total_frame   the generated parser never returns
                                        `none` (never panics): transport of `residual_sat` / `subframe_sat` / `frameHeader_sat` /
                                        `frame_sat` (the lemmas behind `C16_total_*`)
  C15G_frame_roundtrip                  on the bytes of a written frame followed by whole bytes the generated `frame` returns that
                                        frame and exactly those bytes: transport of `C15_frame_bits`
  C16G_stream_info                      `stream_info` (hypothesis `IsBytes bs` only): the four big-endian fields, `bits(..)` with the 64 bits
                                        of sample rate / channels / bits / total and the re-alignment, the 16 MD5 bytes, and the closure
                                        `info_fn`: `streamInfoLogic` (`blocks_stage`, `frames_stage`) shows that the generated
                                        `StreamInfo::new` + setters of part `verify` + the two fall-through `if`s are exactly the range
                                        checks the mirror inlines (through `C18G_streaminfo_new`, `C18G_set_block_sizes`, `C18G_set_frame_sizes`)
  C16G_metadata_block                   `metadata_block`: last flag / type / 24-bit length, type 0 = `stream_info` + `Into::into`, otherwise
                                        `byte_take(length)` + `MetadataBlockData::new_unknown` (`C18G_unknown_new`), `MetadataBlock::from_parts`
  relB_bind, relB_shift, relB_beU, relB_byteTake   sequencing lemmas for byte-level parsers
  C16G_stream                           `stream` on a whole byte string (hypothesis `IsBytes bs` only), relation `relStream` (same class; for
                                        Ok all input is consumed and the image `psOfGen` of the generated `Stream` is the mirror's `PStream`):
                                        `byteTag_rel` (`byte_tag("fLaC")`, with `bits_inj`), `C16G_metadata_block`, `md_loop` (the
                                        `while !is_last` loop = `whileP` against `Repo.metadataLoop`), `many_frames` (`many_till(frame, eof)`
                                        = `manyTillEof` against `Repo.framesTillEof`; the fuel is never exhausted), `stream_tail` with
                                        the builder lemmas; about the mirror: `streamInfoChannels` (<= 8 channels) and
                                        `metadataBlockConsumes` (an accepted block is shorter than its input; `suf_streamInfo`, `suf_beUint`,
                                        `suf_byteTake`)
  C16G_total                            PROPERTY C16 for the current source text: for every byte string (`IsBytes bs`, i.e. the Rust type
                                        `&[u8]`) the generated `stream` never returns `none` (never panics), dev profile: transport of `C16_total`
  C15G_stream_roundtrip                 PROPERTY C15 for the current source text: transport of `C15_stream_bits` - on the bytes of a written
                                        stream the generated parser consumes everything and returns a stream whose image is
                                        `PStream.ofStream s` (and `toStream? = some s`)
No hypothesis other than the domain `IsBytes` remains.  Not stated: release-profile (`dbg = false`) versions - the mirror has no
release reading; they need a congruence library "dev result /= none -> release result = dev result" over the prelude.
One observation, kept inside `outer_loop`: the generated code has the step `part + 1` (`addU`) of
`partition_len * (part + 1)`, which the mirror does not list as a panic site; it cannot overflow because
`part < partition_count <= 2^15` (hypothesis `part + n < 2^64` of `outer_loop`, discharged in `C16G_residual_run`).
-/
import FlacVerif.Model.RepoParser
import FlacVerif.Gen.Parser
import FlacVerif.Theorems.C18Gen
import FlacVerif.Lemmas.RepoRoundTripFrame
import FlacVerif.Theorems.C15Gen
import FlacVerif.Theorems.C15
import FlacVerif.Theorems.C16

namespace FlacVerif.Repo
open PResult

/-- an accepted STREAMINFO has at most 8 channels (same walk as `streamInfo_sat`, other predicate) -/
theorem streamInfo_chan_sat (i : Bits) : (streamInfo i).Sat (fun r => r.1.channels ≤ 8) := by
  unfold streamInfo
  refine Sat.bind (beUint_sat 2 i) ?_; rintro ⟨minBlock, i1⟩ _
  refine Sat.bind (beUint_sat 2 i1) ?_; rintro ⟨maxBlock, i2⟩ _
  refine Sat.bind (beUint_sat 3 i2) ?_; rintro ⟨minFrame, i3⟩ _
  refine Sat.bind (beUint_sat 3 i3) ?_; rintro ⟨maxFrame, i4⟩ _
  refine Sat.bind (takeBits_sat 64 20 i4 (by decide)) ?_; rintro ⟨sr, j1⟩ _
  refine Sat.bind (takeBits_sat 64 3 j1 (by decide)) ?_; rintro ⟨ch, j2⟩ hch
  refine Sat.bind (takeBits_sat 64 5 j2 (by decide)) ?_; rintro ⟨bps, j3⟩ hbps
  refine Sat.bind (takeBits_sat 64 36 j3 (by decide)) ?_; rintro ⟨total, j4⟩ _
  dsimp only at hch hbps ⊢
  refine Sat.bind (uadd_sat 64 _ ch 1 (by omega)) ?_; intro channels _
  refine Sat.bind (uadd_sat 64 _ bps 1 (by omega)) ?_; intro bitsPerSample _
  refine Sat.bind (byteTake_sat 16 _) ?_; rintro ⟨md5, i5⟩ ⟨hmd5, _⟩
  dsimp only at hmd5 ⊢
  split
  · trivial
  · split
    · trivial
    · rename_i hc
      split
      · trivial
      · split
        · trivial
        · refine Sat.bind (passert_sat _ _ (by simp [hmd5])) ?_
          intro _ _
          split
          · trivial
          · split
            · trivial
            · split
              · trivial
              · split
                · trivial
                · simp only [sat_pure]
                  omega

theorem metadataBlock_chan_sat (i : Bits) :
    (metadataBlock i).Sat (fun r => match r.1.2 with
      | .streamInfo s => s.channels ≤ 8
      | .unknown _ => True) := by
  unfold metadataBlock
  refine Sat.bind (beUint_sat 1 i) ?_; rintro ⟨first, i1⟩ _
  dsimp only
  refine Sat.bind (beUint_sat 3 i1) ?_; rintro ⟨length, i2⟩ _
  dsimp only
  split
  · refine Sat.bind (streamInfo_chan_sat i2) ?_
    rintro ⟨info, i3⟩ hi
    exact hi
  · refine Sat.bind (byteTake_sat length i2) ?_
    rintro ⟨blob, i3⟩ _
    dsimp only
    split <;> trivial

end FlacVerif.Repo

namespace FlacVerif.C16Gen
open FlacVerif FlacVerif.Repo FlacVerif.Gen.Parser
open FlacVerif.Gen.Decode (addU subU mulU arithS shAmt shlU shrU wrapS castU divU req rangeL)

/-- outcome map from the mirror's result to the generated parser's result -/
def cls {α : Type} : PResult (α × Bits) → PM (List Bool × α)
  | .ok (v, r) => some (.ok (r, v))
  | .error true => some (.error .incomplete)
  | .error false => some (.error .error)
  | .panic _ => none

/-- outcome map for functions that are not parsers (no error channel) -/
def clsO {α : Type} : PResult α → Option α
  | .ok v => some v
  | .error _ => none
  | .panic _ => none

@[simp] theorem cls_ok {α : Type} (v : α) (r : Bits) : cls (PResult.ok (v, r)) = some (.ok (r, v)) := rfl
@[simp] theorem cls_err_t {α : Type} : cls (PResult.error true : PResult (α × Bits)) = some (.error .incomplete) := rfl
@[simp] theorem cls_err_f {α : Type} : cls (PResult.error false : PResult (α × Bits)) = some (.error .error) := rfl
@[simp] theorem cls_panic {α : Type} (s : String) : cls (PResult.panic s : PResult (α × Bits)) = none := rfl

@[simp] theorem bindP_none {α β : Type} (f : α → PM β) : bindP (none : PM α) f = none := rfl
@[simp] theorem bindP_err {α β : Type} (e : PErr) (f : α → PM β) : bindP (some (.error e) : PM α) f = some (.error e) := rfl
@[simp] theorem bindP_ok {α β : Type} (v : α) (f : α → PM β) : bindP (some (.ok v) : PM α) f = f v := rfl
@[simp] theorem bindP_okP {α β : Type} (v : α) (f : α → PM β) : bindP (okP v) f = f v := rfl
@[simp] theorem bindP_errP {α β : Type} (f : α → PM β) : bindP (errP : PM α) f = errP := rfl

theorem bindP_okP_id {α β : Type} (x : PM (α × β)) :
    (bindP x fun p => match p with | (a, b) => okP (a, b)) = x := by
  cases x with
  | none => rfl
  | some e =>
    cases e with
    | error c => rfl
    | ok v => obtain ⟨a, b⟩ := v; rfl

/-! ### primitives -/

theorem C16G_takeBits (w n : Nat) (i : Bits) : Gen.Parser.takeBits w n i = cls (Repo.takeBits w n i) := by
  unfold Gen.Parser.takeBits Repo.takeBits
  by_cases h0 : n = 0
  · simp [h0, okP]
  · by_cases h1 : i.length < n
    · simp [h0, h1]
    · by_cases h2 : w < n <;> simp [h0, h1, h2, okP]

theorem C16G_tagBits (w p n : Nat) (i : Bits) : Gen.Parser.tagBits w p n i = cls (Repo.tagBits w p n i) := by
  unfold Gen.Parser.tagBits Repo.tagBits
  rw [C16G_takeBits]
  cases h : Repo.takeBits w n i with
  | ok v =>
    obtain ⟨v, r⟩ := v
    by_cases hp : v = p <;> simp [hp, okP, errP]
  | error b => cases b <;> simp
  | panic s => simp

/-! ### `u_to_i` -/

theorem arithS_true (w : Nat) (v : Int) :
    arithS true w v = if -(2 ^ (w - 1) : Int) ≤ v ∧ v < (2 ^ (w - 1) : Int) then some v else none := by
  unfold arithS; simp

theorem wrapS_eq_asSigned (w : Nat) (v : Int) : wrapS w v = asSigned w v := rfl

theorem u_to_i_tail (x : Nat) (off : Int) (s1 s2 : String) :
    ((req (decide (x < 2147483648))).bind fun _ => (arithS true 32 ((x : Int) - off)).bind fun v5 => some v5) =
      clsO (if x ≥ 2 ^ 31 then PResult.panic s1 else
        (if inI32 ((x : Int) - off) then PResult.ok ((x : Int) - off) else PResult.panic s2)) := by
  by_cases hx : x < 2147483648
  · have hx' : ¬ x ≥ 2 ^ 31 := by omega
    simp only [req, hx, decide_true, if_true, Option.bind_some, hx', if_false, arithS_true, inI32]
    simp only [Nat.add_one_sub_one, Bool.and_eq_true, decide_eq_true_eq]
    split <;> rename_i h <;> simp [h, clsO]
  · have hx' : x ≥ 2 ^ 31 := by omega
    simp [req, hx, hx', clsO]

theorem C16G_u_to_i (x bits : Nat) : u_to_i true x bits = clsO (uToI x bits) := by
  unfold u_to_i uToI
  by_cases hb : 1 ≤ bits
  · have e1 : subU true 64 bits 1 = some (bits - 1) := by simp [subU, hb]
    have e1' : usub "u_to_i: bits - 1" bits 1 = .ok (bits - 1) := by simp [usub, hb]
    rw [e1, e1']
    simp only [Option.bind_some, PResult.ok_bind]
    by_cases hs : bits - 1 < 64
    · have e2 : shAmt true 64 (bits - 1) = some (bits - 1) := by simp [shAmt, hs]
      have e2' : ushl 64 "u_to_i: 1u64 << (bits - 1)" 1 (bits - 1) = .ok ((1 * 2 ^ (bits - 1)) % 2 ^ 64) := by simp [ushl, hs]
      rw [e2, e2']
      simp only [Option.bind_some, PResult.ok_bind, shlU]
      by_cases hm : x ≥ 1 * 2 ^ (bits - 1) % 2 ^ 64
      · by_cases h32 : bits < 32
        · simp only [hm, decide_true, if_true, shAmt, h32, ushl, Option.bind_some, PResult.ok_bind, PResult.pure_eq,
            wrapS_eq_asSigned]
          exact u_to_i_tail x _ _ _
        · have hm' : 2 ^ (bits - 1) % 18446744073709551616 ≤ x := by simpa using hm
          simp [shAmt, h32, ushl, clsO, hm']
      · simp only [hm, decide_false, Bool.false_eq_true, if_false, Option.bind_some, PResult.pure_eq, PResult.ok_bind]
        exact u_to_i_tail x 0 _ _
    · simp [shAmt, hs, ushl, clsO]
  · simp [subU, usub, hb, clsO]

/-! ### `unary_code` -/

theorem tagBits_nil (w p : Nat) : Gen.Parser.tagBits w p 1 [] = some (.error .incomplete) := by
  simp [Gen.Parser.tagBits, Gen.Parser.takeBits]

theorem tagBits_cons (p : Nat) (b : Bool) (r : Bits) :
    Gen.Parser.tagBits 32 p 1 (b :: r) = if (if b then 1 else 0) = p then okP (r, if b then 1 else 0) else errP := by
  cases b <;> simp [Gen.Parser.tagBits, Gen.Parser.takeBits, bitsToNat, okP]

/-- the count accumulated so far is added to the mirror's result -/
def addC (c : Nat) : PResult (Nat × Bits) → PM (List Bool × Nat)
  | .ok (q, r) => some (.ok (r, q + c))
  | .error true => some (.error .incomplete)
  | .error false => some (.error .error)
  | .panic _ => none

theorem addC_zero (x : PResult (Nat × Bits)) : addC 0 x = cls x := by
  cases x with
  | ok v => obtain ⟨q, r⟩ := v; simp [addC]
  | error b => cases b <;> rfl
  | panic s => rfl

theorem many0_unary (i : Bits) : ∀ (fuel c : Nat), i.length < fuel →
    (bindP (many0CountAux (Gen.Parser.tagBits 32 0 1) fuel i c) fun (r, ret) =>
      bindP (Gen.Parser.tagBits 32 1 1 r) fun (r', _) => okP (r', ret)) = addC c (unaryCode i) := by
  induction i with
  | nil =>
    intro fuel c h
    cases fuel with
    | zero => simp at h
    | succ f => simp [many0CountAux, tagBits_nil, unaryCode, addC]
  | cons b r ih =>
    intro fuel c h
    cases fuel with
    | zero => simp at h
    | succ f =>
      cases b with
      | true =>
        simp [many0CountAux, tagBits_cons, unaryCode, addC, okP, errP]
      | false =>
        have hl : r.length < f := by simp only [List.length_cons] at h; omega
        have := ih f (c + 1) hl
        simp only [many0CountAux, tagBits_cons, if_true, Bool.false_eq_true, if_false, okP, List.length_cons]
        have hne : ¬ r.length = r.length + 1 := by omega
        simp only [hne, if_false]
        simp only [okP] at this
        rw [this]
        have eq : unaryCode (false :: r) = (match unaryCode r with
            | .ok (q, r') => .ok (q + 1, r')
            | e => e) := by rw [unaryCode]; rfl
        rw [eq]
        cases h2 : unaryCode r with
        | ok v => obtain ⟨q, r'⟩ := v; simp [addC]; omega
        | error e => cases e <;> simp [addC]
        | panic s => simp [addC]

theorem C16G_unary_code (i : Bits) : unary_code true i = cls (unaryCode i) := by
  unfold unary_code many0Count
  rw [← addC_zero]
  exact many0_unary i (i.length + 1) 0 (by omega)

/-! ### `raw_samples` -/

/-- the result is never a parse error (functions that are not parsers) -/
def noErr {α : Type} (x : PResult α) : Prop := ∀ e, x ≠ .error e

theorem noErr_bind {α β : Type} {x : PResult α} {f : α → PResult β} (hx : noErr x) (hf : ∀ v, noErr (f v)) :
    noErr (x >>= f) := by
  cases x with
  | ok v => simpa using hf v
  | error e => exact absurd rfl (hx e)
  | panic s => intro e; simp

theorem noErr_ok {α : Type} (v : α) : noErr (PResult.ok v) := by intro e; simp
theorem noErr_panic {α : Type} (s : String) : noErr (PResult.panic s : PResult α) := by intro e; simp
theorem noErr_usub (s : String) (a b : Nat) : noErr (usub s a b) := by
  unfold usub; split
  · exact noErr_ok _
  · exact noErr_panic _
theorem noErr_ushl (w : Nat) (s : String) (a b : Nat) : noErr (ushl w s a b) := by
  unfold ushl; split
  · exact noErr_ok _
  · exact noErr_panic _
theorem noErr_uadd (w : Nat) (s : String) (a b : Nat) : noErr (uadd w s a b) := by
  unfold uadd; split
  · exact noErr_ok _
  · exact noErr_panic _
theorem noErr_umul (w : Nat) (s : String) (a b : Nat) : noErr (umul w s a b) := by
  unfold umul; split
  · exact noErr_ok _
  · exact noErr_panic _
theorem noErr_passert (c : Bool) (s : String) : noErr (passert c s) := by
  unfold passert; split
  · exact noErr_ok _
  · exact noErr_panic _

theorem uToI_ne_error (x b : Nat) (e : Bool) : uToI x b ≠ .error e := by
  have : noErr (uToI x b) := by
    unfold uToI
    refine noErr_bind (noErr_usub _ _ _) fun b1 => noErr_bind (noErr_ushl _ _ _ _) fun msb => ?_
    have jp : ∀ off : Int, noErr (if x ≥ 2 ^ 31 then PResult.panic "u_to_i: i32::try_from(x).unwrap()" else
        (if inI32 ((x : Int) - off) then PResult.ok ((x : Int) - off)
         else PResult.panic "u_to_i: i32 subtraction overflow")) := by
      intro off
      split
      · exact noErr_panic _
      · split
        · exact noErr_ok _
        · exact noErr_panic _
    dsimp only
    split
    · exact noErr_bind (noErr_bind (noErr_ushl _ _ _ _) fun v => noErr_ok _) fun off => by simpa using jp off
    · simpa using jp 0
  exact this e

/-- the samples read so far are prepended to the mirror's result -/
def accX {α : Type} (acc : List α) : PResult (List α × Bits) → PM (List Bool × List α)
  | .ok (xs, r) => some (.ok (r, acc ++ xs))
  | .error true => some (.error .incomplete)
  | .error false => some (.error .error)
  | .panic _ => none

theorem accX_nil {α : Type} (x : PResult (List α × Bits)) : accX [] x = cls x := by
  cases x with
  | ok v => obtain ⟨q, r⟩ := v; simp [accX]
  | error b => cases b <;> rfl
  | panic s => rfl

theorem raw_loop (bps : Nat) (l : List Nat) : ∀ (i : Bits) (acc : List Int),
    (loopP l (i, acc) fun _ (st : List Bool × List Int) =>
      bindP (Gen.Parser.takeBits 32 bps st.1) fun (r : List Bool × Nat) =>
      (u_to_i true r.2 bps).bind fun v2 => okP (r.1, st.2 ++ [v2])) = accX acc (rawSamplesLoop bps l.length i) := by
  induction l with
  | nil => intro i acc; simp [loopP, rawSamplesLoop, accX, okP]
  | cons a l ih =>
    intro i acc
    simp only [loopP, List.length_cons, rawSamplesLoop]
    rw [C16G_takeBits]
    cases h : Repo.takeBits 32 bps i with
    | ok v =>
      obtain ⟨u, i'⟩ := v
      simp only [cls_ok, bindP_ok, PResult.ok_bind]
      rw [show u_to_i true u bps = clsO (uToI u bps) from C16G_u_to_i u bps]
      cases h2 : uToI u bps with
      | ok x =>
        simp only [clsO, Option.bind_some, bindP_okP, PResult.ok_bind, ih]
        cases h3 : rawSamplesLoop bps l.length i' with
        | ok w => obtain ⟨xs, r⟩ := w; simp [accX]
        | error e => cases e <;> simp [accX]
        | panic s => simp [accX]
      | error e => exact absurd h2 (uToI_ne_error u bps e)
      | panic s => simp [clsO, accX]
    | error e => cases e <;> simp [accX]
    | panic s => simp [accX]

theorem C16G_raw_samples_run (bps size : Nat) (i : Bits) :
    raw_samples_run true bps size i = cls (rawSamplesLoop bps size i) := by
  unfold raw_samples_run
  have := raw_loop bps (rangeL 0 size) i []
  simp only [rangeL, List.length_range', Nat.sub_zero] at this
  rw [← accX_nil, ← this]
  show bindP (loopP (rangeL 0 size) (i, []) _) _ = _
  rw [bindP_okP_id]
  rfl

theorem pre_eq (bps : Nat) :
    ((addU true 64 24 1).bind fun v1 => (req (!true || decide (bps ≤ v1))).bind fun _ => some ()) =
      if bps ≤ 25 then some () else none := by
  by_cases h : bps ≤ 25 <;> simp [addU, req, h]

theorem C16G_raw_samples (bps size : Nat) (i : Bits) :
    raw_samples true bps size i = cls (rawSamples bps size i) := by
  unfold raw_samples raw_samples_pre rawSamples passert
  rw [pre_eq, C16G_raw_samples_run]
  by_cases h : bps ≤ 25 <;> simp [h]

/-! ### sub-frames -/

theorem C16G_subframe_header (i : Bits) :
    subframe_header true i = (match subframeHeader i with
      | .ok (t, r) => some (.ok (r, (t, false)))
      | .error true => some (.error .incomplete)
      | .error false => some (.error .error)
      | .panic _ => none) := by
  unfold subframe_header subframeHeader
  simp only [C16G_takeBits]
  cases h : Repo.takeBits 8 7 i with
  | ok v =>
    obtain ⟨t, r⟩ := v
    simp only [cls_ok, bindP_ok, PResult.ok_bind]
    cases h2 : Repo.takeBits 8 1 r with
    | ok w =>
      obtain ⟨f, r2⟩ := w
      by_cases hf : f = 0 <;> simp [hf, okP, errP]
    | error e => cases e <;> simp
    | panic s => simp
  | error e => cases e <;> simp
  | panic s => simp

theorem C16G_constant_run (bs bps : Nat) (i : Bits) :
    constant_run true bs bps i = cls (Repo.constant bs bps i) := by
  unfold constant_run Repo.constant
  simp only [C16G_subframe_header]
  cases h : subframeHeader i with
  | ok v =>
    obtain ⟨t, r⟩ := v
    simp only [bindP_ok, PResult.ok_bind]
    by_cases ht : t = 0
    · simp only [ht, ne_eq, not_true_eq_false, decide_false, Bool.false_eq_true, if_false, mapP, C16G_takeBits]
      cases h2 : Repo.takeBits 32 bps r with
      | ok w =>
        obtain ⟨u, r2⟩ := w
        simp only [cls_ok, bindP_ok, PResult.ok_bind]
        rw [show u_to_i true u bps = clsO (uToI u bps) from C16G_u_to_i u bps]
        cases h3 : uToI u bps with
        | ok x => simp [clsO, okP, Constant_from_parts]
        | error e => exact absurd h3 (uToI_ne_error u bps e)
        | panic s => simp [clsO]
      | error e => cases e <;> simp
      | panic s => simp
    · simp [ht, errP]
  | error e => cases e <;> simp
  | panic s => simp

theorem C16G_verbatim_run (bs bps : Nat) (i : Bits) :
    verbatim_run true bs bps i = cls (Repo.verbatim bs bps i) := by
  unfold verbatim_run Repo.verbatim
  simp only [C16G_subframe_header]
  cases h : subframeHeader i with
  | ok v =>
    obtain ⟨t, r⟩ := v
    simp only [bindP_ok, PResult.ok_bind]
    by_cases ht : t = 1
    · have := C16G_raw_samples bps bs r
      unfold raw_samples at this
      simp only [ht, ne_eq, not_true_eq_false, decide_false, Bool.false_eq_true, if_false]
      cases hp : raw_samples_pre true bps bs with
      | none =>
        rw [hp] at this
        simp only [Option.bind_none] at this ⊢
        cases h2 : rawSamples bps bs r with
        | ok w => rw [h2] at this; obtain ⟨xs, r2⟩ := w; simp at this
        | error e => rw [h2] at this; cases e <;> simp at this
        | panic s => simp
      | some u =>
        rw [hp] at this
        simp only [Option.bind_some] at this ⊢
        rw [this]
        cases h2 : rawSamples bps bs r with
        | ok w => obtain ⟨xs, r2⟩ := w; simp [okP, Verbatim_from_samples]
        | error e => cases e <;> simp
        | panic s => simp
    · simp [ht, errP]
  | error e => cases e <;> simp
  | panic s => simp

/-! ### `residual` -/

/-- inner loop body of the generated `residual` -/
def innerBody (p w : Nat) (t : Nat) (st : List Nat × List Nat × List Bool) : PM (List Nat × List Nat × List Bool) :=
  match st with
  | (quotients, remainders, remaining_input) =>
    if (decide (t < w)) then
      okP (quotients ++ [0], remainders ++ [0], remaining_input)
    else
      bindP (unary_code true remaining_input) fun (i, q) =>
      bindP ((Gen.Parser.takeBits 32 p) i) fun (i, r) =>
      okP (quotients ++ [(q % 4294967296)], remainders ++ [r], i)

def accS (aq ar : List Nat) : PResult ((List Nat × List Nat) × Bits) → PM (List Nat × List Nat × List Bool)
  | .ok ((qs, rs), r) => some (.ok (aq ++ qs, ar ++ rs, r))
  | .error true => some (.error .incomplete)
  | .error false => some (.error .error)
  | .panic _ => none

theorem inner_loop (p w : Nat) : ∀ (n t : Nat) (i : Bits) (aq ar : List Nat),
    loopP (List.range' t n) (aq, ar, i) (innerBody p w) = accS aq ar (residualSamples p w n t i) := by
  intro n
  induction n with
  | zero => intro t i aq ar; simp [loopP, residualSamples, accS, okP]
  | succ n ih =>
    intro t i aq ar
    simp only [List.range'_succ, loopP, residualSamples, innerBody]
    by_cases ht : t < w
    · simp only [ht, decide_true, if_true, bindP_okP, ih]
      cases h : residualSamples p w n (t + 1) i with
      | ok v => obtain ⟨⟨qs, rs⟩, r⟩ := v; simp [accS]
      | error e => cases e <;> simp [accS]
      | panic s => simp [accS]
    · simp only [ht, decide_false, Bool.false_eq_true, if_false, C16G_unary_code]
      cases h1 : unaryCode i with
      | ok v =>
        obtain ⟨q, r1⟩ := v
        simp only [cls_ok, bindP_ok, PResult.ok_bind, C16G_takeBits]
        cases h2 : Repo.takeBits 32 p r1 with
        | ok u =>
          obtain ⟨rv, r2⟩ := u
          simp only [cls_ok, bindP_ok, PResult.ok_bind, bindP_okP, ih]
          cases h : residualSamples p w n (t + 1) r2 with
          | ok v => obtain ⟨⟨qs, rs⟩, r⟩ := v; simp [accS]
          | error e => cases e <;> simp [accS]
          | panic s => simp [accS]
        | error e => cases e <;> simp [accS]
        | panic s => simp [accS]
      | error e => cases e <;> simp [accS]
      | panic s => simp [accS]

/-- outer loop body of the generated `residual` -/
def outerBody (pBits plen w : Nat) (part : Nat) (st : List Bool × List Nat × List Nat × List Nat) :
    PM (List Bool × List Nat × List Nat × List Nat) :=
  match st with
  | (remaining_input, rice_params, quotients, remainders) =>
    bindP ((Gen.Parser.takeBits 8 pBits) remaining_input) fun (i, rice_p) =>
    (mulU true 64 plen part).bind fun v4 =>
    (addU true 64 part 1).bind fun v5 =>
    (mulU true 64 plen v5).bind fun v6 =>
    bindP (loopP (rangeL v4 v6) (quotients, remainders, i) (innerBody rice_p w)) fun (quotients, remainders, remaining_input) =>
    okP (remaining_input, rice_params ++ [rice_p], quotients, remainders)

def accO (ap aq ar : List Nat) : PResult ((List Nat × List Nat × List Nat) × Bits) →
    PM (List Bool × List Nat × List Nat × List Nat)
  | .ok ((ps, qs, rs), r) => some (.ok (r, ap ++ ps, aq ++ qs, ar ++ rs))
  | .error true => some (.error .incomplete)
  | .error false => some (.error .error)
  | .panic _ => none

theorem outer_loop (pBits plen w : Nat) : ∀ (n part : Nat) (i : Bits) (ap aq ar : List Nat), part + n < 2 ^ 64 →
    loopP (List.range' part n) (i, ap, aq, ar) (outerBody pBits plen w) =
      accO ap aq ar (residualParts pBits plen w n part i) := by
  intro n
  induction n with
  | zero => intro part i ap aq ar _; simp [loopP, residualParts, accO, okP]
  | succ n ih =>
    intro part i ap aq ar hb
    simp only [List.range'_succ, loopP, residualParts, outerBody, C16G_takeBits]
    cases h1 : Repo.takeBits 8 pBits i with
    | ok v =>
      obtain ⟨p, r1⟩ := v
      simp only [cls_ok, bindP_ok, PResult.ok_bind]
      by_cases m1 : plen * part < 2 ^ 64
      · by_cases m2 : plen * (part + 1) < 2 ^ 64
        · have a1 : part + 1 < 2 ^ 64 := by omega
          simp only [mulU, umul, addU, m1, m2, a1, if_true, Option.bind_some, PResult.ok_bind, rangeL, inner_loop]
          cases h2 : residualSamples p w (plen * (part + 1) - plen * part) (plen * part) r1 with
          | ok v =>
            obtain ⟨⟨qs, rs⟩, r2⟩ := v
            simp only [accS, bindP_ok, bindP_okP, PResult.ok_bind]
            rw [ih (part + 1) r2 _ _ _ (by omega)]
            cases h3 : residualParts pBits plen w n (part + 1) r2 with
            | ok v => obtain ⟨⟨ps, qs', rs'⟩, r3⟩ := v; simp [accO]
            | error e => cases e <;> simp [accO]
            | panic s => simp [accO]
          | error e => cases e <;> simp [accS, accO]
          | panic s => simp [accS, accO]
        · have a1 : part + 1 < 2 ^ 64 := by omega
          simp [mulU, umul, addU, m1, m2, a1, accO]
      · simp [mulU, umul, m1, accO]
    | error e => cases e <;> simp [accO]
    | panic s => simp [accO]

/-- the generated `residual_run` with its two loop bodies named -/
def residualR (bs w : Nat) (i : Bits) : PM (List Bool × Residual) :=
  bindP (Gen.Parser.takeBits 8 2 i) fun (r, method) =>
  bindP (if method = 0 then okP 4 else if method = 1 then okP 5 else errP) fun pBits =>
  bindP (Gen.Parser.takeBits 8 4 r) fun (r, po) =>
  (shAmt true 64 po).bind fun v2 =>
  (divU bs (shlU 64 1 v2)).bind fun plen =>
  bindP (loopP (rangeL 0 (shlU 64 1 v2)) (r, [], [], []) (outerBody pBits plen w)) fun (r, rp, q, rm) =>
  (Residual_from_parts true po bs w rp q rm).bind fun v8 => okP (r, v8)

theorem residual_run_eq (bs w : Nat) (i : Bits) : residual_run true bs w i = residualR bs w i := rfl

theorem from_parts_eq (po bs w : Nat) (ps qs rs : List Nat) (r : Bits) (hpo : po < 64) :
    ((Residual_from_parts true po bs w ps qs rs).bind fun v8 => okP (r, v8)) =
    cls (do
      passert (ps.length = 1 * 2 ^ po % 2 ^ 64) "Residual::from_parts: debug_assert!(rice_params.len() == 1 << order)"
      let maxQ := qs.foldl max 0
      let _ ← umul 64 "Residual::from_parts: max_quotients * block_size" maxQ bs
      let _ ← (if maxQ * bs < 2 ^ 32 - 1 then PResult.ok 0
               else uadd 64 "Residual::from_parts: sum of quotients" (qs.foldl (· + ·) 0) 0)
      let _ ← uadd 64 "Residual::from_parts: sum of rice parameters" (ps.foldl (· + ·) 0) 0
      pure (({ order := po, blockSize := bs, warmup := w, params := ps, quotients := qs, remainders := rs } : Residual), r)) := by
  unfold Residual_from_parts passert sumU
  by_cases c1 : ps.length = 1 * 2 ^ po % 2 ^ 64
  · by_cases c2 : List.foldl max 0 qs * bs < 2 ^ 64
    · by_cases c5 : List.foldl (· + ·) 0 ps < 2 ^ 64
      · by_cases c3 : List.foldl max 0 qs * bs < 2 ^ 32 - 1
        · have c3' : List.foldl max 0 qs * bs < 4294967295 := by simpa using c3
          simp [shAmt, hpo, req, shlU, c1, mulU, umul, c2, c3, c3', uadd, c5, okP]
        · have c3' : ¬ List.foldl max 0 qs * bs < 4294967295 := by simpa using c3
          by_cases c4 : List.foldl (· + ·) 0 qs < 2 ^ 64
          · simp [shAmt, hpo, req, shlU, c1, mulU, umul, c2, c3, c3', uadd, c4, c5, okP]
          · simp [shAmt, hpo, req, shlU, c1, mulU, umul, c2, c3, c3', uadd, c4]
      · by_cases c3 : List.foldl max 0 qs * bs < 2 ^ 32 - 1
        · have c3' : List.foldl max 0 qs * bs < 4294967295 := by simpa using c3
          simp [shAmt, hpo, req, shlU, c1, mulU, umul, c2, c3, c3', uadd, c5]
        · have c3' : ¬ List.foldl max 0 qs * bs < 4294967295 := by simpa using c3
          by_cases c4 : List.foldl (· + ·) 0 qs < 2 ^ 64
          · simp [shAmt, hpo, req, shlU, c1, mulU, umul, c2, c3, c3', uadd, c4, c5]
          · simp [shAmt, hpo, req, shlU, c1, mulU, umul, c2, c3, c3', uadd, c4]
    · simp [shAmt, hpo, req, shlU, c1, mulU, umul, c2]
  · have c1' : ¬ ps.length = 2 ^ po % 18446744073709551616 := by simpa using c1
    simp [shAmt, hpo, req, shlU, c1']

theorem C16G_residual_run (bs w : Nat) (i : Bits) : residual_run true bs w i = cls (Repo.residual bs w i) := by
  rw [residual_run_eq]
  unfold residualR Repo.residual
  simp only [C16G_takeBits]
  cases h1 : Repo.takeBits 8 2 i with
  | ok v =>
    obtain ⟨method, r1⟩ := v
    simp only [cls_ok, bindP_ok, PResult.ok_bind]
    have key : ∀ pBits : Nat,
        (bindP (cls (Repo.takeBits 8 4 r1)) fun (x : List Bool × Nat) =>
          (shAmt true 64 x.2).bind fun v2 =>
          (divU bs (shlU 64 1 v2)).bind fun plen =>
          bindP (loopP (rangeL 0 (shlU 64 1 v2)) (x.1, [], [], []) (outerBody pBits plen w)) fun (y : List Bool × List Nat × List Nat × List Nat) =>
          (Residual_from_parts true x.2 bs w y.2.1 y.2.2.1 y.2.2.2).bind fun v8 => okP (y.1, v8)) =
        cls (do
          let (order, i) ← Repo.takeBits 8 4 r1
          let count ← ushl 64 "residual: 1usize << partition_order" 1 order
          if count = 0 then PResult.panic "residual: block_size / partition_count (division by zero)" else
          let plen := bs / count
          let ((ps, qs, rs), i) ← residualParts pBits plen w count 0 i
          passert (ps.length = count) "Residual::from_parts: debug_assert!(rice_params.len() == 1 << order)"
          let maxQ := qs.foldl max 0
          let _ ← umul 64 "Residual::from_parts: max_quotients * block_size" maxQ bs
          let _ ← (if maxQ * bs < 2 ^ 32 - 1 then PResult.ok 0
                   else uadd 64 "Residual::from_parts: sum of quotients" (qs.foldl (· + ·) 0) 0)
          let _ ← uadd 64 "Residual::from_parts: sum of rice parameters" (ps.foldl (· + ·) 0) 0
          pure (({ order := order, blockSize := bs, warmup := w, params := ps, quotients := qs, remainders := rs } : Residual), i)) := by
      intro pBits
      cases h2 : Repo.takeBits 8 4 r1 with
      | ok v =>
        obtain ⟨po, r2⟩ := v
        simp only [cls_ok, bindP_ok, PResult.ok_bind]
        by_cases hpo : po < 64
        · simp only [shAmt, ushl, hpo, if_true, Option.bind_some, PResult.ok_bind, shlU]
          by_cases hc : 1 * 2 ^ po % 2 ^ 64 = 0
          · have hc' : 2 ^ po % 18446744073709551616 = 0 := by simpa using hc
            simp [hc', divU]
          · have hlt : 0 + 1 * 2 ^ po % 2 ^ 64 < 2 ^ 64 := by
              have := Nat.mod_lt (1 * 2 ^ po) (show 0 < 2 ^ 64 by decide)
              omega
            simp only [hc, divU, if_false, Option.bind_some, rangeL, Nat.sub_zero]
            rw [outer_loop pBits _ w _ 0 r2 [] [] [] hlt]
            cases h3 : residualParts pBits (bs / (1 * 2 ^ po % 2 ^ 64)) w (1 * 2 ^ po % 2 ^ 64) 0 r2 with
            | ok v =>
              obtain ⟨⟨ps, qs, rs⟩, r3⟩ := v
              simp only [accO, List.nil_append, bindP_ok, PResult.ok_bind]
              exact from_parts_eq po bs w ps qs rs r3 hpo
            | error e => cases e <;> simp [accO]
            | panic s => simp [accO]
        · simp [shAmt, ushl, hpo]
      | error e => cases e <;> simp
      | panic s => simp
    by_cases m0 : method = 0
    · simp only [m0, if_true, bindP_okP, PResult.ok_bind]
      exact key 4
    · by_cases m1 : method = 1
      · simp only [m1, if_true, bindP_okP, PResult.ok_bind, show ¬ (1 : Nat) = 0 by decide, if_false]
        exact key 5
      · simp [m0, m1, errP]
  | error e => cases e <;> simp
  | panic s => simp

theorem C16G_residual (bs w : Nat) (i : Bits) : Gen.Parser.residual true bs w i = cls (Repo.residual bs w i) := by
  unfold Gen.Parser.residual
  exact C16G_residual_run bs w i

/-! ### the full combinators (`f(args)(input)`: assertions of the builder, then the closure) -/

theorem C16G_constant (bs bps : Nat) (i : Bits) :
    Gen.Parser.constant true bs bps i = if bps ≤ 25 then cls (Repo.constant bs bps i) else none := by
  unfold Gen.Parser.constant constant_pre
  rw [pre_eq, C16G_constant_run]
  by_cases h : bps ≤ 25 <;> simp [h]

theorem C16G_verbatim (bs bps : Nat) (i : Bits) :
    Gen.Parser.verbatim true bs bps i = if bps ≤ 25 then cls (Repo.verbatim bs bps i) else none := by
  unfold Gen.Parser.verbatim verbatim_pre
  rw [pre_eq, C16G_verbatim_run]
  by_cases h : bps ≤ 25 <;> simp [h]

theorem opt_bind_bindP {α β : Type} (o : Option Unit) (x : PM α) (k : α → PM β) :
    (o.bind fun _ => bindP x k) = bindP (o.bind fun _ => x) k := by
  cases o <;> rfl

theorem raw_pre_run (bps n : Nat) (r : Bits) :
    ((raw_samples_pre true bps n).bind fun _ => raw_samples_run true bps n r) = cls (rawSamples bps n r) := by
  have := C16G_raw_samples bps n r
  unfold raw_samples at this
  exact this

theorem C16G_fixed_lpc_run (bs bps : Nat) (i : Bits) :
    fixed_lpc_run true bs bps i = cls (Repo.fixedLpc bs bps i) := by
  unfold fixed_lpc_run Repo.fixedLpc
  simp only [C16G_subframe_header]
  cases h : subframeHeader i with
  | ok v =>
    obtain ⟨t, r⟩ := v
    simp only [bindP_ok, PResult.ok_bind]
    by_cases ht : 8 ≤ t ∧ t ≤ 12
    · have h8 : 8 ≤ t := ht.1
      simp only [ht.1, ht.2, decide_true, Bool.and_self, Bool.not_true, Bool.false_eq_true, if_false, and_self,
        not_true_eq_false, subU, usub, h8, if_true, Option.bind_some, PResult.ok_bind, opt_bind_bindP, raw_pre_run]
      cases h2 : rawSamples bps (t - 8) r with
      | ok w =>
        obtain ⟨warm, r2⟩ := w
        simp only [cls_ok, bindP_ok, PResult.ok_bind, fromSliceH]
        by_cases hw : warm.length ≤ 4
        · have hw' : ¬ warm.length > 4 := by omega
          simp only [hw, hw', if_true, if_false, bindO, C16G_residual_run]
          cases h3 : Repo.residual bs (t - 8) r2 with
          | ok z => obtain ⟨res, r3⟩ := z; simp [okP, FixedLpc_from_parts]
          | error e => cases e <;> simp
          | panic s => simp
        · have hw' : warm.length > 4 := by omega
          simp [hw, hw', bindO, errP]
      | error e => cases e <;> simp
      | panic s => simp
    · have : ¬ (decide (8 ≤ t) && decide (t ≤ 12)) = true := by simpa using ht
      simp [ht, this, errP]
  | error e => cases e <;> simp
  | panic s => simp

theorem C16G_fixed_lpc (bs bps : Nat) (i : Bits) :
    Gen.Parser.fixed_lpc true bs bps i = if bps ≤ 25 then cls (Repo.fixedLpc bs bps i) else none := by
  unfold Gen.Parser.fixed_lpc fixed_lpc_pre
  rw [pre_eq, C16G_fixed_lpc_run]
  by_cases h : bps ≤ 25 <;> simp [h]

/-! ### `quantized_parameters`, `lpc`, `subframe` -/

/-- the mirror's `quantizedNew` is `QParams.new` (hand model of C18) and has no panic outcome: the two panic sites it
lists (`order <= 32`, `1i32 << (precision - 1)`) are excluded by the range checks that run first -/
theorem quantizedNew_eq (coefs : List Int) (order : Nat) (shift : Int) (precision : Nat) :
    quantizedNew coefs order shift precision = .ok ((QParams.new coefs order shift precision).map fun _ => ()) := by
  unfold quantizedNew QParams.new QParams.verify
  by_cases h1 : order > 24
  · have : ¬ (order ≤ 24 ∧ coefs.length = order) := by omega
    simp [h1, this]
  · by_cases h2 : coefs.length = order
    · have h1' : order ≤ 24 := by omega
      have h32 : order ≤ 32 := by omega
      have hl : coefs.length ≤ 24 := by omega
      simp only [h1, h2, h1', h32, if_false, ne_eq, not_true_eq_false, and_self, if_true, passert, decide_true,
        PResult.ok_bind, hl, Bool.true_and]
      by_cases h3 : shift < 0 ∨ shift > 15
      · have : ¬ (0 ≤ shift ∧ shift ≤ 15) := by omega
        have t : (decide (0 ≤ shift) && decide (shift ≤ 15)) = false := by simpa using this
        simp only [h3, if_true]
        simp [t, Bool.and_assoc]
      · have t : (decide (0 ≤ shift) && decide (shift ≤ 15)) = true := by
          have : 0 ≤ shift ∧ shift ≤ 15 := by omega
          simp [this.1, this.2]
        by_cases h4 : precision < 1 ∨ precision > 15
        · have : ¬ (1 ≤ precision ∧ precision ≤ 15) := by omega
          have t2 : (decide (1 ≤ precision) && decide (precision ≤ 15)) = false := by simpa using this
          simp only [h3, h4, if_false, if_true]
          simp [t, t2, Bool.and_assoc]
        · have hp : 1 ≤ precision ∧ precision ≤ 15 := by omega
          have hpow : 2 ^ (precision - 1) < 2 ^ 31 := Nat.pow_lt_pow_right (by decide) (by omega)
          have hmod : 1 * 2 ^ (precision - 1) % 2 ^ 32 = 2 ^ (precision - 1) := by
            rw [Nat.one_mul]; exact Nat.mod_eq_of_lt (by omega)
          have hge : ¬ 2 ^ (precision - 1) ≥ 2 ^ 31 := by omega
          simp only [h3, h4, if_false, usub, hp.1, if_true, PResult.ok_bind, ushl, show precision - 1 < 32 by omega, hmod, hge,
            t, hp.2, decide_true, Bool.true_and, Bool.and_self]
          have hc : ((2 ^ (precision - 1) : Nat) : Int) = (2 : Int) ^ (precision - 1) := by simp
          simp only [hc]
          by_cases ha : (coefs.all fun c => decide (-(2 : Int) ^ (precision - 1) ≤ c) && decide (c ≤ (2 : Int) ^ (precision - 1) - 1)) = true
          · simp [ha]
          · simp [ha]
    · have : ¬ (order ≤ 24 ∧ coefs.length = order) := by omega
      simp [h1, h2, this]

theorem QParams_new_some {coefs : List Int} {order : Nat} {shift : Int} {precision : Nat} {q : QParams}
    (h : QParams.new coefs order shift precision = some q) : q = ⟨coefs, shift, precision⟩ ∧ coefs.length = order := by
  unfold QParams.new at h
  by_cases h1 : order ≤ 24 ∧ coefs.length = order
  · simp only [h1, and_self, if_true] at h
    split at h
    · exact ⟨(Option.some.inj h).symm, h1.2⟩
    · simp at h
  · simp [h1] at h

/-- outcome map for `quantized_parameters`: the mirror returns the triple, the Rust code the `QuantizedParameters` value -/
def clsQ : PResult ((List Int × Int × Nat) × Bits) → PM (List Bool × QParams)
  | .ok ((c, s, p), r) => some (.ok (r, ⟨c, s, p⟩))
  | .error true => some (.error .incomplete)
  | .error false => some (.error .error)
  | .panic _ => none

theorem qp_both (order : Nat) (i : Bits) :
    quantized_parameters_run true order i = clsQ (quantizedParameters order i) ∧
    ∀ c s p r, quantizedParameters order i = .ok ((c, s, p), r) → c.length = order := by
  unfold quantized_parameters_run quantizedParameters
  simp only [mapP, C16G_takeBits]
  cases h1 : Repo.takeBits 8 4 i with
  | ok v =>
    obtain ⟨p, r1⟩ := v
    simp only [cls_ok, bindP_ok, PResult.ok_bind]
    by_cases hp : p + 1 < 2 ^ 64
    · simp only [addU, uadd, hp, if_true, Option.bind_some, bindP_okP, PResult.ok_bind]
      cases h2 : Repo.takeBits 8 5 r1 with
      | ok v =>
        obtain ⟨x, r2⟩ := v
        simp only [cls_ok, bindP_ok, PResult.ok_bind]
        rw [show u_to_i true x 5 = clsO (uToI x 5) from C16G_u_to_i x 5]
        cases h3 : uToI x 5 with
        | ok sv =>
          simp only [clsO, Option.bind_some, bindP_okP, PResult.ok_bind, opt_bind_bindP, raw_pre_run]
          cases h4 : rawSamples (p + 1) order r2 with
          | ok w =>
            obtain ⟨cs, r3⟩ := w
            simp only [cls_ok, bindP_ok, PResult.ok_bind, C18Gen.C18G_qparams_new, Option.bind_some, quantizedNew_eq]
            cases h5 : QParams.new (List.map (fun x => wrapS 16 x) cs) order (wrapS 8 sv) (p + 1) with
            | none =>
              have h5' : QParams.new (List.map (asSigned 16) cs) order (asSigned 8 sv) (p + 1) = none := h5
              simp [h5', bindO, errP, clsQ]
            | some q =>
              have h5' : QParams.new (List.map (asSigned 16) cs) order (asSigned 8 sv) (p + 1) = some q := h5
              obtain ⟨hq, hl⟩ := QParams_new_some h5'
              subst hq
              simp only [h5', Option.map_some, bindO, okP, clsQ, PResult.pure_eq, true_and]
              intro c s p' r hh
              simp only [PResult.ok.injEq, Prod.mk.injEq] at hh
              rw [← hh.1.1]; exact hl
          | error e => cases e <;> simp [clsQ]
          | panic s => simp [clsQ]
        | error e => exact absurd h3 (uToI_ne_error x 5 e)
        | panic s => simp [clsO, clsQ]
      | error e => cases e <;> simp [clsQ]
      | panic s => simp [clsQ]
    · simp [addU, uadd, hp, clsQ]
  | error e => cases e <;> simp [clsQ]
  | panic s => simp [clsQ]

theorem C16G_quantized_parameters (order : Nat) (i : Bits) :
    Gen.Parser.quantized_parameters true order i = clsQ (quantizedParameters order i) := (qp_both order i).1

theorem C16G_lpc_run (bs bps : Nat) (i : Bits) :
    lpc_run true bs bps i = cls (Repo.lpc bs bps i) := by
  unfold lpc_run Repo.lpc
  simp only [C16G_subframe_header]
  cases h : subframeHeader i with
  | ok v =>
    obtain ⟨t, r⟩ := v
    simp only [bindP_ok, PResult.ok_bind]
    by_cases ht : 0x20 ≤ t ∧ t < 0x40
    · have h32 : 32 ≤ t := ht.1
      have h64 : t < 64 := ht.2
      have ha : t - 32 + 1 < 2 ^ 64 := by omega
      simp only [h32, h64, decide_true, Bool.and_self, Bool.not_true, Bool.false_eq_true, if_false, and_self,
        not_true_eq_false, subU, usub, addU, uadd, ha, if_true, Option.bind_some, PResult.ok_bind, opt_bind_bindP, raw_pre_run]
      cases h2 : rawSamples bps (t - 32 + 1) r with
      | ok w =>
        obtain ⟨warm, r2⟩ := w
        simp only [cls_ok, bindP_ok, PResult.ok_bind, fromSliceH]
        by_cases hw : warm.length ≤ 24
        · have hw' : ¬ warm.length > 24 := by omega
          simp only [hw, hw', if_true, if_false, bindO]
          obtain ⟨q1, q2⟩ := qp_both (t - 32 + 1) r2
          rw [q1]
          cases h3 : quantizedParameters (t - 32 + 1) r2 with
          | ok z =>
            obtain ⟨⟨c, sft, pr⟩, r3⟩ := z
            have hlen := q2 c sft pr r3 h3
            simp only [clsQ, bindP_ok, PResult.ok_bind, C16G_residual_run]
            cases h4 : Repo.residual bs (t - 32 + 1) r3 with
            | ok y =>
              obtain ⟨res, r4⟩ := y
              simp only [cls_ok, bindP_ok, PResult.ok_bind, Lpc_from_parts, passert, hlen]
              by_cases hwl : warm.length = t - 32 + 1
              · simp [hwl, okP]
              · simp [hwl]
            | error e => cases e <;> simp
            | panic s => simp
          | error e => cases e <;> simp [clsQ]
          | panic s => simp [clsQ]
        · have hw' : warm.length > 24 := by omega
          simp [hw, hw', bindO, errP]
      | error e => cases e <;> simp
      | panic s => simp
    · have : ¬ (decide (32 ≤ t) && decide (t < 64)) = true := by simpa using ht
      simp [ht, this, errP]
  | error e => cases e <;> simp
  | panic s => simp

theorem C16G_lpc (bs bps : Nat) (i : Bits) :
    Gen.Parser.lpc true bs bps i = if bps ≤ 25 then cls (Repo.lpc bs bps i) else none := by
  unfold Gen.Parser.lpc lpc_pre
  rw [pre_eq, C16G_lpc_run]
  by_cases h : bps ≤ 25 <;> simp [h]

/-- nom `alt` against the mirror's `alt` -/
theorem altP_cls {α : Type} (p q : List Bool → PM (List Bool × α)) (p' q' : Bits → PResult (α × Bits)) (i : Bits)
    (hp : p i = cls (p' i)) (hq : q i = cls (q' i)) : altP p q i = cls (Repo.alt p' q' i) := by
  unfold altP Repo.alt
  rw [hp, hq]
  cases h : p' i with
  | ok v => obtain ⟨a, r⟩ := v; simp
  | error e => cases e <;> simp
  | panic s => simp

theorem C16G_subframe (bs bps : Nat) (i : Bits) :
    Gen.Parser.subframe true bs bps i = cls (Repo.subframe bs bps i) := by
  unfold Gen.Parser.subframe subframe_pre subframe_pre0 constant_pre fixed_lpc_pre lpc_pre verbatim_pre
    subframe_run Repo.subframe bpsAssert passert
  simp only [pre_eq]
  by_cases h : bps ≤ 25
  · simp only [h, if_true, Option.bind_some, decide_true, PResult.ok_bind]
    exact altP_cls _ _ _ _ i (C16G_constant_run bs bps i)
      (altP_cls _ _ _ _ i (C16G_fixed_lpc_run bs bps i)
        (altP_cls _ _ _ _ i (C16G_lpc_run bs bps i) (C16G_verbatim_run bs bps i)))
  · simp [h]

/-! ## byte level

A byte-level input `&[u8]` is a `List Nat` on the generated side and the bit string of its bytes on the mirror's side.
`relB conv bs g m`: the generated outcome `g` on the bytes `bs` and the mirror's outcome `m` on `bytesToBits bs` agree:
same class, and for `Ok` the rest is the same suffix `bs.drop k` of the input and the values agree through `conv`
(generated component -> hand-model component).  Domain hypothesis of every theorem: the elements of `bs` are bytes. -/

def relB {α β : Type} (conv : β → α) (bs : List Nat) (g : PM (List Nat × β)) (m : PResult (α × Bits)) : Prop :=
  match m with
  | .ok (v, rb) => ∃ k gv, k ≤ bs.length ∧ g = some (.ok (bs.drop k, gv)) ∧ conv gv = v ∧ rb = bytesToBits (bs.drop k)
  | .error true => g = some (.error .incomplete)
  | .error false => g = some (.error .error)
  | .panic _ => g = none

def IsBytes (bs : List Nat) : Prop := ∀ b ∈ bs, b < 256

theorem IsBytes.drop {bs : List Nat} (h : IsBytes bs) (k : Nat) : IsBytes (bs.drop k) :=
  fun b hb => h b (List.mem_of_mem_drop hb)
theorem IsBytes.take {bs : List Nat} (h : IsBytes bs) (k : Nat) : IsBytes (bs.take k) :=
  fun b hb => h b (List.mem_of_mem_take hb)

theorem bits_split (bs : List Nat) (n : Nat) :
    bytesToBits bs = bytesToBits (bs.take n) ++ bytesToBits (bs.drop n) := by
  rw [← Repo.bytesToBits_append, List.take_append_drop]

theorem byteTake_ge (bs : List Nat) (n : Nat) (hb : IsBytes bs) (hn : n ≤ bs.length) :
    Gen.Parser.byteTake n bs = okP (bs.drop n, bs.take n) ∧
    Repo.byteTake n (bytesToBits bs) = .ok (bs.take n, bytesToBits (bs.drop n)) := by
  constructor
  · simp [Gen.Parser.byteTake, show ¬ bs.length < n by omega]
  · have := Repo.byteTake_bytesToBits (bs.take n) (bytesToBits (bs.drop n)) (hb.take n)
    rw [List.length_take, Nat.min_eq_left hn, ← bits_split] at this
    exact this

theorem byteTake_lt (bs : List Nat) (n : Nat) (hn : bs.length < n) :
    Gen.Parser.byteTake n bs = some (.error .incomplete) ∧ Repo.byteTake n (bytesToBits bs) = .error true := by
  constructor
  · simp [Gen.Parser.byteTake, hn]
  · simp [Repo.byteTake, Repo.bytesToBits_length]; omega

theorem beU_ge (bs : List Nat) (n : Nat) (hn : n ≤ bs.length) :
    beU n bs = okP (bs.drop n, bitsToNat (bytesToBits (bs.take n))) ∧
    beUint n (bytesToBits bs) = .ok (bitsToNat (bytesToBits (bs.take n)), bytesToBits (bs.drop n)) := by
  constructor
  · simp [beU, show ¬ bs.length < n by omega]
  · have hl : (bytesToBits (bs.take n)).length = 8 * n := by
      rw [Repo.bytesToBits_length, List.length_take, Nat.min_eq_left hn]
    unfold beUint
    rw [if_neg (by rw [Repo.bytesToBits_length]; omega), bits_split bs n,
      List.take_append_of_le_length (by omega), List.take_of_length_le (by omega),
      List.drop_append_of_le_length (by omega), List.drop_of_length_le (by omega)]
    simp

theorem beU_lt (bs : List Nat) (n : Nat) (hn : bs.length < n) :
    beU n bs = some (.error .incomplete) ∧ beUint n (bytesToBits bs) = .error true := by
  constructor
  · simp [beU, hn]
  · simp [beUint, Repo.bytesToBits_length]; omega

/-! ### `block_size_code`, `sample_rate_code` -/

theorem C16G_block_size_code (tag : Nat) (bs : List Nat) :
    relB C02Hdr.bsOfGen bs (block_size_code true tag bs) (blockSizeCode tag (bytesToBits bs)) := by
  unfold block_size_code block_size_code_run blockSizeCode
  by_cases h1 : tag = 1
  · subst h1
    exact ⟨0, _, Nat.zero_le _, rfl, rfl, by simp⟩
  · by_cases h2 : 2 ≤ tag ∧ tag ≤ 5
    · have : 2 ≤ tag := h2.1
      simp only [h1, h2, if_false, and_self, if_true, subU, usub, this, Option.bind_some, PResult.ok_bind]
      exact ⟨0, _, Nat.zero_le _, rfl, rfl, by simp⟩
    · by_cases h6 : tag = 6
      · subst h6
        simp only [h1, h2, if_false, if_true]
        by_cases hl : 1 ≤ bs.length
        · obtain ⟨e1, e2⟩ := beU_ge bs 1 hl
          rw [e1, e2]
          exact ⟨1, _, hl, rfl, rfl, rfl⟩
        · obtain ⟨e1, e2⟩ := beU_lt bs 1 (by omega)
          rw [e1, e2]; simp [relB]
      · by_cases h7 : tag = 7
        · subst h7
          simp only [h1, h2, h6, if_false, if_true]
          by_cases hl : 2 ≤ bs.length
          · obtain ⟨e1, e2⟩ := beU_ge bs 2 hl
            rw [e1, e2]
            exact ⟨2, _, hl, rfl, rfl, rfl⟩
          · obtain ⟨e1, e2⟩ := beU_lt bs 2 (by omega)
            rw [e1, e2]; simp [relB]
        · by_cases h8 : 8 ≤ tag ∧ tag ≤ 15
          · have : 8 ≤ tag := h8.1
            simp only [h1, h2, h6, h7, h8, if_false, and_self, if_true, subU, usub, this, Option.bind_some, PResult.ok_bind]
            exact ⟨0, _, Nat.zero_le _, rfl, rfl, by simp⟩
          · simp [h1, h2, h6, h7, h8, relB, errP]

theorem C16G_sample_rate_code (tag : Nat) (bs : List Nat) :
    relB C02Hdr.srOfGen bs (sample_rate_code true tag bs) (sampleRateCode tag (bytesToBits bs)) := by
  unfold sample_rate_code sample_rate_code_run sampleRateCode
  by_cases h0 : tag > 14
  · simp [h0, relB, errP]
  · simp only [h0, decide_false, Bool.false_eq_true, if_false]
    by_cases h12 : tag = 12
    · subst h12
      simp only [decide_true, if_true]
      by_cases hl : 1 ≤ bs.length
      · obtain ⟨e1, e2⟩ := beU_ge bs 1 hl
        rw [e1, e2]
        exact ⟨1, _, hl, rfl, rfl, rfl⟩
      · obtain ⟨e1, e2⟩ := beU_lt bs 1 (by omega)
        rw [e1, e2]; simp [relB]
    · by_cases h13 : tag = 13
      · subst h13
        simp only [show ¬ (13 : Nat) = 12 by decide, decide_false, decide_true, Bool.true_or, Bool.false_eq_true, if_false, if_true]
        by_cases hl : 2 ≤ bs.length
        · obtain ⟨e1, e2⟩ := beU_ge bs 2 hl
          rw [e1, e2]
          exact ⟨2, _, hl, rfl, rfl, rfl⟩
        · obtain ⟨e1, e2⟩ := beU_lt bs 2 (by omega)
          rw [e1, e2]; simp [relB]
      · by_cases h14 : tag = 14
        · subst h14
          simp only [show ¬ (14 : Nat) = 12 by decide, show ¬ (14 : Nat) = 13 by decide, decide_false, decide_true,
            Bool.or_true, Bool.false_eq_true, if_false, if_true]
          by_cases hl : 2 ≤ bs.length
          · obtain ⟨e1, e2⟩ := beU_ge bs 2 hl
            rw [e1, e2]
            exact ⟨2, _, hl, rfl, rfl, rfl⟩
          · obtain ⟨e1, e2⟩ := beU_lt bs 2 (by omega)
            rw [e1, e2]; simp [relB]
        · simp only [h12, h13, h14, decide_false, Bool.or_self, Bool.false_eq_true, if_false]
          have : tag = 0 ∨ tag = 1 ∨ tag = 2 ∨ tag = 3 ∨ tag = 4 ∨ tag = 5 ∨ tag = 6 ∨ tag = 7 ∨ tag = 8 ∨ tag = 9 ∨
              tag = 10 ∨ tag = 11 := by omega
          rcases this with h | h | h | h | h | h | h | h | h | h | h | h <;> subst h <;>
            exact ⟨0, _, Nat.zero_le _, rfl, rfl, rfl⟩

/-! ### `utf8_code` -/

theorem utf8_tail (tail : List Nat) : ∀ acc : Nat,
    (loopP tail acc fun b acc => okP ((shlU 64 acc 6) ||| (b &&& 63))) =
      okP (tail.foldl (fun a b => ((a * 64) % 2 ^ 64) ||| (b % 64)) acc) := by
  induction tail with
  | nil => intro acc; rfl
  | cons b t ih =>
    intro acc
    have e : b &&& 63 = b % 64 := Nat.and_two_pow_sub_one_eq_mod b 6
    show bindP (okP ((shlU 64 acc 6) ||| (b &&& 63))) (fun s' => loopP t s' _) = _
    rw [bindP_okP, ih, e]
    rfl

theorem utf8_rest (a : Nat) (t : List Nat) (n acc : Nat) (hb : IsBytes (a :: t)) :
    relB id (a :: t)
      (bindP (Gen.Parser.byteTake n t) fun (x : List Nat × List Nat) =>
        bindP (loopP x.2 acc fun b acc => okP ((shlU 64 acc 6) ||| (b &&& 63))) fun acc => okP (x.1, acc))
      (do
        let (tail, i) ← Repo.byteTake n (bytesToBits t)
        pure (tail.foldl (fun a b => ((a * 64) % 2 ^ 64) ||| (b % 64)) acc, i)) := by
  have hbt : IsBytes t := fun b h => hb b (List.mem_cons_of_mem _ h)
  by_cases hn : n ≤ t.length
  · obtain ⟨e1, e2⟩ := byteTake_ge t n hbt hn
    rw [e1, e2]
    simp only [bindP_okP, utf8_tail, PResult.ok_bind, PResult.pure_eq]
    exact ⟨n + 1, _, by simp; omega, rfl, rfl, rfl⟩
  · obtain ⟨e1, e2⟩ := byteTake_lt t n (by omega)
    rw [e1, e2]
    simp [relB]

theorem C16G_utf8_code (bs : List Nat) (hb : IsBytes bs) :
    relB id bs (utf8_code true bs) (utf8Code (bytesToBits bs)) := by
  unfold utf8_code utf8Code
  cases bs with
  | nil => simp [mapP, Gen.Parser.byteTake, Repo.byteTake, bytesToBits, relB]
  | cons a t =>
    have ha : a < 256 := hb a (by simp)
    obtain ⟨e1, e2⟩ := byteTake_ge (a :: t) 1 hb (by simp)
    simp only [mapP, e1, e2, bindP_okP, PResult.ok_bind, List.take_succ_cons, List.take_zero, List.drop_succ_cons,
      List.drop_zero, List.getElem?_cons_zero, Option.bind_some]
    have e7 : a &&& 127 = a % 128 := Nat.and_two_pow_sub_one_eq_mod a 7
    have e5 : a &&& 31 = a % 32 := Nat.and_two_pow_sub_one_eq_mod a 5
    have e4 : a &&& 15 = a % 16 := Nat.and_two_pow_sub_one_eq_mod a 4
    have e3 : a &&& 7 = a % 8 := Nat.and_two_pow_sub_one_eq_mod a 3
    have e2' : a &&& 3 = a % 4 := Nat.and_two_pow_sub_one_eq_mod a 2
    have e1' : a &&& 1 = a % 2 := Nat.and_two_pow_sub_one_eq_mod a 1
    by_cases c1 : a < 128
    · simp only [c1, decide_true, if_true, bindP_okP, e7]
      exact utf8_rest a t 0 (a % 128) hb
    by_cases c2 : a < 0xE0
    · simp only [c1, c2, decide_true, decide_false, Bool.false_eq_true, if_true, if_false, bindP_okP, e5]
      exact utf8_rest a t 1 (a % 32) hb
    by_cases c3 : a < 0xF0
    · simp only [c1, c2, c3, decide_true, decide_false, Bool.false_eq_true, if_true, if_false, bindP_okP, e4]
      exact utf8_rest a t 2 (a % 16) hb
    by_cases c4 : a < 0xF8
    · simp only [c1, c2, c3, c4, decide_true, decide_false, Bool.false_eq_true, if_true, if_false, bindP_okP, e3]
      exact utf8_rest a t 3 (a % 8) hb
    by_cases c5 : a < 0xFC
    · simp only [c1, c2, c3, c4, c5, decide_true, decide_false, Bool.false_eq_true, if_true, if_false, bindP_okP, e2']
      exact utf8_rest a t 4 (a % 4) hb
    by_cases c6 : a < 0xFE
    · simp only [c1, c2, c3, c4, c5, c6, decide_true, decide_false, Bool.false_eq_true, if_true, if_false, bindP_okP, e1']
      exact utf8_rest a t 5 (a % 2) hb
    by_cases c7 : a = 0xFE
    · subst c7
      exact utf8_rest 254 t 6 0 hb
    · simp [c1, c2, c3, c4, c5, c6, c7, relB, errP]

/-! ### `frame_header` -/

theorem takeBits_ok {w n v : Nat} {i r : Bits} (h : Repo.takeBits w n i = .ok (v, r)) :
    r = i.drop n ∧ n ≤ i.length ∧ v = bitsToNat (i.take n) := by
  unfold Repo.takeBits at h
  by_cases h0 : n = 0
  · subst h0
    simp only [if_true, PResult.ok.injEq, Prod.mk.injEq] at h
    obtain ⟨h1, h2⟩ := h
    subst h1; subst h2
    simp [bitsToNat]
  · by_cases h1 : i.length < n
    · simp [h0, h1] at h
    · by_cases h2 : w < n
      · simp [h0, h1, h2] at h
      · simp [h0, h1, h2] at h
        exact ⟨h.2.symm, by omega, h.1.symm⟩

theorem tagBits_ok {w p n v : Nat} {i r : Bits} (h : Repo.tagBits w p n i = .ok (v, r)) :
    r = i.drop n ∧ n ≤ i.length ∧ v = p := by
  unfold Repo.tagBits at h
  cases h2 : Repo.takeBits w n i with
  | ok x =>
    obtain ⟨v', r'⟩ := x
    rw [h2] at h
    by_cases hp : v' = p
    · simp [hp] at h
      obtain ⟨a, b, _⟩ := takeBits_ok h2
      exact ⟨h.2 ▸ a, b, h.1.symm⟩
    · simp [hp] at h
  | error e => rw [h2] at h; simp at h
  | panic s => rw [h2] at h; simp at h

theorem drop_bits (bs : List Nat) (n : Nat) : (bytesToBits bs).drop (8 * n) = bytesToBits (bs.drop n) := by
  by_cases hn : n ≤ bs.length
  · have hl : (bytesToBits (bs.take n)).length = 8 * n := by
      rw [Repo.bytesToBits_length, List.length_take, Nat.min_eq_left hn]
    rw [bits_split bs n, List.drop_append_of_le_length (by omega), List.drop_of_length_le (by omega)]
    simp
  · rw [List.drop_of_length_le (by rw [Repo.bytesToBits_length]; omega), List.drop_of_length_le (by omega)]
    rfl

theorem take_bits (bs : List Nat) (n : Nat) (hn : n ≤ bs.length) :
    (bytesToBits bs).take (8 * n) = bytesToBits (bs.take n) := by
  have hl : (bytesToBits (bs.take n)).length = 8 * n := by
    rw [Repo.bytesToBits_length, List.length_take, Nat.min_eq_left hn]
  rw [bits_split bs n, List.take_append_of_le_length (by omega), List.take_of_length_le (by omega)]

theorem relB_elim {α β : Type} {conv : β → α} {bs : List Nat} {g : PM (List Nat × β)} {m : PResult (α × Bits)}
    (h : relB conv bs g m) :
    (∃ k gv, k ≤ bs.length ∧ g = some (.ok (bs.drop k, gv)) ∧ m = .ok (conv gv, bytesToBits (bs.drop k))) ∨
    (g = some (.error .incomplete) ∧ m = .error true) ∨ (g = some (.error .error) ∧ m = .error false) ∨
    (g = none ∧ ∃ s, m = .panic s) := by
  cases m with
  | ok x =>
    obtain ⟨v, rb⟩ := x
    obtain ⟨k, gv, h1, h2, h3, h4⟩ := h
    exact Or.inl ⟨k, gv, h1, h2, by rw [h3, h4]⟩
  | error e =>
    cases e with
    | true => exact Or.inr (Or.inl ⟨h, rfl⟩)
    | false => exact Or.inr (Or.inr (Or.inl ⟨h, rfl⟩))
  | panic s => exact Or.inr (Or.inr (Or.inr ⟨h, s, rfl⟩))

theorem ss_from_tag (t : Nat) (ht : t ≤ 7) :
    ∃ g, Gen.Headers.SampleSizeSpec.from_tag t = some g ∧ Gen.Headers.SampleSizeSpec.into_tag g = t := by
  have : t = 0 ∨ t = 1 ∨ t = 2 ∨ t = 3 ∨ t = 4 ∨ t = 5 ∨ t = 6 ∨ t = 7 := by omega
  rcases this with h | h | h | h | h | h | h | h <;> subst h <;> exact ⟨_, rfl, rfl⟩

theorem ss_from_tag_none (t : Nat) (ht : ¬ t ≤ 7) : Gen.Headers.SampleSizeSpec.from_tag t = none := by
  unfold Gen.Headers.SampleSizeSpec.from_tag
  have h0 : ¬ t = 0 := by omega
  have h1 : ¬ t = 1 := by omega
  have h2 : ¬ t = 2 := by omega
  have h3 : ¬ t = 3 := by omega
  have h4 : ¬ t = 4 := by omega
  have h5 : ¬ t = 5 := by omega
  have h6 : ¬ t = 6 := by omega
  have h7 : ¬ t = 7 := by omega
  simp [h0, h1, h2, h3, h4, h5, h6, h7]

/-- `ChannelAssignment::from_tag` (part `headers`, with its exactness condition) against the mirror's `channelFromTag` -/
theorem ch_from_tag (t : Nat) :
    (∃ g, (Gen.Decode.hdrVal (Gen.Headers.ChannelAssignment.from_tag_exact t) (Gen.Headers.ChannelAssignment.from_tag t)) = some (some g) ∧
        channelFromTag t = .ok (some (C02Hdr.caOfGen g))) ∨
    ((Gen.Decode.hdrVal (Gen.Headers.ChannelAssignment.from_tag_exact t) (Gen.Headers.ChannelAssignment.from_tag t)) = some none ∧
        channelFromTag t = .ok none) := by
  unfold Gen.Decode.hdrVal Gen.Headers.ChannelAssignment.from_tag_exact Gen.Headers.ChannelAssignment.from_tag channelFromTag
  by_cases h8 : t < 8
  · have : t + 1 < 256 := by omega
    have h8' : t + 1 < 2 ^ 8 := by omega
    exact Or.inl ⟨.Independent (t + 1), by simp [h8, this], by simp [h8, uadd, h8', C02Hdr.caOfGen]⟩
  · by_cases e8 : t = 8
    · subst e8; exact Or.inl ⟨.LeftSide, rfl, rfl⟩
    · by_cases e9 : t = 9
      · subst e9; exact Or.inl ⟨.RightSide, rfl, rfl⟩
      · by_cases e10 : t = 10
        · subst e10; exact Or.inl ⟨.MidSide, rfl, rfl⟩
        · exact Or.inr ⟨by simp [h8, e8, e9, e10], by simp [h8, e8, e9, e10]⟩

/-! ### every bit-level parser of the mirror returns a suffix of its input -/

def Suf {α : Type} (i : Bits) (x : PResult (α × Bits)) : Prop :=
  ∀ v r, x = .ok (v, r) → ∃ m, m ≤ i.length ∧ r = i.drop m

theorem Suf.ok_self {α : Type} (v : α) (i : Bits) : Suf i (PResult.ok (v, i)) := by
  intro v' r h; simp only [PResult.ok.injEq, Prod.mk.injEq] at h; exact ⟨0, Nat.zero_le _, by rw [← h.2]; rfl⟩
theorem Suf.error {α : Type} (i : Bits) (e : Bool) : Suf i (PResult.error e : PResult (α × Bits)) := by
  intro v r h; simp at h
theorem Suf.panic {α : Type} (i : Bits) (s : String) : Suf i (PResult.panic s : PResult (α × Bits)) := by
  intro v r h; simp at h

theorem Suf.bind {α β : Type} {i : Bits} {x : PResult (α × Bits)} {f : α × Bits → PResult (β × Bits)}
    (hx : Suf i x) (hf : ∀ v r, Suf r (f (v, r))) : Suf i (x >>= f) := by
  intro v' r' h
  cases x with
  | ok p =>
    obtain ⟨v, r⟩ := p
    simp only [PResult.ok_bind] at h
    obtain ⟨m, hm, rfl⟩ := hx v r rfl
    obtain ⟨m', hm', rfl⟩ := hf v _ v' r' h
    rw [List.length_drop] at hm'
    exact ⟨m + m', by omega, by rw [List.drop_drop]⟩
  | error e => simp at h
  | panic s => simp at h

theorem Suf.bindO {γ β : Type} {i : Bits} (x : PResult γ) (g : γ → PResult (β × Bits)) (h : ∀ a, Suf i (g a)) :
    Suf i (x >>= g) := by
  cases x with
  | ok a => simpa using h a
  | error e => intro v r hh; simp at hh
  | panic s => intro v r hh; simp at hh

theorem suf_takeBits (w n : Nat) (i : Bits) : Suf i (Repo.takeBits w n i) := by
  intro v r h
  obtain ⟨a, b, _⟩ := takeBits_ok h
  exact ⟨n, b, a⟩

theorem suf_unaryCode : ∀ i : Bits, Suf i (unaryCode i) := by
  intro i
  induction i with
  | nil => exact Suf.error _ _
  | cons b t ih =>
    cases b with
    | true =>
      intro v r h
      simp only [unaryCode, PResult.ok.injEq, Prod.mk.injEq] at h
      exact ⟨1, by simp, by rw [← h.2]; rfl⟩
    | false =>
      intro v r h
      rw [unaryCode] at h
      cases h2 : unaryCode t with
      | ok p =>
        obtain ⟨q, r'⟩ := p
        rw [h2] at h
        simp only [PResult.ok.injEq, Prod.mk.injEq] at h
        obtain ⟨m, hm, hr⟩ := ih q r' h2
        exact ⟨m + 1, by simp; omega, by rw [← h.2, hr]; rfl⟩
      | error e => rw [h2] at h; simp at h
      | panic s => rw [h2] at h; simp at h

theorem suf_rawSamplesLoop (bps : Nat) : ∀ (n : Nat) (i : Bits), Suf i (rawSamplesLoop bps n i) := by
  intro n
  induction n with
  | zero => intro i; exact Suf.ok_self _ _
  | succ n ih =>
    intro i
    unfold rawSamplesLoop
    refine Suf.bind (suf_takeBits _ _ _) (fun u r => ?_)
    refine Suf.bindO _ _ (fun x => ?_)
    refine Suf.bind (ih r) (fun xs r2 => ?_)
    exact Suf.ok_self _ _

theorem suf_rawSamples (bps n : Nat) (i : Bits) : Suf i (rawSamples bps n i) := by
  unfold rawSamples
  exact Suf.bindO _ _ (fun _ => suf_rawSamplesLoop bps n i)

theorem suf_residualSamples (p w : Nat) : ∀ (n t : Nat) (i : Bits), Suf i (residualSamples p w n t i) := by
  intro n
  induction n with
  | zero => intro t i; exact Suf.ok_self _ _
  | succ n ih =>
    intro t i
    unfold residualSamples
    split
    · exact Suf.bind (ih _ i) (fun v r => Suf.ok_self _ _)
    · refine Suf.bind (suf_unaryCode i) (fun q r => ?_)
      refine Suf.bind (suf_takeBits _ _ _) (fun rv r2 => ?_)
      exact Suf.bind (ih _ r2) (fun v r3 => Suf.ok_self _ _)

theorem suf_residualParts (pBits plen w : Nat) : ∀ (n part : Nat) (i : Bits), Suf i (residualParts pBits plen w n part i) := by
  intro n
  induction n with
  | zero => intro part i; exact Suf.ok_self _ _
  | succ n ih =>
    intro part i
    unfold residualParts
    refine Suf.bind (suf_takeBits _ _ _) (fun p r => ?_)
    refine Suf.bindO _ _ (fun lo => ?_)
    refine Suf.bindO _ _ (fun hi => ?_)
    refine Suf.bind (suf_residualSamples _ _ _ _ _) (fun v r2 => ?_)
    exact Suf.bind (ih _ r2) (fun v2 r3 => Suf.ok_self _ _)

theorem suf_residual (bs w : Nat) (i : Bits) : Suf i (Repo.residual bs w i) := by
  unfold Repo.residual
  refine Suf.bind (suf_takeBits _ _ _) (fun method r => ?_)
  refine Suf.bindO _ _ (fun pBits => ?_)
  refine Suf.bind (suf_takeBits _ _ _) (fun order r2 => ?_)
  refine Suf.bindO _ _ (fun count => ?_)
  dsimp only
  split
  · exact Suf.panic _ _
  · refine Suf.bind (suf_residualParts _ _ _ _ _ _) (fun v r3 => ?_)
    refine Suf.bindO _ _ (fun _ => ?_)
    refine Suf.bindO _ _ (fun _ => ?_)
    refine Suf.bindO _ _ (fun _ => ?_)
    refine Suf.bindO _ _ (fun _ => ?_)
    exact Suf.ok_self _ _

theorem suf_subframeHeader (i : Bits) : Suf i (subframeHeader i) := by
  unfold subframeHeader
  refine Suf.bind (suf_takeBits _ _ _) (fun t r => ?_)
  refine Suf.bind (suf_takeBits _ _ _) (fun wf r2 => ?_)
  dsimp only
  split
  · exact Suf.error _ _
  · exact Suf.ok_self _ _

theorem suf_constant (bs bps : Nat) (i : Bits) : Suf i (Repo.constant bs bps i) := by
  unfold Repo.constant
  refine Suf.bind (suf_subframeHeader _) (fun t r => ?_)
  dsimp only
  split
  · exact Suf.error _ _
  · refine Suf.bind (suf_takeBits _ _ _) (fun u r2 => ?_)
    exact Suf.bindO _ _ (fun _ => Suf.ok_self _ _)

theorem suf_verbatim (bs bps : Nat) (i : Bits) : Suf i (Repo.verbatim bs bps i) := by
  unfold Repo.verbatim
  refine Suf.bind (suf_subframeHeader _) (fun t r => ?_)
  dsimp only
  split
  · exact Suf.error _ _
  · exact Suf.bind (suf_rawSamples _ _ _) (fun d r2 => Suf.ok_self _ _)

theorem suf_fixedLpc (bs bps : Nat) (i : Bits) : Suf i (Repo.fixedLpc bs bps i) := by
  unfold Repo.fixedLpc
  refine Suf.bind (suf_subframeHeader _) (fun t r => ?_)
  dsimp only
  split
  · exact Suf.error _ _
  · refine Suf.bindO _ _ (fun order => ?_)
    refine Suf.bind (suf_rawSamples _ _ _) (fun warm r2 => ?_)
    dsimp only
    split
    · exact Suf.error _ _
    · exact Suf.bind (suf_residual _ _ _) (fun res r3 => Suf.ok_self _ _)

theorem suf_quantizedParameters (order : Nat) (i : Bits) : Suf i (quantizedParameters order i) := by
  unfold quantizedParameters
  refine Suf.bind (suf_takeBits _ _ _) (fun p r => ?_)
  refine Suf.bindO _ _ (fun precision => ?_)
  refine Suf.bind (suf_takeBits _ _ _) (fun x r2 => ?_)
  refine Suf.bindO _ _ (fun sv => ?_)
  refine Suf.bind (suf_rawSamples _ _ _) (fun coefs r3 => ?_)
  refine Suf.bindO _ _ (fun o => ?_)
  cases o with
  | none => exact Suf.error _ _
  | some u => exact Suf.ok_self _ _

theorem suf_lpc (bs bps : Nat) (i : Bits) : Suf i (Repo.lpc bs bps i) := by
  unfold Repo.lpc
  refine Suf.bind (suf_subframeHeader _) (fun t r => ?_)
  dsimp only
  split
  · exact Suf.error _ _
  · refine Suf.bindO _ _ (fun o0 => ?_)
    refine Suf.bindO _ _ (fun order => ?_)
    refine Suf.bind (suf_rawSamples _ _ _) (fun warm r2 => ?_)
    dsimp only
    split
    · exact Suf.error _ _
    · refine Suf.bind (suf_quantizedParameters _ _) (fun q r3 => ?_)
      refine Suf.bind (suf_residual _ _ _) (fun res r4 => ?_)
      exact Suf.bindO _ _ (fun _ => Suf.ok_self _ _)

theorem suf_alt {α : Type} (p q : Bits → PResult (α × Bits)) (i : Bits) (hp : Suf i (p i)) (hq : Suf i (q i)) :
    Suf i (Repo.alt p q i) := by
  unfold Repo.alt
  cases h : p i with
  | ok v => rw [h] at hp; exact hp
  | error e => cases e <;> simp [hq, Suf.error]
  | panic s => exact Suf.panic _ _

theorem suf_subframe (bs bps : Nat) (i : Bits) : Suf i (Repo.subframe bs bps i) := by
  unfold Repo.subframe
  refine Suf.bindO _ _ (fun _ => ?_)
  refine Suf.bindO _ _ (fun _ => ?_)
  refine Suf.bindO _ _ (fun _ => ?_)
  refine Suf.bindO _ _ (fun _ => ?_)
  refine Suf.bindO _ _ (fun _ => ?_)
  exact suf_alt _ _ i (suf_constant _ _ _) (suf_alt _ _ i (suf_fixedLpc _ _ _) (suf_alt _ _ i (suf_lpc _ _ _) (suf_verbatim _ _ _)))

theorem suf_subframes (bs bps : Nat) (a : ChannelAssignment) : ∀ (n ch : Nat) (i : Bits), Suf i (Repo.subframes bs bps a n ch i) := by
  intro n
  induction n with
  | zero => intro ch i; exact Suf.ok_self _ _
  | succ n ih =>
    intro ch i
    unfold Repo.subframes
    refine Suf.bindO _ _ (fun b => ?_)
    have hs := suf_subframe bs b i
    cases h : Repo.subframe bs b i with
    | ok p =>
      obtain ⟨sf, tail⟩ := p
      dsimp only
      split
      · exact Suf.error _ _
      · obtain ⟨m, hm, rfl⟩ := hs sf tail h
        intro v r hh
        have := Suf.bind (ih (ch + 1) (i.drop m)) (fun sfs r2 => Suf.ok_self (sf :: sfs) r2) v r hh
        obtain ⟨m', hm', hr⟩ := this
        rw [List.length_drop] at hm'
        exact ⟨m + m', by omega, by rw [hr, List.drop_drop]⟩
    | error e => cases e <;> exact Suf.error _ _
    | panic s => exact Suf.panic _ _

/-- the common tail of `frame_header` / `frame`: checksum of the consumed bytes, `verify(be_uN, ..)`, result -/
theorem crc_tail {α β : Type} (params : CrcParams) (n : Nat) (c : Bool) (bs : List Nat) (K : Nat) (hK : K ≤ bs.length)
    (conv : β → α) (gv : β) (v : α) (hconv : conv gv = v) :
    relB conv bs
      ((boolThenO c fun _ =>
          (Gen.Decode.sliceR bs 0 (bs.length - (bs.drop K).length)).bind fun v5 =>
            some (crcBits params (bytesToBits v5))).bind fun t =>
        bindP (verifyP (beU n) (fun crc => some (match t with | none => true | some v => decide (v = crc))) (bs.drop K))
          fun x_1 => okP (x_1.fst, gv))
      (do
        let x ← beUint n (bytesToBits (bs.drop K))
        if (c && x.fst != crcBits params (consumed (bytesToBits bs) (bytesToBits (bs.drop K)))) = true then PResult.error false
        else pure (v, x.snd)) := by
  have hs : bs.length - (bs.drop K).length = K := by rw [List.length_drop]; omega
  have hsl : Gen.Decode.sliceR bs 0 K = some (bs.take K) := by simp [Gen.Decode.sliceR, hK]
  have hcons : consumed (bytesToBits bs) (bytesToBits (bs.drop K)) = bytesToBits (bs.take K) := by
    unfold consumed
    rw [Repo.bytesToBits_length, Repo.bytesToBits_length, List.length_drop,
      show 8 * bs.length - 8 * (bs.length - K) = 8 * K by omega, take_bits bs K hK]
  rw [hs, hsl, hcons]
  by_cases hn : n ≤ (bs.drop K).length
  · obtain ⟨e1, e2⟩ := beU_ge (bs.drop K) n hn
    have hk' : K + n ≤ bs.length := by rw [List.length_drop] at hn; omega
    cases c with
    | false =>
      simp only [boolThenO, Bool.false_eq_true, if_false, Option.bind_some, verifyP, e1, e2, bindP_okP, if_true,
        PResult.ok_bind, Bool.false_and, PResult.pure_eq]
      exact ⟨K + n, gv, hk', by rw [List.drop_drop]; rfl, hconv, by rw [List.drop_drop]⟩
    | true =>
      simp only [boolThenO, if_true, Option.bind_some, Option.map_some, verifyP, e1, e2, bindP_okP, PResult.ok_bind,
        Bool.true_and, PResult.pure_eq]
      by_cases hc : crcBits params (bytesToBits (bs.take K)) = bitsToNat (bytesToBits ((bs.drop K).take n))
      · simp only [hc, decide_true, if_true, bindP_okP, bne_self_eq_false, Bool.false_eq_true, if_false]
        exact ⟨K + n, gv, hk', by rw [List.drop_drop]; rfl, hconv, by rw [List.drop_drop]⟩
      · have hc' : (bitsToNat (bytesToBits ((bs.drop K).take n)) != crcBits params (bytesToBits (bs.take K))) = true := by
          simp; exact fun h => hc h.symm
        simp [hc, hc', relB, errP]
  · obtain ⟨e1, e2⟩ := beU_lt (bs.drop K) n (by omega)
    cases c <;> simp [boolThenO, verifyP, e1, e2, relB]

theorem C16G_frame_header (c : Bool) (bs : List Nat) (hb : IsBytes bs) :
    relB C08Gen.hdrOfGen bs (frame_header true c bs) (frameHeader c (bytesToBits bs)) := by
  unfold frame_header frame_header_run frameHeader bitsP
  simp only [C16G_tagBits, C16G_takeBits]
  cases h1 : Repo.tagBits 16 32764 15 (bytesToBits bs) with
  | error e => cases e <;> simp [relB]
  | panic s => simp [relB]
  | ok x1 =>
    obtain ⟨v1, i1⟩ := x1
    obtain ⟨r1, l1, _⟩ := tagBits_ok h1
    simp only [cls_ok, bindP_ok, bindP_okP, PResult.ok_bind]
    cases h2 : Repo.takeBits 8 1 i1 with
    | error e => cases e <;> simp [relB]
    | panic s => simp [relB]
    | ok x2 =>
      obtain ⟨v2, i2⟩ := x2
      obtain ⟨r2, l2, _⟩ := takeBits_ok h2
      simp only [cls_ok, bindP_ok, bindP_okP, PResult.ok_bind]
      cases h3 : Repo.takeBits 8 4 i2 with
      | error e => cases e <;> simp [relB]
      | panic s => simp [relB]
      | ok x3 =>
        obtain ⟨v3, i3⟩ := x3
        obtain ⟨r3, l3, _⟩ := takeBits_ok h3
        simp only [cls_ok, bindP_ok, bindP_okP, PResult.ok_bind]
        cases h4 : Repo.takeBits 8 4 i3 with
        | error e => cases e <;> simp [relB]
        | panic s => simp [relB]
        | ok x4 =>
          obtain ⟨v4, i4⟩ := x4
          obtain ⟨r4, l4, _⟩ := takeBits_ok h4
          simp only [cls_ok, bindP_ok, bindP_okP, PResult.ok_bind]
          cases h5 : Repo.takeBits 8 4 i4 with
          | error e => cases e <;> simp [relB]
          | panic s => simp [relB]
          | ok x5 =>
            obtain ⟨v5, i5⟩ := x5
            obtain ⟨r5, l5, _⟩ := takeBits_ok h5
            simp only [cls_ok, bindP_ok, bindP_okP, PResult.ok_bind]
            cases h6 : Repo.takeBits 8 3 i5 with
            | error e => cases e <;> simp [relB]
            | panic s => simp [relB]
            | ok x6 =>
              obtain ⟨v6, i6⟩ := x6
              obtain ⟨r6, l6, _⟩ := takeBits_ok h6
              simp only [cls_ok, bindP_ok, bindP_okP, PResult.ok_bind]
              cases h7 : Repo.tagBits 32 0 1 i6 with
              | error e => cases e <;> simp [relB]
              | panic s => simp [relB]
              | ok x7 =>
                obtain ⟨v7, i7⟩ := x7
                obtain ⟨r7, l7, _⟩ := tagBits_ok h7
                simp only [cls_ok, bindP_ok, bindP_okP, PResult.ok_bind]
                subst r1; subst r2; subst r3; subst r4; subst r5; subst r6; subst r7
                have hL : 32 ≤ 8 * bs.length := by
                  simp only [List.length_drop, Repo.bytesToBits_length] at l1 l2 l3 l4 l5 l6 l7
                  omega
                have h4 : 4 ≤ bs.length := by omega
                have hdrop : List.drop 1 (List.drop 3 (List.drop 4 (List.drop 4 (List.drop 4 (List.drop 1 (List.drop 15 (bytesToBits bs))))))) =
                    bytesToBits (bs.drop 4) := by
                  simp only [List.drop_drop]
                  exact drop_bits bs 4
                have hq : bs.length - (bytesToBits (bs.drop 4)).length / 8 = 4 := by
                  rw [Repo.bytesToBits_length, List.length_drop, Nat.mul_div_cancel_left _ (by decide : 0 < 8)]; omega
                have hal : alignByte (bytesToBits (bs.drop 4)) = bytesToBits (bs.drop 4) := by
                  unfold alignByte
                  rw [Repo.bytesToBits_length, Nat.mul_mod_right]; rfl
                simp only [hdrop, hq, hal]
                clear h1 h2 h3 h5 h6 h7 l1 l2 l3 l4 l5 l6 l7
                by_cases hs : v6 ≤ 7
                · obtain ⟨gss, hg1, hg2⟩ := ss_from_tag v6 hs
                  have hs' : ¬ v6 > 7 := by omega
                  simp only [hg1, bindO, hs', if_false]
                  rcases ch_from_tag v5 with ⟨gca, hc1, hc2⟩ | ⟨hc1, hc2⟩
                  · simp only [hc1, hc2, Option.bind_some, PResult.ok_bind]
                    have hu := C16G_utf8_code (bs.drop 4) (hb.drop 4)
                    rcases relB_elim hu with ⟨k1, x, hk1, eu1, eu2⟩ | ⟨eu1, eu2⟩ | ⟨eu1, eu2⟩ | ⟨eu1, s, eu2⟩
                    · have hif : ∀ (A B : Gen.Verify.FrameOffset),
                          (if decide (v2 = 0) = true then (okP ((bs.drop 4).drop k1, A) : PM (List Nat × Gen.Verify.FrameOffset))
                            else okP ((bs.drop 4).drop k1, B)) = okP ((bs.drop 4).drop k1, if v2 = 0 then A else B) := by
                        intro A B; by_cases hbk : v2 = 0 <;> simp [hbk]
                      simp only [mapP, eu1, eu2, bindP_ok, Option.bind_some, bindP_okP, hif, PResult.ok_bind, id]
                      have hbsz := C16G_block_size_code v3 ((bs.drop 4).drop k1)
                      unfold block_size_code at hbsz
                      rcases relB_elim hbsz with ⟨k2, gbs, hk2, eb1, eb2⟩ | ⟨eb1, eb2⟩ | ⟨eb1, eb2⟩ | ⟨eb1, s, eb2⟩
                      · simp only [eb1, eb2, bindP_ok, PResult.ok_bind]
                        have hsr := C16G_sample_rate_code v4 (((bs.drop 4).drop k1).drop k2)
                        unfold sample_rate_code at hsr
                        rcases relB_elim hsr with ⟨k3, gsr, hk3, es1, es2⟩ | ⟨es1, es2⟩ | ⟨es1, es2⟩ | ⟨es1, s, es2⟩
                        · simp only [es1, es2, bindP_ok, PResult.ok_bind]
                          simp only [List.drop_drop]
                          have hK : 4 + k1 + k2 + k3 ≤ bs.length := by
                            simp only [List.length_drop] at hk1 hk2 hk3; omega
                          refine crc_tail rfcCrc8 1 c bs (4 + k1 + k2 + k3) hK C08Gen.hdrOfGen _ _ ?_
                          by_cases hbk : v2 = 0
                          · subst hbk
                            simp [C08Gen.hdrOfGen, Gen.Verify.FrameHeader.set_frame_offset, Gen.Verify.FrameHeader.set_frame_number,
                              FrameHeader_from_specs, hg2]
                          · simp [hbk, C08Gen.hdrOfGen, Gen.Verify.FrameHeader.set_frame_offset, Gen.Verify.FrameHeader.set_start_sample_number,
                              FrameHeader_from_specs, hg2]
                        · simp only [es1, es2]; simp [relB]
                        · simp only [es1, es2]; simp [relB]
                        · simp only [es1, es2]; simp [relB]
                      · simp only [eb1, eb2]; simp [relB]
                      · simp only [eb1, eb2]; simp [relB]
                      · simp only [eb1, eb2]; simp [relB]
                    · have : ∀ (f g : Nat → Option Gen.Verify.FrameOffset) (K : List Nat × Gen.Verify.FrameOffset → PM (List Nat × Gen.Writer.FrameHeader)),
                          bindP (if decide (v2 = 0) = true then bindP (mapP (utf8_code true) f (bs.drop 4)) fun r2 => okP r2
                                 else bindP (mapP (utf8_code true) g (bs.drop 4)) fun r2 => okP r2) K = some (.error .incomplete) := by
                        intro f g K; by_cases hbk : v2 = 0 <;> simp [hbk, mapP, eu1]
                      simp only [this, eu2]
                      simp [relB]
                    · have : ∀ (f g : Nat → Option Gen.Verify.FrameOffset) (K : List Nat × Gen.Verify.FrameOffset → PM (List Nat × Gen.Writer.FrameHeader)),
                          bindP (if decide (v2 = 0) = true then bindP (mapP (utf8_code true) f (bs.drop 4)) fun r2 => okP r2
                                 else bindP (mapP (utf8_code true) g (bs.drop 4)) fun r2 => okP r2) K = some (.error .error) := by
                        intro f g K; by_cases hbk : v2 = 0 <;> simp [hbk, mapP, eu1]
                      simp only [this, eu2]
                      simp [relB]
                    · have : ∀ (f g : Nat → Option Gen.Verify.FrameOffset) (K : List Nat × Gen.Verify.FrameOffset → PM (List Nat × Gen.Writer.FrameHeader)),
                          bindP (if decide (v2 = 0) = true then bindP (mapP (utf8_code true) f (bs.drop 4)) fun r2 => okP r2
                                 else bindP (mapP (utf8_code true) g (bs.drop 4)) fun r2 => okP r2) K = none := by
                        intro f g K; by_cases hbk : v2 = 0 <;> simp [hbk, mapP, eu1]
                      simp only [this, eu2]
                      simp [relB]
                  · simp [hc1, hc2, relB, bindO, errP]
                · have := ss_from_tag_none v6 hs
                  have hs' : v6 > 7 := by omega
                  simp [this, hs', bindO, errP, relB]

/-! ### `frame` -/

/-- the closure of `many_m_n` in the generated `frame` (state = the channel counter) -/
def sfBody (bs bps : Nat) (gca : Gen.Headers.ChannelAssignment) (ch : Nat) (i : List Bool) :
    Option (Nat × PM (List Bool × SubFrame)) :=
  (addU true 64 bps (Gen.Headers.ChannelAssignment.bits_per_sample_offset gca ch)).bind fun v2 =>
  (subframe_pre true bs v2).bind fun _ =>
  let ret : PM ((List Bool) × FlacVerif.SubFrame) := (subframe_run true bs v2) i
  (addU true 64 ch 1).bind fun v3 =>
  let ch : Nat := v3
  some (ch, ret)

theorem bps_offset_eq (gca : Gen.Headers.ChannelAssignment) (ch : Nat) :
    Gen.Headers.ChannelAssignment.bits_per_sample_offset gca ch = (C02Hdr.caOfGen gca).bpsOffset ch := by
  cases gca <;> rfl

theorem channels_eq (gca : Gen.Headers.ChannelAssignment) :
    Gen.Headers.ChannelAssignment.channels gca = (C02Hdr.caOfGen gca).channels := by
  cases gca <;> rfl

theorem many_subframes (bs bps : Nat) (gca : Gen.Headers.ChannelAssignment) :
    ∀ (n ch : Nat) (i : Bits) (acc : List SubFrame), ch + n < 2 ^ 64 →
      manyMNSAux (sfBody bs bps gca) n ch i acc = accX acc (Repo.subframes bs bps (C02Hdr.caOfGen gca) n ch i) := by
  intro n
  induction n with
  | zero => intro ch i acc _; simp [manyMNSAux, Repo.subframes, accX, okP]
  | succ n ih =>
    intro ch i acc hb
    have hch : ch + 1 < 2 ^ 64 := by omega
    simp only [manyMNSAux, Repo.subframes, sfBody, bps_offset_eq]
    by_cases hbp : bps + (C02Hdr.caOfGen gca).bpsOffset ch < 2 ^ 64
    · simp only [addU, uadd, hbp, hch, if_true, Option.bind_some, PResult.ok_bind]
      have hsub := C16G_subframe bs (bps + (C02Hdr.caOfGen gca).bpsOffset ch) i
      unfold Gen.Parser.subframe at hsub
      cases hp : subframe_pre true bs (bps + (C02Hdr.caOfGen gca).bpsOffset ch) with
      | none =>
        rw [hp] at hsub
        simp only [Option.bind_none] at hsub ⊢
        cases h2 : Repo.subframe bs (bps + (C02Hdr.caOfGen gca).bpsOffset ch) i with
        | ok w => rw [h2] at hsub; obtain ⟨a, b⟩ := w; simp at hsub
        | error e => rw [h2] at hsub; cases e <;> simp at hsub
        | panic s => simp [accX]
      | some u =>
        rw [hp] at hsub
        simp only [Option.bind_some] at hsub ⊢
        rw [hsub]
        cases h2 : Repo.subframe bs (bps + (C02Hdr.caOfGen gca).bpsOffset ch) i with
        | ok w =>
          obtain ⟨sf, tail⟩ := w
          simp only [cls_ok]
          by_cases hl : tail.length = i.length
          · simp [hl, accX, errP]
          · simp only [hl, if_false]
            rw [ih (ch + 1) tail (acc ++ [sf]) (by omega)]
            cases h3 : Repo.subframes bs bps (C02Hdr.caOfGen gca) n (ch + 1) tail with
            | ok z => obtain ⟨sfs, r⟩ := z; simp [accX]
            | error e => cases e <;> simp [accX]
            | panic s => simp [accX]
        | error e => cases e <;> simp [accX]
        | panic s => simp [accX]
    · simp [addU, uadd, hbp, accX]

theorem align_suffix (bs : List Nat) (m : Nat) (hm : m ≤ (bytesToBits bs).length) :
    alignByte ((bytesToBits bs).drop m) =
      bytesToBits (bs.drop (bs.length - ((bytesToBits bs).drop m).length / 8)) := by
  rw [Repo.bytesToBits_length] at hm
  unfold alignByte
  rw [List.drop_drop, List.length_drop, Repo.bytesToBits_length, ← drop_bits]
  congr 1
  omega

/-- hand-model image of a generated `Frame` -/
def frOfGen (g : Gen.Writer.Frame) : Frame := { header := C08Gen.hdrOfGen g.header, subframes := g.subframes }

theorem ss_bits_eq (g : Gen.Headers.SampleSizeSpec) :
    sampleSizeBits (Gen.Headers.SampleSizeSpec.into_tag g) = Gen.Headers.SampleSizeSpec.into_bits g := by
  cases g <;> rfl

theorem C16G_frame (info : StreamInfo) (c : Bool) (bs : List Nat) (hb : IsBytes bs) (hch : info.channels < 2 ^ 64) :
    relB frOfGen bs (Gen.Parser.frame true info c bs) (Repo.frame info c (bytesToBits bs)) := by
  unfold Gen.Parser.frame frame_pre frame_run Repo.frame
  have hh := C16G_frame_header true bs hb
  unfold frame_header at hh
  rcases relB_elim hh with ⟨k, gh, hk, e1, e2⟩ | ⟨e1, e2⟩ | ⟨e1, e2⟩ | ⟨e1, s, e2⟩
  · simp only [Option.bind_some, e1, e2, bindP_ok, PResult.ok_bind]
    have ha : (C08Gen.hdrOfGen gh).assignment = C02Hdr.caOfGen gh.channel_assignment := rfl
    have hst : (C08Gen.hdrOfGen gh).sampleSizeTag = Gen.Headers.SampleSizeSpec.into_tag gh.sample_size_spec := rfl
    simp only [ha, hst, ss_bits_eq, ← channels_eq]
    by_cases hc : Gen.Headers.ChannelAssignment.channels gh.channel_assignment = info.channels
    · simp only [hc, ne_eq, not_true_eq_false, decide_false, Bool.false_eq_true, if_false]
      have hbsz := C15Gen.block_size_eq true gh
      cases hbs : headerBlockSize (C08Gen.hdrOfGen gh) with
      | ok n =>
        rw [hbs] at hbsz
        simp only [hbsz, Option.bind_some, PResult.ok_bind]
        by_cases hbps : (Gen.Headers.SampleSizeSpec.into_bits gh.sample_size_spec).getD info.bps = info.bps
        · simp only [hbps, not_true_eq_false, decide_false, Bool.false_eq_true, if_false]
          change relB frOfGen bs (bindP (bitsP (manyMNS _ 0 (sfBody n _ gh.channel_assignment)) (List.drop k bs)) _) _
          unfold bitsP manyMNS
          rw [many_subframes n info.bps gh.channel_assignment info.channels 0 (bytesToBits (bs.drop k)) [] (by omega)]
          have hsuf := suf_subframes n info.bps (C02Hdr.caOfGen gh.channel_assignment) info.channels 0 (bytesToBits (bs.drop k))
          cases h3 : Repo.subframes n info.bps (C02Hdr.caOfGen gh.channel_assignment) info.channels 0 (bytesToBits (bs.drop k)) with
          | ok z =>
            obtain ⟨sfs, j⟩ := z
            obtain ⟨m, hm, rfl⟩ := hsuf sfs j h3
            simp only [accX, List.nil_append, bindP_ok, bindP_okP, PResult.ok_bind, align_suffix (bs.drop k) m hm, List.drop_drop]
            have hK : k + ((bs.drop k).length - ((bytesToBits (bs.drop k)).drop m).length / 8) ≤ bs.length := by
              rw [List.length_drop]; omega
            exact crc_tail rfcCrc16 2 c bs _ hK frOfGen _ _ rfl
          | error e => cases e <;> simp [accX, relB]
          | panic s => simp [accX, relB]
        · simp [hbps, relB, errP]
      | error e => rw [hbs] at hbsz; exact absurd hbsz id
      | panic s => rw [hbs] at hbsz; simp [hbsz, relB]
    · simp [hc, relB, errP]
  · simp only [Option.bind_some, e1, e2]; simp [relB]
  · simp only [Option.bind_some, e1, e2]; simp [relB]
  · simp only [Option.bind_some, e1, e2]; simp [relB]

/-! ### sequencing of byte-level parsers -/

theorem relB_shift {α β : Type} {conv : β → α} {bs : List Nat} {k : Nat} (hk : k ≤ bs.length)
    {g : PM (List Nat × β)} {m : PResult (α × Bits)} (h : relB conv (bs.drop k) g m) : relB conv bs g m := by
  cases m with
  | ok x =>
    obtain ⟨v, rb⟩ := x
    obtain ⟨k2, gv, h1, h2, h3, h4⟩ := h
    rw [List.length_drop] at h1
    exact ⟨k + k2, gv, by omega, by rw [h2, List.drop_drop], h3, by rw [h4, List.drop_drop]⟩
  | error e => cases e <;> exact h
  | panic s => exact h

theorem relB_bind {α β α' β' : Type} {conv : β → α} {conv' : β' → α'} {bs : List Nat} {g : PM (List Nat × β)}
    {m : PResult (α × Bits)} {Kg : List Nat × β → PM (List Nat × β')} {Km : α × Bits → PResult (α' × Bits)}
    (h : relB conv bs g m)
    (hK : ∀ k gv, k ≤ bs.length → m = .ok (conv gv, bytesToBits (bs.drop k)) →
      relB conv' bs (Kg (bs.drop k, gv)) (Km (conv gv, bytesToBits (bs.drop k)))) :
    relB conv' bs (bindP g Kg) (m >>= Km) := by
  rcases relB_elim h with ⟨k, gv, hk, e1, e2⟩ | ⟨e1, e2⟩ | ⟨e1, e2⟩ | ⟨e1, s, e2⟩
  · rw [e1, e2]; exact hK k gv hk e2
  · rw [e1, e2]; rfl
  · rw [e1, e2]; rfl
  · rw [e1, e2]; rfl

theorem relB_beU (n : Nat) (bs : List Nat) : relB id bs (beU n bs) (beUint n (bytesToBits bs)) := by
  by_cases hn : n ≤ bs.length
  · obtain ⟨e1, e2⟩ := beU_ge bs n hn
    rw [e1, e2]; exact ⟨n, _, hn, rfl, rfl, rfl⟩
  · obtain ⟨e1, e2⟩ := beU_lt bs n (by omega)
    rw [e1, e2]; rfl

theorem relB_byteTake (n : Nat) (bs : List Nat) (hb : IsBytes bs) :
    relB id bs (Gen.Parser.byteTake n bs) (Repo.byteTake n (bytesToBits bs)) := by
  by_cases hn : n ≤ bs.length
  · obtain ⟨e1, e2⟩ := byteTake_ge bs n hb hn
    rw [e1, e2]; exact ⟨n, _, hn, rfl, rfl, rfl⟩
  · obtain ⟨e1, e2⟩ := byteTake_lt bs n (by omega)
    rw [e1, e2]; rfl

theorem beUint_lt {n v : Nat} {i r : Bits} (h : beUint n i = .ok (v, r)) : v < 2 ^ (8 * n) := by
  have := Repo.beUint_sat n i
  rw [h] at this
  exact this

theorem byteTake_len {n : Nat} {v : List Nat} {i r : Bits} (h : Repo.byteTake n i = .ok (v, r)) : v.length = n := by
  unfold Repo.byteTake at h
  split at h
  · simp at h
  · simp only [PResult.ok.injEq, Prod.mk.injEq] at h
    rw [← h.1]; exact Repo.bitsToBytes_length n i

/-! ### `stream_info` -/

/-- outcome map that ignores the mirror's rest (used with a separate statement about the rest) -/
def clsL {α : Type} (r : List Nat) : PResult (α × Bits) → PM (List Nat × α)
  | .ok (v, _) => some (.ok (r, v))
  | .error true => some (.error .incomplete)
  | .error false => some (.error .error)
  | .panic _ => none

theorem relB_of_clsL {α : Type} {bs : List Nat} {k : Nat} (hk : k ≤ bs.length) {g : PM (List Nat × α)}
    {m : PResult (α × Bits)} (hg : g = clsL (bs.drop k) m)
    (hr : ∀ v rb, m = .ok (v, rb) → rb = bytesToBits (bs.drop k)) : relB id bs g m := by
  cases m with
  | ok x => obtain ⟨v, rb⟩ := x; exact ⟨k, v, hk, hg, rfl, hr v rb rfl⟩
  | error e => cases e <;> exact hg
  | panic s => exact hg

theorem verifyBps_same (b : Nat) : Repo.verifyBps b = FlacVerif.verifyBps b := rfl

theorem blocks_stage (S0 : StreamInfo) (v4 mb xb : Nat) :
    (if (!(decide (v4 = 0) && decide (mb = 65535) && decide (xb = 0))) = true then
        (Gen.Verify.StreamInfo.set_block_sizes S0 mb xb).bind fun r4 =>
          if r4.fst = true then some (some r4.snd) else some none
      else some (some S0)) =
    if v4 = 0 ∧ mb = 65535 ∧ xb = 0 then some (some S0)
    else if (1 ≤ mb ∧ mb ≤ 32767) ∧ (1 ≤ xb ∧ xb ≤ 32767) ∧ mb ≤ xb then
      some (some { S0 with minBlock := mb, maxBlock := xb })
    else some none := by
  rw [C18Gen.C18G_set_block_sizes]
  by_cases hu : v4 = 0 ∧ mb = 65535 ∧ xb = 0
  · obtain ⟨u1, u2, u3⟩ := hu
    subst u1; subst u2; subst u3
    simp
  · have : (!(decide (v4 = 0) && decide (mb = 65535) && decide (xb = 0))) = true := by
      simp only [Bool.not_eq_true', Bool.and_eq_false_iff, decide_eq_false_iff_not]
      by_cases z1 : v4 = 0
      · by_cases z2 : mb = 65535
        · exact Or.inr (fun z3 => hu ⟨z1, z2, z3⟩)
        · exact Or.inl (Or.inr z2)
      · exact Or.inl (Or.inl z1)
    simp only [this, if_true, hu, if_false, Option.bind_some]
    by_cases ok : (1 ≤ mb ∧ mb ≤ 32767) ∧ (1 ≤ xb ∧ xb ≤ 32767) ∧ mb ≤ xb
    · obtain ⟨⟨b1, b2⟩, ⟨b3, b4⟩, b5⟩ := ok
      have h1 : mb < 65536 := by omega
      have h2 : xb < 65536 := by omega
      simp [verifyBlockSize, maxBlockSize, b1, b2, b3, b4, b5, h1, h2]
    · have : (verifyBlockSize mb && (verifyBlockSize xb && decide (mb ≤ xb))) = false := by
        apply Bool.eq_false_iff.mpr
        intro h
        simp [verifyBlockSize, maxBlockSize] at h
        exact ok ⟨⟨h.1.1, of_decide_eq_true h.1.2⟩, ⟨h.2.1.1, of_decide_eq_true h.2.1.2⟩, h.2.2⟩
      simp [this, ok]

theorem frames_stage (S : StreamInfo) (r : List Nat) (mf xf : Nat) (hmf : mf < 2 ^ 32) (hxf : xf < 2 ^ 32) :
    ((bindVR (if (decide (mf ≠ 0) || decide (xf ≠ 0)) = true then
          (Gen.Verify.StreamInfo.set_frame_sizes S mf xf).bind fun r5 =>
            if r5.fst = true then some (some r5.snd) else some none
        else some (some S)) fun info => some (some info)).bind fun v6 => bindO v6 fun info => okP (r, info)) =
    if ¬(mf = 0 ∧ xf = 0) ∧ mf > xf then errP
    else okP (r, { S with minFrame := if mf = 0 ∧ xf = 0 then S.minFrame else mf,
                          maxFrame := if mf = 0 ∧ xf = 0 then S.maxFrame else xf }) := by
  rw [C18Gen.C18G_set_frame_sizes]
  by_cases hf : mf = 0 ∧ xf = 0
  · obtain ⟨f1, f2⟩ := hf
    subst f1; subst f2
    simp [bindVR, bindR, bindO]
  · have hfb : (decide (mf ≠ 0) || decide (xf ≠ 0)) = true := by
      simp only [Bool.or_eq_true, decide_eq_true_eq]
      by_cases z : mf = 0
      · exact Or.inr (fun z2 => hf ⟨z, z2⟩)
      · exact Or.inl z
    have hor : ¬mf = 0 ∨ ¬xf = 0 := by simpa using hfb
    by_cases a4 : mf ≤ xf
    · have a4' : ¬ mf > xf := by omega
      simp [hfb, hf, hor, a4, a4', hmf, hxf, bindVR, bindR, bindO]
    · have a4' : mf > xf := by omega
      simp [hfb, hf, hor, a4, a4', hmf, hxf, bindVR, bindR, bindO]

/-- The value-level statement about the closure `info_fn` of `stream_info` (proved below, `streamInfoLogic`): the generated
`Gen.Verify.StreamInfo.new`, `set_total_samples`, `set_md5_digest`, `set_block_sizes` / `set_frame_sizes` (part `verify`) and the two
fall-through `if`s agree with the range checks the mirror inlines, for all field values. -/
def StreamInfoLogic : Prop :=
  ∀ (bs : List Nat) (k5 : Nat) (_hk5 : k5 ≤ bs.length) (v1 c b v4 mb xb mf xf : Nat) (md5 : List Nat)
    (_hmd : md5.length = 16) (_hmf : mf < 2 ^ 32) (_hxf : xf < 2 ^ 32),
    relB id bs
    ((Option.bind (Gen.Verify.StreamInfo.new v1 c b) fun v3_1 =>
          bindR v3_1 fun info =>
            (req (decide (md5.length = 16))).bind fun x =>
              bindVR
                (if (!(decide (v4 = 0) && decide (mb = 65535) && decide (xb = 0))) = true then
                  (Gen.Verify.StreamInfo.set_block_sizes
                        (StreamInfo_set_md5_digest (Gen.Verify.StreamInfo.set_total_samples info v4) md5) mb xb).bind
                    fun r4 => if r4.fst = true then some (some r4.snd) else some none
                else some (some (StreamInfo_set_md5_digest (Gen.Verify.StreamInfo.set_total_samples info v4) md5)))
                fun info =>
                bindVR
                  (if (decide (mf ≠ 0) || decide (xf ≠ 0)) = true then
                    (Gen.Verify.StreamInfo.set_frame_sizes info mf xf).bind fun r5 =>
                      if r5.fst = true then some (some r5.snd) else some none
                  else some (some info))
                  fun info => some (some info)).bind
      fun v6 => bindO v6 fun info => okP (List.drop k5 bs, info))
    (if v1 > 96000 then PResult.error false
    else
      if c < 1 ∨ c > 8 then PResult.error false
      else
        if b > 255 then PResult.error false
        else
          if ¬(Repo.verifyBps b = true ∧ b % 4 = 0) then PResult.error false
          else do
            passert (decide (md5.length = 16)) "stream_info: md5.try_into().expect(\"Internal error\")"
            if ¬(v4 = 0 ∧ mb = 65535 ∧ xb = 0) ∧ ¬(1 ≤ mb ∧ mb ≤ 32767) then PResult.error false
              else
                if ¬(v4 = 0 ∧ mb = 65535 ∧ xb = 0) ∧ ¬(1 ≤ xb ∧ xb ≤ 32767) then PResult.error false
                else
                  if ¬(v4 = 0 ∧ mb = 65535 ∧ xb = 0) ∧ mb > xb then PResult.error false
                  else
                    if ¬(mf = 0 ∧ xf = 0) ∧ mf > xf then PResult.error false
                    else
                      pure
                        ({ minBlock := mb, maxBlock := xb,
                            minFrame := (if mf = 0 ∧ xf = 0 then (2 ^ 32 - 1, 0) else (mf, xf)).fst,
                            maxFrame := (if mf = 0 ∧ xf = 0 then (2 ^ 32 - 1, 0) else (mf, xf)).snd, rate := v1,
                            channels := c, bps := b, total := v4, md5 := md5 },
                          bytesToBits (List.drop k5 bs)))

theorem bindVR_some {σ β : Type} (s : σ) (f : σ → Option (Option β)) : bindVR (some (some s)) f = f s := rfl
theorem bindVR_none {σ β : Type} (f : σ → Option (Option β)) : bindVR (some (none : Option σ)) f = some none := rfl

theorem streamInfoLogic : StreamInfoLogic := by
  intro bs k5 hk5 v1 c b v4 mb xb mf xf md5 hmd hmf hxf
  rw [C18Gen.C18G_streaminfo_new]
  unfold FlacVerif.StreamInfo.new
  change relB id bs _ (if v1 > 96000 then _ else if c < 1 ∨ c > 8 then _ else if b > 255 then _ else
    if ¬(FlacVerif.verifyBps b = true ∧ b % 4 = 0) then _ else _)
  by_cases hC : v1 ≤ 96000 ∧ 1 ≤ c ∧ c ≤ 8 ∧ b ≤ 255 ∧ FlacVerif.verifyBps b = true ∧ b % 4 = 0
  · obtain ⟨q1, q2, q3, q4, q5, q6⟩ := hC
    have m1 : ¬ v1 > 96000 := by omega
    have m2 : ¬ (c < 1 ∨ c > 8) := by omega
    have m3 : ¬ b > 255 := by omega
    simp only [q1, q2, q3, q4, q5, q6, and_self, if_true, Option.bind_some, bindR, m1, m2, m3, if_false, not_true_eq_false,
      req, hmd, decide_true, passert, PResult.ok_bind, blocks_stage]
    by_cases hu : v4 = 0 ∧ mb = 65535 ∧ xb = 0
    · obtain ⟨u1, u2, u3⟩ := hu
      subst u1; subst u2; subst u3
      simp only [and_self, if_true, bindVR_some, not_true_eq_false, false_and, if_false]
      rw [frames_stage _ _ _ _ hmf hxf]
      by_cases hbad : ¬(mf = 0 ∧ xf = 0) ∧ mf > xf
      · simp [hbad, relB, errP]
      · rw [if_neg hbad, if_neg hbad]
        refine ⟨k5, _, hk5, rfl, ?_, rfl⟩
        by_cases hf : mf = 0 ∧ xf = 0 <;>
          simp [hf, StreamInfo.empty, StreamInfo_set_md5_digest, Gen.Verify.StreamInfo.set_total_samples]
    · simp only [hu, if_false, not_false_eq_true, true_and]
      by_cases ok : (1 ≤ mb ∧ mb ≤ 32767) ∧ (1 ≤ xb ∧ xb ≤ 32767) ∧ mb ≤ xb
      · obtain ⟨b1, b2, b3⟩ := ok
        have b3' : ¬ mb > xb := by omega
        simp only [b1, b2, b3, and_self, if_true, bindVR_some, not_true_eq_false, if_false, b3']
        rw [frames_stage _ _ _ _ hmf hxf]
        by_cases hbad : ¬(mf = 0 ∧ xf = 0) ∧ mf > xf
        · simp [hbad, relB, errP]
        · rw [if_neg hbad, if_neg hbad]
          refine ⟨k5, _, hk5, rfl, ?_, rfl⟩
          by_cases hf : mf = 0 ∧ xf = 0 <;>
            simp [hf, StreamInfo.empty, StreamInfo_set_md5_digest, Gen.Verify.StreamInfo.set_total_samples]
      · simp only [ok, if_false, bindVR_none, Option.bind_some, bindO]
        have hm : ∀ X : PResult (StreamInfo × Bits),
            (if ¬(1 ≤ mb ∧ mb ≤ 32767) then (PResult.error false : PResult (StreamInfo × Bits)) else
              if ¬(1 ≤ xb ∧ xb ≤ 32767) then PResult.error false else if mb > xb then PResult.error false else X) =
              PResult.error false := by
          intro X
          by_cases b1 : 1 ≤ mb ∧ mb ≤ 32767
          · by_cases b2 : 1 ≤ xb ∧ xb ≤ 32767
            · have b3 : mb > xb := by
                have := fun h => ok ⟨b1, b2, h⟩
                omega
              rw [if_neg (fun h => h b1), if_neg (fun h => h b2), if_pos b3]
            · rw [if_neg (fun h => h b1), if_pos b2]
          · rw [if_pos b1]
        rw [hm]
        rfl
  · have hX : ∀ X : PResult (StreamInfo × Bits), (if v1 > 96000 then (PResult.error false : PResult (StreamInfo × Bits)) else
        if c < 1 ∨ c > 8 then PResult.error false else if b > 255 then PResult.error false else
        if ¬(FlacVerif.verifyBps b = true ∧ b % 4 = 0) then PResult.error false else X) = PResult.error false := by
      intro X
      by_cases m1 : v1 > 96000
      · rw [if_pos m1]
      · by_cases m2 : c < 1 ∨ c > 8
        · rw [if_neg m1, if_pos m2]
        · by_cases m3 : b > 255
          · rw [if_neg m1, if_neg m2, if_pos m3]
          · have m4 : ¬ (FlacVerif.verifyBps b = true ∧ b % 4 = 0) :=
              fun h => hC ⟨by omega, by omega, by omega, by omega, h.1, h.2⟩
            rw [if_neg m1, if_neg m2, if_neg m3, if_pos m4]
    rw [hX]
    simp [hC, bindR, bindO, errP, relB]

theorem C16G_stream_info (bs : List Nat) (hb : IsBytes bs) :
    relB id bs (stream_info true bs) (streamInfo (bytesToBits bs)) := by
  unfold stream_info streamInfo
  refine relB_bind (relB_beU 2 bs) (fun k1 mb hk1 _ => ?_)
  dsimp only [id]
  refine relB_bind (relB_shift hk1 (relB_beU 2 (bs.drop k1))) (fun k2 xb hk2 _ => ?_)
  dsimp only [id]
  refine relB_bind (relB_shift hk2 (relB_beU 3 (bs.drop k2))) (fun k3 mf hk3 e3 => ?_)
  have hmf : mf < 2 ^ 32 := Nat.lt_of_lt_of_le (beUint_lt e3) (by decide)
  dsimp only [id]
  refine relB_bind (relB_shift hk3 (relB_beU 3 (bs.drop k3))) (fun k4 xf hk4 e4 => ?_)
  have hxf : xf < 2 ^ 32 := Nat.lt_of_lt_of_le (beUint_lt e4) (by decide)
  dsimp only [id]
  unfold bitsP
  simp only [C16G_takeBits]
  cases h1 : Repo.takeBits 64 20 (bytesToBits (List.drop k4 bs)) with
  | error e => cases e <;> simp [relB]
  | panic s => simp [relB]
  | ok x1 =>
    obtain ⟨v1, i1⟩ := x1
    obtain ⟨r1, l1, _⟩ := takeBits_ok h1
    simp only [cls_ok, bindP_ok, bindP_okP, PResult.ok_bind]
    cases h2 : Repo.takeBits 64 3 i1 with
    | error e => cases e <;> simp [relB]
    | panic s => simp [relB]
    | ok x2 =>
      obtain ⟨v2, i2⟩ := x2
      obtain ⟨r2, l2, _⟩ := takeBits_ok h2
      simp only [cls_ok, bindP_ok, bindP_okP, PResult.ok_bind]
      cases h3 : Repo.takeBits 64 5 i2 with
      | error e => cases e <;> simp [relB]
      | panic s => simp [relB]
      | ok x3 =>
        obtain ⟨v3, i3⟩ := x3
        obtain ⟨r3, l3, _⟩ := takeBits_ok h3
        simp only [cls_ok, bindP_ok, bindP_okP, PResult.ok_bind]
        cases h4 : Repo.takeBits 64 36 i3 with
        | error e => cases e <;> simp [relB]
        | panic s => simp [relB]
        | ok x4 =>
          obtain ⟨v4, i4⟩ := x4
          obtain ⟨r4, l4, _⟩ := takeBits_ok h4
          simp only [cls_ok, bindP_ok, bindP_okP, PResult.ok_bind]
          subst r1; subst r2; subst r3; subst r4
          have hL : 64 ≤ 8 * (bs.drop k4).length := by
            simp only [List.length_drop, Repo.bytesToBits_length] at l1 l2 l3 l4 ⊢
            omega
          have h8 : k4 + 8 ≤ bs.length := by rw [List.length_drop] at hL; omega
          have hdrop : List.drop (20 + 3 + 5 + 36) (bytesToBits (List.drop k4 bs)) =
              bytesToBits (bs.drop (k4 + 8)) := by
            have hd := drop_bits (bs.drop k4) 8
            rw [List.drop_drop] at hd
            exact hd
          have hq : (List.drop k4 bs).length - (bytesToBits (bs.drop (k4 + 8))).length / 8 = 8 := by
            rw [Repo.bytesToBits_length, List.length_drop, List.length_drop, Nat.mul_div_cancel_left _ (by decide : 0 < 8)]; omega
          have hal : alignByte (bytesToBits (bs.drop (k4 + 8))) = bytesToBits (bs.drop (k4 + 8)) := by
            unfold alignByte
            rw [Repo.bytesToBits_length, Nat.mul_mod_right]; rfl
          clear h1 h2 h3 h4 l1 l2 l3 l4
          by_cases hc1 : v2 + 1 < 2 ^ 64
          · by_cases hc2 : v3 + 1 < 2 ^ 64
            · simp only [addU, uadd, hc1, hc2, if_true, Option.bind_some, PResult.ok_bind, bindP_okP, hdrop, hq, hal, List.drop_drop]
              refine relB_bind (relB_shift h8 (relB_byteTake 16 (bs.drop (k4 + 8)) (hb.drop _))) (fun k5 md5 hk5 e5 => ?_)
              have hmd := byteTake_len e5
              dsimp only [id] at hmd ⊢
              exact streamInfoLogic bs k5 hk5 v1 (v2 + 1) (v3 + 1) v4 mb xb mf xf md5 hmd hmf hxf
            · simp [addU, uadd, hc1, hc2, relB]
          · simp [addU, uadd, hc1, relB]

/-! ### `metadata_block` -/

/-- hand-model image of a generated `MetadataBlock`: the pair (is_last, block) of the mirror -/
def mbOfGen (g : Gen.Writer.MetadataBlock) : Bool × MetaData :=
  (g.is_last, match g.data with
    | .StreamInfo s => .streamInfo s
    | .Unknown t d => .unknown ⟨t, d⟩)

theorem C16G_metadata_block (bs : List Nat) (hb : IsBytes bs) :
    relB mbOfGen bs (metadata_block true bs) (metadataBlock (bytesToBits bs)) := by
  unfold metadata_block metadataBlock
  refine relB_bind (relB_beU 1 bs) (fun k1 first hk1 _ => ?_)
  dsimp only [id]
  refine relB_bind (relB_shift hk1 (relB_beU 3 (bs.drop k1))) (fun k2 len hk2 _ => ?_)
  dsimp only [id]
  have e7 : first &&& 127 = first % 128 := Nat.and_two_pow_sub_one_eq_mod first 7
  have e8 : shrU first 7 = first / 128 := rfl
  simp only [e7, e8]
  by_cases h0 : first % 128 = 0
  · simp only [h0, if_true]
    have hs := relB_shift hk2 (C16G_stream_info (bs.drop k2) (hb.drop _))
    rcases relB_elim hs with ⟨k, gv, hk, e1, e2⟩ | ⟨e1, e2⟩ | ⟨e1, e2⟩ | ⟨e1, s, e2⟩
    · simp only [mapP, e1, e2, bindP_ok, Option.bind_some, bindP_okP, PResult.ok_bind, id, PResult.pure_eq]
      exact ⟨k, _, hk, rfl, by simp [mbOfGen, MetadataBlock_from_parts], rfl⟩
    · simp only [mapP, e1, e2]; simp [relB]
    · simp only [mapP, e1, e2]; simp [relB]
    · simp only [mapP, e1, e2]; simp [relB]
  · simp only [h0, if_false]
    have hs := relB_shift hk2 (relB_byteTake len (bs.drop k2) (hb.drop _))
    rcases relB_elim hs with ⟨k, blob, hk, e1, e2⟩ | ⟨e1, e2⟩ | ⟨e1, e2⟩ | ⟨e1, s, e2⟩
    · simp only [e1, e2, bindP_ok, PResult.ok_bind, id, C18Gen.C18G_unknown_new, Option.bind_some, UnknownBlock.new]
      by_cases h126 : first % 128 > 126
      · have : ¬ (1 ≤ first % 128 ∧ first % 128 ≤ 126) := by omega
        simp [h126, this, bindO, errP, relB]
      · have : 1 ≤ first % 128 ∧ first % 128 ≤ 126 := by omega
        simp only [h126, this, and_self, if_true, if_false, Option.map_some, bindO, bindP_okP, PResult.pure_eq]
        exact ⟨k, _, hk, rfl, by simp [mbOfGen, MetadataBlock_from_parts], rfl⟩
    · simp only [e1, e2]; simp [relB]
    · simp only [e1, e2]; simp [relB]
    · simp only [e1, e2]; simp [relB]

/-! ### `stream` -/

/-- hand-model image of a generated `Stream`: the mirror's `PStream` (the last-block flags are not part of it) -/
def psOfGen (g : Gen.Writer.Stream) : PStream :=
  { info := (match g.stream_info.data with
      | .StreamInfo s => s
      | .Unknown _ _ => StreamInfo.empty 0 0 0),
    metadata := g.metadata.map fun m => (mbOfGen m).2,
    frames := g.frames.map frOfGen }

theorem loopP_pure {α σ : Type} (f : σ → α → σ) (l : List α) : ∀ s : σ,
    (loopP l s fun x s => okP (f s x)) = okP (l.foldl f s) := by
  induction l with
  | nil => intro s; rfl
  | cons a l ih => intro s; simp only [loopP, bindP_okP, List.foldl_cons, ih]

theorem map_dropLast_replace {α β : Type} (f : α → β) : ∀ (l : List α) (x y : α), l.getLast? = some x → f y = f x →
    (l.dropLast ++ [y]).map f = l.map f := by
  intro l
  induction l with
  | nil => intro x y h; simp at h
  | cons a t ih =>
    intro x y h hf
    cases t with
    | nil =>
      simp only [List.getLast?_singleton, Option.some.injEq] at h
      subst h
      simp [hf]
    | cons b t' =>
      have h' : (b :: t').getLast? = some x := by simpa [List.getLast?_cons_cons] using h
      have := ih x y h' hf
      simp only [List.dropLast_cons₂, List.cons_append, List.map_cons] at this ⊢
      rw [this]

theorem add_block_ps (s : Gen.Writer.Stream) (m : Gen.Writer.MetadataBlockData) :
    psOfGen (Stream_add_metadata_block s m) =
      { psOfGen s with metadata := (psOfGen s).metadata ++ [(mbOfGen ⟨true, m⟩).2] } := by
  unfold Stream_add_metadata_block psOfGen
  cases h : s.metadata.getLast? with
  | none => simp [h]
  | some x =>
    have := map_dropLast_replace (fun m => (mbOfGen m).2) s.metadata x { x with is_last := false } h rfl
    simp only [h, List.map_append, List.map_cons, List.map_nil] at this ⊢
    rw [this]

theorem add_blocks_ps (l : List Gen.Writer.MetadataBlock) : ∀ s : Gen.Writer.Stream,
    psOfGen (l.foldl (fun s b => Stream_add_metadata_block s b.data) s) =
      { psOfGen s with metadata := (psOfGen s).metadata ++ l.map fun b => (mbOfGen b).2 } := by
  induction l with
  | nil => intro s; simp
  | cons b l ih =>
    intro s
    simp only [List.foldl_cons, ih, add_block_ps, List.map_cons, List.append_assoc, List.singleton_append]
    simp [mbOfGen]

theorem push_frames_ps (l : List Gen.Writer.Frame) : ∀ s : Gen.Writer.Stream,
    psOfGen (l.foldl Stream_push_frame s) = { psOfGen s with frames := (psOfGen s).frames ++ l.map frOfGen } := by
  induction l with
  | nil => intro s; simp
  | cons f l ih =>
    intro s
    simp only [List.foldl_cons, ih]
    simp [psOfGen, Stream_push_frame]

theorem bits_inj {x y : List Nat} (hx : IsBytes x) (hy : IsBytes y) (h : bytesToBits x = bytesToBits y) : x = y := by
  have hl : x.length = y.length := by
    have := congrArg List.length h
    rw [Repo.bytesToBits_length, Repo.bytesToBits_length] at this
    omega
  have e1 := Repo.bitsToBytes_bytesToBits x [] hx
  have e2 := Repo.bitsToBytes_bytesToBits y [] hy
  rw [← e1, ← e2, h, hl]

/-- `byte_tag(t)` against the mirror's `byteTag` -/
theorem byteTag_rel (t bs : List Nat) (ht : IsBytes t) (hb : IsBytes bs) :
    relB (fun (_ : List Nat) => ()) bs (byteTagP t bs) (Repo.byteTag t (bytesToBits bs)) := by
  unfold byteTagP Repo.byteTag
  simp only [Repo.bytesToBits_length]
  have hmin : min (8 * t.length) (8 * bs.length) = 8 * min t.length bs.length := by omega
  have h1 : (bytesToBits bs).take (8 * min t.length bs.length) = bytesToBits (bs.take (min t.length bs.length)) :=
    take_bits bs _ (Nat.min_le_right _ _)
  have h2 : (bytesToBits t).take (8 * min t.length bs.length) = bytesToBits (t.take (min t.length bs.length)) :=
    take_bits t _ (Nat.min_le_left _ _)
  rw [hmin, h1, h2]
  by_cases hne : bs.take (min t.length bs.length) = t.take (min t.length bs.length)
  · have hb' : bytesToBits (bs.take (min t.length bs.length)) = bytesToBits (t.take (min t.length bs.length)) := by rw [hne]
    simp only [hne, ne_eq, not_true_eq_false, if_false]
    by_cases hl : bs.length < t.length
    · have hl' : 8 * bs.length < 8 * t.length := by omega
      simp [hl, hl', relB]
    · have hl' : ¬ 8 * bs.length < 8 * t.length := by omega
      simp only [hl, hl', if_false]
      exact ⟨t.length, _, by omega, rfl, rfl, by rw [drop_bits]⟩
  · have hb' : ¬ bytesToBits (bs.take (min t.length bs.length)) = bytesToBits (t.take (min t.length bs.length)) :=
      fun h => hne (bits_inj (hb.take _) (ht.take _) h)
    simp [hne, hb', relB, errP]

/-- (proved below, `metadataBlockConsumes`) an accepted metadata block of the mirror is shorter than its input (it consumes at
least the 4 header bytes); this is what makes the `else .error true` branch of `Repo.metadataLoop` unreachable and the fuel
of the generated `while` loop sufficient -/
def MetadataBlockConsumes : Prop :=
  ∀ (i : Bits) (v : Bool × MetaData) (r : Bits), metadataBlock i = .ok (v, r) → r.length < i.length

/-- (proved below, `streamInfoChannels`) an accepted STREAMINFO block has a channel count that fits `usize` (in fact at most 8) -/
def StreamInfoChannels : Prop :=
  ∀ (i : Bits) (b : Bool) (info : StreamInfo) (r : Bits), metadataBlock i = .ok ((b, .streamInfo info), r) → info.channels < 2 ^ 64

theorem streamInfoChannels : StreamInfoChannels := by
  intro i b info r h
  have := Repo.metadataBlock_chan_sat i
  rw [h] at this
  have h8 : info.channels ≤ 8 := this
  omega

/-! ### the mirror's metadata block consumes input (`MetadataBlockConsumes`) -/

theorem Suf.of_drop {α : Type} {i : Bits} {m : Nat} (hm : m ≤ i.length) {x : PResult (α × Bits)} (h : Suf (i.drop m) x) :
    Suf i x := by
  intro v r hx
  obtain ⟨m', hm', hr⟩ := h v r hx
  rw [List.length_drop] at hm'
  exact ⟨m + m', by omega, by rw [hr, List.drop_drop]⟩

theorem suf_beUint (n : Nat) (i : Bits) : Suf i (beUint n i) := by
  intro v r h
  unfold beUint at h
  split at h
  · simp at h
  · simp only [PResult.ok.injEq, Prod.mk.injEq] at h
    exact ⟨8 * n, by omega, h.2.symm⟩

theorem suf_byteTake (n : Nat) (i : Bits) : Suf i (Repo.byteTake n i) := by
  intro v r h
  unfold Repo.byteTake at h
  split at h
  · simp at h
  · simp only [PResult.ok.injEq, Prod.mk.injEq] at h
    exact ⟨8 * n, by omega, h.2.symm⟩

theorem suf_streamInfo (i : Bits) : Suf i (streamInfo i) := by
  unfold streamInfo
  refine Suf.bind (suf_beUint _ _) (fun minBlock i1 => ?_)
  refine Suf.bind (suf_beUint _ _) (fun maxBlock i2 => ?_)
  refine Suf.bind (suf_beUint _ _) (fun minFrame i3 => ?_)
  refine Suf.bind (suf_beUint _ _) (fun maxFrame i4 => ?_)
  refine Suf.bind (suf_takeBits _ _ _) (fun sr j1 => ?_)
  refine Suf.bind (suf_takeBits _ _ _) (fun ch j2 => ?_)
  refine Suf.bind (suf_takeBits _ _ _) (fun bps j3 => ?_)
  refine Suf.bind (suf_takeBits _ _ _) (fun total j4 => ?_)
  refine Suf.bindO _ _ (fun channels => ?_)
  refine Suf.bindO _ _ (fun bitsPerSample => ?_)
  dsimp only
  refine Suf.of_drop (m := j4.length % 8) (Nat.mod_le _ _) ?_
  refine Suf.bind (suf_byteTake _ _) (fun md5 i5 => ?_)
  dsimp only
  split
  · exact Suf.error _ _
  · split
    · exact Suf.error _ _
    · split
      · exact Suf.error _ _
      · split
        · exact Suf.error _ _
        · refine Suf.bindO _ _ (fun _ => ?_)
          split
          · exact Suf.error _ _
          · split
            · exact Suf.error _ _
            · split
              · exact Suf.error _ _
              · split
                · exact Suf.error _ _
                · exact Suf.ok_self _ _

theorem metadataBlockConsumes : MetadataBlockConsumes := by
  intro i v r h
  unfold metadataBlock at h
  cases h1 : beUint 1 i with
  | ok p =>
    obtain ⟨first, i1⟩ := p
    rw [h1] at h
    simp only [PResult.ok_bind] at h
    have hb : i1 = i.drop 8 ∧ 8 ≤ i.length := by
      unfold beUint at h1
      split at h1
      · simp at h1
      · simp only [PResult.ok.injEq, Prod.mk.injEq] at h1
        exact ⟨h1.2.symm, by omega⟩
    have hs : Suf i1 (do
        let (length, i) ← beUint 3 i1
        if first % 128 = 0 then do
          let (info, i) ← streamInfo i
          pure ((decide (first / 128 ≠ 0), MetaData.streamInfo info), i)
        else do
          let (blob, i) ← Repo.byteTake length i
          if first % 128 > 126 then PResult.error false else
          pure ((decide (first / 128 ≠ 0), MetaData.unknown ⟨first % 128, blob⟩), i)) := by
      refine Suf.bind (suf_beUint _ _) (fun length i2 => ?_)
      dsimp only
      split
      · exact Suf.bind (suf_streamInfo _) (fun info i3 => Suf.ok_self _ _)
      · refine Suf.bind (suf_byteTake _ _) (fun blob i3 => ?_)
        dsimp only
        split
        · exact Suf.error _ _
        · exact Suf.ok_self _ _
    obtain ⟨m, hm, hr⟩ := hs v r h
    rw [hr, hb.1, List.length_drop, List.length_drop]
    omega
  | error e => rw [h1] at h; simp at h
  | panic s => rw [h1] at h; simp at h

/-- the condition and the body of the generated `while !is_last` loop of `stream` -/
def mdCond (st : Bool × List Nat × List Gen.Writer.MetadataBlock) : Bool := !st.1
def mdBody (st : Bool × List Nat × List Gen.Writer.MetadataBlock) : PM (Bool × List Nat × List Gen.Writer.MetadataBlock) :=
  bindP (metadata_block true st.2.1) fun (x : List Nat × Gen.Writer.MetadataBlock) =>
    okP (x.2.is_last, x.1, st.2.2 ++ [x.2])

def relLoop (bs : List Nat) (acc : List Gen.Writer.MetadataBlock)
    (g : PM (Bool × List Nat × List Gen.Writer.MetadataBlock)) (m : PResult (List MetaData × Bits)) : Prop :=
  match m with
  | .ok (ms, rb) => ∃ k gms, k ≤ bs.length ∧ g = some (.ok (true, bs.drop k, acc ++ gms)) ∧
      gms.map (fun b => (mbOfGen b).2) = ms ∧ rb = bytesToBits (bs.drop k)
  | .error true => g = some (.error .incomplete)
  | .error false => g = some (.error .error)
  | .panic _ => g = none

theorem whileP_done (n : Nat) (st : Bool × List Nat × List Gen.Writer.MetadataBlock) (h : st.1 = true) :
    whileP mdCond mdBody n st = okP st := by
  cases n <;> simp [whileP, mdCond, h]

theorem md_loop (hcons : MetadataBlockConsumes) (bs : List Nat) (hb : IsBytes bs) :
    ∀ (fuel k : Nat) (acc : List Gen.Writer.MetadataBlock), k ≤ bs.length → (bs.drop k).length < fuel →
      relLoop bs acc (whileP mdCond mdBody fuel (false, bs.drop k, acc)) (metadataLoop (bytesToBits (bs.drop k))) := by
  intro fuel
  induction fuel with
  | zero => intro k acc _ h; omega
  | succ n ih =>
    intro k acc hk hfuel
    rw [metadataLoop]
    simp only [whileP, mdCond, Bool.not_false, if_true, mdBody]
    have hm := relB_shift hk (C16G_metadata_block (bs.drop k) (hb.drop k))
    rcases relB_elim hm with ⟨k2, gb, hk2, e1, e2⟩ | ⟨e1, e2⟩ | ⟨e1, e2⟩ | ⟨e1, s, e2⟩
    · rw [e1, e2]
      simp only [bindP_ok, bindP_okP]
      have hlt := hcons _ _ _ e2
      rw [Repo.bytesToBits_length, Repo.bytesToBits_length] at hlt
      cases hl : gb.is_last with
      | true =>
        have : (mbOfGen gb).1 = true := hl
        simp only [this, if_true]
        rw [whileP_done n _ rfl]
        exact ⟨k2, [gb], hk2, rfl, rfl, rfl⟩
      | false =>
        have : (mbOfGen gb).1 = false := hl
        simp only [this, Bool.false_eq_true, if_false, Repo.bytesToBits_length]
        have hlt' : 8 * (bs.drop k2).length < 8 * (bs.drop k).length := hlt
        simp only [hlt', dite_true]
        have := ih k2 (acc ++ [gb]) hk2 (by omega)
        cases h3 : metadataLoop (bytesToBits (bs.drop k2)) with
        | ok z =>
          obtain ⟨ms, rb⟩ := z
          rw [h3] at this
          obtain ⟨k3, gms, hk3, g1, g2, g3⟩ := this
          exact ⟨k3, gb :: gms, hk3, by rw [g1]; simp, by simp [g2], g3⟩
        | error e => rw [h3] at this; cases e <;> exact this
        | panic s => rw [h3] at this; exact this
    · rw [e1, e2]; rfl
    · rw [e1, e2]; rfl
    · rw [e1, e2]; rfl

/-- outcome relation for `many_till(frame, eof)`: the mirror returns the frames only (the rest is empty) -/
def relFrames (acc : List Gen.Writer.Frame) (g : PM (List Nat × (List Gen.Writer.Frame × List Nat))) (m : PResult (List Frame)) : Prop :=
  match m with
  | .ok fs => ∃ gfs, g = some (.ok ([], (acc ++ gfs, []))) ∧ gfs.map frOfGen = fs
  | .error true => g = some (.error .incomplete)
  | .error false => g = some (.error .error)
  | .panic _ => g = none

theorem frame_run_eq (info : StreamInfo) (c : Bool) (bs : List Nat) :
    frame_run true info c bs = Gen.Parser.frame true info c bs := rfl

theorem many_frames (info : StreamInfo) (hch : info.channels < 2 ^ 64) (bs : List Nat) (hb : IsBytes bs) :
    ∀ (fuel k : Nat) (acc : List Gen.Writer.Frame), k ≤ bs.length → (bs.drop k).length < fuel →
      relFrames acc (manyTillEofAux (frame_run true info true) fuel (bs.drop k) acc)
        (framesTillEof info (bytesToBits (bs.drop k))) := by
  intro fuel
  induction fuel with
  | zero => intro k acc _ h; omega
  | succ n ih =>
    intro k acc hk hfuel
    rw [framesTillEof]
    simp only [manyTillEofAux, Repo.bytesToBits_length]
    by_cases h0 : (bs.drop k).length = 0
    · have h0' : 8 * (bs.drop k).length = 0 := by omega
      have hnil : bs.drop k = [] := List.eq_nil_of_length_eq_zero h0
      simp only [h0, h0', if_true]
      exact ⟨[], by simp [hnil, okP], rfl⟩
    · have h0' : ¬ 8 * (bs.drop k).length = 0 := by omega
      simp only [h0, h0', if_false, frame_run_eq]
      have hf := C16G_frame info true (bs.drop k) (hb.drop k) hch
      rcases relB_elim hf with ⟨k1, gf, hk1, e1, e2⟩ | ⟨e1, e2⟩ | ⟨e1, e2⟩ | ⟨e1, s, e2⟩
      · rw [e1, e2]
        simp only [List.drop_drop, Repo.bytesToBits_length, List.length_drop]
        rw [List.length_drop] at hk1 hfuel
        by_cases hz : k1 = 0
        · subst hz
          have : ¬ 8 * (bs.length - (k + 0)) < 8 * (bs.length - k) := by simp
          simp [this, relFrames, errP]
        · have hlt : 8 * (bs.length - (k + k1)) < 8 * (bs.length - k) := by omega
          have hne : ¬ bs.length - (k + k1) = bs.length - k := by omega
          simp only [hlt, dite_true, hne, if_false]
          have := ih (k + k1) (acc ++ [gf]) (by omega) (by rw [List.length_drop]; omega)
          cases h3 : framesTillEof info (bytesToBits (bs.drop (k + k1))) with
          | ok fs =>
            rw [h3] at this
            obtain ⟨gfs, g1, g2⟩ := this
            exact ⟨gf :: gfs, by rw [g1]; simp, by simp [g2]⟩
          | error e => rw [h3] at this; cases e <;> exact this
          | panic s => rw [h3] at this; exact this
      · rw [e1, e2]; rfl
      · rw [e1, e2]; rfl
      · rw [e1, e2]; rfl

/-- outcome relation for `stream`: the mirror returns the parsed stream only (all input is consumed) -/
def relStream (g : PM (List Nat × Gen.Writer.Stream)) (m : PResult PStream) : Prop :=
  match m with
  | .ok ps => ∃ gs, g = some (.ok ([], gs)) ∧ psOfGen gs = ps
  | .error true => g = some (.error .incomplete)
  | .error false => g = some (.error .error)
  | .panic _ => g = none

theorem isBytes_flac : IsBytes [102, 76, 97, 67] := by
  intro b hb; simp at hb; omega

/-- the tail of `stream` after the metadata blocks: `many_till(frame, eof)` and the `Stream` builders -/
theorem stream_tail (info : StreamInfo) (hch : info.channels < 2 ^ 64) (bs : List Nat) (hb : IsBytes bs) (k : Nat)
    (hk : k ≤ bs.length) (gms : List Gen.Writer.MetadataBlock) :
    relStream
      ((frame_pre true info true).bind fun _ =>
        bindP (manyTillEof (frame_run true info true) (bs.drop k)) fun (x : List Nat × (List Gen.Writer.Frame × List Nat)) =>
        bindP (loopP gms (Stream_with_stream_info info) fun mdblock stream =>
            okP (Stream_add_metadata_block stream mdblock.data)) fun stream =>
        bindP (loopP x.2.1 stream fun f stream => okP (Stream_push_frame stream f)) fun stream =>
        okP (x.1, stream))
      (do
        let frames ← framesTillEof info (bytesToBits (bs.drop k))
        pure { info := info, metadata := gms.map fun b => (mbOfGen b).2, frames := frames }) := by
  have hf := many_frames info hch bs hb ((bs.drop k).length + 1) k [] hk (by omega)
  unfold manyTillEof
  simp only [frame_pre, Option.bind_some]
  cases h : framesTillEof info (bytesToBits (bs.drop k)) with
  | ok fs =>
    rw [h] at hf
    obtain ⟨gfs, g1, g2⟩ := hf
    rw [g1]
    simp only [List.nil_append, bindP_ok, PResult.ok_bind, PResult.pure_eq,
      loopP_pure (fun s (b : Gen.Writer.MetadataBlock) => Stream_add_metadata_block s b.data),
      loopP_pure Stream_push_frame, bindP_okP]
    refine ⟨_, rfl, ?_⟩
    rw [push_frames_ps, add_blocks_ps]
    simp [psOfGen, Stream_with_stream_info, g2]
  | error e => rw [h] at hf; cases e <;> simp only [relFrames] at hf <;> rw [hf] <;> rfl
  | panic s => rw [h] at hf; simp only [relFrames] at hf; rw [hf]; rfl

theorem C16G_stream (bs : List Nat) (hb : IsBytes bs) :
    relStream (Gen.Parser.stream true bs) (Repo.stream (bytesToBits bs)) := by
  unfold Gen.Parser.stream Repo.stream
  have h1 := byteTag_rel [102, 76, 97, 67] bs isBytes_flac hb
  rcases relB_elim h1 with ⟨k1, u, hk1, e1, e2⟩ | ⟨e1, e2⟩ | ⟨e1, e2⟩ | ⟨e1, s, e2⟩
  · simp only [e1, e2, bindP_ok, PResult.ok_bind]
    have h2 := relB_shift hk1 (C16G_metadata_block (bs.drop k1) (hb.drop k1))
    rcases relB_elim h2 with ⟨k2, gb, hk2, f1, f2⟩ | ⟨f1, f2⟩ | ⟨f1, f2⟩ | ⟨f1, s, f2⟩
    · simp only [f1, f2, bindP_ok, PResult.ok_bind]
      obtain ⟨gl, gd⟩ := gb
      cases gd with
      | Unknown t d => simp [mbOfGen, bindO, errP, relStream]
      | StreamInfo info =>
        have hch : info.channels < 2 ^ 64 := streamInfoChannels _ gl info _ f2
        simp only [mbOfGen, bindO]
        cases gl with
        | true =>
          simp only [if_true, bindP_okP, PResult.ok_bind]
          exact stream_tail info hch bs hb k2 hk2 []
        | false =>
          simp only [Bool.false_eq_true, if_false]
          have hl := md_loop metadataBlockConsumes bs hb ((bs.drop k2).length + 1) k2 [] hk2 (by omega)
          change relStream (bindP (bindP (whileP mdCond mdBody ((bs.drop k2).length + 1) (false, bs.drop k2, [])) _) _) _
          cases h3 : metadataLoop (bytesToBits (bs.drop k2)) with
          | ok z =>
            obtain ⟨ms, rb⟩ := z
            rw [h3] at hl
            obtain ⟨k3, gms, hk3, g1, g2, g3⟩ := hl
            rw [g1]
            simp only [List.nil_append, bindP_ok, bindP_okP, PResult.ok_bind, g3]
            rw [← g2]
            exact stream_tail info hch bs hb k3 hk3 gms
          | error e => rw [h3] at hl; cases e <;> simp only [relLoop] at hl <;> rw [hl] <;> rfl
          | panic s => rw [h3] at hl; simp only [relLoop] at hl; rw [hl]; rfl
    · simp only [f1, f2]; rfl
    · simp only [f1, f2]; rfl
    · simp only [f1, f2]; rfl
  · simp only [e1, e2]; rfl
  · simp only [e1, e2]; rfl
  · simp only [e1, e2]; rfl

/-! ### corollaries: the properties of the mirror hold of the code generated from the CURRENT source text -/

theorem cls_ne_none {α : Type} {x : PResult (α × Bits)} (h : ∀ s, x ≠ .panic s) : cls x ≠ none := by
  cases x with
  | ok v => obtain ⟨a, r⟩ := v; simp
  | error e => cases e <;> simp
  | panic s => exact absurd rfl (h s)

theorem relB_ne_none {α β : Type} {conv : β → α} {bs : List Nat} {g : PM (List Nat × β)} {m : PResult (α × Bits)}
    (h : relB conv bs g m) (hm : ∀ s, m ≠ .panic s) : g ≠ none := by
  rcases relB_elim h with ⟨k, gv, _, e, _⟩ | ⟨e, _⟩ | ⟨e, _⟩ | ⟨_, s, e⟩
  · rw [e]; simp
  · rw [e]; simp
  · rw [e]; simp
  · exact absurd e (hm s)

/-- C16 ("the parser never panics") for the generated `residual`, dev profile: any bit input, block size below 2^32. -/
theorem C16G_total_residual (bs w : Nat) (i : Bits) (hbs : bs < 2 ^ 32) : Gen.Parser.residual true bs w i ≠ none := by
  rw [C16G_residual]
  exact cls_ne_none (Repo.residual_sat bs w hbs i).noPanic

/-- C16 for the generated `subframe`: any bit input, block size below 2^32, 1..=25 bits per sample. -/
theorem C16G_total_subframe (bs bps : Nat) (i : Bits) (hbs : bs < 2 ^ 32) (h1 : 1 ≤ bps) (h2 : bps ≤ 25) :
    Gen.Parser.subframe true bs bps i ≠ none := by
  rw [C16G_subframe]
  exact cls_ne_none (Repo.subframe_sat bs bps hbs h1 h2 i).noPanic

/-- C16 for the generated `frame_header`: any byte string. -/
theorem C16G_total_frame_header (c : Bool) (bs : List Nat) (hb : IsBytes bs) : Gen.Parser.frame_header true c bs ≠ none :=
  relB_ne_none (C16G_frame_header c bs hb) (Repo.frameHeader_sat c _).noPanic

/-- C16 for the generated `frame`: any byte string, a STREAMINFO with 1..=24 bits per sample (what `stream_info` lets
through, `C16_streaminfo_range`) and a channel count that fits `usize`. -/
theorem C16G_total_frame (info : StreamInfo) (c : Bool) (bs : List Nat) (hb : IsBytes bs) (hch : info.channels < 2 ^ 64)
    (h1 : 1 ≤ info.bps) (h2 : info.bps ≤ 24) : Gen.Parser.frame true info c bs ≠ none :=
  relB_ne_none (C16G_frame info c bs hb hch) (Repo.frame_sat info c h1 h2 _).noPanic

/-- C15 ("the parser inverts the writer") for the generated `frame`: on bytes whose bits are a written frame `fb` followed
by whole further bytes `k`, the generated parser returns that frame and exactly the bytes of `k`. -/
theorem C15G_frame_roundtrip (f : Frame) (info : StreamInfo) (c : Bool) (bs : List Nat) (fb k : Bits)
    (hb : IsBytes bs) (hch : info.channels < 2 ^ 64)
    (hbits : f.bits rfcCrc8 rfcCrc16 = some fb) (hok : Repo.FrameOk info f) (hk : k.length % 8 = 0)
    (hbs : bytesToBits bs = fb ++ k) :
    ∃ n g, Gen.Parser.frame true info c bs = some (.ok (bs.drop n, g)) ∧ frOfGen g = f ∧ bytesToBits (bs.drop n) = k := by
  have h := C16G_frame info c bs hb hch
  rw [hbs, C15_frame_bits f info c fb k hbits hok hk] at h
  obtain ⟨n, g, _, e, hc, hr⟩ := h
  exact ⟨n, g, e, hc, hr.symm⟩

/-- C16 ("the parser never panics") for the generated `stream`, dev profile, EVERY byte string: transport of `C16_total`
along `C16G_stream`.  `IsBytes bs` is the Rust type of the input (`&[u8]`): the generated code works on `List Nat` and does not
build the bound in; for elements >= 256 the mirror (which reads the BITS of the bytes) and the generated code (which
also hands byte VALUES on, e.g. to `utf8_code` and the MD5 field) are not comparable. -/
theorem C16G_total (bs : List Nat) (hb : IsBytes bs) :
    Gen.Parser.stream true bs ≠ none := by
  have h := C16G_stream bs hb
  have hp : ∀ s, Repo.stream (bytesToBits bs) ≠ .panic s := C16_total bs hb
  intro hn
  rw [hn] at h
  cases hm : Repo.stream (bytesToBits bs) with
  | ok ps => rw [hm] at h; obtain ⟨gs, g1, _⟩ := h; simp at g1
  | error e => rw [hm] at h; cases e <;> simp [relStream] at h
  | panic s => exact hp s hm

/-- C15 ("the parser inverts the writer") for the generated `stream`: on bytes whose bits are what `Stream::write` produced
for `s`, the generated parser consumes everything and returns a stream whose hand-model image is `s` (transport of
`C15_stream_bits`). -/
theorem C15G_stream_roundtrip (s : Stream) (bs : List Nat)
    (hb : IsBytes bs) (hbits : s.bits rfcCrc8 rfcCrc16 = some (bytesToBits bs)) (hok : Repo.StreamOk s) :
    ∃ g, Gen.Parser.stream true bs = some (.ok ([], g)) ∧ psOfGen g = Repo.PStream.ofStream s ∧
      (psOfGen g).toStream? = some s := by
  have h := C16G_stream bs hb
  rw [C15_stream_bits s (bytesToBits bs) hbits hok] at h
  obtain ⟨g, g1, g2⟩ := h
  exact ⟨g, g1, g2, by rw [g2]; exact Repo.PStream.ofStream_toStream s⟩

/-- The hypothesis `IsBytes` is satisfiable on a non-trivial input: a complete frame header (sync, fixed blocking, block
size 4096, 44.1 kHz, 2 channels, 16 bit, frame 0) followed by its CRC-8 slot. -/
example : IsBytes [0xFF, 0xF8, 0xC9, 0x18, 0x00, 0xC2] := by
  intro b hb; simp at hb; omega

/-- A concrete run: partition order 0, 4-bit parameter 1, block of two samples, residual codes `1|0` and `01|1`
(unary quotient, one remainder bit each). -/
example : Gen.Parser.residual true 2 0
    [false, false, false, false, false, false, false, false, false, true, true, false, false, true, true, true] =
    some (.ok ([true], { order := 0, blockSize := 2, warmup := 0, params := [1], quotients := [0, 1], remainders := [0, 1] })) := by
  rfl

end FlacVerif.C16Gen
