/-
C12Gen — property C12 ("a failing user sink yields an error, not a panic; the first error is returned; nothing is written
after it") tied to `trait BitSink` as the source states it (`Gen/Sink.lean`, translator part `sink`).

A user sink is ANY record `BitSinkReq σ ε` of the four required methods (state `σ`, error `ε`, `none` = the method itself
panics).  `ofReq dbg d` completes it with the GENERATED provided methods (`BitSink.write_bytes_aligned / write_twoc /
write_zeros`, both profiles).  `runSink I s ops` is `dest.op1(..)?; dest.op2(..)?; ..; Ok(())`: the trait calls of `ops` in
order, leaving at the first `Err`.  `runReq d s calls` is the same over required calls only.

Theorems:
  C12G_call_expand, C12G_expand   on a user sink without overrides the run of `ops` makes exactly the required calls of
                                  `ops.flatMap Op.expand`, in order, up to and including the first one that returns `Err`; the
                                  final sink state (arbitrary `σ`, so also any log the sink keeps) and the result are equal
  C12G_no_panic                   if the sink's own methods do not panic, the run does not panic for valid ops (dev and release)
  C12G_first_error                an `Err` result is the error of the first failing call; all calls before it returned `Ok`; the
                                  state is the one that call left (no call after it)
  C12G_writeFailing               `writeFailing ops k` of Model/Ops.lean (the statement of `C12_failing_sink`, `C12_stream`, ..)
                                  IS the run through the generated trait methods on the sink that fails from its k-th call on
  C12G_word_run, C12G_byte_run    for the generated `MemSink<u64>` / `MemSink<u8>` impls (overrides included, `Error =
                                  Infallible`) the run never fails and equals `WordSink.run` / `ByteSink.run` (from C11G_*_run)
What stays outside: which op list a `BitRepr::write` issues (`Gen/Writer.lean`, part `writer`, whose `W = Option (List Op)`
abstracts the `?` after every sink call) - see notes/sink_design.md.
-/
import FlacVerif.Theorems.C11Gen
import FlacVerif.Model.Ops
set_option linter.unusedSimpArgs false
set_option linter.unusedVariables false
namespace FlacVerif.C12Gen
open FlacVerif.Gen.Sink FlacVerif.C11Gen

variable {σ ε : Type}

/-- a `BitSink` implementation: the four required methods plus the three provided ones (generated defaults or overrides) -/
structure BitSinkImpl (σ ε : Type) where
  req : BitSinkReq σ ε
  write_bytes_aligned : σ → List (BitVec 8) → Option (Except ε Nat × σ)
  write_twoc : σ → Int → Nat → Option (Except ε Unit × σ)
  write_zeros : σ → Nat → Option (Except ε Unit × σ)

/-- a user sink that implements only the required methods: the provided ones are the GENERATED trait defaults -/
def ofReq (dbg : Bool) (d : BitSinkReq σ ε) : BitSinkImpl σ ε :=
  ⟨d, BitSink.write_bytes_aligned dbg d, BitSink.write_twoc dbg d, BitSink.write_zeros dbg d⟩

/-- forget the returned padding count -/
def unitR (r : Option (Except ε Nat × σ)) : Option (Except ε Unit × σ) :=
  r.map fun p => (p.1.map fun _ => (), p.2)

/-- the trait call an `Op` stands for -/
def opCall (I : BitSinkImpl σ ε) (s : σ) : Op → Option (Except ε Unit × σ)
  | .alignToByte => unitR (I.req.align_to_byte s)
  | .writeLsbs w v n => I.req.write_lsbs s (BitVec.ofNat w v) n
  | .writeMsbs w v n => I.req.write_msbs s (BitVec.ofNat w v) n
  | .write w v => I.req.write s (BitVec.ofNat w v)
  | .writeTwoc v n => I.write_twoc s v n
  | .writeZeros n => I.write_zeros s n
  | .writeBytesAligned bs => unitR (I.write_bytes_aligned s (bs.map (BitVec.ofNat 8)))

/-- `dest.op1(..)?; dest.op2(..)?; ..; Ok(())`: the calls in order, leaving at the first `Err` (`none` = a panic) -/
def runSink (I : BitSinkImpl σ ε) : σ → List Op → Option (Except ε Unit × σ)
  | s, [] => some (.ok (), s)
  | s, op :: ops =>
    match opCall I s op with
    | none => none
    | some (.error e, s') => some (.error e, s')
    | some (.ok _, s') => runSink I s' ops

/-- a call of a required method (for the other kinds of `Op`: no call) -/
def reqCall (d : BitSinkReq σ ε) (s : σ) : Op → Option (Except ε Unit × σ)
  | .alignToByte => unitR (d.align_to_byte s)
  | .writeLsbs w v n => d.write_lsbs s (BitVec.ofNat w v) n
  | .writeMsbs w v n => d.write_msbs s (BitVec.ofNat w v) n
  | .write w v => d.write s (BitVec.ofNat w v)
  | _ => some (.ok (), s)

/-- required-method calls in order, leaving at the first `Err` -/
def runReq (d : BitSinkReq σ ε) : σ → List Op → Option (Except ε Unit × σ)
  | s, [] => some (.ok (), s)
  | s, c :: cs =>
    match reqCall d s c with
    | none => none
    | some (.error e, s') => some (.error e, s')
    | some (.ok _, s') => runReq d s' cs

theorem runReq_append (d : BitSinkReq σ ε) (s : σ) (a b : List Op) :
    runReq d s (a ++ b) = match runReq d s a with
      | none => none
      | some (.error e, s') => some (.error e, s')
      | some (.ok _, s') => runReq d s' b := by
  induction a generalizing s with
  | nil => simp [runReq]
  | cons c cs ih =>
    simp only [List.cons_append, runReq]
    cases h : reqCall d s c with
    | none => simp
    | some p =>
      obtain ⟨r, s'⟩ := p
      cases r with
      | error e => simp
      | ok u => simp [ih]

theorem runReq_single (d : BitSinkReq σ ε) (s : σ) (c : Op) :
    runReq d s [c] = match reqCall d s c with
      | none => none
      | some (.error e, s') => some (.error e, s')
      | some (.ok _, s') => some (.ok (), s') := by
  simp only [runReq]

theorem norm_id (r : Option (Except ε Unit × σ)) :
    (match r with
      | none => none
      | some (.error e, s') => some (.error e, s')
      | some (.ok _, s') => some (.ok (), s')) = r := by
  cases r with
  | none => rfl
  | some p => obtain ⟨r, s'⟩ := p; cases r <;> rfl

/-- provided `write_twoc` = its expansion into required calls -/
theorem default_twoc (dbg : Bool) (d : BitSinkReq σ ε) (s : σ) (v : Int) (n : Nat) (h1 : 1 ≤ n) (h2 : n ≤ 64) :
    BitSink.write_twoc dbg d s v n = runReq d s (Op.expand (.writeTwoc v n)) := by
  have hk : 64 - n < 64 := by omega
  simp only [BitSink.write_twoc, subU, h2, if_true, Option.bind_some, shlB, hk, Op.expand, runReq_single, reqCall,
    BitVec.ofNat_toNat, BitVec.setWidth_eq, norm_id]
  cases d.write_msbs s (BitVec.ofInt 64 v <<< (64 - n)) n with
  | none => rfl
  | some p => rfl

/-- a `for` loop whose body is one required call with `?` = the calls in order with early exit -/
theorem forF_calls {α ρ : Type} (d : BitSinkReq σ ε) (mk : ε → σ → ρ) (g : α → Op) (f : α → σ → Option (Flow ρ σ))
    (hf : ∀ b s, f b s = match reqCall d s (g b) with
      | none => none
      | some (.error e, s') => some (.ret (mk e s'))
      | some (.ok _, s') => some (.next s'))
    (xs : List α) (s : σ) :
    forF xs s f = match runReq d s (xs.map g) with
      | none => none
      | some (.error e, s') => some (.ret (mk e s'))
      | some (.ok _, s') => some (.next s') := by
  induction xs generalizing s with
  | nil => simp [forF, runReq]
  | cons b bs ih =>
    simp only [List.map_cons, forF, runReq, hf]
    cases h : reqCall d s (g b) with
    | none => simp
    | some p =>
      obtain ⟨r, s'⟩ := p
      cases r with
      | error e => simp
      | ok u => simp [ih]

theorem forF_map {α β ρ : Type} (h : α → β) (xs : List α) (s : σ) (f : β → σ → Option (Flow ρ σ)) :
    forF (xs.map h) s f = forF xs s (fun a => f (h a)) := by
  induction xs generalizing s with
  | nil => rfl
  | cons x xs ih =>
    simp only [List.map_cons, forF]
    cases f (h x) s with
    | none => rfl
    | some r => cases r <;> simp [ih]

theorem default_bytes_aligned (dbg : Bool) (d : BitSinkReq σ ε) (s : σ) (bs : List Nat) :
    unitR (BitSink.write_bytes_aligned dbg d s (bs.map (BitVec.ofNat 8))) = runReq d s (Op.expand (.writeBytesAligned bs)) := by
  simp only [BitSink.write_bytes_aligned, Op.expand, runReq, reqCall, unitR]
  cases h : d.align_to_byte s with
  | none => simp
  | some p =>
    obtain ⟨r, s'⟩ := p
    cases r with
    | error e => simp [Except.map]
    | ok u =>
      simp only [Option.bind_some, Option.map_some, Except.map]
      rw [forF_map, forF_calls d (fun e s => (Except.error e, s)) (fun b => Op.write 8 b)]
      · cases h2 : runReq d s' (bs.map fun b => Op.write 8 b) with
        | none => simp [bindF]
        | some q =>
          obtain ⟨r2, s2⟩ := q
          cases r2 <;> simp [bindF, Except.map]
      · intro b s
        simp only [reqCall]
        cases d.write s (BitVec.ofNat 8 b) with
        | none => rfl
        | some p => obtain ⟨r, s'⟩ := p; cases r <;> rfl

def zk (m : Nat) : Nat := if m > 64 then (m - 1) / 64 else 0
def zr (m : Nat) : Nat := if m > 64 then m - 64 * ((m - 1) / 64) else m

/-- the loop of the provided `write_zeros`, for any condition / body with the stated pointwise behaviour -/
theorem whileF_zeros {ρ : Type} (d : BitSinkReq σ ε) (mk : ε → σ → ρ) (c : σ × Nat → Bool) (f : σ × Nat → Option (Flow ρ (σ × Nat)))
    (hc : ∀ s m, c (s, m) = decide (m > 64))
    (hf : ∀ s m, 64 ≤ m → f (s, m) = match d.write s (0#64) with
      | none => none
      | some (.error e, s') => some (.ret (mk e s'))
      | some (.ok _, s') => some (.next (s', m - 64)))
    (fuel : Nat) (s : σ) (m : Nat) (hm : m ≤ fuel) :
    whileF fuel c f (s, m) = match runReq d s (List.replicate (zk m) (.write 64 0)) with
      | none => none
      | some (.error e, s') => some (.ret (mk e s'))
      | some (.ok _, s') => some (.next (s', zr m)) := by
  induction fuel generalizing s m with
  | zero =>
    have : m = 0 := by omega
    subst this; simp [whileF, hc, zk, zr, runReq]
  | succ fuel ih =>
    by_cases h : m > 64
    · have hk : zk m = zk (m - 64) + 1 := by
        simp only [zk, h, if_true]; split <;> omega
      have hr : zr m = zr (m - 64) := by
        simp only [zr, h, if_true]; split <;> omega
      simp only [whileF, hc, h, decide_true, if_true, hk, List.replicate_succ, runReq, reqCall, hr, hf s m (by omega)]
      have h0 : BitVec.ofNat 64 0 = (0#64) := rfl
      rw [h0]
      cases hw : d.write s (0#64) with
      | none => simp
      | some p =>
        obtain ⟨r, s'⟩ := p
        cases r with
        | error e => simp
        | ok u => simp only []; exact ih s' (m - 64) (by omega)
    · simp [whileF, hc, h, zk, zr, runReq]

theorem default_zeros (dbg : Bool) (d : BitSinkReq σ ε) (s : σ) (n : Nat) :
    BitSink.write_zeros dbg d s n = runReq d s (Op.expand (.writeZeros n)) := by
  simp only [BitSink.write_zeros, Op.expand]
  rw [whileF_zeros d (fun e s => (Except.error e, s)) _ _ ?_ ?_ n s n (Nat.le_refl _), runReq_append]
  · simp only [zk, zr]
    cases h2 : runReq d s (List.replicate (if n > 64 then (n - 1) / 64 else 0) (Op.write 64 0)) with
    | none => simp [bindF]
    | some q =>
      obtain ⟨r2, s2⟩ := q
      cases r2 with
      | error e => simp [bindF]
      | ok u =>
        simp only [bindF, runReq_single, reqCall]
        have h0 : BitVec.ofNat 64 0 = (0#64) := rfl
        rw [h0]
        cases d.write_msbs s2 (0#64) (if n > 64 then n - 64 * ((n - 1) / 64) else n) with
        | none => rfl
        | some p => obtain ⟨r, s'⟩ := p; cases r <;> rfl
  · intro s m; rfl
  · intro s m hm
    have hsub : subU dbg 64 m 64 = some (m - 64) := by simp [subU, hm]
    simp only [hsub]
    cases d.write s (0#64) with
    | none => rfl
    | some p => obtain ⟨r, s'⟩ := p; cases r <;> rfl

/-! ### (a) any user sink -/

/-- one trait call on a user sink without overrides = the required calls of `Op.expand`, with early exit -/
theorem C12G_call_expand (dbg : Bool) (d : BitSinkReq σ ε) (s : σ) (op : Op) (hv : op.Valid) :
    opCall (ofReq dbg d) s op = runReq d s op.expand := by
  cases op with
  | alignToByte => simp only [opCall, ofReq, Op.expand, runReq_single, reqCall, norm_id]
  | writeLsbs w v n => simp only [opCall, ofReq, Op.expand, runReq_single, reqCall, norm_id]
  | writeMsbs w v n => simp only [opCall, ofReq, Op.expand, runReq_single, reqCall, norm_id]
  | write w v => simp only [opCall, ofReq, Op.expand, runReq_single, reqCall, norm_id]
  | writeTwoc v n =>
    obtain ⟨h1, h2, _⟩ := hv
    simp only [opCall, ofReq, default_twoc dbg d s v n h1 h2]
  | writeZeros n => simp only [opCall, ofReq, default_zeros]
  | writeBytesAligned bs => simp only [opCall, ofReq, default_bytes_aligned]

/-- `BitRepr::write`-style sequences (`dest.op(..)?; ..`) on a user sink implementing only the required methods:
exactly the required calls of the expansion, in order, up to and including the first one that returns `Err` -/
theorem C12G_expand (dbg : Bool) (d : BitSinkReq σ ε) (s : σ) (ops : List Op) (hv : ∀ op ∈ ops, op.Valid) :
    runSink (ofReq dbg d) s ops = runReq d s (ops.flatMap Op.expand) := by
  induction ops generalizing s with
  | nil => simp [runSink, runReq]
  | cons op ops ih =>
    simp only [runSink, List.flatMap_cons, runReq_append, C12G_call_expand dbg d s op (hv op (by simp))]
    cases h : runReq d s op.expand with
    | none => rfl
    | some p =>
      obtain ⟨r, s'⟩ := p
      cases r with
      | error e => rfl
      | ok u => exact ih s' (fun o ho => hv o (by simp [ho]))

/-- the required methods of the user sink never panic -/
def Total (d : BitSinkReq σ ε) : Prop :=
  (∀ s, d.align_to_byte s ≠ none) ∧ (∀ w s (v : BitVec w) n, d.write_lsbs s v n ≠ none)
  ∧ (∀ w s (v : BitVec w) n, d.write_msbs s v n ≠ none) ∧ (∀ w s (v : BitVec w), d.write s v ≠ none)

theorem runReq_total (d : BitSinkReq σ ε) (ht : Total d) (s : σ) (cs : List Op) : runReq d s cs ≠ none := by
  induction cs generalizing s with
  | nil => simp [runReq]
  | cons c cs ih =>
    simp only [runReq]
    have hc : reqCall d s c ≠ none := by
      cases c <;> simp only [reqCall, unitR, ne_eq, Option.map_eq_none_iff, reduceCtorEq, not_false_eq_true]
      · exact ht.1 s
      · exact ht.2.1 _ s _ _
      · exact ht.2.2.1 _ s _ _
      · exact ht.2.2.2 _ s _
    cases h : reqCall d s c with
    | none => exact absurd h hc
    | some p =>
      obtain ⟨r, s'⟩ := p
      cases r with
      | error e => simp
      | ok u => exact ih s'

/-- a failing (but not panicking) user sink never makes `write` panic, in either profile: the result is `Ok` or the sink's `Err` -/
theorem C12G_no_panic (dbg : Bool) (d : BitSinkReq σ ε) (ht : Total d) (s : σ) (ops : List Op) (hv : ∀ op ∈ ops, op.Valid) :
    runSink (ofReq dbg d) s ops ≠ none := by
  rw [C12G_expand dbg d s ops hv]; exact runReq_total d ht s _

/-- the error returned is the FIRST error the sink reports: all calls before it succeeded, it is the result of the call
that failed, the state is the one that call left, and no call is made after it -/
theorem runReq_first_error (d : BitSinkReq σ ε) (s s' : σ) (cs : List Op) (e : ε) (h : runReq d s cs = some (.error e, s')) :
    ∃ pre c post s1, cs = pre ++ c :: post ∧ runReq d s pre = some (.ok (), s1) ∧ reqCall d s1 c = some (.error e, s') := by
  induction cs generalizing s with
  | nil => simp [runReq] at h
  | cons c cs ih =>
    simp only [runReq] at h
    cases hc : reqCall d s c with
    | none => simp [hc] at h
    | some p =>
      obtain ⟨r, s2⟩ := p
      cases r with
      | error e2 =>
        simp only [hc, Option.some.injEq, Prod.mk.injEq, Except.error.injEq] at h
        obtain ⟨rfl, rfl⟩ := h
        exact ⟨[], c, cs, s, rfl, rfl, hc⟩
      | ok u =>
        simp only [hc] at h
        obtain ⟨pre, c', post, s1, h1, h2, h3⟩ := ih s2 h
        refine ⟨c :: pre, c', post, s1, by simp [h1], ?_, h3⟩
        simp only [runReq, hc]; exact h2

theorem C12G_first_error (dbg : Bool) (d : BitSinkReq σ ε) (s s' : σ) (ops : List Op) (hv : ∀ op ∈ ops, op.Valid) (e : ε)
    (h : runSink (ofReq dbg d) s ops = some (.error e, s')) :
    ∃ pre c post s1, ops.flatMap Op.expand = pre ++ c :: post ∧ runReq d s pre = some (.ok (), s1)
      ∧ reqCall d s1 c = some (.error e, s') := by
  rw [C12G_expand dbg d s ops hv] at h
  exact runReq_first_error d s s' _ e h

/-! ### (b) the generated `MemSink` implementations -/

/-- `impl BitSink for MemSink<u64>` as the source states it: overrides of `write_bytes_aligned` / `write_zeros`, the
trait's `write_twoc` -/
def implWord (dbg : Bool) : BitSinkImpl (MemSink 64) Empty :=
  ⟨MemSinkU64.req dbg, fun s bs => (MemSinkU64.write_bytes_aligned dbg s bs).map fun p => (.ok p.1, p.2),
   MemSinkU64.write_twoc dbg, fun s n => (MemSinkU64.write_zeros dbg s n).map fun s => (.ok (), s)⟩

def implByte (dbg : Bool) : BitSinkImpl (MemSink 8) Empty :=
  ⟨MemSinkU8.req dbg, fun s bs => (MemSinkU8.write_bytes_aligned dbg s bs).map fun p => (.ok p.1, p.2),
   MemSinkU8.write_twoc dbg, fun s n => (MemSinkU8.write_zeros dbg s n).map fun s => (.ok (), s)⟩

theorem infallible_ok (r : Except Empty Unit) : r = .ok () := by
  cases r with
  | error e => exact e.elim
  | ok u => rfl

theorem map_infallible {τ : Type} (x : Option (Except Empty Unit × τ)) :
    x = x.map fun (p : Except Empty Unit × τ) => (Except.ok (), p.2) := by
  cases x with
  | none => rfl
  | some p => obtain ⟨r, g⟩ := p; simp [infallible_ok r]

theorem word_call (dbg : Bool) (g : MemSink 64) (op : Op) :
    opCall (implWord dbg) g op = (genStepWord dbg g op).map fun g' => (.ok (), g') := by
  cases op <;> simp only [opCall, implWord, MemSinkU64.req, genStepWord, unitR, Option.map_map, Function.comp_def, Except.map]
  · exact map_infallible _

theorem byte_call (dbg : Bool) (g : MemSink 8) (op : Op) :
    opCall (implByte dbg) g op = (genStepByte dbg g op).map fun g' => (.ok (), g') := by
  cases op <;> simp only [opCall, implByte, MemSinkU8.req, genStepByte, unitR, Option.map_map, Function.comp_def, Except.map]
  · exact map_infallible _

theorem runSink_infallible {τ : Type} (I : BitSinkImpl τ Empty) (step : τ → Op → Option τ)
    (hc : ∀ g op, opCall I g op = (step g op).map fun g' => (.ok (), g')) (g : τ) (ops : List Op) :
    runSink I g ops = (ops.foldlM step g).map fun g' => (.ok (), g') := by
  induction ops generalizing g with
  | nil => simp [runSink]
  | cons op ops ih =>
    simp only [runSink, hc, List.foldlM_cons, bind]
    cases step g op with
    | none => rfl
    | some g' => simp [ih]

/-- running ops through the trait on the generated `MemSink<u64>` never fails (`Error = Infallible`) and is `WordSink.run` -/
theorem C12G_word_run (dbg : Bool) (g : MemSink 64) (ops : List Op) (hi : (toWord g).Inv) (hv : ∀ op ∈ ops, op.Valid)
    (hl : g.bitlength + (ops.map grow).sum + 64 < 2 ^ 64) :
    runSink (implWord dbg) g ops = ((toWord g).run ops).map fun s => (.ok (), ofWord s) := by
  rw [runSink_infallible (implWord dbg) (genStepWord dbg) (word_call dbg), C11G_word_run dbg g ops hi hv hl, Option.map_map]
  rfl

theorem C12G_byte_run (dbg : Bool) (g : MemSink 8) (ops : List Op) (hi : (toByte g).Inv) (hv : ∀ op ∈ ops, op.Valid)
    (hl : g.bitlength + (ops.map grow).sum + 64 < 2 ^ 64) :
    runSink (implByte dbg) g ops = ((toByte g).run ops).map fun s => (.ok (), ofByte s) := by
  rw [runSink_infallible (implByte dbg) (genStepByte dbg) (byte_call dbg), C11G_byte_run dbg g ops hi hv hl, Option.map_map]
  rfl

/-! ### the hand model's failing sink (`writeFailing`, C12.lean) is a user sink of the trait as generated -/

/-- a call of a required method whose operand fits its width -/
def reqFit : Op → Prop
  | .alignToByte => True
  | .writeLsbs w v _ => v < 2 ^ w
  | .writeMsbs w v _ => v < 2 ^ w
  | .write w v => v < 2 ^ w
  | _ => False

/-- the sink of `writeFailing`: it records the calls it accepts and returns `Err` from its `k`-th call (0-based) on -/
def failAt (k : Nat) : BitSinkReq (List Op) Unit where
  align_to_byte := fun acc => some (if acc.length = k then (.error (), acc) else (.ok 0, acc ++ [.alignToByte]))
  write_lsbs := fun {w} acc v n => some (if acc.length = k then (.error (), acc) else (.ok (), acc ++ [.writeLsbs w v.toNat n]))
  write_msbs := fun {w} acc v n => some (if acc.length = k then (.error (), acc) else (.ok (), acc ++ [.writeMsbs w v.toNat n]))
  write := fun {w} acc v => some (if acc.length = k then (.error (), acc) else (.ok (), acc ++ [.write w v.toNat]))

theorem reqCall_failAt (k : Nat) (acc : List Op) (c : Op) (hc : reqFit c) :
    reqCall (failAt k) acc c = some (if acc.length = k then (.error (), acc) else (.ok (), acc ++ [c])) := by
  cases c with
  | alignToByte => simp only [reqCall, failAt, unitR, Option.map_some]; split <;> rfl
  | writeLsbs w v n =>
    simp only [reqFit] at hc
    simp only [reqCall, failAt, BitVec.toNat_ofNat, Nat.mod_eq_of_lt hc]
  | writeMsbs w v n =>
    simp only [reqFit] at hc
    simp only [reqCall, failAt, BitVec.toNat_ofNat, Nat.mod_eq_of_lt hc]
  | write w v =>
    simp only [reqFit] at hc
    simp only [reqCall, failAt, BitVec.toNat_ofNat, Nat.mod_eq_of_lt hc]
  | writeTwoc v n => exact hc.elim
  | writeZeros n => exact hc.elim
  | writeBytesAligned bs => exact hc.elim

theorem runReq_failAt (k : Nat) (cs : List Op) (hf : ∀ c ∈ cs, reqFit c) (acc : List Op) (ha : acc.length ≤ k) :
    runReq (failAt k) acc cs =
      some (if k < acc.length + cs.length then (.error (), acc ++ cs.take (k - acc.length)) else (.ok (), acc ++ cs)) := by
  induction cs generalizing acc with
  | nil =>
    have : ¬ (k < acc.length) := by omega
    simp [runReq, this]
  | cons c cs ih =>
    simp only [runReq, reqCall_failAt k acc c (hf c (by simp)), List.length_cons]
    by_cases hk : acc.length = k
    · have : k < acc.length + (cs.length + 1) := by omega
      simp [hk]
    · have h1 : (acc ++ [c]).length ≤ k := by simp; omega
      simp only [hk, if_false, ih (fun c' hc' => hf c' (by simp [hc'])) (acc ++ [c]) h1, List.length_append, List.length_singleton]
      have h2 : k - acc.length = (k - (acc.length + 1)) + 1 := by omega
      by_cases hlt : k < acc.length + 1 + cs.length
      · have : k < acc.length + (cs.length + 1) := by omega
        simp [hlt, this, h2, List.take_succ_cons]
      · have : ¬ (k < acc.length + (cs.length + 1)) := by omega
        simp [hlt, this]

theorem expand_fit (op : Op) (hv : op.Valid) : ∀ c ∈ op.expand, reqFit c := by
  cases op with
  | alignToByte => simp [Op.expand, reqFit]
  | writeLsbs w v n => simpa [Op.expand, reqFit] using hv.2.1
  | writeMsbs w v n => simpa [Op.expand, reqFit] using hv.2.1
  | write w v => simpa [Op.expand, reqFit] using hv.2
  | writeTwoc v n =>
    simp only [Op.expand, List.mem_singleton, forall_eq, reqFit]
    exact BitVec.isLt _
  | writeZeros n =>
    intro c hc
    simp only [Op.expand, List.mem_append, List.mem_replicate, List.mem_singleton] at hc
    rcases hc with ⟨_, rfl⟩ | rfl <;> simp [reqFit]
  | writeBytesAligned bs =>
    intro c hc
    simp only [Op.expand, List.mem_cons, List.mem_map] at hc
    rcases hc with rfl | ⟨b, hb, rfl⟩
    · simp [reqFit]
    · have : b < 256 := hv b hb
      simpa [reqFit] using this

/-- `writeFailing ops k` (Model/Ops.lean, the statement of C12) IS the run of `ops` through the generated trait methods on
the sink that fails from its `k`-th call on: same outcome, same accepted calls, nothing after the error -/
theorem C12G_writeFailing (dbg : Bool) (ops : List Op) (hv : ∀ op ∈ ops, op.Valid) (k : Nat) :
    runSink (ofReq dbg (failAt k)) [] ops = some (match writeFailing ops k with
      | .done => (.ok (), ops.flatMap Op.expand)
      | .sinkError acc => (.error (), acc)) := by
  have hf : ∀ c ∈ ops.flatMap Op.expand, reqFit c := by
    intro c hc
    obtain ⟨op, ho, hc⟩ := List.mem_flatMap.1 hc
    exact expand_fit op (hv op ho) c hc
  rw [C12G_expand dbg (failAt k) [] ops hv, runReq_failAt k _ hf [] (Nat.zero_le _)]
  simp only [List.length_nil, Nat.zero_add, List.nil_append, Nat.sub_zero, writeFailing]
  split <;> rfl

example : runSink (ofReq true (failAt 3)) [] [.writeLsbs 8 5 3, .writeZeros 70, .writeTwoc (-3) 5, .alignToByte]
    = some (.error (), [.writeLsbs 8 5 3, .write 64 0, .writeMsbs 64 0 6]) := by
  rw [C12G_writeFailing true _ (by decide) 3]; rfl
end FlacVerif.C12Gen
