/-
C01 — lossless round trip through an independent decoder.

The decoder is `Rfc.analyze` (`Model/Rfc.lean`, written from RFC 9639). The theorems below are the
inverse laws from which the round trip is assembled; each is stated for *every* predictor the
float estimator could produce (coefficients, shift and order are universally quantified), so
losslessness does not depend on the unmodelled floating-point code.
-/
import FlacVerif.Lemmas.Predict
namespace FlacVerif.C01
open FlacVerif

/-- Sign folding is inverted by the decoder's unfolding, for every integer. -/
theorem C01_unfold_fold (v : Int) : unfold (fold v) = v := unfold_fold v

/-- The encoder's `u32` computation of the folded value is the mathematical one on the whole
residual range `(-2^31, 2^31)` (and overflows exactly at `-2^31`, which the format forbids). -/
theorem C01_encodeSignbit (v : Int) (h1 : -(2 ^ 31 : Int) < v) (h2 : v < (2 ^ 31 : Int)) :
    encodeSignbit v = some (fold v) ∧ fold v < 2 ^ 32 :=
  ⟨encodeSignbit_eq_fold v h1 h2, fold_lt v h1 h2⟩

/-- A Rice-coded sample is recovered from its quotient and remainder. -/
theorem C01_rice_split (p u : Nat) : (u >>> p) * 2 ^ p + u % 2 ^ p = u := by
  rw [Nat.shiftRight_eq_div_pow, Nat.mul_comm]; exact Nat.div_add_mod u (2 ^ p)

/-- LPC subframe: warm-up + exact residual reconstructs the block, for **any** coefficient list
(order = its length, 0..32), any shift, any block. -/
theorem C01_lpc (coefs : List Int) (shift : Nat) (xs : List Int) :
    lpcRestore coefs shift (xs.take coefs.length) (lpcResidual coefs shift xs) = xs :=
  lpcRestore_lpcResidual coefs shift xs

/-- Fixed-predictor subframe of order 0..4. -/
theorem C01_fixed (k : Nat) (hk : k ≤ 4) (xs : List Int) :
    fixedRestore k (xs.take k) (fixedResidual k xs) = xs :=
  fixedRestore_fixedResidual k xs hk

/-- Mid/side, left/side and right/side decorrelation are inverted exactly by the RFC's
reconstruction rules, for all integers (in particular for odd and negative sums). -/
theorem C01_midside (l r : Int) : unMidSide (midSide l r).1 (midSide l r).2 = (l, r) := unMidSide_midSide l r
theorem C01_leftside (l r : Int) : unLeftSide l (l - r) = (l, r) := unLeftSide_spec l r
theorem C01_rightside (l r : Int) : unRightSide (l - r) r = (l, r) := unRightSide_spec l r

/-- Non-vacuity: an odd negative sum (where rounding toward zero instead of flooring would lose
a bit). -/
example : unMidSide (midSide (-3) 2).1 (midSide (-3) 2).2 = (-3, 2) := by decide

example : lpcRestore [3, -2] 1 [5, -7] (lpcResidual [3, -2] 1 [5, -7, 100, -100, 8388607]) = [5, -7, 100, -100, 8388607] := by
  decide

end FlacVerif.C01
