/-
C02 / C16 — the CRC algorithms the code names are the ones RFC 9639 prescribes.

`Gen/Tables.lean` is regenerated on every run from `bitrepr.rs` (which catalog entries `HEADER_CRC`
and `FRAME_CRC` are built from) and from the `crc-catalog` crate in the cargo registry (their
parameters). The strict decoder `Model/Rfc.lean` and all CRC theorems use `rfcCrc8` / `rfcCrc16`,
written by hand from the RFC. This file states that the two coincide, so that a changed polynomial,
initial value, reflection flag or final xor in the code breaks a proof obligation.
-/
import FlacVerif.Gen.Tables
import FlacVerif.Model.Codes
namespace FlacVerif

theorem C02_crc8_is_rfc :
    Gen.Tables.crc8 = (rfcCrc8.width, rfcCrc8.poly, rfcCrc8.init, false, false, 0) := by decide

theorem C02_crc16_is_rfc :
    Gen.Tables.crc16 = (rfcCrc16.width, rfcCrc16.poly, rfcCrc16.init, false, false, 0) := by decide

/-- The fixed-predictor coefficient table of `decode.rs` is the RFC's (section 9.2.5), zero padded. -/
theorem C02_fixed_coefs_are_rfc :
    Gen.Tables.fixedLpcCoefs = [[0, 0, 0, 0], [1, 0, 0, 0], [2, -1, 0, 0], [3, -3, 1, 0], [4, -6, 4, -1]] := by decide

end FlacVerif
