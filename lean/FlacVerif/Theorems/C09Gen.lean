/-
C09Gen — the encoder's decision logic as GENERATED from src/coding.rs (Gen/Coding.lean, translator part `coding`,
tools/translate_coding.py) equals the hand-written model (Model/Encode.lean), on which C09 / C01 / C07 rest.

Sub-frame level: `encode_residual`, `select_order_and_encode_residual` (both selectors), `fixed_lpc`, `estimated_qlpc`,
`encode_subframe` = `encodeResidual`, (the candidate selection inside) `fixedCandidate`, `lpcCandidate`, `encodeSubframe`.
Frame level: `encode_frame_impl` = `encodeChannels` under the header `implHeader`; `try_stereo_coding` = the stereo branch
(`midSide`, `chooseStereo`, `selectChannels`); `encode_frame` / `encode_fixed_size_frame` = `encodeFrame` (generated frames
are related to the model's by `C08Gen.frameOfGen`).

Every theorem is stated for ALL argument values; where the generated function tracks a panic site of the Rust code
that the hand model does not have (an `assert!`, `usize` overflow, an index, a slice bound, a `heapless::Vec`
capacity, `count_bits` underflow) the hypothesis excludes exactly that point and a lemma (`fixed_lpc_panics_wide`,
`encode_subframe_panics_empty`) / a comment documents it.  (The capacity 24 of the LPC warm-up vector is a panic site of the
hand model too — `maxLpcOrder`, `maxLpcOrder_gen`, `estimated_qlpc_capacity` — so `estimated_qlpc` needs no hypothesis.)  `*_valid` and the frame-level theorems
discharge these hypotheses on the input domain of C09 / C01Strict / C07Total.
-/
import FlacVerif.Gen.Coding
import FlacVerif.Lemmas.TotalStream
import FlacVerif.Lemmas.ExtrasC09
import FlacVerif.Lemmas.ScratchFixed
import FlacVerif.Theorems.C13
import FlacVerif.Theorems.C09
import FlacVerif.Theorems.C08Gen
import FlacVerif.Lemmas.StrictStreamEnc
namespace FlacVerif
namespace C09Gen
open Gen.Coding Total Strict

/-! ### the monad -/

theorem bindM_apply {α β : Type} (m : M α) (k : α → M β) (log : List OEvent) :
    bindM m k log = (m log).bind fun r => k r.1 r.2 := by
  unfold bindM
  cases m log with
  | none => rfl
  | some r => cases r; rfl

theorem req_apply {α : Type} (c : Bool) (rest : M α) (log : List OEvent) :
    req c rest log = if c then rest log else none := rfl

theorem pureM_apply {α : Type} (a : α) (log : List OEvent) : pureM a log = some (a, log) := rfl

theorem liftO_apply {α : Type} (o : Option α) (log : List OEvent) : liftO o log = o.map (·, log) := by
  cases o <;> rfl

theorem minByKey_eq {α : Type} (key : α → Nat) (l : List α) : minByKey key l = firstMinBy key l := by
  cases l <;> rfl

/-- a step that does not touch the log -/
def Pure {α : Type} (m : M α) (o : Option α) : Prop := ∀ log, m log = o.map (·, log)

theorem mapMM_pure {α β : Type} (f : α → M β) (g : α → Option β) :
    ∀ l : List α, (∀ x ∈ l, Pure (f x) (g x)) → Pure (mapMM f l) (l.mapM g)
  | [], _ => fun log => rfl
  | x :: xs, h => fun log => by
    rw [mapMM, bindM_apply, h x (by simp) log, List.mapM_cons]
    cases g x with
    | none => rfl
    | some y =>
      simp only [Option.map_some, Option.bind_some, bindM_apply,
        mapMM_pure f g xs (fun z hz => h z (by simp [hz])) log]
      cases xs.mapM g <;> rfl

theorem mapMM_map {α β γ : Type} (f : β → M γ) (g : α → β) :
    ∀ l : List α, mapMM f (l.map g) = mapMM (fun x => f (g x)) l
  | [] => rfl
  | x :: xs => by simp only [List.map_cons, mapMM, mapMM_map f g xs]

/-! ### `encode_residual` -/

/-- **`encode_residual`** = `encodeResidual`, for all arguments (the log is not touched). -/
theorem C09G_encode_residual (c : Gen.Prc) (errors : List Int) (warm : Nat) (log : List OEvent) :
    encode_residual c errors warm log = (encodeResidual c.max_parameter errors warm).map (·, log) := by
  unfold encode_residual encodeResidual
  rw [bindM_apply, liftO_apply]
  cases search errors warm c.max_parameter <;> rfl

/-- a block of 64 samples used by the examples -/
def sig64 : List Int := (List.range 64).map fun (i : Nat) => ((i * i : Nat) : Int) % 23 - 11

example : encode_residual ⟨14⟩ sig64 2 [.est 0 5] = (encodeResidual 14 sig64 2).map (·, [.est 0 5]) :=
  C09G_encode_residual _ _ _ _

/-! ### `select_order_and_encode_residual` -/

theorem mapM_map_comm {α β γ : Type} (F : α → Option β) (G : β → γ) :
    ∀ l : List α, l.mapM (fun x => (F x).map G) = (l.mapM F).map (List.map G)
  | [] => rfl
  | x :: xs => by
    simp only [List.mapM_cons, mapM_map_comm F G xs]
    cases F x with
    | none => rfl
    | some y => cases xs.mapM F <;> rfl

theorem foldl_min_map {α β : Type} (key : β → Nat) (G : α → β) (l : List α) (a : α) :
    (l.map G).foldl (fun best y => if key y < key best then y else best) (G a) =
      G (l.foldl (fun best y => if key (G y) < key (G best) then y else best) a) := by
  induction l generalizing a with
  | nil => rfl
  | cons x xs ih =>
    simp only [List.map_cons, List.foldl_cons]
    split
    · exact ih x
    · exact ih a

theorem firstMinBy_map {α β : Type} (key : β → Nat) (G : α → β) (l : List α) :
    firstMinBy key (l.map G) = (firstMinBy (fun x => key (G x)) l).map G := by
  cases l with
  | nil => rfl
  | cons a as => simp only [List.map_cons, firstMinBy, foldl_min_map, Option.map_some]

/-- the candidates of the `BitCount` selector, as `fixedCandidate` builds them (for error signals `d k`) -/
def bitCands (d : Nat → List Int) (maxP bps n : Nat) : Option (List (Nat × PrcParameter × Nat)) :=
  (List.range n).mapM fun k => do
    let prc ← search (d k) k maxP
    some (k, prc, bps * k + prc.codeBits)

/-- **`select_order_and_encode_residual`, `OrderSel::BitCount`**, on the error signals `(k, d k)`, `k < n`: the candidates,
the FIRST minimum of `bits_per_sample * order + code_bits`, accepted iff strictly below the baseline.  `hov` excludes
the `usize` overflow of that key (a panic site the hand model does not have). -/
theorem C09G_select_bitCount (prc : Gen.Prc) (d : Nat → List Int) (bps baseline n : Nat) (log : List OEvent)
    (hov : ∀ k, k < n → ∀ p, search (d k) k prc.max_parameter = some p → bps * k + p.codeBits < 2 ^ 64) :
    select_order_and_encode_residual .BitCount prc ((List.range n).map fun k => (k, d k)) bps baseline log =
      (bitCands d prc.max_parameter bps n).map fun cands =>
        ((firstMinBy (fun c => c.2.2) cands).bind fun c =>
          if c.2.2 < baseline then some (c.1, Residual.ofErrors (d c.1) c.1 c.2.1.order c.2.1.ps) else none, log) := by
  unfold select_order_and_encode_residual
  simp only [mapMM_map, bindM_apply]
  have hp : ∀ k ∈ List.range n, Pure
      (bindM (liftO (search (d k) k prc.max_parameter)) fun prc_p =>
        req (decide (bps * k < 18446744073709551616) && decide (bps * k + prc_p.codeBits < 18446744073709551616))
          (pureM (k, d k, prc_p, bps * k + prc_p.codeBits)))
      ((search (d k) k prc.max_parameter).map fun p => (k, d k, p, bps * k + p.codeBits)) := by
    intro k hk log
    rw [List.mem_range] at hk
    rw [bindM_apply, liftO_apply]
    cases h : search (d k) k prc.max_parameter with
    | none => rfl
    | some p =>
      have := hov k hk p h
      have h1 : bps * k < 18446744073709551616 := by omega
      have h2 : bps * k + p.codeBits < 18446744073709551616 := by omega
      simp only [Option.map_some, Option.bind_some, req_apply, h1, h2, decide_true, Bool.and_self, if_true, pureM_apply]
  rw [mapMM_pure _ _ _ hp log]
  have hg : (fun x => Option.map (fun p => (x, d x, p, bps * x + p.codeBits)) (search (d x) x prc.max_parameter)) =
      fun x => ((do let prc ← search (d x) x prc.max_parameter; some (x, prc, bps * x + prc.codeBits)) :
        Option (Nat × PrcParameter × Nat)).map fun c => (c.1, d c.1, c.2.1, c.2.2) := by
    funext x
    cases search (d x) x prc.max_parameter <;> rfl
  rw [hg, mapM_map_comm]
  unfold bitCands
  cases List.mapM (fun k => (do let prc ← search (d k) k prc.max_parameter; some (k, prc, bps * k + prc.codeBits)) :
      Nat → Option (Nat × PrcParameter × Nat)) (List.range n) with
  | none => rfl
  | some cands =>
    simp only [Option.map_some, Option.bind_some, pureM_apply, minByKey_eq, firstMinBy_map]
    cases firstMinBy (fun c : Nat × PrcParameter × Nat => c.2.2) cands with
    | none => rfl
    | some c => simp

/-- the per-item step of the `ApproxEnt` selector -/
abbrev estStep (bps : Nat) : Nat × List Int → M (Nat × List Int × Nat) := fun x =>
  bindM (oracleEst x.1) fun t =>
    req (decide (bps * x.1 < 18446744073709551616) && decide (t + bps * x.1 < 18446744073709551616))
      (pureM (x.1, x.2, t + bps * x.1))

theorem mapMM_est (d : Nat → List Int) (bps : Nat) : ∀ (n s : Nat) (log : List OEvent),
    (∀ i, i < n → ∀ o b, log[i]? = some (.est o b) → b + bps * (s + i) < 2 ^ 64) →
    mapMM (estStep bps) ((List.range' s n).map fun k => (k, d k)) log =
      (takeEsts n log).map fun r =>
        ((List.range n).map (fun i => (s + i, d (s + i), r.1.getD i 0 + bps * (s + i))), r.2)
  | 0, s, log, _ => rfl
  | n + 1, s, [], _ => rfl
  | n + 1, s, .qlpc _ _ _ :: l, _ => rfl
  | n + 1, s, .est o b :: l, h => by
    have h0 := h 0 (by omega) o b rfl
    rw [Nat.add_zero] at h0
    have ih := mapMM_est d bps n (s + 1) l (fun i hi o' b' hl => by
      have := h (i + 1) (by omega) o' b' (by simpa using hl)
      rwa [show s + (i + 1) = s + 1 + i by omega] at this)
    simp only [List.range'_succ, List.map_cons, mapMM, bindM_apply, oracleEst, Option.bind_some]
    have h1 : bps * s < 18446744073709551616 := by omega
    have h2 : b + bps * s < 18446744073709551616 := by omega
    simp only [req_apply, h1, h2, decide_true, Bool.and_self, if_true, pureM_apply, Option.bind_some]
    rw [ih, takeEsts]
    cases takeEsts n l with
    | none => rfl
    | some r =>
      simp only [Option.map_some, Option.bind_some, List.range_succ_eq_map, List.map_cons, List.map_map]
      have e : ∀ i, s + 1 + i = s + Nat.succ i := by intro i; omega
      simp only [e, Nat.add_zero, List.getD_cons_zero]
      rfl

/-- **`select_order_and_encode_residual`, `OrderSel::ApproxEnt`**, on the error signals `(k, d k)`, `k < n`: one `est` event
per candidate order, in order; the FIRST minimum of `estimate + bits_per_sample * order`; accepted iff strictly below the
baseline, and only then is the residual encoded.  `hov` excludes the `usize` overflow of the key. -/
theorem C09G_select_approxEnt (partitions : Nat) (prc : Gen.Prc) (d : Nat → List Int) (bps baseline n : Nat)
    (log : List OEvent)
    (hov : ∀ i, i < n → ∀ o b, log[i]? = some (.est o b) → b + bps * i < 2 ^ 64) :
    select_order_and_encode_residual (.ApproxEnt partitions) prc ((List.range n).map fun k => (k, d k)) bps baseline log =
      (takeEsts n log).bind fun r =>
        match firstMinBy (fun c => c.2) ((List.range n).map fun k => (k, r.1.getD k 0 + bps * k)) with
        | none => some (none, r.2)
        | some c =>
          if c.2 < baseline then
            (encodeResidual prc.max_parameter (d c.1) c.1).map fun res => (some (c.1, res), r.2)
          else some (none, r.2) := by
  unfold select_order_and_encode_residual
  simp only [bindM_apply]
  have := mapMM_est d bps n 0 log (by simpa using hov)
  simp only [← List.range_eq_range', Nat.zero_add] at this
  rw [show mapMM _ _ log = _ from this]
  cases takeEsts n log with
  | none => rfl
  | some r =>
    simp only [Option.map_some, Option.bind_some, minByKey_eq]
    have hl : (List.range n).map (fun i => (i, d i, r.1.getD i 0 + bps * i)) =
        ((List.range n).map fun k => (k, r.1.getD k 0 + bps * k)).map fun c => (c.1, d c.1, c.2) := by
      simp [List.map_map, Function.comp]
    rw [hl, firstMinBy_map]
    cases firstMinBy (fun c : Nat × Nat => c.2) ((List.range n).map fun k => (k, r.1.getD k 0 + bps * k)) with
    | none => rfl
    | some c =>
      simp only [Option.map_some, optAndThenM, boolThenM]
      by_cases hc : c.2 < baseline
      · simp only [hc, decide_true, if_true, bindM_apply, C09G_encode_residual]
        cases encodeResidual prc.max_parameter (d c.1) c.1 <;> rfl
      · simp only [hc, decide_false, if_false, Bool.false_eq_true]
        rfl

/-! ### `fixed_lpc` -/

theorem enumerate_take_map {α : Type} (f : Nat → α) (m N : Nat) :
    enumerate (List.take m ((List.range N).map f)) = (List.range (min m N)).map fun k => (k, f k) := by
  unfold enumerate
  rw [← List.map_take, List.take_range]
  simp only [List.length_map, List.length_range]
  apply List.ext_getElem
  · simp
  · intro i h1 h2
    simp

/-- `MAX_FIXED_LPC_ORDER + 1` error signals are computed: the `5` of the hand model. -/
theorem fixed_orders : Gen.Const.fixed_MAX_LPC_ORDER + 1 = 5 := by decide

/-- The overflow sites of the order selection (not in the hand model): the key `bits_per_sample * order + code_bits`
resp. `estimate + bits_per_sample * order` must fit `usize`. -/
def SelectFits (c : Gen.SubFrameCoding) (xs : List Int) (bps : Nat) (log : List OEvent) : Prop :=
  match c.fixed.order_sel with
  | .BitCount => ∀ k, k < 5 → ∀ p, search (diffs k xs) k c.prc.max_parameter = some p → bps * k + p.codeBits < 2 ^ 64
  | .ApproxEnt _ => ∀ i, i < 5 → ∀ o b, log[i]? = some (.est o b) → b + bps * i < 2 ^ 64

theorem C09G_fixed_lpc (stale : List (List Int)) (c : Gen.SubFrameCoding) (xs : List Int) (bps baseline : Nat)
    (log : List OEvent)
    (hb : bps < 30) (hmo : c.fixed.max_order + 1 < 2 ^ 64) (hlen : 4 ≤ xs.length) (hov : SelectFits c xs bps log) :
    fixed_lpc stale c xs bps baseline log = fixedCandidate (subCfgOf c) xs bps baseline log := by
  unfold fixed_lpc
  have hmo' : c.fixed.max_order + 1 < 18446744073709551616 := hmo
  simp only [req_apply, hb, hmo', decide_true, if_true, fixed_orders, enumerate_take_map, bindM_apply]
  unfold SelectFits at hov
  unfold fixedCandidate subCfgOf
  simp only []
  cases hsel : c.fixed.order_sel with
  | BitCount =>
    rw [hsel] at hov
    simp only [if_true]
    rw [C09G_select_bitCount c.prc (fun k => diffs k xs) bps baseline _ log (fun k hk => hov k (by omega))]
    change (Option.map _ (bitCands (fun k => diffs k xs) c.prc.max_parameter bps (min (c.fixed.max_order + 1) 5))).bind _ =
      (bitCands (fun k => diffs k xs) c.prc.max_parameter bps (min (c.fixed.max_order + 1) 5)).bind _
    cases hc : bitCands (fun k => diffs k xs) c.prc.max_parameter bps (min (c.fixed.max_order + 1) 5) with
    | none => rfl
    | some cands =>
      simp only [Option.map_some, Option.bind_some]
      cases hm : firstMinBy (fun c : Nat × PrcParameter × Nat => c.2.2) cands with
      | none => rfl
      | some cnd =>
        obtain ⟨k, prc, bits⟩ := cnd
        have hk : k < 5 := by
          obtain ⟨x, hx, hF⟩ := mapM_mem _ _ _ hc _ (firstMinBy_mem _ _ _ hm)
          rw [List.mem_range] at hx
          cases hs : search (diffs x xs) x c.prc.max_parameter with
          | none => simp [hs] at hF
          | some p =>
            simp [hs] at hF
            omega
        have h1 : k ≤ xs.length := by omega
        have h2 : (List.take k xs).length ≤ 4 := by rw [List.length_take]; omega
        by_cases hbits : bits < baseline
        · have h4 : k ≤ 4 := by omega
          simp [optMapM, bindM_apply, req_apply, pureM_apply, hbits, h1, h4]
        · simp [optMapM, pureM_apply, hbits]
  | ApproxEnt partitions =>
    rw [hsel] at hov
    simp only [Bool.false_eq_true, if_false]
    rw [C09G_select_approxEnt partitions c.prc (fun k => diffs k xs) bps baseline _ log (fun i hi => hov i (by omega))]
    cases takeEsts (min (c.fixed.max_order + 1) 5) log with
    | none => rfl
    | some r =>
      simp only [Option.bind_eq_bind, Option.bind_some]
      cases hm : firstMinBy (fun c : Nat × Nat => c.2)
          (List.map (fun k => (k, r.1.getD k 0 + bps * k)) (List.range (min (c.fixed.max_order + 1) 5))) with
      | none => rfl
      | some cnd =>
        obtain ⟨k, bits⟩ := cnd
        have hk : k < 5 := by
          have := firstMinBy_mem _ _ _ hm
          simp only [List.mem_map, List.mem_range, Prod.mk.injEq] at this
          obtain ⟨x, hx, rfl, _⟩ := this
          omega
        have h1 : k ≤ xs.length := by omega
        have h4 : k ≤ 4 := by omega
        by_cases hbits : bits < baseline
        · simp only [hbits, if_true]
          cases encodeResidual c.prc.max_parameter (diffs k xs) k with
          | none => rfl
          | some res => simp [optMapM, bindM_apply, req_apply, pureM_apply, h1, h4]
        · simp [optMapM, pureM_apply, hbits]

/-- The `assert!(bits_per_sample < 30)` of `fixed_lpc` is not in the hand model: there `fixedCandidate` goes on. -/
theorem fixed_lpc_panics_wide (stale : List (List Int)) (c : Gen.SubFrameCoding) (xs : List Int) (bps baseline : Nat)
    (log : List OEvent) (hb : 30 ≤ bps) : fixed_lpc stale c xs bps baseline log = none := by
  unfold fixed_lpc
  have : ¬ bps < 30 := by omega
  simp [req_apply, this]

/-! ### `estimated_qlpc` -/

theorem mapM_length {α β : Type} (f : α → Option β) : ∀ (l : List α) (ys : List β), l.mapM f = some ys → ys.length = l.length
  | [], ys, h => by simp at h; subst h; rfl
  | x :: xs, ys, h => by
    simp only [List.mapM_cons, Option.pure_def, Option.bind_eq_bind, Option.bind_eq_some_iff] at h
    obtain ⟨y, _, ys', h2, h3⟩ := h
    simp only [Option.some.injEq] at h3
    subst h3
    simp [mapM_length f xs ys' h2]

/-- A successful parameter search implies that the warm-up fits the block (`finest_partition_order` would underflow). -/
theorem search_some_le (es : List Int) (warm maxP : Nat) (prc : PrcParameter) (h : search es warm maxP = some prc) :
    max 64 warm ≤ es.length := by
  unfold search at h
  simp only [Option.bind_eq_bind, Option.bind_eq_some_iff] at h
  obtain ⟨fs, hfs, h⟩ := h
  have hl := mapM_length _ _ _ hfs
  unfold searchFolded at h
  simp only [Option.bind_eq_bind, Option.bind_eq_some_iff] at h
  obtain ⟨o, ho, _⟩ := h
  unfold finestOrder at ho
  split at ho
  · cases ho
  · simp only [] at ho
    split at ho
    · cases ho
    · rename_i h1 h2
      have : fs.length / max 64 warm ≠ 0 := by
        intro h0; apply h2; rw [h0]; rfl
      have hpos : 0 < fs.length / max 64 warm := Nat.pos_of_ne_zero this
      have := (Nat.div_pos_iff.mp hpos).2
      omega

theorem vecResize_length {α : Type} (v : List α) (n : Nat) (x : α) : (vecResize v n x).length = n := by
  unfold vecResize
  simp only [List.length_append, List.length_take, List.length_replicate]
  omega

/-- The model's capacity of the LPC warm-up vector is the constant generated from constant.rs (`qlpc::MAX_ORDER`): a
changed constant breaks this proof. -/
theorem maxLpcOrder_gen : maxLpcOrder = Gen.Const.qlpc_MAX_ORDER := rfl

/-- **`estimated_qlpc`** = `lpcCandidate`, for ALL arguments: no hypothesis is left.  The capacity of the warm-up vector
(`expect("LPC order exceeded the maximum")`, `qlpc::MAX_ORDER = 24`) is a panic site of the hand model as well
(`maxLpcOrder`, `maxLpcOrder_gen`), at the same point — after `encode_residual` has returned; `estimated_qlpc_capacity`
shows it.  The slice bound `signal[0..order]` needs no hypothesis: a successful parameter search implies it. -/
theorem C09G_estimated_qlpc (stale : List Int) (c : Gen.SubFrameCoding) (xs : List Int) (bps : Nat) (log : List OEvent) :
    estimated_qlpc stale c xs bps log = lpcCandidate (subCfgOf c) xs bps log := by
  unfold estimated_qlpc lpcCandidate
  match log with
  | [] => rfl
  | .est _ _ :: _ => rfl
  | .qlpc cs sh pr :: l =>
    simp only [bindM_apply, oracleQlpc, Option.bind_some, req_apply, vecResize_length, Nat.le_refl, decide_true, if_true,
      liftO_apply]
    cases hce : computeError cs sh.toNat xs with
    | none => rfl
    | some r =>
      obtain ⟨errors, flag⟩ := r
      have hel := (computeError_fits cs sh.toNat xs errors hce).1
      simp only [Option.map_some, Option.bind_some, boolThenM]
      cases flag with
      | false => rfl
      | true =>
        simp only [if_true, bindM_apply, C09G_encode_residual, subCfgOf]
        cases her : encodeResidual c.prc.max_parameter errors cs.length with
        | none => rfl
        | some res =>
          have hle : cs.length ≤ xs.length := by
            unfold encodeResidual at her
            simp only [Option.bind_eq_bind, Option.bind_eq_some_iff] at her
            obtain ⟨prc, hs, _⟩ := her
            rw [← hel]; exact Nat.le_trans (Nat.le_max_right _ _) (search_some_le _ _ _ _ hs)
          by_cases h24 : cs.length ≤ maxLpcOrder
          · have h24' : cs.length ≤ Gen.Const.qlpc_MAX_ORDER := maxLpcOrder_gen ▸ h24
            simp [optTry, pureM_apply, req_apply, hle, h24, h24', List.length_take, Nat.min_eq_left hle]
          · have h24' : ¬ cs.length ≤ Gen.Const.qlpc_MAX_ORDER := maxLpcOrder_gen ▸ h24
            simp [optTry, pureM_apply, req_apply, hle, h24, h24', List.length_take, Nat.min_eq_left hle]

/-! ### `encode_subframe` -/

/-- `.filter(|x| x.count_bits() < limit)`: equals `keepBelow` unless `count_bits` panics (usize underflow), where the hand
model silently drops the candidate. -/
theorem filter_count (so : Option SubFrame) (limit : Nat) (l : List OEvent) (h : ∀ s, so = some s → s.count ≠ none) :
    optFilterM so (fun x => bindM (liftO (SubFrame.count x)) fun t => pureM (decide (t < limit))) l =
      some (keepBelow limit so, l) := by
  cases so with
  | none => rfl
  | some s =>
    cases hc : s.count with
    | none => exact absurd hc (h s rfl)
    | some n =>
      simp only [optFilterM, bindM_apply, liftO_apply, hc, Option.map_some, Option.bind_some, pureM_apply, keepBelow,
        Option.filter]

theorem mapOr_count (so : Option SubFrame) (baseline : Nat) (l : List OEvent) (h : ∀ s, so = some s → s.count ≠ none) :
    optMapOrM so baseline (fun x => bindM (liftO (SubFrame.count x)) fun t => pureM (min baseline t)) l =
      some (baselineAfter baseline so, l) := by
  cases so with
  | none => rfl
  | some s =>
    cases hc : s.count with
    | none => exact absurd hc (h s rfl)
    | some n =>
      simp only [optMapOrM, bindM_apply, liftO_apply, hc, Option.map_some, Option.bind_some, pureM_apply, baselineAfter]

theorem getD_zero_eq_headD (xs : List Int) : xs.getD 0 0 = xs.headD 0 := by cases xs <;> rfl

/-- **`encode_subframe`** (generated from coding.rs) = `encodeSubframe` (the hand model C09 / C01 / C07 are proved about), for
all arguments outside the panic sites the hand model does not have:
* `hne`  `samples[0]` of the constant branch (`is_constant` of an empty slice is `true`; the model takes `headD 0`);
* `hvb`  `usize` overflow of `Verbatim::count_bits_from_metadata`;
* `hb`   the `assert!(bits_per_sample < 30)` of `fixed_lpc`;
* `hmo`  `max_order + 1`; `hov` the keys of the order selection (`SelectFits`);
* `hcf`, `hcl`  `count_bits()` of a candidate must not underflow (the model's `keepBelow` drops such a candidate). -/
theorem C09G_encode_subframe (s1 : List (List Int)) (s2 : List Int) (c : Gen.SubFrameCoding) (xs : List Int) (bps : Nat)
    (log : List OEvent)
    (hne : (c.use_constant && isConstant xs) = true → xs ≠ [])
    (hvb : 8 + xs.length * bps < 2 ^ 64)
    (hb : c.use_fixed = true → 64 ≤ xs.length → bps < 30)
    (hmo : c.fixed.max_order + 1 < 2 ^ 64)
    (hov : SelectFits c xs bps log)
    (hcf : ∀ b l s l', fixedCandidate (subCfgOf c) xs bps b l = some (some s, l') → s.count ≠ none)
    (hcl : ∀ l s l', lpcCandidate (subCfgOf c) xs bps l = some (some s, l') → s.count ≠ none) :
    encode_subframe s1 s2 c xs bps log = encodeSubframe (subCfgOf c) xs bps log := by
  unfold encode_subframe encodeSubframe
  by_cases hc : (c.use_constant && isConstant xs) = true
  · have hc' : ((subCfgOf c).useConstant && isConstant xs) = true := hc
    have hne' := hne hc
    rw [Bool.and_eq_true] at hc
    have hpos : 0 < xs.length := List.length_pos_iff.2 hne'
    rw [if_pos hc']
    simp only [hc, and_self, if_true, req_apply, hpos, decide_true, pureM_apply, getD_zero_eq_headD]
  · have hc' : ¬ (((subCfgOf c).useConstant && isConstant xs) = true) := hc
    rw [Bool.and_eq_true] at hc
    rw [if_neg hc, if_neg hc']
    have hex : Gen.Writer.Verbatim.count_bits_from_metadata_exact xs.length bps = true := by
      have h1 : xs.length * bps < 18446744073709551616 := by omega
      have h2 : 8 + xs.length * bps < 18446744073709551616 := hvb
      simp [Gen.Writer.Verbatim.count_bits_from_metadata_exact, h1, h2]
    have hbl : Gen.Writer.Verbatim.count_bits_from_metadata xs.length bps = verbatimBits xs.length bps := rfl
    have h64 : Gen.Const.MIN_BLOCK_SIZE_FOR_PREDICTION = minBlockForPrediction := rfl
    simp only [req_apply, hex, if_true, hbl, h64, bindM_apply]
    -- the fixed stage
    have hfix : (if (¬ (decide (xs.length < minBlockForPrediction) = true) ∧ c.use_fixed = true) then
          bindM (fixed_lpc s1 c xs bps (verbatimBits xs.length bps)) fun t1 =>
            optFilterM t1 fun x => bindM (liftO (SubFrame.count x)) fun t2 => pureM (decide (t2 < verbatimBits xs.length bps))
        else pureM none) log = fixedStage (subCfgOf c) xs bps (verbatimBits xs.length bps) log := by
      unfold fixedStage
      by_cases hcond : ¬ (decide (xs.length < minBlockForPrediction) = true) ∧ c.use_fixed = true
      · have hcond' : (!decide (xs.length < minBlockForPrediction) && (subCfgOf c).useFixed) = true := by
          simp only [subCfgOf, Bool.and_eq_true, Bool.not_eq_true', hcond.2, and_true]
          simpa using hcond.1
        rw [if_pos hcond, if_pos hcond']
        have hl64 : 64 ≤ xs.length := by
          have := hcond.1
          rw [Bool.not_eq_true, decide_eq_false_iff_not] at this
          unfold minBlockForPrediction at this
          omega
        rw [bindM_apply, C09G_fixed_lpc s1 c xs bps _ log (hb hcond.2 hl64) hmo (by omega) hov]
        cases hfc : fixedCandidate (subCfgOf c) xs bps (verbatimBits xs.length bps) log with
        | none => rfl
        | some r =>
          obtain ⟨so, l1⟩ := r
          simp only [Option.bind_some, Option.map_some]
          exact filter_count so _ l1 (fun s hs => hcf _ _ s l1 (hs ▸ hfc))
      · have hcond' : ¬ ((!decide (xs.length < minBlockForPrediction) && (subCfgOf c).useFixed) = true) := by
          intro h
          apply hcond
          simp only [subCfgOf, Bool.and_eq_true, Bool.not_eq_true'] at h
          exact ⟨by simpa using h.1, h.2⟩
        rw [if_neg hcond, if_neg hcond']
        rfl
    rw [hfix]
    cases hfs : fixedStage (subCfgOf c) xs bps (verbatimBits xs.length bps) log with
    | none => rfl
    | some r =>
      obtain ⟨fixed, l1⟩ := r
      have hfc : ∀ s, fixed = some s → s.count ≠ none := by
        intro s hs
        unfold fixedStage at hfs
        split at hfs
        · simp only [Option.map_eq_some_iff, Prod.mk.injEq] at hfs
          obtain ⟨⟨c0, l0⟩, h0, hk, rfl⟩ := hfs
          rw [hs] at hk
          have := keepBelow_some _ _ _ hk
          subst this
          exact hcf _ _ s l0 h0
        · simp only [Option.some.injEq, Prod.mk.injEq] at hfs
          rw [← hfs.1] at hs
          cases hs
      simp only [Option.bind_some, mapOr_count fixed _ l1 hfc]
      -- the LPC stage
      have hlpc : (if (¬ (decide (xs.length < minBlockForPrediction) = true) ∧ c.use_lpc = true) then
            bindM (estimated_qlpc s2 c xs bps) fun t8 =>
              optFilterM t8 fun candidate => bindM (liftO (SubFrame.count candidate)) fun t9 =>
                pureM (decide (t9 < baselineAfter (verbatimBits xs.length bps) fixed))
          else pureM none) l1 =
          lpcStage (subCfgOf c) xs bps (baselineAfter (verbatimBits xs.length bps) fixed) l1 := by
        unfold lpcStage
        by_cases hcond : ¬ (decide (xs.length < minBlockForPrediction) = true) ∧ c.use_lpc = true
        · have hcond' : (!decide (xs.length < minBlockForPrediction) && (subCfgOf c).useLpc) = true := by
            simp only [subCfgOf, Bool.and_eq_true, Bool.not_eq_true', hcond.2, and_true]
            simpa using hcond.1
          rw [if_pos hcond, if_pos hcond']
          rw [bindM_apply, C09G_estimated_qlpc s2 c xs bps l1]
          cases hlc : lpcCandidate (subCfgOf c) xs bps l1 with
          | none => rfl
          | some r =>
            obtain ⟨so, l2⟩ := r
            simp only [Option.bind_some, Option.map_some]
            exact filter_count so _ l2 (fun s hs => hcl _ s l2 (hs ▸ hlc))
        · have hcond' : ¬ ((!decide (xs.length < minBlockForPrediction) && (subCfgOf c).useLpc) = true) := by
            intro h
            apply hcond
            simp only [subCfgOf, Bool.and_eq_true, Bool.not_eq_true'] at h
            exact ⟨by simpa using h.1, h.2⟩
          rw [if_neg hcond, if_neg hcond']
          rfl
      rw [hlpc]
      cases lpcStage (subCfgOf c) xs bps (baselineAfter (verbatimBits xs.length bps) fixed) l1 with
      | none => rfl
      | some r => rfl

/-! ### valid inputs: none of the excluded panic sites is reached -/

theorem search_codeBits_le (es : List Int) (warm maxP : Nat) (p : PrcParameter)
    (hsig : ∀ v ∈ es, -(2 ^ 31 : Int) < v ∧ v < (2 ^ 31 : Int)) (hlen : es.length < 2 ^ 16)
    (h : search es warm maxP = some p) : p.codeBits ≤ 2 ^ 28 - 1 := by
  have hn := search_some_le es warm maxP p h
  rw [RiceSearch.search_eq es warm maxP hsig] at h
  obtain ⟨ofin, r, hr, _, _, hle⟩ := RiceSearch.searchFolded_spec (es.map fold) warm maxP
    (by rw [List.length_map]; exact hn) (by rw [List.length_map]; exact hlen)
  rw [hr] at h
  cases h
  have := hle 0 (Nat.zero_le _)
  rw [RiceSearch.bitsAt_eq] at this
  simp only [Nat.pow_zero, List.range_one, List.map_cons, List.map_nil, List.sum_cons, List.sum_nil, Nat.add_zero] at this
  exact Nat.le_trans this (RiceSearch.sat_le_max _)

/-- The fixed candidates of a valid block have a `count_bits`. -/
theorem fixedCandidate_count (cfg : SubCfg) (xs : List Int) (bps b : Nat) (l l' : List OEvent) (s : SubFrame)
    (hlen : xs.length < 2 ^ 16) (hb : 1 ≤ bps ∧ bps ≤ 25) (hx : ∀ x ∈ xs, SubFrame.inRange bps x = true)
    (hmax : cfg.maxP ≤ 14) (h : fixedCandidate cfg xs bps b l = some (some s, l')) : s.count ≠ none := by
  obtain ⟨k, prc, hk, hs, rfl⟩ := (fixedCandidate_shape cfg xs bps b l l' (some s) h).2 s rfl
  have h64 := search_some_le _ _ _ _ hs
  by_cases hkl : k ≤ xs.length
  · obtain ⟨hdl, hdr, _⟩ := diffs_fixed bps hb xs hx k hk hkl
    rw [hdl] at h64
    have hwf := residual_wf_of_search (diffs k xs) k cfg.maxP prc (fits_of_range _ hdr) (by rw [hdl]; exact h64)
      (by rw [hdl]; exact hlen) hmax hs
    simp [SubFrame.count, C08_residual _ hwf]
  · exfalso
    have := Scratch.diffs_length k xs
    omega

/-- The LPC candidates of a valid block have a `count_bits`. -/
theorem lpcCandidate_count (cfg : SubCfg) (xs : List Int) (bps : Nat) (l l' : List OEvent) (s : SubFrame)
    (hlen : xs.length < 2 ^ 16) (hmax : cfg.maxP ≤ 14) (h : lpcCandidate cfg xs bps l = some (some s, l')) :
    s.count ≠ none := by
  unfold lpcCandidate at h
  split at h
  · rename_i coefs shift precision log'
    simp only [Option.bind_eq_some_iff] at h
    obtain ⟨⟨errors, fits⟩, he, h⟩ := h
    cases fits with
    | false => simp at h
    | true =>
      simp only [if_true, Option.bind_eq_some_iff] at h
      obtain ⟨res, hres, h⟩ := h
      split at h
      case isFalse => cases h
      simp only [Option.some.injEq, Prod.mk.injEq] at h
      obtain ⟨rfl, _⟩ := h
      unfold encodeResidual at hres
      simp only [Option.bind_eq_bind, Option.bind_eq_some_iff, Option.some.injEq] at hres
      obtain ⟨prc, hs, rfl⟩ := hres
      obtain ⟨hel, hef⟩ := computeError_fits coefs shift.toNat xs errors he
      have hwf := residual_wf_of_search errors coefs.length cfg.maxP prc hef (search_some_le _ _ _ _ hs)
        (by rw [hel]; exact hlen) hmax hs
      simp [SubFrame.count, C08_residual _ hwf]
  · cases h

/-- **`encode_subframe` = `encodeSubframe` on valid inputs**: a block of `1 ≤ n < 2^16` samples of `1 ≤ bps ≤ 25` bits, a
Rice parameter limit `≤ 14`, an oracle whose entropy estimates are below `2^63` — the domain of C09 / C01Strict / C07Total
(nothing is asked of the parameter sets: beyond 24 coefficients both sides panic). -/
theorem C09G_encode_subframe_valid (s1 : List (List Int)) (s2 : List Int) (c : Gen.SubFrameCoding) (xs : List Int)
    (bps : Nat) (log : List OEvent)
    (hn : 1 ≤ xs.length) (hlen : xs.length < 2 ^ 16) (hb : 1 ≤ bps ∧ bps ≤ 25)
    (hx : ∀ x ∈ xs, SubFrame.inRange bps x = true) (hmax : c.prc.max_parameter ≤ 14)
    (hmo : c.fixed.max_order + 1 < 2 ^ 64)
    (hest : ∀ o b, OEvent.est o b ∈ log → b < 2 ^ 63) :
    encode_subframe s1 s2 c xs bps log = encodeSubframe (subCfgOf c) xs bps log := by
  apply C09G_encode_subframe s1 s2 c xs bps log
  · intro _ h; rw [h] at hn; simp at hn
  · have : xs.length * bps ≤ 2 ^ 16 * 25 := Nat.mul_le_mul (by omega) hb.2
    omega
  · intro _ _; omega
  · exact hmo
  · unfold SelectFits
    split
    · intro k hk p hs
      have h64 := search_some_le _ _ _ _ hs
      have hdl0 := Scratch.diffs_length k xs
      obtain ⟨hdl, hdr, _⟩ := diffs_fixed bps hb xs hx k (by omega) (by omega)
      have := search_codeBits_le _ _ _ p hdr (by rw [hdl]; exact hlen) hs
      have : bps * k ≤ 25 * 4 := Nat.mul_le_mul hb.2 (by omega)
      omega
    · intro i hi o b hl
      have := hest o b (List.mem_of_getElem? hl)
      have : bps * i ≤ 25 * 4 := Nat.mul_le_mul hb.2 (by omega)
      omega
  · intro b l s l' h
    exact fixedCandidate_count _ xs bps b l l' s hlen hb hx hmax h
  · intro l s l' h
    exact lpcCandidate_count _ xs bps l l' s hlen hmax h

/-! ### examples and the excluded points -/

/-- the default configuration (`OrderSel::ApproxEnt`), and the same with `OrderSel::BitCount` -/
def cfgDefault : Gen.SubFrameCoding := Gen.SubFrameCoding.default true
def cfgBitCount : Gen.SubFrameCoding := { cfgDefault with fixed := { cfgDefault.fixed with order_sel := .BitCount } }

/-- an oracle log for one sub-frame: five entropy estimates, then a quantised parameter set of order 2 -/
def log64 : List OEvent := [.est 0 300, .est 1 280, .est 2 280, .est 3 310, .est 4 330, .qlpc [3, -1] 1 4]

example : select_order_and_encode_residual .BitCount ⟨14⟩ ((List.range 5).map fun k => (k, diffs k sig64)) 16 1032 log64 =
    (bitCands (fun k => diffs k sig64) 14 16 5).map fun cands =>
      ((firstMinBy (fun c => c.2.2) cands).bind fun c =>
        if c.2.2 < 1032 then some (c.1, Residual.ofErrors (diffs c.1 sig64) c.1 c.2.1.order c.2.1.ps) else none, log64) :=
  C09G_select_bitCount ⟨14⟩ _ 16 1032 5 log64 (fun k hk p hs => by
    have hx : ∀ x ∈ sig64, SubFrame.inRange 16 x = true := by decide
    have h64 : sig64.length = 64 := by decide
    obtain ⟨hdl, hdr, _⟩ := diffs_fixed 16 (by decide) sig64 hx k (by omega) (by omega)
    have := search_codeBits_le _ _ _ p hdr (by rw [hdl]; decide) hs
    have : 16 * k ≤ 16 * 4 := Nat.mul_le_mul (Nat.le_refl _) (by omega)
    omega)

example : fixed_lpc [] cfgDefault sig64 16 1032 log64 = fixedCandidate (subCfgOf cfgDefault) sig64 16 1032 log64 :=
  C09G_fixed_lpc [] cfgDefault sig64 16 1032 log64 (by decide) (by decide) (by decide) (by
    unfold SelectFits
    show ∀ i, i < 5 → ∀ o b, log64[i]? = some (.est o b) → b + 16 * i < 2 ^ 64
    intro i hi o b h
    have : i = 0 ∨ i = 1 ∨ i = 2 ∨ i = 3 ∨ i = 4 := by omega
    rcases this with rfl | rfl | rfl | rfl | rfl <;> (simp [log64] at h; omega))

example : estimated_qlpc [7, 7, 7] cfgDefault sig64 16 (log64.drop 5) =
    lpcCandidate (subCfgOf cfgDefault) sig64 16 (log64.drop 5) :=
  C09G_estimated_qlpc _ cfgDefault sig64 16 _

theorem sig64_valid : (1 ≤ sig64.length ∧ sig64.length < 2 ^ 16) ∧ ∀ x ∈ sig64, SubFrame.inRange 16 x = true := by decide

example : encode_subframe [] [1, 2, 3] cfgDefault sig64 16 log64 = encodeSubframe (subCfgOf cfgDefault) sig64 16 log64 :=
  C09G_encode_subframe_valid _ _ cfgDefault sig64 16 log64 sig64_valid.1.1 sig64_valid.1.2 (by decide) sig64_valid.2
    (by decide) (by decide)
    (by intro o b h; simp [log64] at h; omega)

example : encode_subframe [] [] cfgBitCount sig64 16 (log64.drop 5) =
    encodeSubframe (subCfgOf cfgBitCount) sig64 16 (log64.drop 5) :=
  C09G_encode_subframe_valid _ _ cfgBitCount sig64 16 _ sig64_valid.1.1 sig64_valid.1.2 (by decide) sig64_valid.2
    (by decide) (by decide)
    (by intro o b h; simp [log64] at h)

/-- Excluded point `hne`: `is_constant` of an empty slice is `true`, then `samples[0]` panics; the hand model returns a
constant sub-frame of block size 0. (Never reached: `encode_fixed_size_frame` rejects an empty frame buffer.) -/
theorem encode_subframe_panics_empty (s1 : List (List Int)) (s2 : List Int) (c : Gen.SubFrameCoding) (bps : Nat)
    (log : List OEvent) (h : c.use_constant = true) :
    encode_subframe s1 s2 c [] bps log = none ∧
      encodeSubframe (subCfgOf c) [] bps log = some (.constant 0 0 bps, log) := by
  constructor
  · unfold encode_subframe
    simp [h, isConstant, req_apply]
  · unfold encodeSubframe
    have : (subCfgOf c).useConstant = true := h
    simp [this, isConstant]

/-- The capacity of the LPC warm-up vector, a panic site of BOTH sides: a parameter set of more than 24 coefficients whose
error signal `compute_error` accepts panics — in `encode_residual`, or else at `expect("LPC order exceeded the maximum")` —
in the generated code and in the hand model (`maxLpcOrder`).  `OEvent.Ok` (at most 24 coefficients) excludes it. -/
theorem estimated_qlpc_capacity (stale : List Int) (c : Gen.SubFrameCoding) (xs : List Int) (bps : Nat) (l : List OEvent)
    (cs : List Int) (sh : Int) (pr : Nat) (errors : List Int) (h25 : 24 < cs.length)
    (hce : computeError cs sh.toNat xs = some (errors, true)) :
    estimated_qlpc stale c xs bps (.qlpc cs sh pr :: l) = none ∧
      lpcCandidate (subCfgOf c) xs bps (.qlpc cs sh pr :: l) = none := by
  have hm : lpcCandidate (subCfgOf c) xs bps (.qlpc cs sh pr :: l) = none := by
    have h1 : ¬ cs.length ≤ maxLpcOrder := by unfold maxLpcOrder; omega
    simp [lpcCandidate, hce, h1]
  exact ⟨(C09G_estimated_qlpc stale c xs bps _).trans hm, hm⟩

/-- … and without an encodable residual (`compute_error` reports a value outside the FLAC range) the same parameter set is
dropped before that site is reached, on both sides. -/
theorem estimated_qlpc_dropped (stale : List Int) (c : Gen.SubFrameCoding) (xs : List Int) (bps : Nat) (l : List OEvent)
    (cs : List Int) (sh : Int) (pr : Nat) (errors : List Int)
    (hce : computeError cs sh.toNat xs = some (errors, false)) :
    estimated_qlpc stale c xs bps (.qlpc cs sh pr :: l) = some (none, l) ∧
      lpcCandidate (subCfgOf c) xs bps (.qlpc cs sh pr :: l) = some (none, l) := by
  have hm : lpcCandidate (subCfgOf c) xs bps (.qlpc cs sh pr :: l) = some (none, l) := by
    simp [lpcCandidate, hce]
  exact ⟨(C09G_estimated_qlpc stale c xs bps _).trans hm, hm⟩

/-! ### frame level: `encode_frame_impl` -/

/-- the filled part of channel `ch` of a frame buffer (`FrameBuf::channel_slice`) -/
def chanOf (fb : FrameBuf) (ch : Nat) : List Int := (fb.samples.drop (ch * fb.size)).take fb.filled_size

/-- the planar view of a frame buffer of `n` channels: what the hand model takes as `chans` -/
def chansOf (fb : FrameBuf) (n : Nat) : List (List Int) := (List.range n).map (chanOf fb)

/-- a frame buffer that holds `n` channels (the Rust invariant `samples.len() = size * channels`, `filled_size ≤ size`) -/
def FbOk (fb : FrameBuf) (n : Nat) : Prop :=
  n * fb.size ≤ fb.samples.length ∧ fb.filled_size ≤ fb.size ∧ fb.samples.length < 2 ^ 64

instance (fb : FrameBuf) (n : Nat) : Decidable (FbOk fb n) := by unfold FbOk; infer_instance

theorem chanOf_length (fb : FrameBuf) (n ch : Nat) (h : FbOk fb n) (hch : ch < n) : (chanOf fb ch).length = fb.filled_size := by
  obtain ⟨h1, h2, _⟩ := h
  unfold chanOf
  rw [List.length_take, List.length_drop]
  have : (ch + 1) * fb.size ≤ n * fb.size := Nat.mul_le_mul_right _ hch
  rw [Nat.add_mul] at this
  omega

theorem channel_slice_eq (fb : FrameBuf) (n ch : Nat) (h : FbOk fb n) (hch : ch < n) (log : List OEvent) :
    FrameBuf.channel_slice fb ch log = some (chanOf fb ch, log) := by
  obtain ⟨h1, h2, h3⟩ := h
  have : (ch + 1) * fb.size ≤ n * fb.size := Nat.mul_le_mul_right _ hch
  rw [Nat.add_mul] at this
  have ha : ch * fb.size < 18446744073709551616 := by omega
  have hb : ch * fb.size + fb.filled_size < 18446744073709551616 := by omega
  have hc : ch * fb.size + fb.filled_size ≤ fb.samples.length := by omega
  simp [FrameBuf.channel_slice, req_apply, pureM_apply, ha, hb, hc, chanOf]

/-- the oracle log as far as the generated code constrains it beyond the hand model: entropy estimates below `2^63` (the
`usize` sum of the selection key).  (Parameter sets of more than 24 coefficients — the capacity of the LPC warm-up vector —
need not be excluded: the hand model panics there as well.) -/
def LogFits (log : List OEvent) : Prop :=
  ∀ o b, OEvent.est o b ∈ log → b < 2 ^ 63

theorem LogFits.sub {l l' : List OEvent} (h : LogFits l) (hs : ∀ e ∈ l', e ∈ l) : LogFits l' :=
  fun o b hm => h o b (hs _ hm)

theorem add_subframe_apply (frame : Gen.Writer.Frame) (sf : SubFrame) (log : List OEvent)
    (h : frame.subframes.length + 1 ≤ 8) :
    Frame.add_subframe frame sf log =
      some ({ frame with precomputed_bitstream := none, subframes := frame.subframes ++ [sf] }, log) := by
  have h8 : Gen.Const.MAX_CHANNELS = 8 := by decide
  simp [Frame.add_subframe, req_apply, pureM_apply, h8, h]

/-- the per-channel loop of `encode_frame_impl` = `encodeChannels` (valid channels of `n` samples each) -/
theorem forMS_channels (s1 : List (List Int)) (s2 : List Int) (c : Gen.Encoder) (fb : FrameBuf)
    (asg : Gen.Headers.ChannelAssignment) (bps n N : Nat) (hn : 1 ≤ n ∧ n < 2 ^ 16) (hfb : FbOk fb N)
    (hfill : fb.filled_size = n) (hmax : c.subframe_coding.prc.max_parameter ≤ 14)
    (hmo : c.subframe_coding.fixed.max_order + 1 < 2 ^ 64) :
    ∀ (k s : Nat) (frame : Gen.Writer.Frame) (log : List OEvent),
      s + k ≤ N → frame.subframes.length + k ≤ 8 → frame.precomputed_bitstream = none →
      (∀ ch, s ≤ ch → ch < s + k → 1 ≤ bps + (C02Hdr.caOfGen asg).bpsOffset ch ∧ bps + (C02Hdr.caOfGen asg).bpsOffset ch ≤ 25 ∧
        ∀ x ∈ chanOf fb ch, SubFrame.inRange (bps + (C02Hdr.caOfGen asg).bpsOffset ch) x = true) →
      LogFits log →
      forMS (List.range' s k) frame (fun ch frame =>
          bindM (FrameBuf.channel_slice fb ch) fun t8 =>
          req (decide (bps + (Gen.Headers.ChannelAssignment.bits_per_sample_offset asg ch) < 18446744073709551616)) <|
          bindM (encode_subframe s1 s2 c.subframe_coding t8
            ((bps + (Gen.Headers.ChannelAssignment.bits_per_sample_offset asg ch)) % 256)) fun t11 =>
          Frame.add_subframe frame t11) log =
        (encodeChannels (subCfgOf c.subframe_coding) (C02Hdr.caOfGen asg) bps ((List.range' s k).map (chanOf fb)) s log).map
          fun r => ({ frame with subframes := frame.subframes ++ r.1 }, r.2) := by
  intro k
  induction k with
  | zero =>
    intro s frame log _ _ _ _ _
    simp [forMS, pureM_apply, encodeChannels]
  | succ k ih =>
    intro s frame log hsN hcap hpre hok hlog
    have hoff : Gen.Headers.ChannelAssignment.bits_per_sample_offset asg s = (C02Hdr.caOfGen asg).bpsOffset s := by
      rw [C02Hdr.C02H_channel_bpsOffset, C02Hdr.caToGen_ofGen]
    obtain ⟨hb1, hb25, hx⟩ := hok s (Nat.le_refl _) (by omega)
    have hlen := chanOf_length fb N s hfb (by omega)
    have h1 : bps + (C02Hdr.caOfGen asg).bpsOffset s < 18446744073709551616 := by omega
    have h2 : (bps + (C02Hdr.caOfGen asg).bpsOffset s) % 256 = bps + (C02Hdr.caOfGen asg).bpsOffset s := Nat.mod_eq_of_lt (by omega)
    simp only [List.range'_succ, List.map_cons, forMS, encodeChannels, bindM_apply, channel_slice_eq fb N s hfb (by omega),
      Option.bind_some, hoff, req_apply, h1, decide_true, if_true, h2]
    rw [C09G_encode_subframe_valid s1 s2 c.subframe_coding (chanOf fb s) _ log (by omega) (by omega) ⟨hb1, hb25⟩ hx hmax hmo
      hlog]
    cases hes : encodeSubframe (subCfgOf c.subframe_coding) (chanOf fb s) (bps + (C02Hdr.caOfGen asg).bpsOffset s) log with
    | none => rfl
    | some r =>
      obtain ⟨sf, l1⟩ := r
      have hsub := encodeSubframe_sub _ _ _ _ _ _ hes
      have hcap' : frame.subframes.length + 1 ≤ 8 := by omega
      simp only [Option.bind_some, Option.bind_eq_bind]
      rw [add_subframe_apply _ _ _ hcap']
      simp only [Option.bind_some]
      have := ih (s + 1) { frame with precomputed_bitstream := none, subframes := frame.subframes ++ [sf] } l1 (by omega)
        (by simp; omega) rfl (fun ch h1 h2 => hok ch (by omega) (by omega)) (hlog.sub hsub)
      rw [this]
      cases encodeChannels (subCfgOf c.subframe_coding) (C02Hdr.caOfGen asg) bps ((List.range' (s + 1) k).map (chanOf fb)) (s + 1) l1 with
      | none => rfl
      | some r2 => simp [hpre]

/-- the header `encode_frame_impl` builds: `Frame::new_empty(..)` then `set_frame_offset(FrameOffset::StartSample(offset))` -/
def implHeader (fb : FrameBuf) (info : StreamInfo) (asg : Gen.Headers.ChannelAssignment) (offset : Nat) :
    Gen.Writer.FrameHeader :=
  Gen.Verify.FrameHeader.set_frame_offset
    (FrameHeader.from_specs (Gen.Headers.BlockSizeSpec.from_size (fb.filled_size % 65536)) asg
      ((Gen.Headers.SampleSizeSpec.from_bits (info.bps % 256)).getD .Unspecified)
      ((Gen.Headers.SampleRateSpec.from_freq (info.rate % 4294967296)).getD .Unspecified))
    (.StartSample offset)

/-- **`encode_frame_impl`** = the per-channel loop `encodeChannels` of the hand model (sub-frame `ch` is coded at
`bits_per_sample + bits_per_sample_offset(ch)` bits) under the header `implHeader`, for a frame buffer of
`stream_info.channels() ≤ 8` valid channels of `1 ≤ n < 2^16` samples. -/
theorem C09G_encode_frame_impl (s1 : List (List Int)) (s2 : List Int) (c : Gen.Encoder) (fb : FrameBuf) (offset : Nat)
    (info : StreamInfo) (asg : Gen.Headers.ChannelAssignment) (log : List OEvent)
    (hn : 1 ≤ fb.filled_size ∧ fb.filled_size < 2 ^ 16) (hfb : FbOk fb info.channels) (hch : info.channels ≤ 8)
    (hmax : c.subframe_coding.prc.max_parameter ≤ 14) (hmo : c.subframe_coding.fixed.max_order + 1 < 2 ^ 64)
    (hok : ∀ ch, ch < info.channels → 1 ≤ info.bps + (C02Hdr.caOfGen asg).bpsOffset ch ∧
      info.bps + (C02Hdr.caOfGen asg).bpsOffset ch ≤ 25 ∧
      ∀ x ∈ chanOf fb ch, SubFrame.inRange (info.bps + (C02Hdr.caOfGen asg).bpsOffset ch) x = true)
    (hlog : LogFits log) :
    encode_frame_impl s1 s2 c fb offset info asg log =
      (encodeChannels (subCfgOf c.subframe_coding) (C02Hdr.caOfGen asg) info.bps (chansOf fb info.channels) 0 log).map
        fun r => (⟨implHeader fb info asg offset, r.1, none⟩, r.2) := by
  unfold encode_frame_impl
  have hmod : fb.filled_size % 65536 = fb.filled_size := Nat.mod_eq_of_lt (by omega)
  have hex : Gen.Headers.BlockSizeSpec.from_size_exact (fb.filled_size % 65536) = true := by
    rw [hmod]
    exact (C02Hdr.C02H_blockSize_fromSize_exact _ (by omega)).2 (by omega)
  simp only [req_apply, hex, if_true, List.range_eq_range']
  rw [forMS_channels s1 s2 c fb asg info.bps fb.filled_size info.channels hn hfb rfl hmax hmo info.channels 0 _ log
    (by omega) (by simp [Frame.new_empty]; omega) (by simp [Frame.new_empty])
    (fun ch _ h2 => hok ch (by omega)) hlog]
  unfold chansOf
  rw [List.range_eq_range']
  cases encodeChannels (subCfgOf c.subframe_coding) (C02Hdr.caOfGen asg) info.bps
      ((List.range' 0 info.channels).map (chanOf fb)) 0 log with
  | none => rfl
  | some r => simp [Frame.new_empty, implHeader]

/-! ### frame level: `try_stereo_coding`, `encode_frame` -/

/-- the invariant of the `MSFRAMEBUF` storage: a buffer of two channels (`FrameBuf::new_stereo_buffer`, kept by `resize`) -/
def StereoBuf (fb : FrameBuf) : Prop := fb.size ≠ 0 ∧ fb.samples.length / fb.size = 2

instance (fb : FrameBuf) : Decidable (StereoBuf fb) := by unfold StereoBuf; infer_instance

theorem resize_apply (stale : FrameBuf) (n : Nat) (log : List OEvent) (h : StereoBuf stale) (hn : n * 2 < 2 ^ 64) :
    FrameBuf.resize stale n log =
      some ({ stale with size := n, samples := vecResize stale.samples (n * 2) 0 }, log) := by
  obtain ⟨h1, h2⟩ := h
  have hn' : n * 2 < 18446744073709551616 := hn
  simp [FrameBuf.resize, FrameBuf.channels, bindM_apply, req_apply, pureM_apply, h1, h2, hn']

theorem map_zip_eq_zipWith {α β γ : Type} (f : α → β → γ) (l : List α) (r : List β) :
    List.map (fun x => f x.fst x.snd) (l.zip r) = List.zipWith f l r := by
  induction l generalizing r with
  | nil => simp
  | cons a as ih => cases r with
    | nil => simp
    | cons b bs => simp [ih]

/-- the two sample-wise sums of `try_stereo_coding` do not overflow `i32` for samples of at most 31 bits -/
theorem mapMM_midSide (l r : List Int) (hl : ∀ x ∈ l, -(2 ^ 30 : Int) ≤ x ∧ x < 2 ^ 30) (hr : ∀ x ∈ r, -(2 ^ 30 : Int) ≤ x ∧ x < 2 ^ 30)
    (log : List OEvent) :
    mapMM (fun x4 : Int × Int =>
        req (decide ((-2147483648 : Int) ≤ ((x4.1 : Int) + x4.2) ∧ ((x4.1 : Int) + x4.2) < (2147483648 : Int)) &&
            decide ((-2147483648 : Int) ≤ ((x4.1 : Int) - x4.2) ∧ ((x4.1 : Int) - x4.2) < (2147483648 : Int))) <|
        pureM ((((x4.1 : Int) + x4.2) >>> 1), ((x4.1 : Int) - x4.2))) (List.zip l r) log =
      some (List.zipWith midSide l r, log) := by
  have hp := mapMM_pure (fun x4 : Int × Int =>
        req (decide ((-2147483648 : Int) ≤ ((x4.1 : Int) + x4.2) ∧ ((x4.1 : Int) + x4.2) < (2147483648 : Int)) &&
            decide ((-2147483648 : Int) ≤ ((x4.1 : Int) - x4.2) ∧ ((x4.1 : Int) - x4.2) < (2147483648 : Int))) <|
        pureM ((((x4.1 : Int) + x4.2) >>> 1), ((x4.1 : Int) - x4.2))) (fun x => some (midSide x.1 x.2)) (List.zip l r) (by
    intro x hx log
    have h1 := hl x.1 (List.of_mem_zip hx).1
    have h2 := hr x.2 (List.of_mem_zip hx).2
    have a : (-2147483648 : Int) ≤ x.1 + x.2 ∧ x.1 + x.2 < 2147483648 := by omega
    have b : (-2147483648 : Int) ≤ x.1 - x.2 ∧ x.1 - x.2 < 2147483648 := by omega
    simp only [req_apply, a, b, and_self, decide_true, Bool.and_self, if_true, pureM_apply, Option.map_some, midSide])
  rw [hp log]
  have : (List.zip l r).mapM (fun x => some (midSide x.1 x.2)) = some ((List.zip l r).map fun x => midSide x.1 x.2) := by
    generalize List.zip l r = z
    induction z with
    | nil => rfl
    | cons a as ih => simp [List.mapM_cons, ih]
  rw [this, Option.map_some, map_zip_eq_zipWith]

theorem fillStereo_spec (fb : FrameBuf) (it : List (Int × Int)) (hlen : fb.samples.length = 2 * fb.size)
    (hit : it.length ≤ fb.size) :
    (fillStereo fb it).filled_size = it.length ∧ (fillStereo fb it).size = fb.size ∧
      (fillStereo fb it).samples.length = 2 * fb.size ∧
      chanOf (fillStereo fb it) 0 = it.map (·.1) ∧ chanOf (fillStereo fb it) 1 = it.map (·.2) := by
  have hk : min it.length (min fb.size (fb.samples.length - fb.size)) = it.length := by omega
  have htk : it.take it.length = it := List.take_length
  refine ⟨?_, ?_, ?_, ?_, ?_⟩
  · simp [fillStereo, hk]
  · simp [fillStereo]
  · simp only [fillStereo, hk, htk, List.length_append, List.length_map, List.length_drop, List.length_take]
    omega
  · simp only [chanOf, fillStereo, hk, htk, Nat.zero_mul, List.drop_zero, List.append_assoc]
    rw [List.take_append_of_le_length (by simp)]
    exact List.take_of_length_le (by simp)
  · simp only [chanOf, fillStereo, hk, htk, Nat.one_mul]
    have h1 : (List.map (fun x => x.1) it ++ List.drop it.length (List.take fb.size fb.samples)).length = fb.size := by
      simp only [List.length_append, List.length_map, List.length_drop, List.length_take]
      omega
    rw [List.append_assoc (List.map (fun x => x.1) it ++ List.drop it.length (List.take fb.size fb.samples)),
      List.drop_append_of_le_length (by omega), List.drop_of_length_le (by omega), List.nil_append,
      List.take_append_of_le_length (by simp)]
    exact List.take_of_length_le (by simp)

/-- one iteration of the selection loop of `try_stereo_coding`, as generated -/
abbrev stereoStep (s24 : Nat × Gen.Headers.ChannelAssignment) (x23 : Gen.Headers.ChannelAssignment × Nat) :
    Nat × Gen.Headers.ChannelAssignment :=
  let ch_info := x23.1
  let bits := x23.2
  let min_bits := s24.1
  let min_ch_info := s24.2
  let t25 :=
    if (bits < min_bits) then
      let min_bits := bits
      let min_ch_info := ch_info
      (min_bits, min_ch_info)
    else (min_bits, min_ch_info)
  let min_bits := t25.1
  let min_ch_info := t25.2
  (min_bits, min_ch_info)

theorem stereo_fold_gen (bl br bm bs : Nat) : ∀ (combos : List (Option ChannelAssignment)) (best : ChannelAssignment),
    List.foldl stereoStep (stereoCost bl br bm bs best, C02Hdr.caToGen best)
        (List.filterMap id (combos.map (Option.map fun a => (C02Hdr.caToGen a, stereoCost bl br bm bs a)))) =
      (stereoCost bl br bm bs (combos.foldl (fun best c =>
          match c with
          | some a => if stereoCost bl br bm bs a < stereoCost bl br bm bs best then a else best
          | none => best) best),
       C02Hdr.caToGen (combos.foldl (fun best c =>
          match c with
          | some a => if stereoCost bl br bm bs a < stereoCost bl br bm bs best then a else best
          | none => best) best))
  | [], best => rfl
  | none :: cs, best => by
    simp only [List.map_cons, Option.map_none, List.filterMap_cons, id_eq, List.foldl_cons]
    exact stereo_fold_gen bl br bm bs cs best
  | some a :: cs, best => by
    simp only [List.map_cons, Option.map_some, List.filterMap_cons, id_eq, List.foldl_cons, stereoStep]
    by_cases h : stereoCost bl br bm bs a < stereoCost bl br bm bs best
    · simp only [h, if_true]
      exact stereo_fold_gen bl br bm bs cs a
    · simp only [h, if_false]
      exact stereo_fold_gen bl br bm bs cs best

/-- the selection loop of `try_stereo_coding` (start from left+right; a recombination replaces the current best only if
STRICTLY cheaper) = `chooseStereo`, together with the cost of the choice -/
theorem stereo_fold (st : Gen.StereoCoding) (bl br bm bs : Nat) :
    List.foldl stereoStep (bl + br, Gen.Headers.ChannelAssignment.Independent 2)
      (List.filterMap id [(if st.use_leftside then some (Gen.Headers.ChannelAssignment.LeftSide, (bl + bs)) else none),
        (if st.use_rightside then some (Gen.Headers.ChannelAssignment.RightSide, (br + bs)) else none),
        (if st.use_midside then some (Gen.Headers.ChannelAssignment.MidSide, (bm + bs)) else none)]) =
      (stereoCost bl br bm bs (chooseStereo (stereoCfgOf st) bl br bm bs),
        C02Hdr.caToGen (chooseStereo (stereoCfgOf st) bl br bm bs)) := by
  have := stereo_fold_gen bl br bm bs
    [if st.use_leftside then some .leftSide else none, if st.use_rightside then some .rightSide else none,
     if st.use_midside then some .midSide else none] (.independent 2)
  refine Eq.trans ?_ this
  obtain ⟨uL, uR, uM⟩ := st
  cases uL <;> cases uR <;> cases uM <;> rfl

theorem inRange_30 (b : Nat) (hb : 1 ≤ b ∧ b ≤ 24) (x : Int) (h : SubFrame.inRange b x = true) :
    -(2 ^ 30 : Int) ≤ x ∧ x < 2 ^ 30 := by
  rw [Strict.inRange_iff] at h
  have h1 : ((2 : Int) ^ (b - 1)) = ((2 ^ (b - 1) : Nat) : Int) := (Int.natCast_pow 2 (b - 1)).symm
  have h2 : (2 : Nat) ^ (b - 1) ≤ 2 ^ 23 := Nat.pow_le_pow_right (by decide) (by omega)
  rw [h1] at h
  omega

/-- **`try_stereo_coding`**: mid/side signals, their two sub-frames (`encodeChannels` under `MidSide`: the side channel is one
bit wider), the selection among left+right / left+side / right+side / mid+side (`chooseStereo`: strict `<`, in this order),
the recombined frame (`selectChannels`).  `sl`, `sr` are the sub-frames of the independent coding, with their sizes. -/
theorem C09G_try_stereo_coding (stale : FrameBuf) (s1 : List (List Int)) (s2 : List Int) (c : Gen.Encoder) (fb : FrameBuf)
    (hI : Gen.Writer.FrameHeader) (sl sr : SubFrame) (pre : Option (List Nat)) (offset : Nat) (info : StreamInfo)
    (log : List OEvent) (cl cr : Nat)
    (hst : StereoBuf stale) (hfb : FbOk fb 2) (hn : 1 ≤ fb.filled_size ∧ fb.filled_size < 2 ^ 16) (hch : info.channels = 2)
    (hb : 1 ≤ info.bps ∧ info.bps ≤ 24)
    (hx : ∀ ch, ch < 2 → ∀ x ∈ chanOf fb ch, SubFrame.inRange info.bps x = true)
    (hmax : c.subframe_coding.prc.max_parameter ≤ 14) (hmo : c.subframe_coding.fixed.max_order + 1 < 2 ^ 64)
    (hlog : LogFits log) (hcl : sl.count = some cl ∧ cl < 2 ^ 32) (hcr : sr.count = some cr ∧ cr < 2 ^ 32) :
    try_stereo_coding stale s1 s2 c fb ⟨hI, [sl, sr], pre⟩ offset info log =
      (encodeChannels (subCfgOf c.subframe_coding) .midSide info.bps
          [(List.zipWith midSide (chanOf fb 0) (chanOf fb 1)).map (·.1),
           (List.zipWith midSide (chanOf fb 0) (chanOf fb 1)).map (·.2)] 0 log).bind fun r =>
        match r.1 with
        | [sm, ss] =>
          let asg := chooseStereo (stereoCfgOf c.stereo_coding) (cnt sl) (cnt sr) (cnt sm) (cnt ss)
          let pick := selectChannels sl sr sm ss asg
          some (⟨{ implHeader fb info .MidSide offset with channel_assignment := C02Hdr.caToGen asg }, [pick.1, pick.2], none⟩, r.2)
        | _ => none := by
  obtain ⟨hfb1, hfb2, hfb3⟩ := hfb
  have hl0 := chanOf_length fb 2 0 ⟨hfb1, hfb2, hfb3⟩ (by omega)
  have hl1 := chanOf_length fb 2 1 ⟨hfb1, hfb2, hfb3⟩ (by omega)
  have hsz0 : fb.size ≠ 0 := by omega
  unfold try_stereo_coding
  simp only [bindM_apply, resize_apply stale fb.size log hst (by omega), Option.bind_some,
    channel_slice_eq fb 2 0 ⟨hfb1, hfb2, hfb3⟩ (by omega), channel_slice_eq fb 2 1 ⟨hfb1, hfb2, hfb3⟩ (by omega)]
  have htake : List.take fb.size (List.zip (chanOf fb 0) (chanOf fb 1)) = List.zip (chanOf fb 0) (chanOf fb 1) :=
    List.take_of_length_le (by rw [List.length_zip, hl0, hl1]; omega)
  rw [htake, mapMM_midSide _ _ (fun x h => inRange_30 _ hb x (hx 0 (by omega) x h))
    (fun x h => inRange_30 _ hb x (hx 1 (by omega) x h))]
  have hpre : (vecResize stale.samples (fb.size * 2) 0).length / fb.size = 2 := by
    rw [vecResize_length]; exact Nat.mul_div_cancel_left 2 (Nat.pos_of_ne_zero hsz0)
  simp only [Option.bind_some, req_apply, hsz0, hpre, ne_eq, not_false_eq_true, decide_true, Bool.and_self, if_true]
  -- the mid/side buffer
  obtain ⟨hmidr, hsider⟩ := midSide_range info.bps hb.1 (chanOf fb 0) (chanOf fb 1) (hx 0 (by omega)) (hx 1 (by omega))
  have hzl : (List.zipWith midSide (chanOf fb 0) (chanOf fb 1)).length = fb.filled_size := by
    rw [List.length_zipWith, hl0, hl1]; omega
  obtain ⟨hf1, hf2, hf3, hf4, hf5⟩ := fillStereo_spec
    { samples := vecResize stale.samples (fb.size * 2) 0, size := fb.size, filled_size := stale.filled_size,
      readbuf := stale.readbuf } (List.zipWith midSide (chanOf fb 0) (chanOf fb 1))
    (by simp only [vecResize_length]; omega) (by rw [hzl]; exact hfb2)
  simp only [] at hf1 hf2 hf3 hf4 hf5
  generalize hms : fillStereo
    { samples := vecResize stale.samples (fb.size * 2) 0, size := fb.size, filled_size := stale.filled_size,
      readbuf := stale.readbuf } (List.zipWith midSide (chanOf fb 0) (chanOf fb 1)) = ms at hf1 hf2 hf3 hf4 hf5 ⊢
  rw [hzl] at hf1
  have himpl := C09G_encode_frame_impl s1 s2 c ms offset info .MidSide log (by omega) ⟨by rw [hch]; omega, by omega, by omega⟩
    (by omega) hmax hmo (by
      intro ch hc
      rw [hch] at hc
      have : ch = 0 ∨ ch = 1 := by omega
      rcases this with rfl | rfl
      · refine ⟨by simp [C02Hdr.caOfGen, ChannelAssignment.bpsOffset]; omega, by simp [C02Hdr.caOfGen, ChannelAssignment.bpsOffset]; omega, ?_⟩
        rw [hf4]
        simpa [C02Hdr.caOfGen, ChannelAssignment.bpsOffset] using hmidr
      · refine ⟨by simp [C02Hdr.caOfGen, ChannelAssignment.bpsOffset], by simp [C02Hdr.caOfGen, ChannelAssignment.bpsOffset]; omega, ?_⟩
        rw [hf5]
        simpa [C02Hdr.caOfGen, ChannelAssignment.bpsOffset] using hsider) hlog
  rw [bindM_apply, himpl]
  have hchans : chansOf ms info.channels = [List.map (fun x => x.1) (List.zipWith midSide (chanOf fb 0) (chanOf fb 1)),
      List.map (fun x => x.2) (List.zipWith midSide (chanOf fb 0) (chanOf fb 1))] := by
    rw [hch]; simp [chansOf, List.range_succ, hf4, hf5]
  rw [hchans]
  have hca : C02Hdr.caOfGen Gen.Headers.ChannelAssignment.MidSide = ChannelAssignment.midSide := rfl
  rw [hca]
  cases hec : encodeChannels (subCfgOf c.subframe_coding) ChannelAssignment.midSide info.bps
      [List.map (fun x => x.1) (List.zipWith midSide (chanOf fb 0) (chanOf fb 1)),
       List.map (fun x => x.2) (List.zipWith midSide (chanOf fb 0) (chanOf fb 1))] 0 log with
  | none => rfl
  | some r =>
    obtain ⟨subs, l2⟩ := r
    obtain ⟨hlen2, hcnt⟩ := C09.encodeChannels_bound _ .midSide info.bps fb.filled_size hn.1 _ 0 log l2 subs (by
      intro c hc
      simp only [List.mem_cons, List.not_mem_nil, or_false] at hc
      rcases hc with rfl | rfl <;> simp [hl0, hl1]) hec
    match subs, hlen2, hcnt with
    | [sm, ss], _, hcnt =>
      obtain ⟨cm, hcm, hcmb⟩ := hcnt 0 (by simp)
      obtain ⟨cs, hcs, hcsb⟩ := hcnt 1 (by simp)
      simp only [List.getElem_cons_zero, List.getElem_cons_succ] at hcm hcs
      have hvb : ∀ b, b ≤ 25 → verbatimBits fb.filled_size b < 2 ^ 32 := by
        intro b hb25
        unfold verbatimBits
        have : fb.filled_size * b ≤ 2 ^ 16 * 25 := Nat.mul_le_mul (by omega) hb25
        omega
      have hcm32 : cm < 2 ^ 32 := Nat.lt_of_le_of_lt hcmb (hvb _ (by simp [ChannelAssignment.bpsOffset]; omega))
      have hcs32 : cs < 2 ^ 32 := Nat.lt_of_le_of_lt hcsb (hvb _ (by simp [ChannelAssignment.bpsOffset]; omega))
      have e1 : cl + cs < 18446744073709551616 := by omega
      have e2 : cr + cs < 18446744073709551616 := by omega
      have e3 : cm + cs < 18446744073709551616 := by omega
      have e4 : cl + cr < 18446744073709551616 := by omega
      have hfold := stereo_fold c.stereo_coding cl cr cm cs
      have hcnt4 : cnt sl = cl ∧ cnt sr = cr ∧ cnt sm = cm ∧ cnt ss = cs := by
        simp [cnt, hcl.1, hcr.1, hcm, hcs]
      simp only [Option.map_some, Option.bind_some, bindM_apply, Frame.subframe, List.getElem?_cons_zero,
        List.getElem?_cons_succ, liftO_apply, hcl.1, hcr.1, hcm, hcs, req_apply, e1, e2, e3, e4, decide_true, if_true,
        hcnt4.1, hcnt4.2.1, hcnt4.2.2.1, hcnt4.2.2.2]
      have hfold' : ∀ f, f = stereoStep → List.foldl f (cl + cr, Gen.Headers.ChannelAssignment.Independent 2)
          (List.filterMap id [(if c.stereo_coding.use_leftside then some (Gen.Headers.ChannelAssignment.LeftSide, (cl + cs)) else none),
            (if c.stereo_coding.use_rightside then some (Gen.Headers.ChannelAssignment.RightSide, (cr + cs)) else none),
            (if c.stereo_coding.use_midside then some (Gen.Headers.ChannelAssignment.MidSide, (cm + cs)) else none)]) =
          (stereoCost cl cr cm cs (chooseStereo (stereoCfgOf c.stereo_coding) cl cr cm cs),
            C02Hdr.caToGen (chooseStereo (stereoCfgOf c.stereo_coding) cl cr cm cs)) := by
        intro f hf; rw [hf]; exact hfold
      rw [hfold' _ rfl]
      have hsel : ∀ a : ChannelAssignment, ChannelAssignment.select_channels (C02Hdr.caToGen a) sl sr sm ss =
          selectChannels sl sr sm ss a := by
        intro a; cases a <;> rfl
      simp only [recombine_stereo_frame, intoStereo, bindM_apply, liftO_apply, Option.map_some, Option.bind_some, pureM_apply,
        FrameHeader.reset_channel_assignment, hsel, Frame.from_parts, implHeader, hf1]

/-- the frame-number assignment of `encode_fixed_size_frame`: `set_frame_offset(FrameOffset::Frame(frame_number as u32))` -/
def withNumber (f : Gen.Writer.Frame) (number : Nat) : Gen.Writer.Frame :=
  { f with header := Gen.Verify.FrameHeader.set_frame_offset f.header (.Frame (number % 4294967296)) }

/-- the hand model's `headerFor` is the image of the header the generated code builds (offset 0, then the frame number) -/
theorem headerFor_gen (fb : FrameBuf) (info : StreamInfo) (X : Gen.Headers.ChannelAssignment) (asg : ChannelAssignment)
    (number : Nat) (hn : 1 ≤ fb.filled_size ∧ fb.filled_size < 2 ^ 16) (hb : info.bps < 256) (hrate : info.rate < 2 ^ 32)
    (hnum : number < 2 ^ 32) :
    headerFor asg fb.filled_size info.bps info.rate number =
      some (C08Gen.hdrOfGen (Gen.Verify.FrameHeader.set_frame_offset
        { implHeader fb info X 0 with channel_assignment := C02Hdr.caToGen asg } (.Frame (number % 4294967296)))) := by
  unfold headerFor
  have hex : Gen.Headers.BlockSizeSpec.from_size_exact fb.filled_size = true :=
    (C02Hdr.C02H_blockSize_fromSize_exact _ (by omega)).2 (by omega)
  rw [C02Hdr.C02H_blockSize_fromSize _ (by omega), if_pos hex]
  have hm1 : fb.filled_size % 65536 = fb.filled_size := Nat.mod_eq_of_lt (by omega)
  have hm2 : info.bps % 256 = info.bps := Nat.mod_eq_of_lt hb
  have hm3 : info.rate % 4294967296 = info.rate := Nat.mod_eq_of_lt hrate
  have hm4 : number % 4294967296 = number := Nat.mod_eq_of_lt hnum
  have hsr : (SampleRateSpec.fromFreq info.rate).getD .unspecified =
      C02Hdr.srOfGen ((Gen.Headers.SampleRateSpec.from_freq info.rate).getD .Unspecified) := by
    rw [C02Hdr.C02H_sampleRate_fromFreq _ hrate]
    cases Gen.Headers.SampleRateSpec.from_freq info.rate <;> rfl
  simp only [Option.bind_eq_bind, Option.bind_some, C08Gen.hdrOfGen, implHeader, Gen.Verify.FrameHeader.set_frame_offset,
    Gen.Verify.FrameHeader.set_frame_number, Gen.Verify.FrameHeader.set_start_sample_number, FrameHeader.from_specs,
    hm1, hm2, hm3, hm4, C02Hdr.caOfGen_toGen, C02Hdr.C02H_sampleSizeTag _ hb, hsr]

/-- **`encode_frame`** (followed by the frame-number assignment of `encode_fixed_size_frame`, which calls it with offset 0)
= `encodeFrame`, for a frame buffer of `1..8` valid channels of `1 ≤ n < 2^16` samples of `1 ≤ bps ≤ 24` bits: the
independent coding, for two channels the stereo trial and the selection, the header.  The generated frame is related to the
hand model's by `C08Gen.frameOfGen` (enum maps of C02Hdr). -/
theorem C09G_encode_frame (s1 : List (List Int)) (s2 : List Int) (s3 : FrameBuf) (c : Gen.Encoder) (fb : FrameBuf)
    (info : StreamInfo) (number : Nat) (log : List OEvent)
    (hst : StereoBuf s3) (hfb : FbOk fb info.channels) (hn : 1 ≤ fb.filled_size ∧ fb.filled_size < 2 ^ 16)
    (hch : 1 ≤ info.channels ∧ info.channels ≤ 8) (hb : 1 ≤ info.bps ∧ info.bps ≤ 24)
    (hx : ∀ ch, ch < info.channels → ∀ x ∈ chanOf fb ch, SubFrame.inRange info.bps x = true)
    (hmax : c.subframe_coding.prc.max_parameter ≤ 14) (hmo : c.subframe_coding.fixed.max_order + 1 < 2 ^ 64)
    (hrate : info.rate < 2 ^ 32) (hnum : number < 2 ^ 32) (hlog : LogFits log) :
    (encode_frame s1 s2 s3 c fb 0 info log).map (fun r => (C08Gen.frameOfGen (withNumber r.1 number), r.2)) =
      encodeFrame (subCfgOf c.subframe_coding) (stereoCfgOf c.stereo_coding) (chansOf fb info.channels) info.bps info.rate
        number log := by
  unfold encode_frame encodeFrame
  have hm : info.channels % 256 = info.channels := Nat.mod_eq_of_lt (by omega)
  have hca : C02Hdr.caOfGen (Gen.Headers.ChannelAssignment.Independent info.channels) = .independent info.channels := rfl
  have hclen : (chansOf fb info.channels).length = info.channels := by simp [chansOf]
  have hhead : ((chansOf fb info.channels).headD []).length = fb.filled_size := by
    unfold chansOf
    cases hc : info.channels with
    | zero => omega
    | succ k =>
      simp only [List.range_succ_eq_map, List.map_cons, List.headD_cons]
      exact chanOf_length fb info.channels 0 hfb (by omega)
  simp only [bindM_apply, hm, hclen, hhead]
  rw [C09G_encode_frame_impl s1 s2 c fb 0 info _ log hn hfb hch.2 hmax hmo (by
    intro ch hc
    rw [hca]
    simp only [ChannelAssignment.bpsOffset, Nat.add_zero]
    exact ⟨hb.1, by omega, hx ch hc⟩) hlog, hca]
  cases hec : encodeChannels (subCfgOf c.subframe_coding) (.independent info.channels) info.bps (chansOf fb info.channels) 0 log with
  | none => rfl
  | some r =>
    obtain ⟨indep, l1⟩ := r
    obtain ⟨hilen, hicnt⟩ := C09.encodeChannels_bound _ (.independent info.channels) info.bps fb.filled_size hn.1 _ 0 log l1 indep (by
      intro cc hcc
      simp only [chansOf, List.mem_map, List.mem_range] at hcc
      obtain ⟨k, hk, rfl⟩ := hcc
      exact chanOf_length fb info.channels k hfb hk) hec
    have hsub := encodeChannels_sub _ _ _ _ _ _ _ _ hec
    simp only [Option.map_some, Option.bind_some]
    by_cases h2 : info.channels = 2
    · -- two channels: the stereo trial
      rw [if_pos h2]
      have hchans : chansOf fb info.channels = [chanOf fb 0, chanOf fb 1] := by rw [h2]; simp [chansOf, List.range_succ]
      rw [hclen, h2] at hilen
      match indep, hilen, hicnt with
      | [sl, sr], _, hicnt =>
        obtain ⟨cl, hcl, hclb⟩ := hicnt 0 (by simp)
        obtain ⟨cr, hcr, hcrb⟩ := hicnt 1 (by simp)
        simp only [List.getElem_cons_zero, List.getElem_cons_succ, ChannelAssignment.bpsOffset, Nat.add_zero] at hcl hcr hclb hcrb
        have hvb : verbatimBits fb.filled_size info.bps < 2 ^ 32 := by
          unfold verbatimBits
          have : fb.filled_size * info.bps ≤ 2 ^ 16 * 24 := Nat.mul_le_mul (by omega) hb.2
          omega
        rw [C09G_try_stereo_coding s3 s1 s2 c fb _ sl sr none 0 info l1 cl cr hst (h2 ▸ hfb) hn h2 hb
          (fun ch hc => hx ch (by omega)) hmax hmo (hlog.sub hsub) ⟨hcl, by omega⟩ ⟨hcr, by omega⟩]
        rw [hchans]
        simp only []
        cases encodeChannels (subCfgOf c.subframe_coding) .midSide info.bps
            [(List.zipWith midSide (chanOf fb 0) (chanOf fb 1)).map (·.1),
             (List.zipWith midSide (chanOf fb 0) (chanOf fb 1)).map (·.2)] 0 l1 with
        | none => rfl
        | some r2 =>
          obtain ⟨msSubs, l2⟩ := r2
          simp only [Option.bind_some]
          match msSubs with
          | [] => rfl
          | [_] => rfl
          | _ :: _ :: _ :: _ => rfl
          | [sm, ss] =>
            simp only [Option.map_some, headerFor_gen fb info .MidSide _ number hn (by omega) hrate hnum, C08Gen.frameOfGen,
              withNumber]
    · -- otherwise: the independent coding
      rw [if_neg h2]
      split
      · exfalso
        rename_i heq
        rw [heq] at hclen
        simp at hclen
        omega
      · simp only [if_neg h2, pureM_apply, Option.map_some,
          headerFor_gen fb info (.Independent info.channels) (.independent info.channels) number hn (by omega) hrate hnum,
          C08Gen.frameOfGen, withNumber]
        rfl

/-! ### frame level: examples -/

/-- a stereo frame buffer of 64 samples per channel, its stream info, the `MSFRAMEBUF` storage as `new_stereo_buffer` makes it -/
def fb2 : FrameBuf := ⟨sig64 ++ sig64.map (fun x => x / 2 + 3), 64, 64, []⟩
def info2 : StreamInfo := ⟨64, 64, 0, 0, 44100, 2, 16, 0, List.replicate 16 0⟩
def msStale : FrameBuf := ⟨List.replicate 512 0, 256, 0, []⟩
def cfgEnc : Gen.Encoder := Gen.Encoder.default true
def log4 : List OEvent := log64 ++ log64 ++ log64 ++ log64

theorem log4_fits : LogFits log4 := by
  intro o b h
  simp [log4, log64] at h
  omega

theorem msStale_ok : StereoBuf msStale := by
  unfold StereoBuf msStale
  simp only [List.length_replicate]
  decide

theorem fb2_valid : FbOk fb2 info2.channels ∧ (1 ≤ fb2.filled_size ∧ fb2.filled_size < 2 ^ 16) ∧
    ∀ ch, ch < info2.channels → ∀ x ∈ chanOf fb2 ch, SubFrame.inRange info2.bps x = true := by
  refine ⟨by simp [FbOk, fb2, sig64, info2], by simp [fb2], ?_⟩
  intro ch hc
  have : ch = 0 ∨ ch = 1 := by
    have : info2.channels = 2 := rfl
    omega
  rcases this with rfl | rfl <;> decide

example : (encode_frame [] [] msStale cfgEnc fb2 0 info2 log4).map (fun r => (C08Gen.frameOfGen (withNumber r.1 7), r.2)) =
    encodeFrame (subCfgOf cfgEnc.subframe_coding) (stereoCfgOf cfgEnc.stereo_coding) (chansOf fb2 2) 16 44100 7 log4 :=
  C09G_encode_frame [] [] msStale cfgEnc fb2 info2 7 log4 msStale_ok fb2_valid.1 fb2_valid.2.1 (by decide) (by decide)
    fb2_valid.2.2 (by decide) (by decide) (by decide) (by decide) log4_fits

example : try_stereo_coding msStale [] [] cfgEnc fb2 ⟨implHeader fb2 info2 (.Independent 2) 0, [.verbatim (chanOf fb2 0) 16,
      .verbatim (chanOf fb2 1) 16], none⟩ 0 info2 log4 =
    (encodeChannels (subCfgOf cfgEnc.subframe_coding) .midSide 16
        [(List.zipWith midSide (chanOf fb2 0) (chanOf fb2 1)).map (·.1),
         (List.zipWith midSide (chanOf fb2 0) (chanOf fb2 1)).map (·.2)] 0 log4).bind fun r =>
      match r.1 with
      | [sm, ss] =>
        let asg := chooseStereo (stereoCfgOf cfgEnc.stereo_coding) 1032 1032 (cnt sm) (cnt ss)
        let pick := selectChannels (.verbatim (chanOf fb2 0) 16) (.verbatim (chanOf fb2 1) 16) sm ss asg
        some (⟨{ implHeader fb2 info2 .MidSide 0 with channel_assignment := C02Hdr.caToGen asg }, [pick.1, pick.2], none⟩, r.2)
      | _ => none :=
  C09G_try_stereo_coding msStale [] [] cfgEnc fb2 _ _ _ none 0 info2 log4 1032 1032 msStale_ok fb2_valid.1 fb2_valid.2.1 rfl
    (by decide) fb2_valid.2.2 (by decide) (by decide) log4_fits ⟨by decide, by decide⟩ ⟨by decide, by decide⟩

/-! ### `encode_fixed_size_frame` -/

/-- **`encode_fixed_size_frame`**: when the three argument checks pass — `frame_number < 2^31`, the buffer has
`stream_info.channels()` channels and is not empty, `verify_samples` (external: the parameter `vs`) accepts — the result is
`Ok` of the frame `encodeFrame` describes (related by `C08Gen.frameOfGen`). -/
theorem C09G_encode_fixed_size_frame (vs : FrameBuf → Nat → Gen.Verify.VR) (s1 : List (List Int)) (s2 : List Int)
    (s3 : FrameBuf) (c : Gen.Encoder) (fb : FrameBuf) (number : Nat) (info : StreamInfo) (log : List OEvent)
    (hst : StereoBuf s3) (hfb : FbOk fb info.channels) (hn : 1 ≤ fb.filled_size ∧ fb.filled_size < 2 ^ 16)
    (hch : 1 ≤ info.channels ∧ info.channels ≤ 8) (hb : 1 ≤ info.bps ∧ info.bps ≤ 24)
    (hx : ∀ ch, ch < info.channels → ∀ x ∈ chanOf fb ch, SubFrame.inRange info.bps x = true)
    (hmax : c.subframe_coding.prc.max_parameter ≤ 14) (hmo : c.subframe_coding.fixed.max_order + 1 < 2 ^ 64)
    (hrate : info.rate < 2 ^ 32) (hlog : LogFits log)
    (hnum : number < 2 ^ 31) (hcn : fb.samples.length / fb.size = info.channels) (hvs : vs fb info.bps = some true) :
    (encode_fixed_size_frame vs s1 s2 s3 c fb number info log).map (fun r => (r.1.map C08Gen.frameOfGen, r.2)) =
      (encodeFrame (subCfgOf c.subframe_coding) (stereoCfgOf c.stereo_coding) (chansOf fb info.channels) info.bps info.rate
        number log).map fun r => (some r.1, r.2) := by
  have h := C09G_encode_frame s1 s2 s3 c fb info number log hst hfb hn hch hb hx hmax hmo hrate (by omega) hlog
  rw [← h]
  unfold encode_fixed_size_frame
  have hsz : fb.size ≠ 0 := by have := hfb.2.1; omega
  have hlim : number < (1 <<< 31) % 18446744073709551616 := by
    have : (1 <<< 31) % 18446744073709551616 = 2 ^ 31 := by decide
    omega
  have hfill : fb.filled_size > 0 := by omega
  simp only [vrTry, Gen.Verify.verify_macro_impl, hlim, decide_true, bindM_apply, FrameBuf.channels, req_apply, hsz, ne_eq,
    not_false_eq_true, if_true, pureM_apply, Option.bind_some, hcn, hfill, and_self, hvs]
  cases encode_frame s1 s2 s3 c fb 0 info log with
  | none => rfl
  | some r => rfl

/-- a frame number outside 31 bits is rejected (`Err`), whatever the other arguments are -/
theorem encode_fixed_size_frame_rejects (vs : FrameBuf → Nat → Gen.Verify.VR) (s1 : List (List Int)) (s2 : List Int)
    (s3 : FrameBuf) (c : Gen.Encoder) (fb : FrameBuf) (number : Nat) (info : StreamInfo) (log : List OEvent)
    (h : 2 ^ 31 ≤ number) : encode_fixed_size_frame vs s1 s2 s3 c fb number info log = some (none, log) := by
  unfold encode_fixed_size_frame
  have hlim : 2147483648 ≤ number := h
  simp [vrTry, Gen.Verify.verify_macro_impl, hlim]

/-- an empty frame buffer, or one whose number of channels differs from `stream_info`, is rejected (`Err`) -/
theorem encode_fixed_size_frame_rejects_buffer (vs : FrameBuf → Nat → Gen.Verify.VR) (s1 : List (List Int)) (s2 : List Int)
    (s3 : FrameBuf) (c : Gen.Encoder) (fb : FrameBuf) (number : Nat) (info : StreamInfo) (log : List OEvent)
    (hnum : number < 2 ^ 31) (hsz : fb.size ≠ 0)
    (h : fb.filled_size = 0 ∨ fb.samples.length / fb.size ≠ info.channels) :
    encode_fixed_size_frame vs s1 s2 s3 c fb number info log = some (none, log) := by
  unfold encode_fixed_size_frame
  have hlim : ¬ 2147483648 ≤ number := by omega
  rcases h with h | h
  · simp [vrTry, Gen.Verify.verify_macro_impl, hlim, bindM_apply, FrameBuf.channels, req_apply, pureM_apply, hsz, h]
  · simp [vrTry, Gen.Verify.verify_macro_impl, hlim, bindM_apply, FrameBuf.channels, req_apply, pureM_apply, hsz, h]

example : (encode_fixed_size_frame (fun _ _ => some true) [] [] msStale cfgEnc fb2 7 info2 log4).map
      (fun r => (r.1.map C08Gen.frameOfGen, r.2)) =
    (encodeFrame (subCfgOf cfgEnc.subframe_coding) (stereoCfgOf cfgEnc.stereo_coding) (chansOf fb2 2) 16 44100 7 log4).map
      fun r => (some r.1, r.2) :=
  C09G_encode_fixed_size_frame _ [] [] msStale cfgEnc fb2 7 info2 log4 msStale_ok fb2_valid.1 fb2_valid.2.1 (by decide) (by decide)
    fb2_valid.2.2 (by decide) (by decide) (by decide) log4_fits (by decide) (by simp [fb2, sig64, info2]) rfl

end C09Gen
end FlacVerif
