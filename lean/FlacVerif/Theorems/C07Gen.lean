/-
C07Gen — the float functions cannot panic at the INTEGER level.  Gen/FloatSkel.lean (part `floatskel`,
tools/translate_floatskel.py) holds the index skeletons of the float functions: all integer expressions (index arithmetic,
slice ranges, loop bounds, divisions, asserts, clamps) mirrored from the current source, every float value opaque, every
float primitive an uninterpreted parameter.  The theorems below therefore hold for ALL behaviours of the float code and
extend C07's no-panic clause into it.

  C07G_estimate_entropy_total   coding.rs `estimate_entropy(errors, warmup_len, partitions)`: for every block of 64..=65535
                                errors, every warm-up <= 32, every 1 <= partitions <= 64 (the verified range of
                                `ApproxEnt { partitions }`) and every float behaviour whose per-partition estimate (`as usize`)
                                is below 2^57: no panic in either profile - `partitions` is not zero, `end - offset` and
                                `end - warmup_len` do not underflow, `errors[offset..end]` is in bounds, `acc` does not overflow
  C07G_estimate_entropy_zero_partitions   outside the verified range: `partitions = 0` divides by zero (both profiles)
  C07G_find_shift               lpc.rs `find_shift(coefs, precision)`: for a non-empty coefficient slice and precision <= 15 no panic
                                (the two asserts hold, `reduce(..).unwrap()` has an element, the i16 arithmetic `(precision - 1) - abs_log2`
                                cannot overflow BECAUSE of the `Float::max(.., i16::MIN + 16)` floor) and the result is in 0..=15 =
                                `qlpc::MIN_SHIFT ..= MAX_SHIFT` - what `OEvent.Ok` / `QuantizedParameters::new` require of the shift.
                                Float facts used (hypotheses): a float -> i16 cast lands in the i16 range; the cast of
                                `Float::max(a, T::from(c))` is at least `c`
  C07G_find_shift_panics        empty slice or precision > 15: the asserts fire (both profiles)
  C07G_quantize_parameter_range lpc.rs `quantize_parameter`: total, result an i16 (it is the saturating cast)
  C07G_quantize_clamp           the clamp `min(max(v, -(1 << (p-1))), (1 << (p-1)) - 1)` lands in the `p`-bit range (1 <= p <= 15)
  C07G_quantize_parameters_ok   lpc.rs `quantize_parameters(coefs, precision)`: for 1..=24 float coefficients (`qlpc::MAX_ORDER`, the
                                capacity of `q_coefs`), precision 1..=15 and EVERY float behaviour (two IEEE facts as for find_shift):
                                no panic in either profile, and the value handed on - `coefs()` = the first `order` lanes, `shift`,
                                `precision` - satisfies `OEvent.Ok` (Lemmas/StrictSubEnc.lean): the shape assumption the end-to-end
                                theorems make about a logged `qlpc` event is discharged for the integer part of the source
-/
import FlacVerif.Gen.FloatSkel
import FlacVerif.Theorems.C01Gen
import FlacVerif.Lemmas.StrictSubEnc
namespace FlacVerif.C07Gen
open FlacVerif FlacVerif.Gen.Lpc FlacVerif.Gen.FloatSkel FlacVerif.C01Gen

/-- a counting loop with an index-dependent invariant never panics and ends in the invariant -/
theorem loopM_total {σ : Type} (f : Nat → σ → Option σ) (I : Nat → σ → Prop) (n : Nat) (s0 : σ) (h0 : I 0 s0)
    (h : ∀ J, J < n → ∀ s, I J s → ∃ s', f J s = some s' ∧ I (J + 1) s') :
    ∃ s, loopM (rangeL 0 n) s0 f = some s ∧ I n s := by
  induction n with
  | zero => exact ⟨s0, rfl, h0⟩
  | succ n ih =>
    obtain ⟨s, hs, hi⟩ := ih (fun J hJ => h J (by omega))
    obtain ⟨s', hs', hi'⟩ := h n (by omega) s hi
    refine ⟨s', ?_, hi'⟩
    rw [rangeL_succ, loopM_append, hs]
    simp only [Option.bind_some, loopM, hs']

theorem loopM_total_bind {σ β : Type} (f : Nat → σ → Option σ) (I : Nat → σ → Prop) (n : Nat) (s0 : σ)
    (k : σ → Option β) (P : β → Prop) (h0 : I 0 s0)
    (h : ∀ J, J < n → ∀ s, I J s → ∃ s', f J s = some s' ∧ I (J + 1) s')
    (hk : ∀ s, I n s → ∃ b, k s = some b ∧ P b) :
    ∃ b, (loopM (rangeL 0 n) s0 f).bind k = some b ∧ P b := by
  obtain ⟨s, hs, hi⟩ := loopM_total f I n s0 h0 h
  rw [hs]
  exact hk s hi

/-- **`estimate_entropy` is total** on the encoder's domain, whatever the float code computes. -/
theorem C07G_estimate_entropy_total {F : Type} (dbg : Bool) (sumAbs : List Int → F) (fLit : String → F)
    (fprim : String → List F → F) (fOfNat : Nat → F) (fToNat : Nat → F → Nat)
    (errors : List Int) (warm partitions : Nat)
    (hn : 64 ≤ errors.length ∧ errors.length ≤ 65535) (hw : warm ≤ 32) (hp : 1 ≤ partitions ∧ partitions ≤ 64)
    (hcast : ∀ x, fToNat 64 x < 2 ^ 57) :
    ∃ bits, estimate_entropy dbg sumAbs fLit fprim fOfNat fToNat errors warm partitions = some bits ∧ bits ≤ partitions * 2 ^ 57 := by
  unfold estimate_entropy
  simp only []
  rw [addU_ok dbg 64 _ _ (by omega)]
  simp only [Option.bind_some]
  rw [subU_ok dbg 64 _ _ (by omega)]
  simp only [Option.bind_some, divU]
  rw [if_neg (by omega)]
  simp only [Option.bind_some]
  have hps : (errors.length + partitions - 1) / partitions ≤ errors.length + partitions - 1 := Nat.div_le_self _ _
  refine loopM_total_bind _ (fun J x => x.1 ≤ J * 2 ^ 57 ∧ x.2 ≤ errors.length) _ _ _ _ ⟨by omega, by omega⟩ ?hstep ?hk
  case hk =>
    intro s hs
    exact ⟨s.1, rfl, hs.1⟩
  case hstep =>
    intro J hJ x hx
    obtain ⟨acc, offset⟩ := x
    obtain ⟨ha, ho⟩ := hx
    simp only at ha ho ⊢
    rw [addU_ok dbg 64 _ _ (by omega)]
    simp only [Option.bind_some]
    have hend : offset ≤ min errors.length (offset + (errors.length + partitions - 1) / partitions) := by
      rw [Nat.le_min]; exact ⟨ho, Nat.le_add_right _ _⟩
    rw [subU_ok dbg 64 _ _ hend]
    simp only [Option.bind_some]
    have hJ57 : J * 2 ^ 57 ≤ 63 * 2 ^ 57 := Nat.mul_le_mul_right _ (by omega)
    by_cases hge : min errors.length (offset + (errors.length + partitions - 1) / partitions) ≥ warm
    · simp only [hge, decide_true, if_true]
      rw [subU_ok dbg 64 _ _ hge]
      simp only [Option.bind_some]
      rw [sliceR_ok errors _ _ ⟨hend, Nat.min_le_left _ _⟩]
      simp only [Option.bind_some]
      generalize hq : fToNat 64 _ = q
      have hq' : q < 2 ^ 57 := by rw [← hq]; exact hcast _
      rw [addU_ok dbg 64 _ _ (by omega)]
      simp only [Option.bind_some]
      refine ⟨_, rfl, ?_, Nat.min_le_left _ _⟩
      show acc + q ≤ (J + 1) * 2 ^ 57
      rw [Nat.add_mul, Nat.one_mul]
      omega
    · simp only [hge, decide_false, if_false, Bool.false_eq_true, Option.bind_some]
      refine ⟨_, rfl, ?_, Nat.min_le_left _ _⟩
      show acc ≤ (J + 1) * 2 ^ 57
      rw [Nat.add_mul, Nat.one_mul]
      exact Nat.le_trans ha (Nat.le_add_right _ _)

/-- outside the verified range `1..=64` of `ApproxEnt { partitions }`: zero partitions divide by zero, in both profiles -/
theorem C07G_estimate_entropy_zero_partitions {F : Type} (dbg : Bool) (sumAbs : List Int → F) (fLit : String → F)
    (fprim : String → List F → F) (fOfNat : Nat → F) (fToNat : Nat → F → Nat) (errors : List Int) (warm : Nat)
    (hn : 1 ≤ errors.length ∧ errors.length < 2 ^ 63) :
    estimate_entropy dbg sumAbs fLit fprim fOfNat fToNat errors warm 0 = none := by
  unfold estimate_entropy
  simp only []
  rw [addU_ok dbg 64 _ _ (by omega)]
  simp only [Option.bind_some]
  rw [subU_ok dbg 64 _ _ (by omega)]
  simp [divU]

/-! ### the quantisation clamps of lpc.rs -/

theorem wrapS16_small (v : Int) (h : -(32768 : Int) ≤ v ∧ v < 32768) : wrapS 16 v = v := by
  unfold wrapS
  simp only []
  split <;> omega

theorem arithS16_ok (dbg : Bool) (v : Int) (h : -(32768 : Int) ≤ v ∧ v < 32768) : arithS dbg 16 v = some v := by
  unfold arithS
  have e : (2 ^ (16 - 1) : Int) = 32768 := by decide
  rw [e, if_pos h]

theorem wrapS8_small (v : Int) (h : -(128 : Int) ≤ v ∧ v < 128) : wrapS 8 v = v := by
  unfold wrapS
  simp only []
  split <;> omega

set_option maxRecDepth 8192 in
/-- **`find_shift`** never panics on a non-empty slice with precision <= 15 and returns a shift in `0..=15`, for every
behaviour of the float code that satisfies two facts about IEEE floats: a float -> `i16` cast is an `i16`, and the cast of
`max(a, c)` for an `i16` constant `c` is at least `c`. -/
theorem C07G_find_shift {F : Type} (dbg : Bool) (fprim : String → List F → F) (fOfInt : Int → F) (fToInt : Nat → F → Int)
    (coefs : List F) (precision : Nat) (hne : coefs ≠ []) (hp : precision ≤ 15)
    (hrange : ∀ x, -(32768 : Int) ≤ fToInt 16 x ∧ fToInt 16 x ≤ 32767)
    (hmax : ∀ a (c : Int), -(32768 : Int) ≤ c → c ≤ 32767 → c ≤ fToInt 16 (fprim "Float::max" [a, fOfInt c])) :
    ∃ s, find_shift dbg fprim fOfInt fToInt coefs precision = some s ∧ 0 ≤ s ∧ s ≤ 15 := by
  unfold find_shift
  have hemp : coefs.isEmpty = false := by cases coefs with | nil => exact absurd rfl hne | cons _ _ => rfl
  have r1 : req (decide (precision ≤ 15)) = some () := by simp [req, hp]
  have r2 : req (!coefs.isEmpty) = some () := by rw [hemp]; rfl
  simp only [r1, r2, Option.bind_some]
  rw [arithS16_ok dbg _ (by omega)]
  simp only [Option.bind_some]
  generalize hq : fToInt 16 _ = a
  have ha1 : (-32752 : Int) ≤ a := by
    rw [← hq]
    exact hmax _ (-32768 + 16) (by omega) (by omega)
  have ha2 : a ≤ 32767 := by rw [← hq]; exact (hrange _).2
  have hw : wrapS 16 (Int.ofNat precision) = (precision : Int) := wrapS16_small _ (by simp; omega)
  simp only [hw]
  rw [arithS16_ok dbg _ (by omega)]
  simp only [Option.bind_some]
  rw [arithS16_ok dbg _ (by omega)]
  simp only [Option.bind_some]
  have hc : ((FlacVerif.Gen.Const.qlpc_MIN_SHIFT : Nat) : Int) = 0 ∧ ((FlacVerif.Gen.Const.qlpc_MAX_SHIFT : Nat) : Int) = 15 := by
    constructor <;> rfl
  rw [hc.1, hc.2]
  have r3 : req (decide ((0 : Int) ≤ 15)) = some () := rfl
  simp only [r3, Option.bind_some]
  refine ⟨_, rfl, ?_⟩
  have hb : 0 ≤ max (0 : Int) (min ((precision : Int) - 1 - a) 15) ∧ max (0 : Int) (min ((precision : Int) - 1 - a) 15) ≤ 15 := by omega
  rw [wrapS8_small _ (by omega)]
  exact hb

/-- the two asserts: an empty slice or a precision above 15 panics in both profiles (the encoder calls `find_shift` only for
`lpc_order >= 1` coefficients and a verified `quant_precision <= 15`) -/
theorem C07G_find_shift_panics {F : Type} (dbg : Bool) (fprim : String → List F → F) (fOfInt : Int → F) (fToInt : Nat → F → Int)
    (coefs : List F) (precision : Nat) (h : coefs = [] ∨ 15 < precision) :
    find_shift dbg fprim fOfInt fToInt coefs precision = none := by
  unfold find_shift
  rcases h with rfl | h
  · have r2 : req (!([] : List F).isEmpty) = none := rfl
    simp only [r2]
    cases req (decide (precision ≤ 15)) <;> rfl
  · have r1 : req (decide (precision ≤ 15)) = none := by
      have : ¬ precision ≤ 15 := by omega
      simp [req, this]
    simp only [r1]
    rfl

/-- **`quantize_parameter`** has no integer-level panic site at all (it is emitted without `Option`); its result is the
saturating `i16` cast of the clamped float -/
theorem C07G_quantize_parameter_range {F : Type} (fOfInt : Int → F) (fprim : String → List F → F) (fToInt : Nat → F → Int)
    (p : F) (shift : Int) (hrange : ∀ x, -(32768 : Int) ≤ fToInt 16 x ∧ fToInt 16 x ≤ 32767) :
    -(32768 : Int) ≤ quantize_parameter fOfInt fprim fToInt p shift ∧ quantize_parameter fOfInt fprim fToInt p shift ≤ 32767 := by
  unfold quantize_parameter
  exact hrange _

/-- the coefficient clamp of `quantize_parameters` -/
theorem C07G_quantize_clamp (p : Nat) (hp : 1 ≤ p ∧ p ≤ 15) (v : Int) :
    SubFrame.inRange p (min (max v (-(2 ^ (p - 1) : Int))) ((2 ^ (p - 1) : Int) - 1)) = true := by
  have hP : (1 : Int) ≤ 2 ^ (p - 1) := by
    have : (1 : Nat) ≤ 2 ^ (p - 1) := Nat.one_le_two_pow
    exact_mod_cast this
  unfold SubFrame.inRange
  generalize (2 ^ (p - 1) : Int) = P at hP ⊢
  simp only [Bool.and_eq_true, decide_eq_true_eq]
  omega

theorem pow_small (p : Nat) (hp : 1 ≤ p ∧ p ≤ 15) : (1 : Int) ≤ 2 ^ (p - 1) ∧ (2 ^ (p - 1) : Int) ≤ 16384 := by
  have h1 : (1 : Nat) ≤ 2 ^ (p - 1) := Nat.one_le_two_pow
  have h2 : 2 ^ (p - 1) ≤ 2 ^ 14 := Nat.pow_le_pow_right (by omega) (by omega)
  constructor
  · exact_mod_cast h1
  · have : ((2 ^ (p - 1) : Nat) : Int) ≤ ((2 ^ 14 : Nat) : Int) := by exact_mod_cast h2
    simpa using this

theorem loopM_list_total_bind {α σ β : Type} (f : α → σ → Option σ) (I : σ → Prop) (k : σ → Option β) (P : β → Prop) :
    ∀ (xs : List α) (s0 : σ), I s0 → (∀ x ∈ xs, ∀ s, I s → ∃ s', f x s = some s' ∧ I s') →
      (∀ s, I s → ∃ b, k s = some b ∧ P b) → ∃ b, (loopM xs s0 f).bind k = some b ∧ P b := by
  intro xs
  induction xs with
  | nil => intro s0 h0 _ hk; exact hk s0 h0
  | cons x xs ih =>
    intro s0 h0 h hk
    obtain ⟨s', e, hi⟩ := h x (by simp) s0 h0
    rw [loopM, e]
    exact ih s' hi (fun y hy => h y (by simp [hy])) hk

theorem tailZeros_le (xs : List Int) : tailZeros xs ≤ xs.length := by
  unfold tailZeros
  have h : ∀ l : List Int, (l.takeWhile (fun x => decide (x = 0))).length ≤ l.length := by
    intro l
    induction l with
    | nil => simp
    | cons a l ih =>
      rw [List.takeWhile_cons]
      split
      · simp only [List.length_cons]; omega
      · simp
  have := h xs.reverse
  simpa using this

set_option maxRecDepth 8192 in
/-- **`quantize_parameters`** never panics for 1..=24 coefficients and precision 1..=15, whatever the float code computes,
and what it hands on is a parameter set `OEvent.Ok` accepts (1..=24 coefficients, each in the `precision`-bit range,
shift in 0..=15, precision 1..=15). -/
theorem C07G_quantize_parameters_ok {F : Type} (dbg : Bool) (fprim : String → List F → F) (fOfInt : Int → F)
    (fToInt : Nat → F → Int) (coefs : List F) (precision : Nat)
    (hn : 1 ≤ coefs.length ∧ coefs.length ≤ 24) (hp : 1 ≤ precision ∧ precision ≤ 15)
    (hrange : ∀ x, -(32768 : Int) ≤ fToInt 16 x ∧ fToInt 16 x ≤ 32767)
    (hmax : ∀ a (c : Int), -(32768 : Int) ≤ c → c ≤ 32767 → c ≤ fToInt 16 (fprim "Float::max" [a, fOfInt c])) :
    ∃ q, quantize_parameters dbg fprim fOfInt fToInt coefs precision = some q ∧
      (OEvent.qlpc (q.coefs.take q.order) q.shift q.precision).Ok ∧ q.coefs.length = 32 := by
  have hne : coefs ≠ [] := by intro e; rw [e] at hn; simp at hn
  have hemp : coefs.isEmpty = false := by cases coefs with | nil => exact absurd rfl hne | cons _ _ => rfl
  obtain ⟨sh, hsh, hs0, hs15⟩ := C07G_find_shift dbg fprim fOfInt fToInt coefs precision hne hp.2 hrange hmax
  obtain ⟨hP1, hP2⟩ := pow_small precision hp
  unfold quantize_parameters
  rw [hemp]
  simp only [Bool.false_eq_true, if_false, hsh, Option.bind_some]
  have h24 : FlacVerif.Gen.Const.qlpc_MAX_ORDER = 24 := rfl
  rw [h24]
  refine loopM_list_total_bind _ (fun q => q.length = 24 ∧ ∀ c ∈ q, SubFrame.inRange precision c = true) _ _ _ _ ?h0 ?hstep ?hk
  case h0 =>
    refine ⟨by simp, ?_⟩
    intro c hc
    rw [List.mem_replicate] at hc
    rw [hc.2]
    have := C07G_quantize_clamp precision hp 0
    unfold SubFrame.inRange at this ⊢
    simp only [Bool.and_eq_true, decide_eq_true_eq] at this ⊢
    omega
  case hstep =>
    intro x hx q hq
    obtain ⟨n, coef⟩ := x
    have hnlt : n < coefs.length := by
      have := (List.of_mem_zip hx).1
      simpa using this
    simp only []
    rw [subU_ok dbg 64 _ _ hp.1]
    simp only [Option.bind_some]
    rw [shAmt_ok dbg 16 _ (by omega)]
    simp only [Option.bind_some, Int.one_mul]
    rw [wrapS16_small _ (by omega), arithS16_ok dbg _ (by omega)]
    simp only [Option.bind_some]
    rw [arithS16_ok dbg _ (by omega)]
    simp only [Option.bind_some, setAt]
    rw [if_pos (by omega)]
    refine ⟨_, rfl, by simp [hq.1], ?_⟩
    intro c hc
    rcases List.mem_or_eq_of_mem_set hc with h | h
    · exact hq.2 c h
    · rw [h]; exact C07G_quantize_clamp precision hp _
  case hk =>
    intro q hq
    have htz := tailZeros_le q
    rw [subU_ok dbg 64 _ _ htz]
    simp only [Option.bind_some]
    have hord : 1 ≤ max 1 (q.length - tailZeros q) ∧ max 1 (q.length - tailZeros q) ≤ 24 := by omega
    rw [sliceR_ok q 0 _ ⟨Nat.zero_le _, by omega⟩]
    simp only [Option.bind_some, List.drop_zero]
    have hsl : (q.take (max 1 (q.length - tailZeros q))).length = max 1 (q.length - tailZeros q) := by
      rw [List.length_take]; omega
    have hfp := C01G_from_parts dbg (q.take (max 1 (q.length - tailZeros q))) sh precision (by omega)
    rw [hsl] at hfp
    rw [hfp]
    simp only [Option.bind_some]
    refine ⟨_, rfl, ?_, by simp [mkQ]; omega⟩
    have htake : (mkQ (q.take (max 1 (q.length - tailZeros q))) sh precision).coefs.take
        (mkQ (q.take (max 1 (q.length - tailZeros q))) sh precision).order = q.take (max 1 (q.length - tailZeros q)) := by
      unfold mkQ
      exact List.take_left' rfl
    rw [htake]
    show OEvent.Ok (.qlpc _ sh precision)
    unfold OEvent.Ok
    refine ⟨by omega, by unfold maxLpcOrder; omega, hp.1, hp.2, hs0, hs15, ?_⟩
    intro c hc
    exact hq.2 c (List.mem_of_mem_take hc)

/-- ... and such a parameter set is one `QuantizedParameters::new` / `verify` accepts (hand model `QParams.verify`, tied to
verify.rs by `C18G_qparams_verify`) -/
theorem C07G_ok_verify (coefs : List Int) (shift : Int) (precision : Nat) (h : (OEvent.qlpc coefs shift precision).Ok) :
    (QParams.mk coefs shift precision).verify = true := by
  obtain ⟨_, h2, h3, h4, h5, h6, h7⟩ := h
  unfold QParams.verify
  simp only [Bool.and_eq_true, decide_eq_true_eq, List.all_eq_true]
  refine ⟨⟨⟨⟨⟨by unfold maxLpcOrder at h2; exact h2, h5⟩, h6⟩, h3⟩, h4⟩, ?_⟩
  intro c hc
  have := h7 c hc
  unfold SubFrame.inRange at this
  simp only [Bool.and_eq_true, decide_eq_true_eq] at this
  omega

/-- non-vacuity: 3 coefficients quantised with integer stand-ins for the floats; the trailing zero is trimmed -/
example : (quantize_parameters (F := Int) true (fun op l => if op = "Float::max" then max (l.getD 0 0) (l.getD 1 0) else l.getD 0 0) id
    (fun _ x => max (-32768) (min x 32767)) [3, -70000, 0] 12).map (fun q => (q.coefs.take q.order, q.shift, q.precision, q.order))
    = some ([3, -2048], 8, 12, 2) := by decide

/-- non-vacuity of `C07G_find_shift`: floats instantiated by integers, `max` by the integer maximum, the cast by a clamp -/
example : find_shift (F := Int) true (fun op l => if op = "Float::max" then max (l.getD 0 0) (l.getD 1 0) else l.getD 0 0) id
    (fun _ x => max (-32768) (min x 32767)) [3, -7] 12 = some 8 := by decide

/-- a concrete run (the hypotheses are satisfiable; the float parameters instantiated by integers): 100 samples, warm-up 4,
64 partitions - most partitions are empty (`offset = end = 100`) -/
example : estimate_entropy (F := Nat) true (fun l => l.length) (fun _ => 1) (fun _ l => l.sum) (fun n => n) (fun _ x => x % 1000)
    (List.replicate 100 7) 4 64 = some 1371 := by decide

end FlacVerif.C07Gen
