/-
C07Gen — the float functions cannot panic at the INTEGER level.  Gen/FloatSkel.lean (part `floatskel`,
tools/translate_floatskel.py) holds the index skeletons of the float functions: all integer expressions (index arithmetic,
slice ranges, loop bounds, divisions, asserts, clamps) mirrored from the current source, every float value opaque, every
float primitive an uninterpreted parameter.  The theorems below therefore hold for ALL behaviours of the float code and
extend C07's no-panic clause into it.

  C07G_estimate_entropy_total   coding.rs `estimate_entropy(errors, warmup_len, partitions)`: for every block of 64..=65535
                                errors, every warm-up <= 32, every 1 <= partitions <= 64 (the verified range of
                                `ApproxEnt { partitions }`) and every float behaviour whose per-partition estimate (`as usize`)
                                is below 2^57: no panic in either profile - `partitions` is not zero, `end - offset` and
                                `end - warmup_len` do not underflow, `errors[offset..end]` is in bounds, `acc` does not overflow
  C07G_estimate_entropy_zero_partitions   outside the verified range: `partitions = 0` divides by zero (both profiles)
  C07G_find_shift               lpc.rs `find_shift(coefs, precision)`: for a non-empty coefficient slice and precision <= 15 no panic
                                (the two asserts hold, `reduce(..).unwrap()` has an element, the i16 arithmetic `(precision - 1) - abs_log2`
                                cannot overflow BECAUSE of the `Float::max(.., i16::MIN + 16)` floor) and the result is in 0..=15 =
                                `qlpc::MIN_SHIFT ..= MAX_SHIFT` - what `OEvent.Ok` / `QuantizedParameters::new` require of the shift.
                                Float facts used (hypotheses): a float -> i16 cast lands in the i16 range; the cast of
                                `Float::max(a, T::from(c))` is at least `c`
  C07G_find_shift_panics        empty slice or precision > 15: the asserts fire (both profiles)
  C07G_quantize_parameter_range lpc.rs `quantize_parameter`: total, result an i16 (it is the saturating cast)
-/
import FlacVerif.Gen.FloatSkel
import FlacVerif.Theorems.C01Gen
namespace FlacVerif.C07Gen
open FlacVerif FlacVerif.Gen.Lpc FlacVerif.Gen.FloatSkel FlacVerif.C01Gen

/-- a counting loop with an index-dependent invariant never panics and ends in the invariant -/
theorem loopM_total {σ : Type} (f : Nat → σ → Option σ) (I : Nat → σ → Prop) (n : Nat) (s0 : σ) (h0 : I 0 s0)
    (h : ∀ J, J < n → ∀ s, I J s → ∃ s', f J s = some s' ∧ I (J + 1) s') :
    ∃ s, loopM (rangeL 0 n) s0 f = some s ∧ I n s := by
  induction n with
  | zero => exact ⟨s0, rfl, h0⟩
  | succ n ih =>
    obtain ⟨s, hs, hi⟩ := ih (fun J hJ => h J (by omega))
    obtain ⟨s', hs', hi'⟩ := h n (by omega) s hi
    refine ⟨s', ?_, hi'⟩
    rw [rangeL_succ, loopM_append, hs]
    simp only [Option.bind_some, loopM, hs']

theorem loopM_total_bind {σ β : Type} (f : Nat → σ → Option σ) (I : Nat → σ → Prop) (n : Nat) (s0 : σ)
    (k : σ → Option β) (P : β → Prop) (h0 : I 0 s0)
    (h : ∀ J, J < n → ∀ s, I J s → ∃ s', f J s = some s' ∧ I (J + 1) s')
    (hk : ∀ s, I n s → ∃ b, k s = some b ∧ P b) :
    ∃ b, (loopM (rangeL 0 n) s0 f).bind k = some b ∧ P b := by
  obtain ⟨s, hs, hi⟩ := loopM_total f I n s0 h0 h
  rw [hs]
  exact hk s hi

/-- **`estimate_entropy` is total** on the encoder's domain, whatever the float code computes. -/
theorem C07G_estimate_entropy_total {F : Type} (dbg : Bool) (sumAbs : List Int → F) (fLit : String → F)
    (fprim : String → List F → F) (fOfNat : Nat → F) (fToNat : Nat → F → Nat)
    (errors : List Int) (warm partitions : Nat)
    (hn : 64 ≤ errors.length ∧ errors.length ≤ 65535) (hw : warm ≤ 32) (hp : 1 ≤ partitions ∧ partitions ≤ 64)
    (hcast : ∀ x, fToNat 64 x < 2 ^ 57) :
    ∃ bits, estimate_entropy dbg sumAbs fLit fprim fOfNat fToNat errors warm partitions = some bits ∧ bits ≤ partitions * 2 ^ 57 := by
  unfold estimate_entropy
  simp only []
  rw [addU_ok dbg 64 _ _ (by omega)]
  simp only [Option.bind_some]
  rw [subU_ok dbg 64 _ _ (by omega)]
  simp only [Option.bind_some, divU]
  rw [if_neg (by omega)]
  simp only [Option.bind_some]
  have hps : (errors.length + partitions - 1) / partitions ≤ errors.length + partitions - 1 := Nat.div_le_self _ _
  refine loopM_total_bind _ (fun J x => x.1 ≤ J * 2 ^ 57 ∧ x.2 ≤ errors.length) _ _ _ _ ⟨by omega, by omega⟩ ?hstep ?hk
  case hk =>
    intro s hs
    exact ⟨s.1, rfl, hs.1⟩
  case hstep =>
    intro J hJ x hx
    obtain ⟨acc, offset⟩ := x
    obtain ⟨ha, ho⟩ := hx
    simp only at ha ho ⊢
    rw [addU_ok dbg 64 _ _ (by omega)]
    simp only [Option.bind_some]
    have hend : offset ≤ min errors.length (offset + (errors.length + partitions - 1) / partitions) := by
      rw [Nat.le_min]; exact ⟨ho, Nat.le_add_right _ _⟩
    rw [subU_ok dbg 64 _ _ hend]
    simp only [Option.bind_some]
    have hJ57 : J * 2 ^ 57 ≤ 63 * 2 ^ 57 := Nat.mul_le_mul_right _ (by omega)
    by_cases hge : min errors.length (offset + (errors.length + partitions - 1) / partitions) ≥ warm
    · simp only [hge, decide_true, if_true]
      rw [subU_ok dbg 64 _ _ hge]
      simp only [Option.bind_some]
      rw [sliceR_ok errors _ _ ⟨hend, Nat.min_le_left _ _⟩]
      simp only [Option.bind_some]
      generalize hq : fToNat 64 _ = q
      have hq' : q < 2 ^ 57 := by rw [← hq]; exact hcast _
      rw [addU_ok dbg 64 _ _ (by omega)]
      simp only [Option.bind_some]
      refine ⟨_, rfl, ?_, Nat.min_le_left _ _⟩
      show acc + q ≤ (J + 1) * 2 ^ 57
      rw [Nat.add_mul, Nat.one_mul]
      omega
    · simp only [hge, decide_false, if_false, Bool.false_eq_true, Option.bind_some]
      refine ⟨_, rfl, ?_, Nat.min_le_left _ _⟩
      show acc ≤ (J + 1) * 2 ^ 57
      rw [Nat.add_mul, Nat.one_mul]
      exact Nat.le_trans ha (Nat.le_add_right _ _)

/-- outside the verified range `1..=64` of `ApproxEnt { partitions }`: zero partitions divide by zero, in both profiles -/
theorem C07G_estimate_entropy_zero_partitions {F : Type} (dbg : Bool) (sumAbs : List Int → F) (fLit : String → F)
    (fprim : String → List F → F) (fOfNat : Nat → F) (fToNat : Nat → F → Nat) (errors : List Int) (warm : Nat)
    (hn : 1 ≤ errors.length ∧ errors.length < 2 ^ 63) :
    estimate_entropy dbg sumAbs fLit fprim fOfNat fToNat errors warm 0 = none := by
  unfold estimate_entropy
  simp only []
  rw [addU_ok dbg 64 _ _ (by omega)]
  simp only [Option.bind_some]
  rw [subU_ok dbg 64 _ _ (by omega)]
  simp [divU]

/-! ### the quantisation clamps of lpc.rs -/

theorem wrapS16_small (v : Int) (h : -(32768 : Int) ≤ v ∧ v < 32768) : wrapS 16 v = v := by
  unfold wrapS
  simp only []
  split <;> omega

theorem arithS16_ok (dbg : Bool) (v : Int) (h : -(32768 : Int) ≤ v ∧ v < 32768) : arithS dbg 16 v = some v := by
  unfold arithS
  have e : (2 ^ (16 - 1) : Int) = 32768 := by decide
  rw [e, if_pos h]

theorem wrapS8_small (v : Int) (h : -(128 : Int) ≤ v ∧ v < 128) : wrapS 8 v = v := by
  unfold wrapS
  simp only []
  split <;> omega

set_option maxRecDepth 8192 in
/-- **`find_shift`** never panics on a non-empty slice with precision <= 15 and returns a shift in `0..=15`, for every
behaviour of the float code that satisfies two facts about IEEE floats: a float -> `i16` cast is an `i16`, and the cast of
`max(a, c)` for an `i16` constant `c` is at least `c`. -/
theorem C07G_find_shift {F : Type} (dbg : Bool) (fprim : String → List F → F) (fOfInt : Int → F) (fToInt : Nat → F → Int)
    (coefs : List F) (precision : Nat) (hne : coefs ≠ []) (hp : precision ≤ 15)
    (hrange : ∀ x, -(32768 : Int) ≤ fToInt 16 x ∧ fToInt 16 x ≤ 32767)
    (hmax : ∀ a (c : Int), -(32768 : Int) ≤ c → c ≤ 32767 → c ≤ fToInt 16 (fprim "Float::max" [a, fOfInt c])) :
    ∃ s, find_shift dbg fprim fOfInt fToInt coefs precision = some s ∧ 0 ≤ s ∧ s ≤ 15 := by
  unfold find_shift
  have hemp : coefs.isEmpty = false := by cases coefs with | nil => exact absurd rfl hne | cons _ _ => rfl
  have r1 : req (decide (precision ≤ 15)) = some () := by simp [req, hp]
  have r2 : req (!coefs.isEmpty) = some () := by rw [hemp]; rfl
  simp only [r1, r2, Option.bind_some]
  rw [arithS16_ok dbg _ (by omega)]
  simp only [Option.bind_some]
  generalize hq : fToInt 16 _ = a
  have ha1 : (-32752 : Int) ≤ a := by
    rw [← hq]
    exact hmax _ (-32768 + 16) (by omega) (by omega)
  have ha2 : a ≤ 32767 := by rw [← hq]; exact (hrange _).2
  have hw : wrapS 16 (Int.ofNat precision) = (precision : Int) := wrapS16_small _ (by simp; omega)
  simp only [hw]
  rw [arithS16_ok dbg _ (by omega)]
  simp only [Option.bind_some]
  rw [arithS16_ok dbg _ (by omega)]
  simp only [Option.bind_some]
  have hc : ((FlacVerif.Gen.Const.qlpc_MIN_SHIFT : Nat) : Int) = 0 ∧ ((FlacVerif.Gen.Const.qlpc_MAX_SHIFT : Nat) : Int) = 15 := by
    constructor <;> rfl
  rw [hc.1, hc.2]
  have r3 : req (decide ((0 : Int) ≤ 15)) = some () := rfl
  simp only [r3, Option.bind_some]
  refine ⟨_, rfl, ?_⟩
  have hb : 0 ≤ max (0 : Int) (min ((precision : Int) - 1 - a) 15) ∧ max (0 : Int) (min ((precision : Int) - 1 - a) 15) ≤ 15 := by omega
  rw [wrapS8_small _ (by omega)]
  exact hb

/-- the two asserts: an empty slice or a precision above 15 panics in both profiles (the encoder calls `find_shift` only for
`lpc_order >= 1` coefficients and a verified `quant_precision <= 15`) -/
theorem C07G_find_shift_panics {F : Type} (dbg : Bool) (fprim : String → List F → F) (fOfInt : Int → F) (fToInt : Nat → F → Int)
    (coefs : List F) (precision : Nat) (h : coefs = [] ∨ 15 < precision) :
    find_shift dbg fprim fOfInt fToInt coefs precision = none := by
  unfold find_shift
  rcases h with rfl | h
  · have r2 : req (!([] : List F).isEmpty) = none := rfl
    simp only [r2]
    cases req (decide (precision ≤ 15)) <;> rfl
  · have r1 : req (decide (precision ≤ 15)) = none := by
      have : ¬ precision ≤ 15 := by omega
      simp [req, this]
    simp only [r1]
    rfl

/-- **`quantize_parameter`** has no integer-level panic site at all (it is emitted without `Option`); its result is the
saturating `i16` cast of the clamped float -/
theorem C07G_quantize_parameter_range {F : Type} (fOfInt : Int → F) (fprim : String → List F → F) (fToInt : Nat → F → Int)
    (p : F) (shift : Int) (hrange : ∀ x, -(32768 : Int) ≤ fToInt 16 x ∧ fToInt 16 x ≤ 32767) :
    -(32768 : Int) ≤ quantize_parameter fOfInt fprim fToInt p shift ∧ quantize_parameter fOfInt fprim fToInt p shift ≤ 32767 := by
  unfold quantize_parameter
  exact hrange _

/-- non-vacuity of `C07G_find_shift`: floats instantiated by integers, `max` by the integer maximum, the cast by a clamp -/
example : find_shift (F := Int) true (fun op l => if op = "Float::max" then max (l.getD 0 0) (l.getD 1 0) else l.getD 0 0) id
    (fun _ x => max (-32768) (min x 32767)) [3, -7] 12 = some 8 := by decide

/-- a concrete run (the hypotheses are satisfiable; the float parameters instantiated by integers): 100 samples, warm-up 4,
64 partitions - most partitions are empty (`offset = end = 100`) -/
example : estimate_entropy (F := Nat) true (fun l => l.length) (fun _ => 1) (fun _ l => l.sum) (fun n => n) (fun _ x => x % 1000)
    (List.replicate 100 7) 4 64 = some 1371 := by decide

end FlacVerif.C07Gen
