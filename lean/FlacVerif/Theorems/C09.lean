/-
C09 — no frame is larger than its verbatim encoding.

The theorems are about the functional view of the encoder (`Model/Encode.lean`, a statement-by-
statement mirror of `encode_subframe` / `encode_frame`), and hold for **every** oracle log: whatever
coefficients the float estimator produced and however wrong the entropy estimates were, a candidate
displaces `Verbatim` only after its *real* `count_bits` was compared with the verbatim size
(coding.rs:397-420 after the repair of F4), and a stereo recombination is taken only if strictly
cheaper than left+right (coding.rs:496-528).
-/
import FlacVerif.Model.Encode
namespace FlacVerif.C09
open FlacVerif

theorem constant_le (n bps : Nat) (hn : 1 ≤ n) : 8 + bps ≤ verbatimBits n bps := by
  unfold verbatimBits
  have : bps ≤ n * bps := Nat.le_mul_of_pos_left bps hn
  omega

theorem keepBelow_some (limit : Nat) (c : Option SubFrame) (f : SubFrame) (h : keepBelow limit c = some f) :
    ∃ n, f.count = some n ∧ n < limit := by
  unfold keepBelow at h
  rw [Option.filter_eq_some_iff] at h
  obtain ⟨_, hp⟩ := h
  cases hc : f.count with
  | none => simp [hc] at hp
  | some n => exact ⟨n, rfl, by simpa [hc] using hp⟩

theorem baselineAfter_le (b : Nat) (fixed : Option SubFrame) : baselineAfter b fixed ≤ b := by
  unfold baselineAfter
  split
  · exact Nat.min_le_left _ _
  · exact Nat.le_refl _

/-- **C09 (subframe).** Whatever the oracle says, the subframe `encode_subframe` returns has a
reported size of at most the verbatim size `8 + n·bps`. -/
theorem C09_subframe (cfg : SubCfg) (xs : List Int) (bps : Nat) (log log' : List OEvent) (s : SubFrame)
    (hx : 1 ≤ xs.length) (h : encodeSubframe cfg xs bps log = some (s, log')) :
    ∃ c, s.count = some c ∧ c ≤ verbatimBits xs.length bps := by
  unfold encodeSubframe at h
  split at h
  · simp only [Option.some.injEq, Prod.mk.injEq] at h
    obtain ⟨rfl, _⟩ := h
    exact ⟨8 + bps, rfl, constant_le _ _ hx⟩
  · simp only [Option.bind_eq_some_iff] at h
    obtain ⟨⟨fixed, log1⟩, hf, ⟨lpc, log2⟩, hl, hres⟩ := h
    simp only [Option.some.injEq, Prod.mk.injEq] at hres
    obtain ⟨hs, _⟩ := hres
    have hfixed : ∀ f, fixed = some f → ∃ n, f.count = some n ∧ n < verbatimBits xs.length bps := by
      intro f hfe
      unfold fixedStage at hf
      split at hf
      · simp only [Option.map_eq_some_iff, Prod.mk.injEq] at hf
        obtain ⟨⟨c0, l0⟩, _, hc, _⟩ := hf
        rw [hfe] at hc
        exact keepBelow_some _ _ _ hc
      · simp only [Option.some.injEq, Prod.mk.injEq] at hf
        rw [hfe] at hf; exact absurd hf.1 (by simp)
    have hlpc : ∀ f, lpc = some f → ∃ n, f.count = some n ∧ n < verbatimBits xs.length bps := by
      intro f hfe
      unfold lpcStage at hl
      split at hl
      · simp only [Option.map_eq_some_iff, Prod.mk.injEq] at hl
        obtain ⟨⟨c0, l0⟩, _, hc, _⟩ := hl
        rw [hfe] at hc
        obtain ⟨n, h1, h2⟩ := keepBelow_some _ _ _ hc
        exact ⟨n, h1, Nat.lt_of_lt_of_le h2 (baselineAfter_le _ _)⟩
      · simp only [Option.some.injEq, Prod.mk.injEq] at hl
        rw [hfe] at hl; exact absurd hl.1 (by simp)
    subst hs
    cases lpc with
    | some f =>
      obtain ⟨n, h1, h2⟩ := hlpc f rfl
      exact ⟨n, by simpa using h1, Nat.le_of_lt h2⟩
    | none =>
      cases fixed with
      | some f =>
        obtain ⟨n, h1, h2⟩ := hfixed f rfl
        exact ⟨n, by simpa using h1, Nat.le_of_lt h2⟩
      | none => exact ⟨verbatimBits xs.length bps, by simp [SubFrame.count, verbatimBits], Nat.le_refl _⟩


/-- Every subframe `encode_channels` produces obeys the verbatim bound of its own width. -/
theorem encodeChannels_bound (cfg : SubCfg) (asg : ChannelAssignment) (bps n : Nat) (hn : 1 ≤ n) :
    ∀ (chans : List (List Int)) (ch : Nat) (log log' : List OEvent) (subs : List SubFrame),
      (∀ c ∈ chans, c.length = n) → encodeChannels cfg asg bps chans ch log = some (subs, log') →
      subs.length = chans.length ∧
      ∀ i (h : i < subs.length), ∃ c, subs[i].count = some c ∧ c ≤ verbatimBits n (bps + asg.bpsOffset (ch + i)) := by
  intro chans
  induction chans with
  | nil =>
    intro ch log log' subs _ h
    simp only [encodeChannels, Option.some.injEq, Prod.mk.injEq] at h
    obtain ⟨rfl, _⟩ := h
    exact ⟨rfl, fun i h => absurd h (by simp)⟩
  | cons c cs ih =>
    intro ch log log' subs hlen h
    simp only [encodeChannels, Option.bind_eq_bind, Option.bind_eq_some_iff, Option.some.injEq, Prod.mk.injEq] at h
    obtain ⟨⟨s, l1⟩, hs, ⟨ss, l2⟩, hss, hsub, _⟩ := h
    have hc : c.length = n := hlen c (by simp)
    obtain ⟨c0, h1, h2⟩ := C09_subframe cfg c _ _ _ s (by omega) hs
    obtain ⟨hl, hrest⟩ := ih (ch + 1) l1 l2 ss (fun x hx => hlen x (by simp [hx])) hss
    subst hsub
    refine ⟨by simp [hl], ?_⟩
    intro i hi
    cases i with
    | zero => exact ⟨c0, by simpa using h1, by simpa [hc] using h2⟩
    | succ j =>
      obtain ⟨c1, h3, h4⟩ := hrest j (by simpa using hi)
      refine ⟨c1, by simpa using h3, ?_⟩
      have : ch + 1 + j = ch + (j + 1) := by omega
      rw [this] at h4; exact h4

theorem chooseStereo_le (st : StereoCfg) (cl cr cm cs : Nat) :
    stereoCost cl cr cm cs (chooseStereo st cl cr cm cs) ≤ cl + cr := by
  unfold chooseStereo
  simp only [List.foldl_cons, List.foldl_nil]
  have step : ∀ (best : ChannelAssignment) (c : Option ChannelAssignment),
      stereoCost cl cr cm cs best ≤ cl + cr →
      stereoCost cl cr cm cs (match c with
        | some a => if stereoCost cl cr cm cs a < stereoCost cl cr cm cs best then a else best
        | none => best) ≤ cl + cr := by
    intro best c hb
    cases c with
    | none => exact hb
    | some a =>
      simp only
      split
      · omega
      · exact hb
  exact step _ _ (step _ _ (step _ _ (by simp [stereoCost])))

theorem selectChannels_cost (l r m s : SubFrame) (a : ChannelAssignment) :
    cnt (selectChannels l r m s a).1 + cnt (selectChannels l r m s a).2 = stereoCost (cnt l) (cnt r) (cnt m) (cnt s) a := by
  cases a <;> simp [selectChannels, stereoCost, Nat.add_comm]

/-- Total reported size of the subframes of a frame. -/
def subTotal (f : Frame) : Nat := (f.subframes.map cnt).foldl (· + ·) 0

theorem foldl_add_le (l : List Nat) (b : Nat) (h : ∀ x ∈ l, x ≤ b) (a : Nat) :
    l.foldl (· + ·) a ≤ a + l.length * b := by
  induction l generalizing a with
  | nil => simp
  | cons x xs ih =>
    simp only [List.foldl_cons, List.length_cons]
    have := ih (fun y hy => h y (by simp [hy])) (a + x)
    have hx := h x (by simp)
    rw [Nat.add_mul]; omega

/-- **C09 (frame).** For every oracle log, every stereo configuration and every block of `n ≥ 1`
samples per channel: the subframes of the frame `encode_frame` returns take at most
`channels · (8 + n·bps)` bits — the size of independent verbatim subframes. A side channel is one
bit wider, but a recombination containing it is selected only if strictly cheaper than left+right,
so the bound holds without any slack. -/
theorem C09_frame (cfg : SubCfg) (st : StereoCfg) (chans : List (List Int)) (bps rate number n : Nat)
    (log log' : List OEvent) (f : Frame) (hn : 1 ≤ n) (hlen : ∀ c ∈ chans, c.length = n)
    (h : encodeFrame cfg st chans bps rate number log = some (f, log')) :
    subTotal f ≤ chans.length * verbatimBits n bps ∧ ∀ s ∈ f.subframes, ∃ c, s.count = some c := by
  unfold encodeFrame at h
  simp only [Option.bind_eq_some_iff] at h
  obtain ⟨⟨indep, l1⟩, hi, h⟩ := h
  obtain ⟨hil, hib⟩ := encodeChannels_bound cfg (.independent chans.length) bps n hn chans 0 log l1 indep hlen hi
  have hindep : ∀ s ∈ indep, ∃ c, s.count = some c ∧ c ≤ verbatimBits n bps := by
    intro s hs
    obtain ⟨i, hi', rfl⟩ := List.getElem_of_mem hs
    obtain ⟨c, h1, h2⟩ := hib i hi'
    exact ⟨c, h1, by simpa [ChannelAssignment.bpsOffset] using h2⟩
  split at h
  · -- stereo
    rename_i l r sl sr heq
    simp only at heq
    subst heq
    simp only [Option.bind_eq_some_iff] at h
    obtain ⟨⟨msSubs, l2⟩, hm, h⟩ := h
    have hlr : ∀ c ∈ [(List.zipWith midSide l r).map (·.1), (List.zipWith midSide l r).map (·.2)], c.length = n := by
      have h1 := hlen l (by simp); have h2 := hlen r (by simp)
      intro c hc
      simp only [List.mem_cons, List.not_mem_nil, or_false] at hc
      rcases hc with rfl | rfl <;> simp [h1, h2]
    obtain ⟨hml, hmb⟩ := encodeChannels_bound cfg .midSide bps n hn _ 0 l1 l2 msSubs hlr hm
    split at h
    · rename_i sm ss heq2
      simp only at heq2
      subst heq2
      simp only [Option.map_eq_some_iff, Prod.mk.injEq] at h
      obtain ⟨hd, _, hf, _⟩ := h
      subst hf
      obtain ⟨cl, hcl, hbl⟩ := hindep sl (by simp)
      obtain ⟨cr, hcr, hbr⟩ := hindep sr (by simp)
      obtain ⟨cm', hcm, _⟩ := hmb 0 (by simp)
      obtain ⟨cs', hcs, _⟩ := hmb 1 (by simp)
      simp only [List.getElem_cons_zero, List.getElem_cons_succ] at hcm hcs
      refine ⟨?_, ?_⟩
      · simp only [subTotal, List.map_cons, List.map_nil, List.foldl_cons, List.foldl_nil, Nat.zero_add,
          List.length_cons, List.length_nil]
        rw [selectChannels_cost]
        have := chooseStereo_le st (cnt sl) (cnt sr) (cnt sm) (cnt ss)
        have e1 : cnt sl = cl := by simp [cnt, hcl]
        have e2 : cnt sr = cr := by simp [cnt, hcr]
        omega
      · intro s hs
        simp only [List.mem_cons, List.not_mem_nil, or_false] at hs
        cases ha : chooseStereo st (cnt sl) (cnt sr) (cnt sm) (cnt ss) <;>
          simp only [ha, selectChannels] at hs <;> rcases hs with rfl | rfl <;>
          first | exact ⟨_, hcl⟩ | exact ⟨_, hcr⟩ | exact ⟨_, hcm⟩ | exact ⟨_, hcs⟩
    · exact absurd h (by simp)
  · split at h
    · exact absurd h (by simp)
    · simp only [Option.map_eq_some_iff, Prod.mk.injEq] at h
      obtain ⟨hd, _, hf, _⟩ := h
      subst hf
      refine ⟨?_, fun s hs => (hindep s hs).imp fun c hc => hc.1⟩
      simp only [subTotal]
      have := foldl_add_le (indep.map cnt) (verbatimBits n bps) (by
        intro x hx
        obtain ⟨s, hs, rfl⟩ := List.mem_map.mp hx
        obtain ⟨c, h1, h2⟩ := hindep s hs
        simpa [cnt, h1] using h2) 0
      simpa [hil] using this

/-- Non-vacuity: a 64-sample constant channel and a 4-sample block (too short for prediction) go
through `encodeFrame` with an empty oracle log. -/
example : (encodeFrame ⟨true, true, true, 4, true, 14⟩ ⟨true, true, true⟩ [[5, 5, 5, 5], [1, -2, 3, 4]] 16 44100 0 []).isSome = true := by
  decide

end FlacVerif.C09
