/-
C18 — every public component constructor either returns an error or returns a component that
verifies and serialises, without panicking, to exactly the number of bits it reports; every
out-of-domain argument (including values that would wrap around in a narrower machine type, such as
`2^8 + k` or `2^32 + k`) is rejected.

`Model/Verify.lean` mirrors the constructors / `Verify` impls as total decision procedures over
UNBOUNDED naturals (`none` = `Err(VerifyError)`), so "no panic" is by construction of the mirror
(plus differential testing); this file is the logical core: accepted ⇒ well formed ⇒ `count_bits`
does not underflow and equals the number of bits `write` emits (C08), every sink call of `write` is
within the sinks' contract and produces exactly the component's bit string (C12).

`SubFrame.WF'` (`Lemmas/Verify.lean`) is `SubFrame.WF` with `warm.length ≤ blockSize` instead of
`<`: the constructors do accept a predicted subframe made of warm-up samples only (see
`C18_fixed_not_WF`), and everything C08 / C12 need holds for it. Property theorems only.
-/
import FlacVerif.Lemmas.Verify
namespace FlacVerif
open FlacVerif.C11 FlacVerif.VerifyL

/-! ### residual -/

/-- `Residual::verify` accepts exactly the well-formed residuals of at most 32767 samples. -/
theorem C18_residual_verify_iff (r : Residual) : r.verify = true ↔ (r.WF ∧ r.blockSize ≤ 32767) :=
  residual_verify_iff r

/-- An accepted residual is the one described by the arguments, verifies, is well formed, reports
exactly the bits it writes, and its sink calls are all valid and write those bits. -/
theorem C18_residual_sound (o n w : Nat) (ps qs rs : List Nat) (r : Residual)
    (h : Residual.new o n w ps qs rs = some r) :
    r = ⟨o, n, w, ps, qs, rs⟩ ∧ r.verify = true ∧ r.WF ∧ r.count = some r.bits.length ∧
    (∀ op ∈ r.ops, op.Valid) ∧ idealRun 0 r.ops = r.bits := by
  obtain ⟨he, hv⟩ := (residual_new_some o n w ps qs rs r).mp h
  have hwf := ((residual_verify_iff r).mp hv).1
  exact ⟨he, hv, hwf, C08_residual r hwf, C12_ops_valid_residual r hwf, C12_residual_ops r hwf 0⟩

/-- Every out-of-domain argument is rejected — over unbounded naturals, so also `o = 2^8 + k`,
`n = 2^16 + k`, … -/
theorem C18_residual_rejects (o n w : Nat) (ps qs rs : List Nat) :
    (o > 15 ∨ ps.length ≠ 2 ^ o ∨ n % 2 ^ o ≠ 0 ∨ n = 0 ∨ n > 32767 ∨ w > n / 2 ^ o ∨ qs.length ≠ n ∨
      rs.length ≠ n ∨ (∃ p ∈ ps, p > 14)) →
    Residual.new o n w ps qs rs = none := by
  intro hbad
  rw [residual_new_none]
  rintro ⟨⟨h1, h2, h3, h4, h5, h6, h7, h8, _⟩, hn⟩
  rw [partLen_eq] at h4
  simp only at h1 h2 h3 h4 h5 h6 h7 h8 hn
  rcases hbad with hb | hb | hb | hb | hb | hb | hb | hb | ⟨p, hp, hb⟩
  · omega
  · exact hb h2
  · exact hb (Nat.mod_eq_zero_of_dvd h3)
  · omega
  · omega
  · omega
  · exact hb h6
  · exact hb h7
  · have := h8 p hp; omega

/-- Completeness of the constructor: it fails *only* for the reasons listed in
`C18_residual_rejects`, the zero-warm-up rule, or an oversized remainder. -/
theorem C18_residual_complete (o n w : Nat) (ps qs rs : List Nat)
    (h : (⟨o, n, w, ps, qs, rs⟩ : Residual).WF) (hn : n ≤ 32767) :
    Residual.new o n w ps qs rs = some ⟨o, n, w, ps, qs, rs⟩ :=
  (residual_new_some o n w ps qs rs _).mpr ⟨rfl, (residual_verify_iff _).mpr ⟨h, hn⟩⟩

/-! ### quantised LPC parameters -/

theorem C18_qparams_sound (coefs : List Int) (order : Nat) (shift : Int) (precision : Nat) (q : QParams)
    (h : QParams.new coefs order shift precision = some q) :
    q = ⟨coefs, shift, precision⟩ ∧ q.verify = true ∧ q.coefs = coefs ∧ coefs.length = order ∧ order ≤ 24 ∧
    0 ≤ shift ∧ shift ≤ 15 ∧ 1 ≤ precision ∧ precision ≤ 15 ∧ ∀ c ∈ coefs, SubFrame.inRange precision c = true := by
  obtain ⟨rfl, hl, hv⟩ := (qparams_new_some coefs order shift precision q).mp h
  obtain ⟨h1, h2, h3, h4, h5, h6⟩ := (qparams_verify_iff _).mp hv
  simp only at h1 h2 h3 h4 h5 h6
  exact ⟨rfl, hv, rfl, hl, by omega, h2, h3, h4, h5, h6⟩

theorem C18_qparams_rejects (coefs : List Int) (order : Nat) (shift : Int) (precision : Nat) :
    (coefs.length ≠ order ∨ order > 24 ∨ precision = 0 ∨ precision > 15 ∨ shift < 0 ∨ shift > 15 ∨
      (∃ c ∈ coefs, SubFrame.inRange precision c = false)) →
    QParams.new coefs order shift precision = none := by
  intro hbad
  cases hq : QParams.new coefs order shift precision with
  | none => rfl
  | some q =>
    exfalso
    obtain ⟨_, _, _, h1, h2, h3, h4, h5, h6, h7⟩ := C18_qparams_sound coefs order shift precision q hq
    rcases hbad with hb | hb | hb | hb | hb | hb | ⟨c, hc, hb⟩
    · exact hb h1
    · omega
    · omega
    · omega
    · omega
    · omega
    · rw [h7 c hc] at hb; cases hb

/-! ### subframes -/

theorem C18_constant_sound (n : Nat) (dc : Int) (bps : Nat) (s : SubFrame)
    (h : Constant.new n dc bps = some s) :
    s = .constant n dc bps ∧ s.WF ∧ s.count = some s.bits.length ∧ (∀ op ∈ s.ops, op.Valid) ∧
    idealRun 0 s.ops = s.bits ∧ 1 ≤ n ∧ n ≤ 32767 := by
  obtain ⟨rfl, h1, h2, h3, h4⟩ := (constant_new_some n dc bps s).mp h
  have hb := bps_bounds h3
  have hwf : (SubFrame.constant n dc bps).WF := ⟨h1, hb.1, hb.2, h4⟩
  exact ⟨rfl, hwf, C08_subframe _ hwf, C12_ops_valid_subframe _ hwf, C12_subframe_ops _ hwf 0, h1, h2⟩

theorem C18_verbatim_sound (xs : List Int) (bps : Nat) (s : SubFrame) (h : Verbatim.new xs bps = some s) :
    s = .verbatim xs bps ∧ s.WF ∧ s.count = some s.bits.length ∧ (∀ op ∈ s.ops, op.Valid) ∧
    idealRun 0 s.ops = s.bits ∧ 1 ≤ xs.length ∧ xs.length ≤ 32767 := by
  obtain ⟨rfl, h1, h2, h3, h4⟩ := (verbatim_new_some xs bps s).mp h
  have hb := bps_bounds h3
  have hwf : (SubFrame.verbatim xs bps).WF := ⟨h1, hb.1, hb.2, h4⟩
  exact ⟨rfl, hwf, C08_subframe _ hwf, C12_ops_valid_subframe _ hwf, C12_subframe_ops _ hwf 0, h1, h2⟩

/-- `FixedLpc::new`: well formed in the weak sense (`warm.length ≤ blockSize`), and in the strong
sense of `SubFrame.WF` unless the subframe has no residual sample at all, which happens only with a
single partition and `blockSize = warm.length ≤ 4`. -/
theorem C18_fixed_sound (warm : List Int) (res : Residual) (bps : Nat) (s : SubFrame)
    (h : FixedLpc.new warm res bps = some s) :
    s = .fixed warm res bps ∧ s.WF' ∧ s.count = some s.bits.length ∧ (∀ op ∈ s.ops, op.Valid) ∧
    idealRun 0 s.ops = s.bits ∧ res.verify = true ∧
    (s.WF ∨ (res.order = 0 ∧ res.blockSize = warm.length ∧ res.blockSize ≤ 4)) := by
  obtain ⟨rfl, h1, h2, h3, h4, h5⟩ := (fixed_new_some warm res bps s).mp h
  have hb := bps_bounds h1
  have hr := ((residual_verify_iff res).mp h5).1
  have hle : warm.length ≤ res.blockSize := h4 ▸ warmup_le_of_wf res hr
  have hwf : (SubFrame.fixed warm res bps).WF' := ⟨h3, h4, hr, hle, hb.1, hb.2, h2⟩
  refine ⟨rfl, hwf, subframe_count' _ hwf, subframe_valid' _ hwf, subframe_ops' _ hwf 0, h5, ?_⟩
  by_cases hlt : warm.length < res.blockSize
  · exact Or.inl ((wf_iff_wf' _).mpr ⟨hwf, Or.inr hlt⟩)
  · have he : res.warmup = res.blockSize := by omega
    exact Or.inr ⟨warmup_eq_block res hr he, by omega, by omega⟩

/-- `Lpc::new`: same shape (the degenerate case needs `blockSize = order ≤ 24`). -/
theorem C18_lpc_sound (warm : List Int) (q : QParams) (res : Residual) (bps : Nat) (s : SubFrame)
    (h : Lpc.new warm q res bps = some s) :
    s = .lpc warm q.coefs q.shift q.precision res bps ∧ s.WF' ∧ s.count = some s.bits.length ∧
    (∀ op ∈ s.ops, op.Valid) ∧ idealRun 0 s.ops = s.bits ∧ q.verify = true ∧ res.verify = true ∧
    (s.WF ∨ (res.order = 0 ∧ res.blockSize = warm.length ∧ res.blockSize ≤ 24)) := by
  obtain ⟨rfl, h1, h2, h3, h4, h5, h6, h7, h8⟩ := (lpc_new_some warm q res bps s).mp h
  have hb := bps_bounds h1
  have hr := ((residual_verify_iff res).mp h8).1
  obtain ⟨q1, q2, q3, q4, q5, q6⟩ := (qparams_verify_iff q).mp h5
  have hle : warm.length ≤ res.blockSize := h7 ▸ warmup_le_of_wf res hr
  have hwf : (SubFrame.lpc warm q.coefs q.shift q.precision res bps).WF' :=
    ⟨h6, by omega, h4, h7, hr, hle, q4, q5, q2, q3, q6, hb.1, hb.2, h2⟩
  refine ⟨rfl, hwf, subframe_count' _ hwf, subframe_valid' _ hwf, subframe_ops' _ hwf 0, h5, h8, ?_⟩
  by_cases hlt : warm.length < res.blockSize
  · exact Or.inl ((wf_iff_wf' _).mpr ⟨hwf, Or.inr hlt⟩)
  · have he : res.warmup = res.blockSize := by omega
    exact Or.inr ⟨warmup_eq_block res hr he, by omega, by omega⟩

/-- Under `WF'` (hence for every accepted subframe) both in-memory sinks end up holding the
subframe's bits, and their length is the reported count: serialisation does not panic. -/
theorem C18_subframe_through_sinks (s : SubFrame) (h : s.WF') :
    (∃ w, WordSink.empty.run s.ops = some w ∧ w.abs = s.bits ∧ some w.len = s.count) ∧
    (∃ y, ByteSink.empty.run s.ops = some y ∧ y.abs = s.bits ∧ some y.len = s.count) :=
  through_sinks_subframe' s h

/-- `WF` is `WF'` plus "some residual sample is coded (or there is no warm-up)". -/
theorem C18_WF_iff_WF' (s : SubFrame) : s.WF ↔ (s.WF' ∧ (s.warmLen = 0 ∨ s.warmLen < s.blockSize)) :=
  wf_iff_wf' s

/-- The strict clause of `SubFrame.WF` does not follow from acceptance: block size 4, one
partition, warm-up 4 is accepted by `Residual::new` and `FixedLpc::new`, is not `WF`, yet is `WF'`,
counts its 82 bits exactly and writes them. -/
theorem C18_fixed_not_WF :
    let res : Residual := ⟨0, 4, 4, [0], [0, 0, 0, 0], [0, 0, 0, 0]⟩
    let s : SubFrame := .fixed [1, -2, 3, -4] res 16
    Residual.new 0 4 4 [0] [0, 0, 0, 0] [0, 0, 0, 0] = some res ∧ FixedLpc.new [1, -2, 3, -4] res 16 = some s ∧
    ¬ s.WF ∧ s.WF' ∧ s.count = some 82 ∧ s.bits.length = 82 ∧ idealRun 0 s.ops = s.bits := by decide

/-! ### block size zero, frame header -/

theorem C18_block_size_zero (dc : Int) (bps : Nat) (asg : ChannelAssignment) (rate : Nat) (v : Bool) (num : Nat) :
    Constant.new 0 dc bps = none ∧ Verbatim.new [] bps = none ∧ FrameHeader.new 0 asg bps rate v num = none ∧
    (∀ o w ps qs rs, Residual.new o 0 w ps qs rs = none) := by
  refine ⟨?_, ?_, header_new_none_of _ _ _ _ _ _ (Or.inl rfl), ?_⟩
  · cases hc : Constant.new 0 dc bps with
    | none => rfl
    | some s => have := (C18_constant_sound 0 dc bps s hc).2.2.2.2.2.1; omega
  · cases hc : Verbatim.new [] bps with
    | none => rfl
    | some s => have := (C18_verbatim_sound [] bps s hc).2.2.2.2.2.1; simp at this
  · intro o w ps qs rs
    exact C18_residual_rejects o 0 w ps qs rs (Or.inr (Or.inr (Or.inr (Or.inl rfl))))

/-- An accepted frame header has the requested fields, a non-reserved block-size code that decodes
to `n`, a verified channel assignment, a FLAC sample size, and serialises (with the FLAC CRC-8)
to exactly the number of bits it reports. For fixed blocking the frame number is a `u32` in the
Rust signature (`num < 2^32`); for variable blocking the constructor itself checks `num < 2^36`. -/
theorem C18_header_sound (n : Nat) (asg : ChannelAssignment) (bps rate : Nat) (v : Bool) (num : Nat)
    (h : FrameHeader) (hh : FrameHeader.new n asg bps rate v num = some h) :
    1 ≤ n ∧ n ≤ 32767 ∧ h.blockSizeSpec.blockSize = some n ∧ h.blockSizeSpec ≠ .reserved ∧
    asg.verify = true ∧ bps ∈ [8, 12, 16, 20, 24] ∧ rate < 2 ^ 32 ∧
    h.isVariable = v ∧ h.assignment = asg ∧ h.sampleSizeTag = sampleSizeTag bps ∧
    SampleRateSpec.fromFreq rate = some h.sampleRateSpec ∧ h.number = num ∧ h.assignment.tag ≤ 15 ∧
    (v = true → num < 2 ^ 36) ∧
    ((v = false → num < 2 ^ 32) → ∃ b, h.bits rfcCrc8 = some b ∧ b.length = h.count) := by
  obtain ⟨h1, h2, h3, h4, h5, h6, h7, h8, h9, h10, h11, h12, h13, h14⟩ :=
    header_new_some n asg bps rate v num h hh
  obtain ⟨bss, hb1, hb2, hb3⟩ := fromSize_spec n h1 h2
  rw [h3] at hb1
  cases hb1
  have htag : h.assignment.tag ≤ 15 := h12 ▸ assignment_tag_le asg h8
  have hbps : bps ∈ [8, 12, 16, 20, 24] := by
    rcases sampleSizeTag_ok bps h6 h7 with hb | hb | hb | hb | hb <;> subst hb <;> decide
  refine ⟨h1, h2, hb2, hb3, h8, hbps, h5, h11, h12, h13, h10, h14, htag, h9, fun hnum => ?_⟩
  have hlt : h.number < 2 ^ 36 := by
    rw [h14]
    cases v with
    | true => exact h9 rfl
    | false => have := hnum rfl; omega
  exact C08_header rfcCrc8 h hlt htag

/-- Rejections, over unbounded naturals. -/
theorem C18_header_rejects (n : Nat) (asg : ChannelAssignment) (bps rate : Nat) (v : Bool) (num : Nat) :
    (n = 0 ∨ n > 32767 ∨ bps ≥ 256 ∨ rate ≥ 2 ^ 32 ∨ asg.verify = false ∨ (v = true ∧ num ≥ 2 ^ 36) ∨
      ¬ (bps = 8 ∨ bps = 12 ∨ bps = 16 ∨ bps = 20 ∨ bps = 24)) →
    FrameHeader.new n asg bps rate v num = none :=
  header_new_none_of n asg bps rate v num

/-- Wrap-around arguments: a sample size `256 + k` (which a `u8` cast would turn into `k`, e.g. 16),
a rate `2^32 + k`, a block size `2^16 + k`, and a channel count `256 + k` are all rejected. -/
theorem C18_header_rejects_wraparound (k n : Nat) (asg : ChannelAssignment) (bps rate : Nat) (v : Bool) (num : Nat) :
    FrameHeader.new n asg (256 + k) rate v num = none ∧
    FrameHeader.new n asg bps (2 ^ 32 + k) v num = none ∧
    FrameHeader.new (2 ^ 16 + k) asg bps rate v num = none ∧
    FrameHeader.new n (.independent (256 + k)) bps rate v num = none ∧
    FrameHeader.new n asg (256 + 16) rate v num = none ∧
    FrameHeader.new n asg 16 (2 ^ 32 + 44100) v num = none := by
  refine ⟨?_, ?_, ?_, ?_, ?_, ?_⟩ <;> apply header_new_none_of
  · exact Or.inr (Or.inr (Or.inl (by omega)))
  · exact Or.inr (Or.inr (Or.inr (Or.inl (by omega))))
  · exact Or.inr (Or.inl (by omega))
  · refine Or.inr (Or.inr (Or.inr (Or.inr (Or.inl ?_))))
    simp only [ChannelAssignment.verify, Bool.and_eq_false_iff, decide_eq_false_iff_not]
    omega
  · exact Or.inr (Or.inr (Or.inl (by omega)))
  · exact Or.inr (Or.inr (Or.inr (Or.inl (by omega))))

/-! ### metadata -/

theorem C18_streaminfo_iff (rate ch bps : Nat) :
    (StreamInfo.new rate ch bps).isSome ↔
      (rate ≤ 96000 ∧ 1 ≤ ch ∧ ch ≤ 8 ∧ (bps = 8 ∨ bps = 12 ∨ bps = 16 ∨ bps = 20 ∨ bps = 24)) := by
  unfold StreamInfo.new
  simp only [verifyBps_iff]
  constructor
  · intro h
    split at h
    · next hc => exact ⟨hc.1, hc.2.1, hc.2.2.1, by omega⟩
    · cases h
  · rintro ⟨h1, h2, h3, h4⟩
    rw [if_pos ⟨h1, h2, h3, by omega, by omega, by omega⟩]
    rfl

/-- The accepted STREAMINFO is the empty one for these parameters, and serialises to 272 bits. -/
theorem C18_streaminfo_sound (rate ch bps : Nat) (s : StreamInfo) (h : StreamInfo.new rate ch bps = some s) :
    s = StreamInfo.empty rate ch bps ∧ s.bits.length = 272 ∧ idealRun 0 s.ops = s.bits := by
  unfold StreamInfo.new at h
  split at h
  · cases h
    exact ⟨rfl, C08_streaminfo _ (by simp [StreamInfo.empty]), C12_streaminfo_ops _ 0 rfl⟩
  · cases h

/-- `new_unknown` accepts exactly the types `1..=126`: 127 is invalid, 0 is STREAMINFO's. -/
theorem C18_unknown_iff (tag : Nat) (data : List Nat) :
    (UnknownBlock.new tag data).isSome ↔ (1 ≤ tag ∧ tag ≤ 126) := by
  unfold UnknownBlock.new
  by_cases h : 1 ≤ tag ∧ tag ≤ 126
  · simp [h]
  · simp [h]

/-! ### non-vacuity: accepted components, and rejected wrap-around arguments -/

/-- Order 1, block size 8, warm-up 2: accepted, 43 bits. -/
example :
    let r : Residual := ⟨1, 8, 2, [2, 3], [0, 0, 1, 2, 0, 3, 1, 0], [0, 0, 3, 1, 2, 7, 0, 5]⟩
    Residual.new 1 8 2 [2, 3] [0, 0, 1, 2, 0, 3, 1, 0] [0, 0, 3, 1, 2, 7, 0, 5] = some r ∧
    r.count = some 43 ∧ r.bits.length = 43 := by decide

/-- An accepted second-order LPC subframe over it (100 bits), built through both constructors. -/
example :
    let r : Residual := ⟨1, 8, 2, [2, 3], [0, 0, 1, 2, 0, 3, 1, 0], [0, 0, 3, 1, 2, 7, 0, 5]⟩
    QParams.new [7, -2] 2 3 4 = some ⟨[7, -2], 3, 4⟩ ∧
    Lpc.new [5, -3] ⟨[7, -2], 3, 4⟩ r 16 = some (.lpc [5, -3] [7, -2] 3 4 r 16) ∧
    (SubFrame.lpc [5, -3] [7, -2] 3 4 r 16).WF ∧
    (SubFrame.lpc [5, -3] [7, -2] 3 4 r 16).count = some 100 := by decide

/-- Accepted constant, verbatim and fixed subframes. -/
example :
    (Constant.new 8 (-5) 17).isSome = true ∧ (Verbatim.new [1, -128, 127] 8).isSome = true ∧
    (FixedLpc.new [5, -3] ⟨1, 8, 2, [2, 3], [0, 0, 1, 2, 0, 3, 1, 0], [0, 0, 3, 1, 2, 7, 0, 5]⟩ 16).isSome = true := by
  decide

/-- An accepted header (block size 8, left/side stereo, 16 bit, 44.1 kHz, frame 300): 64 bits. -/
example :
    FrameHeader.new 8 .leftSide 16 44100 false 300 = some ⟨false, .extraByte 7, .leftSide, 4, .fixed 9, 300, 0⟩ ∧
    (FrameHeader.new 4096 (.independent 2) 24 96000 true (2 ^ 36 - 1)).isSome = true ∧
    ((FrameHeader.new 8 .leftSide 16 44100 false 300).bind (·.bits rfcCrc8)).map (·.length) = some 64 ∧
    (FrameHeader.new 8 .leftSide 16 44100 false 300).map (·.count) = some 64 := by decide

/-- Accepted metadata. -/
example : (StreamInfo.new 44100 2 16).isSome = true ∧ (UnknownBlock.new 126 [1, 2, 3]).isSome = true ∧
    (UnknownBlock.new 1 []).isSome = true := by decide

/-- The STREAMINFO type 0 and the invalid type 127 are rejected. -/
example : UnknownBlock.new 0 [1, 2, 3] = none ∧ UnknownBlock.new 127 [] = none := by decide

/-- Wrap-around arguments are rejected: order `257 ≡ 1 (mod 2^8)`, an LPC order that disagrees
with the coefficient list, a rate `≡ 44100 (mod 2^32)`, a channel count `≡ 2 (mod 2^8)`,
a sample size `≡ 16 (mod 2^8)`, a metadata type `≡ 4 (mod 2^7)`. -/
example :
    Residual.new 257 8 2 [2, 3] [0, 0, 1, 2, 0, 3, 1, 0] [0, 0, 3, 1, 2, 7, 0, 5] = none ∧
    Residual.new 1 (2 ^ 16 + 8) 2 [2, 3] [0, 0, 1, 2, 0, 3, 1, 0] [0, 0, 3, 1, 2, 7, 0, 5] = none ∧
    QParams.new [1, 2] 3 3 4 = none ∧ QParams.new [1, 2] 2 3 (16 + 4) = none ∧ QParams.new [1, 2] 2 (32 + 3) 4 = none ∧
    StreamInfo.new (2 ^ 32 + 44100) 2 16 = none ∧ StreamInfo.new 44100 258 16 = none ∧
    StreamInfo.new 44100 2 (256 + 16) = none ∧ UnknownBlock.new (128 + 4) [] = none ∧
    FrameHeader.new 8 .leftSide (256 + 16) 44100 false 300 = none ∧
    FrameHeader.new 8 .leftSide 16 (2 ^ 32 + 44100) false 300 = none ∧
    FrameHeader.new 8 (.independent 258) 16 44100 false 300 = none ∧
    FrameHeader.new 8 .leftSide 16 44100 true (2 ^ 36) = none := by decide

end FlacVerif
