/-
C19 — "Serialising any configuration to TOML and parsing it back yields an equal configuration;
parsing a document that omits fields yields the documented default for exactly those fields; a
parsed configuration is accepted or rejected by verification exactly as the equivalent in-memory
value."

`X.toT` / `X.fromT` (`Gen/Config.lean`) are the serde shape of the `#[derive(Serialize,
Deserialize)]`, `#[serde(default)]`, `#[serde(tag = "type")]`, `#[serde(default = "…")]` attributes
of `src/config.rs`, over the serde data model `TVal` (`Model/TVal.lean`); `X.resetFields par ks c`
is `c` with the fields named in `ks` replaced by the `impl Default` value; `TVal.eraseKeys ks`
removes keys from a table, `TVal.eraseAt path ks` (`Lemmas/Config.lean`) does so in the section
reached by `path`.  `par` = cargo feature "par", `exp` = cargo feature "experimental".
-/
import FlacVerif.Lemmas.Config
namespace FlacVerif
open Gen ConfigL

/-- `workers : Option<NonZeroUsize>`: `Some(0)` does not exist in Rust. -/
def Gen.Encoder.Wf (c : Encoder) : Prop := c.workers ≠ some 0

/-! ### round trip -/

theorem C19_roundtrip (par : Bool) (c : Encoder) (h : c.Wf) :
    Encoder.fromT par (Encoder.toT c) = .ok c :=
  encoder_roundtrip par c h

theorem C19_roundtrip_stereo (par : Bool) (c : StereoCoding) :
    StereoCoding.fromT par (StereoCoding.toT c) = .ok c := stereo_roundtrip par c
theorem C19_roundtrip_subframe (par : Bool) (c : SubFrameCoding) :
    SubFrameCoding.fromT par (SubFrameCoding.toT c) = .ok c := subframe_roundtrip par c
theorem C19_roundtrip_prc (par : Bool) (c : Prc) : Prc.fromT par (Prc.toT c) = .ok c :=
  prc_roundtrip par c
theorem C19_roundtrip_fixed (par : Bool) (c : Fixed) : Fixed.fromT par (Fixed.toT c) = .ok c :=
  fixed_roundtrip par c
theorem C19_roundtrip_qlpc (par : Bool) (c : Qlpc) : Qlpc.fromT par (Qlpc.toT c) = .ok c :=
  qlpc_roundtrip par c
theorem C19_roundtrip_window (par : Bool) (w : Window) : Window.fromT par (Window.toT w) = .ok w :=
  window_roundtrip par w
theorem C19_roundtrip_orderSel (par : Bool) (o : OrderSel) :
    OrderSel.fromT par (OrderSel.toT o) = .ok o := orderSel_roundtrip par o

/-- The parser only produces well-formed values (`workers = 0` is a parse error), so `Wf` is no
restriction on parsed configurations. -/
theorem C19_parsed_wf (par : Bool) (t : TVal) (c : Encoder) (h : Encoder.fromT par t = .ok c) :
    c.Wf :=
  encoder_parsed_workers par t c h

/-- Without `Wf` the round trip fails: the model's `some 0` (not a Rust value) is a parse error. -/
theorem C19_roundtrip_needs_wf (par : Bool) :
    Encoder.fromT par (Encoder.toT { Encoder.default par with workers := some 0 }) =
      .error "expected a non-zero integer" := by
  cases par <;> rfl

/-! ### verification commutes with serialise-then-parse -/

theorem C19_verify_commutes (par exp : Bool) (c : Encoder) (h : c.Wf) :
    (Encoder.fromT par (Encoder.toT c)).map (Encoder.verify exp) = .ok (Encoder.verify exp c) := by
  rw [C19_roundtrip par c h]; rfl

/-! ### omitted fields -/

theorem C19_empty_document (par : Bool) : Encoder.fromT par (.table []) = .ok (Encoder.default par) :=
  rfl

theorem C19_empty_section (par : Bool) :
    StereoCoding.fromT par (.table []) = .ok (StereoCoding.default par) ∧
    SubFrameCoding.fromT par (.table []) = .ok (SubFrameCoding.default par) ∧
    Prc.fromT par (.table []) = .ok (Prc.default par) ∧
    Fixed.fromT par (.table []) = .ok (Fixed.default par) ∧
    Qlpc.fromT par (.table []) = .ok (Qlpc.default par) :=
  ⟨rfl, rfl, rfl, rfl, rfl⟩

/-- Omitting ANY set `ks` of top-level keys yields the default for exactly those fields. -/
theorem C19_omitted_fields (par : Bool) (c : Encoder) (h : c.Wf) (ks : List String) :
    Encoder.fromT par ((Encoder.toT c).eraseKeys ks) = .ok (Encoder.resetFields par ks c) :=
  encoder_omitted par c h ks

theorem C19_omitted_fields_stereo (par : Bool) (c : StereoCoding) (ks : List String) :
    StereoCoding.fromT par ((StereoCoding.toT c).eraseKeys ks) =
      .ok (StereoCoding.resetFields par ks c) := stereo_omitted par c ks
theorem C19_omitted_fields_subframe (par : Bool) (c : SubFrameCoding) (ks : List String) :
    SubFrameCoding.fromT par ((SubFrameCoding.toT c).eraseKeys ks) =
      .ok (SubFrameCoding.resetFields par ks c) := subframe_omitted par c ks
theorem C19_omitted_fields_prc (par : Bool) (c : Prc) (ks : List String) :
    Prc.fromT par ((Prc.toT c).eraseKeys ks) = .ok (Prc.resetFields par ks c) :=
  prc_omitted par c ks
theorem C19_omitted_fields_fixed (par : Bool) (c : Fixed) (ks : List String) :
    Fixed.fromT par ((Fixed.toT c).eraseKeys ks) = .ok (Fixed.resetFields par ks c) :=
  fixed_omitted par c ks
theorem C19_omitted_fields_qlpc (par : Bool) (c : Qlpc) (ks : List String) :
    Qlpc.fromT par ((Qlpc.toT c).eraseKeys ks) = .ok (Qlpc.resetFields par ks c) :=
  qlpc_omitted par c ks

/-- The internally tagged enums: omitting `partitions` gives the per-field default 16, omitting
`type` is an error (whatever else is omitted). -/
theorem C19_omitted_orderSel (par : Bool) (o : OrderSel) (ks : List String) :
    OrderSel.fromT par ((OrderSel.toT o).eraseKeys ks) =
      if ks.contains "type" then .error "unknown or missing `type` for OrderSel"
      else .ok (match o with
        | .BitCount => .BitCount
        | .ApproxEnt p => .ApproxEnt (if ks.contains "partitions" then 16 else p)) :=
  orderSel_omitted par o ks

/-- Omitting `alpha` gives the per-field default `0.4f32`; omitting `type` is an error. -/
theorem C19_omitted_window (par : Bool) (w : Window) (ks : List String) :
    Window.fromT par ((Window.toT w).eraseKeys ks) =
      if ks.contains "type" then .error "unknown or missing `type` for Window"
      else .ok (match w with
        | .Rectangle => .Rectangle
        | .Tukey a => .Tukey (if ks.contains "alpha" then 0x3ECCCCCD else a)) :=
  window_omitted par w ks

theorem C19_omitted_partitions (par : Bool) (p : Nat) :
    OrderSel.fromT par ((OrderSel.toT (.ApproxEnt p)).eraseKeys ["partitions"]) =
      .ok (.ApproxEnt 16) := by
  rw [C19_omitted_orderSel]; rfl

theorem C19_omitted_alpha (par : Bool) (a : Nat) :
    Window.fromT par ((Window.toT (.Tukey a)).eraseKeys ["alpha"]) = .ok (.Tukey 0x3ECCCCCD) := by
  rw [C19_omitted_window]; rfl

theorem C19_omitted_type (par : Bool) (o : OrderSel) (w : Window) :
    (∃ e, OrderSel.fromT par ((OrderSel.toT o).eraseKeys ["type"]) = .error e) ∧
    (∃ e, Window.fromT par ((Window.toT w).eraseKeys ["type"]) = .error e) := by
  rw [C19_omitted_orderSel, C19_omitted_window]
  exact ⟨⟨_, rfl⟩, ⟨_, rfl⟩⟩

/-! ### omitted keys INSIDE sections of the whole document

`(Encoder.toT c).eraseAt path ks`: the full document of `c` with the keys `ks` removed from the
section `[path]`.  The result is `c` with exactly those fields of that section reset. -/

theorem C19_omitted_in_stereo (par : Bool) (c : Encoder) (h : c.Wf) (ks : List String) :
    Encoder.fromT par ((Encoder.toT c).eraseAt ["stereo_coding"] ks) =
      .ok { c with stereo_coding := StereoCoding.resetFields par ks c.stereo_coding } := by
  simp only [TVal.eraseAt]
  rw [encoder_section_stereo par c h, stereo_omitted]; rfl

theorem C19_omitted_in_subframe (par : Bool) (c : Encoder) (h : c.Wf) (ks : List String) :
    Encoder.fromT par ((Encoder.toT c).eraseAt ["subframe_coding"] ks) =
      .ok { c with subframe_coding := SubFrameCoding.resetFields par ks c.subframe_coding } := by
  simp only [TVal.eraseAt]
  rw [encoder_section_subframe par c h, subframe_omitted]; rfl

theorem C19_omitted_in_fixed (par : Bool) (c : Encoder) (h : c.Wf) (ks : List String) :
    Encoder.fromT par ((Encoder.toT c).eraseAt ["subframe_coding", "fixed"] ks) =
      .ok { c with subframe_coding := { c.subframe_coding with
              fixed := Fixed.resetFields par ks c.subframe_coding.fixed } } := by
  simp only [TVal.eraseAt]
  rw [encoder_section_subframe par c h, subframe_section_fixed, fixed_omitted]; rfl

theorem C19_omitted_in_qlpc (par : Bool) (c : Encoder) (h : c.Wf) (ks : List String) :
    Encoder.fromT par ((Encoder.toT c).eraseAt ["subframe_coding", "qlpc"] ks) =
      .ok { c with subframe_coding := { c.subframe_coding with
              qlpc := Qlpc.resetFields par ks c.subframe_coding.qlpc } } := by
  simp only [TVal.eraseAt]
  rw [encoder_section_subframe par c h, subframe_section_qlpc, qlpc_omitted]; rfl

theorem C19_omitted_in_prc (par : Bool) (c : Encoder) (h : c.Wf) (ks : List String) :
    Encoder.fromT par ((Encoder.toT c).eraseAt ["subframe_coding", "prc"] ks) =
      .ok { c with subframe_coding := { c.subframe_coding with
              prc := Prc.resetFields par ks c.subframe_coding.prc } } := by
  simp only [TVal.eraseAt]
  rw [encoder_section_subframe par c h, subframe_section_prc, prc_omitted]; rfl

/-- `[subframe_coding.fixed.order_sel]` with `type = "ApproxEnt"` but no `partitions`. -/
theorem C19_omitted_in_orderSel (par : Bool) (c : Encoder) (h : c.Wf) (p : Nat)
    (hp : c.subframe_coding.fixed.order_sel = .ApproxEnt p) :
    Encoder.fromT par
        ((Encoder.toT c).eraseAt ["subframe_coding", "fixed", "order_sel"] ["partitions"]) =
      .ok { c with subframe_coding := { c.subframe_coding with
              fixed := { c.subframe_coding.fixed with order_sel := .ApproxEnt 16 } } } := by
  simp only [TVal.eraseAt]
  rw [encoder_section_subframe par c h, subframe_section_fixed, fixed_section_orderSel, hp,
    C19_omitted_partitions]; rfl

/-- `[subframe_coding.qlpc.window]` with `type = "Tukey"` but no `alpha`. -/
theorem C19_omitted_in_window (par : Bool) (c : Encoder) (h : c.Wf) (a : Nat)
    (ha : c.subframe_coding.qlpc.window = .Tukey a) :
    Encoder.fromT par
        ((Encoder.toT c).eraseAt ["subframe_coding", "qlpc", "window"] ["alpha"]) =
      .ok { c with subframe_coding := { c.subframe_coding with
              qlpc := { c.subframe_coding.qlpc with window := .Tukey 0x3ECCCCCD } } } := by
  simp only [TVal.eraseAt]
  rw [encoder_section_subframe par c h, subframe_section_qlpc, qlpc_section_window, ha,
    C19_omitted_alpha]; rfl

/-- A parsed configuration (any subset of top-level keys omitted) is accepted or rejected exactly as
the equivalent in-memory value. -/
theorem C19_verify_commutes_omitted (par exp : Bool) (c : Encoder) (h : c.Wf) (ks : List String) :
    (Encoder.fromT par ((Encoder.toT c).eraseKeys ks)).map (Encoder.verify exp) =
      .ok (Encoder.verify exp (Encoder.resetFields par ks c)) := by
  rw [C19_omitted_fields par c h ks]; rfl

/-! ### the documented defaults, literally -/

theorem C19_default_documented (par : Bool) : Encoder.default par =
    { block_size := 4096, multithread := par, workers := none,
      stereo_coding := ⟨true, true, true⟩,
      subframe_coding := { use_constant := true, use_fixed := true, use_lpc := true,
                           fixed := ⟨4, .ApproxEnt 16⟩,
                           qlpc := ⟨10, 15, false, 0, .Tukey 0x3ECCCCCD⟩, prc := ⟨14⟩ } } :=
  rfl

/-- The default is well formed and is a fixed point of serialise-then-parse. -/
theorem C19_default_roundtrip (par : Bool) :
    Encoder.fromT par (Encoder.toT (Encoder.default par)) = .ok (Encoder.default par) :=
  C19_roundtrip par _ (by simp [Encoder.Wf, Encoder.default])

/-! ### Non-vacuity -/

section Examples

private def c1 : Encoder :=
  { block_size := 1152, multithread := false, workers := some 3,
    stereo_coding := ⟨true, false, true⟩,
    subframe_coding :=
      { use_constant := false, use_fixed := true, use_lpc := true,
        fixed := ⟨2, .BitCount⟩, qlpc := ⟨8, 12, false, 0, .Tukey 0x3F000000⟩, prc := ⟨10⟩ } }

example : c1.Wf := by simp [Encoder.Wf, c1]
example : c1 ≠ Encoder.default true := by decide
example : Encoder.fromT true (Encoder.toT c1) = .ok c1 := by rfl
example : Encoder.fromT false (Encoder.toT c1) = .ok c1 := by rfl
-- a document with only `block_size` gives defaults elsewhere
example : Encoder.fromT true (.table [("block_size", .int 1152)]) =
    .ok { Encoder.default true with block_size := 1152 } := by rfl
-- the crate's own test: `[subframe_coding.qlpc] lpc_order = 7`
example : Encoder.fromT true
    (.table [("subframe_coding", .table [("qlpc", .table [("lpc_order", .int 7)])])]) =
    .ok { Encoder.default true with subframe_coding :=
            { SubFrameCoding.default true with qlpc :=
                { Qlpc.default true with lpc_order := 7 } } } := by rfl
-- omitting keys of the non-default configuration
example : Encoder.fromT true ((Encoder.toT c1).eraseKeys ["workers", "block_size"]) =
    .ok { c1 with workers := none, block_size := 4096 } := by rfl
example : Encoder.fromT true
    ((Encoder.toT c1).eraseAt ["subframe_coding", "qlpc"] ["window", "lpc_order"]) =
    .ok { c1 with subframe_coding := { c1.subframe_coding with
            qlpc := ⟨10, 12, false, 0, .Tukey 0x3ECCCCCD⟩ } } := by rfl
-- integer where a float is expected: `alpha = 1` parses as 1.0
example : Window.fromT true (.table [("type", .str "Tukey"), ("alpha", .int 1)]) =
    .ok (.Tukey 0x3F800000) := by rfl
-- parse errors: wrong type, zero workers, unknown variant
example : Encoder.fromT true (.table [("block_size", .bool true)]) =
    .error "expected an integer" := by rfl
example : Encoder.fromT true (.table [("workers", .int 0)]) =
    .error "expected a non-zero integer" := by rfl
example : OrderSel.fromT true (.table [("type", .str "Nope")]) =
    .error "unknown or missing `type` for OrderSel" := by rfl
-- parsing succeeds on out-of-range values; verification then rejects (crate test
-- `deserialize_and_verify`: `[subframe_coding.qlpc] lpc_order = 256`)
example : (Encoder.fromT true
    (.table [("subframe_coding", .table [("qlpc", .table [("lpc_order", .int 256)])])])).map
      (Encoder.verify false) = .ok false := by rfl

end Examples

end FlacVerif
