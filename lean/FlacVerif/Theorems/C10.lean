/-
C10 — The bytes produced for a given (configuration, input) do not depend on what the calling
thread encoded, serialised or parsed before.

The mechanism under scrutiny is the crate's thread-local reusable scratch storage (`reusable!` /
`reuse!`, `src/lib.rs:92-116`): every use site receives a buffer with the STALE contents and
length of the previous call. `FlacVerif/Model/Scratch.lean` mirrors each site as a function of the
stale buffer(s); the FRAME theorems below state that what the caller reads afterwards does not
depend on them — wherever a stateless mirror exists, as equality with that mirror.

Property theorems and non-vacuity examples only; helper lemmas live in
`FlacVerif/Lemmas/Scratch{Cache,Finder,Qlpc,Fixed,Ms,Crc,History}.lean`.
-/
import FlacVerif.Lemmas.ScratchCache
import FlacVerif.Lemmas.ScratchFinder
import FlacVerif.Lemmas.ScratchQlpc
import FlacVerif.Lemmas.ScratchFixed
import FlacVerif.Lemmas.ScratchMs
import FlacVerif.Lemmas.ScratchCrc
import FlacVerif.Lemmas.ScratchHistory
namespace FlacVerif
open Scratch

/-! ### site 6 — window cache (`lpc.rs` `WINDOW_CACHE`, `WindowKey`, `fingerprint_window`) -/

/-- The cache key separates any two requests: equal keys mean equal size and equal window.
`Win.Valid` is the type invariant `alpha.to_bits() < 2^32`. -/
theorem C10_key_injective (s1 s2 : Nat) (w1 w2 : Win) (h1 : w1.Valid) (h2 : w2.Valid) :
    Key.mk s1 (fingerprint w1) = Key.mk s2 (fingerprint w2) → s1 = s2 ∧ w1 = w2 :=
  key_injective s1 s2 w1 w2 h1 h2

/-- One `get_window` call on a cache in ANY state reachable by earlier calls (`Inv`: every entry
was computed for the `(size, window)` of its key): the weights handed out were computed for
exactly the requested `(size, window)`, and the invariant is kept. -/
theorem C10_window_cache (c : Cache) (hinv : c.Inv) (size : Nat) (w : Win) (hw : w.Valid) :
    (c.lookupOrInsert size w).2 = (size, w) ∧ (c.lookupOrInsert size w).1.Inv :=
  Cache.lookupOrInsert_spec c hinv size w hw

/-- History form: any sequence of `get_window` calls on one thread, starting from the empty
thread-local map, returns call by call what a fresh cache returns for that call alone. -/
theorem C10_window_history (reqs : List (Nat × Win)) (hv : ∀ r ∈ reqs, r.2.Valid) :
    Cache.empty.run reqs = reqs.map fun r => (Cache.empty.lookupOrInsert r.1 r.2).2 := by
  rw [Cache.run_spec Cache.empty Cache.inv_empty reqs hv]
  have : ∀ l : List (Nat × Win), (∀ r ∈ l, r.2.Valid) →
      l = l.map fun r => (Cache.empty.lookupOrInsert r.1 r.2).2 := by
    intro l hl
    induction l with
    | nil => rfl
    | cons r l ih =>
      rw [List.map_cons, ← ih (fun x hx => hl x (by simp [hx])),
        (Cache.lookupOrInsert_spec Cache.empty Cache.inv_empty r.1 r.2 (hl r (by simp))).1]
  exact this reqs hv

/-- … and the same from any reachable cache state. -/
theorem C10_window_history_from (c : Cache) (hinv : c.Inv) (reqs : List (Nat × Win))
    (hv : ∀ r ∈ reqs, r.2.Valid) : c.run reqs = Cache.empty.run reqs := by
  rw [Cache.run_spec c hinv reqs hv, Cache.run_spec Cache.empty Cache.inv_empty reqs hv]

/-- NEGATIVE control. With the old quantised fingerprint (any map that identifies two distinct
alphas) the second call of this two-call history is served the window computed for the FIRST
alpha: the result of a call depends on the thread's history. Hence `C10_window_cache` is not
vacuous, and `C10_key_injective` is what it rests on. -/
theorem C10_old_fingerprint_leaks :
    fingerprintOld (.tukey 0x3DCCCCCD) = fingerprintOld (.tukey 0x3DCCCCCC) ∧
    Cache.runWith fingerprintOld Cache.empty [(4096, .tukey 0x3DCCCCCD), (4096, .tukey 0x3DCCCCCC)]
      = [(4096, .tukey 0x3DCCCCCD), (4096, .tukey 0x3DCCCCCD)] ∧
    Cache.runWith fingerprintOld Cache.empty [(4096, .tukey 0x3DCCCCCC)] = [(4096, .tukey 0x3DCCCCCC)] ∧
    Cache.runWith fingerprint Cache.empty [(4096, .tukey 0x3DCCCCCD), (4096, .tukey 0x3DCCCCCC)]
      = [(4096, .tukey 0x3DCCCCCD), (4096, .tukey 0x3DCCCCCC)] := by
  decide

/-! ### site 4 — `PRC_FINDER` (`rice.rs` `PrcParameterFinder::find`) -/

/-- The parameter returned by `find_partitioned_rice_parameter` does not depend on the four stale
vectors (`errors`, `tables`, `ps`, `min_ps`) left by earlier calls. No hypothesis. -/
theorem C10_prc_finder_indep (s1 s2 : FinderState) (signal : List Int) (warm maxP : Nat) :
    findResult s1 signal warm maxP = findResult s2 signal warm maxP := by
  rw [findResult_eq s1, findResult_eq s2]

/-- … and it is the result of the stateless mirror `search` (the subject of C13). The bound on
the length keeps the partition count below `MAX_RICE_PARTITIONS = 2^15`, whose `assert!` in
`merge_partitions` the stateless mirror does not model (block sizes are `< 2^16`). -/
theorem C10_prc_finder (stale : FinderState) (signal : List Int) (warm maxP : Nat)
    (hlen : signal.length < 2 ^ 21) :
    findResult stale signal warm maxP = search signal warm maxP := by
  rw [findResult_eq]
  cases ho : finestOrder signal.length (max 64 warm) with
  | none =>
    simp only
    unfold search
    cases hes : signal.mapM encodeSignbit with
    | none => rfl
    | some es =>
      have hl := mapM_some_length _ _ _ hes
      simp [searchFolded, hl, ho]
  | some o =>
    simp only
    have h15 : o < 15 := by
      unfold finestOrder at ho
      split at ho
      · cases ho
      · simp only at ho
        split at ho
        · cases ho
        · rename_i hm0 hs0
          simp only [Option.some.injEq] at ho
          have hb : signal.length / max 64 warm % u32 < 2 ^ 15 := by
            have h1 : signal.length / max 64 warm ≤ signal.length / 64 :=
              Nat.div_le_div_left (Nat.le_max_left 64 warm) (by omega)
            have h2 : signal.length / max 64 warm % u32 ≤ signal.length / max 64 warm := Nat.mod_le _ _
            omega
          have := (Nat.log2_lt hs0).mpr hb
          omega
    rw [if_pos h15]

/-! ### site 2 — `QLPC_ERROR_BUFFER` (`coding.rs` `estimated_qlpc`, `lpc.rs` `compute_error`) -/

/-- The residual buffer (handed to `encode_residual` if the flag is set) and the flag are those of the
stateless `computeError`, whatever the re-used vector contained and however long it was. -/
theorem C10_qlpc_errors (stale : List Int) (coefs : List Int) (shift : Nat) (signal : List Int) :
    qlpcErrors stale coefs shift signal = computeError coefs shift signal :=
  qlpcErrors_eq stale coefs shift signal

/-! ### site 1 — `FIXED_LPC_ERRORS` (`coding.rs` `reset_fixed_lpc_errors`) -/

/-- `errors[k].as_ref()` after the reset is the `k`-th wrapping difference signal of the stateless
mirror, for ANY five stale `SimdVec`s (any lengths, any lane contents). No range hypothesis is
needed: the lanes are copied unchanged for `k = 0`, and both sides wrap to `i32` in every pass. -/
theorem C10_fixed_errors (stale : List SimdVec) (h5 : stale.length = 5) (signal : List Int)
    (k : Nat) (hk : k ≤ 4) :
    readErrors (resetFixedLpcErrors stale signal) k = diffs k signal := by
  match stale, h5 with
  | [s0, s1, s2, s3, s4], _ =>
    rw [resetFixedLpcErrors_eq]
    rcases k with _ | _ | _ | _ | _ | k
    · exact errAt_asRef signal 0
    · exact errAt_asRef signal 1
    · exact errAt_asRef signal 2
    · exact errAt_asRef signal 3
    · exact errAt_asRef signal 4
    · omega

/-- Further sites of the same kind in `lpc.rs`: `CAST_BUFFER` (read through `iter_simd()`, i.e.
including the padding lanes of the last vector), `LpcEstimator::windowed_signal`
(`reset_from_iter_simd`) and `corr_coefs` (`resize` + `fill(0)`) are functions of the new data
only. -/
theorem C10_lpc_estimator_buffers (stale : SimdVec) (staleC : List Int) (signal : List Int)
    (it : List Vec16) (newLen lpcOrder : Nat) :
    castBuffer stale signal = castBuffer default signal ∧
    (castBuffer stale signal).asRef = signal ∧
    stale.resetFromIterSimd newLen it = (default : SimdVec).resetFromIterSimd newLen it ∧
    corrCoefsInit staleC lpcOrder = List.replicate (lpcOrder + 1) 0 := by
  refine ⟨?_, ?_, rfl, ?_⟩
  · simp only [castBuffer, SimdVec.resetFromSlice, packIntoSimdVec_eq]
  · have := errAt_asRef signal 0
    simpa [castBuffer, SimdVec.resetFromSlice, packIntoSimdVec_eq, errAt, diffs] using this
  · simp [corrCoefsInit, vecFill, List.map_const']

/-! ### site 3 — `MSFRAMEBUF` (`coding.rs` `try_stereo_coding`, `source.rs` `FrameBuf`) -/

/-- After `resize(size)` and `fill_stereo_with_iter`, `filled_size()` and the two channel slices
read by `encode_frame_impl` are the (length-limited) mid and side signals of `(l, r)`, for any
stale stereo buffer; the buffer invariant (two channels of `size > 0` cells) is re-established. -/
theorem C10_msframebuf (stale : Scratch.FrameBuf) (hinv : stale.Inv) (size : Nat) (hs : 0 < size)
    (l r : List Int) :
    ∃ fb, msFrameBuf stale size l r = some (fb,
        ⟨(((l.zip r).map fun p => midSide p.1 p.2).take size).length,
         (((l.zip r).map fun p => midSide p.1 p.2).take size).map (·.1),
         (((l.zip r).map fun p => midSide p.1 p.2).take size).map (·.2)⟩) ∧ fb.Inv :=
  msFrameBuf_spec stale hinv size hs l r

/-- Frame form: two stale buffers give the same reads. -/
theorem C10_msframebuf_indep (s1 s2 : Scratch.FrameBuf) (h1 : s1.Inv) (h2 : s2.Inv) (size : Nat)
    (hs : 0 < size) (l r : List Int) :
    (msFrameBuf s1 size l r).map (·.2) = (msFrameBuf s2 size l r).map (·.2) := by
  obtain ⟨_, e1, _⟩ := msFrameBuf_spec s1 h1 size hs l r
  obtain ⟨_, e2, _⟩ := msFrameBuf_spec s2 h2 size hs l r
  rw [e1, e2]; rfl

/-- The initial value of the thread-local satisfies the invariant. -/
theorem C10_msframebuf_init : Scratch.FrameBuf.newStereoBuffer.Inv := Scratch.FrameBuf.inv_new

/-! ### site 5 — `FRAME_CRC_BUFFER`, `HEADER_CRC_BUFFER` (`bitrepr.rs`) -/

/-- `Frame::write`: after `clear()` the re-used `MemSink<u64>` is an empty sink, and
`bytebuf.resize(len >> 3, 0)` + `write_to_byte_slice` overwrite every byte: the bytes handed to the
destination sink and to the CRC-16 are the exported bytes of a FRESH sink that received the same
writes, for any stale pair. -/
theorem C10_frame_crc_buffer (stale : WordSink × List Nat) (countBits : Nat) (ops : List Op)
    (hv : ∀ op ∈ ops, op.Valid) :
    ∃ s, WordSink.empty.run ops = some s ∧
      frameCrcWrite stale countBits ops
        = some ((s.alignToByte, s.alignToByte.exportBytes), s.alignToByte.exportBytes) :=
  frameCrcWrite_eq stale countBits ops hv

/-- `FrameHeader::write`: after `clear()` the re-used `ByteSink` is an empty sink. -/
theorem C10_header_crc_buffer (stale : ByteSink) (countBits : Nat) (ops : List Op) :
    headerCrcWrite stale countBits ops = (ByteSink.empty.run ops).map fun s => (s, s.exportBytes) :=
  headerCrcWrite_eq stale countBits ops

/-- `clear()` itself. -/
theorem C10_sink_clear (w : WordSink) (b : ByteSink) :
    wordSinkClear w = WordSink.empty ∧ byteSinkClear b = ByteSink.empty := ⟨rfl, rfl⟩

/-! ### the property in history form -/

/-- One call on ANY reachable scratch state of a thread (`ThreadState.Inv`: five error planes, a
two-channel stereo buffer of positive size, a cache whose entries match their keys) replies what
the same call replies on a fresh thread, and keeps the state reachable. -/
theorem C10_call_frame (st : ThreadState) (c : Call) (hinv : st.Inv) (hok : c.Ok) :
    (stepAll st c).map (·.2) = (stepAll ThreadState.fresh c).map (·.2) ∧
    ∀ st' r, stepAll st c = some (st', r) → st'.Inv :=
  stepAll_frame st c hinv hok

/-- C10 on the scratch storage: ANY sequence of uses of the seven thread-local buffers — with
differing signal lengths, block sizes, orders, windows and sink contents — gives, call by call, the
reply that each call gives alone on a fresh thread. -/
theorem C10_history (calls : List Call) (hok : ∀ c ∈ calls, c.Ok) :
    runHistory stepAll ThreadState.fresh calls
      = calls.map fun c => (stepAll ThreadState.fresh c).map (·.2) :=
  runHistory_eq stepAll ThreadState.Inv Call.Ok _ (fun s a hs ha => stepAll_frame s a hs ha)
    ThreadState.fresh ThreadState.inv_fresh calls hok

/-- … and from any reachable state, not only from the beginning of a thread. -/
theorem C10_history_from (st : ThreadState) (hinv : st.Inv) (calls : List Call) (hok : ∀ c ∈ calls, c.Ok) :
    runHistory stepAll st calls = runHistory stepAll ThreadState.fresh calls := by
  rw [C10_history calls hok]
  exact runHistory_eq stepAll ThreadState.Inv Call.Ok _ (fun s a hs ha => stepAll_frame s a hs ha)
    st hinv calls hok

/-! ### non-vacuity: concrete stale buffers LONGER and SHORTER than the new data -/

section NonVacuity

/-- A stale `SimdVec` of `n` vectors filled with `c`. -/
private def sv (n : Nat) (c : Int) : SimdVec := ⟨List.replicate n (List.replicate 16 c), 16 * n⟩

private def sig20 : List Int := [3, 10, 8, 20, 0, 17, 2, 1, 14, 18, 13, 22, 22, 13, 18, 14, 1, 2, 17, 5]

set_option maxRecDepth 100000 in
/-- Site 1: stale planes longer (5, 3 vectors), equal (2) and shorter (0, 1) than the 2 vectors of
a 20-sample signal; the second-order plane is read correctly, and the lanes past `len` of the
result are NOT zero (they are computed but never read). -/
example :
    readErrors (resetFixedLpcErrors [sv 5 7, sv 0 9, sv 1 11, sv 3 13, sv 2 99] sig20) 2 = diffs 2 sig20 ∧
    (((resetFixedLpcErrors [sv 5 7, sv 0 9, sv 1 11, sv 3 13, sv 2 99] sig20).getD 1 default).inner.getD 1 []).getD 4 0 = -5 := by
  decide

/-- Site 1, negative control: `SimdVec::resize` alone keeps the stale lanes readable. -/
example : ((sv 3 13).resize 20 zeroV).asRef = List.replicate 20 13 := by decide

/-- Site 2: stale buffer longer and shorter than the 7-sample signal, both arithmetic paths (on the `i64`
path the exact error at `t = 2` is `3276634470`: the wrapped value is stored, the flag is `false`). -/
example :
    qlpcErrors (List.replicate 12 5) [2, -1] 0 [1, 2, 4, 7, 11, 16, 22] = some ([0, 0, 1, 1, 1, 1, 1], true) ∧
    qlpcErrors [5, 5] [2, -1] 0 [1, 2, 4, 7, 11, 16, 22] = some ([0, 0, 1, 1, 1, 1, 1], true) ∧
    qlpcErrors (List.replicate 12 5) [32767, -32767] 0 [100000, 2, 4, 7, 11, 16, 22]
      = some ([0, 0, -1018332826, -65527, -98290, -131052, -163813], false) := by
  decide

/-- Site 2, negative control: without `errors.fill(0)` the stale cells would enter the result. -/
example : computeError32From [1] 0 [1, 2, 3] [5, 5, 5] = some [0, -4, -4] ∧
    computeError32 [1] 0 [1, 2, 3] = some [0, 1, 1] := by decide

/-- Site 3: stale stereo buffers larger (size 6, `filled` 5) and smaller (size 2) than the new
block (size 4, 3 samples filled); the cell past `filled` keeps stale data but is not read. -/
example :
    msFrameBuf ⟨List.replicate 12 9, 6, 5⟩ 4 [1, 2, 3] [5, 5, 5]
      = some (⟨[3, 3, 4, 9, -4, -3, -2, 9], 4, 3⟩, ⟨3, [3, 3, 4], [-4, -3, -2]⟩) ∧
    msFrameBuf ⟨List.replicate 4 9, 2, 2⟩ 4 [1, 2, 3] [5, 5, 5]
      = some (⟨[3, 3, 4, 9, -4, -3, -2, 0], 4, 3⟩, ⟨3, [3, 3, 4], [-4, -3, -2]⟩) ∧
    (⟨List.replicate 12 9, 6, 5⟩ : Scratch.FrameBuf).Inv ∧ (⟨List.replicate 4 9, 2, 2⟩ : Scratch.FrameBuf).Inv := by
  refine ⟨by decide, by decide, ⟨by decide, by decide⟩, ⟨by decide, by decide⟩⟩

/-- Site 3, negative control: `resize` alone leaves the stale `filled_size` and samples readable. -/
example : ((⟨List.replicate 12 9, 6, 5⟩ : Scratch.FrameBuf).resize 4).bind (·.channelSlice 0) = some [9, 9, 9, 9, 9] := by
  decide

private def sig128 : List Int := (List.replicate 64 1) ++ (List.replicate 64 (-300))

set_option maxRecDepth 100000 in
/-- Site 4: stale `ps` / `min_ps` longer (100) and shorter (1, 0) than the 2 partitions searched. -/
example :
    findResult ⟨[1, 2, 3], [[1], [2]], List.replicate 100 77, List.replicate 100 55⟩ sig128 2 14
      = some ⟨1, [0, 8], 898⟩ ∧
    findResult ⟨List.replicate 300 9, [], [6], []⟩ sig128 2 14 = some ⟨1, [0, 8], 898⟩ ∧
    findResult FinderState.fresh sig128 2 14 = some ⟨1, [0, 8], 898⟩ := by
  decide

/-- Site 4, negative control: `eval_partitions` into a vector longer than the table list keeps the
stale tail — this is why `min_ps.resize(nparts, 0)` / `ps.resize(nparts, 0)` must give exactly
`nparts` cells. -/
example : (evalInto 14 [List.replicate 16 5] [7, 7, 7] 0).2 = [0, 7, 7] := by decide

set_option maxRecDepth 100000 in
/-- Site 5: a stale sink with 190 bits in three words and a stale byte vector longer (40) and
shorter (2) than the 11 bytes of the new frame. -/
example :
    (frameCrcWrite (⟨[7#64, 9#64, 10#64], 190⟩, List.replicate 40 0xEE) 0
        [.writeLsbs 16 0xFFF8 16, .writeLsbs 8 0xAB 8, .writeLsbs 64 0x123456789 60, .writeLsbs 8 3 3]).map (·.2)
      = some [255, 248, 171, 0, 0, 0, 18, 52, 86, 120, 150] ∧
    (frameCrcWrite (⟨[7#64, 9#64, 10#64], 190⟩, List.replicate 2 0xEE) 0
        [.writeLsbs 16 0xFFF8 16, .writeLsbs 8 0xAB 8, .writeLsbs 64 0x123456789 60, .writeLsbs 8 3 3]).map (·.2)
      = some [255, 248, 171, 0, 0, 0, 18, 52, 86, 120, 150] ∧
    (headerCrcWrite ⟨[7#8, 9#8], 13⟩ 0 [.writeLsbs 16 0xFFF8 16, .writeLsbs 8 0xAB 4]).map (·.2)
      = some [255, 248, 176] := by
  decide

/-- Site 6: a cache that already holds entries (longer history) serves a new request correctly;
the hypotheses of `C10_window_cache` are satisfiable by a non-empty cache. -/
example :
    (Cache.empty.lookupOrInsert 4096 (.tukey 0x3DCCCCCD)).1.Inv ∧
    Cache.empty.run [(4096, .tukey 0x3DCCCCCD), (4096, .tukey 0x3DCCCCCC), (4096, .rectangle),
        (16, .tukey 0x3DCCCCCD), (4096, .tukey 0x3DCCCCCC)]
      = [(4096, .tukey 0x3DCCCCCD), (4096, .tukey 0x3DCCCCCC), (4096, .rectangle),
        (16, .tukey 0x3DCCCCCD), (4096, .tukey 0x3DCCCCCC)] :=
  ⟨(C10_window_cache Cache.empty Cache.inv_empty 4096 (.tukey 0x3DCCCCCD) (by decide)).2, by decide⟩

set_option maxRecDepth 100000 in
/-- A mixed history: a long block, then a short one, a different window, a mid/side call with a
smaller block: the replies of the 2nd..5th calls (made on dirty buffers) are those of the fresh
thread; the hypotheses of `C10_history` hold for it. -/
example :
    let calls : List Call := [.fixed sig20, .fixed [5, 7], .qlpc [2, -1] 0 [1, 2, 4, 7, 11, 16, 22],
      .qlpc [1] 0 [9, 9], .ms 300 [1, 2, 3] [5, 5, 5], .ms 4 [1, 2] [0, 1],
      .window 4096 (.tukey 0x3DCCCCCD), .window 4096 (.tukey 0x3DCCCCCC)]
    (∀ c ∈ calls, c.Ok) ∧
    (runHistory stepAll ThreadState.fresh calls).drop 5
      = [some (.ms ⟨2, [0, 1], [1, 1]⟩), some (.window (4096, .tukey 0x3DCCCCCD)),
         some (.window (4096, .tukey 0x3DCCCCCC))] := by
  refine ⟨?_, by decide⟩
  intro c hc
  simp only [List.mem_cons, List.not_mem_nil, or_false] at hc
  rcases hc with h | h | h | h | h | h | h | h <;> subst h <;> simp [Call.Ok, Win.Valid]

end NonVacuity

end FlacVerif
