/-
C15 — round trip writer → the repository's own parser.

Property theorems only; lemmas are in `FlacVerif/Lemmas/RepoRoundTrip.lean`.  The writer is the
component model of `Model/Component.lean` / `Model/Rice.lean` (`Residual.bits`, `SubFrame.bits`,
`Frame.bits`: mirrors of `bitrepr.rs`); the parser is the mirror `Model/RepoParser.lean` of
`parser.rs`.  `k` is arbitrary trailing input: the parser stops exactly at the end of the component.
-/
import FlacVerif.Lemmas.RepoRoundTripStream
namespace FlacVerif
open Repo Repo.PResult

/-- (a) Residuals.  For every well-formed `Residual` (`Residual.WF`: what `Residual::verify` checks)
whose quotients and block size fit their Rust types (`u32` quotients — `quotients: Vec<u32>`; block
sizes are at most 65535), parsing what `Residual::write` wrote, with the block size and warm-up length
of the residual, returns exactly that residual and leaves exactly the trailing input. -/
theorem C15_residual (r : Residual) (n w : Nat) (k : Bits) (hwf : r.WF) (hn : r.blockSize = n) (hw : r.warmup = w)
    (hq : ∀ q ∈ r.quotients, q < 2 ^ 32) (hbs : r.blockSize < 2 ^ 32) :
    Repo.parseResidual n w (r.bits ++ k) = .ok (r, k) := by
  subst hn; subst hw
  exact residual_read r hwf hq hbs k

/-- (b) Subframes.  For every well-formed subframe (`SubFrame.WF`) within the repository's own limits
(`Repo.SubOk`: at most 25 bits per sample, LPC order at most `MAX_LPC_ORDER = 24`, `u32` quotients,
block size below `2^32`), parsing what `SubFrame::write` wrote returns exactly that subframe. -/
theorem C15_subframe (s : SubFrame) (k : Bits) (hwf : s.WF) (hok : Repo.SubOk s) :
    Repo.parseSubframe s.blockSize s.bps (s.bits ++ k) = .ok (s, k) :=
  subframe_read s hwf hok k

set_option maxRecDepth 100000 in
/-- The limits in `Repo.SubOk` are the parser's, not the format's: a well-formed LPC subframe of order 25
(allowed by `SubFrame.WF` and by RFC 9639, which allows 32) is REJECTED by the repository's parser. -/
example :
    let res : Residual := ⟨0, 26, 25, [0], List.replicate 26 0, List.replicate 26 0⟩
    let s : SubFrame := .lpc (List.replicate 25 0) (List.replicate 25 0) 0 1 res 8
    s.WF ∧ Repo.parseSubframe s.blockSize s.bps s.bits = .error false := by
  decide

/-- `utf8_code` reads back every number that `encode_to_utf8like` can write (all values below `2^36`). -/
theorem C15_utf8 (v : Nat) (k : Bits) (bs : List Nat) (he : encodeUtf8like v = some bs) :
    Repo.utf8Code (bytesToBits bs ++ k) = .ok (v, k) :=
  utf8_read v k bs he

/-- Frame headers.  `Repo.HdrOk h`: the block-size / sample-rate / channel codes are ones the parser can
produce (no `Reserved` block size, `Independent(1..=8)`, table sample rates `1..=11`, immediates in range,
3-bit sample-size tag) and only the frame offset of the blocking mode in use is set (`from_specs` zeroes
both, `set_frame_offset` sets one; a frame number is a `u32`).  Then parsing the header written by
`FrameHeader::write` (CRC-8 included, checked or not) returns the header.  `k` must be whole bytes. -/
theorem C15_header (h : FrameHeader) (checkCrc : Bool) (hb k : Bits) (hbits : h.bits rfcCrc8 = some hb)
    (hok : Repo.HdrOk h) (hk : k.length % 8 = 0) :
    Repo.frameHeader checkCrc (hb ++ k) = .ok (h, k) :=
  frameHeader_read h checkCrc hb k hbits hok hk

/-- (c) Frames (header + subframes + padding + CRC-16), bit level.  `Repo.FrameOk info f`: `HdrOk` for
the header; the channel count of the header equals STREAMINFO's and the number of subframes; the header's
sample-size tag is either the STREAMINFO value or unspecified/reserved; STREAMINFO bits-per-sample at most
24; every subframe is well-formed, within the parser's limits, of the header's block size and of
`bps + bits_per_sample_offset(ch)` bits.  No assumption about the CRCs: that the written CRC-8 / CRC-16
fit their fields and are accepted is proved (`crc8_lt`, `crc16_lt`). -/
theorem C15_frame_bits (f : Frame) (info : StreamInfo) (checkCrc : Bool) (fb k : Bits)
    (hbits : f.bits rfcCrc8 rfcCrc16 = some fb) (hok : Repo.FrameOk info f) (hk : k.length % 8 = 0) :
    Repo.frame info checkCrc (fb ++ k) = .ok (f, k) :=
  frame_read f info checkCrc fb k hbits hok hk

/-- (c) at the byte interface: `parser::frame(info, check_crc)` on the bytes of a written frame followed
by arbitrary further bytes returns the frame and exactly those bytes. -/
theorem C15_frame (f : Frame) (info : StreamInfo) (checkCrc : Bool) (fb : Bits) (more : List Nat)
    (hbits : f.bits rfcCrc8 rfcCrc16 = some fb) (hok : Repo.FrameOk info f) :
    Repo.parseFrame info checkCrc (packBytes fb ++ more) = .ok (f, more) :=
  parseFrame_read f info checkCrc fb more hbits hok

/-- STREAMINFO alone.  `Repo.InfoOk s`: the block sizes are either set (`1 ≤ min ≤ max ≤ 32767`) or the
initial pair `(65535, 0)` of a `StreamInfo` without frames (`total = 0`); the frame sizes are either real
(`min ≤ max < 2^24`, not both 0) or the initial pair `(2^32-1, 0)` (written as `(0, 0)` = "unknown");
rate at most 96000, 1..=8 channels, 8/12/16/20/24 bits, `total < 2^36`, 16 MD5 bytes.  Then `stream_info`
on what `StreamInfo::write` wrote returns exactly that record.  `k` must be whole bytes. -/
theorem C15_streaminfo (s : StreamInfo) (k : Bits) (hok : Repo.InfoOk s) (hk : k.length % 8 = 0) :
    Repo.streamInfo (s.bits ++ k) = .ok (s, k) :=
  streamInfo_read s hok k hk

/-- The only frame sizes excluded by `Repo.InfoOk`: `(0, 0)` (and any other pair with `min > max`) is
written as `(0, 0)` and read back as the initial pair `(2^32-1, 0)`; all other fields are read back.
(A `StreamInfo` that saw a frame never has `max_frame_size = 0`: a frame has at least one byte.) -/
theorem C15_streaminfo_unknown_frame_sizes (s : StreamInfo) (k : Bits)
    (hok : Repo.InfoOk { s with minFrame := 2 ^ 32 - 1, maxFrame := 0 })
    (hz : (s.minFrame = 0 ∧ s.maxFrame = 0) ∨ s.minFrame > s.maxFrame) (hk : k.length % 8 = 0) :
    Repo.streamInfo (s.bits ++ k) = .ok ({ s with minFrame := 2 ^ 32 - 1, maxFrame := 0 }, k) :=
  streamInfo_read_zero s hok hz k hk

/-- (d) Whole streams.  `Repo.StreamOk s`: the STREAMINFO is one `stream_info` reads back identically
(`Repo.InfoOk`, see `C15_streaminfo`: set or initial block sizes, real or initial frame sizes — so also
the STREAMINFO of a stream without frames —, rate at most 96000, 1..=8 channels, 8/12/16/20/24 bits,
`total < 2^36`, 16 MD5 bytes), every other metadata block has a type in
`1..=126` and fewer than `2^24` bytes, every frame satisfies `FrameOk` for that STREAMINFO.  Then
`parser::stream` on the bytes `Stream::write` produced consumes them all and returns the stream
(`PStream.ofStream s` is `s` with its metadata blocks wrapped; `toStream?` gives `s` back). -/
theorem C15_stream (s : Stream) (sb : Bits) (hbits : s.bits rfcCrc8 rfcCrc16 = some sb) (hok : Repo.StreamOk s) :
    Repo.parseStream (packBytes sb) = .ok (Repo.PStream.ofStream s) ∧
      (Repo.PStream.ofStream s).toStream? = some s :=
  ⟨parseStream_read s sb hbits hok, Repo.PStream.ofStream_toStream s⟩

/-- The same at the bit level (no packing). -/
theorem C15_stream_bits (s : Stream) (sb : Bits) (hbits : s.bits rfcCrc8 rfcCrc16 = some sb)
    (hok : Repo.StreamOk s) : Repo.stream sb = .ok (Repo.PStream.ofStream s) :=
  stream_read s sb hbits hok

/-! ### non-vacuity: concrete components satisfying the hypotheses -/

/-- A residual with two partitions (parameters 2 and 0), warm-up 1, block size 4. -/
example :
    let r : Residual := ⟨1, 4, 1, [2, 0], [0, 1, 3, 0], [0, 3, 0, 0]⟩
    r.WF ∧ (∀ q ∈ r.quotients, q < 2 ^ 32) ∧ r.blockSize < 2 ^ 32 ∧
      Repo.parseResidual 4 1 (r.bits ++ [true, false]) = .ok (r, [true, false]) := by
  decide

/-- A fixed-predictor subframe of order 2 and an LPC subframe of order 1. -/
example :
    let r : Residual := ⟨0, 4, 2, [3], [0, 0, 1, 0], [0, 0, 5, 7]⟩
    let s : SubFrame := .fixed [-3, 100] r 16
    s.WF ∧ Repo.SubOk s ∧ Repo.parseSubframe 4 16 (s.bits ++ [true]) = .ok (s, [true]) := by
  decide

example :
    let r : Residual := ⟨0, 3, 1, [1], [0, 2, 0], [0, 1, 0]⟩
    let s : SubFrame := .lpc [-8] [-5] 3 4 r 9
    s.WF ∧ Repo.SubOk s ∧ Repo.parseSubframe 3 9 (s.bits ++ []) = .ok (s, []) := by
  decide


/-- A stereo left/side frame of 4 samples (fixed predictor of order 2 on the left channel, a 17-bit
constant on the side channel), frame number 5: it serialises, satisfies `FrameOk`, and is read back. -/
private def exInfo : StreamInfo :=
  { minBlock := 4, maxBlock := 4, minFrame := 20, maxFrame := 20, rate := 44100, channels := 2, bps := 16, total := 4,
    md5 := List.replicate 16 0 }
private def exFrame : Frame :=
  { header := { isVariable := false, blockSizeSpec := .extraByte 3, assignment := .leftSide, sampleSizeTag := 4,
                sampleRateSpec := .fixed 9, frameNumber := 5, startSample := 0 },
    subframes := [.fixed [-3, 100] ⟨0, 4, 2, [3], [0, 0, 1, 0], [0, 0, 5, 7]⟩ 16, .constant 4 (-65536) 17] }

set_option maxRecDepth 100000 in
example : Repo.FrameOk exInfo exFrame :=
  { hdr := by decide, channels := by decide, count := by decide, bps := by decide, bpsRange := by decide,
    subs := by decide }

private def exBytes : List Nat :=
  [255, 248, 105, 136, 5, 3, 94, 20, 255, 253, 0, 100, 0, 219, 224, 16, 0, 0, 185, 168]

set_option maxRecDepth 100000 in
/-- The writer produces `exBytes` for `exFrame` … -/
example : exFrame.bits rfcCrc8 rfcCrc16 = some (bytesToBits exBytes) := by decide

set_option maxRecDepth 100000 in
/-- … and the parser reads them back (here followed by three more bytes), as `C15_frame` says. -/
example : Repo.parseFrame exInfo true (exBytes ++ [1, 2, 3]) = .ok (exFrame, [1, 2, 3]) := by decide


/-- A whole stream: STREAMINFO, one unknown block (type 4, two bytes), the frame above. -/
private def exStream : Stream :=
  { info := exInfo, metadata := [⟨4, [0xAB, 0xCD]⟩], frames := [exFrame] }

set_option maxRecDepth 100000 in
example : Repo.StreamOk exStream :=
  { info := { blocks := by decide, frames := by decide,
              rate := by decide, channels := by decide, bps := by decide, total := by decide,
              md5len := by decide, md5 := by decide },
    metas := by
      intro m hm
      simp only [exStream, List.mem_singleton] at hm
      subst hm
      exact { tag := by decide, len := by decide, bytes := by decide }
    frames := by
      intro f hf
      simp only [exStream, List.mem_singleton] at hf
      subst hf
      exact { hdr := by decide, channels := by decide, count := by decide, bps := by decide, bpsRange := by decide,
              subs := by decide } }

/-- The stream of an empty input as the encoder leaves it (`set_block_sizes(4096, 4096)`, no frame, so
the frame sizes are still the initial `(u32::MAX, 0)`), and a `Stream::new` stream that was never
touched (block sizes initial too): both satisfy `StreamOk`, so both are read back identically. -/
private def exEmpty : Stream :=
  { info := { StreamInfo.empty 44100 2 16 with minBlock := 4096, maxBlock := 4096 }, metadata := [], frames := [] }
private def exNew : Stream :=
  { info := StreamInfo.empty 44100 2 16, metadata := [], frames := [] }

set_option maxRecDepth 100000 in
private theorem exEmpty_ok : Repo.StreamOk exEmpty :=
  { info := { blocks := by decide, frames := by decide,
              rate := by decide, channels := by decide, bps := by decide, total := by decide,
              md5len := by decide, md5 := by decide },
    metas := by intro m hm; cases hm
    frames := by intro f hf; cases hf }

set_option maxRecDepth 100000 in
private theorem exNew_ok : Repo.StreamOk exNew :=
  { info := { blocks := by decide, frames := by decide,
              rate := by decide, channels := by decide, bps := by decide, total := by decide,
              md5len := by decide, md5 := by decide },
    metas := by intro m hm; cases hm
    frames := by intro f hf; cases hf }

set_option maxRecDepth 100000 in
example : ∃ sb, exEmpty.bits rfcCrc8 rfcCrc16 = some sb ∧
    Repo.parseStream (packBytes sb) = .ok (Repo.PStream.ofStream exEmpty) :=
  ⟨_, rfl, (C15_stream exEmpty _ rfl exEmpty_ok).1⟩

set_option maxRecDepth 100000 in
example : ∃ sb, exNew.bits rfcCrc8 rfcCrc16 = some sb ∧
    Repo.parseStream (packBytes sb) = .ok (Repo.PStream.ofStream exNew) :=
  ⟨_, rfl, (C15_stream exNew _ rfl exNew_ok).1⟩

set_option maxRecDepth 100000 in
/-- The STREAMINFO blocks of these two streams, evaluated: `stream_info` returns the same record. -/
example : Repo.streamInfo exEmpty.info.bits = .ok (exEmpty.info, []) ∧
    Repo.streamInfo exNew.info.bits = .ok (exNew.info, []) := by decide

end FlacVerif
