/-
C17 — Invalid arguments to the encoding API produce errors, not panics.

Decision logic stated outright over UNBOUNDED naturals (so wrap-around values 2^8+k, 2^16+k,
2^32+k are covered by the theorems, not by a grid): every argument outside the supported domain
makes the mirrored entry point return an error (`none` / `.error` / `false`); together with the
differential `api` stream (model decision = implementation decision, no panic, no hang) this
decides the property. Property theorems only.
-/
import FlacVerif.Model.Api
import FlacVerif.Theorems.C18
namespace FlacVerif

/-- `StreamInfo::new` / `Stream::new`: accepted iff 1..=8 channels, a supported width, rate <= 96 kHz. -/
theorem C17_streaminfo (rate ch bps : Nat) :
    (StreamInfo.new rate ch bps).isSome ↔
      (rate ≤ 96000 ∧ 1 ≤ ch ∧ ch ≤ 8 ∧ (bps = 8 ∨ bps = 12 ∨ bps = 16 ∨ bps = 20 ∨ bps = 24)) :=
  C18_streaminfo_iff rate ch bps

/-- Values that would only be in range after truncation to `u8` / `u32` are rejected. -/
theorem C17_streaminfo_wraparound (k rate ch bps : Nat) :
    StreamInfo.new (2 ^ 32 + k) ch bps = none ∧ StreamInfo.new rate (2 ^ 8 + k) bps = none ∧
    StreamInfo.new rate ch (2 ^ 8 + k) = none ∧ StreamInfo.new rate 0 bps = none := by
  refine ⟨?_, ?_, ?_, ?_⟩ <;>
  · rw [← Option.not_isSome_iff_eq_none, C17_streaminfo]; omega

/-- `FrameBuf::with_size`. -/
theorem C17_framebuf (ch size : Nat) :
    (FrameBuf.withSize ch size).isSome ↔ (1 ≤ ch ∧ ch ≤ 8 ∧ 32 ≤ size ∧ size ≤ 32767) := by
  unfold FrameBuf.withSize
  split <;> simp_all

/-- More samples in one fill than the buffer holds, or a length that is not a whole number of
sample frames: error. -/
theorem C17_fill_interleaved_rejects (fb : FrameBuf) (xs : List Int)
    (h : xs.length > fb.samples.length ∨ xs.length % fb.channels ≠ 0) :
    fb.fillInterleaved xs = .error .invalidBuffer := by
  unfold FrameBuf.fillInterleaved
  rw [if_pos h]

/-- Byte fills: a width outside 1..=4, a byte count that is not a whole number of samples, too many
samples, or a sample count that is not a whole number of frames: error. -/
theorem C17_fill_le_bytes_rejects (fb : FrameBuf) (bytes : List Nat) (k : Nat)
    (h : k = 0 ∨ k > 4 ∨ bytes.length % k ≠ 0 ∨ bytes.length / k > fb.samples.length ∨
         (bytes.length / k) % fb.channels ≠ 0) :
    fb.fillLeBytes bytes k = .error .invalidBuffer := by
  unfold FrameBuf.fillLeBytes
  by_cases h1 : ¬ (1 ≤ k ∧ k ≤ 4) ∨ bytes.length % k ≠ 0
  · rw [if_pos h1]
  · rw [if_neg h1]
    have h2 : bytes.length / k > fb.samples.length ∨ (bytes.length / k) % fb.channels ≠ 0 := by omega
    simp only []
    rw [if_pos h2]

/-- A byte fill whose bytes-per-sample disagrees with the declared sample width is rejected by the
MD5 context (single- and multi-thread). -/
theorem C17_context_width (bps k : Nat) : ctxFillLeBytesOk bps k = true ↔ k = (bps + 7) / 8 := by
  simp [ctxFillLeBytesOk]

/-- `encode_fixed_size_frame`: a frame number of 2^31 or more, an empty buffer, a channel count
different from the stream info's, or a sample outside the declared width: error. -/
theorem C17_frame_args (n : Nat) (fb : FrameBuf) (ch bps : Nat) :
    encodeFrameArgsOk n fb ch bps = true ↔
      (n < 2 ^ 31 ∧ fb.channels = ch ∧ 0 < fb.filled ∧ fb.verifySamples bps = true) := by
  simp [encodeFrameArgsOk, and_assoc]

theorem C17_frame_number_rejected (n : Nat) (hn : 2 ^ 31 ≤ n) (fb : FrameBuf) (ch bps : Nat) :
    encodeFrameArgsOk n fb ch bps = false := by
  rw [← Bool.not_eq_true, C17_frame_args]; omega

/-- A sample outside the declared width anywhere in the filled part of any channel is detected. -/
theorem C17_sample_range (fb : FrameBuf) (bps c : Nat) (hc : c < fb.channels) (v : Int)
    (hv : v ∈ fb.channelSlice c) (hout : v < -(2 ^ (bps - 1) : Int) ∨ (2 ^ (bps - 1) : Int) - 1 < v) :
    fb.verifySamples bps = false := by
  rw [← Bool.not_eq_true]
  intro h
  simp only [FrameBuf.verifySamples, List.all_eq_true, List.mem_range, Bool.and_eq_true, decide_eq_true_eq] at h
  have := h c hc v hv
  omega

/-- `encode_with_fixed_block_size` (both modes): accepted iff the block size is in 32..=32767 and the
source's declared format is supported. -/
theorem C17_stream_args (bs ch bps rate : Nat) :
    encodeStreamArgsOk bs ch bps rate = true ↔
      (32 ≤ bs ∧ bs ≤ 32767 ∧ rate ≤ 96000 ∧ 1 ≤ ch ∧ ch ≤ 8 ∧
       (bps = 8 ∨ bps = 12 ∨ bps = 16 ∨ bps = 20 ∨ bps = 24)) := by
  simp only [encodeStreamArgsOk, Bool.and_eq_true, C17_streaminfo, C17_framebuf]
  omega

/-! Non-vacuity: concrete accepted and rejected calls. -/
example : encodeStreamArgsOk 4096 2 16 44100 = true := by decide
example : encodeStreamArgsOk 31 2 16 44100 = false ∧ encodeStreamArgsOk 32768 2 16 44100 = false ∧
    encodeStreamArgsOk 4096 9 16 44100 = false ∧ encodeStreamArgsOk 4096 2 17 44100 = false ∧
    encodeStreamArgsOk 4096 2 16 96001 = false := by decide
example : (FrameBuf.withSize 2 32).isSome = true ∧ (FrameBuf.withSize 2 (2 ^ 16 + 64)).isSome = false := by decide
example : ((FrameBuf.withSize 1 32).bind fun fb => (fb.fillInterleaved (List.replicate 33 0)).toOption) = none := by decide

end FlacVerif
