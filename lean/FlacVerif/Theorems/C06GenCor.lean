/-
C06GenCor — the top theorems of C05 / C06 (stated about the hand transition system `Par.step`) transferred to the
semantics of the programs GENERATED from the current `src/par.rs` (`Model/ParProg.lean` on `Gen/Par.lean`), through the
simulation theorems of `Theorems/C06Gen.lean`.  `PReach p fill g s`: `g` is reached from the start state of the generated
programs by canonical macro steps, `s` being the hand state it corresponds to.

  C06GC_start            the start state (after its initial internal steps) is `PReach`
  C06GC_reach_hand       `PReach p fill g s -> Par.Reaches p s ∧ Corr p g s`
  C06GC_step             every protocol step a thread of the program can reach from a `PReach` state leads, after the
                         thread's internal steps, to a `PReach` state (closure under ALL program behaviour)
  C06GC_deadlock_free    a `PReach` state whose main program has not returned has a thread that can take a macro step
  C06GC_terminates       every canonical run of the program has at most 9·N + 3·W + 7 protocol steps
  C06GC_final            when the main program returns, its result is the single-thread result `seqResult p`, every
                         worker closure and the hasher closure have returned, all handles were joined
  C06GC_deadlock_free_src, C06GC_final_src   the same with `0 < p.W` discharged by `C06G_worker_count_pos` (p.W = the value of
                         the generated `determine_worker_count`, any environment string, any configuration)
  C06GC_terminates_prog, C06GC_final_prog, C06GC_deterministic_prog, C06GC_final_prog_src
                         the same three over `ParProg.ProgRun` from `start0 p` - runs of the generated programs' OWN semantics
                         (macro steps to the first yield point), no hand state in the statement; helper facts
                         `macroStepC_unique`, `step_done_join`, `final_no_step`, `runInv_step`, `runInv_run`, `done_of_returned`
  C06GC_deterministic    fault-free run: the result is all N frames in order, the digest input is the concatenation of
                         the blocks, the final STREAMINFO updates were made
-/
import FlacVerif.Theorems.C05
import FlacVerif.Theorems.C06
import FlacVerif.Theorems.C06Gen

namespace FlacVerif.C06Gen
open FlacVerif.Par FlacVerif.ParProg FlacVerif.Gen.Par

/-- reachable states of the generated programs (canonical macro steps), with the hand state they correspond to -/
inductive PReach (p : Params) (fill : List Stmt) : PState → State → Prop
  | start {g : PState} : Corr p g (init p) → (∃ g1, runTau (env p fill) .main 6 (start p) = some g1 ∧
      runTau (env p fill) .hasher 1 g1 = some g) → PReach p fill g (init p)
  | step {g g1 g2 g3 : PState} {s s1 : State} {tid : Tid} {a b : Nat} {e : Ev} :
      PReach p fill g s → runTau (env p fill) tid a g = some g1 → visStep (env p fill) tid g1 = some (e, g2) →
      runTau (env p fill) tid b g2 = some g3 → Par.step p s e = some s1 → Corr p g3 s1 → PReach p fill g3 s1

theorem C06GC_start (p : Params) (fill : List Stmt) : ∃ g, PReach p fill g (init p) := by
  obtain ⟨g1, g0, h1, h2, hc⟩ := C06G_init p fill
  exact ⟨g0, .start hc ⟨g1, h1, h2⟩⟩

theorem C06GC_reach_hand {p : Params} {fill : List Stmt} {g : PState} {s : State} (h : PReach p fill g s) :
    Reaches p s ∧ Corr p g s := by
  induction h with
  | start hc _ => exact ⟨.init, hc⟩
  | step _ _ _ _ hs hc ih => exact ⟨.step ih.1 hs, hc⟩

/-- closure under everything the program can do: any thread, any protocol step it can reach -/
theorem C06GC_step {p : Params} {fill : List Stmt} (hf : fill = fillInterleaved ∨ fill = fillLeBytes)
    {g : PState} {s : State} (h : PReach p fill g s) (tid : Tid) {a : Nat} {g1 g2 : PState} {e : Ev}
    (h1 : runTau (env p fill) tid a g = some g1) (h2 : visStep (env p fill) tid g1 = some (e, g2)) :
    ∃ s1 b g3, runTau (env p fill) tid b g2 = some g3 ∧ PReach p fill g3 s1 := by
  obtain ⟨s1, hs, _, b, g3, hb, hc3⟩ := C06G_bwd hf (C06GC_reach_hand h).2 tid h1 h2
  exact ⟨s1, b, g3, hb, .step h h1 h2 hb hs hc3⟩

theorem C06GC_deadlock_free {p : Params} {fill : List Stmt} (hf : fill = fillInterleaved ∨ fill = fillLeBytes)
    (hW : 0 < p.W) (hne : p.NonemptyBlocks) {g : PState} {s : State} (h : PReach p fill g s) (hnf : s.main ≠ .done) :
    ∃ tid a b e g', macroStep (env p fill) tid a b g = some (e, g') := by
  obtain ⟨hr, hc⟩ := C06GC_reach_hand h
  obtain ⟨e, s', hs⟩ := C06_deadlock_free p hW hne s hr hnf
  obtain ⟨a, b, g', hm, _⟩ := C06G_fwd hf e hc hs
  exact ⟨tidOf e, a, b, e, g', hm⟩

theorem C06GC_terminates {p : Params} {fill : List Stmt} {g : PState} (hc : Corr p g (init p)) (evs : List Ev) (s' : State)
    (h : CanonRun p (env p fill) g (init p) evs s') : evs.length ≤ 9 * p.blocks.length + 3 * p.W + 7 :=
  C06_run_length p evs s' (replay_ok_iff.2 (C06G_canon_run_sound evs g (init p) s' h))

/-- failure propagation / no thread left: when the generated main program has returned -/
theorem C06GC_final {p : Params} {fill : List Stmt} (hW : 0 < p.W) {g g' : PState} {s s' : State} (h : PReach p fill g s)
    (e : Ev) (he : e = .m_joined_hasher ∨ e = .m_joined_worker) (hs : Par.step p s e = some s') (hd : s'.main = .done) :
    ∃ a b g', macroStep (env p fill) .main a b g = some (e, g') ∧ g'.main.cont = [] ∧
      g'.main.result = some (seqResult p) ∧ (∀ t ∈ g'.workers, t.cont = []) ∧ g'.hasher.cont = [] := by
  obtain ⟨hr, hc⟩ := C06GC_reach_hand h
  obtain ⟨a, b, g', hm, hc', hcont, hres, _⟩ := C06G_result (fill := fill) e he hc hs hd
  have hfin := C06_final p hW s' (.step hr hs) hd
  refine ⟨a, b, g', hm, hcont, by rw [hres, hfin.1], ?_, ?_⟩
  · have hex := hfin.2.1
    have hws := hc'.ws
    clear hm hres hcont
    generalize g'.workers = ts at hws
    generalize s'.workers = pcs at hws hex
    induction hws with
    | nil => simp
    | cons hw _ ih =>
      intro t ht
      rcases List.mem_cons.mp ht with rfl | ht
      · have := hex _ (List.mem_cons_self)
        subst this
        exact hw.1
      · exact ih (fun pc hpc => hex pc (List.mem_cons_of_mem _ hpc)) t ht
  · have := hc'.hs
    rw [hfin.2.2.2.1] at this
    exact this.1

/-- multi-thread = single-thread on a fault-free run: all frames in order, the digest input is the blocks' bytes -/
theorem C06GC_deterministic {p : Params} {fill : List Stmt} (hW : 0 < p.W) (hnf : p.readFailAt = none)
    (hv : ∀ b ∈ p.blocks, b.valid) (hne : p.NonemptyBlocks) {g : PState} {s s' : State} (h : PReach p fill g s)
    (e : Ev) (he : e = .m_joined_hasher ∨ e = .m_joined_worker) (hs : Par.step p s e = some s') (hd : s'.main = .done) :
    ∃ a b g', macroStep (env p fill) .main a b g = some (e, g') ∧
      g'.main.result = some (.ok (List.range p.blocks.length)) ∧
      g'.main.digest = (p.blocks.map (·.bytes)).flatten ∧ g'.main.sizesSet = true ∧ g'.main.totalSet = true := by
  obtain ⟨hr, hc⟩ := C06GC_reach_hand h
  obtain ⟨a, b, g', hm, _, _, hres, hok⟩ := C06G_result (fill := fill) e he hc hs hd
  obtain ⟨hdet, hhash⟩ := C05_deterministic p hW hnf hv hne s' (.step hr hs) hd
  obtain ⟨h1, h2, h3⟩ := hok _ hdet
  exact ⟨a, b, g', hm, by rw [hres, hdet], by rw [h1, hhash], h2, h3⟩

/-- `C06GC_deadlock_free` with its hypothesis `0 < p.W` discharged for the current source: `p.W` is the value the generated
`determine_worker_count` returns, for ANY value of the environment variable and any configuration. -/
theorem C06GC_deadlock_free_src {p : Params} {fill : List Stmt} (hf : fill = fillInterleaved ∨ fill = fillLeBytes)
    (ap : Nat) (hap : 1 ≤ ap) (envv : Option String) (config : FlacVerif.Gen.Encoder)
    (hcfg : ∀ n, config.workers = some n → 0 < n) (hW : determineWorkerCount (some ap) envv config = some p.W)
    (hne : p.NonemptyBlocks) {g : PState} {s : State} (h : PReach p fill g s) (hnf : s.main ≠ .done) :
    ∃ tid a b e g', macroStep (env p fill) tid a b g = some (e, g') :=
  C06GC_deadlock_free hf (C06G_worker_count_pos ap hap envv config hcfg p.W hW) hne h hnf

/-- `C06GC_final` likewise: result = single-thread result, all closures returned, with the worker count of the source. -/
theorem C06GC_final_src {p : Params} {fill : List Stmt} (ap : Nat) (hap : 1 ≤ ap) (envv : Option String)
    (config : FlacVerif.Gen.Encoder) (hcfg : ∀ n, config.workers = some n → 0 < n)
    (hW : determineWorkerCount (some ap) envv config = some p.W) {g g' : PState} {s s' : State} (h : PReach p fill g s)
    (e : Ev) (he : e = .m_joined_hasher ∨ e = .m_joined_worker) (hs : Par.step p s e = some s') (hd : s'.main = .done) :
    ∃ a b g', macroStep (env p fill) .main a b g = some (e, g') ∧ g'.main.cont = [] ∧
      g'.main.result = some (seqResult p) ∧ (∀ t ∈ g'.workers, t.cont = []) ∧ g'.hasher.cont = [] :=
  C06GC_final (g' := g') (C06G_worker_count_pos ap hap envv config hcfg p.W hW) h e he hs hd

/-! ## the same over the programs' own run notion (`ParProg.ProgRun` from `start0 p`; no hand state in the statement) -/

theorem macroStepC_unique {en : Env} {tid : Tid} {a b a' b' : Nat} {g g3 g3' : PState} {e e' : Ev}
    (h : macroStepC en tid a b g = some (e, g3)) (h' : macroStepC en tid a' b' g = some (e', g3')) : e = e' ∧ g3 = g3' := by
  obtain ⟨g1, g2, h1, h2, h3, hy⟩ := macroStepC_unpack h
  obtain ⟨x1, x2, k1, k2, k3, ky⟩ := macroStepC_unpack h'
  obtain ⟨_, h6, h7⟩ := C06G_next_unique _ _ a a' g g1 x1 e e' g2 x2 h1 h2 k1 k2
  subst h6 h7
  exact ⟨rfl, (settle_unique b b' g2 g3 g3' h3 hy k3 ky).2⟩

/-- the hand pc `done` is entered by the two join events only -/
theorem step_done_join {p : Params} {s s' : State} {e : Ev} (h : Par.step p s e = some s') (hd : s'.main = .done)
    (hnd : s.main ≠ .done) : e = .m_joined_hasher ∨ e = .m_joined_worker := by
  cases e with
  | m_joined_hasher => exact Or.inl rfl
  | m_joined_worker => exact Or.inr rfl
  | encode_send x =>
    exfalso
    cases x <;> simp only [Par.step] at h <;> (repeat' split at h) <;>
      first
      | (injection h with h; subst h; simp [afterStop] at hd; try (split at hd <;> simp at hd))
      | simp at h
  | _ =>
    exfalso
    simp only [Par.step] at h
    repeat' split at h
    all_goals
      first
      | (injection h with h; subst h; first | exact hnd hd | (simp [afterStop] at hd; try (split at hd <;> simp at hd)))
      | simp at h

/-- once the hand model is final nothing can happen -/
theorem final_no_step {p : Params} (hW : 0 < p.W) {s : State} (hr : Reaches p s) (hd : s.main = .done) (e : Ev) :
    Par.step p s e = none := by
  obtain ⟨_, hex, _, hh, _, _⟩ := C06_final p hW s hr hd
  have hw : ∀ (w : Nat) (pc : WPc), s.workers[w]? = some pc → pc = WPc.exited := fun w pc h => hex pc (List.mem_of_getElem? h)
  cases e with
  | encode_recv w x =>
    cases hq : s.workers[w]? with
    | none => simp [Par.step, hq]
    | some pc => have := hw w pc hq; subst this; simp [Par.step, hq]
  | w_lock w id n =>
    cases hq : s.workers[w]? with
    | none => simp [Par.step, hq]
    | some pc => have := hw w pc hq; subst this; simp [Par.step, hq]
  | refill_send w id =>
    cases hq : s.workers[w]? with
    | none => simp [Par.step, hq]
    | some pc => have := hw w pc hq; subst this; simp [Par.step, hq]
  | w_push w id n =>
    cases hq : s.workers[w]? with
    | none => simp [Par.step, hq]
    | some pc => have := hw w pc hq; subst this; simp [Par.step, hq]
  | w_err w id n =>
    cases hq : s.workers[w]? with
    | none => simp [Par.step, hq]
    | some pc => have := hw w pc hq; subst this; simp [Par.step, hq]
  | md5_recv len => simp [Par.step, hh]
  | encode_send x => cases x <;> simp [Par.step, hd]
  | _ => simp [Par.step, hd]

/-- what a run of the programs keeps: correspondence with a reachable hand state, and - once the main program has
returned - its result, digest and STREAMINFO updates -/
def RunInv (p : Params) (g : PState) (s : State) : Prop :=
  Corr p g s ∧ Reaches p s ∧
    (s.main = .done → g.main.result = some s.result ∧
      ∀ l, s.result = .ok l → g.main.digest = s.hashed ∧ g.main.sizesSet = true ∧ g.main.totalSet = true)

theorem runInv_step {p : Params} {fill : List Stmt} (hf : fill = fillInterleaved ∨ fill = fillLeBytes) (hW : 0 < p.W)
    {g g3 : PState} {s : State} (hi : RunInv p g s) {tid : Tid} {a b : Nat} {e : Ev}
    (hm : macroStepC (env p fill) tid a b g = some (e, g3)) : ∃ s', Par.step p s e = some s' ∧ RunInv p g3 s' := by
  obtain ⟨hc, hr, _⟩ := hi
  obtain ⟨s', hs, ht, hc3⟩ := C06G_bwdC hf hc hm
  refine ⟨s', hs, hc3, .step hr hs, ?_⟩
  intro hd
  by_cases hnd : s.main = .done
  · rw [final_no_step hW hr hnd e] at hs; cases hs
  · rcases step_done_join hs hd hnd with rfl | rfl
    · obtain ⟨b0, g0, h1, _, h3⟩ := C06G_m_joined_hasher_fwd (fill := fill) hc hs
      subst ht
      obtain ⟨_, hg⟩ := macroStepC_unique hm h1
      subst hg
      exact h3 hd
    · obtain ⟨b0, g0, h1, _, h3⟩ := C06G_m_joined_worker_fwd (fill := fill) hc hs
      subst ht
      obtain ⟨_, hg⟩ := macroStepC_unique hm h1
      subst hg
      exact h3 hd

theorem runInv_run {p : Params} {fill : List Stmt} (hf : fill = fillInterleaved ∨ fill = fillLeBytes) (hW : 0 < p.W)
    {g g' : PState} {evs : List Ev} (hr : ProgRun (env p fill) g evs g') :
    ∀ s, RunInv p g s → ∃ s', Par.run p s evs = some s' ∧ RunInv p g' s' := by
  induction hr with
  | nil g => intro s hi; exact ⟨s, rfl, hi⟩
  | cons hm _ ih =>
    intro s hi
    obtain ⟨s1, hs, hi1⟩ := runInv_step hf hW hi hm
    obtain ⟨s', hrun, hi'⟩ := ih s1 hi1
    exact ⟨s', by simp [Par.run, hs, hrun], hi'⟩

theorem runInv_start (p : Params) (fill : List Stmt) : RunInv p (start0 p) (init p) :=
  ⟨(C06G_start0 p fill).2, .init, fun h => by simp [init] at h⟩

/-- main returned (`cont = []`) only at the hand pc `done` -/
theorem done_of_returned {p : Params} {g : PState} {s : State} (hc : Corr p g s) (h : g.main.cont = []) : s.main = .done := by
  have hm := hc.main.1
  unfold MCorrPc at hm
  cases hpc : s.main <;> simp only [hpc] at hm
  case done => rfl
  case stop r =>
    obtain ⟨r', _, hok, herr, _⟩ := hm
    cases hre : s.readErr
    · have := hok hre; rw [h] at this; simp [mStopOk, stopBody] at this
    · have := herr hre; rw [h] at this; simp [mStopErr, stopBody] at this
  case joinW j =>
    obtain ⟨r, _, hcont, _⟩ := hm
    rw [h] at hcont; simp [mJoinW, joinBody] at hcont
  all_goals
    (have hcont := hm.1; rw [h] at hcont
     simp [mRecv, mLocked, mAfterSend, mEnq, mReqStop, mJoinH, recvBody, enqBody, fb, feedFn, loopK, mainProg] at hcont)

/-- TERMINATION over the programs' own runs: at most 9·N + 3·W + 7 protocol steps. -/
theorem C06GC_terminates_prog {p : Params} {fill : List Stmt} (hf : fill = fillInterleaved ∨ fill = fillLeBytes)
    {evs : List Ev} {g' : PState} (h : ProgRun (env p fill) (start0 p) evs g') :
    evs.length ≤ 9 * p.blocks.length + 3 * p.W + 7 := by
  obtain ⟨s', hrun, _⟩ := ((C06G_traces_prog (p := p) hf evs).2.2) g' h
  exact C06_run_length p evs s' (replay_ok_iff.2 hrun)

/-- FAILURE PROPAGATION / NO THREAD LEFT over the programs' own runs: whenever, in ANY run of the generated programs, the
main program has returned, its result is the single-thread result, and every worker closure and the hasher closure have
returned. -/
theorem C06GC_final_prog {p : Params} {fill : List Stmt} (hf : fill = fillInterleaved ∨ fill = fillLeBytes) (hW : 0 < p.W)
    {evs : List Ev} {g' : PState} (h : ProgRun (env p fill) (start0 p) evs g') (hret : g'.main.cont = []) :
    g'.main.result = some (seqResult p) ∧ (∀ t ∈ g'.workers, t.cont = []) ∧ g'.hasher.cont = [] := by
  obtain ⟨s', _, hc, hr, hres⟩ := runInv_run hf hW h _ (runInv_start p fill)
  have hd := done_of_returned hc hret
  have hfin := C06_final p hW s' hr hd
  refine ⟨by rw [(hres hd).1, hfin.1], ?_, ?_⟩
  · have hex := hfin.2.1
    have hws := hc.ws
    generalize g'.workers = ts at hws
    generalize s'.workers = pcs at hws hex
    induction hws with
    | nil => simp
    | cons hw _ ih =>
      intro t ht
      rcases List.mem_cons.mp ht with rfl | ht
      · have := hex _ (List.mem_cons_self)
        subst this
        exact hw.1
      · exact ih (fun pc hpc => hex pc (List.mem_cons_of_mem _ hpc)) t ht
  · have := hc.hs
    rw [hfin.2.2.2.1] at this
    exact this.1

/-- MT = ST over the programs' own runs, fault-free input: all frames in order, digest input = the blocks' bytes. -/
theorem C06GC_deterministic_prog {p : Params} {fill : List Stmt} (hf : fill = fillInterleaved ∨ fill = fillLeBytes)
    (hW : 0 < p.W) (hnf : p.readFailAt = none) (hv : ∀ b ∈ p.blocks, b.valid) (hne : p.NonemptyBlocks)
    {evs : List Ev} {g' : PState} (h : ProgRun (env p fill) (start0 p) evs g') (hret : g'.main.cont = []) :
    g'.main.result = some (.ok (List.range p.blocks.length)) ∧
      g'.main.digest = (p.blocks.map (·.bytes)).flatten ∧ g'.main.sizesSet = true ∧ g'.main.totalSet = true := by
  obtain ⟨s', _, hc, hr, hres⟩ := runInv_run hf hW h _ (runInv_start p fill)
  have hd := done_of_returned hc hret
  obtain ⟨hdet, hhash⟩ := C05_deterministic p hW hnf hv hne s' hr hd
  obtain ⟨h0, hok⟩ := hres hd
  obtain ⟨h1, h2, h3⟩ := hok _ hdet
  exact ⟨by rw [h0, hdet], by rw [h1, hhash], h2, h3⟩

/-- `C06GC_final_prog` for the current source's worker count: no hypothesis on `p.W` other than that it is what the
generated `determine_worker_count` returns. -/
theorem C06GC_final_prog_src {p : Params} {fill : List Stmt} (hf : fill = fillInterleaved ∨ fill = fillLeBytes)
    (ap : Nat) (hap : 1 ≤ ap) (envv : Option String) (config : FlacVerif.Gen.Encoder)
    (hcfg : ∀ n, config.workers = some n → 0 < n) (hW : determineWorkerCount (some ap) envv config = some p.W)
    {evs : List Ev} {g' : PState} (h : ProgRun (env p fill) (start0 p) evs g') (hret : g'.main.cont = []) :
    g'.main.result = some (seqResult p) ∧ (∀ t ∈ g'.workers, t.cont = []) ∧ g'.hasher.cont = [] :=
  C06GC_final_prog hf (C06G_worker_count_pos ap hap envv config hcfg p.W hW) h hret

end FlacVerif.C06Gen
