/-
C06GenCor — the top theorems of C05 / C06 (stated about the hand transition system `Par.step`) transferred to the
semantics of the programs GENERATED from the current `src/par.rs` (`Model/ParProg.lean` on `Gen/Par.lean`), through the
simulation theorems of `Theorems/C06Gen.lean`.  `PReach p fill g s`: `g` is reached from the start state of the generated
programs by canonical macro steps, `s` being the hand state it corresponds to.

  C06GC_start            the start state (after its initial internal steps) is `PReach`
  C06GC_reach_hand       `PReach p fill g s -> Par.Reaches p s ∧ Corr p g s`
  C06GC_step             every protocol step a thread of the program can reach from a `PReach` state leads, after the
                         thread's internal steps, to a `PReach` state (closure under ALL program behaviour)
  C06GC_deadlock_free    a `PReach` state whose main program has not returned has a thread that can take a macro step
  C06GC_terminates       every canonical run of the program has at most 9·N + 3·W + 7 protocol steps
  C06GC_final            when the main program returns, its result is the single-thread result `seqResult p`, every
                         worker closure and the hasher closure have returned, all handles were joined
  C06GC_deadlock_free_src, C06GC_final_src   the same with `0 < p.W` discharged by `C06G_worker_count_pos` (p.W = the value of
                         the generated `determine_worker_count`, any environment string, any configuration)
  C06GC_deterministic    fault-free run: the result is all N frames in order, the digest input is the concatenation of
                         the blocks, the final STREAMINFO updates were made
-/
import FlacVerif.Theorems.C05
import FlacVerif.Theorems.C06
import FlacVerif.Theorems.C06Gen

namespace FlacVerif.C06Gen
open FlacVerif.Par FlacVerif.ParProg FlacVerif.Gen.Par

/-- reachable states of the generated programs (canonical macro steps), with the hand state they correspond to -/
inductive PReach (p : Params) (fill : List Stmt) : PState → State → Prop
  | start {g : PState} : Corr p g (init p) → (∃ g1, runTau (env p fill) .main 6 (start p) = some g1 ∧
      runTau (env p fill) .hasher 1 g1 = some g) → PReach p fill g (init p)
  | step {g g1 g2 g3 : PState} {s s1 : State} {tid : Tid} {a b : Nat} {e : Ev} :
      PReach p fill g s → runTau (env p fill) tid a g = some g1 → visStep (env p fill) tid g1 = some (e, g2) →
      runTau (env p fill) tid b g2 = some g3 → Par.step p s e = some s1 → Corr p g3 s1 → PReach p fill g3 s1

theorem C06GC_start (p : Params) (fill : List Stmt) : ∃ g, PReach p fill g (init p) := by
  obtain ⟨g1, g0, h1, h2, hc⟩ := C06G_init p fill
  exact ⟨g0, .start hc ⟨g1, h1, h2⟩⟩

theorem C06GC_reach_hand {p : Params} {fill : List Stmt} {g : PState} {s : State} (h : PReach p fill g s) :
    Reaches p s ∧ Corr p g s := by
  induction h with
  | start hc _ => exact ⟨.init, hc⟩
  | step _ _ _ _ hs hc ih => exact ⟨.step ih.1 hs, hc⟩

/-- closure under everything the program can do: any thread, any protocol step it can reach -/
theorem C06GC_step {p : Params} {fill : List Stmt} (hf : fill = fillInterleaved ∨ fill = fillLeBytes)
    {g : PState} {s : State} (h : PReach p fill g s) (tid : Tid) {a : Nat} {g1 g2 : PState} {e : Ev}
    (h1 : runTau (env p fill) tid a g = some g1) (h2 : visStep (env p fill) tid g1 = some (e, g2)) :
    ∃ s1 b g3, runTau (env p fill) tid b g2 = some g3 ∧ PReach p fill g3 s1 := by
  obtain ⟨s1, hs, _, b, g3, hb, hc3⟩ := C06G_bwd hf (C06GC_reach_hand h).2 tid h1 h2
  exact ⟨s1, b, g3, hb, .step h h1 h2 hb hs hc3⟩

theorem C06GC_deadlock_free {p : Params} {fill : List Stmt} (hf : fill = fillInterleaved ∨ fill = fillLeBytes)
    (hW : 0 < p.W) (hne : p.NonemptyBlocks) {g : PState} {s : State} (h : PReach p fill g s) (hnf : s.main ≠ .done) :
    ∃ tid a b e g', macroStep (env p fill) tid a b g = some (e, g') := by
  obtain ⟨hr, hc⟩ := C06GC_reach_hand h
  obtain ⟨e, s', hs⟩ := C06_deadlock_free p hW hne s hr hnf
  obtain ⟨a, b, g', hm, _⟩ := C06G_fwd hf e hc hs
  exact ⟨tidOf e, a, b, e, g', hm⟩

theorem C06GC_terminates {p : Params} {fill : List Stmt} {g : PState} (hc : Corr p g (init p)) (evs : List Ev) (s' : State)
    (h : CanonRun p (env p fill) g (init p) evs s') : evs.length ≤ 9 * p.blocks.length + 3 * p.W + 7 :=
  C06_run_length p evs s' (replay_ok_iff.2 (C06G_canon_run_sound evs g (init p) s' h))

/-- failure propagation / no thread left: when the generated main program has returned -/
theorem C06GC_final {p : Params} {fill : List Stmt} (hW : 0 < p.W) {g g' : PState} {s s' : State} (h : PReach p fill g s)
    (e : Ev) (he : e = .m_joined_hasher ∨ e = .m_joined_worker) (hs : Par.step p s e = some s') (hd : s'.main = .done) :
    ∃ a b g', macroStep (env p fill) .main a b g = some (e, g') ∧ g'.main.cont = [] ∧
      g'.main.result = some (seqResult p) ∧ (∀ t ∈ g'.workers, t.cont = []) ∧ g'.hasher.cont = [] := by
  obtain ⟨hr, hc⟩ := C06GC_reach_hand h
  obtain ⟨a, b, g', hm, hc', hcont, hres, _⟩ := C06G_result (fill := fill) e he hc hs hd
  have hfin := C06_final p hW s' (.step hr hs) hd
  refine ⟨a, b, g', hm, hcont, by rw [hres, hfin.1], ?_, ?_⟩
  · have hex := hfin.2.1
    have hws := hc'.ws
    clear hm hres hcont
    generalize g'.workers = ts at hws
    generalize s'.workers = pcs at hws hex
    induction hws with
    | nil => simp
    | cons hw _ ih =>
      intro t ht
      rcases List.mem_cons.mp ht with rfl | ht
      · have := hex _ (List.mem_cons_self)
        subst this
        exact hw.1
      · exact ih (fun pc hpc => hex pc (List.mem_cons_of_mem _ hpc)) t ht
  · have := hc'.hs
    rw [hfin.2.2.2.1] at this
    exact this.1

/-- multi-thread = single-thread on a fault-free run: all frames in order, the digest input is the blocks' bytes -/
theorem C06GC_deterministic {p : Params} {fill : List Stmt} (hW : 0 < p.W) (hnf : p.readFailAt = none)
    (hv : ∀ b ∈ p.blocks, b.valid) (hne : p.NonemptyBlocks) {g : PState} {s s' : State} (h : PReach p fill g s)
    (e : Ev) (he : e = .m_joined_hasher ∨ e = .m_joined_worker) (hs : Par.step p s e = some s') (hd : s'.main = .done) :
    ∃ a b g', macroStep (env p fill) .main a b g = some (e, g') ∧
      g'.main.result = some (.ok (List.range p.blocks.length)) ∧
      g'.main.digest = (p.blocks.map (·.bytes)).flatten ∧ g'.main.sizesSet = true ∧ g'.main.totalSet = true := by
  obtain ⟨hr, hc⟩ := C06GC_reach_hand h
  obtain ⟨a, b, g', hm, _, _, hres, hok⟩ := C06G_result (fill := fill) e he hc hs hd
  obtain ⟨hdet, hhash⟩ := C05_deterministic p hW hnf hv hne s' (.step hr hs) hd
  obtain ⟨h1, h2, h3⟩ := hok _ hdet
  exact ⟨a, b, g', hm, by rw [hres, hdet], by rw [h1, hhash], h2, h3⟩

/-- `C06GC_deadlock_free` with its hypothesis `0 < p.W` discharged for the current source: `p.W` is the value the generated
`determine_worker_count` returns, for ANY value of the environment variable and any configuration. -/
theorem C06GC_deadlock_free_src {p : Params} {fill : List Stmt} (hf : fill = fillInterleaved ∨ fill = fillLeBytes)
    (ap : Nat) (hap : 1 ≤ ap) (envv : Option String) (config : FlacVerif.Gen.Encoder)
    (hcfg : ∀ n, config.workers = some n → 0 < n) (hW : determineWorkerCount (some ap) envv config = some p.W)
    (hne : p.NonemptyBlocks) {g : PState} {s : State} (h : PReach p fill g s) (hnf : s.main ≠ .done) :
    ∃ tid a b e g', macroStep (env p fill) tid a b g = some (e, g') :=
  C06GC_deadlock_free hf (C06G_worker_count_pos ap hap envv config hcfg p.W hW) hne h hnf

/-- `C06GC_final` likewise: result = single-thread result, all closures returned, with the worker count of the source. -/
theorem C06GC_final_src {p : Params} {fill : List Stmt} (ap : Nat) (hap : 1 ≤ ap) (envv : Option String)
    (config : FlacVerif.Gen.Encoder) (hcfg : ∀ n, config.workers = some n → 0 < n)
    (hW : determineWorkerCount (some ap) envv config = some p.W) {g g' : PState} {s s' : State} (h : PReach p fill g s)
    (e : Ev) (he : e = .m_joined_hasher ∨ e = .m_joined_worker) (hs : Par.step p s e = some s') (hd : s'.main = .done) :
    ∃ a b g', macroStep (env p fill) .main a b g = some (e, g') ∧ g'.main.cont = [] ∧
      g'.main.result = some (seqResult p) ∧ (∀ t ∈ g'.workers, t.cont = []) ∧ g'.hasher.cont = [] :=
  C06GC_final (g' := g') (C06G_worker_count_pos ap hap envv config hcfg p.W hW) h e he hs hd

end FlacVerif.C06Gen
