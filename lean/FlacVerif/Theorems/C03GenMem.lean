/-
C03GenMem — the generated `MemSource` (Gen/Source.lean) abides by the source contract `Delivers` of C03Gen, and with it the
generated driver on the generated `MemSource` equals the model's `encodeStream` (success direction).

  flatMap_drop_uniform / flatMap_take_uniform / flatMap_length_uniform   slices of a `flatMap` with pieces of one length
  interleave_slice / interleave_getD / interleave_length                  block `j` of the interleaved input; a sample of it
  mem_block          one `read_samples` of the generated `MemSource` at `read_head = j·bs`: hands `interleave (block j)` to the pair
                     fill; the buffer then holds exactly block `j` (`GoodFb`: C14_channel_slice, C14G_verify_samples), the context
                     advances by its bytes / length / one frame (C14G_ctx_fill_interleaved)
  mem_done           the exhausted source returns 0 and changes nothing
  mem_delivers_aux   induction over the blocks
  C03G_mem_delivers  `memOps` satisfies `Delivers` for `blocksOf bs chans` (1..8 channels of equal length < 2^40, samples in range)
  C03G_driver_mem_success   generated driver on `MemSource::from_samples(interleave chans, ..)` = model `encodeStream` (same stream
                     image, same remaining log) — SUCCESS direction (the model's frame loop returns)
  C03G_stream_strict        C01_stream_strict for the GENERATED driver on the generated `MemSource`: the stream it returns is written
                     successfully and the strict RFC 9639 analyser accepts the bytes and returns the input, true STREAMINFO
  C03G_driver_mem_value     the Rust-side value returned (STREAMINFO block flagged last, no further block, frames with `FrameOk`)
  C03G_stream_ops_closed    `Stream::write` (Gen/Writer) of that stream with the utf8 parameter instantiated by the GENERATED
                     `encode_to_utf8like` = the model's `(streamImage G).ops`; remaining parameters listed in its doc comment
  C03G_stream_write_strict  C03G_stream_strict with the writer: the generated `Stream::write` of the returned stream succeeds with an op
                     list whose ideal bits are the bytes the strict analyser accepts (utf8 closed; scratch-sink read-outs, CRC: parameters)
  C03G_driver_mem_stream    ... in the form "if `encodeStream` returns `(s, log')` the generated driver returns `Ok(G)` with image `s`"
-/
import FlacVerif.Theorems.C03Gen
import FlacVerif.Theorems.C01Strict
import FlacVerif.Theorems.C08Gen3
import FlacVerif.Theorems.C12
namespace FlacVerif
namespace C03GenMem

theorem flatMap_drop_uniform {α β : Type} (f : α → List β) (ch : Nat) (hf : ∀ x, (f x).length = ch) :
    ∀ (l : List α) (a : Nat), (l.flatMap f).drop (a * ch) = (l.drop a).flatMap f := by
  intro l
  induction l with
  | nil => intro a; simp
  | cons x xs ih =>
    intro a
    cases a with
    | zero => simp
    | succ a =>
      rw [List.flatMap_cons, List.drop_succ_cons, ← ih a, Nat.succ_mul, List.drop_append, hf x]
      have : (f x).drop (a * ch + ch) = [] := List.drop_eq_nil_of_le (by rw [hf x]; omega)
      rw [this, Nat.add_sub_cancel, List.nil_append]

theorem flatMap_take_uniform {α β : Type} (f : α → List β) (ch : Nat) (hf : ∀ x, (f x).length = ch) :
    ∀ (l : List α) (n : Nat), (l.flatMap f).take (n * ch) = (l.take n).flatMap f := by
  intro l
  induction l with
  | nil => intro n; simp
  | cons x xs ih =>
    intro n
    cases n with
    | zero => simp
    | succ n =>
      rw [List.flatMap_cons, List.take_succ_cons, List.flatMap_cons, ← ih n, Nat.succ_mul, List.take_append, hf x]
      have : (f x).take (n * ch + ch) = f x := List.take_of_length_le (by rw [hf x]; omega)
      rw [this, Nat.add_sub_cancel]

/-- the interleaved samples of block `j` are a slice of the interleaved input -/
theorem interleave_slice (bs : Nat) (chans : List (List Int)) (total j : Nat) (hne : 1 ≤ chans.length)
    (hlen : ∀ c ∈ chans, c.length = total) :
    ((Rfc.interleave chans).drop (j * bs * chans.length)).take (min bs (total - j * bs) * chans.length) =
      Rfc.interleave (chans.map fun c => (c.drop (j * bs)).take bs) := by
  have hbl : ∀ c ∈ (chans.map fun c => (c.drop (j * bs)).take bs), c.length = min bs (total - j * bs) := by
    intro c hc
    obtain ⟨c0, hc0, rfl⟩ := List.mem_map.1 hc
    rw [List.length_take, List.length_drop, hlen c0 hc0]
  rw [Wrap.interleave_def chans total hne hlen, Wrap.interleave_def _ (min bs (total - j * bs)) (by simpa using hne) hbl,
    flatMap_drop_uniform _ chans.length (by intro t; simp), flatMap_take_uniform _ chans.length (by intro t; simp)]
  have : ((List.range total).drop (j * bs)).take (min bs (total - j * bs)) = ((List.range total).drop (j * bs)).take bs := by
    rw [List.take_eq_take_iff]; simp
  rw [this, Wrap.chunk_range, List.flatMap_map]
  apply Wrap.flatMap_congr_mem
  intro t ht
  rw [List.mem_range] at ht
  rw [List.map_map]
  apply List.map_congr_left
  intro c _
  exact (Wrap.getD_take_drop c (j * bs) bs t (by omega)).symm

theorem interleave_getD (b : List (List Int)) (n t c : Nat) (hne : 1 ≤ b.length) (hlen : ∀ x ∈ b, x.length = n)
    (ht : t < n) (hc : c < b.length) : (Rfc.interleave b).getD (b.length * t + c) 0 = (b.getD c []).getD t 0 := by
  have h1 := flatMap_drop_uniform (fun t => b.map fun x => x.getD t 0) b.length (by intro t; simp) (List.range n) t
  have h2 := flatMap_take_uniform (fun t => b.map fun x => x.getD t 0) b.length (by intro t; simp) ((List.range n).drop t) 1
  rw [← h1, Nat.one_mul] at h2
  rw [Wrap.interleave_def b n hne hlen, Nat.mul_comm b.length t, ← Wrap.getD_take_drop _ (t * b.length) b.length c hc, h2]
  have : ((List.range n).drop t).take 1 = [t] := by
    apply List.ext_getElem
    · simp; omega
    · intro i h1 h2; simp at h1 ⊢; omega
  rw [this]
  simp [List.getD_eq_getElem?_getD, hc]

theorem flatMap_length_uniform {α β : Type} (f : α → List β) (ch : Nat) (hf : ∀ x, (f x).length = ch) (l : List α) :
    (l.flatMap f).length = l.length * ch := by
  induction l with
  | nil => simp
  | cons x xs ih => rw [List.flatMap_cons, List.length_append, ih, hf x, List.length_cons, Nat.succ_mul]; omega

theorem interleave_length (b : List (List Int)) (n : Nat) (hne : 1 ≤ b.length) (hlen : ∀ x ∈ b, x.length = n) :
    (Rfc.interleave b).length = n * b.length := by
  rw [Wrap.interleave_def b n hne hlen, flatMap_length_uniform _ b.length (by intro t; simp), List.length_range]

theorem range_map_getD_list (b : List (List Int)) : (List.range b.length).map (fun c => b.getD c []) = b := by
  apply List.ext_getElem
  · simp
  · intro i h1 h2
    simp [List.getD_eq_getElem?_getD, h2]

open FlacVerif.C03Gen FlacVerif.Gen.Driver
open FlacVerif.Gen.Coding (M)

theorem block_range (chans : List (List Int)) (bps bs j : Nat) (hxr : ∀ x ∈ chans, ∀ v ∈ x, SubFrame.inRange bps v = true) :
    ∀ x ∈ (chans.map fun x => (x.drop (j * bs)).take bs), ∀ v ∈ x, SubFrame.inRange bps v = true := by
  intro x hx v hv
  obtain ⟨c0, hc0, rfl⟩ := List.mem_map.1 hx
  exact hxr c0 hc0 v (List.mem_of_mem_drop (List.mem_of_mem_take hv))

/-- the context after a non-empty fill: `bytes` hashed, `n` samples and one frame counted -/
def ctxAfter (c : Gen.Source.Context) (bytes : List Nat) (n : Nat) : Gen.Source.Context :=
  { c with md5 := c.md5 ++ bytes, sample_count := c.sample_count + n, frame_count := c.frame_count + 1 }

/-- **one block of the generated `MemSource`**: from `read_head = j·bs` (a block is left: `j·bs < total`) `read_samples` hands the
interleaved block `j` to the pair fill; the buffer then holds exactly that block (`GoodFb`), the context has hashed its bytes
and counted its samples and one frame, the block length is returned and added to `read_head`. -/
theorem mem_block (chans : List (List Int)) (ch bps rate bs total j : Nat) (g : Gen.Source.FrameBuf) (c : Gen.Source.Context)
    (hcl : chans.length = ch) (hch : 1 ≤ ch ∧ ch ≤ 8) (hlen : ∀ x ∈ chans, x.length = total)
    (hxr : ∀ x ∈ (chans.map fun x => (x.drop (j * bs)).take bs), ∀ v ∈ x, SubFrame.inRange bps v = true) (hb : 1 ≤ bps ∧ bps ≤ 24)
    (hbs : 1 ≤ bs ∧ bs < 2 ^ 16) (htot : total < 2 ^ 40) (hj : j * bs < total)
    (hg : C14Gen.Shape g ch) (hgs : g.size = bs)
    (hc1 : c.bytes_per_sample = (bps + 7) / 8) (hc2 : c.channels = ch) (hc3 : c.sample_count ≤ total)
    (hc4 : c.frame_count ≤ total) :
    ∃ g', C14Gen.Shape g' ch ∧ g'.size = bs ∧
      GoodFb g' (chans.map fun x => (x.drop (j * bs)).take bs) ch bps ∧
      memOps.read_samples ⟨ch, bps, rate, Rfc.interleave chans, j * bs⟩ bs (g, c) =
        some (some (min bs (total - j * bs)), ⟨ch, bps, rate, Rfc.interleave chans, j * bs + min bs (total - j * bs)⟩,
          (g', ctxAfter c (md5Input bps (Rfc.interleave (chans.map fun x => (x.drop (j * bs)).take bs)))
            (min bs (total - j * bs)))) := by
  have h40 : (2 : Nat) ^ 40 = 1099511627776 := by decide
  have h16 : (2 : Nat) ^ 16 = 65536 := by decide
  have hne : 1 ≤ chans.length := by omega
  generalize hn : min bs (total - j * bs) = n
  have hn1 : 1 ≤ n ∧ n ≤ bs ∧ j * bs + n ≤ total := by omega
  generalize hblk : (chans.map fun x => (x.drop (j * bs)).take bs) = blk
  have hbll : blk.length = ch := by rw [← hblk]; simpa using hcl
  have hbl : ∀ x ∈ blk, x.length = n := by
    intro x hx
    rw [← hblk] at hx
    obtain ⟨c0, hc0, rfl⟩ := List.mem_map.1 hx
    rw [List.length_take, List.length_drop, hlen c0 hc0]; omega
  have hxl : (Rfc.interleave chans).length = total * ch := by rw [interleave_length chans total hne hlen, hcl]
  have hil : (Rfc.interleave blk).length = n * ch := by rw [interleave_length blk n (by omega) hbl, hbll]
  have hslice := interleave_slice bs chans total j hne hlen
  rw [hcl, hn, hblk] at hslice
  -- arithmetic of the slice bounds
  have hA : j * bs * ch + n * ch ≤ total * ch := by
    rw [← Nat.add_mul]; exact Nat.mul_le_mul_right _ hn1.2.2
  have hB : n * ch ≤ bs * ch := Nat.mul_le_mul_right _ hn1.2.1
  have hT : total * ch ≤ 1099511627776 * 8 := Nat.mul_le_mul (by omega) hch.2
  have hBS : bs * ch ≤ 65536 * 8 := Nat.mul_le_mul (by omega) hch.2
  have hJ : j * bs * ch ≤ total * ch := Nat.mul_le_mul_right _ (by omega)
  have hnc1 : 1 ≤ n * ch := Nat.mul_pos (by omega) (by omega)
  have hb0 : min (j * bs * ch) (Rfc.interleave chans).length = j * bs * ch := by rw [hxl]; omega
  have he0 : min (j * bs * ch + bs * ch) (Rfc.interleave chans).length - j * bs * ch = n * ch := by
    rw [hxl]
    by_cases hfull : j * bs + bs ≤ total
    · have hnb : n = bs := by omega
      rw [hnb]
      have : j * bs * ch + bs * ch ≤ total * ch := by rw [← Nat.add_mul]; exact Nat.mul_le_mul_right _ hfull
      omega
    · have hnt : n = total - j * bs := by omega
      have h1 : total * ch ≤ j * bs * ch + bs * ch := by rw [← Nat.add_mul]; exact Nat.mul_le_mul_right _ (by omega)
      have h2 : n * ch = total * ch - j * bs * ch := by rw [hnt, Nat.sub_mul]
      omega
  -- the buffer
  have hmlen : (C14Gen.toModel g ch).samples.length = (C14Gen.toModel g ch).size * (C14Gen.toModel g ch).channels := hg.len
  obtain ⟨m', hm, hfilled, hslen, hsize, hchn⟩ := C14_fill_accepts (C14Gen.toModel g ch) hmlen (Rfc.interleave blk)
    (by simp only [C14Gen.toModel, hgs, hil]; exact hB) (by simp only [C14Gen.toModel, hil]; exact Nat.mul_mod_left _ _)
  simp only [C14Gen.toModel] at hfilled hslen hsize hchn
  rw [hil, Nat.mul_div_cancel _ (by omega : 0 < ch)] at hfilled
  have hg' : C14Gen.Shape { g with samples := m'.samples, filled_size := m'.filled } ch :=
    ⟨by simp only [hslen]; exact hg.len, hg.size_pos, hg.ch_pos, by simp only [hslen]; exact hg.small⟩
  have hslice_c : ∀ cc, cc < ch → C09Gen.chanOf (fbToCoding { g with samples := m'.samples, filled_size := m'.filled }) cc = blk.getD cc [] := by
    intro cc hcc
    have := C14_channel_slice (C14Gen.toModel g ch) hch.1 hmlen (Rfc.interleave blk) m' hm cc hcc
    simp only [FlacVerif.FrameBuf.channelSlice, C14Gen.toModel, hsize, hil, Nat.mul_div_cancel _ (by omega : 0 < ch)] at this
    simp only [C09Gen.chanOf, fbToCoding]
    rw [this]
    have hcl' : (blk.getD cc []).length = n := by
      have hmem : blk.getD cc [] ∈ blk := by
        rw [List.getD_eq_getElem?_getD, List.getElem?_eq_getElem (by omega)]; simp
      exact hbl _ hmem
    have hr := SourceLemmas.range_map_getD (blk.getD cc [])
    rw [hcl'] at hr
    refine Eq.trans ?_ hr
    apply List.map_congr_left
    intro t ht
    rw [List.mem_range] at ht
    rw [← hbll]
    exact interleave_getD blk n t cc (by omega) hbl (by omega) (by omega)
  refine ⟨{ g with samples := m'.samples, filled_size := m'.filled }, hg', hgs, ?_, ?_⟩
  · -- GoodFb
    have hrange : ∀ cc, cc < ch → ∀ x ∈ C09Gen.chanOf (fbToCoding { g with samples := m'.samples, filled_size := m'.filled }) cc,
        SubFrame.inRange bps x = true := by
      intro cc hcc x hx
      rw [hslice_c cc hcc] at hx
      have hmem : blk.getD cc [] ∈ blk := by
        rw [List.getD_eq_getElem?_getD, List.getElem?_eq_getElem (by omega)]; simp
      rw [← hblk] at hmem hx
      exact hxr _ hmem x hx
    refine ⟨?_, ?_, by simp only [hfilled]; omega, hrange, ?_, ?_⟩
    · unfold C09Gen.chansOf
      rw [← range_map_getD_list blk, hbll]
      apply List.map_congr_left
      intro cc hcc
      rw [List.mem_range] at hcc
      exact hslice_c cc hcc
    · refine ⟨?_, by simp only [fbToCoding, hfilled, hgs]; omega, by simp only [fbToCoding, hslen]; have := hg.small; omega⟩
      simp only [fbToCoding, hslen, hg.len]; rw [Nat.mul_comm]; exact Nat.le_refl _
    · simp only [hslen, hg.len]; exact Nat.mul_div_cancel_left ch hg.size_pos
    · unfold verifySamples
      have hfo : fbOfCoding (fbToCoding { g with samples := m'.samples, filled_size := m'.filled }) =
          { g with samples := m'.samples, filled_size := m'.filled } := rfl
      rw [hfo, C14Gen.C14G_verify_samples _ ch hg' (by simp only [hfilled, hgs]; omega) bps (by omega)]
      have hall : (C14Gen.toModel { g with samples := m'.samples, filled_size := m'.filled } ch).verifySamples bps = true := by
        unfold FlacVerif.FrameBuf.verifySamples
        simp only [List.all_eq_true, List.mem_range, C14Gen.toModel]
        intro cc hcc v hv
        have := hrange cc hcc v hv
        unfold SubFrame.inRange at this
        simp only [Bool.and_eq_true, decide_eq_true_eq] at this ⊢
        omega
      rw [hall]; rfl
  · -- the call
    unfold memOps
    simp only []
    rw [C14Gen.C14G_read_samples _ _ _ _ (by simp only []; omega) (by simp only []; omega) (by simp only []; omega)]
    simp only [hb0, he0, hslice]
    rw [C14Gen.C14G_pair_fill_interleaved, C14Gen.C14G_fill_interleaved g ch hg _ (by rw [hil]; omega), hm]
    simp only []
    have hne' : Rfc.interleave blk ≠ [] := by
      intro h; rw [h] at hil; simp at hil; omega
    rw [C14Gen.C14G_ctx_fill_interleaved c bps hc1 (by rw [hc1]; omega) _ (fun _ => by rw [hc2]; exact hch.1)
      (by rw [hc2, hil, Nat.mul_div_cancel _ (by omega : 0 < ch)]; omega) (by omega)]
    have hie : (Rfc.interleave blk).isEmpty = false := by
      cases h : Rfc.interleave blk with
      | nil => exact absurd h hne'
      | cons _ _ => rfl
    simp only [Ctx.fillInterleaved, C14Gen.toCtx, hie, Bool.false_eq_true, if_false, hc2, hil,
      Nat.mul_div_cancel _ (by omega : 0 < ch), ctxAfter]

theorem mem_block_bad (chans : List (List Int)) (ch bps rate bs total j : Nat) (g : Gen.Source.FrameBuf) (c : Gen.Source.Context)
    (hcl : chans.length = ch) (hch : 1 ≤ ch ∧ ch ≤ 8) (hlen : ∀ x ∈ chans, x.length = total)
    (hbad : ∃ cc, cc < ch ∧ ∃ v ∈ (chans.map fun x => (x.drop (j * bs)).take bs).getD cc [], SubFrame.inRange bps v = false)
    (hb : 1 ≤ bps ∧ bps ≤ 24)
    (hbs : 1 ≤ bs ∧ bs < 2 ^ 16) (htot : total < 2 ^ 40) (hj : j * bs < total)
    (hg : C14Gen.Shape g ch) (hgs : g.size = bs)
    (hc1 : c.bytes_per_sample = (bps + 7) / 8) (hc2 : c.channels = ch) (hc3 : c.sample_count ≤ total)
    (hc4 : c.frame_count ≤ total) :
    ∃ g', (g'.size ≠ 0 ∧ g'.samples.length / g'.size = ch ∧ 0 < g'.filled_size ∧
        verifySamples (fbToCoding g') bps = some false) ∧
      memOps.read_samples ⟨ch, bps, rate, Rfc.interleave chans, j * bs⟩ bs (g, c) =
        some (some (min bs (total - j * bs)), ⟨ch, bps, rate, Rfc.interleave chans, j * bs + min bs (total - j * bs)⟩,
          (g', ctxAfter c (md5Input bps (Rfc.interleave (chans.map fun x => (x.drop (j * bs)).take bs)))
            (min bs (total - j * bs)))) := by
  have h40 : (2 : Nat) ^ 40 = 1099511627776 := by decide
  have h16 : (2 : Nat) ^ 16 = 65536 := by decide
  have hne : 1 ≤ chans.length := by omega
  generalize hn : min bs (total - j * bs) = n
  have hn1 : 1 ≤ n ∧ n ≤ bs ∧ j * bs + n ≤ total := by omega
  generalize hblk : (chans.map fun x => (x.drop (j * bs)).take bs) = blk
  have hbll : blk.length = ch := by rw [← hblk]; simpa using hcl
  have hbl : ∀ x ∈ blk, x.length = n := by
    intro x hx
    rw [← hblk] at hx
    obtain ⟨c0, hc0, rfl⟩ := List.mem_map.1 hx
    rw [List.length_take, List.length_drop, hlen c0 hc0]; omega
  have hxl : (Rfc.interleave chans).length = total * ch := by rw [interleave_length chans total hne hlen, hcl]
  have hil : (Rfc.interleave blk).length = n * ch := by rw [interleave_length blk n (by omega) hbl, hbll]
  have hslice := interleave_slice bs chans total j hne hlen
  rw [hcl, hn, hblk] at hslice
  -- arithmetic of the slice bounds
  have hA : j * bs * ch + n * ch ≤ total * ch := by
    rw [← Nat.add_mul]; exact Nat.mul_le_mul_right _ hn1.2.2
  have hB : n * ch ≤ bs * ch := Nat.mul_le_mul_right _ hn1.2.1
  have hT : total * ch ≤ 1099511627776 * 8 := Nat.mul_le_mul (by omega) hch.2
  have hBS : bs * ch ≤ 65536 * 8 := Nat.mul_le_mul (by omega) hch.2
  have hJ : j * bs * ch ≤ total * ch := Nat.mul_le_mul_right _ (by omega)
  have hnc1 : 1 ≤ n * ch := Nat.mul_pos (by omega) (by omega)
  have hb0 : min (j * bs * ch) (Rfc.interleave chans).length = j * bs * ch := by rw [hxl]; omega
  have he0 : min (j * bs * ch + bs * ch) (Rfc.interleave chans).length - j * bs * ch = n * ch := by
    rw [hxl]
    by_cases hfull : j * bs + bs ≤ total
    · have hnb : n = bs := by omega
      rw [hnb]
      have : j * bs * ch + bs * ch ≤ total * ch := by rw [← Nat.add_mul]; exact Nat.mul_le_mul_right _ hfull
      omega
    · have hnt : n = total - j * bs := by omega
      have h1 : total * ch ≤ j * bs * ch + bs * ch := by rw [← Nat.add_mul]; exact Nat.mul_le_mul_right _ (by omega)
      have h2 : n * ch = total * ch - j * bs * ch := by rw [hnt, Nat.sub_mul]
      omega
  -- the buffer
  have hmlen : (C14Gen.toModel g ch).samples.length = (C14Gen.toModel g ch).size * (C14Gen.toModel g ch).channels := hg.len
  obtain ⟨m', hm, hfilled, hslen, hsize, hchn⟩ := C14_fill_accepts (C14Gen.toModel g ch) hmlen (Rfc.interleave blk)
    (by simp only [C14Gen.toModel, hgs, hil]; exact hB) (by simp only [C14Gen.toModel, hil]; exact Nat.mul_mod_left _ _)
  simp only [C14Gen.toModel] at hfilled hslen hsize hchn
  rw [hil, Nat.mul_div_cancel _ (by omega : 0 < ch)] at hfilled
  have hg' : C14Gen.Shape { g with samples := m'.samples, filled_size := m'.filled } ch :=
    ⟨by simp only [hslen]; exact hg.len, hg.size_pos, hg.ch_pos, by simp only [hslen]; exact hg.small⟩
  have hslice_c : ∀ cc, cc < ch → C09Gen.chanOf (fbToCoding { g with samples := m'.samples, filled_size := m'.filled }) cc = blk.getD cc [] := by
    intro cc hcc
    have := C14_channel_slice (C14Gen.toModel g ch) hch.1 hmlen (Rfc.interleave blk) m' hm cc hcc
    simp only [FlacVerif.FrameBuf.channelSlice, C14Gen.toModel, hsize, hil, Nat.mul_div_cancel _ (by omega : 0 < ch)] at this
    simp only [C09Gen.chanOf, fbToCoding]
    rw [this]
    have hcl' : (blk.getD cc []).length = n := by
      have hmem : blk.getD cc [] ∈ blk := by
        rw [List.getD_eq_getElem?_getD, List.getElem?_eq_getElem (by omega)]; simp
      exact hbl _ hmem
    have hr := SourceLemmas.range_map_getD (blk.getD cc [])
    rw [hcl'] at hr
    refine Eq.trans ?_ hr
    apply List.map_congr_left
    intro t ht
    rw [List.mem_range] at ht
    rw [← hbll]
    exact interleave_getD blk n t cc (by omega) hbl (by omega) (by omega)
  rw [hblk] at hbad
  refine ⟨{ g with samples := m'.samples, filled_size := m'.filled }, ⟨?_, ?_, ?_, ?_⟩, ?_⟩
  · simp only [hgs]; omega
  · simp only [hslen, hg.len]; exact Nat.mul_div_cancel_left ch hg.size_pos
  · simp only [hfilled]; omega
  · unfold verifySamples
    have hfo : fbOfCoding (fbToCoding { g with samples := m'.samples, filled_size := m'.filled }) =
        { g with samples := m'.samples, filled_size := m'.filled } := rfl
    rw [hfo, C14Gen.C14G_verify_samples _ ch hg' (by simp only [hfilled, hgs]; omega) bps (by omega)]
    have hall : (C14Gen.toModel { g with samples := m'.samples, filled_size := m'.filled } ch).verifySamples bps = false := by
      rw [Bool.eq_false_iff]
      intro hall
      unfold FlacVerif.FrameBuf.verifySamples at hall
      simp only [List.all_eq_true, List.mem_range, C14Gen.toModel] at hall
      obtain ⟨cc, hcc, v, hv, hvr⟩ := hbad
      have hv' : v ∈ C09Gen.chanOf (fbToCoding { g with samples := m'.samples, filled_size := m'.filled }) cc := by
        rw [hslice_c cc hcc]; exact hv
      have := hall cc hcc v hv'
      unfold SubFrame.inRange at hvr
      simp only [Bool.and_eq_true, decide_eq_true_eq] at this
      simp only [Bool.and_eq_false_iff, decide_eq_false_iff_not] at hvr
      omega
    rw [hall]; rfl
  · -- the call
    unfold memOps
    simp only []
    rw [C14Gen.C14G_read_samples _ _ _ _ (by simp only []; omega) (by simp only []; omega) (by simp only []; omega)]
    simp only [hb0, he0, hslice]
    rw [C14Gen.C14G_pair_fill_interleaved, C14Gen.C14G_fill_interleaved g ch hg _ (by rw [hil]; omega), hm]
    simp only []
    have hne' : Rfc.interleave blk ≠ [] := by
      intro h; rw [h] at hil; simp at hil; omega
    rw [C14Gen.C14G_ctx_fill_interleaved c bps hc1 (by rw [hc1]; omega) _ (fun _ => by rw [hc2]; exact hch.1)
      (by rw [hc2, hil, Nat.mul_div_cancel _ (by omega : 0 < ch)]; omega) (by omega)]
    have hie : (Rfc.interleave blk).isEmpty = false := by
      cases h : Rfc.interleave blk with
      | nil => exact absurd h hne'
      | cons _ _ => rfl
    simp only [Ctx.fillInterleaved, C14Gen.toCtx, hie, Bool.false_eq_true, if_false, hc2, hil,
      Nat.mul_div_cancel _ (by omega : 0 < ch), ctxAfter]

/-- **the exhausted `MemSource`**: with `read_head` at (or beyond) the end, `read_samples` delivers nothing, returns 0 and leaves
source and context as they are. -/
theorem mem_done (ch bps rate bs rh : Nat) (xs : List Int) (g : Gen.Source.FrameBuf) (c : Gen.Source.Context)
    (hch : 1 ≤ ch) (hend : xs.length ≤ rh * ch) (ho : rh * ch + bs * ch < 2 ^ 64) (hr : rh + bs < 2 ^ 64)
    (hg : C14Gen.Shape g ch) :
    ∃ g', memOps.read_samples ⟨ch, bps, rate, xs, rh⟩ bs (g, c) = some (some 0, ⟨ch, bps, rate, xs, rh⟩, (g', c)) := by
  refine ⟨{ g with samples := deinterleave [] ch g.size g.samples, filled_size := 0 }, ?_⟩
  unfold memOps
  simp only []
  rw [C14Gen.C14G_read_samples _ _ _ _ hch ho hr]
  have hb0 : min (rh * ch) xs.length = xs.length := by omega
  have he0 : min (rh * ch + bs * ch) xs.length = xs.length := by omega
  simp only [hb0, he0, Nat.sub_self, List.take_zero, Nat.zero_div, Nat.add_zero]
  rw [C14Gen.C14G_pair_fill_interleaved, C14Gen.C14G_fill_interleaved g ch hg [] (by simp)]
  have hfill : (C14Gen.toModel g ch).fillInterleaved [] =
      .ok { C14Gen.toModel g ch with samples := deinterleave [] ch g.size g.samples, filled := 0 } := by
    unfold FlacVerif.FrameBuf.fillInterleaved
    simp [C14Gen.toModel]
  rw [hfill]
  simp [Gen.Source.Context.fill_interleaved]

/-- **(b) the generated `MemSource` abides by the source contract**: holding `interleave chans` (1..8 channels of equal length,
samples inside the width), from `read_head = min (j·bs) total` it delivers the blocks `j, j+1, ..` of `blocksOf bs chans` and
ends exhausted. -/
theorem mem_delivers_aux (chans : List (List Int)) (ch bps rate bs total : Nat)
    (hcl : chans.length = ch) (hch : 1 ≤ ch ∧ ch ≤ 8) (hlen : ∀ x ∈ chans, x.length = total)
    (hxr : ∀ x ∈ chans, ∀ v ∈ x, SubFrame.inRange bps v = true) (hb : 1 ≤ bps ∧ bps ≤ 24)
    (hbs : 1 ≤ bs ∧ bs < 2 ^ 16) (htot : total < 2 ^ 40) :
    ∀ (k j : Nat) (g : Gen.Source.FrameBuf) (c : Gen.Source.Context), j + k = (total + bs - 1) / bs →
      C14Gen.Shape g ch → g.size = bs → c.bytes_per_sample = (bps + 7) / 8 → c.channels = ch →
      c.sample_count = min (j * bs) total → c.frame_count = j →
      ∃ fbcf, Delivers memOps bs ch bps ⟨ch, bps, rate, Rfc.interleave chans, min (j * bs) total⟩ (g, c)
        ((List.range' j k).map fun i => chans.map fun x => (x.drop (i * bs)).take bs)
        ⟨ch, bps, rate, Rfc.interleave chans, total⟩ fbcf := by
  have h40 : (2 : Nat) ^ 40 = 1099511627776 := by decide
  have h16 : (2 : Nat) ^ 16 = 65536 := by decide
  have hne : 1 ≤ chans.length := by omega
  have hxl : (Rfc.interleave chans).length = total * ch := by rw [interleave_length chans total hne hlen, hcl]
  have hT : total * ch ≤ 1099511627776 * 8 := Nat.mul_le_mul (by omega) hch.2
  have hBS : bs * ch ≤ 65536 * 8 := Nat.mul_le_mul (by omega) hch.2
  intro k
  induction k with
  | zero =>
    intro j g c hjk hg _ _ _ _ _
    have hge := Strict.ceil_mul_ge total bs hbs.1
    have hj : j = (total + bs - 1) / bs := by omega
    have hmin : min (j * bs) total = total := by rw [hj]; omega
    rw [hmin]
    obtain ⟨g', hread⟩ := mem_done ch bps rate bs total (Rfc.interleave chans) g c hch.1 (by rw [hxl]; exact Nat.le_refl _)
      (by omega) (by omega) hg
    exact ⟨(g', c), Delivers.done _ _ _ _ hread rfl⟩
  | succ k ih =>
    intro j g c hjk hg hgs hc1 hc2 hc3 hc4
    have hjlt := Strict.lt_ceil total bs j hbs.1 (by omega)
    have hmin : min (j * bs) total = j * bs := by omega
    have hjt : j ≤ total := by
      have : j * 1 ≤ j * bs := Nat.mul_le_mul_left j hbs.1
      omega
    obtain ⟨g', hg', hgs', hgood, hread⟩ := mem_block chans ch bps rate bs total j g c hcl hch hlen (block_range chans bps bs j hxr) hb hbs htot hjlt hg hgs hc1 hc2
      (by omega) (by omega)
    have hnext : j * bs + min bs (total - j * bs) = min ((j + 1) * bs) total := by rw [Nat.succ_mul]; omega
    rw [hnext] at hread
    obtain ⟨fbcf, hd⟩ := ih (j + 1) g' (ctxAfter c (md5Input bps (Rfc.interleave (chans.map fun x => (x.drop (j * bs)).take bs)))
        (min bs (total - j * bs))) (by omega) hg' hgs' hc1 hc2
      (by simp only [ctxAfter, hc3]; rw [Nat.succ_mul]; omega) (by simp only [ctxAfter, hc4])
    rw [hmin, List.range'_succ, List.map_cons]
    exact ⟨fbcf, Delivers.block _ _ _ _ _ _ _ _ (min bs (total - j * bs)) hread (by omega)
      (by rw [Strict.block_headD bs chans total hne hlen j]) rfl hgood hd⟩

/-- **(b) `memOps` satisfies `Delivers` for `blocksOf bs chans`**: the generated `MemSource::from_samples(interleave chans, ..)`
with the buffer `FrameBuf::with_size` made and a fresh context delivers exactly the model's blocks. -/
theorem C03G_mem_delivers (chans : List (List Int)) (ch bps rate bs total : Nat) (m0 : FlacVerif.FrameBuf)
    (hcl : chans.length = ch) (hlen : ∀ x ∈ chans, x.length = total)
    (hxr : ∀ x ∈ chans, ∀ v ∈ x, SubFrame.inRange bps v = true) (hb : 1 ≤ bps ∧ bps ≤ 24) (htot : total < 2 ^ 40)
    (hfb : FlacVerif.FrameBuf.withSize ch bs = some m0) :
    ∃ fbcf, Delivers memOps bs ch bps (Gen.Source.MemSource.from_samples (Rfc.interleave chans) ch bps rate)
      (C14Gen.ofModel m0 [], ⟨[], (bps + 7) / 8, ch, 0, 0⟩) (blocksOf bs chans)
      ⟨ch, bps, rate, Rfc.interleave chans, total⟩ fbcf := by
  have hch : 1 ≤ ch ∧ ch ≤ 8 ∧ 32 ≤ bs ∧ bs ≤ 32767 := by
    unfold FlacVerif.FrameBuf.withSize at hfb
    split at hfb
    · assumption
    · simp at hfb
  have hm0 : m0 = ⟨List.replicate (bs * ch) 0, bs, ch, 0⟩ := by
    unfold FlacVerif.FrameBuf.withSize at hfb
    rw [if_pos hch] at hfb
    simpa using hfb.symm
  have hmul : bs * ch ≤ 32767 * 8 := Nat.mul_le_mul hch.2.2.2 hch.2.1
  have hshape : C14Gen.Shape (C14Gen.ofModel m0 []) ch := by
    subst hm0
    exact ⟨by simp [C14Gen.ofModel], by simp [C14Gen.ofModel]; omega, hch.1, by simp [C14Gen.ofModel]; omega⟩
  have hsize : (C14Gen.ofModel m0 []).size = bs := by subst hm0; rfl
  have h16 : (2 : Nat) ^ 16 = 65536 := by decide
  obtain ⟨fbcf, hd⟩ := mem_delivers_aux chans ch bps rate bs total hcl ⟨hch.1, hch.2.1⟩ hlen hxr hb (by omega) htot
    ((total + bs - 1) / bs) 0 (C14Gen.ofModel m0 []) ⟨[], (bps + 7) / 8, ch, 0, 0⟩ (by omega) hshape hsize rfl rfl (by simp) rfl
  refine ⟨fbcf, ?_⟩
  rw [Strict.blocksOf_eq bs chans total (by omega) hlen, List.range_eq_range']
  simpa [Gen.Source.MemSource.from_samples] using hd

/-- **the generated driver on the generated `MemSource` = the model's `encodeStream`** (success direction): the chain
source text -> `Gen/Source.lean` + `Gen/Coding.lean` + `Gen/Driver.lean` -> `encodeStream`, on which C01_stream_strict / C03 / C04 /
C09Stream rest, is closed by proof: `encode_with_fixed_block_size(cfg, MemSource::from_samples(interleave chans, ch, bps, rate),
bs)` with accepted arguments, samples inside the width, a single-thread configuration within the C09Gen bounds, a valid oracle
log for which the model's frame loop returns: same stream (image), same remaining log. -/
theorem C03G_driver_mem_success (featPar : Bool) (par : Gen.Encoder → Gen.Source.MemSource → Nat → M (Option Gen.Writer.Stream))
    (md5f : List Nat → List Nat) (s1 : Nat → List (List Int)) (s2 : Nat → List Int) (s3 : Nat → Gen.Coding.FrameBuf)
    (c : Gen.Encoder) (chans : List (List Int)) (ch bps rate bs total : Nat) (log logf : List OEvent) (i0 : StreamInfo)
    (m0 : FlacVerif.FrameBuf) (fs : List Frame)
    (hmt : c.multithread = false)
    (hnew : FlacVerif.StreamInfo.new rate ch bps = some i0) (hfb : FlacVerif.FrameBuf.withSize ch bs = some m0)
    (hst : ∀ n, C09Gen.StereoBuf (s3 n)) (hb : 1 ≤ bps ∧ bps ≤ 24)
    (hmax : c.subframe_coding.prc.max_parameter ≤ 14) (hmo : c.subframe_coding.fixed.max_order + 1 < 2 ^ 64)
    (hcl : chans.length = ch) (hlen : ∀ x ∈ chans, x.length = total)
    (hxr : ∀ x ∈ chans, ∀ v ∈ x, SubFrame.inRange bps v = true) (htot : total < 2 ^ 40)
    (henc : encodeFrames (Total.subCfgOf c.subframe_coding) (Total.stereoCfgOf c.stereo_coding) bps rate (blocksOf bs chans) 0 log =
      some (fs, logf))
    (hlog : C09Gen.LogFits log) (hlogok : ∀ e ∈ log, e.Ok) (hnb : (blocksOf bs chans).length < 2 ^ 31)
    (hmd : ∀ l, (md5f l).length = 16) :
    ∀ fuel, (blocksOf bs chans).length < fuel →
      (encode_with_fixed_block_size featPar memOps par md5f s1 s2 s3 fuel c
          (Gen.Source.MemSource.from_samples (Rfc.interleave chans) ch bps rate) bs log).map
        (fun r => (r.1.map streamImage, r.2)) =
      (encodeStream md5f (Total.subCfgOf c.subframe_coding) (Total.stereoCfgOf c.stereo_coding) bs chans bps rate log).map
        (fun r => (some r.1, r.2)) := by
  obtain ⟨fbcf, hd⟩ := C03G_mem_delivers chans ch bps rate bs total m0 hcl hlen hxr hb htot hfb
  have hch : 1 ≤ ch ∧ 1 ≤ bs := by
    unfold FlacVerif.FrameBuf.withSize at hfb
    split at hfb
    · rename_i h; omega
    · simp at hfb
  have hne : 1 ≤ chans.length := by omega
  have hxl : (Rfc.interleave chans).length = total * ch := by rw [interleave_length chans total hne hlen, hcl]
  have hlh : memOps.len_hint ⟨ch, bps, rate, Rfc.interleave chans, total⟩ = some (some total) := by
    have h0 : ch ≠ 0 := by omega
    simp [memOps, Gen.Source.MemSource.len_hint, Gen.Source.MemSource.len, Gen.Source.MemSource.channels_fn, Gen.Source.req,
      Gen.Source.bindO, h0, hxl, Nat.mul_div_cancel _ (by omega : 0 < ch)]
  have hhead : (chans.headD []).length = total := by
    cases chans with
    | nil => simp at hne
    | cons x xs => exact hlen x (by simp)
  exact C03G_driver_contract_model_success memOps featPar par md5f s1 s2 s3 c _ _ bs log logf i0 m0 fbcf (some total) chans total fs
    hmt hnew hfb hst hb hmax hmo hcl hlen hd henc hlog hlogok hnb hlh (by simpa using hhead.symm) hmd

/-- the same, solved for the generated result: whenever the model's `encodeStream` returns `(s, log')`, the generated driver
returns `Ok(G)` with the same remaining log and `streamImage G = s` (so every fact C03 / C04 / C09Stream / C01_stream_strict
prove about `s` — STREAMINFO = `assembleInfo`, the frames — holds of the stream the generated code builds). -/
theorem C03G_driver_mem_stream (featPar : Bool) (par : Gen.Encoder → Gen.Source.MemSource → Nat → M (Option Gen.Writer.Stream))
    (md5f : List Nat → List Nat) (s1 : Nat → List (List Int)) (s2 : Nat → List Int) (s3 : Nat → Gen.Coding.FrameBuf)
    (c : Gen.Encoder) (chans : List (List Int)) (ch bps rate bs total : Nat) (log logf : List OEvent) (i0 : StreamInfo)
    (m0 : FlacVerif.FrameBuf) (s : Stream)
    (hmt : c.multithread = false)
    (hnew : FlacVerif.StreamInfo.new rate ch bps = some i0) (hfb : FlacVerif.FrameBuf.withSize ch bs = some m0)
    (hst : ∀ n, C09Gen.StereoBuf (s3 n)) (hb : 1 ≤ bps ∧ bps ≤ 24)
    (hmax : c.subframe_coding.prc.max_parameter ≤ 14) (hmo : c.subframe_coding.fixed.max_order + 1 < 2 ^ 64)
    (hcl : chans.length = ch) (hlen : ∀ x ∈ chans, x.length = total)
    (hxr : ∀ x ∈ chans, ∀ v ∈ x, SubFrame.inRange bps v = true) (htot : total < 2 ^ 40)
    (hs : encodeStream md5f (Total.subCfgOf c.subframe_coding) (Total.stereoCfgOf c.stereo_coding) bs chans bps rate log = some (s, logf))
    (hlog : C09Gen.LogFits log) (hlogok : ∀ e ∈ log, e.Ok) (hnb : (blocksOf bs chans).length < 2 ^ 31)
    (hmd : ∀ l, (md5f l).length = 16) :
    ∀ fuel, (blocksOf bs chans).length < fuel →
      ∃ G, encode_with_fixed_block_size featPar memOps par md5f s1 s2 s3 fuel c
          (Gen.Source.MemSource.from_samples (Rfc.interleave chans) ch bps rate) bs log = some (some G, logf) ∧
        streamImage G = s := by
  intro fuel hf
  cases henc : encodeFrames (Total.subCfgOf c.subframe_coding) (Total.stereoCfgOf c.stereo_coding) bps rate (blocksOf bs chans) 0 log with
  | none => unfold encodeStream at hs; simp [henc] at hs
  | some r =>
    obtain ⟨fs, l1⟩ := r
    have h := C03G_driver_mem_success featPar par md5f s1 s2 s3 c chans ch bps rate bs total log l1 i0 m0 fs hmt hnew hfb hst hb
      hmax hmo hcl hlen hxr htot henc hlog hlogok hnb hmd fuel hf
    rw [hs] at h
    cases hg : encode_with_fixed_block_size featPar memOps par md5f s1 s2 s3 fuel c
        (Gen.Source.MemSource.from_samples (Rfc.interleave chans) ch bps rate) bs log with
    | none => simp [hg] at h
    | some rg =>
      obtain ⟨og, lg⟩ := rg
      simp only [hg, Option.map_some, Option.some.injEq, Prod.mk.injEq] at h
      obtain ⟨h1, rfl⟩ := h
      cases og with
      | none => simp at h1
      | some G => exact ⟨G, rfl, by simpa using h1⟩

/-- **C01_stream_strict / C03 / C04 for the generated code**: under the hypotheses of `C01_stream_strict` (and the bounds of
C09Gen), whenever the model returns a stream the GENERATED `encode_with_fixed_block_size` on the GENERATED
`MemSource::from_samples(interleave chans, ..)` returns `Ok(G)`; `Stream::write` of (the image of) `G` succeeds, the strict RFC 9639
analyser accepts the bytes and returns exactly the input audio, and STREAMINFO states the true rate, channels, width, sample count,
MD5 signature and the block size `bs` as both bounds. -/
theorem C03G_stream_strict (featPar : Bool) (par : Gen.Encoder → Gen.Source.MemSource → Nat → M (Option Gen.Writer.Stream))
    (md5f : List Nat → List Nat) (s1 : Nat → List (List Int)) (s2 : Nat → List Int) (s3 : Nat → Gen.Coding.FrameBuf)
    (c : Gen.Encoder) (chans : List (List Int)) (bps rate bs total : Nat) (log logf : List OEvent) (i0 : StreamInfo)
    (m0 : FlacVerif.FrameBuf) (s : Stream)
    (hmt : c.multithread = false)
    (hnew : FlacVerif.StreamInfo.new rate chans.length bps = some i0) (hfb : FlacVerif.FrameBuf.withSize chans.length bs = some m0)
    (hst : ∀ n, C09Gen.StereoBuf (s3 n)) (hb : 4 ≤ bps ∧ bps ≤ 24) (hrate : 1 ≤ rate ∧ rate < 2 ^ 20)
    (hmax : c.subframe_coding.prc.max_parameter ≤ 14) (hmo : c.subframe_coding.fixed.max_order + 1 < 2 ^ 64)
    (hch : 1 ≤ chans.length ∧ chans.length ≤ 8) (hlen : ∀ x ∈ chans, x.length = total)
    (hxr : ∀ x ∈ chans, ∀ v ∈ x, SubFrame.inRange bps v = true) (htot : total < 2 ^ 36)
    (hbs : 16 ≤ bs ∧ bs < 2 ^ 16) (hnb : (total + bs - 1) / bs < 2 ^ 31)
    (hs : encodeStream md5f (Total.subCfgOf c.subframe_coding) (Total.stereoCfgOf c.stereo_coding) bs chans bps rate log = some (s, logf))
    (hlog : C09Gen.LogFits log) (hlogok : ∀ e ∈ log, e.Ok)
    (hmd : ∀ x, (md5f x).length = 16 ∧ ∀ b ∈ md5f x, b < 256) :
    ∀ fuel, (total + bs - 1) / bs < fuel →
      ∃ G sb rep, encode_with_fixed_block_size featPar memOps par md5f s1 s2 s3 fuel c
          (Gen.Source.MemSource.from_samples (Rfc.interleave chans) chans.length bps rate) bs log = some (some G, logf) ∧
        (streamImage G).bits rfcCrc8 rfcCrc16 = some sb ∧ Rfc.analyzeRec md5f (packBytes sb) = .ok rep ∧
        rep.audio = chans ∧ rep.info.rate = rate ∧ rep.info.channels = chans.length ∧ rep.info.bps = bps ∧
        rep.info.total = total ∧ rep.info.md5 = md5f (md5Input bps (Rfc.interleave chans)) ∧
        rep.info.minBlock = bs ∧ rep.info.maxBlock = bs ∧ rep.metadataBlocks = 0 ∧
        rep.frames.length = (total + bs - 1) / bs := by
  intro fuel hf
  have hbl := Strict.blocksOf_length bs chans total hch.1 hlen
  have h36 : (2 : Nat) ^ 36 = 68719476736 := by decide
  have h40 : (2 : Nat) ^ 40 = 1099511627776 := by decide
  obtain ⟨G, hg, himg⟩ := C03G_driver_mem_stream featPar par md5f s1 s2 s3 c chans chans.length bps rate bs total log logf i0 m0 s hmt
    hnew hfb hst ⟨by omega, hb.2⟩ hmax hmo rfl hlen hxr (by omega) hs hlog hlogok (by rw [hbl]; exact hnb) (fun l => (hmd l).1)
    fuel (by rw [hbl]; exact hf)
  obtain ⟨sb, rep, h1, h2, h3⟩ := C01_stream_strict md5f _ _ bs chans bps rate log logf s total hmd hch hlen htot hbs hb hrate hxr
    (by simpa [Total.subCfgOf] using hmax) (by omega) hlogok hs
  exact ⟨G, sb, rep, hg, by rw [himg]; exact h1, h2, h3⟩

/-- **the Rust-side VALUE the generated driver returns on the generated `MemSource`** (success direction): the STREAMINFO block
flagged last, no further metadata block, the frames `gs` whose model images are the model's frames — the form
`C08G_stream_ops` (`Stream::write`) needs: `C08Gen.streamToGen (streamImage G) G.frames = G`. -/
theorem C03G_driver_mem_value (featPar : Bool) (par : Gen.Encoder → Gen.Source.MemSource → Nat → M (Option Gen.Writer.Stream))
    (md5f : List Nat → List Nat) (s1 : Nat → List (List Int)) (s2 : Nat → List Int) (s3 : Nat → Gen.Coding.FrameBuf)
    (c : Gen.Encoder) (chans : List (List Int)) (ch bps rate bs total : Nat) (log logf : List OEvent) (i0 : StreamInfo)
    (m0 : FlacVerif.FrameBuf) (fs : List Frame)
    (hmt : c.multithread = false)
    (hnew : FlacVerif.StreamInfo.new rate ch bps = some i0) (hfb : FlacVerif.FrameBuf.withSize ch bs = some m0)
    (hst : ∀ n, C09Gen.StereoBuf (s3 n)) (hb : 1 ≤ bps ∧ bps ≤ 24)
    (hmax : c.subframe_coding.prc.max_parameter ≤ 14) (hmo : c.subframe_coding.fixed.max_order + 1 < 2 ^ 64)
    (hcl : chans.length = ch) (hlen : ∀ x ∈ chans, x.length = total)
    (hxr : ∀ x ∈ chans, ∀ v ∈ x, SubFrame.inRange bps v = true) (htot : total < 2 ^ 40)
    (henc : encodeFrames (Total.subCfgOf c.subframe_coding) (Total.stereoCfgOf c.stereo_coding) bps rate (blocksOf bs chans) 0 log =
      some (fs, logf))
    (hlog : C09Gen.LogFits log) (hlogok : ∀ e ∈ log, e.Ok) (hnb : (blocksOf bs chans).length < 2 ^ 31)
    (hmd : ∀ l, (md5f l).length = 16) :
    ∃ (gs : List Gen.Writer.Frame) (info : StreamInfo), gs.map C08Gen.frameOfGen = fs ∧
      (∀ g ∈ gs, (C08Gen.frameOfGen g).count = some (Gen.Writer.Frame.count_bits g)) ∧ (∀ g ∈ gs, C08Gen.FrameOk g) ∧
      info.total = total ∧
      ∀ fuel, (blocksOf bs chans).length < fuel →
        encode_with_fixed_block_size featPar memOps par md5f s1 s2 s3 fuel c
          (Gen.Source.MemSource.from_samples (Rfc.interleave chans) ch bps rate) bs log =
          some (some ⟨⟨true, .StreamInfo info⟩, [], gs⟩, logf) := by
  obtain ⟨fbcf, hd⟩ := C03G_mem_delivers chans ch bps rate bs total m0 hcl hlen hxr hb htot hfb
  have hch : 1 ≤ ch ∧ 1 ≤ bs := by
    unfold FlacVerif.FrameBuf.withSize at hfb
    split at hfb
    · rename_i h; omega
    · simp at hfb
  have hne : 1 ≤ chans.length := by omega
  have hxl : (Rfc.interleave chans).length = total * ch := by rw [interleave_length chans total hne hlen, hcl]
  have hlh : memOps.len_hint ⟨ch, bps, rate, Rfc.interleave chans, total⟩ = some (some total) := by
    have h0 : ch ≠ 0 := by omega
    simp [memOps, Gen.Source.MemSource.len_hint, Gen.Source.MemSource.len, Gen.Source.MemSource.channels_fn, Gen.Source.req,
      Gen.Source.bindO, h0, hxl, Nat.mul_div_cancel _ (by omega : 0 < ch)]
  obtain ⟨gs, h1, _, h3, hok, h4⟩ := C03G_driver_contract memOps featPar par md5f s1 s2 s3 c
    (Gen.Source.MemSource.from_samples (Rfc.interleave chans) ch bps rate) _ bs log logf i0 m0 fbcf (some total)
    (blocksOf bs chans) fs hmt hnew hfb hst hb hmax hmo hd henc hlog hlogok hnb hlh hmd
  exact ⟨gs, _, h1, h3, hok, rfl, h4⟩

/-- a stream of that form is the Rust-side value `C08Gen.streamToGen` assigns to its own model image -/
theorem streamToGen_image (info : StreamInfo) (gs : List Gen.Writer.Frame) :
    C08Gen.streamToGen (streamImage ⟨⟨true, .StreamInfo info⟩, [], gs⟩) gs = ⟨⟨true, .StreamInfo info⟩, [], gs⟩ := by
  simp [C08Gen.streamToGen, streamImage, Gen.Verify.Stream.stream_info]

/-- **`Stream::write` of the stream the generated driver returns, utf8 parameter closed**: for the stream `G` the generated
`encode_with_fixed_block_size` returns on the generated `MemSource` (success direction, hypotheses of `C03G_driver_mem_value`),
the generated `Stream::write` (Gen/Writer.lean) — with its `encode_to_utf8like` parameter (and the `_exact` companion)
instantiated by the GENERATED function of Gen/Utf8.lean (`C08Gen3.utf8Param dbg`, `C08Gen3.utf8Exact dbg`; `C08G3_param`), in
either profile `dbg` — issues exactly the sink operations of the hand model's `(streamImage G).ops` (`C08G_stream_ops`); by C08
(`ops` = `bits`) their ideal bit string is `(streamImage G).bits`, the bytes `Rfc.analyzeRec` accepts in `C03G_stream_strict`.
Writer-side parameters that REMAIN (as in C08Gen):
  * the scratch-sink read-outs `scratchBytes` (= `ByteSink::as_slice`), `idealLen` (= `MemSink::len`), `wordExport`
    (= `MemSink<u64>::write_to_byte_slice`) and the stale content `stale` of the `reuse!` buffer: functions of the operations a cleared
    scratch sink received; the generated `MemSink` methods are tied to the sink model by C11G_* / C12G_* (C11Gen.lean, C12Gen.lean),
    the read-outs themselves are not instantiated here;
  * the CRC functions `crc p8` / `crc p16`: the `crc` crate is external; its catalog parameters for `CRC_8_FLAC` / `CRC_16_FLAC` are
    generated (Gen/Tables.lean, C02Gen.lean). -/
theorem C03G_stream_ops_closed (dbg featPar : Bool) (par : Gen.Encoder → Gen.Source.MemSource → Nat → M (Option Gen.Writer.Stream))
    (md5f : List Nat → List Nat) (s1 : Nat → List (List Int)) (s2 : Nat → List Int) (s3 : Nat → Gen.Coding.FrameBuf)
    (c : Gen.Encoder) (chans : List (List Int)) (ch bps rate bs total : Nat) (log logf : List OEvent) (i0 : StreamInfo)
    (m0 : FlacVerif.FrameBuf) (fs : List Frame) (p8 p16 : CrcParams) (stale : List Nat)
    (hmt : c.multithread = false)
    (hnew : FlacVerif.StreamInfo.new rate ch bps = some i0) (hfb : FlacVerif.FrameBuf.withSize ch bs = some m0)
    (hst : ∀ n, C09Gen.StereoBuf (s3 n)) (hb : 1 ≤ bps ∧ bps ≤ 24)
    (hmax : c.subframe_coding.prc.max_parameter ≤ 14) (hmo : c.subframe_coding.fixed.max_order + 1 < 2 ^ 64)
    (hcl : chans.length = ch) (hlen : ∀ x ∈ chans, x.length = total)
    (hxr : ∀ x ∈ chans, ∀ v ∈ x, SubFrame.inRange bps v = true) (htot : total < 2 ^ 40)
    (henc : encodeFrames (Total.subCfgOf c.subframe_coding) (Total.stereoCfgOf c.stereo_coding) bps rate (blocksOf bs chans) 0 log =
      some (fs, logf))
    (hlog : C09Gen.LogFits log) (hlogok : ∀ e ∈ log, e.Ok) (hnb : (blocksOf bs chans).length < 2 ^ 31)
    (hmd : ∀ l, (md5f l).length = 16) :
    ∀ fuel, (blocksOf bs chans).length < fuel →
      ∃ G, encode_with_fixed_block_size featPar memOps par md5f s1 s2 s3 fuel c
          (Gen.Source.MemSource.from_samples (Rfc.interleave chans) ch bps rate) bs log = some (some G, logf) ∧
        (streamImage G).frames = fs ∧
        Gen.Writer.Stream.write stale (C08Gen3.utf8Param dbg) (C08Gen3.utf8Exact dbg) C08Gen.scratchBytes (crc p8) C08Gen.idealLen
          C08Gen.wordExport (crc p16) G = (streamImage G).ops p8 p16 := by
  obtain ⟨gs, info, hmap, _, hok, hinfo, hrun⟩ := C03G_driver_mem_value featPar par md5f s1 s2 s3 c chans ch bps rate bs total log logf
    i0 m0 fs hmt hnew hfb hst hb hmax hmo hcl hlen hxr htot henc hlog hlogok hnb hmd
  intro fuel hf
  refine ⟨_, hrun fuel hf, hmap, ?_⟩
  have h40 : (2 : Nat) ^ 40 = 1099511627776 := by decide
  have h := C08Gen.C08G_stream_ops p8 p16 (streamImage ⟨⟨true, .StreamInfo info⟩, [], gs⟩) gs stale (fun _ => true) rfl hok
    (by show info.total < 2 ^ 64; omega) (by intro m hm; simp [streamImage] at hm)
  rw [streamToGen_image] at h
  rw [(C08Gen3.C08G3_param dbg).1, (C08Gen3.C08G3_param dbg).2]
  exact h

/-- **end to end, writer included (utf8 closed)**: under the hypotheses of `C03G_stream_strict`, the generated driver on the generated
`MemSource` returns `Ok(G)`; the generated `Stream::write` of `G` (utf8 parameter = the GENERATED `encode_to_utf8like`; scratch-sink
read-outs and CRC functions as in `C03G_stream_ops_closed`, with the RFC CRC parameters) succeeds with an operation list whose
ideal bit string `sb` (C12_stream_ops) is accepted by the strict RFC 9639 analyser, which returns the input audio and the true
STREAMINFO. -/
theorem C03G_stream_write_strict (dbg featPar : Bool)
    (par : Gen.Encoder → Gen.Source.MemSource → Nat → M (Option Gen.Writer.Stream))
    (md5f : List Nat → List Nat) (s1 : Nat → List (List Int)) (s2 : Nat → List Int) (s3 : Nat → Gen.Coding.FrameBuf)
    (c : Gen.Encoder) (chans : List (List Int)) (bps rate bs total : Nat) (log logf : List OEvent) (i0 : StreamInfo)
    (m0 : FlacVerif.FrameBuf) (s : Stream) (stale : List Nat)
    (hmt : c.multithread = false)
    (hnew : FlacVerif.StreamInfo.new rate chans.length bps = some i0) (hfb : FlacVerif.FrameBuf.withSize chans.length bs = some m0)
    (hst : ∀ n, C09Gen.StereoBuf (s3 n)) (hb : 4 ≤ bps ∧ bps ≤ 24) (hrate : 1 ≤ rate ∧ rate < 2 ^ 20)
    (hmax : c.subframe_coding.prc.max_parameter ≤ 14) (hmo : c.subframe_coding.fixed.max_order + 1 < 2 ^ 64)
    (hch : 1 ≤ chans.length ∧ chans.length ≤ 8) (hlen : ∀ x ∈ chans, x.length = total)
    (hxr : ∀ x ∈ chans, ∀ v ∈ x, SubFrame.inRange bps v = true) (htot : total < 2 ^ 36)
    (hbs : 16 ≤ bs ∧ bs < 2 ^ 16) (hnb : (total + bs - 1) / bs < 2 ^ 31)
    (hs : encodeStream md5f (Total.subCfgOf c.subframe_coding) (Total.stereoCfgOf c.stereo_coding) bs chans bps rate log = some (s, logf))
    (hlog : C09Gen.LogFits log) (hlogok : ∀ e ∈ log, e.Ok)
    (hmd : ∀ x, (md5f x).length = 16 ∧ ∀ b ∈ md5f x, b < 256) :
    ∀ fuel, (total + bs - 1) / bs < fuel →
      ∃ G ops sb rep, encode_with_fixed_block_size featPar memOps par md5f s1 s2 s3 fuel c
          (Gen.Source.MemSource.from_samples (Rfc.interleave chans) chans.length bps rate) bs log = some (some G, logf) ∧
        Gen.Writer.Stream.write stale (C08Gen3.utf8Param dbg) (C08Gen3.utf8Exact dbg) C08Gen.scratchBytes (crc rfcCrc8)
          C08Gen.idealLen C08Gen.wordExport (crc rfcCrc16) G = some ops ∧
        idealRun 0 ops = sb ∧ Rfc.analyzeRec md5f (packBytes sb) = .ok rep ∧
        rep.audio = chans ∧ rep.info.rate = rate ∧ rep.info.channels = chans.length ∧ rep.info.bps = bps ∧
        rep.info.total = total ∧ rep.info.md5 = md5f (md5Input bps (Rfc.interleave chans)) ∧
        rep.info.minBlock = bs ∧ rep.info.maxBlock = bs ∧ rep.metadataBlocks = 0 ∧
        rep.frames.length = (total + bs - 1) / bs := by
  intro fuel hf
  have hbl := Strict.blocksOf_length bs chans total hch.1 hlen
  have h36 : (2 : Nat) ^ 36 = 68719476736 := by decide
  have h40 : (2 : Nat) ^ 40 = 1099511627776 := by decide
  obtain ⟨G, sb, rep, hg, hbits, hrest⟩ := C03G_stream_strict featPar par md5f s1 s2 s3 c chans bps rate bs total log logf i0 m0 s hmt
    hnew hfb hst hb hrate hmax hmo hch hlen hxr htot hbs hnb hs hlog hlogok hmd fuel hf
  cases henc : encodeFrames (Total.subCfgOf c.subframe_coding) (Total.stereoCfgOf c.stereo_coding) bps rate (blocksOf bs chans) 0 log with
  | none => unfold encodeStream at hs; simp [henc] at hs
  | some r =>
    obtain ⟨fs, l1⟩ := r
    have hl1 : l1 = logf := by
      unfold encodeStream at hs
      simp only [henc, Option.bind_eq_bind, Option.bind_some] at hs
      cases hc : fs.mapM Frame.count with
      | none => simp [hc] at hs
      | some cs => simp [hc] at hs; exact hs.2
    subst hl1
    obtain ⟨G', hg', _, hw⟩ := C03G_stream_ops_closed dbg featPar par md5f s1 s2 s3 c chans chans.length bps rate bs total log l1 i0 m0 fs
      rfcCrc8 rfcCrc16 stale hmt hnew hfb hst ⟨by omega, hb.2⟩ hmax hmo rfl hlen hxr (by omega) henc hlog hlogok
      (by rw [hbl]; exact hnb) (fun l => (hmd l).1) fuel (by rw [hbl]; exact hf)
    rw [hg] at hg'
    simp only [Option.some.injEq, Prod.mk.injEq, and_true] at hg'
    subst hg'
    obtain ⟨ops, hops⟩ := OpsL.stream_ops_of_bits rfcCrc8 rfcCrc16 (streamImage G) sb hbits
    obtain ⟨b', hb', hideal⟩ := C12_stream_ops rfcCrc8 rfcCrc16 (streamImage G) ops hops
    rw [hbits] at hb'
    simp only [Option.some.injEq] at hb'
    subst hb'
    exact ⟨G, ops, _, rep, hg, by rw [hw, hops], hideal, hrest⟩

end C03GenMem
end FlacVerif
