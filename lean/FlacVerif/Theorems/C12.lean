/-
C12 — a failing user sink: `write` returns the sink's error after the sink has accepted a prefix of
the correct bitstream; and C08 (second half) — the reported bit count equals the number of bits
actually written through either in-memory sink.

`X.ops` (`Model/Ops.lean`) is the sequence of `BitSink` calls `X::write` issues; `X.bits`
(`Model/Component.lean`) is the bit string it has to produce; `idealRun len ops` is what an ideal
MSB-first bit string of current length `len` receives from `ops`. Property theorems only; helper
lemmas live in `FlacVerif/Lemmas/Ops.lean`.
-/
import FlacVerif.Lemmas.Ops
namespace FlacVerif
open FlacVerif.C11 FlacVerif.OpsL

/-! ### the operations issued by `write` produce the component's bit string -/

/-- `Residual::write`, from any bit position. -/
theorem C12_residual_ops (r : Residual) (h : r.WF) (len : Nat) : idealRun len r.ops = r.bits :=
  residual_ops r (fun p hp => Nat.le_trans (h.2.2.2.2.2.2.2.1 p hp) (by decide)) len

/-- `SubFrame::write`, from any bit position. -/
theorem C12_subframe_ops (s : SubFrame) (h : s.WF) (len : Nat) : idealRun len s.ops = s.bits :=
  subframe_ops s h len

/-- `FrameHeader::write` from a byte-aligned position. The header body is a whole number of bytes
(`bodyBits_dvd`), and no condition on the CRC register is needed: the `u8` operand of the final
`write` is the low 8 bits of the register, exactly as in `FrameHeader.bits`. -/
theorem C12_header_ops (p8 : CrcParams) (h : FrameHeader) (len : Nat) (hl : len % 8 = 0) (ops : List Op)
    (ho : h.ops p8 = some ops) : ∃ b, h.bits p8 = some b ∧ idealRun len ops = b := by
  obtain ⟨b, hb, ha⟩ := header_aligned p8 h ops ho
  exact ⟨b, hb, ha.2 len hl⟩

/-- `Frame::write` (no precomputed bitstream) from a byte-aligned position. -/
theorem C12_frame_ops (p8 p16 : CrcParams) (f : Frame) (len : Nat) (hl : len % 8 = 0) (ops : List Op)
    (ho : Frame.ops p8 p16 f = some ops) : ∃ b, f.bits p8 p16 = some b ∧ idealRun len ops = b := by
  obtain ⟨b, hb, ha⟩ := frame_aligned p8 p16 f ops ho
  exact ⟨b, hb, ha.2 len hl⟩

/-- `Frame::write` with a precomputed bitstream. -/
theorem C12_frame_ops_precomputed (p8 p16 : CrcParams) (f : Frame) (len : Nat) (hl : len % 8 = 0)
    (ops : List Op) (ho : Frame.opsPrecomputed p8 p16 f = some ops) :
    ∃ b, f.bits p8 p16 = some b ∧ idealRun len ops = b := by
  obtain ⟨b, hb, ha⟩ := frame_precomputed_aligned p8 p16 f ops ho
  exact ⟨b, hb, ha.2 len hl⟩

/-- `StreamInfo::write` from a byte-aligned position. No fitting hypothesis on the fields is needed:
every narrowing cast in front of a sink call keeps at least the bits the field is written with. -/
theorem C12_streaminfo_ops (s : StreamInfo) (len : Nat) (hl : len % 8 = 0) : idealRun len s.ops = s.bits :=
  (streaminfo_aligned s).2 len hl

/-- `Stream::write` into a fresh sink. -/
theorem C12_stream_ops (p8 p16 : CrcParams) (s : Stream) (ops : List Op) (ho : Stream.ops p8 p16 s = some ops) :
    ∃ b, s.bits p8 p16 = some b ∧ idealRun 0 ops = b := by
  obtain ⟨b, hb, ha⟩ := stream_aligned p8 p16 s ops ho
  exact ⟨b, hb, ha.2 0 rfl⟩

/-- Every narrowing cast of `StreamInfo::write` keeps its field intact exactly under the format's
field widths: then the sink receives the fields themselves, each within its written width. -/
theorem C12_streaminfo_lossless (s : StreamInfo)
    (hfit : s.minBlock < 2 ^ 16 ∧ s.maxBlock < 2 ^ 16 ∧ s.maxFrame < 2 ^ 24 ∧ s.rate < 2 ^ 20 ∧
      1 ≤ s.channels ∧ s.channels ≤ 8 ∧ 1 ≤ s.bps ∧ s.bps ≤ 32 ∧ s.total < 2 ^ 36) :
    ∃ mn mx, (mn, mx) = (if s.minFrame > s.maxFrame then (0, 0) else (s.minFrame, s.maxFrame)) ∧
      mn < 2 ^ 24 ∧ mx < 2 ^ 24 ∧ s.channels - 1 < 2 ^ 3 ∧ s.bps - 1 < 2 ^ 5 ∧
      s.ops = [ .write 16 s.minBlock, .write 16 s.maxBlock, .writeLsbs 32 mn 24, .writeLsbs 32 mx 24,
        .writeLsbs 32 s.rate 20, .writeLsbs 8 (s.channels - 1) 3, .writeLsbs 8 (s.bps - 1) 5,
        .writeLsbs 64 s.total 36, .writeBytesAligned s.md5 ] :=
  streaminfo_lossless s hfit

/-- The slice indexings of `Residual::write` (`rice_params()[p]`, `quotients()[t]`,
`remainders()[t]`, `t < (p+1) * part_len`) are in bounds for a well-formed residual: the `getD`
defaults of `Residual.ops` are never used, i.e. no index panic is hidden by the model. -/
theorem C12_residual_in_bounds (r : Residual) (h : r.WF) (k : Nat) (hk : k < r.nparts) :
    k < r.params.length ∧ (k + 1) * r.partLen ≤ r.quotients.length ∧ (k + 1) * r.partLen ≤ r.remainders.length :=
  residual_in_bounds r h k hk

/-! ### every issued operation is within the sinks' contract (`Op.Valid`), so C11 applies -/

theorem C12_ops_valid_residual (r : Residual) (h : r.WF) : ∀ op ∈ r.ops, op.Valid := residual_valid r h

theorem C12_ops_valid_subframe (s : SubFrame) (h : s.WF) : ∀ op ∈ s.ops, op.Valid := subframe_valid s h

/-- The CRC-8 register has to fit its `u8` operand. -/
theorem C12_ops_valid_header (p8 : CrcParams) (h8 : p8.width = 8 ∧ p8.poly < 2 ^ 8 ∧ p8.init < 2 ^ 8)
    (h : FrameHeader) (ops : List Op) (ho : h.ops p8 = some ops) : ∀ op ∈ ops, op.Valid :=
  header_valid p8 h8 h ops ho

/-- The CRC-16 register has to fit its `u16` operand. -/
theorem C12_ops_valid_frame (p8 p16 : CrcParams) (h16 : p16.width = 16 ∧ p16.poly < 2 ^ 16 ∧ p16.init < 2 ^ 16)
    (f : Frame) (ops : List Op) (ho : Frame.ops p8 p16 f = some ops) : ∀ op ∈ ops, op.Valid :=
  frame_valid p8 p16 h16 f ops ho

theorem C12_ops_valid_frame_precomputed (p8 p16 : CrcParams) (f : Frame) (ops : List Op)
    (ho : Frame.opsPrecomputed p8 p16 f = some ops) : ∀ op ∈ ops, op.Valid :=
  frame_precomputed_valid p8 p16 f ops ho

/-- The MD5 and the metadata payloads have to be bytes. -/
theorem C12_ops_valid_stream (p8 p16 : CrcParams) (h16 : p16.width = 16 ∧ p16.poly < 2 ^ 16 ∧ p16.init < 2 ^ 16)
    (s : Stream) (hmd5 : ∀ b ∈ s.info.md5, b < 256) (hmeta : ∀ m ∈ s.metadata, ∀ b ∈ m.data, b < 256)
    (ops : List Op) (ho : Stream.ops p8 p16 s = some ops) : ∀ op ∈ ops, op.Valid :=
  stream_valid p8 p16 h16 s hmd5 hmeta ops ho

/-- The FLAC CRC parameters meet the side conditions above. -/
theorem C12_rfc_crc_fit :
    (rfcCrc8.width = 8 ∧ rfcCrc8.poly < 2 ^ 8 ∧ rfcCrc8.init < 2 ^ 8) ∧
    (rfcCrc16.width = 16 ∧ rfcCrc16.poly < 2 ^ 16 ∧ rfcCrc16.init < 2 ^ 16) := by decide

/-! ### the failing sink -/

/-- A sink implementing only the required trait methods that fails on its `k`-th call (0-based),
for every `k`: `write` returns the sink error, the sink has accepted exactly `k` calls, and what it
received is a prefix of the correct bit string. If `k` is beyond the last call, `write` succeeds. -/
theorem C12_failing_sink (ops : List Op) (hv : ∀ op ∈ ops, op.Valid) (bits : Bits) (hb : idealRun 0 ops = bits)
    (k : Nat) :
    (k < (ops.flatMap Op.expand).length →
      ∃ acc, writeFailing ops k = .sinkError acc ∧ acc.length = k ∧ idealRun 0 acc <+: bits) ∧
    ((ops.flatMap Op.expand).length ≤ k → writeFailing ops k = .done) :=
  failing_sink ops hv bits hb k

/-- Instance for a subframe written into a fresh failing sink. -/
theorem C12_subframe (s : SubFrame) (h : s.WF) (k : Nat) :
    (k < (s.ops.flatMap Op.expand).length →
      ∃ acc, writeFailing s.ops k = .sinkError acc ∧ acc.length = k ∧ idealRun 0 acc <+: s.bits) ∧
    ((s.ops.flatMap Op.expand).length ≤ k → writeFailing s.ops k = .done) :=
  C12_failing_sink s.ops (C12_ops_valid_subframe s h) s.bits (C12_subframe_ops s h 0) k

/-- Instance for a frame. -/
theorem C12_frame (p8 p16 : CrcParams) (h16 : p16.width = 16 ∧ p16.poly < 2 ^ 16 ∧ p16.init < 2 ^ 16)
    (f : Frame) (ops : List Op) (ho : Frame.ops p8 p16 f = some ops) (b : Bits) (hb : f.bits p8 p16 = some b)
    (k : Nat) :
    (k < (ops.flatMap Op.expand).length →
      ∃ acc, writeFailing ops k = .sinkError acc ∧ acc.length = k ∧ idealRun 0 acc <+: b) ∧
    ((ops.flatMap Op.expand).length ≤ k → writeFailing ops k = .done) := by
  obtain ⟨b', hb', hr⟩ := C12_frame_ops p8 p16 f 0 rfl ops ho
  rw [hb] at hb'
  cases hb'
  exact C12_failing_sink ops (C12_ops_valid_frame p8 p16 h16 f ops ho) b hr k

/-- Instance for a whole stream: whenever the user's sink fails, `Stream::write` returns that error
and the sink holds a prefix of the correct FLAC stream. -/
theorem C12_stream (p8 p16 : CrcParams) (h16 : p16.width = 16 ∧ p16.poly < 2 ^ 16 ∧ p16.init < 2 ^ 16)
    (s : Stream) (hmd5 : ∀ b ∈ s.info.md5, b < 256) (hmeta : ∀ m ∈ s.metadata, ∀ b ∈ m.data, b < 256)
    (ops : List Op) (ho : Stream.ops p8 p16 s = some ops) (b : Bits) (hb : s.bits p8 p16 = some b) (k : Nat) :
    (k < (ops.flatMap Op.expand).length →
      ∃ acc, writeFailing ops k = .sinkError acc ∧ acc.length = k ∧ idealRun 0 acc <+: b) ∧
    ((ops.flatMap Op.expand).length ≤ k → writeFailing ops k = .done) := by
  obtain ⟨b', hb', hr⟩ := C12_stream_ops p8 p16 s ops ho
  rw [hb] at hb'
  cases hb'
  exact C12_failing_sink ops (C12_ops_valid_stream p8 p16 h16 s hmd5 hmeta ops ho) b hr k

/-! ### C08, second half: the reported count is what either in-memory sink holds -/

theorem C08_through_sinks_residual (r : Residual) (h : r.WF) :
    (∃ w, WordSink.empty.run r.ops = some w ∧ w.abs = r.bits ∧ some w.len = r.count) ∧
    (∃ y, ByteSink.empty.run r.ops = some y ∧ y.abs = r.bits ∧ some y.len = r.count) := by
  have hv := C12_ops_valid_residual r h
  have hb := C12_residual_ops r h 0
  have hc := C08_residual r h
  obtain ⟨w, hw, _, hwa, hwl⟩ := C11_word_run r.ops hv
  obtain ⟨y, hy, _, hya, hyl⟩ := C11_byte_run r.ops hv
  exact ⟨⟨w, hw, by rw [hwa, hb], by rw [hwl, hb, hc]⟩, ⟨y, hy, by rw [hya, hb], by rw [hyl, hb, hc]⟩⟩

theorem C08_through_sinks_subframe (s : SubFrame) (h : s.WF) :
    (∃ w, WordSink.empty.run s.ops = some w ∧ w.abs = s.bits ∧ some w.len = s.count) ∧
    (∃ y, ByteSink.empty.run s.ops = some y ∧ y.abs = s.bits ∧ some y.len = s.count) := by
  have hv := C12_ops_valid_subframe s h
  have hb := C12_subframe_ops s h 0
  have hc := C08_subframe s h
  obtain ⟨w, hw, _, hwa, hwl⟩ := C11_word_run s.ops hv
  obtain ⟨y, hy, _, hya, hyl⟩ := C11_byte_run s.ops hv
  exact ⟨⟨w, hw, by rw [hwa, hb], by rw [hwl, hb, hc]⟩, ⟨y, hy, by rw [hya, hb], by rw [hyl, hb, hc]⟩⟩

/-- Frames: under the premises of `C08_frame`, `write` issues operations (no `RangeError`), neither
sink panics, both hold `Frame.bits`, and their length is the reported count. -/
theorem C08_through_sinks_frame (p8 p16 : CrcParams)
    (h16 : p16.width = 16 ∧ p16.poly < 2 ^ 16 ∧ p16.init < 2 ^ 16) (f : Frame)
    (hn : f.header.number < 2 ^ 36) (ht : f.header.assignment.tag ≤ 15) (hs : ∀ s ∈ f.subframes, s.WF) :
    ∃ ops b, Frame.ops p8 p16 f = some ops ∧ f.bits p8 p16 = some b ∧
      (∃ w, WordSink.empty.run ops = some w ∧ w.abs = b ∧ some w.len = f.count) ∧
      (∃ y, ByteSink.empty.run ops = some y ∧ y.abs = b ∧ some y.len = f.count) := by
  obtain ⟨b, hb, hc, _⟩ := C08_frame p8 p16 f hn ht hs
  obtain ⟨ops, ho⟩ := frame_ops_of_bits p8 p16 f b hb
  obtain ⟨b', hb', hr⟩ := C12_frame_ops p8 p16 f 0 rfl ops ho
  rw [hb] at hb'
  cases hb'
  have hv := C12_ops_valid_frame p8 p16 h16 f ops ho
  obtain ⟨w, hw, _, hwa, hwl⟩ := C11_word_run ops hv
  obtain ⟨y, hy, _, hya, hyl⟩ := C11_byte_run ops hv
  exact ⟨ops, b, ho, hb, ⟨w, hw, by rw [hwa, hr], by rw [hwl, hr, hc]⟩, ⟨y, hy, by rw [hya, hr], by rw [hyl, hr, hc]⟩⟩

/-- Streams: under the premises of `C08_stream` (plus byte-valued MD5 / metadata payloads). -/
theorem C08_through_sinks_stream (p8 p16 : CrcParams)
    (h16 : p16.width = 16 ∧ p16.poly < 2 ^ 16 ∧ p16.init < 2 ^ 16) (s : Stream)
    (hm : s.info.md5.length = 16) (hmd5 : ∀ b ∈ s.info.md5, b < 256)
    (hmeta : ∀ m ∈ s.metadata, ∀ b ∈ m.data, b < 256)
    (hf : ∀ f ∈ s.frames, f.header.number < 2 ^ 36 ∧ f.header.assignment.tag ≤ 15 ∧ ∀ sf ∈ f.subframes, sf.WF) :
    ∃ ops b, Stream.ops p8 p16 s = some ops ∧ s.bits p8 p16 = some b ∧
      (∃ w, WordSink.empty.run ops = some w ∧ w.abs = b ∧ some w.len = s.count) ∧
      (∃ y, ByteSink.empty.run ops = some y ∧ y.abs = b ∧ some y.len = s.count) := by
  obtain ⟨b, hb, hc⟩ := C08_stream p8 p16 s hm hf
  obtain ⟨ops, ho⟩ := stream_ops_of_bits p8 p16 s b hb
  obtain ⟨b', hb', hr⟩ := C12_stream_ops p8 p16 s ops ho
  rw [hb] at hb'
  cases hb'
  have hv := C12_ops_valid_stream p8 p16 h16 s hmd5 hmeta ops ho
  obtain ⟨w, hw, _, hwa, hwl⟩ := C11_word_run ops hv
  obtain ⟨y, hy, _, hya, hyl⟩ := C11_byte_run ops hv
  exact ⟨ops, b, ho, hb, ⟨w, hw, by rw [hwa, hr], by rw [hwl, hr, hc]⟩, ⟨y, hy, by rw [hya, hr], by rw [hyl, hr, hc]⟩⟩

/-! ### non-vacuity: the premises are satisfiable, and the conclusions hold by evaluation -/

/-- The order-1 residual of the C08 examples: well formed, 15 sink calls, all valid; from bit
offset 5 they write exactly `Residual.bits`. -/
example :
    let r : Residual := ⟨1, 8, 2, [2, 3], [0, 0, 1, 2, 0, 3, 1, 0], [0, 0, 3, 1, 2, 7, 0, 5]⟩
    r.WF ∧ r.ops.length = 15 ∧ idealRun 5 r.ops = r.bits ∧ (∀ op ∈ r.ops, op.Valid) := by decide

/-- A second-order LPC subframe over it, from bit offset 3. -/
example :
    let s : SubFrame := .lpc [5, -3] [7, -2] 3 4
      ⟨1, 8, 2, [2, 3], [0, 0, 1, 2, 0, 3, 1, 0], [0, 0, 3, 1, 2, 7, 0, 5]⟩ 16
    s.WF ∧ idealRun 3 s.ops = s.bits ∧ (∀ op ∈ s.ops, op.Valid) := by decide

/-- A sink failing on its second call while a constant subframe is written: the first call (the
header byte) was accepted and is a prefix; a sink failing on a third call is never asked. -/
example :
    let s : SubFrame := .constant 8 (-5) 17
    s.WF ∧ (s.ops.flatMap Op.expand).length = 2 ∧
    writeFailing s.ops 1 = .sinkError [.write 8 0] ∧ writeFailing s.ops 2 = .done ∧
    idealRun 0 [.write 8 0] <+: s.bits := by decide

/-- A stereo frame and a stream (STREAMINFO, one further metadata block, that frame) meeting every
premise of `C12_frame`, `C12_stream`, `C08_through_sinks_frame` and `C08_through_sinks_stream`. -/
example :
    let f : Frame :=
      { header := ⟨false, .extraByte 7, .leftSide, 4, .fixed 9, 300, 0⟩,
        subframes := [.lpc [5, -3] [7, -2] 3 4
            ⟨1, 8, 2, [2, 3], [0, 0, 1, 2, 0, 3, 1, 0], [0, 0, 3, 1, 2, 7, 0, 5]⟩ 16,
          .constant 8 (-5) 17] }
    let s : Stream := ⟨(StreamInfo.empty 44100 2 16).addFrame 8 26, [⟨4, [1, 2, 3]⟩], [f]⟩
    (Frame.ops rfcCrc8 rfcCrc16 f).isSome = true ∧ (f.bits rfcCrc8 rfcCrc16).isSome = true ∧
    (Frame.opsPrecomputed rfcCrc8 rfcCrc16 f).isSome = true ∧
    (Stream.ops rfcCrc8 rfcCrc16 s).isSome = true ∧ (s.bits rfcCrc8 rfcCrc16).isSome = true ∧
    s.info.md5.length = 16 ∧ (∀ b ∈ s.info.md5, b < 256) ∧ (∀ m ∈ s.metadata, ∀ b ∈ m.data, b < 256) ∧
    (∀ f ∈ s.frames, f.header.number < 2 ^ 36 ∧ f.header.assignment.tag ≤ 15 ∧ ∀ sf ∈ f.subframes, sf.WF) := by
  decide

/-! ### necessity / model remarks, by evaluation -/

/-- `SubFrame.WF`'s `warm.length = coefs.length` is needed by `C12_subframe_ops`: `Lpc::write` emits
`order` warm-up samples (`warm_up()[i]`, `i < order`) while `SubFrame.bits` lists all of `warm`. -/
example :
    let s : SubFrame := .lpc [1, 2, 3] [1] 0 2 ⟨0, 4, 1, [0], [0, 0, 0, 0], [0, 0, 0, 0]⟩ 8
    (idealRun 0 s.ops).length = 40 ∧ s.bits.length = 56 ∧ idealRun 0 s.ops ≠ s.bits := by decide

/-- The metadata block header wraps its type byte: tag 200 on a last block is sent as 72 (`u8`
addition `typetag + 0x80`; a dev-profile build panics there instead). Outside `tag ≤ 126`. -/
example : blockHeaderOps true 200 0 = [.write 8 72, .writeLsbs 32 0 24] := by decide

end FlacVerif
