/-
C03Gen — the single-thread stream driver and the STREAMINFO book-keeping as GENERATED from src/coding.rs and
src/component/datatype.rs (Gen/Driver.lean, translator part `driver`, tools/translate_driver.py) against the hand-written
model (Model/Encoder.lean `addFrameCast` / `assembleInfo`, Model/Api.lean `encodeStreamArgsOk`, Model/Verify.lean), on which
C03 / C04 / C01Strict / C09Stream / C07Total rest.

Book-keeping methods (every argument value; a panic site of the Rust code the hand model does not have is an explicit
hypothesis, with a `_panics` companion showing the hypothesis is exact):
  C03G_with_stream_info / C03G_stream_new      Stream::with_stream_info, MetadataBlock::from_stream_info; `Stream::new` of part
                                               `verify` builds exactly `with_stream_info (StreamInfo::new ..)` = model `StreamInfo.new`
  C03G_lens_eq / _get_set / _set_get / _set_set   Stream::stream_info_mut read as a place: lens laws, and its read half is
                                               `Stream::stream_info` of part `verify`
  C03G_accessors / C03G_frames / C03G_frame_block_size   min/max frame/block size accessors, Stream::frames, Frame::block_size
  C03G_update_frame_info (+ _panics_*)          StreamInfo::update_frame_info = model `StreamInfo.addFrameCast` (casts `as u16`, `as u32`)
  C03G_update_frame_info_model                  ... with the frame's bit count being the hand model's `Frame.count` (C08G_frame_count)
  C03G_set_md5_digest (+ _panics)               StreamInfo::set_md5_digest
  C03G_add_frame (+ _panics)                    Stream::add_frame = `addFrameCast` on the STREAMINFO block, frame appended
  C03G_add_frames                               a sequence of `add_frame` = `foldl addFrameCast`, frames appended in order
  C03G_assemble                                 set_block_sizes; add_frame*; set_block_sizes; set_md5_digest; set_total_samples
                                               = model `assembleInfo` (the shape both encode paths leave STREAMINFO in)
Driver (`encode_with_fixed_block_size`, for EVERY `Source` implementation `ops`, configuration, storage contents, oracle log):
  C03G_driver_unfold          the generated driver is prologue / `loopM` over `loopBody` / epilogue (definitional: any change of the
                              generated text breaks this theorem first)
  C03G_driver_multithread     `config.multithread`: the call is forwarded to `par::encode_with_fixed_block_size`
  C03G_driver_args            the argument checks: `Err` before anything is read iff the model's `encodeStreamArgsOk` is false
                              (`Stream::new`, `FrameBuf::with_size`); no panic
  C03G_loop                   the `loop`: along a run of the source (`Run`: `read_samples` ≠ 0, frame number, `encode_fixed_size_frame`,
                              `add_frame`; ended by `read_samples` = 0) `loopM` returns the final state and log, for every sufficient `fuel`
  C03G_loop_read_err / C03G_loop_encode_err     an `Err` of `read_samples` / of `encode_fixed_size_frame` is returned as `Err`
  C03G_driver_run             the whole driver along a run: `Ok(stream)` with STREAMINFO = `finishInfo` (block sizes restored after the
                              last frame — fix 643cf2e —, MD5 of the context, `len_hint` or else the context's sample count)
  C03G_driver_empty           the empty-input path (fix 414d6c7): no frame, STREAMINFO = `assembleInfo .. [] ..`
  C03G_driver_mem_empty       ... instantiated at the generated `MemSource` (`memOps`) holding no samples
Contract-abiding source against the model's frame loop (`Delivers`: the source contract as an explicit relation; `GoodFb`):
  C03G_frames_contract        the generated `loop` on a source that delivers `blocks` = the model's `encodeFrames` over `blocks`: a run
                              exists whose frames have exactly the model images, same remaining log, block sizes = block lengths
  C03G_delivers_ctx           what such a source leaves in the context: bytes of the interleaved blocks, sample count, frame count
  C03G_driver_contract        the whole driver: `Ok(stream)`, frames = model frames (images), STREAMINFO = `finishInfo (foldInfo ..)`,
                              digest of all interleaved blocks, `len_hint` or else the samples delivered
  C03G_driver_contract_model_success   ... = the model's `encodeStream` (same stream image `streamImage`, same remaining log) when
                              the source delivers `blocksOf bs chans` and its length hint is truthful; SUCCESS direction only
Value of the frames of the generated encoder (was the named hypothesis `EncoderFramesOk`; now proved, Lemmas/GenCount.lean):
  encode_frame_shape          value-level `encode_frame`: no precomputed bitstream, block-size code of `filled_size`, numbers 0
  C03G_encoder_frame_ok       a frame returned by `encode_fixed_size_frame` (hypotheses of C09G_encode_fixed_size_frame + a valid log
                              `OEvent.Ok`): no precomputed bitstream, 32-bit frame number, block size = `filled_size`, `count_bits`
                              cannot panic (`FrameFits`), and `count_bits` = the hand model's `Frame.count` of its image
C20 (cargo features; `featPar` is the only feature flag of the generated driver):
  C20G_driver_featPar                     `config.multithread = false`: same function for featPar = true / false (and any `par` entry)
  C20G_driver_nopar_ignores_multithread   featPar = false: the `multithread` switch is ignored
  C20G_driver_par_forwards                featPar = true and the switch set: forwarded to `par::encode_with_fixed_block_size`
NOT proved here: (i) that the generated `MemSource` (`memOps`) satisfies `Delivers` for `blocksOf bs chans` (only the empty
source: `C03G_driver_mem_empty`); it needs the deinterleave / `verify_samples` lemmas of C14Gen along the blocks and
`interleave`-slice lemmas.  (ii) the FAILURE direction of `C03G_driver_contract_model_success` (generated driver panics / `Err`
exactly where the model returns `none`).
-/
import FlacVerif.Gen.Driver
import FlacVerif.Model.EncodeStream
import FlacVerif.Model.Api
import FlacVerif.Theorems.C08Gen
import FlacVerif.Theorems.C14Gen
import FlacVerif.Theorems.C18Gen
import FlacVerif.Theorems.C09Gen
import FlacVerif.Lemmas.GenCount
import FlacVerif.Lemmas.ExtrasC09
import FlacVerif.Lemmas.WrapFrame
import FlacVerif.Lemmas.WrapStream
import FlacVerif.Theorems.C09Stream
namespace FlacVerif
namespace C03Gen
open FlacVerif.Gen.Driver
open FlacVerif.Gen.Coding (M pureM bindM liftO)

/-! ### the monads -/

theorem bindM_some {α β : Type} (a : α) (k : α → M β) : bindM (liftO (some a)) k = k a := by
  funext log; rfl

theorem bindM_none {α β : Type} (k : α → M β) : bindM (liftO (none : Option α)) k = fun _ => none := by
  funext log; rfl

theorem bindM_apply {α β : Type} (m : M α) (k : α → M β) (log : List OEvent) :
    bindM m k log = (m log).bind fun r => k r.1 r.2 := by
  unfold bindM
  cases m log with
  | none => rfl
  | some r => cases r; rfl

theorem pureM_apply {α : Type} (a : α) (log : List OEvent) : pureM a log = some (a, log) := rfl

theorem liftO_apply {α : Type} (o : Option α) (log : List OEvent) : liftO o log = o.map (·, log) := by
  cases o <;> rfl

theorem req_true {α : Type} (rest : M α) : FlacVerif.Gen.Coding.req true rest = rest := by
  funext log; rfl

theorem req_false {α : Type} (rest : M α) : FlacVerif.Gen.Coding.req false rest = fun _ => none := by
  funext log; rfl

theorem tryM_some {α β : Type} (v : α) (k : α → M (Option β)) : tryM (some v) k = k v := rfl
theorem tryM_none {α β : Type} (k : α → M (Option β)) : tryM (none : Option α) k = pureM none := rfl
theorem tryRet_some {α β σ : Type} (v : α) (k : α → M (Step (Option β) σ)) : tryRet (some v) k = k v := rfl
theorem tryRet_none {α β σ : Type} (k : α → M (Step (Option β) σ)) : tryRet (none : Option α) k = pureM (Step.ret none) := rfl

theorem bindO_some {α β : Type} (a : α) (k : α → Option β) : bindO (some a) k = k a := rfl
theorem reqO_true {β : Type} (r : Option β) : reqO true r = r := rfl
theorem reqO_false {β : Type} (r : Option β) : reqO false r = none := rfl

/-! ### `Stream::with_stream_info`, `Stream::new`, the place `stream_info_mut` -/

/-- **`Stream::with_stream_info`** (with `MetadataBlock::from_stream_info`): the STREAMINFO block, flagged last, no other
block, no frame. -/
theorem C03G_with_stream_info (i : StreamInfo) :
    Stream.with_stream_info i = ⟨⟨true, .StreamInfo i⟩, [], []⟩ := rfl

/-- **`Stream::new`** (generated by part `verify`, which inlines the constructor) builds exactly
`Stream::with_stream_info(StreamInfo::new(..)?)` as generated here, with the model's `StreamInfo.new` deciding. -/
theorem C03G_stream_new (rate channels bps : Nat) :
    Gen.Verify.Stream.new rate channels bps = some ((FlacVerif.StreamInfo.new rate channels bps).map Stream.with_stream_info) := by
  rw [C18Gen.C18G_stream_new]
  cases FlacVerif.StreamInfo.new rate channels bps <;> rfl

/-- the read half of the place `stream_info_mut()` is `Stream::stream_info` (part `verify`): same value, same panic -/
theorem C03G_lens_eq (s : Gen.Writer.Stream) :
    Stream.stream_info_mut s =
      if Gen.Verify.Stream.stream_info_exact s then some (Gen.Verify.Stream.stream_info s) else none := by
  unfold Stream.stream_info_mut Gen.Verify.Stream.stream_info_exact Gen.Verify.Stream.stream_info
  cases s.stream_info.data <;> rfl

theorem C03G_lens_get (s : Gen.Writer.Stream) (i : StreamInfo) (h : s.stream_info.data = .StreamInfo i) :
    Stream.stream_info_mut s = some i := by
  unfold Stream.stream_info_mut; rw [h]

theorem C03G_lens_panics (s : Gen.Writer.Stream) (t : Nat) (d : List Nat) (h : s.stream_info.data = .Unknown t d) :
    Stream.stream_info_mut s = none := by
  unfold Stream.stream_info_mut; rw [h]

theorem C03G_lens_get_set (s : Gen.Writer.Stream) (v : StreamInfo) :
    Stream.stream_info_mut (Stream.stream_info_mut_set s v) = some v := rfl

theorem C03G_lens_set_get (s : Gen.Writer.Stream) (i : StreamInfo) (h : Stream.stream_info_mut s = some i) :
    Stream.stream_info_mut_set s i = s := by
  obtain ⟨⟨l, d⟩, m, f⟩ := s
  unfold Stream.stream_info_mut at h
  cases d with
  | StreamInfo j => simp at h; subst h; rfl
  | Unknown t x => simp at h

theorem C03G_lens_set_set (s : Gen.Writer.Stream) (v w : StreamInfo) :
    Stream.stream_info_mut_set (Stream.stream_info_mut_set s v) w = Stream.stream_info_mut_set s w := rfl

/-- writing the place touches neither the `is_last` flag, nor the other blocks, nor the frames -/
theorem C03G_lens_frame (s : Gen.Writer.Stream) (v : StreamInfo) :
    (Stream.stream_info_mut_set s v).frames = s.frames ∧ (Stream.stream_info_mut_set s v).metadata = s.metadata ∧
    (Stream.stream_info_mut_set s v).stream_info.is_last = s.stream_info.is_last := ⟨rfl, rfl, rfl⟩

/-! ### accessors -/

/-- **min/max frame/block size accessors** (`self.f as usize`: widening) and `Stream::frames`. -/
theorem C03G_accessors (s : StreamInfo) :
    StreamInfo.min_frame_size s = s.minFrame ∧ StreamInfo.max_frame_size s = s.maxFrame ∧
    StreamInfo.min_block_size s = s.minBlock ∧ StreamInfo.max_block_size s = s.maxBlock := ⟨rfl, rfl, rfl, rfl⟩

theorem C03G_frames (s : Gen.Writer.Stream) : Gen.Driver.Stream.frames s = s.frames := rfl

/-- **`Frame::block_size`** = `FrameHeader::block_size` of part `verify` (panics on the reserved block-size code). -/
theorem C03G_frame_block_size (g : Gen.Writer.Frame) :
    Frame.block_size g = if Gen.Verify.FrameHeader.block_size_exact g.header then
      some (Gen.Verify.FrameHeader.block_size g.header) else none := by
  unfold Frame.block_size reqO; rfl

/-! ### `StreamInfo::update_frame_info`, `set_md5_digest` -/

/-- **`StreamInfo::update_frame_info`** = the model's `addFrameCast` (block size `as u16`, `count_bits() / 8` `as u32`, the sample
count advanced by the CAST block size).  Hypotheses = the three panic sites of the Rust code the model does not have: the reserved
block-size code, `usize` overflow inside `Frame::count_bits`, `u64` overflow of `total_samples +=`. -/
theorem C03G_update_frame_info (s : StreamInfo) (g : Gen.Writer.Frame)
    (hb : Gen.Verify.FrameHeader.block_size_exact g.header = true)
    (hc : Gen.Writer.Frame.count_bits_exact g = true)
    (ht : s.total + Gen.Verify.FrameHeader.block_size g.header % 65536 < 2 ^ 64) :
    StreamInfo.update_frame_info s g =
      some (s.addFrameCast (Gen.Verify.FrameHeader.block_size g.header) (Gen.Writer.Frame.count_bits g)) := by
  have ht' : s.total + Gen.Verify.FrameHeader.block_size g.header % 65536 < 18446744073709551616 := ht
  simp only [StreamInfo.update_frame_info, Frame.block_size, hb, hc, reqO_true, bindO_some, ht', decide_true,
    StreamInfo.addFrameCast, Nat.reducePow]

theorem C03G_update_frame_info_panics_reserved (s : StreamInfo) (g : Gen.Writer.Frame)
    (hb : Gen.Verify.FrameHeader.block_size_exact g.header = false) : StreamInfo.update_frame_info s g = none := by
  simp only [StreamInfo.update_frame_info, Frame.block_size, hb, reqO_false, bindO]

theorem C03G_update_frame_info_panics_count (s : StreamInfo) (g : Gen.Writer.Frame)
    (hc : Gen.Writer.Frame.count_bits_exact g = false) : StreamInfo.update_frame_info s g = none := by
  unfold StreamInfo.update_frame_info
  cases Frame.block_size g with
  | none => rfl
  | some b => simp only [bindO_some, hc, reqO_false]

theorem C03G_update_frame_info_panics_total (s : StreamInfo) (g : Gen.Writer.Frame)
    (hb : Gen.Verify.FrameHeader.block_size_exact g.header = true)
    (ht : 2 ^ 64 ≤ s.total + Gen.Verify.FrameHeader.block_size g.header % 65536) : StreamInfo.update_frame_info s g = none := by
  have ht' : ¬ s.total + Gen.Verify.FrameHeader.block_size g.header % 65536 < 18446744073709551616 := by
    have : (2 : Nat) ^ 64 = 18446744073709551616 := by decide
    omega
  unfold StreamInfo.update_frame_info
  simp only [Frame.block_size, hb, reqO_true, bindO_some]
  cases Gen.Writer.Frame.count_bits_exact g with
  | false => rfl
  | true => simp only [reqO_true, ht', decide_false, reqO_false]

/-- ... with the hand model's bit count: for a frame without a precomputed bitstream whose model image has the count `c`
(`C08G_frame_count`), `update_frame_info` is `addFrameCast _ c`. -/
theorem C03G_update_frame_info_model (s : StreamInfo) (g : Gen.Writer.Frame) (c : Nat)
    (hb : Gen.Verify.FrameHeader.block_size_exact g.header = true)
    (hc : Gen.Writer.Frame.count_bits_exact g = true)
    (ht : s.total + Gen.Verify.FrameHeader.block_size g.header % 65536 < 2 ^ 64)
    (hp : g.precomputed_bitstream = none) (hf : g.header.frame_number < 2 ^ 32) (hs : g.header.start_sample_number < 2 ^ 64)
    (ho : ∀ sf ∈ g.subframes, C08Gen.SubOrd sf) (hc64 : c < 2 ^ 64) (hcount : (C08Gen.frameOfGen g).count = some c) :
    StreamInfo.update_frame_info s g = some (s.addFrameCast (Gen.Verify.FrameHeader.block_size g.header) c) := by
  rw [C03G_update_frame_info s g hb hc ht, C08Gen.C08G_frame_count g c hp hf hs ho hc64 hcount]

example : StreamInfo.update_frame_info (StreamInfo.empty 44100 2 16) C08Gen.exFrame =
    some ((StreamInfo.empty 44100 2 16).addFrameCast 8 208) := by decide

/-- **`StreamInfo::set_md5_digest`**: `copy_from_slice` (both sides are `[u8; 16]` in Rust; on lists the lengths must agree). -/
theorem C03G_set_md5_digest (s : StreamInfo) (d : List Nat) (h : d.length = s.md5.length) :
    StreamInfo.set_md5_digest s d = some { s with md5 := d } := by
  simp only [StreamInfo.set_md5_digest, h, decide_true, reqO_true]

theorem C03G_set_md5_digest_panics (s : StreamInfo) (d : List Nat) (h : d.length ≠ s.md5.length) :
    StreamInfo.set_md5_digest s d = none := by
  simp only [StreamInfo.set_md5_digest, h, decide_false, reqO_false]

/-! ### `Stream::add_frame` -/

/-- **`Stream::add_frame`**: `update_frame_info` on the STREAMINFO block, then the frame is appended. -/
theorem C03G_add_frame (s : Gen.Writer.Stream) (i i' : StreamInfo) (g : Gen.Writer.Frame)
    (hi : s.stream_info.data = .StreamInfo i) (hu : StreamInfo.update_frame_info i g = some i') :
    Stream.add_frame s g = some { s with stream_info := { s.stream_info with data := .StreamInfo i' }, frames := s.frames ++ [g] } := by
  simp only [Stream.add_frame, C03G_lens_get s i hi, bindO_some, hu, Stream.stream_info_mut_set]

theorem C03G_add_frame_panics (s : Gen.Writer.Stream) (t : Nat) (d : List Nat) (g : Gen.Writer.Frame)
    (h : s.stream_info.data = .Unknown t d) : Stream.add_frame s g = none := by
  simp only [Stream.add_frame, C03G_lens_panics s t d h, bindO]

/-- the frames of a run: what `update_frame_info` needs of each -/
def FrameFits (g : Gen.Writer.Frame) : Prop :=
  Gen.Verify.FrameHeader.block_size_exact g.header = true ∧ Gen.Writer.Frame.count_bits_exact g = true

instance (g : Gen.Writer.Frame) : Decidable (FrameFits g) := by unfold FrameFits; infer_instance

/-- the (block size, bit count) pair `update_frame_info` reads off a frame -/
def sizeCount (g : Gen.Writer.Frame) : Nat × Nat :=
  (Gen.Verify.FrameHeader.block_size g.header, Gen.Writer.Frame.count_bits g)

/-- the STREAMINFO after `update_frame_info` for each frame of `gs`, in order (model: `foldl addFrameCast`) -/
def foldInfo (i : StreamInfo) (gs : List Gen.Writer.Frame) : StreamInfo :=
  gs.foldl (fun (j : StreamInfo) g => j.addFrameCast (sizeCount g).1 (sizeCount g).2) i

theorem addFrameCast_total (s : StreamInfo) (b c : Nat) : (s.addFrameCast b c).total ≤ s.total + 65535 := by
  have : b % 2 ^ 16 < 2 ^ 16 := Nat.mod_lt _ (by decide)
  simp only [StreamInfo.addFrameCast]
  omega

/-- **a sequence of `add_frame`** = `foldl addFrameCast` over the (block size, bit count) pairs, the frames appended in order
(the sample counter stays below `2^64`: `i.total + 65535 · #frames < 2^64`). -/
theorem C03G_add_frames (gs : List Gen.Writer.Frame) : ∀ (s : Gen.Writer.Stream) (i : StreamInfo),
    s.stream_info.data = .StreamInfo i → (∀ g ∈ gs, FrameFits g) → i.total + 65535 * gs.length < 2 ^ 64 →
    gs.foldlM Stream.add_frame s =
      some { s with stream_info := { s.stream_info with data := .StreamInfo (foldInfo i gs) }, frames := s.frames ++ gs } := by
  induction gs with
  | nil =>
    intro s i hi _ _
    obtain ⟨⟨l, d⟩, m, f⟩ := s
    simp only at hi
    subst hi
    simp [foldInfo]
  | cons g gs ih =>
    intro s i hi hfit htot
    obtain ⟨hb, hc⟩ := hfit g (by simp)
    have hlen : (g :: gs).length = gs.length + 1 := rfl
    have hm : Gen.Verify.FrameHeader.block_size g.header % 65536 < 65536 := Nat.mod_lt _ (by decide)
    have hu := C03G_update_frame_info i g hb hc (by rw [hlen] at htot; omega)
    rw [List.foldlM_cons, C03G_add_frame s i _ g hi hu]
    simp only [Option.bind_eq_bind, Option.bind_some]
    have htot' := addFrameCast_total i (Gen.Verify.FrameHeader.block_size g.header) (Gen.Writer.Frame.count_bits g)
    rw [ih _ _ rfl (fun x hx => hfit x (by simp [hx])) (by rw [hlen] at htot; omega)]
    simp [foldInfo, sizeCount, List.append_assoc]

/-- the STREAMINFO the driver's epilogue leaves: block sizes restored, digest and total stored -/
def finishInfo (i : StreamInfo) (bs : Nat) (digest : List Nat) (total : Nat) : StreamInfo :=
  { i with minBlock := bs, maxBlock := bs, md5 := digest, total := total }

/-- **the whole book-keeping** = the model's `assembleInfo`: `set_block_sizes(bs, bs)` on a fresh STREAMINFO, one
`update_frame_info` per frame, `set_block_sizes(bs, bs)` again, `set_md5_digest`, `set_total_samples` — each step being the
generated function, each accepted for a valid block size (`verifyBlockSize bs`). -/
theorem C03G_assemble (rate channels bps bs : Nat) (gs : List Gen.Writer.Frame) (total : Nat) (digest : List Nat)
    (hbs : verifyBlockSize bs = true) (hfit : ∀ g ∈ gs, FrameFits g) (hn : 65535 * gs.length < 2 ^ 64)
    (hd : digest.length = 16) :
    ∃ i1 i2 i3, Gen.Verify.StreamInfo.set_block_sizes (StreamInfo.empty rate channels bps) bs bs = some (true, i1) ∧
      gs.foldlM (fun j g => StreamInfo.update_frame_info j g) i1 = some i2 ∧
      Gen.Verify.StreamInfo.set_block_sizes i2 bs bs = some (true, i3) ∧
      (StreamInfo.set_md5_digest i3 digest).map (fun j => Gen.Verify.StreamInfo.set_total_samples j total) =
        some (assembleInfo rate channels bps bs (gs.map sizeCount) total digest) := by
  have hlt : bs < 65536 := by
    unfold verifyBlockSize maxBlockSize at hbs
    simp at hbs; omega
  have hset : ∀ s : StreamInfo, Gen.Verify.StreamInfo.set_block_sizes s bs bs = some (true, { s with minBlock := bs, maxBlock := bs }) := by
    intro s
    rw [C18Gen.C18G_set_block_sizes]
    simp [hbs, hlt]
  have hfold : ∀ (l : List Gen.Writer.Frame) (j : StreamInfo), (∀ g ∈ l, FrameFits g) → j.total + 65535 * l.length < 2 ^ 64 →
      l.foldlM (fun j g => StreamInfo.update_frame_info j g) j =
        some ((l.map sizeCount).foldl (fun s f => s.addFrameCast f.1 f.2) j) := by
    intro l
    induction l with
    | nil => intro j _ _; rfl
    | cons g l ih =>
      intro j hf ht
      obtain ⟨hb, hc⟩ := hf g (by simp)
      have hlen : (g :: l).length = l.length + 1 := rfl
      have hm : Gen.Verify.FrameHeader.block_size g.header % 65536 < 65536 := Nat.mod_lt _ (by decide)
      rw [List.foldlM_cons, C03G_update_frame_info j g hb hc (by rw [hlen] at ht; omega)]
      have := addFrameCast_total j (Gen.Verify.FrameHeader.block_size g.header) (Gen.Writer.Frame.count_bits g)
      simp only [Option.bind_eq_bind, Option.bind_some]
      rw [ih _ (fun x hx => hf x (by simp [hx])) (by rw [hlen] at ht; omega)]
      rfl
  refine ⟨_, _, _, hset _, hfold gs _ hfit (by simp [StreamInfo.empty]; omega), hset _, ?_⟩
  have hmd : ∀ (l : List (Nat × Nat)) (j : StreamInfo), (l.foldl (fun s f => s.addFrameCast f.1 f.2) j).md5 = j.md5 := by
    intro l
    induction l with
    | nil => intro j; rfl
    | cons f l ih => intro j; rw [List.foldl_cons, ih]; rfl
  rw [C03G_set_md5_digest _ _ (by simp [hmd, StreamInfo.empty, hd])]
  simp [Gen.Verify.StreamInfo.set_total_samples, assembleInfo]

/-! ### the driver: shape, dispatch, argument checks -/

/-- the state the `loop` threads: the source, the stream, the `(FrameBuf, Context)` pair -/
abbrev LoopState (T : Type) := T × Gen.Writer.Stream × (Gen.Source.FrameBuf × Gen.Source.Context)

/-- the body of the `loop` of the generated driver (copied from Gen/Driver.lean; `C03G_driver_unfold` checks the copy) -/
def loopBody {T : Type} (T_Source : SourceOps T) (FIXED_LPC_ERRORS : Nat → List (List Int)) (QLPC_ERROR_BUFFER : Nat → List Int)
    (MSFRAMEBUF : Nat → Gen.Coding.FrameBuf) (config : Gen.Encoder) (block_size : Nat) :
    LoopState T → M (Step (Option Gen.Writer.Stream) (LoopState T)) := fun s8 =>
  let src := s8.1
  let stream := s8.2.1
  let framebuf_and_context := s8.2.2
  bindM (liftO (T_Source.read_samples src block_size framebuf_and_context)) fun r9 =>
  let src := r9.2.1
  let framebuf_and_context := r9.2.2
  tryRet r9.1 fun ok10 =>
  let read_samples := ok10
  if decide (read_samples = 0) then
    pureM (Step.brk (src, stream, framebuf_and_context))
  else
  bindM (liftO (FlacVerif.Gen.Source.Context.current_frame_number framebuf_and_context.2)) fun r11 =>
  bindM (liftO r11) fun u12 =>
  FlacVerif.Gen.Coding.req (FlacVerif.Gen.Verify.Stream.stream_info_exact stream) <|
  bindM (FlacVerif.Gen.Coding.encode_fixed_size_frame verifySamples (FIXED_LPC_ERRORS u12) (QLPC_ERROR_BUFFER u12) (MSFRAMEBUF u12) config (fbToCoding framebuf_and_context.1) u12 (FlacVerif.Gen.Verify.Stream.stream_info stream)) fun r13 =>
  tryRet r13 fun ok14 =>
  let frame := ok14
  bindM (liftO (Stream.add_frame stream frame)) fun r15 =>
  let stream := r15
  pureM (Step.next (src, stream, framebuf_and_context))

/-- the statements after the `loop` -/
def epilogue {T : Type} (T_Source : SourceOps T) (md5_finalize : List Nat → List Nat) (block_size : Nat) :
    LoopState T → M (Option Gen.Writer.Stream) := fun s17 =>
  let src := s17.1
  let stream := s17.2.1
  let framebuf_and_context := s17.2.2
  bindM (liftO (Stream.stream_info_mut stream)) fun p18 =>
  bindM (liftO (FlacVerif.Gen.Verify.StreamInfo.set_block_sizes p18 block_size block_size)) fun r19 =>
  let stream := Stream.stream_info_mut_set stream r19.2
  FlacVerif.Gen.Coding.req r19.1 <|
  let context := framebuf_and_context.2
  bindM (liftO (Stream.stream_info_mut stream)) fun p20 =>
  bindM (liftO (StreamInfo.set_md5_digest p20 (FlacVerif.Gen.Source.Context.md5_digest md5_finalize context))) fun r21 =>
  let stream := Stream.stream_info_mut_set stream r21
  bindM (liftO (Stream.stream_info_mut stream)) fun p22 =>
  bindM (liftO (T_Source.len_hint src)) fun r23 =>
  let stream := Stream.stream_info_mut_set stream (FlacVerif.Gen.Verify.StreamInfo.set_total_samples p22 (match r23 with | some x_ => x_ | none => FlacVerif.Gen.Source.Context.total_samples context))
  pureM (some stream)

/-- **shape of the generated driver**: the `par` dispatch, the prologue (`Stream::new`, `FrameBuf::with_size`, `Context::new`,
`set_block_sizes(..).unwrap()`), `loopM` over `loopBody`, `epilogue`.  Definitional. -/
theorem C03G_driver_unfold {T : Type} (ops : SourceOps T) (featPar : Bool) (par : Gen.Encoder → T → Nat → M (Option Gen.Writer.Stream))
    (md5f : List Nat → List Nat) (s1 : Nat → List (List Int)) (s2 : Nat → List Int) (s3 : Nat → Gen.Coding.FrameBuf) (fuel : Nat)
    (config : Gen.Encoder) (src : T) (block_size : Nat) :
    encode_with_fixed_block_size featPar ops par md5f s1 s2 s3 fuel config src block_size =
      if (featPar && config.multithread) then par config src block_size else
      bindM (liftO (Gen.Verify.Stream.new (ops.sample_rate src) (ops.channels src) (ops.bits_per_sample src))) fun r1 =>
      tryM r1 fun stream =>
      bindM (liftO (Gen.Source.FrameBuf.with_size (ops.channels src) block_size)) fun r3 =>
      tryM r3 fun ok4 =>
      bindM (liftO (Gen.Source.Context.new (ops.bits_per_sample src) (ops.channels src))) fun r5 =>
      bindM (liftO (Stream.stream_info_mut stream)) fun p6 =>
      bindM (liftO (Gen.Verify.StreamInfo.set_block_sizes p6 block_size block_size)) fun r7 =>
      FlacVerif.Gen.Coding.req r7.1 <|
      bindM (loopM fuel (src, Stream.stream_info_mut_set stream r7.2, (ok4, r5)) (loopBody ops s1 s2 s3 config block_size)) fun e16 =>
      afterLoop e16 (epilogue ops md5f block_size) := rfl

/-- **`config.multithread`** (feature `par` is on in the verified build): the call is forwarded, nothing else happens. -/
theorem C03G_driver_multithread {T : Type} (ops : SourceOps T) (featPar : Bool) (par : Gen.Encoder → T → Nat → M (Option Gen.Writer.Stream))
    (md5f : List Nat → List Nat) (s1 : Nat → List (List Int)) (s2 : Nat → List Int) (s3 : Nat → Gen.Coding.FrameBuf) (fuel : Nat)
    (config : Gen.Encoder) (src : T) (bs : Nat) (hf : featPar = true) (h : config.multithread = true) :
    encode_with_fixed_block_size featPar ops par md5f s1 s2 s3 fuel config src bs = par config src bs := by
  rw [C03G_driver_unfold, if_pos (by simp [hf, h])]

/-- **argument checks**: when the model's `encodeStreamArgsOk` is false (`Stream::new` or `FrameBuf::with_size` rejects) the
driver returns `Err` without touching the source or the log, and it does not panic. -/
theorem C03G_driver_args {T : Type} (ops : SourceOps T) (featPar : Bool) (par : Gen.Encoder → T → Nat → M (Option Gen.Writer.Stream))
    (md5f : List Nat → List Nat) (s1 : Nat → List (List Int)) (s2 : Nat → List Int) (s3 : Nat → Gen.Coding.FrameBuf) (fuel : Nat)
    (config : Gen.Encoder) (src : T) (bs : Nat) (log : List OEvent) (hmt : config.multithread = false)
    (h : encodeStreamArgsOk bs (ops.channels src) (ops.bits_per_sample src) (ops.sample_rate src) = false) :
    encode_with_fixed_block_size featPar ops par md5f s1 s2 s3 fuel config src bs log = some (none, log) := by
  rw [C03G_driver_unfold]
  simp only [hmt, Bool.and_false, Bool.false_eq_true, if_false, C03G_stream_new, C14Gen.C14G_with_size, bindM_some]
  unfold encodeStreamArgsOk at h
  cases hn : FlacVerif.StreamInfo.new (ops.sample_rate src) (ops.channels src) (ops.bits_per_sample src) with
  | none => rfl
  | some i0 =>
    cases hw : FlacVerif.FrameBuf.withSize (ops.channels src) bs with
    | none => rfl
    | some m0 => simp [hn, hw] at h


/-! ### C20: cargo features -/

/-- **C20 (feature `par`, single-thread configuration)**: with `config.multithread = false` the generated driver is the same
function for `featPar = true` and `featPar = false` — every source, block size, storage contents, oracle log, `fuel`, and whatever
`par::encode_with_fixed_block_size` does.  (`featPar` is the only feature flag of the generated driver: no other
`cfg(feature = ..)` / `cfg!(feature = ..)` / `log` macro site occurs in the translated bodies; one would be a further Bool
parameter or make the part fail closed.) -/
theorem C20G_driver_featPar {T : Type} (ops : SourceOps T) (par par' : Gen.Encoder → T → Nat → M (Option Gen.Writer.Stream))
    (md5f : List Nat → List Nat) (s1 : Nat → List (List Int)) (s2 : Nat → List Int) (s3 : Nat → Gen.Coding.FrameBuf) (fuel : Nat)
    (config : Gen.Encoder) (src : T) (bs : Nat) (hmt : config.multithread = false) (a b : Bool) :
    encode_with_fixed_block_size a ops par md5f s1 s2 s3 fuel config src bs =
      encode_with_fixed_block_size b ops par' md5f s1 s2 s3 fuel config src bs := by
  rw [C03G_driver_unfold, C03G_driver_unfold]
  simp only [hmt, Bool.and_false, Bool.false_eq_true, if_false]

/-- the configuration with the `multithread` switch set to `m` -/
def withMultithread (c : Gen.Encoder) (m : Bool) : Gen.Encoder := { c with multithread := m }

/-- `encode_fixed_size_frame` (part `coding`) does not read `config.multithread` -/
theorem encode_fixed_size_frame_multithread (vs : Gen.Coding.FrameBuf → Nat → Gen.Verify.VR) (a : List (List Int)) (b : List Int)
    (ms fb : Gen.Coding.FrameBuf) (c : Gen.Encoder) (m : Bool) (n : Nat) (info : StreamInfo) :
    Gen.Coding.encode_fixed_size_frame vs a b ms (withMultithread c m) fb n info =
      Gen.Coding.encode_fixed_size_frame vs a b ms c fb n info := rfl

/-- **C20 (feature `par` off)**: without the feature the `multithread` switch is ignored: the generated driver returns the same
value for `config` and for `config` with the switch set either way. -/
theorem C20G_driver_nopar_ignores_multithread {T : Type} (ops : SourceOps T)
    (par : Gen.Encoder → T → Nat → M (Option Gen.Writer.Stream))
    (md5f : List Nat → List Nat) (s1 : Nat → List (List Int)) (s2 : Nat → List Int) (s3 : Nat → Gen.Coding.FrameBuf) (fuel : Nat)
    (config : Gen.Encoder) (src : T) (bs : Nat) (m : Bool) :
    encode_with_fixed_block_size false ops par md5f s1 s2 s3 fuel (withMultithread config m) src bs =
      encode_with_fixed_block_size false ops par md5f s1 s2 s3 fuel config src bs := by
  rw [C03G_driver_unfold, C03G_driver_unfold]
  simp only [Bool.false_and, Bool.false_eq_true, if_false]
  rfl

/-- with the feature on and the switch set, the call IS forwarded (so the two builds differ exactly there: C05 covers the
multi-thread path) -/
theorem C20G_driver_par_forwards {T : Type} (ops : SourceOps T) (par : Gen.Encoder → T → Nat → M (Option Gen.Writer.Stream))
    (md5f : List Nat → List Nat) (s1 : Nat → List (List Int)) (s2 : Nat → List Int) (s3 : Nat → Gen.Coding.FrameBuf) (fuel : Nat)
    (config : Gen.Encoder) (src : T) (bs : Nat) (h : config.multithread = true) :
    encode_with_fixed_block_size true ops par md5f s1 s2 s3 fuel config src bs = par config src bs :=
  C03G_driver_multithread ops true par md5f s1 s2 s3 fuel config src bs rfl h

/-! ### the `loop` -/

/-- a run of the `loop`: iterations that deliver a non-empty block, take its frame number from the context, encode it and add the
frame, ended by an iteration whose `read_samples` returns 0.  (A relation between states and logs; every premise is one call of
a generated function.) -/
inductive Run {T : Type} (ops : SourceOps T) (s1 : Nat → List (List Int)) (s2 : Nat → List Int) (s3 : Nat → Gen.Coding.FrameBuf)
    (config : Gen.Encoder) (bs : Nat) : LoopState T → List OEvent → LoopState T → List OEvent → List Gen.Writer.Frame → Prop
  | stop (src src' : T) (st : Gen.Writer.Stream) (fbc fbc' : Gen.Source.FrameBuf × Gen.Source.Context) (log : List OEvent) :
      ops.read_samples src bs fbc = some (some 0, src', fbc') →
      Run ops s1 s2 s3 config bs (src, st, fbc) log (src', st, fbc') log []
  | step (src src' : T) (st st1 : Gen.Writer.Stream) (fbc fbc' : Gen.Source.FrameBuf × Gen.Source.Context) (k num : Nat)
      (g : Gen.Writer.Frame) (log log1 logf : List OEvent) (fin : LoopState T) (gs : List Gen.Writer.Frame) :
      ops.read_samples src bs fbc = some (some k, src', fbc') → k ≠ 0 →
      Gen.Source.Context.current_frame_number fbc'.2 = some (some num) →
      Gen.Verify.Stream.stream_info_exact st = true →
      Gen.Coding.encode_fixed_size_frame verifySamples (s1 num) (s2 num) (s3 num) config (fbToCoding fbc'.1) num
        (Gen.Verify.Stream.stream_info st) log = some (some g, log1) →
      Stream.add_frame st g = some st1 →
      Run ops s1 s2 s3 config bs (src', st1, fbc') log1 fin logf gs →
      Run ops s1 s2 s3 config bs (src, st, fbc) log fin logf (g :: gs)

/-- **the `loop`**: along a run, `loopM` leaves by `break` with the run's final state and log, for every `fuel` above the number
of frames. -/
theorem C03G_loop {T : Type} (ops : SourceOps T) (s1 : Nat → List (List Int)) (s2 : Nat → List Int) (s3 : Nat → Gen.Coding.FrameBuf)
    (config : Gen.Encoder) (bs : Nat) (s fin : LoopState T) (log logf : List OEvent) (gs : List Gen.Writer.Frame)
    (h : Run ops s1 s2 s3 config bs s log fin logf gs) :
    ∀ fuel, gs.length < fuel → loopM fuel s (loopBody ops s1 s2 s3 config bs) log = some (Exit.brk fin, logf) := by
  induction h with
  | stop src src' st fbc fbc' log hr =>
    intro fuel hf
    cases fuel with
    | zero => simp at hf
    | succ f =>
      simp only [loopM, loopBody, hr, bindM_some, tryRet_some, decide_true, if_true, bindM_apply, pureM_apply,
        Option.bind_some]
  | step src src' st st1 fbc fbc' k num g log log1 logf fin gs hr hk hnum hex henc hadd _ ih =>
    intro fuel hf
    cases fuel with
    | zero => simp at hf
    | succ f =>
      have hf' : gs.length < f := by simp only [List.length_cons] at hf; omega
      have hk' : decide (k = 0) = false := by simp [hk]
      simp only [loopM, loopBody, hr, bindM_some, tryRet_some, hk', Bool.false_eq_true, if_false, hnum, hex, req_true,
        bindM_apply, henc, Option.bind_some, hadd, pureM_apply, liftO_apply, Option.map_some]
      exact ih f hf'

/-- an `Err` of `read_samples` in the first iteration is returned from the function as `Err` (state and log as they are) -/
theorem C03G_loop_read_err {T : Type} (ops : SourceOps T) (s1 : Nat → List (List Int)) (s2 : Nat → List Int)
    (s3 : Nat → Gen.Coding.FrameBuf) (config : Gen.Encoder) (bs fuel : Nat) (src src' : T) (st : Gen.Writer.Stream)
    (fbc fbc' : Gen.Source.FrameBuf × Gen.Source.Context) (log : List OEvent)
    (hr : ops.read_samples src bs fbc = some (none, src', fbc')) :
    loopM (fuel + 1) (src, st, fbc) (loopBody ops s1 s2 s3 config bs) log = some (Exit.ret none, log) := by
  simp only [loopM, loopBody, hr, bindM_some, tryRet_none, bindM_apply, pureM_apply, Option.bind_some]

/-- an `Err` of `encode_fixed_size_frame` is returned from the function as `Err` -/
theorem C03G_loop_encode_err {T : Type} (ops : SourceOps T) (s1 : Nat → List (List Int)) (s2 : Nat → List Int)
    (s3 : Nat → Gen.Coding.FrameBuf) (config : Gen.Encoder) (bs fuel : Nat) (src src' : T) (st : Gen.Writer.Stream)
    (fbc fbc' : Gen.Source.FrameBuf × Gen.Source.Context) (k num : Nat) (log log1 : List OEvent)
    (hr : ops.read_samples src bs fbc = some (some k, src', fbc')) (hk : k ≠ 0)
    (hnum : Gen.Source.Context.current_frame_number fbc'.2 = some (some num))
    (hex : Gen.Verify.Stream.stream_info_exact st = true)
    (henc : Gen.Coding.encode_fixed_size_frame verifySamples (s1 num) (s2 num) (s3 num) config (fbToCoding fbc'.1) num
        (Gen.Verify.Stream.stream_info st) log = some (none, log1)) :
    loopM (fuel + 1) (src, st, fbc) (loopBody ops s1 s2 s3 config bs) log = some (Exit.ret none, log1) := by
  have hk' : decide (k = 0) = false := by simp [hk]
  simp only [loopM, loopBody, hr, bindM_some, tryRet_some, hk', Bool.false_eq_true, if_false, hnum, hex, req_true,
    bindM_apply, henc, Option.bind_some, tryRet_none, pureM_apply]

/-- along a run the stream only changes by `add_frame`: the frames of the run are appended, in order -/
theorem run_stream {T : Type} (ops : SourceOps T) (s1 : Nat → List (List Int)) (s2 : Nat → List Int) (s3 : Nat → Gen.Coding.FrameBuf)
    (config : Gen.Encoder) (bs : Nat) (s fin : LoopState T) (log logf : List OEvent) (gs : List Gen.Writer.Frame)
    (h : Run ops s1 s2 s3 config bs s log fin logf gs) : gs.foldlM Stream.add_frame s.2.1 = some fin.2.1 := by
  induction h with
  | stop => rfl
  | step src src' st st1 fbc fbc' k num g log log1 logf fin gs hr hk hnum hex henc hadd _ ih =>
    rw [List.foldlM_cons, hadd]
    exact ih

/-! ### the whole driver along a run -/

/-- the epilogue on a stream whose first block is the STREAMINFO `i`: `set_block_sizes(bs, bs).unwrap()` (fix 643cf2e),
`set_md5_digest(context.md5_digest())`, `set_total_samples(len_hint or else the context's count)`. -/
theorem epilogue_apply {T : Type} (ops : SourceOps T) (md5f : List Nat → List Nat) (bs : Nat) (src : T) (st : Gen.Writer.Stream)
    (fb : Gen.Source.FrameBuf) (ctx : Gen.Source.Context) (i : StreamInfo) (lh : Option Nat) (log : List OEvent)
    (hi : st.stream_info.data = .StreamInfo i) (hbs : verifyBlockSize bs = true) (hlh : ops.len_hint src = some lh)
    (hmd : (md5f ctx.md5).length = i.md5.length) :
    epilogue ops md5f bs (src, st, (fb, ctx)) log =
      some (some (Stream.stream_info_mut_set st (finishInfo i bs (md5f ctx.md5) (lh.getD ctx.sample_count))), log) := by
  have hlt : bs < 65536 := by
    unfold verifyBlockSize maxBlockSize at hbs
    simp at hbs; omega
  unfold epilogue
  simp only [C03G_lens_get st i hi, bindM_some, C18Gen.C18G_set_block_sizes, hbs, hlt, if_true, Bool.and_self, Nat.le_refl,
    decide_true, req_true, C03G_lens_get_set, Gen.Source.Context.md5_digest]
  rw [C03G_set_md5_digest _ _ (by simpa using hmd)]
  simp only [bindM_some, hlh, C03G_lens_set_set, Gen.Verify.StreamInfo.set_total_samples,
    Gen.Source.Context.total_samples, pureM_apply, finishInfo]
  cases lh <;> rfl

/-- the state in which the `loop` is entered when the argument checks pass -/
def entryState {T : Type} (src : T) (i0 : StreamInfo) (m0 : FlacVerif.FrameBuf) (bs bps ch : Nat) : LoopState T :=
  (src, ⟨⟨true, .StreamInfo { i0 with minBlock := bs, maxBlock := bs }⟩, [], []⟩, (C14Gen.ofModel m0 [], ⟨[], (bps + 7) / 8, ch, 0, 0⟩))

theorem streamInfo_new_bps (rate ch bps : Nat) (i0 : StreamInfo) (h : FlacVerif.StreamInfo.new rate ch bps = some i0) :
    bps ≤ 25 ∧ i0 = StreamInfo.empty rate ch bps := by
  unfold FlacVerif.StreamInfo.new at h
  split at h
  · rename_i hc
    obtain ⟨_, _, _, _, hv, _⟩ := hc
    unfold verifyBps at hv
    simp at hv
    refine ⟨by omega, ?_⟩
    simpa using h.symm
  · simp at h

theorem withSize_bs (ch bs : Nat) (m0 : FlacVerif.FrameBuf) (h : FlacVerif.FrameBuf.withSize ch bs = some m0) :
    verifyBlockSize bs = true := by
  unfold FlacVerif.FrameBuf.withSize at h
  split at h
  · rename_i hc
    unfold verifyBlockSize maxBlockSize
    simp; omega
  · simp at h

/-- **the whole driver along a run**: the argument checks pass (model: `StreamInfo.new`, `FrameBuf.withSize`), the `loop` runs
from `entryState` to `(srcf, stf, (fbf, ctxf))`, and the result is `Ok` of the final stream with STREAMINFO `finishInfo`:
block sizes restored to `bs` after the last frame, the digest of the bytes the context hashed, `len_hint()` or else the context's
sample count.  For every `Source` implementation, configuration (single-thread), storage contents and oracle log. -/
theorem C03G_driver_run {T : Type} (ops : SourceOps T) (featPar : Bool) (par : Gen.Encoder → T → Nat → M (Option Gen.Writer.Stream))
    (md5f : List Nat → List Nat) (s1 : Nat → List (List Int)) (s2 : Nat → List Int) (s3 : Nat → Gen.Coding.FrameBuf)
    (config : Gen.Encoder) (src srcf : T) (bs : Nat) (log logf : List OEvent) (i0 i : StreamInfo) (m0 : FlacVerif.FrameBuf)
    (stf : Gen.Writer.Stream) (fbf : Gen.Source.FrameBuf) (ctxf : Gen.Source.Context) (lh : Option Nat)
    (gs : List Gen.Writer.Frame)
    (hmt : config.multithread = false)
    (hnew : FlacVerif.StreamInfo.new (ops.sample_rate src) (ops.channels src) (ops.bits_per_sample src) = some i0)
    (hfb : FlacVerif.FrameBuf.withSize (ops.channels src) bs = some m0)
    (hrun : Run ops s1 s2 s3 config bs (entryState src i0 m0 bs (ops.bits_per_sample src) (ops.channels src)) log
      (srcf, stf, (fbf, ctxf)) logf gs)
    (hi : stf.stream_info.data = .StreamInfo i) (hlh : ops.len_hint srcf = some lh)
    (hmd : (md5f ctxf.md5).length = i.md5.length) :
    ∀ fuel, gs.length < fuel →
      encode_with_fixed_block_size featPar ops par md5f s1 s2 s3 fuel config src bs log =
        some (some (Stream.stream_info_mut_set stf (finishInfo i bs (md5f ctxf.md5) (lh.getD ctxf.sample_count))), logf) := by
  intro fuel hf
  obtain ⟨hb25, hi0⟩ := streamInfo_new_bps _ _ _ _ hnew
  have hbs := withSize_bs _ _ _ hfb
  have hlt : bs < 65536 := by
    unfold verifyBlockSize maxBlockSize at hbs
    simp at hbs; omega
  have hctx : Gen.Source.Context.new (ops.bits_per_sample src) (ops.channels src) =
      some ⟨[], (ops.bits_per_sample src + 7) / 8, ops.channels src, 0, 0⟩ := by
    rw [C14Gen.C14G_ctx_new _ _ (by omega), if_pos (by omega)]
  rw [C03G_driver_unfold]
  simp only [hmt, Bool.and_false, Bool.false_eq_true, if_false, C03G_stream_new, hnew, Option.map_some, bindM_some, tryM_some,
    C14Gen.C14G_with_size, hfb, hctx, C03G_with_stream_info, Stream.stream_info_mut, C18Gen.C18G_set_block_sizes, hbs, hlt,
    if_true, Bool.and_self, Nat.le_refl, decide_true, req_true]
  have hloop := C03G_loop ops s1 s2 s3 config bs _ _ log logf gs hrun fuel hf
  unfold entryState at hloop
  simp only [Stream.stream_info_mut_set] at hloop ⊢
  rw [bindM_apply, hloop]
  simp only [Option.bind_some, afterLoop]
  exact epilogue_apply ops md5f bs srcf stf fbf ctxf i lh logf hi hbs hlh hmd

/-- **the empty-input path** (fix 414d6c7): a source whose first `read_samples` returns `Ok(0)` (leaving the context as
`Context::new` made it) gives `Ok` of a stream without frames whose STREAMINFO is the model's `assembleInfo` with no frame:
block sizes `bs`, frame sizes at their initial values, the digest of the empty string, `len_hint` or else 0 samples. -/
theorem C03G_driver_empty {T : Type} (ops : SourceOps T) (featPar : Bool) (par : Gen.Encoder → T → Nat → M (Option Gen.Writer.Stream))
    (md5f : List Nat → List Nat) (s1 : Nat → List (List Int)) (s2 : Nat → List Int) (s3 : Nat → Gen.Coding.FrameBuf)
    (config : Gen.Encoder) (src srcf : T) (bs fuel : Nat) (log : List OEvent) (i0 : StreamInfo) (m0 : FlacVerif.FrameBuf)
    (fbf : Gen.Source.FrameBuf) (lh : Option Nat)
    (hmt : config.multithread = false)
    (hnew : FlacVerif.StreamInfo.new (ops.sample_rate src) (ops.channels src) (ops.bits_per_sample src) = some i0)
    (hfb : FlacVerif.FrameBuf.withSize (ops.channels src) bs = some m0)
    (hread : ops.read_samples src bs (C14Gen.ofModel m0 [], ⟨[], (ops.bits_per_sample src + 7) / 8, ops.channels src, 0, 0⟩) =
      some (some 0, srcf, (fbf, ⟨[], (ops.bits_per_sample src + 7) / 8, ops.channels src, 0, 0⟩)))
    (hlh : ops.len_hint srcf = some lh) (hmd : (md5f []).length = 16) :
    encode_with_fixed_block_size featPar ops par md5f s1 s2 s3 (fuel + 1) config src bs log =
      some (some ⟨⟨true, .StreamInfo (assembleInfo (ops.sample_rate src) (ops.channels src) (ops.bits_per_sample src) bs []
        (lh.getD 0) (md5f []))⟩, [], []⟩, log) := by
  obtain ⟨_, hi0⟩ := streamInfo_new_bps _ _ _ _ hnew
  have h := C03G_driver_run ops featPar par md5f s1 s2 s3 config src srcf bs log log i0 { i0 with minBlock := bs, maxBlock := bs } m0
    ⟨⟨true, .StreamInfo { i0 with minBlock := bs, maxBlock := bs }⟩, [], []⟩ fbf
    ⟨[], (ops.bits_per_sample src + 7) / 8, ops.channels src, 0, 0⟩ lh [] hmt hnew hfb
    (Run.stop _ _ _ _ _ _ hread) rfl hlh (by subst hi0; simpa [StreamInfo.empty] using hmd) (fuel + 1) (by simp)
  rw [h]
  subst hi0
  rfl

/-! ### the generated `MemSource` as a `Source` -/

/-- `impl Source for MemSource` (Gen/Source.lean), `read_samples` at the `Fill` the driver passes: `(FrameBuf, Context)` -/
def memOps : SourceOps Gen.Source.MemSource where
  channels := Gen.Source.MemSource.channels_fn
  bits_per_sample := Gen.Source.MemSource.bits_per_sample_fn
  sample_rate := Gen.Source.MemSource.sample_rate_fn
  read_samples := Gen.Source.MemSource.read_samples
    (Gen.Source.FillPair.fill_interleaved Gen.Source.FrameBuf.fill_interleaved Gen.Source.Context.fill_interleaved)
  len_hint := Gen.Source.MemSource.len_hint

/-- **empty `MemSource`**: `encode_with_fixed_block_size(cfg, MemSource::from_samples(&[], ch, bps, rate), bs)` with accepted
arguments is `Ok` of the frameless stream with `assembleInfo .. [] 0 (md5 "")` — the generated driver on the generated source. -/
theorem C03G_driver_mem_empty (featPar : Bool) (par : Gen.Encoder → Gen.Source.MemSource → Nat → M (Option Gen.Writer.Stream))
    (md5f : List Nat → List Nat) (s1 : Nat → List (List Int)) (s2 : Nat → List Int) (s3 : Nat → Gen.Coding.FrameBuf)
    (config : Gen.Encoder) (ch bps rate bs fuel : Nat) (log : List OEvent) (i0 : StreamInfo) (m0 : FlacVerif.FrameBuf)
    (hmt : config.multithread = false)
    (hnew : FlacVerif.StreamInfo.new rate ch bps = some i0) (hfb : FlacVerif.FrameBuf.withSize ch bs = some m0)
    (hmd : (md5f []).length = 16) :
    encode_with_fixed_block_size featPar memOps par md5f s1 s2 s3 (fuel + 1) config (Gen.Source.MemSource.from_samples [] ch bps rate) bs log =
      some (some ⟨⟨true, .StreamInfo (assembleInfo rate ch bps bs [] 0 (md5f []))⟩, [], []⟩, log) := by
  have hch : 1 ≤ ch ∧ ch ≤ 8 ∧ 32 ≤ bs ∧ bs ≤ 32767 := by
    unfold FlacVerif.FrameBuf.withSize at hfb
    split at hfb
    · assumption
    · simp at hfb
  have hm0 : m0 = ⟨List.replicate (bs * ch) 0, bs, ch, 0⟩ := by
    unfold FlacVerif.FrameBuf.withSize at hfb
    rw [if_pos hch] at hfb
    simpa using hfb.symm
  have hmul : bs * ch ≤ 32767 * 8 := Nat.mul_le_mul hch.2.2.2 hch.2.1
  have hshape : C14Gen.Shape (C14Gen.ofModel m0 []) ch := by
    subst hm0
    exact ⟨by simp [C14Gen.ofModel], by simp [C14Gen.ofModel]; omega, hch.1, by simp [C14Gen.ofModel]; omega⟩
  have hread : ∃ fbf, memOps.read_samples (Gen.Source.MemSource.from_samples [] ch bps rate) bs
      (C14Gen.ofModel m0 [], ⟨[], (bps + 7) / 8, ch, 0, 0⟩) =
      some (some 0, Gen.Source.MemSource.from_samples [] ch bps rate, (fbf, ⟨[], (bps + 7) / 8, ch, 0, 0⟩)) := by
    refine ⟨{ C14Gen.ofModel m0 [] with
      samples := deinterleave [] ch (C14Gen.ofModel m0 []).size (C14Gen.ofModel m0 []).samples, filled_size := 0 }, ?_⟩
    unfold memOps
    simp only []
    rw [C14Gen.C14G_read_samples _ _ _ _ (by simp [Gen.Source.MemSource.from_samples]; omega)
      (by simp [Gen.Source.MemSource.from_samples]; omega) (by simp [Gen.Source.MemSource.from_samples]; omega)]
    simp only [Gen.Source.MemSource.from_samples, List.length_nil, Nat.zero_mul, Nat.min_zero, List.drop_nil, List.take_nil,
      Nat.zero_add, Nat.sub_self, Nat.zero_div, Nat.add_zero]
    rw [C14Gen.C14G_pair_fill_interleaved, C14Gen.C14G_fill_interleaved _ ch hshape [] (by simp)]
    have hfill : (C14Gen.toModel (C14Gen.ofModel m0 []) ch).fillInterleaved [] =
        .ok { C14Gen.toModel (C14Gen.ofModel m0 []) ch with
              samples := deinterleave [] ch (C14Gen.ofModel m0 []).size (C14Gen.ofModel m0 []).samples, filled := 0 } := by
      unfold FlacVerif.FrameBuf.fillInterleaved
      simp [C14Gen.toModel]
    rw [hfill]
    simp [Gen.Source.Context.fill_interleaved]
  obtain ⟨fbf, hread⟩ := hread
  have hlh : memOps.len_hint (Gen.Source.MemSource.from_samples [] ch bps rate) = some (some 0) := by
    have : ch ≠ 0 := by omega
    simp [memOps, Gen.Source.MemSource.len_hint, Gen.Source.MemSource.len, Gen.Source.MemSource.channels_fn,
      Gen.Source.MemSource.from_samples, Gen.Source.req, Gen.Source.bindO, this]
  exact C03G_driver_empty memOps featPar par md5f s1 s2 s3 config _ _ bs fuel log i0 m0 fbf (some 0) hmt hnew hfb hread hlh hmd




/-! ### the Rust-side VALUE of the frames the generated encoder returns -/

section shape
open Total Strict C09Gen Gen.Coding

/-- what `encode_frame` fixes of the frame it returns beyond its model image: no precomputed bitstream, the block-size code of
the buffer's `filled_size`, sample number 0 (the offset `encode_fixed_size_frame` passes), frame number 0 -/
def FrameShape (fb : Gen.Coding.FrameBuf) (f : Gen.Writer.Frame) : Prop :=
  f.precomputed_bitstream = none ∧
  f.header.block_size_spec = Gen.Headers.BlockSizeSpec.from_size (fb.filled_size % 65536) ∧
  f.header.start_sample_number = 0 ∧ f.header.frame_number = 0 ∧ C08Gen.ChanOk f.header.channel_assignment

theorem chanOk_choose (st : StereoCfg) (a b c d : Nat) : C08Gen.ChanOk (C02Hdr.caToGen (chooseStereo st a b c d)) := by
  rcases Strict.chooseStereo_cases st a b c d with h | h | h | h <;> rw [h] <;> simp [C02Hdr.caToGen, C08Gen.ChanOk]

theorem shape_of_implHeader (fb : Gen.Coding.FrameBuf) (info : StreamInfo) (X Y : Gen.Headers.ChannelAssignment)
    (subs : List SubFrame) (h : C08Gen.ChanOk Y) :
    FrameShape fb ⟨{ implHeader fb info X 0 with channel_assignment := Y }, subs, none⟩ := by
  simp [FrameShape, implHeader, Gen.Verify.FrameHeader.set_frame_offset, Gen.Verify.FrameHeader.set_start_sample_number,
    FrameHeader.from_specs, h]

/-- **value-level `encode_frame`**: whatever it returns has `FrameShape` (both the independent and the stereo branch). -/
theorem encode_frame_shape (s1 : List (List Int)) (s2 : List Int) (s3 : Gen.Coding.FrameBuf) (c : Gen.Encoder)
    (fb : Gen.Coding.FrameBuf) (info : StreamInfo) (log : List OEvent)
    (hst : StereoBuf s3) (hfb : FbOk fb info.channels) (hn : 1 ≤ fb.filled_size ∧ fb.filled_size < 2 ^ 16)
    (hch : 1 ≤ info.channels ∧ info.channels ≤ 8) (hb : 1 ≤ info.bps ∧ info.bps ≤ 24)
    (hx : ∀ ch, ch < info.channels → ∀ x ∈ chanOf fb ch, SubFrame.inRange info.bps x = true)
    (hmax : c.subframe_coding.prc.max_parameter ≤ 14) (hmo : c.subframe_coding.fixed.max_order + 1 < 2 ^ 64)
    (hlog : LogFits log) :
    ∀ r, encode_frame s1 s2 s3 c fb 0 info log = some r → FrameShape fb r.1 := by
  unfold encode_frame
  have hm : info.channels % 256 = info.channels := Nat.mod_eq_of_lt (by omega)
  have hca : C02Hdr.caOfGen (Gen.Headers.ChannelAssignment.Independent info.channels) = .independent info.channels := rfl
  have hclen : (chansOf fb info.channels).length = info.channels := by simp [chansOf]
  simp only [C09Gen.bindM_apply, hm]
  rw [C09G_encode_frame_impl s1 s2 c fb 0 info _ log hn hfb hch.2 hmax hmo (by
    intro ch hc
    rw [hca]
    simp only [ChannelAssignment.bpsOffset, Nat.add_zero]
    exact ⟨hb.1, by omega, hx ch hc⟩) hlog, hca]
  cases hec : encodeChannels (subCfgOf c.subframe_coding) (.independent info.channels) info.bps (chansOf fb info.channels) 0 log with
  | none => intro r h; simp at h
  | some r0 =>
    obtain ⟨indep, l1⟩ := r0
    obtain ⟨hilen, hicnt⟩ := C09.encodeChannels_bound _ (.independent info.channels) info.bps fb.filled_size hn.1 _ 0 log l1 indep (by
      intro cc hcc
      simp only [chansOf, List.mem_map, List.mem_range] at hcc
      obtain ⟨k, hk, rfl⟩ := hcc
      exact chanOf_length fb info.channels k hfb hk) hec
    have hsub := encodeChannels_sub _ _ _ _ _ _ _ _ hec
    simp only [Option.map_some, Option.bind_some]
    by_cases h2 : info.channels = 2
    · rw [if_pos h2]
      rw [hclen, h2] at hilen
      match indep, hilen, hicnt with
      | [sl, sr], _, hicnt =>
        obtain ⟨cl, hcl, hclb⟩ := hicnt 0 (by simp)
        obtain ⟨cr, hcr, hcrb⟩ := hicnt 1 (by simp)
        simp only [List.getElem_cons_zero, List.getElem_cons_succ, ChannelAssignment.bpsOffset, Nat.add_zero] at hcl hcr hclb hcrb
        have hvb : verbatimBits fb.filled_size info.bps < 2 ^ 32 := by
          unfold verbatimBits
          have : fb.filled_size * info.bps ≤ 2 ^ 16 * 24 := Nat.mul_le_mul (by omega) hb.2
          omega
        rw [C09G_try_stereo_coding s3 s1 s2 c fb _ sl sr none 0 info l1 cl cr hst (h2 ▸ hfb) hn h2 hb
          (fun ch hc => hx ch (by omega)) hmax hmo (hlog.sub hsub) ⟨hcl, by omega⟩ ⟨hcr, by omega⟩]
        cases encodeChannels (subCfgOf c.subframe_coding) .midSide info.bps
            [(List.zipWith midSide (chanOf fb 0) (chanOf fb 1)).map (·.1),
             (List.zipWith midSide (chanOf fb 0) (chanOf fb 1)).map (·.2)] 0 l1 with
        | none => intro r h; simp at h
        | some r2 =>
          obtain ⟨msSubs, l2⟩ := r2
          simp only [Option.bind_some]
          match msSubs with
          | [] => intro r h; simp at h
          | [_] => intro r h; simp at h
          | _ :: _ :: _ :: _ => intro r h; simp at h
          | [sm, ss] =>
            intro r h
            simp only [Option.some.injEq] at h
            subst h
            exact shape_of_implHeader fb info _ _ _ (chanOk_choose _ _ _ _ _)
    · rw [if_neg h2]
      intro r h
      simp only [C09Gen.pureM_apply, Option.some.injEq] at h
      subst h
      exact shape_of_implHeader fb info (.Independent info.channels) (.Independent info.channels) _ (by simp [C08Gen.ChanOk]; omega)

/-- the generated block-size code of a `u16` size `1 ≤ n` stands for `n`, and reading it back cannot panic -/
theorem blockSize_fromSize_gen (n : Nat) (h1 : 1 ≤ n) (h2 : n < 2 ^ 16) :
    Gen.Headers.BlockSizeSpec.block_size (Gen.Headers.BlockSizeSpec.from_size n) = some n ∧
    Gen.Headers.BlockSizeSpec.block_size_exact (Gen.Headers.BlockSizeSpec.from_size n) = true := by
  have hfs := C02Hdr.C02H_blockSize_fromSize n (by omega)
  rw [(C02Hdr.C02H_blockSize_fromSize_exact n (by omega)).2 (by omega), if_pos rfl] at hfs
  have hb := (Wrap.fromSize_ok n h1 h2 _ hfs).2
  rw [C02Hdr.C02H_blockSize_blockSize, C02Hdr.bsToGen_ofGen] at hb
  exact ⟨hb, (C02Hdr.C02H_blockSize_range_exact n (by omega)).2⟩

/-- **the frames of the generated `encode_fixed_size_frame`** (this was the named hypothesis `EncoderFramesOk`): under the
hypotheses of `C09G_encode_fixed_size_frame` and a valid oracle log (`OEvent.Ok`), a returned frame has no precomputed bitstream,
a 32-bit frame number, sample number 0, a block-size code standing for the buffer's `filled_size`, `count_bits` that cannot
panic (`FrameFits`), and `count_bits` IS the hand model's `Frame.count` of its image. -/
theorem C03G_encoder_frame_ok (vs : Gen.Coding.FrameBuf → Nat → Gen.Verify.VR) (s1 : List (List Int)) (s2 : List Int)
    (s3 : Gen.Coding.FrameBuf) (c : Gen.Encoder) (fb : Gen.Coding.FrameBuf) (number : Nat) (info : StreamInfo) (log l' : List OEvent)
    (g : Gen.Writer.Frame)
    (hst : StereoBuf s3) (hfb : FbOk fb info.channels) (hn : 1 ≤ fb.filled_size ∧ fb.filled_size < 2 ^ 16)
    (hch : 1 ≤ info.channels ∧ info.channels ≤ 8) (hb : 1 ≤ info.bps ∧ info.bps ≤ 24)
    (hx : ∀ ch, ch < info.channels → ∀ x ∈ chanOf fb ch, SubFrame.inRange info.bps x = true)
    (hmax : c.subframe_coding.prc.max_parameter ≤ 14) (hmo : c.subframe_coding.fixed.max_order + 1 < 2 ^ 64)
    (hrate : info.rate < 2 ^ 32) (hlog : LogFits log) (hlogok : ∀ e ∈ log, e.Ok)
    (hnum : number < 2 ^ 31) (hcn : fb.samples.length / fb.size = info.channels) (hvs : vs fb info.bps = some true)
    (h : encode_fixed_size_frame vs s1 s2 s3 c fb number info log = some (some g, l')) :
    g.precomputed_bitstream = none ∧ g.header.frame_number < 2 ^ 32 ∧ g.header.start_sample_number < 2 ^ 64 ∧
    Gen.Verify.FrameHeader.block_size g.header = fb.filled_size ∧ FrameFits g ∧
    (C08Gen.frameOfGen g).count = some (Gen.Writer.Frame.count_bits g) ∧ C08Gen.FrameOk g := by
  -- the model image
  have himg := C09G_encode_fixed_size_frame vs s1 s2 s3 c fb number info log hst hfb hn hch hb hx hmax hmo hrate hlog hnum hcn hvs
  rw [h] at himg
  cases hef : encodeFrame (subCfgOf c.subframe_coding) (stereoCfgOf c.stereo_coding) (chansOf fb info.channels) info.bps info.rate
      number log with
  | none => simp [hef] at himg
  | some rf =>
    obtain ⟨f, lf⟩ := rf
    simp only [hef, Option.map_some, Option.some.injEq, Prod.mk.injEq] at himg
    obtain ⟨hfg, _⟩ := himg
    -- the value
    unfold encode_fixed_size_frame at h
    have hsz : fb.size ≠ 0 := by have := hfb.2.1; omega
    have hlim : number < (1 <<< 31) % 18446744073709551616 := by
      have : (1 <<< 31) % 18446744073709551616 = 2 ^ 31 := by decide
      omega
    have hfill : fb.filled_size > 0 := by omega
    simp only [vrTry, Gen.Verify.verify_macro_impl, hlim, decide_true, C09Gen.bindM_apply, Gen.Coding.FrameBuf.channels, C09Gen.req_apply, hsz,
      ne_eq, not_false_eq_true, if_true, C09Gen.pureM_apply, Option.bind_some, hcn, hfill, and_self, hvs] at h
    cases her : encode_frame s1 s2 s3 c fb 0 info log with
    | none => simp [her] at h
    | some r =>
      obtain ⟨hp, hbs, hss, _, hcok⟩ := encode_frame_shape s1 s2 s3 c fb info log hst hfb hn hch hb hx hmax hmo hlog r her
      rw [her] at h
      simp only [Option.bind_some] at h
      cases h
      have hm : fb.filled_size % 65536 = fb.filled_size := Nat.mod_eq_of_lt (by omega)
      obtain ⟨hbv, hbe⟩ := blockSize_fromSize_gen fb.filled_size hn.1 hn.2
      -- the sub-frames are the model's: well-formed, with counts, small in sum
      have hclen : (chansOf fb info.channels).length = info.channels := by simp [chansOf]
      have hlen : ∀ cc ∈ chansOf fb info.channels, cc.length = fb.filled_size := by
        intro cc hcc
        simp only [chansOf, List.mem_map, List.mem_range] at hcc
        obtain ⟨k, hk, rfl⟩ := hcc
        exact chanOf_length fb info.channels k hfb hk
      have hxs : ∀ cc ∈ chansOf fb info.channels, ∀ x ∈ cc, SubFrame.inRange info.bps x = true := by
        intro cc hcc
        simp only [chansOf, List.mem_map, List.mem_range] at hcc
        obtain ⟨k, hk, rfl⟩ := hcc
        exact hx k hk
      have hwf := (Extras.encodeFrame_wf _ _ _ _ _ number fb.filled_size log lf f (by rw [hclen]; exact hch) hlen hn hb hxs
        (by simpa [subCfgOf] using hmax) hlogok hef).1
      obtain ⟨htot, hcnt⟩ := C09.C09_frame _ _ _ _ _ number fb.filled_size log lf f hn.1 hlen hef
      have hsubs : f.subframes = r.1.subframes := by rw [← hfg]; rfl
      have hs : ∀ s ∈ r.1.subframes, s.WF ∧ ∃ c, s.count = some c := by
        intro s hs'
        rw [← hsubs] at hs'
        exact ⟨hwf s hs', hcnt s hs'⟩
      have hsum : (r.1.subframes.map cnt).foldl (· + ·) 0 < 2 ^ 40 := by
        rw [← hsubs]
        have h40 : (2 : Nat) ^ 40 = 1099511627776 := by decide
        have hv : verbatimBits fb.filled_size info.bps ≤ 8 + 65536 * 24 := by
          unfold verbatimBits
          have : fb.filled_size * info.bps ≤ 65536 * 24 := Nat.mul_le_mul (by omega) hb.2
          omega
        have : (chansOf fb info.channels).length * verbatimBits fb.filled_size info.bps ≤ 8 * (8 + 65536 * 24) :=
          Nat.mul_le_mul (by rw [hclen]; exact hch.2) hv
        unfold C09.subTotal at htot
        omega
      have hfn : number % 4294967296 < 2 ^ 32 := Nat.mod_lt _ (by decide)
      refine ⟨hp, ?_, ?_, ?_, ⟨?_, ?_⟩, ?_, ⟨hp, ?_, fun sf hsf => (hs sf hsf).1⟩⟩
      · simpa [Gen.Verify.FrameHeader.set_frame_offset, Gen.Verify.FrameHeader.set_frame_number] using hfn
      · simp [Gen.Verify.FrameHeader.set_frame_offset, Gen.Verify.FrameHeader.set_frame_number, hss]
      · simp [Gen.Verify.FrameHeader.block_size, Gen.Verify.FrameHeader.set_frame_offset, Gen.Verify.FrameHeader.set_frame_number,
          hbs, hm, hbv]
      · simp [Gen.Verify.FrameHeader.block_size_exact, Gen.Verify.FrameHeader.set_frame_offset,
          Gen.Verify.FrameHeader.set_frame_number, hbs, hm, hbv, hbe]
      · exact (GenCount.frame_count_exact (g := withNumber r.1 number)
          hp hs hsum).1
      · have hcf : ∃ cf, f.count = some cf := by
          obtain ⟨fbits, _, hc, _⟩ := C09_frame_bits _ _ _ _ _ number fb.filled_size log lf f (by rw [hclen]; exact hch)
            hlen hn hb hxs (by omega) (by simpa [subCfgOf] using hmax) hlogok hef
          exact ⟨_, hc⟩
        obtain ⟨cf, hcf⟩ := hcf
        rw [hfg, hcf]
        rw [← hfg] at hcf
        have := GenCount.frame_count_value (g := withNumber r.1 number) cf hp
          (by simpa [withNumber, Gen.Verify.FrameHeader.set_frame_offset, Gen.Verify.FrameHeader.set_frame_number] using hfn)
          (by simp [withNumber, Gen.Verify.FrameHeader.set_frame_offset, Gen.Verify.FrameHeader.set_frame_number, hss]) hs hsum hcf
        exact congrArg some this.symm
      · simpa [Gen.Verify.FrameHeader.set_frame_offset, Gen.Verify.FrameHeader.set_frame_number] using hcok

end shape

/-! ### the driver on a contract-abiding source against the model's frame loop -/

section contract
open Total Strict

/-- what the driver needs of the buffer a source delivered for the planar block `b` (`ch` channels of `bps`-bit samples): the
channels read back are `b`, the Rust shape invariant, a non-empty block below `2^16`, samples inside the width, and
`verify_samples` accepting. -/
structure GoodFb (fb : Gen.Source.FrameBuf) (b : List (List Int)) (ch bps : Nat) : Prop where
  chans : C09Gen.chansOf (fbToCoding fb) ch = b
  ok : C09Gen.FbOk (fbToCoding fb) ch
  fill : 1 ≤ fb.filled_size ∧ fb.filled_size < 2 ^ 16
  range : ∀ c, c < ch → ∀ x ∈ C09Gen.chanOf (fbToCoding fb) c, SubFrame.inRange bps x = true
  nch : fb.samples.length / fb.size = ch
  vs : verifySamples (fbToCoding fb) bps = some true

/-- **the source contract** (explicit, as a relation): from state `src` with the `(FrameBuf, Context)` pair `fbc`, the source
delivers the planar blocks `blocks` one `read_samples` at a time — each call returns the block's length, leaves a `GoodFb`
holding the block, and advances the context by the block's little-endian bytes, its length and one frame — and then returns 0
without touching the context. -/
inductive Delivers {T : Type} (ops : SourceOps T) (bs ch bps : Nat) :
    T → (Gen.Source.FrameBuf × Gen.Source.Context) → List (List (List Int)) → T → (Gen.Source.FrameBuf × Gen.Source.Context) → Prop
  | done (src src' : T) (fbc fbc' : Gen.Source.FrameBuf × Gen.Source.Context) :
      ops.read_samples src bs fbc = some (some 0, src', fbc') → fbc'.2 = fbc.2 → Delivers ops bs ch bps src fbc [] src' fbc'
  | block (src src' srcf : T) (fbc fbc' fbcf : Gen.Source.FrameBuf × Gen.Source.Context) (b : List (List Int))
      (rest : List (List (List Int))) (k : Nat) :
      ops.read_samples src bs fbc = some (some k, src', fbc') → k ≠ 0 → k = (b.headD []).length →
      fbc'.2 = { fbc.2 with md5 := fbc.2.md5 ++ md5Input bps (Rfc.interleave b), sample_count := fbc.2.sample_count + k,
                            frame_count := fbc.2.frame_count + 1 } →
      GoodFb fbc'.1 b ch bps →
      Delivers ops bs ch bps src' fbc' rest srcf fbcf → Delivers ops bs ch bps src fbc (b :: rest) srcf fbcf

/-- the stream after `add_frame` for each frame of `gs`: STREAMINFO `foldInfo i gs`, the frames appended -/
def streamAfter (st : Gen.Writer.Stream) (i : StreamInfo) (gs : List Gen.Writer.Frame) : Gen.Writer.Stream :=
  { st with stream_info := { st.stream_info with data := .StreamInfo (foldInfo i gs) }, frames := st.frames ++ gs }

theorem stream_set_same (st : Gen.Writer.Stream) (i : StreamInfo) (hi : st.stream_info.data = .StreamInfo i) :
    streamAfter st i [] = st := by
  obtain ⟨⟨l, d⟩, m, f⟩ := st
  simp only at hi
  subst hi
  simp [streamAfter, foldInfo]

theorem streamAfter_cons (st : Gen.Writer.Stream) (i : StreamInfo) (g : Gen.Writer.Frame) (gs : List Gen.Writer.Frame) :
    streamAfter st i (g :: gs) = streamAfter (streamAfter st i [g]) (foldInfo i [g]) gs := by
  simp [streamAfter, foldInfo]

theorem foldInfo_one (i : StreamInfo) (g : Gen.Writer.Frame) :
    foldInfo i [g] = i.addFrameCast (Gen.Verify.FrameHeader.block_size g.header) (Gen.Writer.Frame.count_bits g) := rfl

theorem stream_info_of (st : Gen.Writer.Stream) (i : StreamInfo) (hi : st.stream_info.data = .StreamInfo i) :
    Gen.Verify.Stream.stream_info_exact st = true ∧ Gen.Verify.Stream.stream_info st = i := by
  unfold Gen.Verify.Stream.stream_info_exact Gen.Verify.Stream.stream_info
  rw [hi]
  exact ⟨rfl, rfl⟩

/-- **the frame loop of the generated driver = the model's `encodeFrames`** on a contract-abiding source: if the model's frame
loop over the delivered blocks (numbered from the context's frame count) returns frames `fs` and log `logf`, the generated `loop`
has a run that ends in the contract's final source / buffer / context, with the same remaining log, having added frames `gs`
whose model images are exactly `fs`, one per block, each with the block's length as block size, and STREAMINFO advanced by
`update_frame_info` for each (`foldInfo`).  Every configuration (the bounds of C09Gen), every storage content, every oracle log. -/
theorem C03G_frames_contract {T : Type} (ops : SourceOps T) (s1 : Nat → List (List Int)) (s2 : Nat → List Int)
    (s3 : Nat → Gen.Coding.FrameBuf) (c : Gen.Encoder) (bs ch bps rate : Nat)
    (hst : ∀ n, C09Gen.StereoBuf (s3 n)) (hch : 1 ≤ ch ∧ ch ≤ 8) (hb : 1 ≤ bps ∧ bps ≤ 24)
    (hmax : c.subframe_coding.prc.max_parameter ≤ 14) (hmo : c.subframe_coding.fixed.max_order + 1 < 2 ^ 64)
    (hrate : rate < 2 ^ 32)
    (src srcf : T) (fbc fbcf : Gen.Source.FrameBuf × Gen.Source.Context) (blocks : List (List (List Int)))
    (hd : Delivers ops bs ch bps src fbc blocks srcf fbcf) :
    ∀ (st : Gen.Writer.Stream) (i : StreamInfo) (log logf : List OEvent) (fs : List Frame),
      st.stream_info.data = .StreamInfo i → i.channels = ch → i.bps = bps → i.rate = rate →
      encodeFrames (subCfgOf c.subframe_coding) (stereoCfgOf c.stereo_coding) bps rate blocks fbc.2.frame_count log = some (fs, logf) →
      C09Gen.LogFits log → (∀ e ∈ log, e.Ok) → fbc.2.frame_count + blocks.length < 2 ^ 31 →
      i.total + 65535 * blocks.length < 2 ^ 64 →
      ∃ gs : List Gen.Writer.Frame,
        Run ops s1 s2 s3 c bs (src, st, fbc) log (srcf, streamAfter st i gs, fbcf) logf gs ∧
        gs.map C08Gen.frameOfGen = fs ∧
        gs.map (fun g => Gen.Verify.FrameHeader.block_size g.header) = blocks.map (fun b => (b.headD []).length) ∧
        (∀ g ∈ gs, g.precomputed_bitstream = none ∧ g.header.frame_number < 2 ^ 32 ∧ g.header.start_sample_number < 2 ^ 64 ∧
          FrameFits g ∧ (C08Gen.frameOfGen g).count = some (Gen.Writer.Frame.count_bits g) ∧ C08Gen.FrameOk g) := by
  induction hd with
  | done src src' fbc fbc' hr hctx =>
    intro st i log logf fs hi _ _ _ henc _ _ _ _
    simp only [encodeFrames, Option.some.injEq, Prod.mk.injEq] at henc
    obtain ⟨rfl, rfl⟩ := henc
    refine ⟨[], ?_, rfl, rfl, by simp⟩
    rw [stream_set_same st i hi]
    exact Run.stop _ _ _ _ _ _ hr
  | block src src' srcf fbc fbc' fbcf b rest k hr hk hkb hctx hgood _ ih =>
    intro st i log logf fs hi hic hib hir henc hlog hlogok hnum htot
    have hlen : (b :: rest).length = rest.length + 1 := rfl
    rw [hlen] at hnum htot
    -- the model's step
    simp only [encodeFrames, Option.bind_eq_bind] at henc
    cases hef : encodeFrame (subCfgOf c.subframe_coding) (stereoCfgOf c.stereo_coding) b bps rate fbc.2.frame_count log with
    | none => simp [hef] at henc
    | some r =>
      obtain ⟨f, l1⟩ := r
      simp only [hef, Option.bind_some] at henc
      cases hefs : encodeFrames (subCfgOf c.subframe_coding) (stereoCfgOf c.stereo_coding) bps rate rest (fbc.2.frame_count + 1) l1 with
      | none => simp [hefs] at henc
      | some r2 =>
        obtain ⟨fs', l2⟩ := r2
        simp only [hefs, Option.bind_some, Option.some.injEq, Prod.mk.injEq] at henc
        obtain ⟨rfl, rfl⟩ := henc
        -- the frame number the driver passes
        have hfc : fbc'.2.frame_count = fbc.2.frame_count + 1 := by rw [hctx]
        have hnumc : Gen.Source.Context.current_frame_number fbc'.2 = some (some fbc.2.frame_count) := by
          unfold Gen.Source.Context.current_frame_number
          simp [hfc, Gen.Source.req]
        obtain ⟨hex, hsi⟩ := stream_info_of st i hi
        -- the generated encoder on the delivered buffer
        have hgen := C09Gen.C09G_encode_fixed_size_frame verifySamples (s1 fbc.2.frame_count) (s2 fbc.2.frame_count)
          (s3 fbc.2.frame_count) c (fbToCoding fbc'.1) fbc.2.frame_count i log (hst _) (hic ▸ hgood.ok) hgood.fill (hic ▸ hch)
          (hib ▸ hb) (by rw [hic, hib]; exact hgood.range) hmax hmo (hir ▸ hrate) hlog (by omega)
          (by rw [hic]; exact hgood.nch) (by rw [hib]; exact hgood.vs)
        rw [hic, hib, hir, hgood.chans, hef] at hgen
        cases hg : Gen.Coding.encode_fixed_size_frame verifySamples (s1 fbc.2.frame_count) (s2 fbc.2.frame_count)
            (s3 fbc.2.frame_count) c (fbToCoding fbc'.1) fbc.2.frame_count i log with
        | none => simp [hg] at hgen
        | some rg =>
          obtain ⟨og, lg⟩ := rg
          simp only [hg, Option.map_some, Option.some.injEq, Prod.mk.injEq] at hgen
          obtain ⟨hog, rfl⟩ := hgen
          cases og with
          | none => simp at hog
          | some g =>
            simp only [Option.map_some, Option.some.injEq] at hog
            obtain ⟨hp, hfn, hss, hbsz, hfit, hcnt, hfok⟩ := C03G_encoder_frame_ok verifySamples (s1 fbc.2.frame_count)
              (s2 fbc.2.frame_count) (s3 fbc.2.frame_count) c (fbToCoding fbc'.1) fbc.2.frame_count i log lg g (hst _)
              (hic ▸ hgood.ok) hgood.fill (hic ▸ hch) (hib ▸ hb) (by rw [hic, hib]; exact hgood.range) hmax hmo (hir ▸ hrate) hlog
              hlogok (by omega) (by rw [hic]; exact hgood.nch) (by rw [hib]; exact hgood.vs) hg
            have hm : Gen.Verify.FrameHeader.block_size g.header % 65536 < 65536 := Nat.mod_lt _ (by decide)
            have hu := C03G_update_frame_info i g hfit.1 hfit.2 (by omega)
            have hadd : Stream.add_frame st g = some (streamAfter st i [g]) := by
              rw [C03G_add_frame st i _ g hi hu]; rfl
            have htot' := addFrameCast_total i (Gen.Verify.FrameHeader.block_size g.header) (Gen.Writer.Frame.count_bits g)
            have hsub := encodeFrame_sub _ _ _ _ _ _ _ _ _ hef
            obtain ⟨gs, hrun, hmap, hsz, hall⟩ := ih (streamAfter st i [g]) (foldInfo i [g]) lg l2 fs' rfl
              (by simpa [foldInfo_one, StreamInfo.addFrameCast] using hic)
              (by simpa [foldInfo_one, StreamInfo.addFrameCast] using hib) (by simpa [foldInfo_one, StreamInfo.addFrameCast] using hir)
              (by rw [hfc]; exact hefs) (hlog.sub hsub) (fun e he => hlogok e (hsub e he)) (by rw [hfc]; omega)
              (by rw [foldInfo_one]; omega)
            refine ⟨g :: gs, ?_, by simp [hog, hmap], ?_, ?_⟩
            · rw [streamAfter_cons]
              exact Run.step _ _ _ _ _ _ k _ g _ _ _ _ _ hr hk hnumc hex (by rw [hsi]; exact hg) hadd hrun
            · simp only [List.map_cons, hsz, hbsz, List.cons.injEq, and_true]
              have h1 := C09Gen.chanOf_length (fbToCoding fbc'.1) ch 0 hgood.ok (by omega)
              have h2 : b.headD [] = C09Gen.chanOf (fbToCoding fbc'.1) 0 := by
                rw [← hgood.chans]
                unfold C09Gen.chansOf
                cases hc : ch with
                | zero => omega
                | succ n => simp [List.range_succ_eq_map]
              rw [h2, h1]
            · intro x hx
              simp only [List.mem_cons] at hx
              rcases hx with rfl | hx
              · exact ⟨hp, hfn, hss, hfit, hcnt, hfok⟩
              · exact hall x hx


/-- **what a contract-abiding source leaves in the context** (C03): the bytes hashed are the little-endian bytes of the
interleaved blocks, concatenated in order; the sample count is the sum of the block lengths; one frame per block. -/
theorem C03G_delivers_ctx {T : Type} (ops : SourceOps T) (bs ch bps : Nat) (src srcf : T)
    (fbc fbcf : Gen.Source.FrameBuf × Gen.Source.Context) (blocks : List (List (List Int)))
    (hd : Delivers ops bs ch bps src fbc blocks srcf fbcf) :
    fbcf.2.md5 = fbc.2.md5 ++ md5Input bps (blocks.flatMap Rfc.interleave) ∧
    fbcf.2.sample_count = fbc.2.sample_count + (blocks.map fun b => (b.headD []).length).sum ∧
    fbcf.2.frame_count = fbc.2.frame_count + blocks.length ∧
    fbcf.2.bytes_per_sample = fbc.2.bytes_per_sample ∧ fbcf.2.channels = fbc.2.channels := by
  induction hd with
  | done src src' fbc fbc' hr hctx => rw [hctx]; simp [md5Input]
  | block src src' srcf fbc fbc' fbcf b rest k hr hk hkb hctx hgood _ ih =>
    obtain ⟨h1, h2, h3, h4, h5⟩ := ih
    rw [hctx] at h1 h2 h3 h4 h5
    simp only at h1 h2 h3 h4 h5
    refine ⟨?_, ?_, ?_, h4, h5⟩
    · rw [h1, List.flatMap_cons, C03.md5Input_append, List.append_assoc]
    · rw [h2, List.map_cons, List.sum_cons, hkb]; omega
    · rw [h3, List.length_cons]; omega

/-- **the whole driver on a contract-abiding source**: accepted arguments, the source delivers `blocks`, the model's frame loop
over `blocks` succeeds with frames `fs` and remaining log `logf`.  Then the generated driver returns `Ok(stream)` with the same
remaining log, where the stream's frames have exactly the model images `fs` (one per block, block sizes = block lengths) and its
STREAMINFO is `finishInfo` of `foldInfo` (= `update_frame_info` per frame): block sizes `bs`, the digest of the little-endian
bytes of all interleaved blocks, `len_hint` or else the number of samples delivered. -/
theorem C03G_driver_contract {T : Type} (ops : SourceOps T) (featPar : Bool) (par : Gen.Encoder → T → Nat → M (Option Gen.Writer.Stream))
    (md5f : List Nat → List Nat) (s1 : Nat → List (List Int)) (s2 : Nat → List Int) (s3 : Nat → Gen.Coding.FrameBuf)
    (c : Gen.Encoder) (src srcf : T) (bs : Nat) (log logf : List OEvent) (i0 : StreamInfo) (m0 : FlacVerif.FrameBuf)
    (fbcf : Gen.Source.FrameBuf × Gen.Source.Context) (lh : Option Nat) (blocks : List (List (List Int))) (fs : List Frame)
    (hmt : c.multithread = false)
    (hnew : FlacVerif.StreamInfo.new (ops.sample_rate src) (ops.channels src) (ops.bits_per_sample src) = some i0)
    (hfb : FlacVerif.FrameBuf.withSize (ops.channels src) bs = some m0)
    (hst : ∀ n, C09Gen.StereoBuf (s3 n)) (hb : 1 ≤ ops.bits_per_sample src ∧ ops.bits_per_sample src ≤ 24)
    (hmax : c.subframe_coding.prc.max_parameter ≤ 14) (hmo : c.subframe_coding.fixed.max_order + 1 < 2 ^ 64)
    (hd : Delivers ops bs (ops.channels src) (ops.bits_per_sample src) src
      (C14Gen.ofModel m0 [], ⟨[], (ops.bits_per_sample src + 7) / 8, ops.channels src, 0, 0⟩) blocks srcf fbcf)
    (henc : encodeFrames (subCfgOf c.subframe_coding) (stereoCfgOf c.stereo_coding) (ops.bits_per_sample src) (ops.sample_rate src)
      blocks 0 log = some (fs, logf))
    (hlog : C09Gen.LogFits log) (hlogok : ∀ e ∈ log, e.Ok) (hnb : blocks.length < 2 ^ 31) (hlh : ops.len_hint srcf = some lh)
    (hmd : ∀ l, (md5f l).length = 16) :
    ∃ gs : List Gen.Writer.Frame, gs.map C08Gen.frameOfGen = fs ∧
      gs.map (fun g => Gen.Verify.FrameHeader.block_size g.header) = blocks.map (fun b => (b.headD []).length) ∧
      (∀ g ∈ gs, (C08Gen.frameOfGen g).count = some (Gen.Writer.Frame.count_bits g)) ∧ (∀ g ∈ gs, C08Gen.FrameOk g) ∧
      ∀ fuel, blocks.length < fuel →
        encode_with_fixed_block_size featPar ops par md5f s1 s2 s3 fuel c src bs log =
          some (some ⟨⟨true, .StreamInfo (finishInfo (foldInfo { i0 with minBlock := bs, maxBlock := bs } gs) bs
              (md5f (md5Input (ops.bits_per_sample src) (blocks.flatMap Rfc.interleave)))
              (lh.getD ((blocks.map fun b => (b.headD []).length).sum)))⟩, [], gs⟩, logf) := by
  obtain ⟨_, hi0⟩ := streamInfo_new_bps _ _ _ _ hnew
  have hch : 1 ≤ ops.channels src ∧ ops.channels src ≤ 8 := by
    unfold FlacVerif.FrameBuf.withSize at hfb
    split at hfb
    · rename_i h; exact ⟨h.1, h.2.1⟩
    · simp at hfb
  have hrate : ops.sample_rate src < 2 ^ 32 := by
    unfold FlacVerif.StreamInfo.new at hnew
    split at hnew
    · rename_i h; omega
    · simp at hnew
  obtain ⟨gs, hrun, hmap, hsz, hall⟩ := C03G_frames_contract ops s1 s2 s3 c bs _ _ _ hst hch hb hmax hmo hrate src srcf _ fbcf
    blocks hd ⟨⟨true, .StreamInfo { i0 with minBlock := bs, maxBlock := bs }⟩, [], []⟩ { i0 with minBlock := bs, maxBlock := bs }
    log logf fs rfl (by subst hi0; rfl) (by subst hi0; rfl) (by subst hi0; rfl) henc hlog hlogok (by simpa using hnb)
    (by subst hi0; simp [StreamInfo.empty]; omega)
  obtain ⟨hmd5, hcnt, _, _, _⟩ := C03G_delivers_ctx ops bs _ _ src srcf _ fbcf blocks hd
  have hlen : gs.length = blocks.length := by
    have := congrArg List.length hsz
    simpa using this
  refine ⟨gs, hmap, hsz, fun g hg => (hall g hg).2.2.2.2.1, fun g hg => (hall g hg).2.2.2.2.2, ?_⟩
  intro fuel hf
  have hfm : ∀ (l : List Gen.Writer.Frame) (j : StreamInfo), (foldInfo j l).md5 = j.md5 := by
    intro l
    induction l with
    | nil => intro j; rfl
    | cons g l ih => intro j; simp only [foldInfo, List.foldl_cons] at ih ⊢; rw [ih]; rfl
  have h := C03G_driver_run ops featPar par md5f s1 s2 s3 c src srcf bs log logf i0 (foldInfo { i0 with minBlock := bs, maxBlock := bs } gs)
    m0 (streamAfter ⟨⟨true, .StreamInfo { i0 with minBlock := bs, maxBlock := bs }⟩, [], []⟩ { i0 with minBlock := bs, maxBlock := bs } gs)
    fbcf.1 fbcf.2 lh gs hmt hnew hfb hrun rfl hlh (by rw [hfm, hmd]; subst hi0; simp [StreamInfo.empty]) fuel (by omega)
  rw [h, hmd5, hcnt]
  simp [streamAfter, Stream.stream_info_mut_set]


/-- the hand-model image of a generated stream without further metadata blocks -/
def streamImage (g : Gen.Writer.Stream) : Stream :=
  ⟨Gen.Verify.Stream.stream_info g, [], g.frames.map C08Gen.frameOfGen⟩

theorem mapM_frame_count (gs : List Gen.Writer.Frame)
    (h : ∀ g ∈ gs, (C08Gen.frameOfGen g).count = some (Gen.Writer.Frame.count_bits g)) :
    (gs.map C08Gen.frameOfGen).mapM Frame.count = some (gs.map Gen.Writer.Frame.count_bits) := by
  induction gs with
  | nil => rfl
  | cons g gs ih =>
    rw [List.map_cons, List.mapM_cons, h g (by simp), ih (fun x hx => h x (by simp [hx]))]
    rfl

/-- **the generated driver on a contract-abiding source = the model's `encodeStream`** (success direction: the model's frame
loop returns): the source delivers `blocksOf bs chans`, and `len_hint` (or else the number of samples delivered) is the true
length.  Same stream (image: STREAMINFO, no further metadata, the frames' images), same remaining log.  NOT covered: the
failure direction (the generated driver panics / returns `Err` exactly where the model returns `none`). -/
theorem C03G_driver_contract_model_success {T : Type} (ops : SourceOps T) (featPar : Bool)
    (par : Gen.Encoder → T → Nat → M (Option Gen.Writer.Stream))
    (md5f : List Nat → List Nat) (s1 : Nat → List (List Int)) (s2 : Nat → List Int) (s3 : Nat → Gen.Coding.FrameBuf)
    (c : Gen.Encoder) (src srcf : T) (bs : Nat) (log logf : List OEvent) (i0 : StreamInfo) (m0 : FlacVerif.FrameBuf)
    (fbcf : Gen.Source.FrameBuf × Gen.Source.Context) (lh : Option Nat) (chans : List (List Int)) (total : Nat) (fs : List Frame)
    (hmt : c.multithread = false)
    (hnew : FlacVerif.StreamInfo.new (ops.sample_rate src) (ops.channels src) (ops.bits_per_sample src) = some i0)
    (hfb : FlacVerif.FrameBuf.withSize (ops.channels src) bs = some m0)
    (hst : ∀ n, C09Gen.StereoBuf (s3 n)) (hb : 1 ≤ ops.bits_per_sample src ∧ ops.bits_per_sample src ≤ 24)
    (hmax : c.subframe_coding.prc.max_parameter ≤ 14) (hmo : c.subframe_coding.fixed.max_order + 1 < 2 ^ 64)
    (hcl : chans.length = ops.channels src) (hlen : ∀ cc ∈ chans, cc.length = total)
    (hd : Delivers ops bs (ops.channels src) (ops.bits_per_sample src) src
      (C14Gen.ofModel m0 [], ⟨[], (ops.bits_per_sample src + 7) / 8, ops.channels src, 0, 0⟩) (blocksOf bs chans) srcf fbcf)
    (henc : encodeFrames (subCfgOf c.subframe_coding) (stereoCfgOf c.stereo_coding) (ops.bits_per_sample src) (ops.sample_rate src)
      (blocksOf bs chans) 0 log = some (fs, logf))
    (hlog : C09Gen.LogFits log) (hlogok : ∀ e ∈ log, e.Ok) (hnb : (blocksOf bs chans).length < 2 ^ 31)
    (hlh : ops.len_hint srcf = some lh)
    (htot : lh.getD (((blocksOf bs chans).map fun b => (b.headD []).length).sum) = (chans.headD []).length)
    (hmd : ∀ l, (md5f l).length = 16) :
    ∀ fuel, (blocksOf bs chans).length < fuel →
      (encode_with_fixed_block_size featPar ops par md5f s1 s2 s3 fuel c src bs log).map (fun r => (r.1.map streamImage, r.2)) =
        (encodeStream md5f (subCfgOf c.subframe_coding) (stereoCfgOf c.stereo_coding) bs chans (ops.bits_per_sample src)
          (ops.sample_rate src) log).map (fun r => (some r.1, r.2)) := by
  obtain ⟨_, hi0⟩ := streamInfo_new_bps _ _ _ _ hnew
  have hbs := withSize_bs _ _ _ hfb
  have hch1 : 1 ≤ chans.length := by
    unfold FlacVerif.FrameBuf.withSize at hfb
    split at hfb
    · rename_i h; omega
    · simp at hfb
  have hbs1 : 1 ≤ bs := by
    unfold verifyBlockSize at hbs; simp at hbs; omega
  obtain ⟨gs, hmap, hsz, hall, hrun⟩ : ∃ gs : List Gen.Writer.Frame, gs.map C08Gen.frameOfGen = fs ∧
      gs.map (fun g => Gen.Verify.FrameHeader.block_size g.header) = (blocksOf bs chans).map (fun b => (b.headD []).length) ∧
      (∀ g ∈ gs, (C08Gen.frameOfGen g).count = some (Gen.Writer.Frame.count_bits g)) ∧
      ∀ fuel, (blocksOf bs chans).length < fuel →
        encode_with_fixed_block_size featPar ops par md5f s1 s2 s3 fuel c src bs log =
          some (some ⟨⟨true, .StreamInfo (finishInfo (foldInfo { i0 with minBlock := bs, maxBlock := bs } gs) bs
              (md5f (md5Input (ops.bits_per_sample src) ((blocksOf bs chans).flatMap Rfc.interleave)))
              (lh.getD (((blocksOf bs chans).map fun b => (b.headD []).length).sum)))⟩, [], gs⟩, logf) := by
    obtain ⟨gs, h1, h2, h3, _, h5⟩ := C03G_driver_contract ops featPar par md5f s1 s2 s3 c src srcf bs log logf i0 m0 fbcf lh
      (blocksOf bs chans) fs hmt hnew hfb hst hb hmax hmo hd henc hlog hlogok hnb hlh hmd
    exact ⟨gs, h1, h2, h3, h5⟩
  intro fuel hf
  rw [hrun fuel hf]
  unfold encodeStream
  simp only [henc, Option.bind_eq_bind, Option.bind_some, ← hmap, mapM_frame_count gs hall, Option.map_some]
  rw [htot, Wrap.interleave_blocks bs chans total hbs1 hch1 hlen]
  have hz : ((blocksOf bs chans).map fun b => (b.headD []).length).zip (gs.map Gen.Writer.Frame.count_bits) = gs.map sizeCount := by
    rw [← hsz, List.zip_map']
    rfl
  rw [hz]
  subst hi0
  simp [streamImage, Gen.Verify.Stream.stream_info, assembleInfo, finishInfo, foldInfo, List.foldl_map, hcl, StreamInfo.empty]

end contract

/-! ### examples: the hypotheses are satisfiable -/

example : FrameFits C08Gen.exFrame := by decide

/-- two frames added to a fresh stereo stream: STREAMINFO = `foldl addFrameCast`, both frames stored -/
example : [C08Gen.exFrame, C08Gen.exFrame].foldlM Stream.add_frame (Stream.with_stream_info (StreamInfo.empty 44100 2 16)) =
    some ⟨⟨true, .StreamInfo (((StreamInfo.empty 44100 2 16).addFrameCast 8 208).addFrameCast 8 208)⟩, [],
      [C08Gen.exFrame, C08Gen.exFrame]⟩ :=
  C03G_add_frames [C08Gen.exFrame, C08Gen.exFrame] _ (StreamInfo.empty 44100 2 16) rfl
    (by intro g hg; simp at hg; subst hg; decide) (by decide)

/-- the book-keeping of a two-frame stream with block size 4096 is the model's `assembleInfo` -/
example : ∃ i1 i2 i3, Gen.Verify.StreamInfo.set_block_sizes (StreamInfo.empty 44100 2 16) 4096 4096 = some (true, i1) ∧
    [C08Gen.exFrame, C08Gen.exFrame].foldlM (fun j g => StreamInfo.update_frame_info j g) i1 = some i2 ∧
    Gen.Verify.StreamInfo.set_block_sizes i2 4096 4096 = some (true, i3) ∧
    (StreamInfo.set_md5_digest i3 (List.replicate 16 7)).map (fun j => Gen.Verify.StreamInfo.set_total_samples j 16) =
      some (assembleInfo 44100 2 16 4096 [(8, 208), (8, 208)] 16 (List.replicate 16 7)) :=
  C03G_assemble 44100 2 16 4096 [C08Gen.exFrame, C08Gen.exFrame] 16 (List.replicate 16 7) (by decide)
    (by intro g hg; simp at hg; subst hg; decide) (by decide) (by decide)

/-- the generated driver on an empty stereo 16-bit `MemSource`, block size 32, any log and storage contents -/
example (featPar : Bool) (par : Gen.Encoder → Gen.Source.MemSource → Nat → M (Option Gen.Writer.Stream)) (s1 : Nat → List (List Int))
    (s2 : Nat → List Int) (s3 : Nat → Gen.Coding.FrameBuf) (log : List OEvent) :
    encode_with_fixed_block_size featPar memOps par (fun _ => List.replicate 16 0) s1 s2 s3 1 { Gen.Encoder.default true with multithread := false }
      (Gen.Source.MemSource.from_samples [] 2 16 44100) 32 log =
    some (some ⟨⟨true, .StreamInfo (assembleInfo 44100 2 16 32 [] 0 (List.replicate 16 0))⟩, [], []⟩, log) :=
  C03G_driver_mem_empty featPar par _ s1 s2 s3 _ 2 16 44100 32 0 log (StreamInfo.empty 44100 2 16)
    ⟨List.replicate (32 * 2) 0, 32, 2, 0⟩ rfl (by decide) (by decide) (by decide)


/-- the conclusion of `C03G_encoder_frame_ok` (shape part) on a concrete frame (stereo, 8 samples, LPC + constant sub-frame)
and a buffer with `filled_size = 8` -/
example : C08Gen.exFrame.precomputed_bitstream = none ∧ C08Gen.exFrame.header.frame_number < 2 ^ 32 ∧
    C08Gen.exFrame.header.start_sample_number < 2 ^ 64 ∧
    Gen.Verify.FrameHeader.block_size C08Gen.exFrame.header = (⟨List.replicate 16 0, 8, 8, []⟩ : Gen.Coding.FrameBuf).filled_size ∧
    FrameFits C08Gen.exFrame := by decide

/-- rejected arguments (9 channels; block size 16): `Err`, nothing consumed -/
example : encodeStreamArgsOk 4096 9 16 44100 = false ∧ encodeStreamArgsOk 16 2 16 44100 = false ∧
    encodeStreamArgsOk 4096 2 16 44100 = true := by decide

end C03Gen
end FlacVerif
