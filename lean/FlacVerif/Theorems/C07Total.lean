/-
C07, second half — "Every accepted configuration encodes every valid input without panicking."

The functional encoder (`Model/Encode.lean`, `Model/EncodeStream.lean`) returns `none` at a panic site of
the Rust code (overflow-checked arithmetic, `assert!`, `expect`) or when the oracle log is exhausted or
ill-shaped.  `Total.FramesLogOk` says the log has the SHAPE the encoder consumes for this input (the `est`
events of the `ApproxEnt` fixed stage, then the `qlpc` event of the LPC stage, sub-frame after sub-frame,
the two extra sub-frames of the stereo trial included), so that `none` can only mean a panic site.  The
theorems below say: with a log of the right shape whose parameter sets satisfy `OEvent.Ok` (in particular: at
most `maxLpcOrder = 24` coefficients, the capacity of the LPC warm-up vector — a panic site of the code and of the
model, `C07_lpcCandidate_over_capacity`), there is none.

Nothing else is asked of the quantised LPC parameter sets (the former hypothesis `LpcSafe` is gone): under
its new guard `maxabs·(Σ|coef| + 1) < i32::MAX` the checked `i32` path of `compute_error` never overflows
(`C07_computeError32_total`), the `i64` path reports values that are not FLAC residuals through its flag
(`C07_computeError_flag`), and `estimated_qlpc` drops the candidate in that case (`C07_lpcCandidate_total`).
`C07_i32min_dropped`, `C07_i32min_16bit_dropped` and `C07_sub_overflow_dropped` revisit the witnesses on
which the code before the fix reached a panic site (`Total.computeErrorOld` is that old dispatch): the
fixed `compute_error` returns with flag `false` on each of them and `encode_subframe` returns a sub-frame.

Property theorems and non-vacuity examples only; the proofs live in `FlacVerif/Lemmas/Total*.lean`.
-/
import FlacVerif.Lemmas.TotalStream
import FlacVerif.Theorems.C07
import FlacVerif.Theorems.C01Strict
namespace FlacVerif
open Total

/-! ### `compute_error` -/

/-- **The checked `i32` path never overflows.** Under the guard `maxabs(signal)·(Σ|coef| + 1) < i32::MAX`
of `compute_error` — for ANY coefficients, shift and signal; no hypothesis on the samples is needed, the
guard bounds them — no product, no partial sum of the accumulator and no final subtraction
`x[t] - (acc >> shift)` leaves the `i32` range, at any position `t` (warm-up positions included):
`compute_error_impl::<i32>` returns the exact values, and every exact error is smaller in absolute value
than `2^31 - 1` (so none is `i32::MIN`). -/
theorem C07_computeError32_total (coefs : List Int) (shift : Nat) (xs : List Int)
    (hg : (xs.foldl (fun m x => max m x.natAbs) 0) * ((coefs.foldl (fun s c => s + c.natAbs) 0) + 1) < 2 ^ 31 - 1) :
    computeError32 coefs shift xs =
      some ((List.range xs.length).map fun t => if t < coefs.length then 0 else Strict.errE coefs shift xs t) ∧
    ∀ t, (Strict.errE coefs shift xs t).natAbs < 2 ^ 31 - 1 :=
  computeError32_total coefs shift xs hg

/-- **`compute_error` never panics**, for ANY coefficients, shift and signal; its buffer has one entry per
sample; and when its flag is `true` every entry lies strictly inside `(-2^31, 2^31)` — `encode_signbit`
never meets `i32::MIN` — and the entries after the warm-up are the exact LPC residual. -/
theorem C07_computeError_total (coefs : List Int) (shift : Nat) (xs : List Int) :
    ∃ errors fits, computeError coefs shift xs = some (errors, fits) ∧ errors.length = xs.length ∧
      (fits = true → (∀ e ∈ errors, -(2 ^ 31 : Int) < e ∧ e < (2 ^ 31 : Int)) ∧
        errors.drop coefs.length = lpcResidual coefs shift xs) :=
  computeError_total coefs shift xs

/-- **The flag is exact**: it is `true` iff every value of the exact LPC residual lies in
`-(2^31-1) ..= 2^31-1`, the range of FLAC residuals (always, on the checked `i32` path). -/
theorem C07_computeError_flag (coefs : List Int) (shift : Nat) (xs errors : List Int) (fits : Bool)
    (h : computeError coefs shift xs = some (errors, fits)) :
    fits = true ↔ ∀ e ∈ lpcResidual coefs shift xs, e.natAbs ≤ 2 ^ 31 - 1 :=
  computeError_flag_iff coefs shift xs errors fits h

/-- **The LPC stage never panics.** For a block of `64 ≤ n < 2^16` samples and ANY parameter set of at most
`maxLpcOrder = 24` coefficients (`qlpc::MAX_ORDER`, the capacity of the warm-up vector of an `Lpc` sub-frame),
`estimated_qlpc` (`compute_error`, Rice parameter search with `encode_signbit`, residual construction, warm-up
vector) consumes its `qlpc` event and returns; it returns a candidate iff every value of the exact
LPC residual is a FLAC residual, and drops the candidate otherwise. (Replaces `C07_LpcSafe_exact`.) -/
theorem C07_lpcCandidate_total (cfg : SubCfg) (xs : List Int) (bps : Nat) (c : List Int) (s : Int) (p : Nat)
    (rest : List OEvent) (hn : 64 ≤ xs.length) (hlen : xs.length < 2 ^ 16) (hc : c.length ≤ maxLpcOrder) :
    ∃ f, lpcCandidate cfg xs bps (.qlpc c s p :: rest) = some (f, rest) ∧
      (f.isSome = true ↔ ∀ e ∈ lpcResidual c s.toNat xs, e.natAbs ≤ 2 ^ 31 - 1) :=
  lpcCandidate_total cfg xs bps c s p rest hn hlen hc

/-- **The bound 24 is exact**: with more than `maxLpcOrder = 24` coefficients (a parameter set `OEvent.Ok` excludes; the
quantiser returns at most `lpc_order ≤ 24` coefficients under a verified configuration) `estimated_qlpc` panics
whenever the exact LPC residual is a FLAC residual — in `encode_residual`, or else at
`heapless::Vec::from_slice(..).expect("LPC order exceeded the maximum")` — and drops the candidate otherwise, for
ANY block. -/
theorem C07_lpcCandidate_over_capacity (cfg : SubCfg) (xs : List Int) (bps : Nat) (c : List Int) (s : Int) (p : Nat)
    (rest : List OEvent) (hc : maxLpcOrder < c.length) :
    lpcCandidate cfg xs bps (.qlpc c s p :: rest) =
      if ∀ e ∈ lpcResidual c s.toNat xs, e.natAbs ≤ 2 ^ 31 - 1 then none else some (none, rest) :=
  lpcCandidate_over_capacity cfg xs bps c s p rest hc

/-! ### the witnesses on which the code before the fix reached a panic site -/

namespace C07TotalEx

/-- 64 samples of 24-bit audio: `2^17`, then silence. -/
def minBlock : List Int := (2 ^ 17 : Int) :: List.replicate 63 0
/-- 64 samples of 16-bit audio: four times `-2^15`, a zero, then ones. -/
def minBlock16 : List Int := [-(2 ^ 15 : Int), -(2 ^ 15 : Int), -(2 ^ 15 : Int), -(2 ^ 15 : Int), 0] ++ List.replicate 59 1
/-- 64 samples of 24-bit audio: `2^17` twice, then silence. -/
def subBlock : List Int := (2 ^ 17 : Int) :: (2 ^ 17 : Int) :: List.replicate 62 0

/-- What `encode_subframe` returned: `0` constant, `1` verbatim, `2` fixed, `3` LPC. -/
def kindOf : SubFrame → Nat
  | .constant _ _ _ => 0 | .verbatim _ _ => 1 | .fixed _ _ _ => 2 | .lpc _ _ _ _ _ _ => 3

end C07TotalEx
open C07TotalEx

set_option maxRecDepth 100000 in
/-- **Former finding `C07_reach_i32min` (i64 path → `i32::MIN`), after the fix.** `coefs = [-16384]`,
`shift = 0`, `precision = 15` satisfies `OEvent.Ok`; on `minBlock` (24 bit) `compute_error` takes the `i64`
path, the exact error at `t = 1` is `0 - (-2^31) = 2^31`, its cast to `i32` is `i32::MIN`.
Before the fix that value went to `encode_signbit`, which overflows (`rice.rs:145`, a panic in the dev
profile). Now `compute_error` does not panic and returns the flag `false` (the wrapped value is still
stored), the LPC candidate is dropped, and `encode_subframe` returns a fixed-predictor sub-frame, consuming
the `qlpc` event. -/
theorem C07_i32min_dropped :
    OEvent.Ok (.qlpc [-16384] 0 15) ∧ (∀ x ∈ minBlock, SubFrame.inRange 24 x = true) ∧
    Strict.lpcWide [-16384] minBlock ∧
    (computeError [-16384] 0 minBlock).map (fun r => (r.1.take 3, r.2)) = some ([0, -(2 ^ 31 : Int), 0], false) ∧
    (computeErrorOld [-16384] 0 minBlock).map (·.take 3) = some [0, -(2 ^ 31 : Int), 0] ∧
    (lpcCandidate ⟨true, true, true, 4, true, 14⟩ minBlock 24 [.qlpc [-16384] 0 15]) = some (none, []) ∧
    (encodeSubframe ⟨true, true, true, 4, true, 14⟩ minBlock 24 [.qlpc [-16384] 0 15]).map
      (fun r => (kindOf r.1, r.2)) = some (2, []) := by
  decide +kernel

set_option maxRecDepth 100000 in
/-- **Former finding `C07_reach_i32min_16bit`, after the fix**: the same with 16-bit audio (four coefficients
`-16384`, `shift = 0`: the prediction at `t = 4` is `4·(-16384)·(-32768) = 2^31`): flag `false`, candidate
dropped, no panic. -/
theorem C07_i32min_16bit_dropped :
    OEvent.Ok (.qlpc [-16384, -16384, -16384, -16384] 0 15) ∧ (∀ x ∈ minBlock16, SubFrame.inRange 16 x = true) ∧
    Strict.lpcWide [-16384, -16384, -16384, -16384] minBlock16 ∧
    (computeError [-16384, -16384, -16384, -16384] 0 minBlock16).map (fun r => (r.1.take 5, r.2))
      = some ([0, 0, 0, 0, -(2 ^ 31 : Int)], false) ∧
    (lpcCandidate ⟨true, true, true, 4, true, 14⟩ minBlock16 16 [.qlpc [-16384, -16384, -16384, -16384] 0 15])
      = some (none, []) ∧
    (encodeSubframe ⟨true, true, true, 4, true, 14⟩ minBlock16 16 [.qlpc [-16384, -16384, -16384, -16384] 0 15]).map
      (fun r => (kindOf r.1, r.2)) = some (2, []) := by
  decide +kernel

set_option maxRecDepth 100000 in
/-- **Former finding `C07_reach_sub_overflow` (the old guard did not cover the final subtraction), after the
fix.** `coefs = [-16383]`, `shift = 0`, `precision = 15` satisfies `OEvent.Ok`; on `subBlock` the OLD guard
held (`2^17·16383 = 2^31 - 2^17 < i32::MAX`), the `i32` path was taken, and at `t = 1`
`x[1] - acc = 2^17 + 2^31 - 2^17 = 2^31` overflowed `i32` (`lpc.rs:361`, a panic in the dev profile:
`computeErrorOld … = none`). The NEW guard fails (`2^17·(16383 + 1) = 2^31 ≥ i32::MAX`), the `i64` path is
taken, the flag is `false` (the exact error `2^31` at `t = 1` is not a FLAC residual), the candidate is
dropped, and `encode_subframe` returns a fixed-predictor sub-frame. -/
theorem C07_sub_overflow_dropped :
    OEvent.Ok (.qlpc [-16383] 0 15) ∧ (∀ x ∈ subBlock, SubFrame.inRange 24 x = true) ∧
    Strict.lpcWide [-16383] subBlock ∧ Strict.errE [-16383] 0 subBlock 1 = 2 ^ 31 ∧
    computeErrorOld [-16383] 0 subBlock = none ∧
    (computeError [-16383] 0 subBlock).map (fun r => (r.1.take 4, r.2))
      = some ([0, -(2 ^ 31 : Int), 2 ^ 31 - 2 ^ 17, 0], false) ∧
    (lpcCandidate ⟨true, true, true, 4, true, 14⟩ subBlock 24 [.qlpc [-16383] 0 15]) = some (none, []) ∧
    (encodeSubframe ⟨true, true, true, 4, true, 14⟩ subBlock 24 [.qlpc [-16383] 0 15]).map
      (fun r => (kindOf r.1, r.2)) = some (2, []) := by
  decide +kernel

/-! ### sub-frame, frame, stream -/

/-- **C07 (totality), sub-frame.** For every sub-frame configuration, every block of fewer than `2^16`
samples of width `1 ≤ bps ≤ 25`, and every oracle log that satisfies `OEvent.Ok` and starts with the
events this sub-frame asks for (`SubLogOk`: shape only, nothing is asked of the parameter set):
`encode_subframe` hits no panic site, and consumes exactly `subTake cfg xs` events. (`maxP` is arbitrary:
the search is total for every `max_p`.) -/
theorem C07_subframe_total (cfg : SubCfg) (xs : List Int) (bps : Nat) (log : List OEvent)
    (hlen : xs.length < 2 ^ 16) (hb : 1 ≤ bps ∧ bps ≤ 25)
    (hx : ∀ x ∈ xs, SubFrame.inRange bps x = true) (hlog : ∀ e ∈ log, e.Ok)
    (hshape : SubLogOk cfg xs log) :
    ∃ s, encodeSubframe cfg xs bps log = some (s, log.drop (subTake cfg xs)) :=
  encodeSubframe_total cfg xs bps log hlen hb hx hlog hshape

/-- **`SubLogOk` is exact**: under the same hypotheses, `encode_subframe` returns iff `SubLogOk` holds — `none`
never means "a panic site was reached", only "the log does not supply the events asked for". -/
theorem C07_SubLogOk_exact (cfg : SubCfg) (xs : List Int) (bps : Nat) (log : List OEvent)
    (hlen : xs.length < 2 ^ 16) (hb : 1 ≤ bps ∧ bps ≤ 25)
    (hx : ∀ x ∈ xs, SubFrame.inRange bps x = true) (hlog : ∀ e ∈ log, e.Ok) :
    (encodeSubframe cfg xs bps log).isSome = true ↔ SubLogOk cfg xs log :=
  encodeSubframe_isSome_iff cfg xs bps log hlen hb hx hlog

/-- **C07 (totality), frame.** Any number `≥ 1` of channels of equal length `1 ≤ n < 2^16`, width
`1 ≤ bps ≤ 24` (the side channel is one bit wider), any rate and frame number: `encode_frame` hits no
panic site (per-channel loop, stereo trial with its two extra sub-frames, `BlockSizeSpec::from_size`,
header construction). -/
theorem C07_frame_total (cfg : SubCfg) (st : StereoCfg) (chans : List (List Int)) (bps rate number n : Nat)
    (log : List OEvent)
    (hch : 1 ≤ chans.length) (hlen : ∀ c ∈ chans, c.length = n) (hn : 1 ≤ n ∧ n < 2 ^ 16)
    (hb : 1 ≤ bps ∧ bps ≤ 24) (hx : ∀ c ∈ chans, ∀ x ∈ c, SubFrame.inRange bps x = true)
    (hlog : ∀ e ∈ log, e.Ok) (hshape : FrameLogOk cfg chans log) :
    ∃ f, encodeFrame cfg st chans bps rate number log = some (f, log.drop (frameTake cfg chans)) :=
  encodeFrame_total cfg st chans bps rate number n log hch hlen hn hb hx hlog hshape

/-- **C07 (totality), stream.** `encode_with_fixed_block_size`: every frame is encoded, `Frame::count_bits`
succeeds on every frame, STREAMINFO is assembled. -/
theorem C07_stream_total (md5 : List Nat → List Nat) (cfg : SubCfg) (st : StereoCfg) (bs : Nat)
    (chans : List (List Int)) (bps rate : Nat) (log : List OEvent) (total : Nat)
    (hch : 1 ≤ chans.length ∧ chans.length ≤ 8) (hlen : ∀ c ∈ chans, c.length = total)
    (hbs : 1 ≤ bs ∧ bs < 2 ^ 16) (hb : 1 ≤ bps ∧ bps ≤ 24)
    (hx : ∀ c ∈ chans, ∀ x ∈ c, SubFrame.inRange bps x = true) (hmax : cfg.maxP ≤ 14)
    (hnb : (total + bs - 1) / bs ≤ 2 ^ 32)
    (hlog : ∀ e ∈ log, e.Ok) (hshape : FramesLogOk cfg (blocksOf bs chans) log) :
    ∃ s, encodeStream md5 cfg st bs chans bps rate log = some (s, log.drop (framesTake cfg (blocksOf bs chans))) :=
  encodeStream_total md5 cfg st bs chans bps rate log total hch hlen hbs hb hx hmax hnb hlog hshape

/-! ### accepted configurations -/

/-- What the integer pipeline needs from an accepted configuration (via the clauses of `C07_exact`):
Rice parameter limit, fixed order limit, block size within `32..=32767`, LPC order and precision limits. -/
theorem C07_verified_cfg (exp : Bool) (c : Gen.Encoder) (h : Gen.Encoder.verify exp c = true) :
    (subCfgOf c.subframe_coding).maxP ≤ 14 ∧ (subCfgOf c.subframe_coding).fixedMaxOrder ≤ 4 ∧
    32 ≤ c.block_size ∧ c.block_size ≤ 32767 ∧ c.subframe_coding.qlpc.lpc_order ≤ 24 ∧
    1 ≤ c.subframe_coding.qlpc.quant_precision ∧ c.subframe_coding.qlpc.quant_precision ≤ 15 :=
  verify_facts exp c h

/-- **C07 (totality).** Every configuration accepted by `Encoder::verify` encodes every valid input — 1 to
8 channels of equal length `total < 2^36`, `1 ≤ bps ≤ 24` bits, samples in range, any rate — without
reaching a panic site of the integer pipeline, for EVERY admissible oracle: `OEvent.Ok` and shaped as the
encoder consumes it (`FramesLogOk`). No further hypothesis on the quantised LPC parameter sets. -/
theorem C07_total (exp : Bool) (c : Gen.Encoder) (h : Gen.Encoder.verify exp c = true)
    (md5 : List Nat → List Nat) (chans : List (List Int)) (bps rate : Nat) (log : List OEvent) (total : Nat)
    (hch : 1 ≤ chans.length ∧ chans.length ≤ 8) (hlen : ∀ c ∈ chans, c.length = total) (htot : total < 2 ^ 36)
    (hb : 1 ≤ bps ∧ bps ≤ 24) (hx : ∀ c ∈ chans, ∀ x ∈ c, SubFrame.inRange bps x = true)
    (hlog : ∀ e ∈ log, e.Ok)
    (hshape : FramesLogOk (subCfgOf c.subframe_coding) (blocksOf c.block_size chans) log) :
    ∃ s, encodeStream md5 (subCfgOf c.subframe_coding) (stereoCfgOf c.stereo_coding) c.block_size chans bps rate log =
      some (s, log.drop (framesTake (subCfgOf c.subframe_coding) (blocksOf c.block_size chans))) := by
  obtain ⟨hmax, _, h32, h32767, _⟩ := verify_facts exp c h
  refine encodeStream_total md5 _ _ c.block_size chans bps rate log total hch hlen ⟨by omega, by omega⟩ hb hx hmax ?_
    hlog hshape
  apply Nat.div_le_of_le_mul
  omega

/-- Without oracle: LPC disabled and the fixed stage disabled or selecting by exact bit count
(`OrderSel::BitCount`). No hypothesis on the log is left. -/
theorem C07_total_noOracle (exp : Bool) (c : Gen.Encoder) (h : Gen.Encoder.verify exp c = true)
    (hl : c.subframe_coding.use_lpc = false)
    (hf : c.subframe_coding.fixed.order_sel = .BitCount ∨ c.subframe_coding.use_fixed = false)
    (md5 : List Nat → List Nat) (chans : List (List Int)) (bps rate : Nat) (log : List OEvent) (total : Nat)
    (hch : 1 ≤ chans.length ∧ chans.length ≤ 8) (hlen : ∀ c ∈ chans, c.length = total) (htot : total < 2 ^ 36)
    (hb : 1 ≤ bps ∧ bps ≤ 24) (hx : ∀ c ∈ chans, ∀ x ∈ c, SubFrame.inRange bps x = true)
    (hlog : ∀ e ∈ log, e.Ok) :
    ∃ s, encodeStream md5 (subCfgOf c.subframe_coding) (stereoCfgOf c.stereo_coding) c.block_size chans bps rate log =
      some (s, log) := by
  have hf' : (subCfgOf c.subframe_coding).bitCount = true ∨ (subCfgOf c.subframe_coding).useFixed = false := by
    rcases hf with hf | hf
    · left; simp [subCfgOf, hf]
    · right; exact hf
  obtain ⟨h1, h2⟩ := framesLogOk_noOracle (subCfgOf c.subframe_coding) hl hf' (blocksOf c.block_size chans) log
  have := C07_total exp c h md5 chans bps rate log total hch hlen htot hb hx hlog h1
  rw [h2, List.drop_zero] at this
  exact this

/-- Blocks shorter than `MIN_BLOCK_SIZE_FOR_PREDICTION = 64` (block size `32..=63`): only constant and
verbatim sub-frames, no oracle, no hypothesis on the log. -/
theorem C07_total_smallBlocks (exp : Bool) (c : Gen.Encoder) (h : Gen.Encoder.verify exp c = true)
    (hsmall : c.block_size < 64)
    (md5 : List Nat → List Nat) (chans : List (List Int)) (bps rate : Nat) (log : List OEvent) (total : Nat)
    (hch : 1 ≤ chans.length ∧ chans.length ≤ 8) (hlen : ∀ c ∈ chans, c.length = total) (htot : total < 2 ^ 36)
    (hb : 1 ≤ bps ∧ bps ≤ 24) (hx : ∀ c ∈ chans, ∀ x ∈ c, SubFrame.inRange bps x = true)
    (hlog : ∀ e ∈ log, e.Ok) :
    ∃ s, encodeStream md5 (subCfgOf c.subframe_coding) (stereoCfgOf c.stereo_coding) c.block_size chans bps rate log =
      some (s, log) := by
  obtain ⟨h1, h2⟩ := framesLogOk_short (subCfgOf c.subframe_coding) (blocksOf c.block_size chans) log
    (blocksOf_short c.block_size chans hsmall)
  have := C07_total exp c h md5 chans bps rate log total hch hlen htot hb hx hlog h1
  rw [h2, List.drop_zero] at this
  exact this

/-! ### non-vacuity -/

namespace C07TotalEx
open C01StrictEx

set_option maxRecDepth 100000 in
/-- Fixed stage by entropy estimates and LPC stage: the log `5 × est, qlpc [2,-1] 0 3` has the shape
`encode_subframe` consumes for `smooth64`; the theorem applies, and the kernel confirms the result and that
all six events are consumed. -/
example : SubLogOk ⟨true, true, true, 4, false, 14⟩ smooth64
    [.est 0 900, .est 1 700, .est 2 300, .est 3 400, .est 4 500, .qlpc [2, -1] 0 3] ∧
    subTake ⟨true, true, true, 4, false, 14⟩ smooth64 = 6 :=
  ⟨Or.inr (Or.inr ⟨by decide, (by
      intro e he
      have h5 : estTake ⟨true, true, true, 4, false, 14⟩ = 5 := by decide
      rw [h5] at he
      simp only [List.take, List.mem_cons, List.not_mem_nil, or_false] at he
      rcases he with rfl | rfl | rfl | rfl | rfl <;> exact ⟨_, _, rfl⟩),
    fun _ => ⟨[2, -1], 0, 3, rfl⟩⟩), by decide⟩

set_option maxRecDepth 100000 in
example : ((encodeSubframe ⟨true, true, true, 4, false, 14⟩ smooth64 16
    [.est 0 900, .est 1 700, .est 2 300, .est 3 400, .est 4 500, .qlpc [2, -1] 0 3]).map (·.2)) = some [] := by
  decide +kernel

set_option maxRecDepth 100000 in
/-- `C07_subframe_total` applies to the witness on which the code before the fix reached a panic site
(`C07_i32min_dropped`): the log `qlpc [-16384] 0 15` is `OEvent.Ok` and has the right shape for `minBlock`. -/
example : ∃ s, encodeSubframe ⟨true, true, true, 4, true, 14⟩ minBlock 24 [.qlpc [-16384] 0 15] = some (s, []) :=
  C07_subframe_total ⟨true, true, true, 4, true, 14⟩ minBlock 24 [.qlpc [-16384] 0 15] (by decide) (by decide)
    (by decide) (by decide)
    (Or.inr (Or.inr ⟨by decide, (by intro e he; cases he), fun _ => ⟨[-16384], 0, 15, rfl⟩⟩))

set_option maxRecDepth 100000 in
/-- The capacity of the LPC warm-up vector: 24 coefficients pass (`OEvent.Ok`, an LPC candidate is returned), 25 panic
(not `OEvent.Ok`; `C07_lpcCandidate_over_capacity`). -/
example : OEvent.Ok (.qlpc (List.replicate 24 0) 0 1) ∧ ¬ OEvent.Ok (.qlpc (List.replicate 25 0) 0 1) ∧
    ((lpcCandidate ⟨true, true, true, 4, true, 14⟩ smooth64 16 [.qlpc (List.replicate 24 0) 0 1]).map
      fun r => (r.1.map kindOf, r.2)) = some (some 3, []) ∧
    lpcCandidate ⟨true, true, true, 4, true, 14⟩ smooth64 16 [.qlpc (List.replicate 25 0) 0 1] = none ∧
    encodeSubframe ⟨true, true, true, 4, true, 14⟩ smooth64 16 [.qlpc (List.replicate 25 0) 0 1] = none := by
  decide +kernel

/-- The default configuration (LPC order 10, `ApproxEnt`, block size 4096) is accepted, and its
integer-relevant part is the `SubCfg` the model runs with. -/
example : Gen.Encoder.verify false (Gen.Encoder.default true) = true ∧
    subCfgOf (Gen.Encoder.default true).subframe_coding = ⟨true, true, true, 4, false, 14⟩ ∧
    (Gen.Encoder.default true).block_size = 4096 := by decide

/-- A stream through `C07_total`: the default configuration with block size 32 (accepted), two channels
of 40 samples; no oracle event is needed. -/
example : ∃ s, encodeStream toyMd5 (subCfgOf (Gen.Encoder.default true).subframe_coding)
    (stereoCfgOf (Gen.Encoder.default true).stereo_coding) 32 [streamL, streamR] 16 44100 [] = some (s, []) :=
  C07_total_smallBlocks false { Gen.Encoder.default true with block_size := 32 } (by decide) (by decide)
    toyMd5 [streamL, streamR] 16 44100 [] 40 (by decide) (by decide) (by decide) (by decide) (by decide)
    (by intro e he; cases he)

end C07TotalEx

end FlacVerif
