/-
C18 (generated verify / constructors) — the HAND-WRITTEN decision procedures of `Model/Verify.lean` (`verifyBlockSize`,
`verifyBps`, `verifySample`, `Residual.verify/new`, `QParams.verify/new`, `Constant.new`, `Verbatim.new`, `FixedLpc.new`,
`Lpc.new`, `ChannelAssignment.verify`, `FrameHeader.new`, `StreamInfo.new`, `UnknownBlock.new`) agree with the Rust
source text of `src/component/verify.rs`, `src/component/datatype.rs` and the macros of `src/error.rs`.

`Gen/Verify.lean` is regenerated on every run by `tools/translate.py` (part `verify`): it PARSES the `impl Verify`
bodies, EXPANDS `verify_block_size!` / `verify_bps!` / `verify_sample_range!` / `verify_range!` / `verify_true!` from their
`macro_rules!` definitions, translates `verify_macro_impl` and the public constructors / setters, statement by
statement (bounds, operators, order of the checks, which constructor calls `ret.verify()`, casts and constants
all come from the source text; constants of constant.rs by NAME through `Gen/Constants.lean`).  A function returning
`Result<(), VerifyError>` becomes `VR = Option Bool` (`none` = the Rust function PANICS in the dev profile before it
returns), a constructor becomes `CR T = Option (Option T)` (`none` = panic, `some none` = `Err`).

The theorems below hold for ALL argument values (no sampling).  Unbounded naturals / integers stand for the machine
integers, so values that would wrap in a narrower type (`256 + 16` bits per sample, partition order `256 + 1`) are
covered; a domain hypothesis appears only where the Rust TYPE is needed: the elements of `quotients: &[u32]` are
`< 2^32` and those of `rice_params: &[u8]` are `< 256` (so that the `fold`s recomputing the cached sums cannot
overflow a `usize`), `metadata.len() < 2^64`.  Every statement has the form `generated = some (hand model)`: the
generated function does not panic AND decides what the hand model decides.

Theorems (one per translated item):
* C18G_verify_block_size, C18G_verify_bps           the two helper macros = `verifyBlockSize`, `verifyBps`, every usize
* C18G_verify_sample_range (+ _panics, _wide)       `verify_sample_range!` = `verifySample` for 1 ≤ bps ≤ 31; it PANICS for
                                                    bps = 0 (`bps - 1`), bps = 32 (`-(i32::MIN)`), bps > 64 (shift); for
                                                    33 ≤ bps ≤ 64 it rejects everything while the hand model's
                                                    `verifySample` does not (unreachable: `verify_bps!` always runs first)
* C18G_residual_verify, C18G_residual_new           `impl Verify for Residual`, `Residual::new`
* C18G_qparams_verify, C18G_qparams_new             `impl Verify for QuantizedParameters`, `QuantizedParameters::new`
* C18G_constant_verify/new, C18G_verbatim_verify/new, C18G_fixed_verify/new, C18G_lpc_verify/new
                                                    the four subframe kinds (`verify` written with the hand model's
                                                    functions; `new` = the hand model's constructor)
* C18G_channel_verify                               `impl Verify for ChannelAssignment` = `ChannelAssignment.verify`
* C18G_header_new                                   `FrameHeader::new` = `FrameHeader.new` (through `C08Gen.hdrOfGen`)
* C18G_header_verify, C18G_header_verify_panics     `impl Verify for FrameHeader`; PANICS on the reserved block-size code
* C18G_streaminfo_verify, C18G_streaminfo_new       `impl Verify for StreamInfo`, `StreamInfo::new` = `StreamInfo.new`
* C18G_set_total_samples / _block_sizes / _frame_sizes   the setters: accepted?, and the `self` they leave (also on `Err`:
                                                    the REJECTED values stay stored, see the example)
* C18G_unknown_new, C18G_blockdata_verify, C18G_block_verify(')   `new_unknown` = `UnknownBlock.new`; block verify
* C18G_subframe_verify                              `impl Verify for SubFrame`
* C18G_frame_new, C18G_frame_verify, C18G_frame_verify_precomputed   `Frame::new`; `impl Verify for Frame`; its
                                                    precomputed-bitstream check is VACUOUS (compares the buffer with itself)
* C18G_stream_fixed, C18G_stream_variable, C18G_stream_verify, C18G_stream_verify_panics, C18G_stream_new
                                                    the two helper methods, `impl Verify for Stream` (PANICS when the first
                                                    block is not a STREAMINFO), `Stream::new`

DISAGREEMENTS between `Model/Verify.lean` and the source found here: only `C18G_verify_sample_range_wide` (the hand
model's `verifySample` is over unbounded integers; the macro computes in `i32`); not reachable from any constructor or
`verify` because `verify_bps!` (8..=25) always precedes `verify_sample_range!`.  FINDINGS about the source (not about the
model): `C18G_frame_verify_precomputed`, the setters that keep rejected values, the two panics of `verify` on
deserialised values (`C18G_header_verify_panics`, `C18G_stream_verify_panics`).

NEGATIVE CONTROLS.  Executed on mutated copies of the crate (`FV_REPO=<copy> python3 tools/translate.py`, then
`lake build FlacVerif.Theorems.C18Gen`); "breaks T" = the build fails in theorem T (and in the examples next to it):
* verify_block_size!: `1..=MAX_BLOCK_SIZE` -> `0..=`                 breaks C18G_verify_block_size, C18G_header_verify
* verify_bps!: `% 4 == 1` -> `% 4 == 2`                              breaks C18G_verify_bps
* Residual::verify: `..=MAX_PARTITION_ORDER` -> `..MAX_..`           breaks C18G_residual_verify
* Residual::verify: drop `block_size % partition_count == 0`         breaks C18G_residual_verify
* QuantizedParameters::new / FixedLpc::new: drop `ret.verify()?`     breaks C18G_qparams_new / C18G_fixed_new
* Constant::verify: verify_sample_range! before verify_bps!          breaks C18G_constant_verify (a panic became reachable)
* Residual::verify: the two `.len() == block_size` checks exchanged  breaks C18G_residual_verify (EQUIVALENT mutant: the
                                                                     proof follows the order of the checks)
* constant.rs: MAX_BLOCK_SIZE 32767 -> 65535; MAX_RICE_PARAMETER 14 -> 15   breaks C18G_verify_block_size / C18G_residual_verify
* Residual::verify: warm-up loop from 1; drop `quotients[t] == 0`    breaks C18G_residual_verify
* QuantizedParameters::verify: drop the coefficient range loop       breaks C18G_qparams_verify
* new_unknown: `1..=126` -> `0..=126`                                breaks C18G_unknown_new
* verify_sample_range!: `bps - 1` -> `bps` in max_sample             breaks C18G_verify_sample_range
* StreamInfo::verify: `..=96_000` -> `..=96_001`                     breaks C18G_streaminfo_verify
* FrameHeader::new: drop `channel_assignment.verify()?`; `1u64 << 36` -> `<< 37`   breaks C18G_header_new
* error.rs: `if !cond` -> `if cond` (verify_macro_impl)              breaks vmi (and everything after it)
* error.rs: verify_range! `..=` arm `<=` -> `<`                      breaks C18G_verify_block_size, C18G_verify_bps, ...
* Lpc::verify: order `1..` -> `0..`                                  breaks C18G_lpc_verify
* FixedLpc: `heapless::Vec<i32, 4>` -> `5`                           breaks C18G_fixed_new
* StreamInfo::new: `1..=MAX_CHANNELS` -> `0..=` (verify still rejects 0)   breaks C18G_streaminfo_new (EQUIVALENT mutant)
* set_block_sizes: drop verify_block_size!(max)                      breaks C18G_set_block_sizes
* Frame::verify: header unchecked; Frame::new `==` -> `<=`           breaks C18G_frame_verify / C18G_frame_new
* Stream::verify: `!md.is_last` -> `md.is_last`; helpers exchanged   breaks C18G_stream_verify
* verify_fixed_blocking_frames: `wrapping_add(1)` -> `(2)`           breaks C18G_stream_fixed
* a `while` loop in Residual::verify; a changed body of Residual::from_parts; a changed accessor body; a field type
  that no longer fits its initialiser; `a && b` with a possibly panicking `b` inside verify_true!:
  the translator stops with "translator cannot read ..." (part status `verify`), nothing is generated
HARMLESS rewrites that PASS: a local `let bps = self.bits_per_sample();` in Constant::verify; `verify_range!(x, 1..=8)`
written as `1..` and `..=8`; a renamed local; `a || b` written `!(!a && !b)` in verify_bps!; `for sf in self.subframes()`
instead of `.iter().enumerate()`.
-/
import FlacVerif.Gen.Verify
import FlacVerif.Model.Verify
import FlacVerif.Theorems.C02Hdr
import FlacVerif.Theorems.C08Gen
namespace FlacVerif.C18Gen
open FlacVerif FlacVerif.Gen.Verify

/-! ### glue: the sequencing combinators of `Gen/Verify.lean` -/

@[simp] theorem andThen_true {β : Type} (e : β) (r : Option β) : andThen e (some true) r = r := rfl
@[simp] theorem andThen_false {β : Type} (e : β) (r : Option β) : andThen e (some false) r = some e := rfl
@[simp] theorem andThen_none {β : Type} (e : β) (r : Option β) : andThen e none r = none := rfl
@[simp] theorem req_true {β : Type} (r : Option β) : req true r = r := rfl
@[simp] theorem req_false {β : Type} (r : Option β) : req false r = none := rfl
@[simp] theorem bindC_ok {α β : Type} (e : β) (v : α) (k : α → Option β) : bindC e (some (some v)) k = k v := rfl
@[simp] theorem bindC_err {α β : Type} (e : β) (k : α → Option β) : bindC e (some none) k = some e := rfl
@[simp] theorem bindC_none {α β : Type} (e : β) (k : α → Option β) : bindC e none k = none := rfl

@[simp] theorem andThen_some (a b : Bool) : andThen false (some a) (some b) = some (a && b) := by cases a <;> rfl

/-- `verify_macro_impl(cond, ..)` (error.rs, translated): `Ok(())` iff `cond`, never a panic. -/
@[simp] theorem vmi (c : Bool) : verify_macro_impl c = some c := by cases c <;> rfl

/-- A check followed by the rest of a `Result<(), _>` body. -/
theorem andThen_guard (a b : Bool) (X : VR) (h : a = true → X = some b) :
    andThen false (some a) X = some (a && b) := by
  cases a with
  | false => rfl
  | true => simpa using h rfl

/-- A check followed by the rest of a constructor body. -/
theorem andThen_guardC {α : Type} (a : Bool) (v : Option α) (X : CR α) (h : a = true → X = some v) :
    andThen none (some a) X = some (if a then v else none) := by
  cases a with
  | false => rfl
  | true => simpa using h rfl

theorem req_of {β : Type} (c : Bool) (r : Option β) (h : c = true) : req c r = r := by subst h; rfl

theorem forV_all {α : Type} (xs : List α) (f : α → VR) (g : α → Bool) (h : ∀ x ∈ xs, f x = some (g x)) :
    forV xs f = some (xs.all g) := by
  induction xs with
  | nil => rfl
  | cons x xs ih =>
    rw [forV, h x (by simp), ih (fun y hy => h y (by simp [hy]))]
    cases hg : g x <;> simp [hg, List.all_cons]

/-! ### the helper macros of verify.rs (expanded from their `macro_rules!` text) -/

/-- `verify_block_size!`: for every `usize` (indeed every natural) the expansion never panics and accepts exactly
`1..=MAX_BLOCK_SIZE` — the hand model's `verifyBlockSize`. -/
theorem C18G_verify_block_size (n : Nat) : verify_block_size n = some (verifyBlockSize n) := by
  unfold verify_block_size verifyBlockSize
  simp only [vmi, andThen_some]
  rfl

example : verify_block_size 4096 = some true ∧ verify_block_size 0 = some false ∧ verify_block_size 32768 = some false := by
  decide

/-- `verify_bps!`: never panics, accepts exactly the hand model's `verifyBps` (8..=25 and `% 4 ∈ {0, 1}`). -/
theorem C18G_verify_bps (b : Nat) : verify_bps b = some (verifyBps b) := by
  unfold verify_bps verifyBps
  simp only [vmi]
  rw [req_of _ _ (by decide)]
  simp only [andThen_some, Bool.and_assoc]
  simp [Gen.Const.MIN_BITS_PER_SAMPLE, Gen.Const.MAX_BITS_PER_SAMPLE, Bool.beq_eq_decide_eq] <;> rfl

example : verify_bps 16 = some true ∧ verify_bps 17 = some true ∧ verify_bps 18 = some false ∧ verify_bps 28 = some false := by
  decide

theorem shl_bmod : ∀ k, k < 31 → Int.bmod ((((1 <<< k) % 18446744073709551616 : Nat)) : Int) 4294967296 = (2 : Int) ^ k := by
  decide

/-- `verify_sample_range!(_, v, bps)` for `1 ≤ bps ≤ 31`: no panic, and the decision is the hand model's
`verifySample`. -/
theorem C18G_verify_sample_range (v : Int) (bps : Nat) (h1 : 1 ≤ bps) (h2 : bps ≤ 31) :
    verify_sample_range v bps = some (verifySample bps v) := by
  have hb := shl_bmod (bps - 1) (by omega)
  have hpos : (0 : Int) < 2 ^ (bps - 1) := Int.pow_pos (by decide)
  have hlt : (2 : Int) ^ (bps - 1) ≤ 2 ^ 30 := by
    exact_mod_cast Nat.pow_le_pow_right (by decide : 0 < 2) (by omega : bps - 1 ≤ 30)
  unfold verify_sample_range verifySample
  simp only [hb]
  rw [req_of, req_of]
  · simp
  · simp; omega
  · simp; omega

/-- THE PANICS of `verify_sample_range!` that precede its rejecting check: `bps as usize - 1` underflows for
`bps = 0`; for `bps = 32` `(1usize << 31) as i32` is `i32::MIN`, whose negation overflows; for `bps > 64` the shift
amount is out of range.  (Every use in verify.rs / datatype.rs runs `verify_bps!` first, which leaves 8..=25.) -/
theorem C18G_verify_sample_range_panics (v : Int) :
    verify_sample_range v 0 = none ∧ verify_sample_range v 32 = none ∧ ∀ b, 64 < b → verify_sample_range v b = none := by
  refine ⟨rfl, rfl, ?_⟩
  intro b hb
  unfold verify_sample_range
  have : decide (b - 1 < 64) = false := by simp; omega
  simp only [this, Bool.and_false, Bool.false_and, req_false]

/-- For `33 ≤ bps ≤ 64` nothing panics but `(1usize << (bps-1)) as i32` is 0: the accepted range is `0..=-1`, i.e.
empty, whereas the hand model's `verifySample` (unbounded integers) accepts `-2^(bps-1) .. 2^(bps-1)-1`. A
DISAGREEMENT between `Model/Verify.lean` and the source, unreachable behind `verify_bps!`. -/
theorem C18G_verify_sample_range_wide (v : Int) : verify_sample_range v 33 = some false ∧ verifySample 33 0 = true := by
  refine ⟨?_, by decide⟩
  unfold verify_sample_range
  have h : Int.bmod ((((1 <<< (33 - 1)) % 18446744073709551616 : Nat)) : Int) 4294967296 = 0 := by decide
  simp only [h]
  rw [req_of, req_of]
  · simp; omega
  · decide
  · decide

example : verify_sample_range (-32768) 16 = some true ∧ verify_sample_range 32768 16 = some false := by decide

/-! ### Residual -/

theorem foldOk_add (xs : List Nat) (acc B : Nat) (h : ∀ x ∈ xs, x < B) (hb : acc + xs.length * B ≤ 2 ^ 64) :
    foldOk (fun acc x => acc + x) (fun acc x => decide (acc + x < 18446744073709551616)) acc xs = true := by
  induction xs generalizing acc with
  | nil => rfl
  | cons x xs ih =>
    have hx := h x (by simp)
    simp only [List.length_cons, Nat.add_mul, Nat.one_mul] at hb
    simp only [foldOk, Bool.and_eq_true, decide_eq_true_eq]
    refine ⟨by omega, ih _ (fun y hy => h y (by simp [hy])) (by omega)⟩

theorem shl_small (k : Nat) (h : k ≤ 15) : (1 <<< k) % 18446744073709551616 = 2 ^ k := by
  rw [Nat.shiftLeft_eq, Nat.one_mul]
  apply Nat.mod_eq_of_lt
  calc 2 ^ k ≤ 2 ^ 15 := Nat.pow_le_pow_right (by decide) h
    _ < _ := by decide

theorem forV_guard {α : Type} (xs : List α) (f : α → VR) (g : α → Bool) (b : Bool) (X : VR)
    (hf : ∀ x ∈ xs, f x = some (g x)) (h : xs.all g = true → X = some b) :
    andThen false (forV xs f) X = some (xs.all g && b) := by
  rw [forV_all xs f g hf]; exact andThen_guard _ _ _ h

/-- `impl Verify for Residual`: for every residual whose quotients are `u32` and whose Rice parameters are `u8`
(the Rust element types) the generated function never panics and decides exactly what the hand model decides.
The two cached-sum checks at the end of the Rust body are vacuous under the accessor table (the model has no
cached sums), and their `fold`s cannot overflow (at most 32767 `u32`s / 2^15 `u8`s). -/
theorem C18G_residual_verify (r : Residual) (hq : ∀ q ∈ r.quotients, q < 2 ^ 32) (hp : ∀ p ∈ r.params, p < 256) :
    Gen.Verify.Residual.verify r = some (FlacVerif.Residual.verify r) := by
  unfold Gen.Verify.Residual.verify FlacVerif.Residual.verify
  simp only [vmi, C18G_verify_block_size, Bool.and_assoc, Bool.beq_eq_decide_eq]
  refine andThen_guard _ _ _ (fun h1 => ?_)
  refine andThen_guard _ _ _ (fun h2 => ?_)
  refine andThen_guard _ _ _ (fun h3 => ?_)
  refine andThen_guard _ _ _ (fun h4 => ?_)
  refine andThen_guard _ _ _ (fun h5 => ?_)
  have h5' : r.order ≤ 15 := of_decide_eq_true h5
  have hpos : 0 < 2 ^ r.order := Nat.two_pow_pos r.order
  simp only [shl_small r.order h5']
  rw [req_of _ _ (by simp <;> omega)]
  refine andThen_guard _ _ _ (fun h6 => ?_)
  rw [req_of _ _ (by simp <;> omega)]
  refine andThen_guard _ _ _ (fun h7 => ?_)
  rw [req_of _ _ (by simp <;> omega)]
  refine andThen_guard _ _ _ (fun h8 => ?_)
  refine forV_guard _ _ (fun x => decide (x ≤ 14)) _ _ (fun x _ => rfl) (fun h9 => ?_)
  have e1 := of_decide_eq_true h1
  have e3 := of_decide_eq_true h3
  have e6 := of_decide_eq_true h6
  have e7 := of_decide_eq_true h7
  have e8 := of_decide_eq_true h8
  have hbs : 1 ≤ r.blockSize ∧ r.blockSize ≤ 32767 := by
    have := h2; unfold verifyBlockSize maxBlockSize at this
    simp only [Bool.and_eq_true, decide_eq_true_eq] at this; omega
  have hdiv : r.blockSize / 2 ^ r.order * 2 ^ r.order = r.blockSize := Nat.div_mul_cancel (Nat.dvd_of_mod_eq_zero e7)
  have hple : r.blockSize / 2 ^ r.order ≤ r.blockSize := Nat.div_le_self _ _
  have hplpos : 0 < r.blockSize / 2 ^ r.order := by
    apply Nat.pos_of_ne_zero; intro h0; rw [h0] at hdiv; omega
  rw [C08Gen.countUp_zero_one, C08Gen.countUp_zero_one]
  refine forV_guard _ _ (fun t => decide (r.quotients.getD t 0 = 0) && decide (r.remainders.getD t 0 = 0)) _ _
    (fun t ht => by
      have : t < r.warmup := by simpa using ht
      rw [req_of _ _ (by simp; omega), req_of _ _ (by simp; omega)]; simp) (fun h10 => ?_)
  rw [req_of _ _ (by simp <;> omega)]
  have hgetD : ∀ k, r.params.getD k 0 ≤ 14 := by
    intro k
    have := C08Gen.getD_lt r.params 15 (by decide) (fun p hp => by
      have := List.all_eq_true.mp h9 p hp; simp at this; omega) k
    omega
  have hsum : ∀ (xs : List Nat) (B : Nat), (∀ x ∈ xs, x < B) → xs.length * B ≤ 2 ^ 64 →
      foldOk (fun acc x => acc + x) (fun acc x => decide (acc + x < 18446744073709551616)) 0 xs = true :=
    fun xs B h hb => foldOk_add xs 0 B h (by omega)
  have hle2 : 2 ^ r.order ≤ r.blockSize := by
    have := Nat.le_mul_of_pos_left (2 ^ r.order) hplpos; omega
  have h2_15 : 2 ^ r.order ≤ 2 ^ 15 := Nat.pow_le_pow_right (by decide) h5'
  rw [forV_all (List.range r.blockSize) _
    (fun t => decide (r.remainders.getD t 0 < 2 ^ r.params.getD (t / (r.blockSize / 2 ^ r.order)) 0))
    (fun t ht => by
      have htb : t < r.blockSize := by simpa using ht
      have hidx : t / (r.blockSize / 2 ^ r.order) < 2 ^ r.order := by
        rw [Nat.div_lt_iff_lt_mul hplpos, Nat.mul_comm, hdiv]; exact htb
      have hg := hgetD (t / (r.blockSize / 2 ^ r.order))
      rw [req_of _ _ (by simp only [Bool.and_eq_true, decide_eq_true_eq]; omega), req_of _ _ (decide_eq_true (by omega)),
        req_of _ _ (decide_eq_true (by omega))]
      rw [Nat.shiftLeft_eq, Nat.one_mul, Nat.mod_eq_of_lt]
      calc 2 ^ _ ≤ 2 ^ 14 := Nat.pow_le_pow_right (by decide) hg
        _ < _ := by decide)]
  rw [req_of _ _ (hsum r.quotients (2 ^ 32) hq (by
        have : r.quotients.length ≤ 32767 := by omega
        calc r.quotients.length * 2 ^ 32 ≤ 32767 * 2 ^ 32 := Nat.mul_le_mul_right _ this
          _ ≤ _ := by decide)),
      req_of _ _ (hsum r.params 256 hp (by
        rw [e6]
        calc 2 ^ r.order * 256 ≤ 2 ^ 15 * 256 := Nat.mul_le_mul_right _ h2_15
          _ ≤ _ := by decide))]
  simp

def exRes : Residual := ⟨1, 4, 1, [2, 3], [0, 1, 0, 2], [0, 3, 1, 7]⟩

/-- accepted; a remainder that does not fit its Rice parameter; a non-zero warm-up quotient -/
example : Gen.Verify.Residual.verify exRes = some true ∧
    Gen.Verify.Residual.verify { exRes with remainders := [0, 4, 1, 7] } = some false ∧
    Gen.Verify.Residual.verify { exRes with quotients := [1, 1, 0, 2] } = some false := by decide

/-- `Residual::new`, all arguments (`partition_order: usize` is narrowed with `as u8` AFTER the range check; the
`debug_assert!` of `from_parts` cannot fail behind the length check). -/
theorem C18G_residual_new (o n w : Nat) (ps qs rs : List Nat) (hq : ∀ q ∈ qs, q < 2 ^ 32) (hp : ∀ p ∈ ps, p < 256) :
    Gen.Verify.Residual.new o n w ps qs rs = some (FlacVerif.Residual.new o n w ps qs rs) := by
  unfold Gen.Verify.Residual.new FlacVerif.Residual.new
  simp only [vmi]
  by_cases h1 : o ≤ 15
  · have hm : o % 256 = o := Nat.mod_eq_of_lt (by omega)
    simp only [hm, shl_small o h1]
    have h64 : decide (o < 64) = true := decide_eq_true (by omega)
    simp only [h64, req_true]
    by_cases h2 : ps.length = 2 ^ o
    · rw [req_of _ _ (by simp [h2])]
      have hv := C18G_residual_verify ⟨o, n, w, ps, qs, rs⟩ hq hp
      simp only [h1, h2, Gen.Const.rice_MAX_PARTITION_ORDER, hv]
      cases (FlacVerif.Residual.verify ⟨o, n, w, ps, qs, rs⟩) <;> simp
    · simp [h1, h2, Gen.Const.rice_MAX_PARTITION_ORDER]
  · have : decide (o ≤ Gen.Const.rice_MAX_PARTITION_ORDER) = false := decide_eq_false h1
    simp [h1, this]

/-- accepted; one Rice parameter for two partitions; a partition order that would wrap to 1 in `u8` -/
example : Gen.Verify.Residual.new 1 4 1 [2, 3] [0, 1, 0, 2] [0, 3, 1, 7] = some (some exRes) ∧
    Gen.Verify.Residual.new 1 4 1 [2] [0, 1, 0, 2] [0, 3, 1, 7] = some none ∧
    Gen.Verify.Residual.new (256 + 1) 4 1 [2, 3] [0, 1, 0, 2] [0, 3, 1, 7] = some none := by decide

/-! ### QuantizedParameters -/

theorem andThen_guard2 (a b c : Bool) (X : VR) (h : a = true → b = true → X = some c) :
    andThen false (some (a && b)) X = some (a && (b && c)) := by
  cases a <;> cases b <;> simp_all

theorem shl_bmod_i32 : ∀ k, k < 31 → Int.bmod ((1 : Int) * 2 ^ k) 4294967296 = (2 : Int) ^ k := by
  decide

/-- `impl Verify for QuantizedParameters`, every value: no panic (the `1i32 << (precision - 1)` steps come after the
range check of `precision`), same decision as the hand model. -/
theorem C18G_qparams_verify (q : QParams) :
    Gen.Verify.QuantizedParameters.verify q = some q.verify := by
  unfold Gen.Verify.QuantizedParameters.verify QParams.verify
  have c1 : ((Gen.Const.qlpc_MIN_SHIFT : Nat) : Int) = 0 := rfl
  have c2 : ((Gen.Const.qlpc_MAX_SHIFT : Nat) : Int) = 15 := rfl
  simp only [vmi, andThen_some, Bool.and_assoc, c1, c2, ge_iff_le]
  refine andThen_guard _ _ _ (fun h1 => ?_)
  refine andThen_guard2 _ _ _ _ (fun h2 h3 => ?_)
  refine andThen_guard2 _ _ _ _ (fun h4 h5 => ?_)
  have p1 : 1 ≤ q.precision := of_decide_eq_true h4
  have p2 : q.precision ≤ 15 := of_decide_eq_true h5
  have hb := shl_bmod_i32 (q.precision - 1) (by omega)
  have hpos : (0 : Int) < 2 ^ (q.precision - 1) := Int.pow_pos (by decide)
  have hlt : (2 : Int) ^ (q.precision - 1) ≤ 2 ^ 30 := by
    exact_mod_cast Nat.pow_le_pow_right (by decide : 0 < 2) (by omega : q.precision - 1 ≤ 30)
  simp only [hb]
  rw [req_of _ _ (by simp; omega), req_of _ _ (by simp; omega)]
  exact forV_all _ _ _ (fun c _ => by simp)

/-- `QuantizedParameters::new`, all arguments. -/
theorem C18G_qparams_new (coefs : List Int) (order : Nat) (shift : Int) (precision : Nat) :
    Gen.Verify.QuantizedParameters.new coefs order shift precision = some (QParams.new coefs order shift precision) := by
  unfold Gen.Verify.QuantizedParameters.new QParams.new
  simp only [vmi, C18G_qparams_verify]
  by_cases h1 : order ≤ 24
  · by_cases h2 : coefs.length = order
    · rw [req_of _ _ (by simp [h2]; omega)]
      have d1 : decide (order ≤ Gen.Const.qlpc_MAX_ORDER) = true := decide_eq_true h1
      simp only [d1, h1, h2, decide_true, andThen_true, true_and, if_true]
      cases (QParams.verify ⟨coefs, shift, precision⟩) <;> simp
    · have d1 : decide (order ≤ Gen.Const.qlpc_MAX_ORDER) = true := decide_eq_true h1
      simp [d1, h1, h2]
  · have d1 : decide (order ≤ Gen.Const.qlpc_MAX_ORDER) = false := decide_eq_false h1
    simp [d1, h1]

example : Gen.Verify.QuantizedParameters.new [1, -2] 2 3 7 = some (some ⟨[1, -2], 3, 7⟩) ∧
    Gen.Verify.QuantizedParameters.new [64] 1 3 7 = some none := by decide

/-! ### glue for constructors: `if <conjunction> then some v else none` -/

theorem guardC {α : Type} (a b : Bool) (v : α) (X : CR α) (h : a = true → X = some (if b = true then some v else none)) :
    andThen none (some a) X = some (if (a && b) = true then some v else none) := by
  cases a with
  | false => rfl
  | true => simpa using h rfl

theorem lastC {α : Type} (a : Bool) (v : α) :
    andThen none (some a) (some (some v)) = some (if a = true then some v else none) := by
  cases a <;> rfl

theorem fromSlice_guardC {α β : Type} (cap : Nat) (xs : List α) (b : Bool) (v : β) (k : List α → CR β)
    (h : xs.length ≤ cap → k xs = some (if b = true then some v else none)) :
    bindC none (fromSlice cap xs) k = some (if (decide (xs.length ≤ cap) && b) = true then some v else none) := by
  unfold fromSlice
  by_cases hc : xs.length ≤ cap
  · simp only [hc, if_true, bindC_ok, h hc, decide_true, Bool.true_and]
  · simp [hc]

/-! ### Constant, Verbatim, FixedLpc -/

theorem bps_range {b : Nat} (h : verifyBps b = true) : 8 ≤ b ∧ b ≤ 25 := by
  unfold verifyBps at h
  simp only [Bool.and_eq_true, decide_eq_true_eq] at h
  omega

theorem bps_mod {b : Nat} (h : verifyBps b = true) : b % 256 = b :=
  Nat.mod_eq_of_lt (by have := bps_range h; omega)

theorem forV_samples (xs : List Int) (b : Nat) (h : verifyBps b = true) :
    forV xs (fun v => verify_sample_range v b) = some (xs.all (verifySample b)) :=
  forV_all _ _ _ (fun v _ => C18G_verify_sample_range v b (by have := bps_range h; omega) (by have := bps_range h; omega))

theorem C18G_constant_verify (bs : Nat) (dc : Int) (bps : Nat) :
    Gen.Verify.Constant.verify bs dc bps = some (verifyBlockSize bs && (verifyBps bps && verifySample bps dc)) := by
  unfold Gen.Verify.Constant.verify
  try dsimp only
  rw [C18G_verify_block_size, C18G_verify_bps]
  refine andThen_guard _ _ _ (fun _ => andThen_guard _ _ _ (fun h => ?_))
  exact C18G_verify_sample_range dc bps (by have := bps_range h; omega) (by have := bps_range h; omega)

theorem C18G_constant_new (bs : Nat) (dc : Int) (bps : Nat) :
    Gen.Verify.Constant.new bs dc bps = some (FlacVerif.Constant.new bs dc bps) := by
  unfold Gen.Verify.Constant.new FlacVerif.Constant.new
  try dsimp only
  rw [C18G_verify_block_size, C18G_verify_bps]
  simp only [Bool.and_assoc]
  refine guardC _ _ _ _ (fun _ => guardC _ _ _ _ (fun h => ?_))
  rw [C18G_verify_sample_range dc bps (by have := bps_range h; omega) (by have := bps_range h; omega), bps_mod h]
  exact lastC _ _

example : Gen.Verify.Constant.new 4096 (-5) 16 = some (some (.constant 4096 (-5) 16)) ∧
    Gen.Verify.Constant.new 4096 40000 16 = some none ∧ Gen.Verify.Constant.new 4096 0 (256 + 16) = some none := by decide

theorem C18G_verbatim_verify (xs : List Int) (bps : Nat) :
    Gen.Verify.Verbatim.verify xs bps = some (verifyBlockSize xs.length && (verifyBps bps && xs.all (verifySample bps))) := by
  unfold Gen.Verify.Verbatim.verify
  try dsimp only
  rw [C18G_verify_block_size, C18G_verify_bps]
  exact andThen_guard _ _ _ (fun _ => andThen_guard _ _ _ (fun h => forV_samples xs bps h))

/-- `Verbatim::new`: the hand model tests the three conditions in another order (bps, samples, length) than the
source (length, bps, samples); no panic can occur before the last one, so the decisions coincide. -/
theorem C18G_verbatim_new (xs : List Int) (bps : Nat) :
    Gen.Verify.Verbatim.new xs bps = some (FlacVerif.Verbatim.new xs bps) := by
  unfold Gen.Verify.Verbatim.new FlacVerif.Verbatim.new
  try dsimp only
  rw [C18G_verify_block_size, C18G_verify_bps]
  have e : (verifyBps bps && xs.all (verifySample bps) && verifyBlockSize xs.length) =
      (verifyBlockSize xs.length && (verifyBps bps && xs.all (verifySample bps))) := by
    cases verifyBps bps <;> cases xs.all (verifySample bps) <;> cases verifyBlockSize xs.length <;> rfl
  rw [e]
  refine guardC _ _ _ _ (fun _ => guardC _ _ _ _ (fun h => ?_))
  rw [forV_samples xs bps h, bps_mod h]
  exact lastC _ _

example : Gen.Verify.Verbatim.new [1, -2, 3] 8 = some (some (.verbatim [1, -2, 3] 8)) ∧
    Gen.Verify.Verbatim.new [1, 128, 3] 8 = some none ∧ Gen.Verify.Verbatim.new [] 8 = some none := by decide

theorem C18G_fixed_verify (warm : List Int) (res : Residual) (bps : Nat)
    (hq : ∀ q ∈ res.quotients, q < 2 ^ 32) (hp : ∀ p ∈ res.params, p < 256) :
    Gen.Verify.FixedLpc.verify warm res bps =
      some (verifyBps bps && (warm.all (verifySample bps) && (decide (warm.length = res.warmup) && res.verify))) := by
  unfold Gen.Verify.FixedLpc.verify
  try dsimp only
  rw [C18G_verify_bps, C18G_residual_verify res hq hp]
  refine andThen_guard _ _ _ (fun h => ?_)
  rw [forV_samples warm bps h]
  simp

theorem C18G_fixed_new (warm : List Int) (res : Residual) (bps : Nat)
    (hq : ∀ q ∈ res.quotients, q < 2 ^ 32) (hp : ∀ p ∈ res.params, p < 256) :
    Gen.Verify.FixedLpc.new warm res bps = some (FlacVerif.FixedLpc.new warm res bps) := by
  unfold Gen.Verify.FixedLpc.new FlacVerif.FixedLpc.new
  try dsimp only
  rw [C18G_verify_bps]
  simp only [Bool.and_assoc, Bool.beq_eq_decide_eq]
  refine guardC _ _ _ _ (fun h => ?_)
  rw [forV_samples warm bps h]
  refine guardC _ _ _ _ (fun h3 => ?_)
  refine fromSlice_guardC _ _ _ _ _ (fun h4 => ?_)
  rw [C18G_fixed_verify warm res _ hq hp, bps_mod h, h, h3]
  simp only [Bool.true_and]
  exact lastC _ _

/-- accepted; warm-up length ≠ the residual's; more than 4 warm-up samples -/
example : Gen.Verify.FixedLpc.new [5] exRes 16 = some (some (.fixed [5] exRes 16)) ∧
    Gen.Verify.FixedLpc.new [5, 6] exRes 16 = some none ∧ Gen.Verify.FixedLpc.new [1, 2, 3, 4, 5] exRes 16 = some none := by decide

/-! ### Lpc -/

theorem C18G_lpc_verify (warm coefs : List Int) (shift : Int) (precision : Nat) (res : Residual) (bps : Nat)
    (hq : ∀ q ∈ res.quotients, q < 2 ^ 32) (hp : ∀ p ∈ res.params, p < 256) :
    Gen.Verify.Lpc.verify warm coefs shift precision res bps =
      some ((QParams.verify ⟨coefs, shift, precision⟩) && (verifyBps bps && (warm.all (verifySample bps) &&
        (decide (1 ≤ coefs.length) && (decide (warm.length = coefs.length) && (decide (warm.length = res.warmup) &&
          res.verify)))))) := by
  unfold Gen.Verify.Lpc.verify
  try dsimp only
  rw [C18G_qparams_verify, C18G_verify_bps, C18G_residual_verify res hq hp]
  refine andThen_guard _ _ _ (fun _ => andThen_guard _ _ _ (fun h => ?_))
  rw [forV_samples warm bps h]
  simp

theorem C18G_lpc_new (warm : List Int) (q : QParams) (res : Residual) (bps : Nat)
    (hq : ∀ x ∈ res.quotients, x < 2 ^ 32) (hp : ∀ p ∈ res.params, p < 256) :
    Gen.Verify.Lpc.new warm q res bps = some (FlacVerif.Lpc.new warm q res bps) := by
  unfold Gen.Verify.Lpc.new FlacVerif.Lpc.new
  try dsimp only
  rw [C18G_verify_bps]
  simp only [Bool.and_assoc, Bool.beq_eq_decide_eq, vmi]
  refine guardC _ _ _ _ (fun h => ?_)
  rw [forV_samples warm bps h]
  refine guardC _ _ _ _ (fun h3 => ?_)
  refine fromSlice_guardC _ _ _ _ _ (fun h4 => ?_)
  refine guardC _ _ _ _ (fun h5 => ?_)
  rw [req_of _ _ h5, C18G_lpc_verify warm _ _ _ res _ hq hp, bps_mod h, h, h3, h5]
  simp only [Bool.true_and]
  exact lastC _ _


/-- accepted; a coefficient outside 4 bits; two coefficients for one warm-up sample -/
example : Gen.Verify.Lpc.new [5] ⟨[3], 2, 4⟩ exRes 16 = some (some (.lpc [5] [3] 2 4 exRes 16)) ∧
    Gen.Verify.Lpc.new [5] ⟨[9], 2, 4⟩ exRes 16 = some none ∧ Gen.Verify.Lpc.new [5] ⟨[3, 1], 2, 4⟩ exRes 16 = some none := by decide

/-! ### ChannelAssignment, FrameHeader -/

theorem C18G_channel_verify (c : ChannelAssignment) :
    Gen.Verify.ChannelAssignment.verify (C02Hdr.caToGen c) = some c.verify := by
  cases c with
  | independent n =>
    unfold Gen.Verify.ChannelAssignment.verify FlacVerif.ChannelAssignment.verify
    simp only [C02Hdr.caToGen, vmi, andThen_some]
    rfl
  | _ => rfl

example : Gen.Verify.ChannelAssignment.verify (.Independent 8) = some true ∧
    Gen.Verify.ChannelAssignment.verify (.Independent 9) = some false ∧
    Gen.Verify.ChannelAssignment.verify (.Independent 0) = some false := by decide

theorem fromBits_tag (bits : Nat) (s : Gen.Headers.SampleSizeSpec) (h : Gen.Headers.SampleSizeSpec.from_bits bits = some s) :
    Gen.Headers.SampleSizeSpec.into_tag s ≠ 0 ∧ (Gen.Headers.SampleSizeSpec.into_tag s = 7 ↔ s = .B32) := by
  unfold Gen.Headers.SampleSizeSpec.from_bits at h
  repeat' split at h
  all_goals first | (cases h; done) | (cases h; decide)

def offsetOf (isVar : Bool) (number : Nat) : FrameOffset := if isVar then .StartSample number else .Frame number

theorem C18G_header_new (bs : Nat) (asg : ChannelAssignment) (bps rate : Nat) (isVar : Bool) (number : Nat) :
    (Gen.Verify.FrameHeader.new bs (C02Hdr.caToGen asg) bps rate (offsetOf isVar number)).map (Option.map C08Gen.hdrOfGen) =
      some (FlacVerif.FrameHeader.new bs asg bps rate isVar number) := by
  unfold Gen.Verify.FrameHeader.new FlacVerif.FrameHeader.new
  try dsimp only
  rw [C18G_verify_block_size]
  cases hb : verifyBlockSize bs
  · simp
  · have hbs : 1 ≤ bs ∧ bs ≤ 32767 := by
      unfold verifyBlockSize maxBlockSize at hb
      simp only [Bool.and_eq_true, decide_eq_true_eq] at hb; omega
    have hm : bs % 65536 = bs := Nat.mod_eq_of_lt (by omega)
    have hex : Gen.Headers.BlockSizeSpec.from_size_exact bs = true :=
      (C02Hdr.C02H_blockSize_fromSize_exact bs (by omega)).mpr (by omega)
    have hfs := C02Hdr.C02H_blockSize_fromSize bs (by omega)
    rw [hex] at hfs
    simp only [andThen_true, vmi, hm, hex, req_true, hfs, if_true, Bool.not_true]
    by_cases h1 : bps ≤ 255
    case neg => simp [h1]; omega
    by_cases h2 : rate ≤ 4294967295
    case neg => simp [h1, h2]; omega
    have hm2 : bps % 256 = bps := Nat.mod_eq_of_lt (by omega)
    have hm3 : rate % 4294967296 = rate := Nat.mod_eq_of_lt (by omega)
    have hn : ¬ (bps ≥ 256 ∨ rate ≥ 2 ^ 32) := by omega
    simp only [h1, h2, decide_true, andThen_true, hm2, hm3, hn, if_false, Bool.false_eq_true]
    have htag := C02Hdr.C02H_sampleSizeTag bps (by omega)
    cases hfb : Gen.Headers.SampleSizeSpec.from_bits bps with
    | none =>
      rw [hfb] at htag
      have : sampleSizeTag bps = 0 := by rw [htag]; rfl
      simp [this]
    | some sss =>
      rw [hfb] at htag
      obtain ⟨t0, t7⟩ := fromBits_tag bps sss hfb
      simp only [Option.getD_some] at htag
      simp only [bindC_ok]
      by_cases h32 : sss = Gen.Headers.SampleSizeSpec.B32
      case pos =>
        have h7 : sampleSizeTag bps = 7 := by rw [htag]; exact t7.mpr h32
        simp [h32, h7]
      have hnt : ¬ (sampleSizeTag bps = 0 ∨ sampleSizeTag bps = 7) := by
        rw [htag]; intro h; rcases h with h | h
        · exact t0 h
        · exact h32 (t7.mp h)
      simp only [h32, ne_eq, not_false_eq_true, decide_true, andThen_true, hnt, if_false, C18G_channel_verify]
      cases hv : asg.verify
      case false => simp
      simp only [andThen_true, Bool.not_true, Bool.false_eq_true, if_false]
      rw [C02Hdr.C02H_sampleRate_fromFreq rate (by omega)]
      cases isVar
      case false =>
        simp only [offsetOf, Bool.false_eq_true, if_false, andThen_true, false_and]
        cases hsr : Gen.Headers.SampleRateSpec.from_freq rate <;>
          simp [Gen.Verify.FrameHeader.set_frame_offset, Gen.Verify.FrameHeader.set_frame_number, C08Gen.hdrOfGen,
            C02Hdr.caOfGen_toGen, htag]
      case true =>
        simp only [offsetOf, if_true, true_and]
        by_cases hnum : number < 2 ^ 36
        · have hn2 : ¬ number ≥ 2 ^ 36 := by omega
          simp only [hn2, if_false]
          have hnum' : number < 68719476736 := by omega
          cases hsr : Gen.Headers.SampleRateSpec.from_freq rate <;>
            simp [Gen.Verify.FrameHeader.set_frame_offset, Gen.Verify.FrameHeader.set_start_sample_number, C08Gen.hdrOfGen,
              C02Hdr.caOfGen_toGen, htag, hnum']
        · have hn2 : number ≥ 2 ^ 36 := by omega
          have hnum' : ¬ number < 68719476736 := by omega
          simp [hn2, hnum']

/-- accepted; 9 independent channels; 32 bits; a start sample of 37 bits; block size 0 -/
example : Gen.Verify.FrameHeader.new 4096 (.Independent 2) 16 44100 (.Frame 7) =
      some (some ⟨false, .Pow2Mul256 4, .Independent 2, .B16, .R44_1kHz, 7, 0⟩) ∧
    Gen.Verify.FrameHeader.new 4096 (.Independent 9) 16 44100 (.Frame 7) = some none ∧
    Gen.Verify.FrameHeader.new 4096 (.Independent 2) 32 44100 (.Frame 7) = some none ∧
    Gen.Verify.FrameHeader.new 4096 (.Independent 2) 16 44100 (.StartSample (2 ^ 36)) = some none ∧
    Gen.Verify.FrameHeader.new 0 (.Independent 2) 16 44100 (.Frame 7) = some none := by decide

/-- `impl Verify for FrameHeader` on a header whose block-size code is not the reserved one (`n` = its block size;
`hex`: the payload of the code is in its Rust type's range). -/
theorem C18G_header_verify (g : Gen.Writer.FrameHeader) (n : Nat)
    (hex : Gen.Headers.BlockSizeSpec.block_size_exact g.block_size_spec = true)
    (hn : Gen.Headers.BlockSizeSpec.block_size g.block_size_spec = some n) :
    Gen.Verify.FrameHeader.verify g =
      some (verifyBlockSize n && ((!g.variable_block_size || decide (g.start_sample_number < 2 ^ 36)) &&
        (C02Hdr.caOfGen g.channel_assignment).verify)) := by
  unfold Gen.Verify.FrameHeader.verify
  have e1 : Gen.Verify.FrameHeader.block_size_exact g = true := by
    unfold Gen.Verify.FrameHeader.block_size_exact; simp [hex, hn]
  have e2 : Gen.Verify.FrameHeader.block_size g = n := by
    unfold Gen.Verify.FrameHeader.block_size; simp [hn]
  have e3 := C18G_channel_verify (C02Hdr.caOfGen g.channel_assignment)
  rw [C02Hdr.caToGen_ofGen] at e3
  simp only [e1, e2, req_true, vmi, andThen_some, e3]
  have hb : (decide (n ≥ 1) && decide (n ≤ Gen.Const.MAX_BLOCK_SIZE)) = verifyBlockSize n := rfl
  rw [hb]
  refine andThen_guard _ _ _ (fun _ => ?_)
  cases g.variable_block_size
  · simp
  · simp only [if_true, andThen_some, Bool.not_true, Bool.false_or]
    rfl

/-- `FrameHeader::block_size()` is `.expect(..)` on the reserved block-size code: `verify` PANICS on such a header
(it can only come from deserialisation; `FrameHeader::new` never builds it). -/
theorem C18G_header_verify_panics (g : Gen.Writer.FrameHeader) (h : g.block_size_spec = .Reserved) :
    Gen.Verify.FrameHeader.verify g = none := by
  unfold Gen.Verify.FrameHeader.verify Gen.Verify.FrameHeader.block_size_exact
  simp [h, Gen.Headers.BlockSizeSpec.block_size]

example : Gen.Verify.FrameHeader.verify C08Gen.exHeader = some true ∧
    Gen.Verify.FrameHeader.verify { C08Gen.exHeader with channel_assignment := .Independent 9 } = some false ∧
    Gen.Verify.FrameHeader.verify { C08Gen.exHeader with block_size_spec := .Reserved } = none := by decide

/-- `impl Verify for StreamInfo`, every value: no panic; the decision, written out. -/
theorem C18G_streaminfo_verify (s : StreamInfo) :
    Gen.Verify.StreamInfo.verify s =
      some ((decide (s.total = 0) || (decide (s.minBlock ≤ s.maxBlock) && (verifyBlockSize s.minBlock &&
          (verifyBlockSize s.maxBlock && decide (s.minFrame ≤ s.maxFrame))))) &&
        (decide (s.rate ≤ 96000) && ((decide (1 ≤ s.channels) && decide (s.channels ≤ 8)) &&
          (verifyBps s.bps && decide (s.bps % 4 = 0))))) := by
  unfold Gen.Verify.StreamInfo.verify
  simp only [vmi, C18G_verify_block_size, C18G_verify_bps, andThen_some, ge_iff_le]
  by_cases h0 : s.total = 0 <;> simp [h0, Bool.and_assoc]

theorem C18G_streaminfo_new (rate channels bps : Nat) :
    Gen.Verify.StreamInfo.new rate channels bps = some (FlacVerif.StreamInfo.new rate channels bps) := by
  unfold Gen.Verify.StreamInfo.new FlacVerif.StreamInfo.new
  simp only [vmi, andThen_some, C18G_streaminfo_verify]
  by_cases h1 : rate ≤ 96000
  case neg => simp [h1]
  by_cases h2 : 1 ≤ channels ∧ channels ≤ 8
  case neg =>
    have : (decide (channels ≥ 1) && decide (channels ≤ Gen.Const.MAX_CHANNELS)) = false := by
      have : Gen.Const.MAX_CHANNELS = 8 := rfl
      simp only [this]; simp; omega
    simp only [this]; simp [h1]; intro _ h; omega
  by_cases h3 : bps ≤ 255
  case neg =>
    simp [h1, h3]
    cases (decide (1 ≤ channels) && decide (channels ≤ Gen.Const.MAX_CHANNELS)) <;> rfl
  have : (decide (channels ≥ 1) && decide (channels ≤ Gen.Const.MAX_CHANNELS)) = true := by
    have : Gen.Const.MAX_CHANNELS = 8 := rfl
    simp only [this]; simp; omega
  have m1 : rate % 4294967296 = rate := Nat.mod_eq_of_lt (by omega)
  have m2 : channels % 256 = channels := Nat.mod_eq_of_lt (by omega)
  have m3 : bps % 256 = bps := Nat.mod_eq_of_lt (by omega)
  simp only [this, h1, h3, decide_true, andThen_true, m1, m2, m3]
  cases hv : verifyBps bps <;> by_cases h4 : bps % 4 = 0 <;> simp [h4, h2, StreamInfo.empty]

example : Gen.Verify.StreamInfo.new 44100 2 16 = some (some (StreamInfo.empty 44100 2 16)) ∧
    Gen.Verify.StreamInfo.new 44100 2 17 = some none ∧ Gen.Verify.StreamInfo.new 96001 2 16 = some none ∧
    Gen.Verify.StreamInfo.new 44100 (256 + 2) 16 = some none := by decide

theorem C18G_unknown_new (tag : Nat) (data : List Nat) :
    Gen.Verify.MetadataBlockData.new_unknown tag data =
      some ((UnknownBlock.new tag data).map fun u => Gen.Writer.MetadataBlockData.Unknown u.tag u.data) := by
  unfold Gen.Verify.MetadataBlockData.new_unknown UnknownBlock.new
  simp only [vmi, andThen_some]
  by_cases h : 1 ≤ tag ∧ tag ≤ 126
  · have : (decide (tag ≥ 1) && decide (tag ≤ 126)) = true := by simp; omega
    simp [h]
  · have : (decide (tag ≥ 1) && decide (tag ≤ 126)) = false := by simp; omega
    simp [this, h]

example : Gen.Verify.MetadataBlockData.new_unknown 4 [1, 2] = some (some (.Unknown 4 [1, 2])) ∧
    Gen.Verify.MetadataBlockData.new_unknown 0 [] = some none ∧ Gen.Verify.MetadataBlockData.new_unknown 127 [] = some none := by
  decide

theorem C18G_blockdata_verify (d : Gen.Writer.MetadataBlockData) :
    Gen.Verify.MetadataBlockData.verify d =
      match d with | .StreamInfo s => Gen.Verify.StreamInfo.verify s | .Unknown _ _ => some true := by
  cases d <;> rfl

theorem C18G_block_verify (b : Gen.Writer.MetadataBlock) :
    Gen.Verify.MetadataBlock.verify b = Gen.Verify.MetadataBlockData.verify b.data := rfl

theorem C18G_frame_new (h : Gen.Writer.FrameHeader) (subs : List SubFrame) :
    Gen.Verify.Frame.new h subs =
      some (if (C02Hdr.caOfGen h.channel_assignment).channels = subs.length then some ⟨h, subs, none⟩ else none) := by
  unfold Gen.Verify.Frame.new
  have := C02Hdr.C02H_channel_channels (C02Hdr.caOfGen h.channel_assignment)
  rw [C02Hdr.caToGen_ofGen] at this
  simp only [vmi, this]
  by_cases hc : Gen.Headers.ChannelAssignment.channels h.channel_assignment = subs.length <;> simp [hc]

example : Gen.Verify.Frame.new C08Gen.exHeader [.constant 8 1 16, .constant 8 2 17] =
      some (some ⟨C08Gen.exHeader, [.constant 8 1 16, .constant 8 2 17], none⟩) ∧
    Gen.Verify.Frame.new C08Gen.exHeader [.constant 8 1 16] = some none := by decide

/-! ### StreamInfo setters (`&mut self`: the outcome is the pair (accepted?, the new `self`)) -/

theorem C18G_set_total_samples (s : StreamInfo) (n : Nat) :
    Gen.Verify.StreamInfo.set_total_samples s n = { s with total := n } := rfl

@[simp] theorem tryIntoC_lt (bits v : Nat) (h : v < 2 ^ bits) : tryIntoC bits v = some (some v) := by simp [tryIntoC, h]
@[simp] theorem tryIntoC_ge (bits v : Nat) (h : ¬ v < 2 ^ bits) : tryIntoC bits v = some none := by simp [tryIntoC, h]

theorem C18G_set_block_sizes (s : StreamInfo) (mn mx : Nat) :
    Gen.Verify.StreamInfo.set_block_sizes s mn mx =
      some (verifyBlockSize mn && (verifyBlockSize mx && decide (mn ≤ mx)),
        if mn < 65536 then (if mx < 65536 then { s with minBlock := mn, maxBlock := mx } else { s with minBlock := mn }) else s) := by
  unfold Gen.Verify.StreamInfo.set_block_sizes
  have big : ∀ n, ¬ n < 65536 → verifyBlockSize n = false := by
    intro n h; unfold verifyBlockSize maxBlockSize; simp; omega
  by_cases h1 : mn < 65536
  · by_cases h2 : mx < 65536
    · simp only [tryIntoC_lt 16 mn (by simpa using h1), tryIntoC_lt 16 mx (by simpa using h2), bindC_ok, h1, h2, if_true,
        C18G_verify_block_size, vmi]
      cases verifyBlockSize mn <;> cases verifyBlockSize mx <;> cases decide (mn ≤ mx) <;> rfl
    · simp [h1, h2, big mx h2]
  · simp [h1, big mn h1]

theorem C18G_set_frame_sizes (s : StreamInfo) (mn mx : Nat) :
    Gen.Verify.StreamInfo.set_frame_sizes s mn mx =
      some (decide (mn < 2 ^ 32) && (decide (mx < 2 ^ 32) && decide (mn ≤ mx)),
        if mn < 2 ^ 32 then (if mx < 2 ^ 32 then { s with minFrame := mn, maxFrame := mx } else { s with minFrame := mn }) else s) := by
  unfold Gen.Verify.StreamInfo.set_frame_sizes
  by_cases h1 : mn < 2 ^ 32
  · by_cases h2 : mx < 2 ^ 32
    · simp only [tryIntoC_lt 32 mn h1, tryIntoC_lt 32 mx h2, bindC_ok, h1, h2, if_true, vmi, decide_true, Bool.true_and]
      cases decide (mn ≤ mx) <;> rfl
    · simp [h1, h2]
  · simp [h1]

example : (Gen.Verify.StreamInfo.set_block_sizes (StreamInfo.empty 44100 2 16) 4096 4096).map (·.1) = some true ∧
    (Gen.Verify.StreamInfo.set_block_sizes (StreamInfo.empty 44100 2 16) 4096 16).map (·.1) = some false ∧
    -- the rejected values stay in `self`:
    (Gen.Verify.StreamInfo.set_block_sizes (StreamInfo.empty 44100 2 16) 4096 16).map (·.2.minBlock) = some 4096 := by decide

/-! ### SubFrame, Frame -/

/-- The decision of `impl Verify for SubFrame` in terms of the hand model's functions. -/
def subframeVerify : SubFrame → Bool
  | .constant n dc b => verifyBlockSize n && (verifyBps b && verifySample b dc)
  | .verbatim xs b => verifyBlockSize xs.length && (verifyBps b && xs.all (verifySample b))
  | .fixed w r b => verifyBps b && (w.all (verifySample b) && (decide (w.length = r.warmup) && r.verify))
  | .lpc w c sh p r b => (QParams.verify ⟨c, sh, p⟩) && (verifyBps b && (w.all (verifySample b) &&
      (decide (1 ≤ c.length) && (decide (w.length = c.length) && (decide (w.length = r.warmup) && r.verify)))))

/-- element types of the residual of a predicted subframe: quotients `u32`, Rice parameters `u8` -/
def SubDom : SubFrame → Prop
  | .fixed _ r _ => (∀ q ∈ r.quotients, q < 2 ^ 32) ∧ ∀ p ∈ r.params, p < 256
  | .lpc _ _ _ _ r _ => (∀ q ∈ r.quotients, q < 2 ^ 32) ∧ ∀ p ∈ r.params, p < 256
  | _ => True

theorem C18G_subframe_verify (s : SubFrame) (hd : SubDom s) :
    Gen.Verify.SubFrame.verify s = some (subframeVerify s) := by
  cases s with
  | constant n dc b => exact C18G_constant_verify n dc b
  | verbatim xs b => exact C18G_verbatim_verify xs b
  | fixed w r b => exact C18G_fixed_verify w r b hd.1 hd.2
  | lpc w c sh p r b => exact C18G_lpc_verify w c sh p r b hd.1 hd.2

theorem forV_zip_self (xs : List Nat) :
    forV (List.zip xs xs) (fun (x : Nat × Nat) => some (decide (x.1 = x.2))) = some true := by
  induction xs with
  | nil => rfl
  | cons x xs ih => simp [forV, ih]

section frame
variable (stale : List Nat) (enc : Nat → Option (List Nat)) (encx : Nat → Bool) (asSlice : List Op → List Nat)
  (crc8 : List Nat → Nat) (len : List Op → Nat) (wtbs : List Op → List Nat → List Nat) (crc16 : List Nat → Nat)
  (inner : List Op → List Nat)

/-- `impl Verify for Frame` without a precomputed bitstream: the subframes in order, then the header. -/
theorem C18G_frame_verify (g : Gen.Writer.Frame) (hp : g.precomputed_bitstream = none) :
    Gen.Verify.Frame.verify stale enc encx asSlice crc8 len wtbs crc16 inner g =
      andThen false (forV g.subframes Gen.Verify.SubFrame.verify) (Gen.Verify.FrameHeader.verify g.header) := by
  unfold Gen.Verify.Frame.verify
  simp [hp]

/-- WITH a precomputed bitstream the "recompute and compare" block of `Frame::verify` is VACUOUS: `Frame::write`
forwards the precomputed bytes themselves (`dest.write_bytes_aligned(bytes)`), so the reference is the buffer under
test. For any read-out `inner` of the local sink that returns the bytes of one aligned byte write, the block
passes whatever `buf` is; `verify` does NOT detect a stale or corrupted precomputed bitstream. -/
theorem C18G_frame_verify_precomputed (g : Gen.Writer.Frame) (buf : List Nat) (hp : g.precomputed_bitstream = some buf)
    (hi : inner [Op.writeBytesAligned buf] = buf) :
    Gen.Verify.Frame.verify stale enc encx asSlice crc8 len wtbs crc16 inner g =
      andThen false (forV g.subframes Gen.Verify.SubFrame.verify) (Gen.Verify.FrameHeader.verify g.header) := by
  unfold Gen.Verify.Frame.verify
  have h1 : Gen.Writer.Frame.count_bits_exact g = true := by simp [Gen.Writer.Frame.count_bits_exact, hp]
  have h2 : Gen.Writer.Frame.write_exact stale enc encx asSlice crc8 len wtbs crc16 g = true := by
    simp [Gen.Writer.Frame.write_exact, hp]
  have h3 : Gen.Writer.Frame.write stale enc encx asSlice crc8 len wtbs crc16 g = some [Op.writeBytesAligned buf] := by
    simp [Gen.Writer.Frame.write, hp, Gen.Writer.emit]
  simp only [hp, h1, h2, h3, req_true, bindOps, hi, vmi, decide_true, andThen_true]
  have := forV_zip_self buf
  simp [this]

end frame

/-- the externals of `Frame::write` are irrelevant without a precomputed bitstream -/
def fv0 := Gen.Verify.Frame.verify [] (fun _ => none) (fun _ => true) (fun _ => []) (fun _ => 0) (fun _ => 0) (fun _ l => l)
  (fun _ => 0) (fun _ => [])
def sv0 := Gen.Verify.Stream.verify [] (fun _ => none) (fun _ => true) (fun _ => []) (fun _ => 0) (fun _ => 0) (fun _ l => l)
  (fun _ => 0) (fun _ => [])
def exF (n : Nat) : Gen.Writer.Frame := ⟨{ C08Gen.exHeader with frame_number := n }, [.constant 8 1 16, .constant 8 2 17], none⟩

example : fv0 (exF 3) = some true ∧
    fv0 ⟨C08Gen.exHeader, [.constant 8 1 16, .constant 8 70000 17], none⟩ = some false ∧
    fv0 ⟨{ C08Gen.exHeader with block_size_spec := .Reserved }, [], none⟩ = none := by decide


/-! ### Stream -/

/-- `for x in xs { check(x, state)?; state = next(x, state); }` -/
def allS {α σ : Type} (g : α → σ → Bool) (h : α → σ → σ) : σ → List α → Bool
  | _, [] => true
  | s, x :: xs => g x s && allS g h (h x s) xs

theorem forVS_spec {α σ : Type} (xs : List α) (f : α → σ → Option (Bool × σ)) (g : α → σ → Bool) (h : α → σ → σ)
    (hf : ∀ x ∈ xs, ∀ s, f x s = some (g x s, if g x s = true then h x s else s)) (s : σ) :
    bindVS false (forVS xs s f) (fun _ => some true) = some (allS g h s xs) := by
  induction xs generalizing s with
  | nil => rfl
  | cons x xs ih =>
    rw [forVS, hf x (by simp) s]
    cases hg : g x s
    · simp [allS, hg, bindVS]
    · simp only [allS, hg, if_true, Bool.true_and]
      exact ih (fun y hy => hf y (by simp [hy])) _

section stream
variable (stale : List Nat) (enc : Nat → Option (List Nat)) (encx : Nat → Bool) (asSlice : List Op → List Nat)
  (crc8 : List Nat → Nat) (len : List Op → Nat) (wtbs : List Op → List Nat → List Nat) (crc16 : List Nat → Nat)
  (inner : List Op → List Nat)

/-- `Stream::verify_fixed_blocking_frames`: every frame is in fixed-blocking mode, carries the (wrapping `u32`)
count of the frames before it, and verifies; `fv` = the decision of `Frame::verify` on each frame (no panic). -/
theorem C18G_stream_fixed (s : Gen.Writer.Stream) (fv : Gen.Writer.Frame → Bool)
    (hF : ∀ f ∈ s.frames, Gen.Verify.Frame.verify stale enc encx asSlice crc8 len wtbs crc16 inner f = some (fv f)) :
    Gen.Verify.Stream.verify_fixed_blocking_frames stale enc encx asSlice crc8 len wtbs crc16 inner s =
      some (allS (fun f cur => (!f.header.variable_block_size && decide (f.header.frame_number = cur)) && fv f)
        (fun _ cur => (cur + 1) % 4294967296) 0 s.frames) := by
  unfold Gen.Verify.Stream.verify_fixed_blocking_frames
  refine forVS_spec _ _ _ _ (fun f hf cur => ?_) 0
  simp only [vmi, andThen_some, hF f hf]
  cases f.header.variable_block_size <;> cases decide (f.header.frame_number = cur) <;> cases fv f <;> simp

/-- `Stream::verify_variable_blocking_frames`: every frame is in variable-blocking mode, carries the (wrapping `u64`)
sum of the block sizes before it, and verifies. `Frame::verify` = `some _` implies the block-size code is not the
reserved one, so `block_size()` after it cannot panic (hypothesis `hB`). -/
theorem C18G_stream_variable (s : Gen.Writer.Stream) (fv : Gen.Writer.Frame → Bool)
    (hF : ∀ f ∈ s.frames, Gen.Verify.Frame.verify stale enc encx asSlice crc8 len wtbs crc16 inner f = some (fv f))
    (hB : ∀ f ∈ s.frames, Gen.Verify.FrameHeader.block_size_exact f.header = true) :
    Gen.Verify.Stream.verify_variable_blocking_frames stale enc encx asSlice crc8 len wtbs crc16 inner s =
      some (allS (fun f cur => (f.header.variable_block_size && decide (f.header.start_sample_number = cur)) && fv f)
        (fun f cur => (cur + Gen.Verify.FrameHeader.block_size f.header) % 18446744073709551616) 0 s.frames) := by
  unfold Gen.Verify.Stream.verify_variable_blocking_frames
  refine forVS_spec _ _ _ _ (fun f hf cur => ?_) 0
  simp only [vmi, andThen_some, hF f hf, hB f hf, req_true]
  cases f.header.variable_block_size <;> cases decide (f.header.start_sample_number = cur) <;> cases fv f <;> simp

end stream

/-- The decision of `impl Verify for StreamInfo` (`C18G_streaminfo_verify`). -/
def streamInfoVerify (s : StreamInfo) : Bool :=
  (decide (s.total = 0) || (decide (s.minBlock ≤ s.maxBlock) && (verifyBlockSize s.minBlock &&
      (verifyBlockSize s.maxBlock && decide (s.minFrame ≤ s.maxFrame))))) &&
    (decide (s.rate ≤ 96000) && ((decide (1 ≤ s.channels) && decide (s.channels ≤ 8)) &&
      (verifyBps s.bps && decide (s.bps % 4 = 0))))

/-- The decision of `impl Verify for MetadataBlock` (never a panic). -/
def blockVerify (m : Gen.Writer.MetadataBlock) : Bool :=
  match m.data with | .StreamInfo si => streamInfoVerify si | .Unknown _ _ => true

theorem C18G_block_verify' (m : Gen.Writer.MetadataBlock) : Gen.Verify.MetadataBlock.verify m = some (blockVerify m) := by
  unfold Gen.Verify.MetadataBlock.verify Gen.Verify.MetadataBlockData.verify blockVerify
  cases m.data with
  | StreamInfo si => exact C18G_streaminfo_verify si
  | Unknown _ _ => rfl

section stream2
variable (stale : List Nat) (enc : Nat → Option (List Nat)) (encx : Nat → Bool) (asSlice : List Op → List Nat)
  (crc8 : List Nat → Nat) (len : List Op → Nat) (wtbs : List Op → List Nat → List Nat) (crc16 : List Nat → Nat)
  (inner : List Op → List Nat)

/-- `impl Verify for Stream`, for a stream whose first block holds a STREAMINFO (otherwise `stream_info()` panics:
`C18G_stream_verify_panics`), with fewer than 2^64 metadata blocks, and whose frames do not make `Frame::verify`
panic (`fv` = its decision): STREAMINFO verifies; every metadata block verifies and `is_last` is set exactly on the
last one; the frames are all in the blocking mode of the first one and numbered consecutively. -/
theorem C18G_stream_verify (s : Gen.Writer.Stream) (info : StreamInfo) (hi : s.stream_info.data = .StreamInfo info)
    (hlen : s.metadata.length < 2 ^ 64) (fv : Gen.Writer.Frame → Bool)
    (hF : ∀ f ∈ s.frames, Gen.Verify.Frame.verify stale enc encx asSlice crc8 len wtbs crc16 inner f = some (fv f))
    (hB : ∀ f ∈ s.frames, Gen.Verify.FrameHeader.block_size_exact f.header = true) :
    Gen.Verify.Stream.verify stale enc encx asSlice crc8 len wtbs crc16 inner s =
      some (streamInfoVerify info &&
        ((List.zipIdx s.metadata).all (fun p => blockVerify p.1 &&
            ((decide (p.2 + 1 = s.metadata.length) || !p.1.is_last) && (!decide (p.2 + 1 = s.metadata.length) || p.1.is_last))) &&
        (if s.frames.length = 0 then true
         else if (s.frames.getD 0 default).header.variable_block_size then
           allS (fun f cur => (f.header.variable_block_size && decide (f.header.start_sample_number = cur)) && fv f)
             (fun f cur => (cur + Gen.Verify.FrameHeader.block_size f.header) % 18446744073709551616) 0 s.frames
         else
           allS (fun f cur => (!f.header.variable_block_size && decide (f.header.frame_number = cur)) && fv f)
             (fun _ cur => (cur + 1) % 4294967296) 0 s.frames))) := by
  unfold Gen.Verify.Stream.verify
  have e1 : Gen.Verify.Stream.stream_info_exact s = true := by simp [Gen.Verify.Stream.stream_info_exact, hi]
  have e2 : Gen.Verify.Stream.stream_info s = info := by simp [Gen.Verify.Stream.stream_info, hi]
  rw [e1, e2, req_true, C18G_streaminfo_verify]
  refine andThen_guard _ _ _ (fun _ => ?_)
  refine forV_guard _ _ _ _ _ (fun p hp => ?_) (fun _ => ?_)
  · obtain ⟨m, i⟩ := p
    have hlt := (List.mem_zipIdx' hp).1
    simp only [C18G_block_verify', vmi]
    rw [req_of _ _ (decide_eq_true (by omega))]
    cases blockVerify m <;> cases m.is_last <;> by_cases h : i + 1 = s.metadata.length <;> simp [h]
  · by_cases h0 : s.frames.length = 0
    · simp [h0]
    · simp only [h0, if_false]
      rw [req_of _ _ (decide_eq_true (by omega))]
      cases (s.frames.getD 0 default).header.variable_block_size
      · simp only [Bool.false_eq_true, if_false]
        exact C18G_stream_fixed stale enc encx asSlice crc8 len wtbs crc16 inner s fv hF
      · simp only [if_true]
        exact C18G_stream_variable stale enc encx asSlice crc8 len wtbs crc16 inner s fv hF hB

/-- `Stream::stream_info()` panics (`panic!("Stream is not properly initialized.")`) when the first block is not a
STREAMINFO; so does `verify`. (Only reachable through deserialisation.) -/
theorem C18G_stream_verify_panics (s : Gen.Writer.Stream) (t : Nat) (d : List Nat) (h : s.stream_info.data = .Unknown t d) :
    Gen.Verify.Stream.verify stale enc encx asSlice crc8 len wtbs crc16 inner s = none := by
  unfold Gen.Verify.Stream.verify
  simp [Gen.Verify.Stream.stream_info_exact, h]

end stream2

def exS (frames : List Gen.Writer.Frame) : Gen.Writer.Stream :=
  ⟨⟨false, .StreamInfo (StreamInfo.empty 44100 2 16)⟩, [⟨true, .Unknown 4 [1, 2]⟩], frames⟩
example : sv0 (exS [exF 0, exF 1]) = some true ∧ sv0 (exS [exF 0, exF 2]) = some false ∧
    sv0 { exS [] with metadata := [⟨false, .Unknown 4 []⟩] } = some false ∧
    sv0 { exS [] with stream_info := ⟨false, .Unknown 4 []⟩ } = none := by decide

/-- `Stream::new` = `StreamInfo::new` wrapped into a stream without further blocks or frames (`is_last` set). -/
theorem C18G_stream_new (rate channels bps : Nat) :
    Gen.Verify.Stream.new rate channels bps =
      some ((FlacVerif.StreamInfo.new rate channels bps).map fun si => ⟨⟨true, .StreamInfo si⟩, [], []⟩) := by
  unfold Gen.Verify.Stream.new
  rw [C18G_streaminfo_new]
  cases FlacVerif.StreamInfo.new rate channels bps <;> rfl

example : Gen.Verify.Stream.new 44100 2 16 = some (some ⟨⟨true, .StreamInfo (StreamInfo.empty 44100 2 16)⟩, [], []⟩) ∧
    Gen.Verify.Stream.new 44100 9 16 = some none := by decide

end FlacVerif.C18Gen
