/-
C08Gen3 — `encode_to_utf8like` (src/component/bitrepr.rs), the last function of the writer that part `writer` takes as a
parameter, is tied to the source: the hand model `encodeUtf8like` (Model/Codes.lean, used by `FrameHeader.bits/ops`,
`C02_utf8_strict`, `C08G_header_ops`) equals the code generated from the current text (`Gen/Utf8.lean`, part `utf8`,
tools/translate_utf8.py), in both cargo profiles.

Theorems:
  C08G3_encode_to_utf8like        for EVERY `val : Nat` (so every u64) and both profiles: generated = hand model; `Err` = `none`
  C08G3_utf8_cases                (a) spelled out: `Ok` with the model's bytes iff at most 36 bits, `Err` iff more, never a panic
                                  (the three `assert!`s, the `unwrap`s of the capacity-7 vector and the table index cannot fire)
  C08G3_bytesize                  (b) below 2^36 the number of bytes is the GENERATED `utf8like_bytesize` (Gen/Writer.lean)
  C08G3_param                     the parameter pair of Gen/Writer.lean built from the generated function (`utf8Param`,
                                  `utf8Exact`) is (`encodeUtf8like`, `fun _ => true`)
  C08G3_header_write_closed       (c) `C08G_header_ops` with the parameter discharged: `FrameHeader.write` with the generated
                                  encoder issues the hand model's operations; `C08G3_header_write_exact_closed` for `_exact`
No hypothesis on `val` is needed: beyond 2^64 both sides are `Err` as well.
-/
import FlacVerif.Gen.Utf8
import FlacVerif.Theorems.C08Gen
set_option linter.unusedSimpArgs false
set_option linter.unusedVariables false
namespace FlacVerif.C08Gen3
open FlacVerif.Gen.Sink FlacVerif.Gen.Utf8 FlacVerif.C08Gen

theorem and255 (x : Nat) : x &&& 255 = x % 256 := Nat.and_two_pow_sub_one_eq_mod x 8

/-- `u64::BITS - leading_zeros` is the bit length for a u64, and 64 beyond -/
theorem codeBits_eq (v : Nat) : 64 - Gen.Headers.leadingZeros 64 v = if v < 2 ^ 64 then bitLen v else 64 := by
  unfold Gen.Headers.leadingZeros bitLen
  by_cases h0 : v = 0
  · simp [h0]
  · by_cases hv : v < 2 ^ 64
    · have hl : Nat.log2 v < 64 := (Nat.log2_lt h0).2 hv
      simp only [h0, if_false, hv, if_true]; omega
    · have hl : ¬ (Nat.log2 v < 64) := fun h => hv ((Nat.log2_lt h0).1 h)
      simp only [h0, if_false, hv]; omega

theorem lt_of_bitLen (v n : Nat) (h : bitLen v ≤ n) : v < 2 ^ n := by
  unfold bitLen at h
  by_cases h0 : v = 0
  · subst h0; exact Nat.two_pow_pos n
  · simp only [h0, if_false] at h
    exact (Nat.log2_lt h0).1 (by omega)

theorem C08G3_encode_to_utf8like (dbg : Bool) (v : Nat) :
    encode_to_utf8like dbg v = some (match encodeUtf8like v with | some bs => .ok bs | none => .error ()) := by
  have hlz : Gen.Headers.leadingZeros 64 v ≤ 64 := by unfold Gen.Headers.leadingZeros; split <;> omega
  unfold encode_to_utf8like encodeUtf8like
  simp only [subU, hlz, if_true, Option.bind_some, codeBits_eq]
  by_cases hv : v < 2 ^ 64
  · simp only [hv, if_true]
    generalize hcb : bitLen v = cb
    have hvcb : v < 2 ^ cb := lt_of_bitLen v cb (by omega)
    by_cases h7 : cb ≤ 7
    · have : v < 2 ^ 7 := Nat.lt_of_lt_of_le hvcb (Nat.pow_le_pow_right (by omega) h7)
      have h256 : v % 256 = v := by omega
      simp [h7, pushCap, h256]
    · by_cases h36 : cb > 36
      · simp [h7, h36]
      · have h2 : 2 ≤ cb := by omega
        simp only [h7, h36, if_false, h2, if_true, Option.bind_some]
        generalize ht : (cb - 2) / 5 = t
        have htc : t = 1 ∨ t = 2 ∨ t = 3 ∨ t = 4 ∨ t = 5 ∨ t = 6 := by omega
        have hcap : cb ≤ 5 * t + 6 := by omega
        have hvcap : v < 2 ^ (5 * t + 6) := Nat.lt_of_lt_of_le hvcb (Nat.pow_le_pow_right (by omega) hcap)
        rcases htc with rfl | rfl | rfl | rfl | rfl | rfl <;>
          simp only [Nat.reducePow, Nat.reduceMul, Nat.reduceAdd] at hvcap <;>
          simp [req, mulU, addU, subU, shAmt, shlU, shrU, pushCap, UTF8_HEADS, forO, rangeL, List.range', and255, hcap,
            Nat.shiftRight_eq_div_pow, show List.range 1 = [0] from rfl, show List.range 2 = [0, 1] from rfl,
            show List.range 3 = [0, 1, 2] from rfl, show List.range 4 = [0, 1, 2, 3] from rfl,
            show List.range 5 = [0, 1, 2, 3, 4] from rfl, show List.range 6 = [0, 1, 2, 3, 4, 5] from rfl] <;>
          (repeat' apply And.intro) <;> (congr 1; omega)
  · have hb : 64 < bitLen v := by
      apply Nat.lt_of_not_le
      intro h
      exact hv (lt_of_bitLen v 64 h)
    have h7 : ¬ (bitLen v ≤ 7) := by omega
    have h36 : bitLen v > 36 := by omega
    simp [hv, h7, h36]

/-- (a) for every u64: `Err` exactly above 36 bits, never a panic (neither the three `assert!`s nor an `unwrap` nor an index can
fire, in either profile), the same bytes as the hand model -/
theorem C08G3_utf8_cases (dbg : Bool) (v : Nat) :
    (bitLen v ≤ 36 → ∃ bs, encode_to_utf8like dbg v = some (.ok bs) ∧ encodeUtf8like v = some bs) ∧
    (36 < bitLen v → encode_to_utf8like dbg v = some (.error ()) ∧ encodeUtf8like v = none) ∧
    encode_to_utf8like dbg v ≠ none := by
  have h := C08G3_encode_to_utf8like dbg v
  refine ⟨fun hb => ?_, fun hb => ?_, by rw [h]; simp⟩
  · cases hm : encodeUtf8like v with
    | none =>
      exfalso
      unfold encodeUtf8like at hm
      by_cases h7 : bitLen v ≤ 7
      · simp [h7] at hm
      · have : ¬ (bitLen v > 36) := by omega
        simp [h7, this] at hm
    | some bs => exact ⟨bs, by rw [h, hm], rfl⟩
  · have hm : encodeUtf8like v = none := by
      unfold encodeUtf8like
      have h7 : ¬ (bitLen v ≤ 7) := by omega
      simp [h7, hb]
    exact ⟨by rw [h, hm], hm⟩

/-- the parameter of `Gen.Writer.FrameHeader.write` / `Frame.write` / `Stream.write` that stands for `encode_to_utf8like`,
instantiated with the GENERATED function (`none` = `Err`; a panic would also be `none`, but `utf8Exact` shows there is none) -/
def utf8Param (dbg : Bool) (v : Nat) : Option (List Nat) :=
  match encode_to_utf8like dbg v with
  | some (.ok bs) => some bs
  | _ => none

/-- the `_exact` companion parameter: the generated function does not panic -/
def utf8Exact (dbg : Bool) (v : Nat) : Bool := (encode_to_utf8like dbg v).isSome

theorem C08G3_param (dbg : Bool) : utf8Param dbg = encodeUtf8like ∧ utf8Exact dbg = fun _ => true := by
  constructor
  · funext v
    simp only [utf8Param, C08G3_encode_to_utf8like dbg v]
    cases encodeUtf8like v <;> rfl
  · funext v
    simp [utf8Exact, C08G3_encode_to_utf8like dbg v]

/-- (b) the C08 fact: the number of bytes written is the generated `utf8like_bytesize`, for every value the encoder accepts -/
theorem C08G3_bytesize (dbg : Bool) (v : Nat) (hv : v < 2 ^ 36) :
    ∃ bs, encode_to_utf8like dbg v = some (.ok bs) ∧ bs.length = Gen.Writer.utf8like_bytesize v := by
  have h64 : v < 2 ^ 64 := Nat.lt_of_lt_of_le hv (by decide)
  rw [C08G3_encode_to_utf8like dbg v, C08G_utf8like_bytesize v h64]
  unfold encodeUtf8like utf8likeBytesize
  have hb : bitLen v ≤ 36 := by
    unfold bitLen
    by_cases h0 : v = 0
    · simp [h0]
    · have := (Nat.log2_lt h0).2 hv
      simp only [h0, if_false]; omega
  by_cases h7 : bitLen v ≤ 7
  · simp [h7]
  · have : ¬ (bitLen v > 36) := by omega
    simp [h7, this]; omega

/-- (c) `C08G_header_ops` with the parameter discharged: `FrameHeader::write` with the GENERATED `encode_to_utf8like` (both
profiles) issues the hand model's header operations -/
theorem C08G3_header_write_closed (dbg : Bool) (p8 : CrcParams) (g : Gen.Writer.FrameHeader) (hc : ChanOk g.channel_assignment) :
    Gen.Writer.FrameHeader.write (utf8Param dbg) (utf8Exact dbg) scratchBytes (crc p8) g = (hdrOfGen g).ops p8 := by
  rw [(C08G3_param dbg).1]
  exact C08G_header_ops p8 g _ hc

/-- the `_exact` side: the encoder contributes no panic condition to `FrameHeader::write` -/
theorem C08G3_header_write_exact_closed (dbg : Bool) (bs : List Op → List Nat) (ck : List Nat → Nat) (g : Gen.Writer.FrameHeader) :
    Gen.Writer.FrameHeader.write_exact (utf8Param dbg) (utf8Exact dbg) bs ck g
      = Gen.Writer.FrameHeader.write_exact encodeUtf8like (fun _ => true) bs ck g := by
  rw [(C08G3_param dbg).1, (C08G3_param dbg).2]

example : encode_to_utf8like true 300 = some (.ok [0xC4, 0xAC]) ∧ encode_to_utf8like false (2 ^ 36 - 1) = some (.ok [0xFE, 0xBF, 0xBF, 0xBF, 0xBF, 0xBF, 0xBF])
    ∧ encode_to_utf8like true (2 ^ 36) = some (.error ()) := by
  have h1 : encodeUtf8like 300 = some [0xC4, 0xAC] := by decide
  have h2 : encodeUtf8like (2 ^ 36 - 1) = some [0xFE, 0xBF, 0xBF, 0xBF, 0xBF, 0xBF, 0xBF] := by decide
  have h3 : encodeUtf8like (2 ^ 36) = none := by decide
  simp only [C08G3_encode_to_utf8like, h1, h2, h3, and_self]
end FlacVerif.C08Gen3
