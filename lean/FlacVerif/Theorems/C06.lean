/-
C06 — The multi-thread encoder never deadlocks, always terminates, joins all its threads and
returns what the single-thread loop returns, for every worker count `W ≥ 1`, every block list, every
fault plan (read error at read `k`, blocks with out-of-range samples, any combination) and every
interleaving.

Property theorems only. Model `FlacVerif/Model/Par.lean`, invariants `FlacVerif/Lemmas/Par*.lean`.
Blocking (send on a full channel, receive on an empty one, `join` of a running thread, `lock` of a
held mutex) is modelled as disabledness, so "some step is enabled" means "some thread is not
blocked"; there is no busy-waiting in the code, hence no fairness assumption is needed.
-/
import FlacVerif.Lemmas.ParFinal
import FlacVerif.Lemmas.ParLive
import FlacVerif.Lemmas.ParPot
import FlacVerif.Lemmas.ParExamples
import FlacVerif.Lemmas.ParEmptyBlock
namespace FlacVerif
open Par

/-- Every reachable state that is not final has an enabled step. -/
theorem C06_deadlock_free (p : Params) (hW : 0 < p.W) (hne : p.NonemptyBlocks)
    (s : State) (h : Reaches p s) (hnf : ¬ s.final) : ∃ e s', step p s e = some s' := by
  obtain ⟨hC, hT, hN⟩ := InvAll_of_reaches h
  obtain ⟨e, s', hs, _⟩ := progress hW hC hT hN (InvMd5.of_reaches hne h) hnf
  exact ⟨e, s', step_of_Step hs⟩

/-- Stronger form: the enabled step can be chosen so that a `join` of a worker is only used when
*all* workers have exited, and a `join` of the hasher only when it has exited. So the result also
holds for the real `JoinHandle::join`, which waits for one particular worker. -/
theorem C06_deadlock_free_strong (p : Params) (hW : 0 < p.W) (hne : p.NonemptyBlocks)
    (s : State) (h : Reaches p s) (hnf : ¬ s.final) :
    ∃ e s', step p s e = some s' ∧
      (e = .m_joined_worker → ∀ pc ∈ s.workers, pc = .exited) ∧
      (e = .m_joined_hasher → s.hasher = .exited) := by
  obtain ⟨hC, hT, hN⟩ := InvAll_of_reaches h
  obtain ⟨e, s', hs, hj⟩ := progress hW hC hT hN (InvMd5.of_reaches hne h) hnf
  refine ⟨e, s', step_of_Step hs, hj, ?_⟩
  intro he; subst he; cases hs; assumption

/-- The potential (`Par.potential`: weighted sum of unread blocks, queue contents and program
counters) strictly decreases with every step, from any state whatsoever. -/
theorem C06_potential_decreases (p : Params) (s s' : State) (e : Ev) (h : step p s e = some s') :
    potential p s' < potential p s :=
  potential_decreases (Step_of_step h)

/-- Every run is finite; explicit bound `9·N + 3·W + 7` on the number of events. -/
theorem C06_run_length (p : Params) (evs : List Ev) (s : State) (h : replay p evs = .ok s) :
    evs.length ≤ 9 * p.blocks.length + 3 * p.W + 7 := by
  have := run_length_le (replay_ok_iff.1 h)
  rw [potential_init] at this; omega

set_option linter.unusedVariables false in
theorem C06_terminates (p : Params) (hW : 0 < p.W) :
    ∃ bound, ∀ evs s, replay p evs = .ok s → evs.length ≤ bound :=
  ⟨_, fun evs s h => C06_run_length p evs s h⟩

/-- Final states: the return value is the single-thread return value (`Ok` with all frames in order;
`Err(Config)` if a block that was read is invalid and precedes the failing read; `Err(Source)` if a
read failed first), all workers and the hasher have exited and have been joined (`main = done` is
only reachable through `m_joined_hasher` and `W` × `m_joined_worker`), and no work is left in the
encode queue. -/
theorem C06_final (p : Params) (hW : 0 < p.W) (s : State) (h : Reaches p s) (hf : s.final) :
    s.result = seqResult p ∧ (∀ pc ∈ s.workers, pc = .exited) ∧ s.workers.length = p.W ∧
    s.hasher = .exited ∧ s.main = .done ∧ (∀ x ∈ s.encodeQ, x = none) := by
  have hC := InvC.of_reaches h
  have hF := final_facts hW hC hf
  exact ⟨final_result hC (InvNum.of_reaches h) hF, hF.workersExited, hF.nworkers, hF.hasherExited,
    hf, hF.queueDrained⟩

/-- Which `Config` error is returned: the one recorded for the first invalid block (smallest key of
`parerrors`), and all reads up to that block had succeeded — exactly where the single-thread loop
stops with its `Config` error. -/
theorem C06_first_error (p : Params) (hW : 0 < p.W) (s : State) (h : Reaches p s) (hf : s.final)
    (n : Nat) (u : Unit) (rest : List (Nat × Unit)) (he : s.errors = (n, u) :: rest) :
    (∃ b, p.blocks[n]? = some b ∧ b.valid = false) ∧
    (∀ j b, j < n → p.blocks[j]? = some b → b.valid = true) ∧
    (∀ j, j ≤ n → p.readFailAt ≠ some j) := by
  have hC := InvC.of_reaches h
  exact final_first_error hC (InvNum.of_reaches h) (final_facts hW hC hf) he

/-- Every partial run can be completed: from every reachable state some continuation reaches a final
state (deadlock freedom + termination). In particular final states exist for all parameters. -/
theorem C06_completes (p : Params) (hW : 0 < p.W) (hne : p.NonemptyBlocks) (s : State)
    (h : Reaches p s) : ∃ evs s', run p s evs = some s' ∧ s'.final := by
  generalize hn : potential p s = n
  induction n using Nat.strongRecOn generalizing s with
  | _ n ih =>
    by_cases hf : s.final
    · exact ⟨[], s, rfl, hf⟩
    · obtain ⟨e, s1, hs⟩ := C06_deadlock_free p hW hne s h hf
      have hdec := C06_potential_decreases p s s1 e hs
      obtain ⟨evs, s', hrun, hfin⟩ := ih (potential p s1) (by omega) s1 (Reaches.step h hs) rfl
      exact ⟨e :: evs, s', by simp [run, hs, hrun], hfin⟩

/-- A maximal run (no step enabled at its end) ends in a final state. -/
theorem C06_maximal_run_final (p : Params) (hW : 0 < p.W) (hne : p.NonemptyBlocks) (s : State)
    (h : Reaches p s) (hmax : ∀ e, step p s e = none) : s.final := by
  apply Decidable.byContradiction
  intro hf
  obtain ⟨e, s', hs⟩ := C06_deadlock_free p hW hne s h hf
  rw [hmax e] at hs; cases hs

/-- Negative control: with `W = 0` nothing can ever happen (the refill queue is empty and there is no
worker), and the initial state is not final. The code excludes `W = 0`: `config.workers` is
`NonZeroUsize` and `FLACENC_WORKERS=0` is ignored (`.filter(|n| *n > 0)`). -/
theorem C06_W0_deadlock (p : Params) (hW : p.W = 0) :
    (∀ e, step p (init p) e = none) ∧ ¬ (init p).final := by
  refine ⟨?_, by simp [State.final, init]⟩
  intro e
  cases e <;> simp [step, init, hW, Params.nbuf]
  case encode_send x => cases x <;> simp

/-- No panic at `frame_number.expect(FRAMENUM_NOT_SET)`, no out-of-range buffer index: whenever a
worker has received a buffer id, that buffer exists, is labelled with a frame number `n` that has been
handed out, and holds block `n`; and the worker's `lock` cannot block (see `C05_no_lock_contention`). -/
theorem C06_framenum_set (p : Params) (s : State) (h : Reaches p s) (id : Nat)
    (hpc : WPc.got id ∈ s.workers) :
    ∃ x n, s.bufs[id]? = some x ∧ x.num = some n ∧ n < s.k ∧ p.blocks[n]? = some x.blk := by
  have := (InvNum.of_reaches h).workers _ hpc
  obtain ⟨n, x, h1, h2, h3, h4⟩ := this
  exact ⟨x, n, h1, h2, h3, h4⟩

/-- Channel capacities are respected; moreover the refill channel is never full (so `enqueue_refill`
never blocks) and stop tokens are queued only behind all work items. -/
theorem C06_capacities (p : Params) (s : State) (h : Reaches p s) :
    s.refillQ.length ≤ 2 * p.W ∧ s.encodeQ.length ≤ p.encodeCap ∧ s.md5Q.length ≤ md5Cap ∧
    NSAN s.encodeQ ∧ (0 < s.exitedCount → ∀ x ∈ s.encodeQ, x = none) := by
  have hC := InvC.of_reaches h
  have hT := (InvTok.of_reaches h).lengths
  exact ⟨by omega, hC.capE, hC.capM, hC.shape, hC.drained⟩

/-- MD5 channel: at every moment, what was hashed followed by the queued blocks is the byte stream
of the blocks read so far, and only stop tokens follow the data in the queue. -/
theorem C06_md5_stream (p : Params) (hne : p.NonemptyBlocks) (s : State) (h : Reaches p s) :
    ∃ d e, s.md5Q = d ++ List.replicate e [] ∧ (∀ b ∈ d, b ≠ []) ∧
      s.hashed ++ d.flatten = prefixBytes p (md5Sent s.main s.k) ∧
      (s.hasher = .exited → d = []) := by
  obtain ⟨d, e, h1, h2, h3, _, h5⟩ := InvMd5.of_reaches hne h
  exact ⟨d, e, h1, h2, h3, fun hh => (h5 hh).1⟩

/-- Why `NonemptyBlocks` is assumed: the empty byte block doubles as the stop token of the md5
channel. With an input whose first block is empty the model reaches a state that is not final and
in which no step at all is enabled (`W = 1`, 18 blocks; the hasher exited on the empty data block,
the md5 channel is full, the feeder waits forever). The sources shipped with the crate never produce
such a block (a read of 0 samples is end-of-input). -/
theorem C06_empty_block_deadlock :
    ∃ s, Reaches Examples.pEmptyBlock s ∧ ¬ s.final ∧ ∀ e, step Examples.pEmptyBlock s e = none := by
  have h : (match run Examples.pEmptyBlock (init Examples.pEmptyBlock) Examples.trEmptyBlock with
    | some s => decide (StuckOnMd5 Examples.pEmptyBlock s) | none => false) = true := by decide
  cases hr : run Examples.pEmptyBlock (init Examples.pEmptyBlock) Examples.trEmptyBlock with
  | none => rw [hr] at h; cases h
  | some s =>
    rw [hr] at h
    have hs : StuckOnMd5 Examples.pEmptyBlock s := of_decide_eq_true h
    refine ⟨s, Reaches_of_run Reaches.init hr, ?_, hs.no_step⟩
    obtain ⟨⟨id, hm⟩, _⟩ := hs
    intro hf; rw [State.final, hm] at hf; cases hf

/-! ### non-vacuity: complete runs with faults (`W = 1`, two blocks), checked by the kernel -/

section
open Par.Examples

theorem reaches_of_outcome {p : Params} {tr : List Ev} {r : Except ErrKind (List Nat)}
    {hd : List Nat} (h : outcome p tr = some (r, hd)) :
    ∃ s, Reaches p s ∧ s.final ∧ s.result = r ∧ s.hashed = hd := by
  unfold outcome at h
  cases hr : run p (init p) tr with
  | none => rw [hr] at h; cases h
  | some s =>
    rw [hr] at h
    by_cases hf : s.final
    · simp only [hf, if_true, Option.some.injEq, Prod.mk.injEq] at h
      exact ⟨s, Reaches_of_run Reaches.init hr, hf, h.1, h.2⟩
    · simp [hf] at h

/-- read 1 fails: the run completes with `Err(Source)`, block 0 was hashed -/
example : ∃ s, Reaches pReadFail s ∧ s.final ∧ s.result = .error .source ∧ s.hashed = [1, 2] :=
  reaches_of_outcome (tr := trReadFail) (by decide)

/-- block 0 invalid: the run completes with `Err(Config)` -/
example : ∃ s, Reaches pInvalid s ∧ s.final ∧ s.result = .error .config ∧
    s.hashed = [1, 2, 5, 6] :=
  reaches_of_outcome (tr := trInvalid) (by decide)

example : ∃ s, Reaches pOk s ∧ s.final ∧ s.result = .ok [0, 1] ∧ s.hashed = [1, 2, 5, 6] :=
  reaches_of_outcome (tr := trOk) (by decide)

example : seqResult pOk = .ok [0, 1] ∧ seqResult pReadFail = .error .source ∧
    seqResult pInvalid = .error .config := by decide

example : 0 < pReadFail.W ∧ pReadFail.NonemptyBlocks ∧ pInvalid.NonemptyBlocks := by
  refine ⟨by decide, ?_, ?_⟩ <;>
  · intro b hb
    simp [pReadFail, pInvalid, blk] at hb
    rcases hb with rfl | rfl <;> simp

/-- the initial state of a `W = 1` run is not final and not stuck -/
example : ¬ (init pOk).final ∧ step pOk (init pOk) (.refill_recv 0) ≠ none := by decide

end

end FlacVerif
