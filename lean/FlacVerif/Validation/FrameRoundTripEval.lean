import FlacVerif.Lemmas.StrictFrame
open FlacVerif

def cfgFix : SubCfg := ⟨true, true, false, 4, true, 14⟩
def stAll : StereoCfg := ⟨true, true, true⟩

def rtFrame (cfg : SubCfg) (st : StereoCfg) (chans : List (List Int)) (bps rate number : Nat) (log : List OEvent)
    (more : List Nat) : Option (Option (List (List Int)) × Nat × Nat × Nat × Bool) :=
  (encodeFrame cfg st chans bps rate number log).bind fun (f, _) =>
    (f.bits rfcCrc8 rfcCrc16).map fun fb =>
      let info : Rfc.Info := ⟨16, 4096, 0, 0, rate, chans.length, bps, 0, []⟩
      match Rfc.readFrame info number (packBytes fb ++ more) (fb ++ bytesToBits more) with
      | .ok (rep, m, mb) => (some rep.channels, rep.assignment, rep.byteLen, fb.length, m == more && mb == bytesToBits more)
      | .error _ => (none, 0, 0, fb.length, false)

def noise : List Int := (List.range 64).map fun (t : Nat) => ((t : Int) * 7919 % 2001) - 1000
def Lq : List Int := (List.range 64).map fun (t : Nat) => ((t : Int) * 7919 % 2001) - 1000 + (t : Int) / 9
#eval (rtFrame cfgFix stAll [Lq, noise] 16 44100 5 [] [1,2,3]).map fun r => (r.1 == some [Lq, noise], r.2)
#eval (rtFrame cfgFix stAll [noise, Lq] 16 44100 5 [] [1,2,3]).map fun r => (r.1 == some [noise, Lq], r.2)
#eval (rtFrame cfgFix ⟨false, false, true⟩ [noise, Lq] 16 44100 5 [] [1,2,3]).map fun r => (r.1 == some [noise, Lq], r.2)
#eval (rtFrame cfgFix ⟨false, true, false⟩ [noise, Lq] 16 44100 5 [] [1,2,3]).map fun r => (r.1 == some [noise, Lq], r.2)
#eval (rtFrame cfgFix ⟨false, true, false⟩ [Lq, noise] 16 44100 5 [] [1,2,3]).map fun r => (r.1 == some [Lq, noise], r.2)

set_option maxRecDepth 1000000 in
example : (rtFrame cfgFix stAll [[1, -2, 3], [4, 5, 6]] 16 44100 5 [] [9]).map (·.1) = some (some [[1, -2, 3], [4, 5, 6]]) := by
  decide
