import FlacVerif.Theorems.C01Strict
open FlacVerif
#print axioms C01_residual_strict
#print axioms C01_residual_ofErrors
#print axioms C01_residual_search
#print axioms C01_diffs_fixed
#print axioms C01_computeError
#print axioms C01_fitsResidual64
#print axioms C01_subframe_strict'
#print axioms C01_subframe_strict
#print axioms C01_subframe_strict_nolpc
#print axioms C01_frame_strict
#print axioms C01_frame_strict_nolpc
#print axioms C02_utf8_strict
#print axioms C01_stream_strict
#print axioms C01_stream_strict_nolpc
#print axioms Strict.readFrame_eq
#print axioms Strict.frameLoop_eq
#print axioms Strict.analyzeRec_eq
#print axioms C01StrictEx.C01_flag_needed
