import FlacVerif.Model.RfcRec
import FlacVerif.Model.EncodeStream
import FlacVerif.Model.Md5
open FlacVerif

def cfgFix : SubCfg := ⟨true, true, false, 4, true, 14⟩
def stAll : StereoCfg := ⟨true, true, true⟩

def streamBytes (bs : Nat) (chans : List (List Int)) (bps rate : Nat) (mblocks : List UnknownBlock) : Option (List Nat) :=
  (encodeStream Md5.md5 cfgFix stAll bs chans bps rate []).bind fun (s, _) =>
    ({ s with metadata := mblocks }.bits rfcCrc8 rfcCrc16).map packBytes

def show' (r : Rfc.R Rfc.Report) : String :=
  match r with
  | .ok rep => s!"ok {repr rep.info} {rep.metadataBlocks} {rep.frames.length} {rep.audio}"
  | .error e => s!"error {e}"

def same (bytes : List Nat) : Bool := show' (Rfc.analyze Md5.md5 bytes) == show' (Rfc.analyzeRec Md5.md5 bytes)

def L : List Int := (List.range 40).map fun (t : Nat) => ((t : Int) * (t : Int)) / 7 - 30
def Rr : List Int := (List.range 40).map fun (t : Nat) => ((t : Int) * 37 % 11) - 5

/-- all single-byte mutations (xor with `m`), all truncations, and the stream itself -/
def variants (bytes : List Nat) : List (List Nat) :=
  [bytes] ++ (List.range bytes.length).map (fun i => bytes.take i) ++
  (List.range bytes.length).flatMap (fun i => [1, 0x80, 0xFF].map fun m => bytes.set i ((bytes.getD i 0) ^^^ m)) ++
  [bytes ++ [0], bytes ++ bytes.drop 42]

def check (name : String) (o : Option (List Nat)) : IO Unit :=
  match o with
  | none => IO.println s!"{name}: no stream"
  | some bytes => do
    let vs := variants bytes
    let bad := vs.filter (fun v => !same v)
    let oks := vs.filter (fun v => match Rfc.analyzeRec Md5.md5 v with | .ok _ => true | .error _ => false)
    IO.println s!"{name}: {bytes.length} bytes, {vs.length} variants, {bad.length} disagreements, {oks.length} accepted; original: {(show' (Rfc.analyzeRec Md5.md5 bytes)).take 60}"

#eval check "stereo 40 samples bs 16" (streamBytes 16 [L, Rr] 16 44100 [])
#eval check "mono 40 samples bs 16 + 2 metadata blocks" (streamBytes 16 [L] 12 8000 [⟨4, [1,2,3]⟩, ⟨1, [0,0,0,0,0]⟩])
#eval check "empty input" (streamBytes 16 [[], []] 16 44100 [])
#eval check "empty input + metadata" (streamBytes 16 [[]] 16 44100 [⟨4, []⟩])
#eval check "one short frame" (streamBytes 4096 [L, Rr, L] 20 96000 [])
#eval (streamBytes 16 [L, Rr] 16 44100 []).map fun b => (match Rfc.analyzeRec Md5.md5 b with | .ok rep => (rep.audio == [L, Rr], rep.frames.length, rep.info.total) | .error _ => (false, 0, 0))
