import FlacVerif.Driver.SinkDrv
open FlacVerif Proto Drv

def handle (line : String) : Option String :=
  let (kind, r) := parseRecord line
  let id := r.get "id"
  match kind with
  | "" => none
  | "sink" => some ((sinkRecord r).render id)
  | k => some s!"SKIP {id} unknown-record-kind-{k}"

partial def loop (h : IO.FS.Stream) (out : IO.FS.Stream) : IO Unit := do
  let line ← h.getLine
  if line.isEmpty then return ()
  match handle line with
  | some s => out.putStrLn s
  | none => pure ()
  loop h out

def main : IO Unit := do
  let stdin ← IO.getStdin
  let stdout ← IO.getStdout
  loop stdin stdout
