import FlacVerif.Driver.SinkDrv
import FlacVerif.Driver.StreamDrv
import FlacVerif.Driver.KernelDrv
import FlacVerif.Driver.CompDrv
import FlacVerif.Driver.ParDrv
import FlacVerif.Driver.ApiDrv
import FlacVerif.Driver.HistoryDrv
import FlacVerif.Driver.ParserDrv
open FlacVerif Proto Drv

def renderAll (id : String) (vs : List Verdict) (stats : List String) : List String :=
  let bad := vs.filter fun v => match v with | .ok => false | _ => true
  (if bad.isEmpty then [s!"OK {id}"] else bad.map (·.render id)) ++ stats.map (fun s => s!"STAT {s}")

def handle (line : String) : List String :=
  let (kind, r) := parseRecord line
  let id := r.get "id"
  if line.startsWith "#" then [] else
  match kind with
  | "" => []
  | "sink" => [(sinkRecord r).render id]
  | "stream" => let (vs, st) := streamRecord r; renderAll id vs st
  | "kernel" => let (vs, st) := kernelRecord r; renderAll id vs st
  | "comp" => let (vs, st) := compRecord r; renderAll id vs st
  | "par" => let (vs, st) := parRecord r; renderAll id vs st
  | "api" => let (vs, st) := apiRecord r; renderAll id vs st
  | "history" => let (vs, st) := historyRecord r; renderAll id vs st
  | "parser" => let (vs, st) := parserRecord r; renderAll id vs st
  | k => [s!"SKIP {id} unknown-record-kind-{k}"]

partial def loop (h : IO.FS.Stream) (out : IO.FS.Stream) : IO Unit := do
  let line ← h.getLine
  if line.isEmpty then return ()
  for s in handle line do
    out.putStrLn s
  loop h out

def main : IO Unit := do
  let stdin ← IO.getStdin
  let stdout ← IO.getStdout
  loop stdin stdout
