import FlacVerif.Driver.ConfigDrv
open FlacVerif Proto Drv

/-- Driver for the `config` stream. A separate executable because it is the only one that links the
GENERATED modules (`FlacVerif/Gen/*`): a source change the translator cannot read must break the
configuration properties only, not every check. -/
def handleC (line : String) : List String :=
  let (kind, r) := parseRecord line
  let id := r.get "id"
  if line.startsWith "#" then [] else
  match kind with
  | "" => []
  | "config" =>
    let (vs, st) := configRecord r
    let bad := vs.filter fun v => match v with | .ok => false | _ => true
    (if bad.isEmpty then [s!"OK {id}"] else bad.map (·.render id)) ++ st.map (fun s => s!"STAT {s}")
  | k => [s!"SKIP {id} unknown-record-kind-{k}"]

partial def loopC (h : IO.FS.Stream) (out : IO.FS.Stream) : IO Unit := do
  let line ← h.getLine
  if line.isEmpty then return ()
  for s in handleC line do
    out.putStrLn s
  loopC h out

def main : IO Unit := do
  loopC (← IO.getStdin) (← IO.getStdout)
